/-
C06 — helper lemmas (core Lean only).
  §1 bag comparison (greedy matching)
  §2 the `'--'` encoding of `_vf2_inv_map` is injective on clean labels
  §3 dictionary lookups in the augmented graph
  §4 the matcher's invariant: every mapping the search holds is an injective partial isomorphism
-/
import Verif.Common.SemLemmas
import Verif.C06.Model

namespace Verif.C06
open Verif.Sem

/-! ## §1 bags -/

section Bags
variable {α : Type}

theorem findIdx?_some_lt {p : α → Bool} {l : List α} {i : Nat} (h : l.findIdx? p = some i) :
    ∃ hi : i < l.length, p l[i] = true := by
  induction l generalizing i with
  | nil => simp at h
  | cons a l ih =>
    rw [List.findIdx?_cons] at h
    cases hp : p a with
    | true =>
      simp [hp] at h
      subst h
      exact ⟨by simp, by simpa using hp⟩
    | false =>
      simp [hp] at h
      obtain ⟨j, hq, rfl⟩ := h
      obtain ⟨hj, hpj⟩ := ih hq
      exact ⟨by simp; omega, by simpa using hpj⟩

theorem findIdx?_none_all {p : α → Bool} {l : List α} (h : l.findIdx? p = none) :
    ∀ x ∈ l, p x = false := by
  induction l with
  | nil => intro x hx; cases hx
  | cons a l ih =>
    rw [List.findIdx?_cons] at h
    cases hp : p a with
    | true => simp [hp] at h
    | false =>
      simp [hp] at h
      intro x hx
      rcases List.mem_cons.1 hx with rfl | hx
      · exact hp
      · exact h x hx

theorem length_eraseIdx_lt (l : List α) (i : Nat) (h : i < l.length) :
    (l.eraseIdx i).length + 1 = l.length := by
  rw [List.length_eraseIdx]
  simp [h]
  omega

theorem bagStep_counts (iso : α → α → Bool) (st : List α × List α × List α) (t : α) :
    (bagStep iso st t).1.length + (bagStep iso st t).2.1.length = st.1.length + st.2.1.length + 1
    ∧ (bagStep iso st t).2.1.length + (bagStep iso st t).2.2.length = st.2.1.length + st.2.2.length := by
  unfold bagStep
  cases h : st.2.2.findIdx? (fun g => iso t g) with
  | none => simp; omega
  | some i =>
    obtain ⟨hi, _⟩ := findIdx?_some_lt h
    have := length_eraseIdx_lt st.2.2 i hi
    simp
    omega

theorem foldl_bagStep_counts (iso : α → α → Bool) (test : List α) (st : List α × List α × List α) :
    (test.foldl (bagStep iso) st).1.length + (test.foldl (bagStep iso) st).2.1.length
        = st.1.length + st.2.1.length + test.length
    ∧ (test.foldl (bagStep iso) st).2.1.length + (test.foldl (bagStep iso) st).2.2.length
        = st.2.1.length + st.2.2.length := by
  induction test generalizing st with
  | nil => simp
  | cons t ts ih =>
    simp only [List.foldl_cons, List.length_cons]
    obtain ⟨a, b⟩ := ih (bagStep iso st t)
    obtain ⟨c, d⟩ := bagStep_counts iso st t
    omega

theorem countP_eraseIdx (p : α → Bool) (l : List α) (i : Nat) (h : i < l.length) :
    (l.eraseIdx i).countP p + (if p l[i] then 1 else 0) = l.countP p := by
  induction l generalizing i with
  | nil => simp at h
  | cons a l ih =>
    cases i with
    | zero => simp [List.countP_cons]
    | succ j =>
      have hj : j < l.length := by simpa using h
      have := ih j hj
      simp only [List.eraseIdx_cons_succ, List.countP_cons, List.getElem_cons_succ]
      omega

/-- greedy matching is perfect for an equivalence relation: if every class has as many members in
`gold` as in `test`, everything is shared -/
theorem foldl_bagStep_perfect (iso : α → α → Bool)
    (refl : ∀ a, iso a a = true) (symm : ∀ a b, iso a b = true → iso b a = true)
    (trans : ∀ a b c, iso a b = true → iso b c = true → iso a c = true)
    (test : List α) (u s gold : List α)
    (hcount : ∀ x, test.countP (iso x) = gold.countP (iso x)) :
    test.foldl (bagStep iso) (u, s, gold) = (u, s ++ test, []) := by
  induction test generalizing s gold with
  | nil =>
    have : gold = [] := by
      cases gold with
      | nil => rfl
      | cons g gs =>
        have := hcount g
        simp [refl] at this
    simp [this]
  | cons t ts ih =>
    simp only [List.foldl_cons]
    have hpos : 0 < gold.countP (iso t) := by
      rw [← hcount t]; simp [refl]
    cases hf : gold.findIdx? (fun g => iso t g) with
    | none =>
      have hall := findIdx?_none_all hf
      have : gold.countP (iso t) = 0 := by
        rw [List.countP_eq_zero]
        intro x hx; simp [hall x hx]
      omega
    | some i =>
      obtain ⟨hi, hti⟩ := findIdx?_some_lt hf
      have hstep : bagStep iso (u, s, gold) t = (u, s ++ [t], gold.eraseIdx i) := by
        simp [bagStep, hf]
      rw [hstep]
      have hcount' : ∀ x, ts.countP (iso x) = (gold.eraseIdx i).countP (iso x) := by
        intro x
        have h1 := countP_eraseIdx (iso x) gold i hi
        have h2 := hcount x
        rw [List.countP_cons] at h2
        have hiff : iso x t = iso x gold[i] := by
          cases hxt : iso x t with
          | true => exact (trans _ _ _ hxt hti).symm
          | false =>
            cases hxg : iso x gold[i] with
            | false => rfl
            | true =>
              have := trans _ _ _ hxg (symm _ _ hti)
              rw [hxt] at this; cases this
        rw [hiff] at h2
        omega
      rw [ih (s ++ [t]) (gold.eraseIdx i) hcount']
      simp

end Bags

/-! ## §2 the inverse-edge encoding -/

/-- the augmented label of the pair (forward label, opposite label) -/
def combine : Option Label → Option Label → Option Label
  | some a, some b => some (a ++ [' '] ++ invPrefix ++ b)
  | some a, none => some a
  | none, some b => some (invPrefix ++ b)
  | none, none => none

/-- a label that starts with no `--` and contains no ` --` -/
def CleanL (l : Label) : Prop :=
  (∀ suf, l ≠ invPrefix ++ suf) ∧ (∀ pre suf, l ≠ pre ++ (' ' :: invPrefix) ++ suf)

theorem isInfixC_false {a l : List Char} (ha : a ≠ []) (h : isInfixC a l = false) :
    ∀ pre suf, l ≠ pre ++ a ++ suf := by
  induction l with
  | nil =>
    intro pre suf e
    have : pre ++ a ++ suf = [] := e.symm
    simp at this
    exact ha this.2.1
  | cons c b ih =>
    simp only [isInfixC, Bool.or_eq_false_iff] at h
    intro pre suf e
    cases pre with
    | nil =>
      have hp : a.isPrefixOf (c :: b) = true := by
        rw [List.isPrefixOf_iff_prefix]
        exact ⟨suf, by simpa using e.symm⟩
      rw [hp] at h; cases h.1
    | cons d pre' =>
      have e' : b = pre' ++ a ++ suf := by
        simp only [List.cons_append, List.cons.injEq] at e
        exact e.2
      exact ih h.2 pre' suf e'

theorem cleanL_of_cleanLabel {l : Label} (h : cleanLabel l = true) : CleanL l := by
  simp only [cleanLabel, Bool.and_eq_true, Bool.not_eq_true'] at h
  constructor
  · intro suf e
    have : invPrefix.isPrefixOf l = true := by
      rw [List.isPrefixOf_iff_prefix]; exact ⟨suf, e.symm⟩
    rw [this] at h; cases h.1
  · exact isInfixC_false (by simp) h.2

theorem CleanL.tail {c : Char} {l : Label} (h : ∀ pre suf, (c :: l) ≠ pre ++ (' ' :: invPrefix) ++ suf) :
    ∀ pre suf, l ≠ pre ++ (' ' :: invPrefix) ++ suf := by
  intro pre suf e
  exact h (c :: pre) suf (by simp [e])

/-- `' --' + b = a' + ' --' + b'` with no `' --'` inside `a'` forces `a' = ''` -/
theorem sep_head {a' b b' : Label} (hn : ∀ pre suf, a' ≠ pre ++ (' ' :: invPrefix) ++ suf)
    (e : (' ' :: invPrefix) ++ b = a' ++ (' ' :: invPrefix) ++ b') : a' = [] := by
  cases a' with
  | nil => rfl
  | cons c a2 =>
    exfalso
    simp [invPrefix] at e
    obtain ⟨hc, e⟩ := e
    cases a2 with
    | nil => simp at e
    | cons d a3 =>
      simp at e
      obtain ⟨hd, e⟩ := e
      cases a3 with
      | nil => simp at e
      | cons f a4 =>
        simp at e
        obtain ⟨hf, _⟩ := e
        subst hc; subst hd; subst hf
        exact hn [] a4 (by simp [invPrefix])

/-- `'--' + y` is never `x + ' --' + y'` when `x` does not start with `--` -/
theorem inv_ne_sep {x y y' : Label} (hx : ∀ suf, x ≠ invPrefix ++ suf)
    (e : invPrefix ++ y = x ++ (' ' :: invPrefix) ++ y') : False := by
  cases x with
  | nil => simp [invPrefix] at e
  | cons c x2 =>
    simp [invPrefix] at e
    obtain ⟨hc, e⟩ := e
    cases x2 with
    | nil => simp at e
    | cons d x3 =>
      simp at e
      obtain ⟨hd, _⟩ := e
      subst hc; subst hd
      exact hx x3 (by simp [invPrefix])

theorem sep_inj : ∀ (a a' b b' : Label),
    (∀ pre suf, a ≠ pre ++ (' ' :: invPrefix) ++ suf) →
    (∀ pre suf, a' ≠ pre ++ (' ' :: invPrefix) ++ suf) →
    a ++ (' ' :: invPrefix) ++ b = a' ++ (' ' :: invPrefix) ++ b' → a = a' ∧ b = b' := by
  intro a
  induction a with
  | nil =>
    intro a' b b' _ hn' e
    have : a' = [] := sep_head hn' (by simpa using e)
    subst this
    exact ⟨rfl, by simpa using e⟩
  | cons c a ih =>
    intro a' b b' hn hn' e
    cases a' with
    | nil =>
      have : c :: a = [] := sep_head hn (by simpa using e.symm)
      cases this
    | cons c' a2 =>
      simp only [List.cons_append, List.cons.injEq] at e
      obtain ⟨hc, e⟩ := e
      obtain ⟨h1, h2⟩ := ih a2 b b' (CleanL.tail hn) (CleanL.tail hn') (by simpa using e)
      exact ⟨by rw [hc, h1], h2⟩

/-- the pair (forward label, opposite label) can be read back from the augmented label -/
theorem combine_inj {a b a' b' : Option Label}
    (ha : ∀ l, a = some l → CleanL l) (ha' : ∀ l, a' = some l → CleanL l)
    (e : combine a b = combine a' b') : a = a' ∧ b = b' := by
  cases a with
  | none =>
    cases b with
    | none =>
      cases a' <;> cases b' <;> simp [combine] at e ⊢
    | some y =>
      cases a' with
      | none =>
        cases b' with
        | none => simp [combine] at e
        | some y' =>
          simp only [combine, Option.some.injEq, List.append_cancel_left_eq] at e
          simp [e]
      | some x' =>
        exfalso
        have hx := ha' x' rfl
        cases b' with
        | none =>
          simp only [combine, Option.some.injEq] at e
          exact hx.1 y e.symm
        | some y' =>
          simp only [combine, Option.some.injEq] at e
          exact inv_ne_sep hx.1 (by simpa using e)
  | some x =>
    have hx := ha x rfl
    cases a' with
    | none =>
      exfalso
      cases b with
      | none =>
        cases b' with
        | none => simp [combine] at e
        | some y' =>
          simp only [combine, Option.some.injEq] at e
          exact hx.1 y' e
      | some y =>
        cases b' with
        | none => simp [combine] at e
        | some y' =>
          simp only [combine, Option.some.injEq] at e
          exact inv_ne_sep hx.1 (by simpa using e.symm)
    | some x' =>
      have hx' := ha' x' rfl
      cases b with
      | none =>
        cases b' with
        | none =>
          simp only [combine, Option.some.injEq] at e
          simp [e]
        | some y' =>
          exfalso
          simp only [combine, Option.some.injEq] at e
          exact hx.2 x' y' (by simpa using e)
      | some y =>
        cases b' with
        | none =>
          exfalso
          simp only [combine, Option.some.injEq] at e
          exact hx'.2 x y (by simpa using e.symm)
        | some y' =>
          simp only [combine, Option.some.injEq] at e
          obtain ⟨h1, h2⟩ := sep_inj x x' y y' hx.2 hx'.2 (by simpa using e)
          simp [h1, h2]

/-! ## §3 lookups in the augmented graph -/

section Dict
variable {κ ν ν' : Type} [DecidableEq κ]

theorem dlookup_append (k : κ) (a b : List (κ × ν)) :
    dlookup k (a ++ b) = match dlookup k a with | some v => some v | none => dlookup k b := by
  induction a with
  | nil => simp [dlookup]
  | cons e a ih =>
    obtain ⟨k', v⟩ := e
    by_cases h : k' = k
    · simp [dlookup, h]
    · simp only [List.cons_append, dlookup, if_neg h, ih]

theorem dlookup_map_val (k : κ) (d : List (κ × ν)) (F : κ → ν → ν') :
    dlookup k (d.map (fun e => (e.1, F e.1 e.2))) = (dlookup k d).map (F k) := by
  induction d with
  | nil => simp [dlookup]
  | cons e d ih =>
    obtain ⟨k', v⟩ := e
    by_cases h : k' = k
    · subst h; simp [dlookup]
    · simp only [List.map_cons, dlookup, if_neg h, ih]

end Dict

theorem dlookup_filterMap_keys (ks : List Node) (F : Node → Option Label) (v : Node) :
    dlookup (some v) (ks.filterMap (fun k => (F k).map (fun b => ((some k : Option Node), b))))
      = if v ∈ ks then F v else none := by
  induction ks with
  | nil => simp [dlookup]
  | cons k ks ih =>
    rw [List.filterMap_cons]
    cases hF : F k with
    | none =>
      simp only [Option.map_none]
      rw [ih]
      by_cases hv : v = k
      · subst hv; simp [hF]
      · simp [hv]
    | some b =>
      simp only [Option.map_some]
      by_cases hv : k = v
      · subst hv; simp [dlookup, hF]
      · have hv' : ¬ v = k := fun e => hv e.symm
        have hk : ¬ (some k : Option Node) = some v := by simpa using hv
        simp only [dlookup, if_neg hk, ih, List.mem_cons, hv', false_or]

theorem dlookup_none_filterMap_keys (ks : List Node) (F : Node → Option Label) :
    dlookup (none : Option Node) (ks.filterMap (fun k => (F k).map (fun b => ((some k : Option Node), b))))
      = none := by
  induction ks with
  | nil => simp [dlookup]
  | cons k ks ih =>
    rw [List.filterMap_cons]
    cases hF : F k with
    | none => simpa using ih
    | some b => simp [dlookup, ih]

theorem dkeys_invMapRaw (g : IsoGraph) : dkeys (invMapRaw g) = dkeys g := by
  simp [invMapRaw, dkeys, List.map_map, Function.comp_def]

theorem length_invMapRaw (g : IsoGraph) : (invMapRaw g).length = g.length := by
  simp [invMapRaw]

theorem dlookup_invMapRaw (g : IsoGraph) (u : Node) :
    dlookup u (invMapRaw g) = (dlookup u g).map (augAdj g u) :=
  dlookup_map_val u g (fun k v => augAdj g k v)

theorem edge_adj (g : IsoGraph) (n : Node) (t : Option Node) : dlookup t (adj g n) = edge g n t := by
  unfold adj edge
  cases dlookup n g <;> simp [dlookup]

theorem edge_none_of_not_mem (g : IsoGraph) (v : Node) (t : Option Node) (h : v ∉ dkeys g) :
    edge g v t = none := by
  unfold edge
  rw [(dlookup_eq_none_iff v g).2 h]; rfl

theorem edge_aug_none (g : IsoGraph) (u : Node) : edge (invMapRaw g) u none = edge g u none := by
  unfold edge
  rw [dlookup_invMapRaw]
  cases dlookup u g with
  | none => rfl
  | some adjU =>
    simp only [Option.map_some, Option.bind_some, augAdj]
    rw [dlookup_append, dlookup_map_val, dlookup_none_filterMap_keys]
    cases dlookup none adjU <;> simp [augLabel]

theorem edge_aug_self (g : IsoGraph) (u : Node) :
    edge (invMapRaw g) u (some u) = edge g u (some u) := by
  unfold edge
  rw [dlookup_invMapRaw]
  cases dlookup u g with
  | none => rfl
  | some adjU =>
    simp only [Option.map_some, Option.bind_some, augAdj]
    rw [dlookup_append, dlookup_map_val, dlookup_filterMap_keys]
    cases h : dlookup (some u) adjU with
    | some l => simp [augLabel]
    | none => simp [incoming]

theorem edge_aug_ne (g : IsoGraph) (u v : Node) (hu : u ∈ dkeys g) (hne : v ≠ u) :
    edge (invMapRaw g) u (some v) = combine (edge g u (some v)) (edge g v (some u)) := by
  obtain ⟨adjU, hU⟩ := dlookup_of_mem_keys hu
  have h1 : edge (invMapRaw g) u (some v) = dlookup (some v) (augAdj g u adjU) := by
    unfold edge; rw [dlookup_invMapRaw, hU]; rfl
  have h2 : edge g u (some v) = dlookup (some v) adjU := by
    unfold edge; rw [hU]; rfl
  rw [h1, h2, augAdj, dlookup_append, dlookup_map_val, dlookup_filterMap_keys]
  cases hl : dlookup (some v) adjU with
  | some l =>
    simp only [Option.map_some, augLabel, if_neg hne]
    cases edge g v (some u) <;> simp [combine]
  | none =>
    simp only [Option.map_none, incoming, if_neg hne, hl]
    by_cases hv : v ∈ dkeys g
    · simp only [if_pos hv]
      cases edge g v (some u) <;> simp [combine]
    · simp only [if_neg hv, edge_none_of_not_mem g v _ hv, combine]

/-! ## §4 the matcher's invariant -/

theorem mem_insertNode {a x : Node} {l : List Node} (h : a ∈ insertNode x l) : a = x ∨ a ∈ l := by
  induction l with
  | nil => simpa [insertNode] using h
  | cons y ys ih =>
    unfold insertNode at h
    split at h
    · simpa using h
    · split at h
      · exact Or.inr h
      · rcases List.mem_cons.1 h with h | h
        · exact Or.inr (by simp [h])
        · rcases ih h with h | h
          · exact Or.inl h
          · exact Or.inr (List.mem_cons_of_mem _ h)

theorem mem_sortDedup {a : Node} {l : List Node} (h : a ∈ sortDedup l) : a ∈ l := by
  induction l with
  | nil => simp [sortDedup] at h
  | cons x xs ih =>
    have h' : a ∈ insertNode x (sortDedup xs) := by simpa [sortDedup] using h
    rcases mem_insertNode h' with h | h
    · simp [h]
    · exact List.mem_cons_of_mem _ (ih h)

/-- in the augmented form of a closed graph every edge target is a node -/
theorem closed_targets {g : IsoGraph} (hc : closed g = true) {n t : Node} {l : Label}
    (h : ((some t : Option Node), l) ∈ adj (invMapRaw g) n) : t ∈ dkeys g := by
  unfold adj at h
  rw [dlookup_invMapRaw] at h
  cases hN : dlookup n g with
  | none => simp [hN] at h
  | some adjN =>
    simp only [hN, Option.map_some, Option.getD_some, augAdj, List.mem_append] at h
    have hmem : (n, adjN) ∈ g := dlookup_mem hN
    have hn : n ∈ dkeys g := (dlookup_isSome_iff n g).1 (by simp [hN])
    rcases h with h | h
    · obtain ⟨e, he, heq⟩ := List.mem_map.1 h
      have h1 : e.1 = some t := by
        have := congrArg Prod.fst heq
        simpa using this
      have hall := List.all_eq_true.1 hc (n, adjN) hmem
      have := List.all_eq_true.1 hall e he
      simp only [h1, Bool.or_eq_true, beq_iff_eq, List.contains_iff_mem] at this
      rcases this with rfl | h2
      · exact hn
      · exact h2
    · obtain ⟨v, hv, heq⟩ := List.mem_filterMap.1 h
      cases hi : incoming g n adjN v with
      | none => simp [hi] at heq
      | some b =>
        simp only [hi, Option.map_some, Option.some.injEq, Prod.mk.injEq] at heq
        rw [← heq.1]; exact hv

theorem mem_frontier {g : IsoGraph} {mapped : List Node} {x : Node} (h : x ∈ frontier g mapped) :
    x ∉ mapped ∧ ∃ n l, ((some x : Option Node), l) ∈ adj g n := by
  unfold frontier at h
  obtain ⟨n, _, hx⟩ := List.mem_flatMap.1 h
  obtain ⟨e, he, hfe⟩ := List.mem_filterMap.1 hx
  obtain ⟨t, l⟩ := e
  cases t with
  | none => simp at hfe
  | some t =>
    simp at hfe
    obtain ⟨h1, rfl⟩ := hfe
    exact ⟨h1, n, l, he⟩

/-- every candidate pair consists of an unmapped node (or edge target) on each side -/
theorem candidates_spec (mp : Mapping) (a1 a2 : IsoGraph) (c : Node × Node)
    (h : c ∈ candidates mp a1 a2) :
    c.1 ∉ mp.map (·.1) ∧ c.2 ∉ mp.map (·.2)
    ∧ (c.1 ∈ dkeys a1 ∨ ∃ n l, ((some c.1 : Option Node), l) ∈ adj a1 n)
    ∧ (c.2 ∈ dkeys a2 ∨ ∃ n l, ((some c.2 : Option Node), l) ∈ adj a2 n) := by
  unfold candidates at h
  simp only at h
  split at h
  · rename_i x xs m ms h1 h2
    obtain ⟨n, hn, rfl⟩ := List.mem_map.1 h
    have hn' : n ∈ frontier a1 (mp.map (·.1)) := mem_sortDedup (by rw [h1] at *; exact hn)
    have hm' : m ∈ frontier a2 (mp.map (·.2)) := mem_sortDedup (by rw [h2]; exact List.mem_cons_self)
    obtain ⟨a, b⟩ := mem_frontier hn'
    obtain ⟨c, d⟩ := mem_frontier hm'
    exact ⟨a, c, Or.inr b, Or.inr d⟩
  · split at h
    · cases h
    · rename_i m ms h2
      obtain ⟨n, hn, rfl⟩ := List.mem_map.1 h
      have hn' := mem_sortDedup hn
      have hm' : m ∈ (dkeys a2).filter (fun x => !(mp.map (·.2)).contains x) :=
        mem_sortDedup (by rw [h2]; exact List.mem_cons_self)
      simp only [List.mem_filter, Bool.not_eq_true', List.contains_eq_mem, decide_eq_false_iff_not] at hn' hm'
      exact ⟨hn'.2, hm'.2, Or.inl hn'.1, Or.inl hm'.1⟩

theorem consistent_spec {look : Node → Option Node} {ga gb : IsoGraph} {a b : Node}
    (h : consistent look ga gb a b = true) {a' b' : Node} {l : Label}
    (he : edge ga a (some a') = some l) (hl : look a' = some b') : edge gb b (some b') = some l := by
  rw [← edge_adj] at he
  have hm := dlookup_mem he
  have := List.all_eq_true.1 h _ hm
  simp only [hl] at this
  rw [← edge_adj]
  exact eq_of_beq this

theorem feasible_spec {mp : Mapping} {a1 a2 : IsoGraph} {n m : Node} (h : feasible mp a1 a2 n m = true) :
    ((edge a1 n none).getD [] = (edge a2 m none).getD [])
    ∧ (edge a1 n (some n) = edge a2 m (some m))
    ∧ (∀ u l w, edge a1 n (some u) = some l → mget mp u = some w → edge a2 m (some w) = some l)
    ∧ (∀ w l u, edge a2 m (some w) = some l → minv mp w = some u → edge a1 n (some u) = some l) := by
  unfold feasible at h
  simp only [Bool.and_eq_true] at h
  obtain ⟨⟨⟨⟨h1, _⟩, h3⟩, h4⟩, h5⟩ := h
  refine ⟨?_, ?_, ?_, ?_⟩
  · rw [← edge_adj, ← edge_adj]; exact eq_of_beq h1
  · rw [← edge_adj, ← edge_adj]; exact eq_of_beq h3
  · intro u l w he hl; exact consistent_spec h4 he hl
  · intro w l u he hl; exact consistent_spec h5 he hl

theorem clean_edge {g : IsoGraph} (h : cleanGraph g = true) {n u : Node} {l : Label}
    (he : edge g n (some u) = some l) : CleanL l := by
  unfold edge at he
  cases hN : dlookup n g with
  | none => simp [hN] at he
  | some adjN =>
    simp only [hN, Option.bind_some] at he
    have h1 := List.all_eq_true.1 h _ (dlookup_mem hN)
    have h2 := List.all_eq_true.1 h1 _ (dlookup_mem he)
    exact cleanL_of_cleanLabel (by simpa using h2)

/-- the invariant of the search, stated on the graphs BEFORE `_vf2_inv_map`: the mapping is an
injective partial map between nodes that preserves node labels and edges (in both directions,
self loops included) among the mapped nodes -/
structure Good (g1 g2 : IsoGraph) (mp : Mapping) : Prop where
  keysNodup : (mp.map (·.1)).Nodup
  valsNodup : (mp.map (·.2)).Nodup
  keysIn : ∀ p ∈ mp, p.1 ∈ dkeys g1
  valsIn : ∀ p ∈ mp, p.2 ∈ dkeys g2
  nodeLbl : ∀ p ∈ mp, (edge g1 p.1 none).getD [] = (edge g2 p.2 none).getD []
  edges : ∀ p ∈ mp, ∀ q ∈ mp, edge g1 p.1 (some q.1) = edge g2 p.2 (some q.2)

theorem good_nil (g1 g2 : IsoGraph) : Good g1 g2 [] :=
  ⟨by simp, by simp, by simp, by simp, by simp, by simp⟩

theorem mget_of_mem {mp : Mapping} (hnd : (mp.map (·.1)).Nodup) {u w : Node} (h : (u, w) ∈ mp) :
    mget mp u = some w :=
  dlookup_of_mem_nodup (by simpa [dkeys] using hnd) h

theorem minv_of_mem {mp : Mapping} (hnd : (mp.map (·.2)).Nodup) {u w : Node} (h : (u, w) ∈ mp) :
    minv mp w = some u := by
  unfold minv
  apply dlookup_of_mem_nodup
  · simpa [dkeys, List.map_map, Function.comp_def] using hnd
  · exact List.mem_map.2 ⟨(u, w), h, rfl⟩

/-- a feasible candidate extends a good mapping to a good mapping -/
theorem good_step {g1 g2 : IsoGraph} (hc1 : closed g1 = true) (hc2 : closed g2 = true)
    (hl1 : cleanGraph g1 = true) (hl2 : cleanGraph g2 = true)
    {mp : Mapping} (hg : Good g1 g2 mp) {c : Node × Node}
    (hc : c ∈ candidates mp (invMapRaw g1) (invMapRaw g2))
    (hf : feasible mp (invMapRaw g1) (invMapRaw g2) c.1 c.2 = true) : Good g1 g2 (c :: mp) := by
  obtain ⟨n, m⟩ := c
  obtain ⟨hnk, hmv, hn, hm⟩ := candidates_spec _ _ _ _ hc
  simp only at hnk hmv hn hm hf
  have hn1 : n ∈ dkeys g1 := by
    rcases hn with h | ⟨x, l, h⟩
    · rwa [dkeys_invMapRaw] at h
    · exact closed_targets hc1 h
  have hm2 : m ∈ dkeys g2 := by
    rcases hm with h | ⟨x, l, h⟩
    · rwa [dkeys_invMapRaw] at h
    · exact closed_targets hc2 h
  obtain ⟨f1, f3, f4, f5⟩ := feasible_spec hf
  rw [edge_aug_none, edge_aug_none] at f1
  rw [edge_aug_self, edge_aug_self] at f3
  -- edges between the new pair and an old pair, both directions
  have key : ∀ q ∈ mp, edge g1 n (some q.1) = edge g2 m (some q.2)
      ∧ edge g1 q.1 (some n) = edge g2 q.2 (some m) := by
    intro q hq
    obtain ⟨u, w⟩ := q
    have hun : u ≠ n := fun e => hnk (List.mem_map.2 ⟨(u, w), hq, e⟩)
    have hwm : w ≠ m := fun e => hmv (List.mem_map.2 ⟨(u, w), hq, e⟩)
    have hmg := mget_of_mem hg.keysNodup hq
    have hmi := minv_of_mem hg.valsNodup hq
    have haug : edge (invMapRaw g1) n (some u) = edge (invMapRaw g2) m (some w) := by
      cases h1 : edge (invMapRaw g1) n (some u) with
      | some l => exact (f4 u l w h1 hmg).symm
      | none =>
        cases h2 : edge (invMapRaw g2) m (some w) with
        | none => rfl
        | some l =>
          have := f5 w l u h2 hmi
          rw [h1] at this; cases this
    rw [edge_aug_ne g1 n u hn1 hun, edge_aug_ne g2 m w hm2 hwm] at haug
    exact combine_inj (fun l h => clean_edge hl1 h) (fun l h => clean_edge hl2 h) haug
  refine ⟨?_, ?_, ?_, ?_, ?_, ?_⟩
  · simpa using ⟨by simpa using hnk, hg.keysNodup⟩
  · simpa using ⟨by simpa using hmv, hg.valsNodup⟩
  · intro p hp
    rcases List.mem_cons.1 hp with rfl | hp
    · exact hn1
    · exact hg.keysIn p hp
  · intro p hp
    rcases List.mem_cons.1 hp with rfl | hp
    · exact hm2
    · exact hg.valsIn p hp
  · intro p hp
    rcases List.mem_cons.1 hp with rfl | hp
    · exact f1
    · exact hg.nodeLbl p hp
  · intro p hp q hq
    rcases List.mem_cons.1 hp with rfl | hp
    · rcases List.mem_cons.1 hq with rfl | hq
      · exact f3
      · exact (key q hq).1
    · rcases List.mem_cons.1 hq with rfl | hq
      · exact (key p hp).2
      · exact hg.edges p hp q hq

/-- every mapping the search returns is good and has the announced size -/
theorem search_sound {g1 g2 : IsoGraph} (hc1 : closed g1 = true) (hc2 : closed g2 = true)
    (hl1 : cleanGraph g1 = true) (hl2 : cleanGraph g2 = true) :
    ∀ (k : Nat) (mp μ : Mapping), Good g1 g2 mp →
      search (invMapRaw g1) (invMapRaw g2) k mp = some μ → Good g1 g2 μ ∧ μ.length = mp.length + k := by
  intro k
  induction k with
  | zero =>
    intro mp μ hg hs
    simp only [search, Option.some.injEq] at hs
    subst hs; exact ⟨hg, rfl⟩
  | succ k ih =>
    intro mp μ hg hs
    simp only [search] at hs
    obtain ⟨c, hc, hcs⟩ := List.exists_of_findSome?_eq_some hs
    by_cases hf : feasible mp (invMapRaw g1) (invMapRaw g2) c.1 c.2 = true
    · simp only [hf, if_true] at hcs
      obtain ⟨h1, h2⟩ := ih (c :: mp) μ (good_step hc1 hc2 hl1 hl2 hg hc hf) hcs
      exact ⟨h1, by simp only [List.length_cons] at h2; omega⟩
    · simp [hf] at hcs

/-- a duplicate-free list inside `l₂` that is as long as `l₂` contains every element of `l₂` -/
theorem nodup_covers {α : Type} [DecidableEq α] (l₁ l₂ : List α) (hnd : l₁.Nodup)
    (hsub : ∀ a ∈ l₁, a ∈ l₂) (hlen : l₂.length ≤ l₁.length) : ∀ b ∈ l₂, b ∈ l₁ := by
  intro b hb
  refine Classical.byContradiction fun hnot => ?_
  have hsub' : ∀ a ∈ l₁, a ∈ l₂.erase b := by
    intro a ha
    have hne : a ≠ b := fun e => hnot (e ▸ ha)
    exact (List.mem_erase_of_ne hne).2 (hsub a ha)
  have h1 := nodup_length_le_of_subset l₁ (l₂.erase b) hnd hsub'
  have h2 := List.length_erase_of_mem hb
  have h3 : 0 < l₂.length := List.length_pos_of_mem hb
  omega

/-! ## §5 the node set of `_make_mrs_isograph` -/

theorem setEdge_keys {g g' : IsoGraph} {a : Node} {t : Option Node} {l : Label}
    (h : setEdge g a t l = .ok g') : dkeys g' = dkeys g := by
  unfold setEdge at h
  cases hA : dlookup a g with
  | none => simp [hA] at h
  | some adjA =>
    simp only [hA, Except.ok.injEq] at h
    subst h
    rw [dkeys_dset]
    have : a ∈ dkeys g := (dlookup_isSome_iff a g).1 (by simp [hA])
    simp [this]

theorem foldlM_preserve {β σ : Type} (P : σ → Prop) (f : σ → β → Except Err σ)
    (hf : ∀ s b s', P s → f s b = .ok s' → P s') :
    ∀ (l : List β) (s s' : σ), P s → l.foldlM f s = .ok s' → P s' := by
  intro l
  induction l with
  | nil =>
    intro s s' hs h
    simp only [List.foldlM_nil, pure, Except.pure, Except.ok.injEq] at h
    subst h; exact hs
  | cons b l ih =>
    intro s s' hs h
    rw [List.foldlM_cons] at h
    cases hb : f s b with
    | error e => simp [hb, bind, Except.bind] at h
    | ok s1 =>
      simp only [hb, bind, Except.bind] at h
      exact ih s1 s' (hf s b s1 hs hb) h

theorem addEP_keys {properties : Bool} {m : MRS} {g g' : IsoGraph} {p : Pred}
    (h : addEP properties m g p = .ok g') : dkeys g' = dkeys g := by
  unfold addEP at h
  simp only [bind, Except.bind] at h
  cases h1 : setEdge g (vstr p.2.label) (some (vstr p.1)) eqScope with
  | error e => simp [h1] at h
  | ok ga =>
    simp only [h1] at h
    cases h2 : setEdge ga (vstr p.1) none (epNodeLabel properties m p.2) with
    | error e => simp [h2] at h
    | ok gb =>
      simp only [h2] at h
      have := foldlM_preserve (fun x : IsoGraph => dkeys x = dkeys gb) _
        (fun s b s' hs hb => by rw [setEdge_keys hb]; exact hs) _ gb g' rfl h
      rw [this, setEdge_keys h2, setEdge_keys h1]

theorem mkIsoGraph_keys {properties : Bool} {m : MRS} {g : IsoGraph}
    (h : mkIsoGraph properties m = .ok g) : dkeys g = dkeys (initGraph m) := by
  unfold mkIsoGraph at h
  simp only [bind, Except.bind] at h
  cases h1 : m.preds.foldlM (addEP properties m) (initGraph m) with
  | error e => simp [h1] at h
  | ok ga =>
    simp only [h1] at h
    have k1 := foldlM_preserve (fun x : IsoGraph => dkeys x = dkeys (initGraph m)) _
      (fun s b s' hs hb => by rw [addEP_keys hb]; exact hs) _ _ ga rfl h1
    cases h2 : m.hcons.foldlM (fun g h => setEdge g (vstr h.hi) (some (vstr h.lo)) h.rel.toList) ga with
    | error e => simp [h2] at h
    | ok gb =>
      simp only [h2] at h
      have k2 := foldlM_preserve (fun x : IsoGraph => dkeys x = dkeys (initGraph m)) _
        (fun s b s' hs hb => by rw [setEdge_keys hb]; exact hs) _ _ gb k1 h2
      exact foldlM_preserve (fun x : IsoGraph => dkeys x = dkeys (initGraph m)) _
        (fun s b s' hs hb => by rw [setEdge_keys hb]; exact hs) _ _ g k2 h

theorem dset_ne_nil {κ ν : Type} [DecidableEq κ] (k : κ) (v : ν) (d : List (κ × ν)) : dset k v d ≠ [] := by
  cases d with
  | nil => simp [dset]
  | cons e d =>
    obtain ⟨k', v'⟩ := e
    by_cases h : k' = k <;> simp [dset, h]

theorem foldl_dset_eq_nil {β : Type} (f : β → Node) (l : List β) (g : IsoGraph)
    (h : l.foldl (fun g v => dset (f v) ([] : Adj) g) g = []) : l = [] ∧ g = [] := by
  induction l generalizing g with
  | nil => exact ⟨rfl, by simpa using h⟩
  | cons b l ih =>
    simp only [List.foldl_cons] at h
    exact absurd (ih _ h).2 (dset_ne_nil _ _ _)

theorem initGraph_eq_nil {m : MRS} (h : initGraph m = []) : filledVars m = [] ∧ m.ids = [] := by
  unfold initGraph at h
  obtain ⟨h1, h2⟩ := foldl_dset_eq_nil vstr m.ids _ h
  obtain ⟨h3, _⟩ := foldl_dset_eq_nil vstr (filledVars m) _ h2
  exact ⟨h3, h1⟩

theorem dkeys_eq_nil {κ ν : Type} {d : List (κ × ν)} (h : dkeys d = []) : d = [] := by
  cases d with
  | nil => rfl
  | cons e d => simp [dkeys] at h

end Verif.C06
