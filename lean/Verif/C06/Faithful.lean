/-
C06 — faithfulness of the encoding: a graph isomorphism between two encoding graphs reads back as
an MRS isomorphism (`mrsIso_of_graphIso`), and conversely (`graphIso_of_mrsIso`).  Core Lean only.  The definitions (`InSpace`, `MRSIso`, …)
are in Spec.lean.
-/
import Verif.C06.Encoding
namespace Verif.C06
open Verif.Sem

/-! ## §20 the merge of several roles to one target can be undone -/

theorem splitSpAux_word (w : List Char) (hw : ' ' ∉ w) (rest cur : List Char) :
    splitSpAux (w ++ rest) cur = splitSpAux rest (w.reverse ++ cur) := by
  induction w generalizing cur with
  | nil => rfl
  | cons c w ih =>
    have hc : c ≠ ' ' := fun e => hw (by simp [e])
    have hw' : ' ' ∉ w := fun h => hw (List.mem_cons_of_mem _ h)
    simp only [List.cons_append, splitSpAux, hc, if_false]
    rw [ih hw']
    simp

theorem splitSpAux_join : ∀ (xs : List (List Char)), (∀ x ∈ xs, WordOK x) → ∀ cur : List Char,
    splitSpAux (joinWith [' '] xs) cur =
      match xs with
      | [] => if cur.isEmpty then [] else [cur.reverse]
      | x :: rest => (cur.reverse ++ x) :: rest := by
  intro xs
  induction xs with
  | nil => intro _ cur; simp [joinWith, splitSpAux]
  | cons x rest ih =>
    intro h cur
    have hx := h x List.mem_cons_self
    cases rest with
    | nil =>
      simp only [joinWith]
      have := splitSpAux_word x hx.2 [] cur
      simp only [List.append_nil] at this
      rw [this]
      have hne : (x.reverse ++ cur).isEmpty = false := by
        cases x with
        | nil => exact absurd rfl hx.1
        | cons c x' => simp
      simp [splitSpAux, hne]
    | cons y ys =>
      simp only [joinWith]
      rw [List.append_assoc, splitSpAux_word x hx.2]
      have hne : (x.reverse ++ cur).isEmpty = false := by
        cases x with
        | nil => exact absurd rfl hx.1
        | cons c x' => simp
      simp only [List.singleton_append, splitSpAux, if_true, hne, Bool.false_eq_true, if_false]
      rw [ih (fun z hz => h z (List.mem_cons_of_mem _ hz)) []]
      simp

theorem splitSp_join (xs : List (List Char)) (h : ∀ x ∈ xs, WordOK x) : splitSp (joinWith [' '] xs) = xs := by
  unfold splitSp
  rw [splitSpAux_join xs h []]
  cases xs <;> simp

theorem insertLabel_perm (x : List Char) (l : List (List Char)) : (insertLabel x l).Perm (x :: l) := by
  induction l with
  | nil => exact List.Perm.refl _
  | cons y ys ih =>
    unfold insertLabel
    split
    · exact List.Perm.refl _
    · exact ((List.Perm.cons y ih).trans (List.Perm.swap x y ys))

theorem sortLabels_perm (l : List (List Char)) : (sortLabels l).Perm l := by
  induction l with
  | nil => exact List.Perm.refl _
  | cons x xs ih =>
    show (insertLabel x (sortLabels xs)).Perm (x :: xs)
    exact (insertLabel_perm x _).trans (List.Perm.cons x ih)

/-- the roles (as strings) of the arguments whose target is the node `tgt`, in `args` order -/
def rolesTo (args : List (Role × Var)) (tgt : Node) : List (List Char) :=
  (args.filter (fun a => vstr a.2 == tgt)).map (fun a => a.1.toList)

/-- the private dictionary after the whole argument loop -/
def argDict : List (Role × Var) → List (Node × Label) → List (Node × Label)
  | [], d => d
  | a :: rest, d => argDict rest (dset (vstr a.2) (mergeRole ((dlookup (vstr a.2) d).getD []) a.1) d)

theorem lastW_argWrites (id : Node) (tgt : Node) : ∀ (args : List (Role × Var)) (d : List (Node × Label)),
    lastW (argWrites id args d) (id, some tgt) (dlookup tgt d) = dlookup tgt (argDict args d) := by
  intro args
  induction args with
  | nil => intro d; rfl
  | cons a rest ih =>
    intro d
    simp only [argWrites, argDict, lastW, List.foldl_cons]
    have := ih (dset (vstr a.2) (mergeRole ((dlookup (vstr a.2) d).getD []) a.1) d)
    rw [dlookup_dset] at this
    by_cases h : vstr a.2 = tgt
    · subst h
      simp only [if_true] at this ⊢
      exact this
    · have hpos : ¬ (((id, some (vstr a.2)) : Pos) = (id, some tgt)) := by
        intro e; exact h (by simpa using e)
      simp only [h, if_false] at this
      simp only [hpos, if_false]
      exact this

/-- the dictionary of the argument loop: a target that received roles `S` (a permutation of the roles
pointing at it) holds `' '.join(S)` -/
def ArgInv (A : List (Role × Var)) (d : List (Node × Label)) : Prop :=
  ∀ tgt, ∃ S : List (List Char), S.Perm (rolesTo A tgt)
    ∧ dlookup tgt d = (if S = [] then none else some (joinWith [' '] S))

theorem rolesTo_append (A B : List (Role × Var)) (tgt : Node) :
    rolesTo (A ++ B) tgt = rolesTo A tgt ++ rolesTo B tgt := by
  simp [rolesTo, List.filter_append]

theorem argDict_inv : ∀ (args A : List (Role × Var)) (d : List (Node × Label)),
    (∀ a ∈ A ++ args, WordOK a.1.toList) → ArgInv A d → ArgInv (A ++ args) (argDict args d) := by
  intro args
  induction args with
  | nil => intro A d _ h; simpa [argDict] using h
  | cons a rest ih =>
    intro A d hok hinv
    have hstep : ArgInv (A ++ [a]) (dset (vstr a.2) (mergeRole ((dlookup (vstr a.2) d).getD []) a.1) d) := by
      intro tgt
      obtain ⟨S, hS, hd⟩ := hinv tgt
      by_cases h : vstr a.2 = tgt
      · subst h
        have hSok : ∀ x ∈ S, WordOK x := by
          intro x hx
          have : x ∈ rolesTo A (vstr a.2) := hS.mem_iff.1 hx
          obtain ⟨b, hb, rfl⟩ := List.mem_map.1 this
          exact hok b (List.mem_append_left _ (List.mem_filter.1 hb).1)
        have hsplit : splitSp ((dlookup (vstr a.2) d).getD []) = S := by
          rw [hd]
          by_cases hS0 : S = []
          · subst hS0; rfl
          · simp only [hS0, if_false, Option.getD_some]
            exact splitSp_join S hSok
        refine ⟨sortLabels (S ++ [a.1.toList]), ?_, ?_⟩
        · rw [rolesTo_append]
          have : rolesTo [a] (vstr a.2) = [a.1.toList] := by simp [rolesTo]
          rw [this]
          exact (sortLabels_perm _).trans (List.Perm.append_right _ hS)
        · rw [dlookup_dset]
          have hne : sortLabels (S ++ [a.1.toList]) ≠ [] := by
            intro e
            have := (sortLabels_perm (S ++ [a.1.toList])).length_eq
            rw [e] at this; simp at this
          simp only [if_true, hne, if_false, mergeRole, hsplit]
      · refine ⟨S, ?_, ?_⟩
        · rw [rolesTo_append]
          have : rolesTo [a] tgt = [] := by simp [rolesTo, h]
          rw [this, List.append_nil]; exact hS
        · rw [dlookup_dset]; simp only [h, if_false]; exact hd
    have := ih (A ++ [a]) _ (by simpa [List.append_assoc] using hok) hstep
    simpa [argDict, List.append_assoc] using this

theorem argDict_spec (args : List (Role × Var)) (hok : ∀ a ∈ args, WordOK a.1.toList) (tgt : Node) :
    ∃ S : List (List Char), S.Perm (rolesTo args tgt)
      ∧ dlookup tgt (argDict args []) = (if S = [] then none else some (joinWith [' '] S)) := by
  have := argDict_inv args [] [] (by simpa using hok) (by intro t; exact ⟨[], by simp [rolesTo], rfl⟩)
  simpa using this tgt


/-! ## §21 the source of every edge of the encoding graph -/

theorem edge_of_block {properties : Bool} {m : MRS} {g : IsoGraph} (hrow : rowsOK m = true)
    (hnp : NoParallel m) (hg : mkIsoGraph properties m = .ok g) {b : Block} (hb : b ∈ blocks m)
    {pos : Pos} (hpos : pos ∈ blockPos b) :
    edge g pos.1 pos.2 = lastW (blockWrites properties m b) pos none := by
  rw [mkIsoGraph_edge hrow hg pos, allWrites_eq_blocks]
  obtain ⟨pre, post, hsplit⟩ := List.append_of_mem hb
  unfold NoParallel at hnp
  rw [hsplit] at hnp ⊢
  rw [List.pairwise_append] at hnp
  obtain ⟨_, hbp, hpre⟩ := hnp
  rw [List.pairwise_cons] at hbp
  simp only [List.flatMap_append, List.flatMap_cons]
  rw [lastW_append, lastW_append]
  have h1 : lastW (pre.flatMap (blockWrites properties m)) pos none = none := by
    apply lastW_not_mem
    intro w hw e
    obtain ⟨a, ha, hwa⟩ := List.mem_flatMap.1 hw
    have hwp : w.1 ∈ blockPos a := by
      rw [← blockWrites_pos properties m a]; exact List.mem_map.2 ⟨w, hwa, rfl⟩
    exact hpre a ha b List.mem_cons_self _ hwp pos hpos e
  have h2 : ∀ init, lastW (post.flatMap (blockWrites properties m)) pos init = init := by
    intro init
    apply lastW_not_mem
    intro w hw e
    obtain ⟨c, hc, hwc⟩ := List.mem_flatMap.1 hw
    have hwp : w.1 ∈ blockPos c := by
      rw [← blockWrites_pos properties m c]; exact List.mem_map.2 ⟨w, hwc, rfl⟩
    exact hbp.1 c hc pos hpos _ hwp e.symm
  rw [h1, h2]

theorem block_of_edge {properties : Bool} {m : MRS} {g : IsoGraph} (hrow : rowsOK m = true)
    (hg : mkIsoGraph properties m = .ok g) {pos : Pos} {l : Label} (h : edge g pos.1 pos.2 = some l) :
    ∃ b ∈ blocks m, pos ∈ blockPos b := by
  rw [mkIsoGraph_edge hrow hg pos, allWrites_eq_blocks] at h
  rcases lastW_some_mem h with h0 | ⟨w, hw, hp, _⟩
  · cases h0
  · obtain ⟨b, hb, hwb⟩ := List.mem_flatMap.1 hw
    refine ⟨b, hb, ?_⟩
    rw [← blockWrites_pos properties m b, ← hp]
    exact List.mem_map.2 ⟨w, hwb, rfl⟩

theorem mem_blocks {m : MRS} {b : Block} : b ∈ blocks m ↔
    ((∃ q ∈ m.preds, b = .ep q) ∨ (∃ h ∈ m.hcons, b = .hc h) ∨ (∃ c ∈ m.icons, b = .ic c)) := by
  unfold blocks
  simp only [List.mem_append, List.mem_map]
  constructor
  · rintro ((⟨q, hq, rfl⟩ | ⟨h, hh, rfl⟩) | ⟨c, hc, rfl⟩)
    · exact Or.inl ⟨q, hq, rfl⟩
    · exact Or.inr (Or.inl ⟨h, hh, rfl⟩)
    · exact Or.inr (Or.inr ⟨c, hc, rfl⟩)
  · rintro (⟨q, hq, rfl⟩ | ⟨h, hh, rfl⟩ | ⟨c, hc, rfl⟩)
    · exact Or.inl (Or.inl ⟨q, hq, rfl⟩)
    · exact Or.inl (Or.inr ⟨h, hh, rfl⟩)
    · exact Or.inr ⟨c, hc, rfl⟩

/-- the value the predication `q` leaves at each of its positions -/
theorem lastW_ep_scope {properties : Bool} {m : MRS} {q : Pred} (hne : vstr q.2.label ≠ vstr q.1) :
    lastW (epWrites properties m q) (vstr q.2.label, some (vstr q.1)) none = some eqScope := by
  have := lastW_last (A := []) (w := ((vstr q.2.label, some (vstr q.1)), eqScope))
    (B := ((vstr q.1, none), epNodeLabel properties m q.2) :: argWrites (vstr q.1) q.2.args []) (by
      intro w' hw' e
      rcases List.mem_cons.1 hw' with rfl | hw'
      · simp at e
      · have := argWrites_row _ _ _ w' hw'
        exact hne (by rw [← this, e]))
    none
  simpa [epWrites] using this

theorem lastW_ep_arg {properties : Bool} {m : MRS} {q : Pred} (hne : vstr q.2.label ≠ vstr q.1) (tgt : Node) :
    lastW (epWrites properties m q) (vstr q.1, some tgt) none = dlookup tgt (argDict q.2.args []) := by
  have h1 : ¬ (((vstr q.2.label, some (vstr q.1)) : Pos) = (vstr q.1, some tgt)) := by
    intro e; exact hne (by simpa using congrArg Prod.fst e)
  have h2 : ¬ (((vstr q.1, (none : Option Node)) : Pos) = (vstr q.1, some tgt)) := by simp
  simp only [epWrites, lastW, List.foldl_cons, h1, h2, if_false]
  exact lastW_argWrites (vstr q.1) tgt q.2.args []


/-! ## §22 the input space of the faithfulness theorem, and the five kinds of edges -/

theorem noLower_join : ∀ (S : List (List Char)), (∀ x ∈ S, noLower x) → noLower (joinWith [' '] S) := by
  intro S
  induction S with
  | nil => intro _ c hc; cases hc
  | cons x rest ih =>
    intro h
    cases rest with
    | nil => simpa [joinWith] using h x List.mem_cons_self
    | cons y ys =>
      intro c hc
      simp only [joinWith, List.mem_append, List.mem_singleton] at hc
      rcases hc with (hc | hc) | hc
      · exact h x List.mem_cons_self c hc
      · subst hc; decide
      · exact ih (fun z hz => h z (List.mem_cons_of_mem _ hz)) c hc

theorem noLower_ne_hasLower {a b : List Char} (ha : noLower a) (hb : hasLower b) : a ≠ b := by
  intro e
  obtain ⟨c, hc, hl⟩ := hb
  have := ha c (e ▸ hc)
  rw [hl] at this; cases this

theorem hasLower_eqScope : hasLower eqScope := ⟨'e', by decide, by decide⟩

theorem hasLower_hrel {s : String} (h : HRelOK s) : hasLower s.toList ∧ s.toList ≠ eqScope := by
  simp only [HRelOK, hrelNames, List.mem_cons, List.not_mem_nil, or_false] at h
  rcases h with rfl | rfl | rfl
  · exact ⟨⟨'q', by decide, by decide⟩, by decide⟩
  · exact ⟨⟨'l', by decide, by decide⟩, by decide⟩
  · exact ⟨⟨'o', by decide, by decide⟩, by decide⟩

section Sources
variable {properties : Bool} {m : MRS} {g : IsoGraph}

theorem pred_of_rel (hs : SimpleIds m) {e : EP} (he : e ∈ m.rels) : (e.baseId, e) ∈ m.preds := by
  rw [preds_of_simple hs]; exact List.mem_map.2 ⟨e, he, rfl⟩

theorem lblId_ne (h : NamesOK m) {e : EP} (he : e ∈ m.rels) : vstr e.label ≠ vstr e.baseId :=
  h.lblId e he e he

/-- S1: the scope edge of a predication -/
theorem edge_scope (h : InSpace properties m) (hg : mkIsoGraph properties m = .ok g) {e : EP} (he : e ∈ m.rels) :
    edge g (vstr e.label) (some (vstr e.baseId)) = some eqScope := by
  have hb : Block.ep (e.baseId, e) ∈ blocks m :=
    mem_blocks.2 (Or.inl ⟨_, pred_of_rel h.names.simple he, rfl⟩)
  have := edge_of_block h.names.rows h.nopar hg hb
    (pos := (vstr e.label, some (vstr e.baseId))) (by simp [blockPos])
  rw [this]
  exact lastW_ep_scope (q := (e.baseId, e)) (lblId_ne h.names he)

/-- S3: the merged role label of the arguments of one predication to one target -/
theorem edge_arg (h : InSpace properties m) (hg : mkIsoGraph properties m = .ok g) {e : EP} (he : e ∈ m.rels)
    {a : Role × Var} (ha : a ∈ e.args) :
    ∃ S : List (List Char), S.Perm (rolesTo e.args (vstr a.2))
      ∧ edge g (vstr e.baseId) (some (vstr a.2)) = some (joinWith [' '] S) := by
  have hb : Block.ep (e.baseId, e) ∈ blocks m :=
    mem_blocks.2 (Or.inl ⟨_, pred_of_rel h.names.simple he, rfl⟩)
  have := edge_of_block h.names.rows h.nopar hg hb
    (pos := (vstr e.baseId, some (vstr a.2))) (by
      simp only [blockPos, List.mem_cons, List.mem_map]
      exact Or.inr (Or.inr ⟨a, ha, rfl⟩))
  rw [this]
  have h2 : lastW (blockWrites properties m (Block.ep (e.baseId, e))) (vstr e.baseId, some (vstr a.2)) none
      = dlookup (vstr a.2) (argDict e.args []) :=
    lastW_ep_arg (properties := properties) (m := m) (q := (e.baseId, e)) (lblId_ne h.names he) (vstr a.2)
  rw [h2]
  obtain ⟨S, hS, hd⟩ := argDict_spec e.args (fun b hb => (h.roles e he b hb).1) (vstr a.2)
  refine ⟨S, hS, ?_⟩
  have hne : S ≠ [] := by
    intro e0
    have hmem : a.1.toList ∈ rolesTo e.args (vstr a.2) :=
      List.mem_map.2 ⟨a, List.mem_filter.2 ⟨ha, by simp⟩, rfl⟩
    have := hS.mem_iff.2 hmem
    rw [e0] at this; cases this
  rw [hd]; simp [hne]

/-- S4 -/
theorem edge_hc (h : InSpace properties m) (hg : mkIsoGraph properties m = .ok g) {c : HCons} (hc : c ∈ m.hcons) :
    edge g (vstr c.hi) (some (vstr c.lo)) = some c.rel.toList := by
  have hb : Block.hc c ∈ blocks m := mem_blocks.2 (Or.inr (Or.inl ⟨c, hc, rfl⟩))
  have := edge_of_block h.names.rows h.nopar hg hb (pos := (vstr c.hi, some (vstr c.lo))) (by simp [blockPos])
  rw [this]
  simp [blockWrites, hcWrite, lastW]

/-- S5 -/
theorem edge_ic (h : InSpace properties m) (hg : mkIsoGraph properties m = .ok g) {c : ICons} (hc : c ∈ m.icons) :
    edge g (vstr c.left) (some (vstr c.right)) = some c.rel.toList := by
  have hb : Block.ic c ∈ blocks m := mem_blocks.2 (Or.inr (Or.inr ⟨c, hc, rfl⟩))
  have := edge_of_block h.names.rows h.nopar hg hb (pos := (vstr c.left, some (vstr c.right))) (by simp [blockPos])
  rw [this]
  simp [blockWrites, icWrite, lastW]

/-- every edge (to a target) of the encoding graph has exactly one of four sources -/
theorem edge_source (h : InSpace properties m) (hg : mkIsoGraph properties m = .ok g) {u t : Node} {l : Label}
    (he : edge g u (some t) = some l) :
    (∃ e ∈ m.rels, u = vstr e.label ∧ t = vstr e.baseId ∧ l = eqScope)
    ∨ (∃ e ∈ m.rels, ∃ a ∈ e.args, u = vstr e.baseId ∧ t = vstr a.2
        ∧ ∃ S : List (List Char), S.Perm (rolesTo e.args (vstr a.2)) ∧ l = joinWith [' '] S)
    ∨ (∃ c ∈ m.hcons, u = vstr c.hi ∧ t = vstr c.lo ∧ l = c.rel.toList)
    ∨ (∃ c ∈ m.icons, u = vstr c.left ∧ t = vstr c.right ∧ l = c.rel.toList) := by
  obtain ⟨b, hb, hpos⟩ := block_of_edge h.names.rows hg (pos := (u, some t)) he
  rcases mem_blocks.1 hb with ⟨q, hq, rfl⟩ | ⟨c, hc, rfl⟩ | ⟨c, hc, rfl⟩
  · rw [preds_of_simple h.names.simple] at hq
    obtain ⟨e, hem, rfl⟩ := List.mem_map.1 hq
    simp only [blockPos, List.mem_cons, List.mem_map, Prod.mk.injEq] at hpos
    rcases hpos with ⟨h1, h2⟩ | ⟨_, h2⟩ | ⟨a, ha, h1, h2⟩
    · have ht : t = vstr e.baseId := by simpa using h2
      subst h1; subst ht
      rw [edge_scope h hg hem] at he
      exact Or.inl ⟨e, hem, rfl, rfl, (Option.some.inj he).symm⟩
    · cases h2
    · have ht : t = vstr a.2 := by simpa using h2.symm
      subst ht
      obtain ⟨S, hS, hval⟩ := edge_arg h hg hem ha
      rw [← h1, hval] at he
      exact Or.inr (Or.inl ⟨e, hem, a, ha, h1.symm, rfl, S, hS, (Option.some.inj he).symm⟩)
  · simp only [blockPos, List.mem_singleton, Prod.mk.injEq] at hpos
    have ht : t = vstr c.lo := by simpa using hpos.2
    obtain ⟨h1, _⟩ := hpos
    subst h1; subst ht
    rw [edge_hc h hg hc] at he
    exact Or.inr (Or.inr (Or.inl ⟨c, hc, rfl, rfl, (Option.some.inj he).symm⟩))
  · simp only [blockPos, List.mem_singleton, Prod.mk.injEq] at hpos
    have ht : t = vstr c.right := by simpa using hpos.2
    obtain ⟨h1, _⟩ := hpos
    subst h1; subst ht
    rw [edge_ic h hg hc] at he
    exact Or.inr (Or.inr (Or.inr ⟨c, hc, rfl, rfl, (Option.some.inj he).symm⟩))

end Sources


/-! ## §26 `sorted(roles)` is canonical: it depends only on the multiset of roles -/

theorem ltChars_irrefl : ∀ a : List Char, ltChars a a = false := by
  intro a
  induction a with
  | nil => rfl
  | cons c a ih => simp [ltChars, ih]

theorem ltChars_antisymm : ∀ a b : List Char, ltChars a b = false → ltChars b a = false → a = b := by
  intro a
  induction a with
  | nil =>
    intro b h1 h2
    cases b with
    | nil => rfl
    | cons d b => simp [ltChars] at h1
  | cons c a ih =>
    intro b h1 h2
    cases b with
    | nil => simp [ltChars] at h2
    | cons d b =>
      simp only [ltChars] at h1 h2
      by_cases hcd : c.toNat < d.toNat
      · simp [hcd] at h1
      · by_cases hdc : d.toNat < c.toNat
        · simp [hdc] at h2
        · simp only [hcd, hdc, if_false] at h1 h2
          have hn : c.toNat = d.toNat := by omega
          have hc : c = d := Char.toNat_inj.1 hn
          rw [hc, ih b h1 h2]

theorem ltChars_trans : ∀ a b c : List Char, ltChars a b = true → ltChars b c = true → ltChars a c = true := by
  intro a
  induction a with
  | nil =>
    intro b c h1 h2
    cases b with
    | nil => simp [ltChars] at h1
    | cons d b =>
      cases c with
      | nil => simp [ltChars] at h2
      | cons e c => rfl
  | cons x a ih =>
    intro b c h1 h2
    cases b with
    | nil => simp [ltChars] at h1
    | cons y b =>
      cases c with
      | nil => simp [ltChars] at h2
      | cons z c =>
        simp only [ltChars] at h1 h2 ⊢
        by_cases hxy : x.toNat < y.toNat
        · by_cases hyz : y.toNat < z.toNat
          · have : x.toNat < z.toNat := by omega
            simp [this]
          · by_cases hzy : z.toNat < y.toNat
            · simp [hyz, hzy] at h2
            · have : x.toNat < z.toNat := by omega
              simp [this]
        · by_cases hyx : y.toNat < x.toNat
          · simp [hxy, hyx] at h1
          · simp only [hxy, hyx, if_false] at h1
            by_cases hyz : y.toNat < z.toNat
            · have : x.toNat < z.toNat := by omega
              simp [this]
            · by_cases hzy : z.toNat < y.toNat
              · simp [hyz, hzy] at h2
              · simp only [hyz, hzy, if_false] at h2
                have h1' : ¬ x.toNat < z.toNat := by omega
                have h2' : ¬ z.toNat < x.toNat := by omega
                simp only [h1', h2', if_false]
                exact ih b c h1 h2

theorem ltChars_asymm (a b : List Char) (h : ltChars a b = true) : ltChars b a = false := by
  cases hba : ltChars b a with
  | false => rfl
  | true =>
    have := ltChars_trans a b a h hba
    rw [ltChars_irrefl] at this; cases this

/-- `a ≤ b` -/
def leChars (a b : List Char) : Prop := ltChars b a = false

theorem leChars_trans {a b c : List Char} (h1 : leChars a b) (h2 : leChars b c) : leChars a c := by
  unfold leChars at *
  cases hca : ltChars c a with
  | false => rfl
  | true =>
    exfalso
    cases hab : ltChars a b with
    | true =>
      have := ltChars_trans c a b hca hab
      rw [h2] at this; cases this
    | false =>
      have : a = b := ltChars_antisymm a b hab h1
      subst this
      rw [h2] at hca; cases hca

def SortedL (l : List (List Char)) : Prop := l.Pairwise leChars

theorem insertLabel_sorted (x : List Char) : ∀ (l : List (List Char)), SortedL l → SortedL (insertLabel x l) := by
  intro l
  induction l with
  | nil => intro _; simp [insertLabel, SortedL]
  | cons y ys ih =>
    intro h
    unfold SortedL at h
    rw [List.pairwise_cons] at h
    unfold insertLabel
    by_cases hxy : ltChars x y = true
    · simp only [hxy, if_true]
      unfold SortedL
      rw [List.pairwise_cons, List.pairwise_cons]
      refine ⟨?_, h.1, h.2⟩
      intro z hz
      have hxy' : leChars x y := ltChars_asymm x y hxy
      rcases List.mem_cons.1 hz with rfl | hz
      · exact hxy'
      · exact leChars_trans hxy' (h.1 z hz)
    · have hxy' : ltChars x y = false := by simpa using hxy
      simp only [hxy', Bool.false_eq_true, if_false]
      unfold SortedL
      rw [List.pairwise_cons]
      refine ⟨?_, ih h.2⟩
      intro z hz
      rcases List.mem_cons.1 ((insertLabel_perm x ys).mem_iff.1 hz) with rfl | hz
      · exact hxy'
      · exact h.1 z hz

theorem sortLabels_sorted (l : List (List Char)) : SortedL (sortLabels l) := by
  induction l with
  | nil => simp [sortLabels, SortedL]
  | cons x xs ih => exact insertLabel_sorted x _ ih

theorem sorted_perm_eq : ∀ (l1 l2 : List (List Char)), SortedL l1 → SortedL l2 → l1.Perm l2 → l1 = l2 := by
  intro l1
  induction l1 with
  | nil => intro l2 _ _ hp; exact (List.Perm.nil_eq hp)
  | cons a t1 ih =>
    intro l2 h1 h2 hp
    cases l2 with
    | nil => exact absurd hp.length_eq (by simp)
    | cons b t2 =>
      unfold SortedL at h1 h2
      rw [List.pairwise_cons] at h1 h2
      have hab : leChars a b := by
        rcases List.mem_cons.1 (hp.mem_iff.2 List.mem_cons_self) with e | hb
        · rw [e]; exact ltChars_irrefl a
        · exact h1.1 b hb
      have hba : leChars b a := by
        rcases List.mem_cons.1 (hp.mem_iff.1 List.mem_cons_self) with e | ha
        · rw [e]; exact ltChars_irrefl b
        · exact h2.1 a ha
      have e : a = b := ltChars_antisymm a b hba hab
      subst e
      rw [ih t2 h1.2 h2.2 (List.Perm.cons_inv hp)]


/-! ## §23 reading a node label back, and the MRS-level notion of isomorphism -/

theorem split_first (D : Char → Prop) : ∀ (P1 P2 X1 X2 : List Char),
    (∀ c ∈ P1, ¬ D c) → (∀ c ∈ P2, ¬ D c) →
    (X1 = [] ∨ ∃ c r, X1 = c :: r ∧ D c) → (X2 = [] ∨ ∃ c r, X2 = c :: r ∧ D c) →
    P1 ++ X1 = P2 ++ X2 → P1 = P2 ∧ X1 = X2 := by
  intro P1
  induction P1 with
  | nil =>
    intro P2 X1 X2 _ h2 hx1 _ e
    cases P2 with
    | nil => exact ⟨rfl, by simpa using e⟩
    | cons c P2' =>
      exfalso
      simp only [List.nil_append, List.cons_append] at e
      rcases hx1 with rfl | ⟨d, r, rfl, hd⟩
      · cases e
      · simp only [List.cons.injEq] at e
        exact h2 c List.mem_cons_self (e.1 ▸ hd)
  | cons c P1' ih =>
    intro P2 X1 X2 h1 h2 hx1 hx2 e
    cases P2 with
    | nil =>
      exfalso
      simp only [List.nil_append, List.cons_append] at e
      rcases hx2 with rfl | ⟨d, r, rfl, hd⟩
      · cases e
      · simp only [List.cons.injEq] at e
        exact h1 c List.mem_cons_self (e.1 ▸ hd)
    | cons c' P2' =>
      simp only [List.cons_append, List.cons.injEq] at e
      obtain ⟨hc, e⟩ := e
      obtain ⟨a, b⟩ := ih P2' X1 X2 (fun x hx => h1 x (List.mem_cons_of_mem _ hx))
        (fun x hx => h2 x (List.mem_cons_of_mem _ hx)) hx1 hx2 e
      exact ⟨by rw [hc, a], b⟩

theorem epNodeLabel_parts (properties : Bool) (m : MRS) (e : EP) :
    epNodeLabel properties m e = normalizePred e.predicate ++ (cargPart e ++ propPart properties m e) := by
  unfold epNodeLabel cargPart propPart
  cases e.carg <;> cases e.iv <;> simp only [] <;> split <;> simp [List.append_assoc]

theorem propPart_shape (properties : Bool) (m : MRS) (e : EP) :
    propPart properties m e = [] ∨ ∃ r, propPart properties m e = '{' :: r := by
  unfold propPart
  cases e.iv with
  | none => left; simp
  | some v =>
    simp only []
    by_cases h : (properties && !(m.props v).isEmpty) = true
    · right
      refine ⟨joinWith ['|'] ((sortProps (m.props v)).map
        (fun p => upperC p.1.toList ++ ['='] ++ lowerC p.2.toList)) ++ ['}'], ?_⟩
      simp only [h, if_true, propString, List.cons_append, List.nil_append]
    · left; simp only [h]; rfl

/-- the three components of a node label can be read back from it -/
theorem label_decode {properties : Bool} {m1 m2 : MRS} {e1 e2 : EP}
    (hp1 : PredOK e1.predicate) (hp2 : PredOK e2.predicate)
    (hc1 : ∀ c, e1.carg = some c → CargOK c) (hc2 : ∀ c, e2.carg = some c → CargOK c)
    (h : epNodeLabel properties m1 e1 = epNodeLabel properties m2 e2) :
    normalizePred e1.predicate = normalizePred e2.predicate ∧ e1.carg = e2.carg
      ∧ propPart properties m1 e1 = propPart properties m2 e2 := by
  rw [epNodeLabel_parts, epNodeLabel_parts] at h
  have shape : ∀ (m : MRS) (e : EP), (cargPart e ++ propPart properties m e = []
      ∨ ∃ c r, cargPart e ++ propPart properties m e = c :: r ∧ (c = '(' ∨ c = '{')) := by
    intro m e
    unfold cargPart
    cases e.carg with
    | some c => right; exact ⟨'(', c.toList ++ [')'] ++ propPart properties m e, by simp [List.append_assoc], Or.inl rfl⟩
    | none =>
      rcases propPart_shape properties m e with h0 | ⟨r, hr⟩
      · left; simp [h0]
      · right; exact ⟨'{', r, by simp [hr], Or.inr rfl⟩
  obtain ⟨hP, hX⟩ := split_first (fun c => c = '(' ∨ c = '{') _ _ _ _
    (fun c hc hd => by rcases hd with rfl | rfl; exact hp1.1 hc; exact hp1.2 hc)
    (fun c hc hd => by rcases hd with rfl | rfl; exact hp2.1 hc; exact hp2.2 hc)
    (shape m1 e1) (shape m2 e2) h
  refine ⟨hP, ?_⟩
  unfold cargPart at hX
  cases hcg1 : e1.carg with
  | none =>
    cases hcg2 : e2.carg with
    | none =>
      simp only [hcg1, hcg2, List.nil_append] at hX
      exact ⟨rfl, hX⟩
    | some c2 =>
      exfalso
      simp only [hcg1, hcg2, List.nil_append] at hX
      rcases propPart_shape properties m1 e1 with h0 | ⟨r, hr⟩
      · rw [h0] at hX; simp at hX
      · rw [hr] at hX; simp at hX
  | some c1 =>
    cases hcg2 : e2.carg with
    | none =>
      exfalso
      simp only [hcg1, hcg2, List.nil_append] at hX
      rcases propPart_shape properties m2 e2 with h0 | ⟨r, hr⟩
      · rw [h0] at hX; simp at hX
      · rw [hr] at hX; simp at hX
    | some c2 =>
      simp only [hcg1, hcg2, List.cons_append, List.nil_append, List.append_assoc, List.cons.injEq, true_and] at hX
      obtain ⟨hc, hS⟩ := split_first (fun c => c = ')') c1.toList c2.toList _ _
        (fun c hc hd => by subst hd; exact hc1 c1 hcg1 hc)
        (fun c hc hd => by subst hd; exact hc2 c2 hcg2 hc)
        (Or.inr ⟨')', _, rfl, rfl⟩) (Or.inr ⟨')', _, rfl, rfl⟩) hX
      refine ⟨by rw [String.ext hc], ?_⟩
      simpa using hS

/-- "isomorphic MRSs pass the four size pre-checks" -/
theorem sizes_of_mrsIso {properties : Bool} {m1 m2 : MRS} (h : MRSIso properties m1 m2) :
    sizesDiffer m1 m2 = false := by
  obtain ⟨σ, hσ⟩ := h
  simp only [sizesDiffer, Bool.or_eq_false_iff, bne_eq_false_iff_eq]
  obtain ⟨ps, h1, h2, _⟩ := hσ.rels
  refine ⟨⟨⟨?_, ?_⟩, ?_⟩, ?_⟩
  · have a := h1.length_eq; have b := h2.length_eq
    simp only [List.length_map] at a b; omega
  · have := hσ.hcons.length_eq; simpa using this
  · have := hσ.icons.length_eq; simpa using this
  · have hnd : ((filledVars m1).map σ).Nodup :=
      nodup_map_of_injOn σ _ (filledVars_nodup m1) hσ.inj
    have a := nodup_length_le_of_subset _ _ hnd (fun w hw => by
      obtain ⟨v, hv, rfl⟩ := List.mem_map.1 hw
      exact (hσ.onto _).2 ⟨v, hv, rfl⟩)
    have b := nodup_length_le_of_subset _ ((filledVars m1).map σ) (filledVars_nodup m2) (fun w hw => by
      obtain ⟨v, hv, rfl⟩ := (hσ.onto w).1 hw
      exact List.mem_map.2 ⟨v, hv, rfl⟩)
    simp only [List.length_map] at a b
    omega



/-! ## §28 the property text `{P=v|…}` and the multiset of (name, value) pairs determine each other -/

theorem toUpper_of_not_lower (c : Char) (h : c.isLower = false) : c.toUpper = c := by
  unfold Char.toUpper
  simp only [Char.isLower, Bool.and_eq_false_iff, decide_eq_false_iff_not] at h
  split
  · rename_i hc
    exfalso
    rcases h with h | h
    · exact h hc.1
    · exact h hc.2
  · rfl

theorem upperC_of_noLower {s : List Char} (h : noLower s) : upperC s = s := by
  unfold upperC
  induction s with
  | nil => rfl
  | cons c s ih =>
    rw [List.map_cons, toUpper_of_not_lower c (h c List.mem_cons_self),
      ih (fun d hd => h d (List.mem_cons_of_mem _ hd))]

theorem propString_eq (ps : Props) :
    propString ps = ['{'] ++ joinWith ['|'] ((sortProps ps).map (fun q => renderKey (keyOf q))) ++ ['}'] := rfl

theorem insertProp_perm (x : String × String) (l : Props) : (insertProp x l).Perm (x :: l) := by
  induction l with
  | nil => exact List.Perm.refl _
  | cons y ys ih =>
    unfold insertProp
    split
    · exact List.Perm.refl _
    · exact ((List.Perm.cons y ih).trans (List.Perm.swap x y ys))

theorem sortProps_perm (l : Props) : (sortProps l).Perm l := by
  induction l with
  | nil => exact List.Perm.refl _
  | cons x xs ih =>
    show (insertProp x (sortProps xs)).Perm (x :: xs)
    exact (insertProp_perm x _).trans (List.Perm.cons x ih)

def tailBar : List (List Char) → List Char
  | [] => []
  | w :: ws => '|' :: joinWith ['|'] (w :: ws)

theorem joinBar_cons (x : List Char) (xs : List (List Char)) : joinWith ['|'] (x :: xs) = x ++ tailBar xs := by
  cases xs <;> simp [joinWith, tailBar]

theorem tailBar_shape (zs : List (List Char)) : tailBar zs = [] ∨ ∃ c r, tailBar zs = c :: r ∧ c = '|' := by
  cases zs with
  | nil => left; rfl
  | cons w ws => right; exact ⟨'|', _, rfl, rfl⟩

/-- `'|'.join` is injective on lists of non-empty items without `|` -/
theorem joinBar_inj : ∀ (l1 l2 : List (List Char)),
    (∀ x ∈ l1, x ≠ [] ∧ '|' ∉ x) → (∀ x ∈ l2, x ≠ [] ∧ '|' ∉ x) →
    joinWith ['|'] l1 = joinWith ['|'] l2 → l1 = l2 := by
  intro l1
  induction l1 with
  | nil =>
    intro l2 _ h2 e
    cases l2 with
    | nil => rfl
    | cons y ys =>
      exfalso
      have hy := (h2 y List.mem_cons_self).1
      rw [joinBar_cons] at e
      have : y = [] := by
        have := congrArg List.length e
        simp only [joinWith, List.length_nil, List.length_append] at this
        exact List.eq_nil_of_length_eq_zero (by omega)
      exact hy this
  | cons x xs ih =>
    intro l2 h1 h2 e
    have hx := h1 x List.mem_cons_self
    cases l2 with
    | nil =>
      exfalso
      rw [joinBar_cons] at e
      have : x = [] := by
        have := congrArg List.length e
        simp only [joinWith, List.length_nil, List.length_append] at this
        exact List.eq_nil_of_length_eq_zero (by omega)
      exact hx.1 this
    | cons y ys =>
      have hy := h2 y List.mem_cons_self
      rw [joinBar_cons, joinBar_cons] at e
      obtain ⟨hxy, hrest⟩ := split_first (fun c => c = '|') x y _ _
        (fun c hc hd => by subst hd; exact hx.2 hc) (fun c hc hd => by subst hd; exact hy.2 hc)
        (tailBar_shape xs) (tailBar_shape ys) e
      subst hxy
      cases xs with
      | nil =>
        cases ys with
        | nil => rfl
        | cons w ws => simp [tailBar] at hrest
      | cons v vs =>
        cases ys with
        | nil => simp [tailBar] at hrest
        | cons w ws =>
          simp only [tailBar, List.cons.injEq, true_and] at hrest
          rw [ih (w :: ws) (fun z hz => h1 z (List.mem_cons_of_mem _ hz))
            (fun z hz => h2 z (List.mem_cons_of_mem _ hz)) hrest]

theorem renderKey_inj {k1 k2 : List Char × List Char} (h1 : '=' ∉ k1.1) (h2 : '=' ∉ k2.1)
    (e : renderKey k1 = renderKey k2) : k1 = k2 := by
  unfold renderKey at e
  obtain ⟨a, b⟩ := split_first (fun c => c = '=') k1.1 k2.1 _ _
    (fun c hc hd => by subst hd; exact h1 hc) (fun c hc hd => by subst hd; exact h2 hc)
    (Or.inr ⟨'=', k1.2, rfl, rfl⟩) (Or.inr ⟨'=', k2.2, rfl, rfl⟩) (by simpa [List.append_assoc] using e)
  have hb : k1.2 = k2.2 := by simpa using b
  exact Prod.ext a hb

theorem keyOf_fst {q : String × String} (h : noLower q.1.toList) : (keyOf q).1 = q.1.toList :=
  upperC_of_noLower h

/-- the rendered items of a hygienic property list -/
theorem rendered_ok {ps : Props} (h : PropsOK ps) :
    ∀ x ∈ (sortProps ps).map (fun q => renderKey (keyOf q)), x ≠ [] ∧ '|' ∉ x := by
  intro x hx
  obtain ⟨q, hq, rfl⟩ := List.mem_map.1 hx
  have hq' := h.1 q ((sortProps_perm ps).mem_iff.1 hq)
  constructor
  · simp [renderKey]
  · simp only [renderKey, List.mem_append, List.mem_singleton, not_or]
    refine ⟨⟨?_, by decide⟩, ?_⟩
    · rw [keyOf_fst hq'.1]; exact hq'.2.2.1
    · exact hq'.2.2.2


/-- `property_priority(a) < property_priority(b)` written on the names -/
theorem propKeyLt_eq (a b : String) : propKeyLt a b =
    (decide (propIndex a < propIndex b) || (propIndex a == propIndex b && ltChars a.toList b.toList)) := rfl

theorem propKeyLt_irrefl (a : String) : propKeyLt a a = false := by
  simp [propKeyLt_eq, ltChars_irrefl]

theorem propKeyLt_antisymm (a b : String) (h1 : propKeyLt a b = false) (h2 : propKeyLt b a = false) : a = b := by
  simp only [propKeyLt_eq, Bool.or_eq_false_iff, decide_eq_false_iff_not, Bool.and_eq_false_iff, beq_eq_false_iff_ne,
    ne_eq] at h1 h2
  have hidx : propIndex a = propIndex b := by omega
  rcases h1.2 with h | h
  · exact absurd hidx h
  · rcases h2.2 with h' | h'
    · exact absurd hidx.symm h'
    · exact String.ext (ltChars_antisymm _ _ h h')

theorem propKeyLt_trans (a b c : String) (h1 : propKeyLt a b = true) (h2 : propKeyLt b c = true) :
    propKeyLt a c = true := by
  simp only [propKeyLt_eq, Bool.or_eq_true, decide_eq_true_eq, Bool.and_eq_true, beq_iff_eq] at h1 h2 ⊢
  rcases h1 with h1 | ⟨e1, l1⟩
  · rcases h2 with h2 | ⟨e2, _⟩
    · left; omega
    · left; omega
  · rcases h2 with h2 | ⟨e2, l2⟩
    · left; omega
    · right; exact ⟨by omega, ltChars_trans _ _ _ l1 l2⟩

theorem propKeyLt_asymm (a b : String) (h : propKeyLt a b = true) : propKeyLt b a = false := by
  cases hba : propKeyLt b a with
  | false => rfl
  | true =>
    have := propKeyLt_trans a b a h hba
    rw [propKeyLt_irrefl] at this; cases this

def leProp (x y : String × String) : Prop := propKeyLt y.1 x.1 = false

theorem leProp_trans {x y z : String × String} (h1 : leProp x y) (h2 : leProp y z) : leProp x z := by
  unfold leProp at *
  cases hca : propKeyLt z.1 x.1 with
  | false => rfl
  | true =>
    exfalso
    cases hab : propKeyLt x.1 y.1 with
    | true =>
      have := propKeyLt_trans _ _ _ hca hab
      rw [h2] at this; cases this
    | false =>
      have : x.1 = y.1 := propKeyLt_antisymm _ _ hab h1
      rw [this] at hca
      rw [h2] at hca; cases hca

theorem insertProp_sorted (x : String × String) : ∀ (l : Props), l.Pairwise leProp → (insertProp x l).Pairwise leProp := by
  intro l
  induction l with
  | nil => intro _; simp [insertProp]
  | cons y ys ih =>
    intro h
    rw [List.pairwise_cons] at h
    unfold insertProp
    by_cases hxy : propKeyLt x.1 y.1 = true
    · simp only [hxy, if_true]
      rw [List.pairwise_cons, List.pairwise_cons]
      refine ⟨?_, h.1, h.2⟩
      intro z hz
      have hxy' : leProp x y := propKeyLt_asymm _ _ hxy
      rcases List.mem_cons.1 hz with rfl | hz
      · exact hxy'
      · exact leProp_trans hxy' (h.1 z hz)
    · have hxy' : propKeyLt x.1 y.1 = false := by simpa using hxy
      simp only [hxy', Bool.false_eq_true, if_false]
      rw [List.pairwise_cons]
      refine ⟨?_, ih h.2⟩
      intro z hz
      rcases List.mem_cons.1 ((insertProp_perm x ys).mem_iff.1 hz) with rfl | hz
      · exact hxy'
      · exact h.1 z hz

theorem sortProps_sorted (l : Props) : (sortProps l).Pairwise leProp := by
  induction l with
  | nil => simp [sortProps]
  | cons x xs ih => exact insertProp_sorted x _ ih

/-- two sorted permutations of one another are equal, when `le` is antisymmetric on the members -/
theorem sorted_perm_eq_on {α : Type} (le : α → α → Prop) (hrefl : ∀ a, le a a) :
    ∀ (l1 l2 : List α), (∀ a ∈ l1, ∀ b ∈ l1, le a b → le b a → a = b) →
      l1.Pairwise le → l2.Pairwise le → l1.Perm l2 → l1 = l2 := by
  intro l1
  induction l1 with
  | nil => intro l2 _ _ _ hp; exact (List.Perm.nil_eq hp)
  | cons a t1 ih =>
    intro l2 hanti h1 h2 hp
    cases l2 with
    | nil => exact absurd hp.length_eq (by simp)
    | cons b t2 =>
      rw [List.pairwise_cons] at h1 h2
      have hbm : b ∈ a :: t1 := hp.mem_iff.2 List.mem_cons_self
      have hab : le a b := by
        rcases List.mem_cons.1 hbm with e | hb
        · rw [e]; exact hrefl a
        · exact h1.1 b hb
      have hba : le b a := by
        rcases List.mem_cons.1 (hp.mem_iff.1 List.mem_cons_self) with e | ha
        · rw [e]; exact hrefl b
        · exact h2.1 a ha
      have e : a = b := hanti a List.mem_cons_self b hbm hab hba
      subst e
      rw [ih t2 (fun x hx y hy => hanti x (List.mem_cons_of_mem _ hx) y (List.mem_cons_of_mem _ hy))
        h1.2 h2.2 (List.Perm.cons_inv hp)]


theorem map_eq_of_injOn {α β : Type} (f : α → β) : ∀ (l1 l2 : List α),
    (∀ x ∈ l1, ∀ y ∈ l2, f x = f y → x = y) → l1.map f = l2.map f → l1 = l2 := by
  intro l1
  induction l1 with
  | nil => intro l2 _ e; cases l2 with
    | nil => rfl
    | cons b t => simp at e
  | cons a t ih =>
    intro l2 h e
    cases l2 with
    | nil => simp at e
    | cons b t2 =>
      simp only [List.map_cons, List.cons.injEq] at e
      rw [h a List.mem_cons_self b List.mem_cons_self e.1,
        ih t2 (fun x hx y hy => h x (List.mem_cons_of_mem _ hx) y (List.mem_cons_of_mem _ hy)) e.2]

theorem key_no_eq {ps : Props} (h : PropsOK ps) {q : String × String} (hq : q ∈ ps) : '=' ∉ (keyOf q).1 := by
  rw [keyOf_fst (h.1 q hq).1]; exact (h.1 q hq).2.1

theorem propString_ne_nil (ps : Props) : propString ps ≠ [] := by
  rw [propString_eq]; simp

/-- equal property texts ⇒ the same multiset of (name, value) pairs -/
theorem keys_of_part {properties : Bool} {ps1 ps2 : Props} (h1 : PropsOK ps1) (h2 : PropsOK ps2)
    (e : partOf properties ps1 = partOf properties ps2) : (keysOf properties ps1).Perm (keysOf properties ps2) := by
  unfold partOf at e
  unfold keysOf
  cases properties with
  | false => exact List.Perm.refl _
  | true =>
    simp only [Bool.true_and, if_true] at e ⊢
    cases hp1 : ps1 with
    | nil =>
      cases hp2 : ps2 with
      | nil => exact List.Perm.refl _
      | cons b t => rw [hp1, hp2] at e; simp at e; exact absurd e (propString_ne_nil _)
    | cons a t =>
      cases hp2 : ps2 with
      | nil => rw [hp1, hp2] at e; simp at e; exact absurd e (propString_ne_nil _)
      | cons b t2 =>
        rw [← hp1, ← hp2]
        have hne1 : ps1.isEmpty = false := by rw [hp1]; rfl
        have hne2 : ps2.isEmpty = false := by rw [hp2]; rfl
        simp only [hne1, hne2, Bool.not_false, if_true] at e
        rw [propString_eq, propString_eq] at e
        have e' : joinWith ['|'] ((sortProps ps1).map (fun q => renderKey (keyOf q)))
            = joinWith ['|'] ((sortProps ps2).map (fun q => renderKey (keyOf q))) := by
          simpa using e
        have e2 := joinBar_inj _ _ (rendered_ok h1) (rendered_ok h2) e'
        have e3 : ((sortProps ps1).map keyOf).map renderKey = ((sortProps ps2).map keyOf).map renderKey := by
          simpa [List.map_map, Function.comp_def] using e2
        have e4 := map_eq_of_injOn renderKey _ _ (by
          intro x hx y hy hxy
          obtain ⟨q, hq, rfl⟩ := List.mem_map.1 hx
          obtain ⟨q', hq', rfl⟩ := List.mem_map.1 hy
          exact renderKey_inj (key_no_eq h1 ((sortProps_perm ps1).mem_iff.1 hq))
            (key_no_eq h2 ((sortProps_perm ps2).mem_iff.1 hq')) hxy) e3
        exact (((sortProps_perm ps1).map keyOf).symm.trans (e4 ▸ List.Perm.refl _)).trans
          ((sortProps_perm ps2).map keyOf)

def leKey (X Y : List Char × List Char) : Prop := propKeyLt (String.ofList Y.1) (String.ofList X.1) = false

theorem sorted_keys {ps : Props} (h : PropsOK ps) : ((sortProps ps).map keyOf).Pairwise leKey := by
  rw [List.pairwise_map]
  have hs := sortProps_sorted ps
  have hmem : ∀ q ∈ sortProps ps, q ∈ ps := fun q hq => (sortProps_perm ps).mem_iff.1 hq
  refine List.Pairwise.imp_of_mem ?_ hs
  intro x y hx hy hxy
  unfold leKey
  rw [keyOf_fst (h.1 x (hmem x hx)).1, keyOf_fst (h.1 y (hmem y hy)).1]
  have : propKeyLt y.1 x.1 = false := hxy
  simpa using this

/-- the same multiset of (name, value) pairs ⇒ equal property texts (insertion sort is canonical) -/
theorem part_of_keys {properties : Bool} {ps1 ps2 : Props} (h1 : PropsOK ps1) (h2 : PropsOK ps2)
    (hp : (keysOf properties ps1).Perm (keysOf properties ps2)) : partOf properties ps1 = partOf properties ps2 := by
  unfold keysOf at hp
  unfold partOf
  cases properties with
  | false => rfl
  | true =>
    simp only [if_true] at hp
    have hlen : ps1.length = ps2.length := by simpa using hp.length_eq
    have hemp : ps1.isEmpty = ps2.isEmpty := by
      cases ps1 <;> cases ps2 <;> simp_all
    simp only [Bool.true_and, hemp]
    by_cases he : (!ps2.isEmpty) = true
    · simp only [he, if_true]
      have hperm : ((sortProps ps1).map keyOf).Perm ((sortProps ps2).map keyOf) :=
        (((sortProps_perm ps1).map keyOf).trans hp).trans ((sortProps_perm ps2).map keyOf).symm
      have heq := sorted_perm_eq_on leKey (fun a => propKeyLt_irrefl _) _ _ (by
        intro X hX Y hY hXY hYX
        obtain ⟨x, hx, rfl⟩ := List.mem_map.1 hX
        obtain ⟨y, hy, rfl⟩ := List.mem_map.1 hY
        have hx' := (sortProps_perm ps1).mem_iff.1 hx
        have hy' := (sortProps_perm ps1).mem_iff.1 hy
        unfold leKey at hXY hYX
        rw [keyOf_fst (h1.1 x hx').1, keyOf_fst (h1.1 y hy').1] at hXY hYX
        have hn : x.1 = y.1 := by
          have := propKeyLt_antisymm _ _ hYX hXY
          simpa using this
        have : x = y := map_eq_of_nodup_map (·.1) id ps1 h1.2 x hx' y hy' hn
        rw [this]) (sorted_keys h1) (sorted_keys h2) hperm
      rw [propString_eq, propString_eq]
      have : (sortProps ps1).map (fun q => renderKey (keyOf q)) = (sortProps ps2).map (fun q => renderKey (keyOf q)) := by
        have := congrArg (List.map renderKey) heq
        simpa [List.map_map, Function.comp_def] using this
      rw [this]
    · simp only [he]; rfl

theorem propPart_eq_partOf (properties : Bool) (m : MRS) (e : EP) :
    propPart properties m e = partOf properties (ivProps m e) := by
  unfold propPart partOf ivProps
  cases e.iv <;> rfl

/-! ## §24 a graph isomorphism, read forwards -/

section Nodes
variable {properties : Bool} {m : MRS} {g : IsoGraph}

theorem var_mem_keys (hg : mkIsoGraph properties m = .ok g) {v : Var} (hv : v ∈ filledVars m) :
    vstr v ∈ dkeys g := by
  rw [mkIsoGraph_keys hg]; exact initGraph_has_var hv

theorem id_mem_keys (h : InSpace properties m) (hg : mkIsoGraph properties m = .ok g) {e : EP} (he : e ∈ m.rels) :
    vstr e.baseId ∈ dkeys g :=
  pred_id_mem_keys hg (pred_of_rel h.names.simple he)

theorem node_label_of_rel (h : InSpace properties m) (hg : mkIsoGraph properties m = .ok g) {e : EP}
    (he : e ∈ m.rels) : edge g (vstr e.baseId) none = some (epNodeLabel properties m e) :=
  edge_none_of_pred h.names.rows hg (pred_of_rel h.names.simple he)

theorem rel_of_node_label (h : InSpace properties m) (hg : mkIsoGraph properties m = .ok g) {u : Node} {l : Label}
    (hl : edge g u none = some l) : ∃ e ∈ m.rels, u = vstr e.baseId := by
  obtain ⟨q, hq, rfl⟩ := pred_of_edge_none h.names.rows hg hl
  rw [preds_of_simple h.names.simple] at hq
  obtain ⟨e, he, rfl⟩ := List.mem_map.1 hq
  exact ⟨e, he, rfl⟩

theorem var_of_names_eq (h : InSpace properties m) {v w : Var} (hv : v ∈ filledVars m) (hw : w ∈ filledVars m)
    (e : vstr v = vstr w) : v = w :=
  map_eq_of_nodup_map vstr id _ h.names.vars v hv w hw e

theorem rel_of_ids_eq (h : InSpace properties m) {e e' : EP} (he : e ∈ m.rels) (he' : e' ∈ m.rels)
    (hid : vstr e.baseId = vstr e'.baseId) : e = e' :=
  map_eq_of_nodup_map (fun e => vstr e.baseId) id _ h.names.ids e he e' he' hid

theorem label_mem (he : e ∈ m.rels) : e.label ∈ filledVars m := mem_filledVars_raw.2 (label_mem_raw he)
theorem arg_mem {e : EP} (he : e ∈ m.rels) {a : Role × Var} (ha : a ∈ e.args) : a.2 ∈ filledVars m :=
  mem_filledVars_raw.2 (arg_mem_raw he ha)
theorem hc_mem {c : HCons} (hc : c ∈ m.hcons) : c.hi ∈ filledVars m ∧ c.lo ∈ filledVars m := by
  constructor <;>
  · apply mem_filledVars_raw.2
    simp only [rawVars, List.mem_append, List.mem_flatMap]
    exact Or.inl (Or.inr ⟨c, hc, by simp⟩)
theorem ic_mem {c : ICons} (hc : c ∈ m.icons) : c.left ∈ filledVars m ∧ c.right ∈ filledVars m := by
  constructor <;>
  · apply mem_filledVars_raw.2
    simp only [rawVars, List.mem_append, List.mem_flatMap]
    exact Or.inr ⟨c, hc, by simp⟩

/-- a node with an edge to itself is a variable node -/
theorem var_of_self_loop (h : InSpace properties m) (hg : mkIsoGraph properties m = .ok g) {n : Node} {l : Label}
    (hl : edge g n (some n) = some l) : ∃ v ∈ filledVars m, n = vstr v := by
  rcases edge_source h hg hl with ⟨e, he, hu, _, _⟩ | ⟨e, he, a, ha, _, ht, _⟩ | ⟨c, hc, hu, _, _⟩ | ⟨c, hc, hu, _, _⟩
  · exact ⟨e.label, label_mem he, hu⟩
  · exact ⟨a.2, arg_mem he ha, ht⟩
  · exact ⟨c.hi, (hc_mem hc).1, hu⟩
  · exact ⟨c.left, (ic_mem hc).1, hu⟩

/-- a variable node that is also a predication node has an edge to itself (its `ARG0`) -/
theorem self_loop_of_var_id (h : InSpace properties m) (hg : mkIsoGraph properties m = .ok g) {v : Var}
    (hv : v ∈ filledVars m) {e : EP} (he : e ∈ m.rels) (hid : vstr v = vstr e.baseId) :
    ∃ l, edge g (vstr v) (some (vstr v)) = some l := by
  obtain ⟨hq, hiv⟩ := h.names.idVar e he (List.mem_map.2 ⟨v, hv, hid⟩)
  obtain ⟨u, hu⟩ := Option.isSome_iff_exists.1 hiv
  have hb := baseId_nonquant hq hu
  have ha : (INTRINSIC_ROLE, u) ∈ e.args := dlookup_mem hu
  have hum : u ∈ filledVars m := arg_mem he ha
  have huv : u = v := var_of_names_eq h hum hv (by rw [hid, hb])
  subst huv
  obtain ⟨S, _, hS⟩ := edge_arg h hg he ha
  rw [hb] at hS
  exact ⟨_, hS⟩

theorem roles_noLower (h : InSpace properties m) {e : EP} (he : e ∈ m.rels) {tgt : Node} {S : List (List Char)}
    (hS : S.Perm (rolesTo e.args tgt)) : (∀ x ∈ S, WordOK x) ∧ noLower (joinWith [' '] S) := by
  have hall : ∀ x ∈ S, WordOK x ∧ noLower x := by
    intro x hx
    obtain ⟨b, hb, rfl⟩ := List.mem_map.1 (hS.mem_iff.1 hx)
    exact h.roles e he b (List.mem_filter.1 hb).1
  exact ⟨fun x hx => (hall x hx).1, noLower_join S (fun x hx => (hall x hx).2)⟩

end Nodes


/-- what a graph isomorphism `μ` says about the two MRSs, read from `m1` to `m2` -/
structure Fwd (properties : Bool) (μ : Mapping) (m1 m2 : MRS) : Prop where
  vars : ∀ v ∈ filledVars m1, ∃ w ∈ filledVars m2, (vstr v, vstr w) ∈ μ
  eps : ∀ e1 ∈ m1.rels, ∃ e2 ∈ m2.rels, (vstr e1.baseId, vstr e2.baseId) ∈ μ
    ∧ epNodeLabel properties m1 e1 = epNodeLabel properties m2 e2
    ∧ (vstr e1.label, vstr e2.label) ∈ μ
    ∧ ∀ a ∈ e1.args, ∃ b ∈ e2.args, b.1 = a.1 ∧ (vstr a.2, vstr b.2) ∈ μ
  hcs : ∀ c1 ∈ m1.hcons, ∃ c2 ∈ m2.hcons, c2.rel = c1.rel ∧ (vstr c1.hi, vstr c2.hi) ∈ μ
    ∧ (vstr c1.lo, vstr c2.lo) ∈ μ
  ics : ∀ c1 ∈ m1.icons, ∃ c2 ∈ m2.icons, c2.rel = c1.rel ∧ (vstr c1.left, vstr c2.left) ∈ μ
    ∧ (vstr c1.right, vstr c2.right) ∈ μ

theorem fwd_of_iso {properties : Bool} {m1 m2 : MRS} {g1 g2 : IsoGraph} {μ : Mapping}
    (h1 : InSpace properties m1) (h2 : InSpace properties m2)
    (hg1 : mkIsoGraph properties m1 = .ok g1) (hg2 : mkIsoGraph properties m2 = .ok g2)
    (hμ : IsIsoVia μ g1 g2) : Fwd properties μ m1 m2 := by
  -- the partner of a node
  have partner : ∀ n ∈ dkeys g1, ∃ n', (n, n') ∈ μ ∧ n' ∈ dkeys g2 := by
    intro n hn
    obtain ⟨⟨a, b⟩, hp, ha⟩ := List.mem_map.1 ((hμ.total n).1 hn)
    simp only at ha; subst ha
    exact ⟨b, hp, (hμ.onto b).2 (List.mem_map.2 ⟨_, hp, rfl⟩)⟩
  -- variables go to variables
  have hvars : ∀ v ∈ filledVars m1, ∃ w ∈ filledVars m2, (vstr v, vstr w) ∈ μ := by
    intro v hv
    obtain ⟨n', hp, hn'⟩ := partner _ (var_mem_keys hg1 hv)
    rcases mem_nodeNames.1 ((keys_eq_nodeNames h2.names.simple hg2 n').1 hn') with ⟨w, hw, rfl⟩ | ⟨e2, he2, rfl⟩
    · exact ⟨w, hw, hp⟩
    · have hl2 := node_label_of_rel h2 hg2 he2
      have hl1 : edge g1 (vstr v) none = some (epNodeLabel properties m2 e2) := by
        rw [hμ.nodeLabel _ hp]; exact hl2
      obtain ⟨e1, he1, hid⟩ := rel_of_node_label h1 hg1 hl1
      obtain ⟨l, hl⟩ := self_loop_of_var_id h1 hg1 hv he1 hid
      have := hμ.edgeLabel _ hp _ hp
      simp only at this
      rw [hl] at this
      obtain ⟨w, hw, hnw⟩ := var_of_self_loop h2 hg2 this.symm
      exact ⟨w, hw, by rw [← hnw]; exact hp⟩
  -- predications go to predications
  have heps0 : ∀ e1 ∈ m1.rels, ∃ e2 ∈ m2.rels, (vstr e1.baseId, vstr e2.baseId) ∈ μ
      ∧ epNodeLabel properties m1 e1 = epNodeLabel properties m2 e2 := by
    intro e1 he1
    obtain ⟨n', hp, _⟩ := partner _ (id_mem_keys h1 hg1 he1)
    have hl1 := node_label_of_rel h1 hg1 he1
    have hl2 : edge g2 n' none = some (epNodeLabel properties m1 e1) := by
      rw [← hμ.nodeLabel _ hp]; exact hl1
    obtain ⟨e2, he2, rfl⟩ := rel_of_node_label h2 hg2 hl2
    rw [node_label_of_rel h2 hg2 he2] at hl2
    exact ⟨e2, he2, hp, (Option.some.inj hl2).symm⟩
  refine ⟨hvars, ?_, ?_, ?_⟩
  · intro e1 he1
    obtain ⟨e2, he2, hp, hlab⟩ := heps0 e1 he1
    refine ⟨e2, he2, hp, hlab, ?_, ?_⟩
    · -- scope
      obtain ⟨w, hw, hpw⟩ := hvars _ (label_mem he1)
      have hsc := edge_scope h1 hg1 he1
      have := hμ.edgeLabel _ hpw _ hp
      simp only at this
      rw [hsc] at this
      rcases edge_source h2 hg2 this.symm with ⟨e, he, hu, ht, _⟩ | ⟨e, he, a, ha, _, _, S, hS, hl⟩
          | ⟨c, hc, _, _, hl⟩ | ⟨c, hc, _, _, hl⟩
      · have : e = e2 := rel_of_ids_eq h2 he he2 ht.symm
        subst this
        rw [← hu]; exact hpw
      · exact absurd hl.symm (noLower_ne_hasLower (roles_noLower h2 he hS).2 hasLower_eqScope)
      · exact absurd hl.symm (hasLower_hrel (h2.hrel c hc)).2
      · exact absurd hl.symm (h2.irel c hc).2.2
    · -- arguments
      intro a ha
      obtain ⟨w, hw, hpw⟩ := hvars _ (arg_mem he1 ha)
      obtain ⟨S1, hS1, hval⟩ := edge_arg h1 hg1 he1 ha
      have hno1 := roles_noLower h1 he1 hS1
      have := hμ.edgeLabel _ hp _ hpw
      simp only at this
      rw [hval] at this
      rcases edge_source h2 hg2 this.symm with ⟨e, he, _, _, hl⟩ | ⟨e, he, b, hb, hu, ht, S2, hS2, hl⟩
          | ⟨c, hc, _, _, hl⟩ | ⟨c, hc, _, _, hl⟩
      · exact absurd hl (noLower_ne_hasLower hno1.2 hasLower_eqScope)
      · have : e = e2 := rel_of_ids_eq h2 he he2 hu.symm
        subst this
        have hno2 := roles_noLower h2 he hS2
        have hSS : S1 = S2 := by
          have := congrArg splitSp hl
          rwa [splitSp_join S1 hno1.1, splitSp_join S2 hno2.1] at this
        have hmem : a.1.toList ∈ rolesTo e.args (vstr b.2) := by
          apply hS2.mem_iff.1
          rw [← hSS]
          exact hS1.mem_iff.2 (List.mem_map.2 ⟨a, List.mem_filter.2 ⟨ha, by simp⟩, rfl⟩)
        obtain ⟨b', hb', hrole⟩ := List.mem_map.1 hmem
        have hb'm := (List.mem_filter.1 hb').1
        have hb't : vstr b'.2 = vstr b.2 := by simpa using (List.mem_filter.1 hb').2
        refine ⟨b', hb'm, String.ext hrole, ?_⟩
        rw [hb't, ← ht]; exact hpw
      · exact absurd hl (noLower_ne_hasLower hno1.2 (hasLower_hrel (h2.hrel c hc)).1)
      · exact absurd hl (noLower_ne_hasLower hno1.2 (h2.irel c hc).1)
  · -- handle constraints
    intro c1 hc1
    obtain ⟨whi, _, hphi⟩ := hvars _ (hc_mem hc1).1
    obtain ⟨wlo, _, hplo⟩ := hvars _ (hc_mem hc1).2
    have hval := edge_hc h1 hg1 hc1
    have := hμ.edgeLabel _ hphi _ hplo
    simp only at this
    rw [hval] at this
    have hr1 := hasLower_hrel (h1.hrel c1 hc1)
    rcases edge_source h2 hg2 this.symm with ⟨e, he, _, _, hl⟩ | ⟨e, he, b, hb, _, _, S2, hS2, hl⟩
        | ⟨c, hc, hu, ht, hl⟩ | ⟨c, hc, _, _, hl⟩
    · exact absurd hl hr1.2
    · exact absurd hl.symm (noLower_ne_hasLower (roles_noLower h2 he hS2).2 hr1.1)
    · exact ⟨c, hc, (String.ext hl).symm, by rw [← hu]; exact hphi, by rw [← ht]; exact hplo⟩
    · exfalso
      have : c.rel = c1.rel := (String.ext hl).symm
      exact (h2.irel c hc).2.1 (this ▸ h1.hrel c1 hc1)
  · -- individual constraints
    intro c1 hc1
    obtain ⟨wl, _, hpl⟩ := hvars _ (ic_mem hc1).1
    obtain ⟨wr, _, hpr⟩ := hvars _ (ic_mem hc1).2
    have hval := edge_ic h1 hg1 hc1
    have := hμ.edgeLabel _ hpl _ hpr
    simp only at this
    rw [hval] at this
    have hr1 := h1.irel c1 hc1
    rcases edge_source h2 hg2 this.symm with ⟨e, he, _, _, hl⟩ | ⟨e, he, b, hb, _, _, S2, hS2, hl⟩
        | ⟨c, hc, _, _, hl⟩ | ⟨c, hc, hu, ht, hl⟩
    · exact absurd hl hr1.2.2
    · exact absurd hl.symm (noLower_ne_hasLower (roles_noLower h2 he hS2).2 hr1.1)
    · exfalso
      have : c.rel = c1.rel := (String.ext hl).symm
      exact hr1.2.1 (this ▸ h2.hrel c hc)
    · exact ⟨c, hc, (String.ext hl).symm, by rw [← hu]; exact hpl, by rw [← ht]; exact hpr⟩


/-! ## §25 from a graph isomorphism to an MRS isomorphism -/

/-- the variable map read off `μ` -/
def sigmaOf (μ : Mapping) (m2 : MRS) (v : Var) : Var :=
  ((filledVars m2).find? (fun w => decide ((vstr v, vstr w) ∈ μ))).getD v

/-- the partner predication read off `μ` -/
def partnerOf (μ : Mapping) (m2 : MRS) (e1 : EP) : EP :=
  (m2.rels.find? (fun e2 => decide ((vstr e1.baseId, vstr e2.baseId) ∈ μ))).getD e1

theorem hcons_nodup_of_noParallel {m : MRS} (h : NoParallel m) : m.hcons.Nodup ∧ m.icons.Nodup := by
  unfold NoParallel blocks at h
  rw [List.pairwise_append] at h
  obtain ⟨h12, h3, _⟩ := h
  rw [List.pairwise_append] at h12
  obtain ⟨_, h2, _⟩ := h12
  rw [List.pairwise_map] at h2 h3
  constructor
  · exact h2.imp (fun {a b} hab e => by
      subst e
      exact hab (vstr a.hi, some (vstr a.lo)) (by simp [blockPos]) _ (by simp [blockPos]) rfl)
  · exact h3.imp (fun {a b} hab e => by
      subst e
      exact hab (vstr a.left, some (vstr a.right)) (by simp [blockPos]) _ (by simp [blockPos]) rfl)

theorem nodup_of_nodup_fst {α β : Type} (l : List (α × β)) (h : (l.map (·.1)).Nodup) : l.Nodup :=
  nodup_of_nodup_map (·.1) l h

theorem mrsIso_of_graphIso {properties : Bool} {m1 m2 : MRS} {g1 g2 : IsoGraph} {μ : Mapping}
    (h1 : InSpace properties m1) (h2 : InSpace properties m2)
    (hg1 : mkIsoGraph properties m1 = .ok g1) (hg2 : mkIsoGraph properties m2 = .ok g2)
    (hμ : IsIsoVia μ g1 g2) : MRSIso properties m1 m2 := by
  have F := fwd_of_iso h1 h2 hg1 hg2 hμ
  have B := fwd_of_iso h2 h1 hg2 hg1 (isIsoVia_symm hμ)
  let σ := sigmaOf μ m2
  -- σ on variables of m1
  have hσ : ∀ v ∈ filledVars m1, σ v ∈ filledVars m2 ∧ (vstr v, vstr (σ v)) ∈ μ := by
    intro v hv
    obtain ⟨w, hw, hp⟩ := F.vars v hv
    cases hf : (filledVars m2).find? (fun w => decide ((vstr v, vstr w) ∈ μ)) with
    | none =>
      have := List.find?_eq_none.1 hf w hw
      simp [hp] at this
    | some w' =>
      have hmem := List.mem_of_find?_eq_some hf
      have hprop := List.find?_some hf
      have : σ v = w' := by simp [σ, sigmaOf, hf]
      rw [this]
      exact ⟨hmem, by simpa using hprop⟩
  have hσu : ∀ v ∈ filledVars m1, ∀ w ∈ filledVars m2, (vstr v, vstr w) ∈ μ → σ v = w := by
    intro v hv w hw hp
    obtain ⟨hm, hp'⟩ := hσ v hv
    exact var_of_names_eq h2 hm hw (pair_fst_unique hμ.functional hp' hp)
  -- partner on predications of m1
  have hπ : ∀ e1 ∈ m1.rels, partnerOf μ m2 e1 ∈ m2.rels
      ∧ (vstr e1.baseId, vstr (partnerOf μ m2 e1).baseId) ∈ μ := by
    intro e1 he1
    obtain ⟨e2, he2, hp, _⟩ := F.eps e1 he1
    cases hf : m2.rels.find? (fun e2 => decide ((vstr e1.baseId, vstr e2.baseId) ∈ μ)) with
    | none =>
      have := List.find?_eq_none.1 hf e2 he2
      simp [hp] at this
    | some e' =>
      have hmem := List.mem_of_find?_eq_some hf
      have hprop := List.find?_some hf
      have : partnerOf μ m2 e1 = e' := by simp [partnerOf, hf]
      rw [this]
      exact ⟨hmem, by simpa using hprop⟩
  have hπu : ∀ e1 ∈ m1.rels, ∀ e2 ∈ m2.rels, (vstr e1.baseId, vstr e2.baseId) ∈ μ → partnerOf μ m2 e1 = e2 := by
    intro e1 he1 e2 he2 hp
    obtain ⟨hm, hp'⟩ := hπ e1 he1
    exact rel_of_ids_eq h2 hm he2 (pair_fst_unique hμ.functional hp' hp)
  refine ⟨σ, ?_, ?_, ?_, ?_, ?_⟩
  · -- injective
    intro v hv w hw e
    have a := (hσ v hv).2
    have b := (hσ w hw).2
    rw [e] at a
    exact var_of_names_eq h1 hv hw (pair_snd_unique hμ.injective a b)
  · -- onto
    intro w
    constructor
    · intro hw
      obtain ⟨v, hv, hp⟩ := B.vars w hw
      exact ⟨v, hv, hσu v hv w hw (mem_swapM.1 hp)⟩
    · rintro ⟨v, hv, rfl⟩
      exact (hσ v hv).1
  · -- predications
    refine ⟨m1.rels.map (fun e1 => (e1, partnerOf μ m2 e1)), ?_, ?_, ?_⟩
    · simp [List.map_map, Function.comp_def]
    · have hmap : (m1.rels.map (fun e1 => (e1, partnerOf μ m2 e1))).map (·.2) = m1.rels.map (partnerOf μ m2) := by
        simp [List.map_map, Function.comp_def]
      rw [hmap]
      have hnd1 : m1.rels.Nodup := nodup_of_nodup_map _ _ h1.names.ids
      have hnd2 : m2.rels.Nodup := nodup_of_nodup_map _ _ h2.names.ids
      rw [List.perm_ext_iff_of_nodup _ hnd2]
      · intro e2
        constructor
        · intro he
          obtain ⟨e1, he1, rfl⟩ := List.mem_map.1 he
          exact (hπ e1 he1).1
        · intro he2
          obtain ⟨e1, he1, hp, _⟩ := B.eps e2 he2
          exact List.mem_map.2 ⟨e1, he1, hπu e1 he1 e2 he2 (mem_swapM.1 hp)⟩
      · apply nodup_map_of_injOn _ _ hnd1
        intro x hx y hy hxy
        have a := (hπ x hx).2
        have b := (hπ y hy).2
        rw [hxy] at a
        exact rel_of_ids_eq h1 hx hy (pair_snd_unique hμ.injective a b)
    · intro pr hpr
      obtain ⟨e1, he1, rfl⟩ := List.mem_map.1 hpr
      obtain ⟨e2, he2, hp, hlab, hlbl, hargs⟩ := F.eps e1 he1
      have hpe : partnerOf μ m2 e1 = e2 := hπu e1 he1 e2 he2 hp
      simp only [hpe]
      obtain ⟨d1, d2, d3⟩ := label_decode (h1.preds e1 he1) (h2.preds e2 he2) (h1.cargs e1 he1) (h2.cargs e2 he2) hlab
      have d3' : (propKey properties m1 e1).Perm (propKey properties m2 e2) :=
        keys_of_part (h1.props e1 he1) (h2.props e2 he2)
          (by rw [← propPart_eq_partOf, ← propPart_eq_partOf]; exact d3)
      refine ⟨d1, d2, d3', hσu _ (label_mem he1) _ (label_mem he2) hlbl, ?_⟩
      -- arguments: both lists have distinct roles, so it is enough to compare members
      have hn1 : (e1.args.map (fun a => (a.1, σ a.2))).Nodup := by
        apply nodup_of_nodup_fst
        simpa [List.map_map, Function.comp_def] using h1.rolesNodup e1 he1
      have hn2 : e2.args.Nodup := nodup_of_nodup_fst _ (h2.rolesNodup e2 he2)
      rw [List.perm_ext_iff_of_nodup hn1 hn2]
      intro x
      constructor
      · intro hx
        obtain ⟨a, ha, rfl⟩ := List.mem_map.1 hx
        obtain ⟨b, hb, hr, hp2⟩ := hargs a ha
        have : σ a.2 = b.2 := hσu _ (arg_mem he1 ha) _ (arg_mem he2 hb) hp2
        rw [this, ← hr]; exact hb
      · intro hx
        obtain ⟨e1', he1', hp', _, _, hargs'⟩ := B.eps e2 he2
        have he : e1' = e1 := rel_of_ids_eq h1 he1' he1
          (pair_snd_unique hμ.injective (mem_swapM.1 hp') hp)
        subst he
        obtain ⟨a, ha, hr, hp2⟩ := hargs' x hx
        have : σ a.2 = x.2 := hσu _ (arg_mem he1' ha) _ (arg_mem he2 hx) (mem_swapM.1 hp2)
        exact List.mem_map.2 ⟨a, ha, by rw [this, hr]⟩
  · -- handle constraints
    have hn2 := (hcons_nodup_of_noParallel h2.nopar).1
    have hn1 : (m1.hcons.map (fun h => (⟨σ h.hi, h.rel, σ h.lo⟩ : HCons))).Nodup := by
      apply nodup_map_of_injOn _ _ (hcons_nodup_of_noParallel h1.nopar).1
      intro x hx y hy hxy
      simp only [HCons.mk.injEq] at hxy
      obtain ⟨a, b, c⟩ := hxy
      have e1 : x.hi = y.hi := by
        have p := (hσ _ (hc_mem hx).1).2; have q := (hσ _ (hc_mem hy).1).2
        rw [a] at p
        exact var_of_names_eq h1 (hc_mem hx).1 (hc_mem hy).1 (pair_snd_unique hμ.injective p q)
      have e2 : x.lo = y.lo := by
        have p := (hσ _ (hc_mem hx).2).2; have q := (hσ _ (hc_mem hy).2).2
        rw [c] at p
        exact var_of_names_eq h1 (hc_mem hx).2 (hc_mem hy).2 (pair_snd_unique hμ.injective p q)
      cases x; cases y; simp_all
    rw [List.perm_ext_iff_of_nodup hn1 hn2]
    intro c
    constructor
    · intro hc
      obtain ⟨c1, hc1, rfl⟩ := List.mem_map.1 hc
      obtain ⟨c2, hc2, hr, hphi, hplo⟩ := F.hcs c1 hc1
      have a := hσu _ (hc_mem hc1).1 _ (hc_mem hc2).1 hphi
      have b := hσu _ (hc_mem hc1).2 _ (hc_mem hc2).2 hplo
      have : (⟨σ c1.hi, c1.rel, σ c1.lo⟩ : HCons) = c2 := by cases c2; simp_all
      rw [this]; exact hc2
    · intro hc2
      obtain ⟨c1, hc1, hr, hphi, hplo⟩ := B.hcs c hc2
      have a := hσu _ (hc_mem hc1).1 _ (hc_mem hc2).1 (mem_swapM.1 hphi)
      have b := hσu _ (hc_mem hc1).2 _ (hc_mem hc2).2 (mem_swapM.1 hplo)
      exact List.mem_map.2 ⟨c1, hc1, by cases c; simp_all⟩
  · -- individual constraints
    have hn2 := (hcons_nodup_of_noParallel h2.nopar).2
    have hn1 : (m1.icons.map (fun c => (⟨σ c.left, c.rel, σ c.right⟩ : ICons))).Nodup := by
      apply nodup_map_of_injOn _ _ (hcons_nodup_of_noParallel h1.nopar).2
      intro x hx y hy hxy
      simp only [ICons.mk.injEq] at hxy
      obtain ⟨a, b, c⟩ := hxy
      have e1 : x.left = y.left := by
        have p := (hσ _ (ic_mem hx).1).2; have q := (hσ _ (ic_mem hy).1).2
        rw [a] at p
        exact var_of_names_eq h1 (ic_mem hx).1 (ic_mem hy).1 (pair_snd_unique hμ.injective p q)
      have e2 : x.right = y.right := by
        have p := (hσ _ (ic_mem hx).2).2; have q := (hσ _ (ic_mem hy).2).2
        rw [c] at p
        exact var_of_names_eq h1 (ic_mem hx).2 (ic_mem hy).2 (pair_snd_unique hμ.injective p q)
      cases x; cases y; simp_all
    rw [List.perm_ext_iff_of_nodup hn1 hn2]
    intro c
    constructor
    · intro hc
      obtain ⟨c1, hc1, rfl⟩ := List.mem_map.1 hc
      obtain ⟨c2, hc2, hr, hpl, hpr⟩ := F.ics c1 hc1
      have a := hσu _ (ic_mem hc1).1 _ (ic_mem hc2).1 hpl
      have b := hσu _ (ic_mem hc1).2 _ (ic_mem hc2).2 hpr
      have : (⟨σ c1.left, c1.rel, σ c1.right⟩ : ICons) = c2 := by cases c2; simp_all
      rw [this]; exact hc2
    · intro hc2
      obtain ⟨c1, hc1, hr, hpl, hpr⟩ := B.ics c hc2
      have a := hσu _ (ic_mem hc1).1 _ (ic_mem hc2).1 (mem_swapM.1 hpl)
      have b := hσu _ (ic_mem hc1).2 _ (ic_mem hc2).2 (mem_swapM.1 hpr)
      exact List.mem_map.2 ⟨c1, hc1, by cases c; simp_all⟩

/-- the Boolean form evaluated by the driver implies `InSpace` -/
theorem inSpace_of_b {properties : Bool} {m : MRS} (h : inSpaceb properties m = true) : InSpace properties m := by
  simp only [inSpaceb, Bool.and_eq_true, decide_eq_true_eq] at h
  obtain ⟨⟨⟨⟨⟨⟨⟨⟨⟨h1, h2⟩, h3⟩, h4⟩, h5⟩, h6⟩, h7⟩, h8⟩, h8'⟩, h9⟩ := h
  refine ⟨namesOK_of_b h1, h2, h3, h4, h5, h6, h7, h8, h8', ?_⟩
  intro g hg
  rw [hg] at h9
  exact h9


theorem argDict_sorted : ∀ (args : List (Role × Var)) (d : List (Node × Label)),
    (∀ a ∈ args, WordOK a.1.toList) →
    (∀ tgt l, dlookup tgt d = some l → ∃ S, SortedL S ∧ (∀ x ∈ S, WordOK x) ∧ S ≠ [] ∧ l = joinWith [' '] S) →
    ∀ tgt l, dlookup tgt (argDict args d) = some l →
      ∃ S, SortedL S ∧ (∀ x ∈ S, WordOK x) ∧ S ≠ [] ∧ l = joinWith [' '] S := by
  intro args
  induction args with
  | nil => intro d _ h; exact h
  | cons a rest ih =>
    intro d hok hinv
    simp only [argDict]
    apply ih _ (fun b hb => hok b (List.mem_cons_of_mem _ hb))
    intro tgt l hl
    rw [dlookup_dset] at hl
    by_cases h : vstr a.2 = tgt
    · subst h
      simp only [if_true, Option.some.injEq] at hl
      subst hl
      -- the new value
      have hsplit : ∃ S0, SortedL S0 ∧ (∀ x ∈ S0, WordOK x) ∧ splitSp ((dlookup (vstr a.2) d).getD []) = S0 := by
        cases hd : dlookup (vstr a.2) d with
        | none => exact ⟨[], by simp [SortedL], by simp, rfl⟩
        | some l0 =>
          obtain ⟨S0, hs, hw, _, rfl⟩ := hinv _ _ hd
          exact ⟨S0, hs, hw, by simp [splitSp_join S0 hw]⟩
      obtain ⟨S0, _, hw0, hs0⟩ := hsplit
      refine ⟨sortLabels (S0 ++ [a.1.toList]), sortLabels_sorted _, ?_, ?_, ?_⟩
      · intro x hx
        have := (sortLabels_perm _).mem_iff.1 hx
        rcases List.mem_append.1 this with h1 | h1
        · exact hw0 x h1
        · simp only [List.mem_singleton] at h1; subst h1; exact hok a List.mem_cons_self
      · intro e
        have := (sortLabels_perm (S0 ++ [a.1.toList])).length_eq
        rw [e] at this; simp at this
      · simp only [mergeRole, hs0]
    · simp only [h, if_false] at hl
      exact hinv tgt l hl

/-- S3 in canonical form: the label is `' '.join(sorted(roles to that target))` -/
theorem edge_arg_canon {properties : Bool} {m : MRS} {g : IsoGraph} (h : InSpace properties m)
    (hg : mkIsoGraph properties m = .ok g) {e : EP} (he : e ∈ m.rels) {a : Role × Var} (ha : a ∈ e.args) :
    edge g (vstr e.baseId) (some (vstr a.2)) = some (joinWith [' '] (sortLabels (rolesTo e.args (vstr a.2)))) := by
  obtain ⟨S, hS, hval⟩ := edge_arg h hg he ha
  have hb : Block.ep (e.baseId, e) ∈ blocks m :=
    mem_blocks.2 (Or.inl ⟨_, pred_of_rel h.names.simple he, rfl⟩)
  have h1 := edge_of_block h.names.rows h.nopar hg hb
    (pos := (vstr e.baseId, some (vstr a.2))) (by
      simp only [blockPos, List.mem_cons, List.mem_map]
      exact Or.inr (Or.inr ⟨a, ha, rfl⟩))
  have h2 : lastW (blockWrites properties m (Block.ep (e.baseId, e))) (vstr e.baseId, some (vstr a.2)) none
      = dlookup (vstr a.2) (argDict e.args []) :=
    lastW_ep_arg (properties := properties) (m := m) (q := (e.baseId, e)) (lblId_ne h.names he) (vstr a.2)
  simp only at h1
  rw [h1, h2] at hval
  obtain ⟨S', hs', hw', _, hl'⟩ := argDict_sorted e.args [] (fun b hb => (h.roles e he b hb).1)
    (by intro t l hl; simp [dlookup] at hl) _ _ hval
  have hwS := (roles_noLower h he hS).1
  have hSS : S = S' := by
    have := congrArg splitSp hl'
    rwa [splitSp_join S hwS, splitSp_join S' hw'] at this
  subst hSS
  have : S = sortLabels (rolesTo e.args (vstr a.2)) :=
    sorted_perm_eq _ _ hs' (sortLabels_sorted _) (hS.trans (sortLabels_perm _).symm)
  rw [← this, ← hval, h1, h2]

theorem sortLabels_congr {l1 l2 : List (List Char)} (h : l1.Perm l2) : sortLabels l1 = sortLabels l2 :=
  sorted_perm_eq _ _ (sortLabels_sorted _) (sortLabels_sorted _)
    ((sortLabels_perm l1).trans (h.trans (sortLabels_perm l2).symm))


/-! ## §27 from an MRS isomorphism to a graph isomorphism -/

theorem dlookup_perm_nodup {α ν : Type} [DecidableEq α] {l1 l2 : List (α × ν)} (hp : l1.Perm l2)
    (hn : (dkeys l1).Nodup) (k : α) : dlookup k l1 = dlookup k l2 := by
  have hpk : (dkeys l1).Perm (dkeys l2) := by unfold dkeys; exact hp.map _
  have hn2 : (dkeys l2).Nodup := hpk.nodup_iff.1 hn
  cases h1 : dlookup k l1 with
  | some v => exact (dlookup_of_mem_nodup hn2 (hp.mem_iff.1 (dlookup_mem h1))).symm
  | none =>
    have hk : k ∉ dkeys l1 := (dlookup_eq_none_iff k l1).1 h1
    have : k ∉ dkeys l2 := fun h => hk (hpk.mem_iff.2 h)
    exact ((dlookup_eq_none_iff k l2).2 this).symm

section EPFacts
variable {properties : Bool} {σ : Var → Var} {m1 m2 : MRS} {e1 e2 : EP}

theorem epEq_iv (h : EPEq properties σ m1 m2 e1 e2) (hn : (e1.args.map (·.1)).Nodup) :
    e2.iv = e1.iv.map σ := by
  unfold EP.iv
  have hn' : (dkeys (e1.args.map (fun a => (a.1, σ a.2)))).Nodup := by
    simpa [dkeys, List.map_map, Function.comp_def] using hn
  rw [← dlookup_perm_nodup h.args hn' INTRINSIC_ROLE]
  exact dlookup_map_val INTRINSIC_ROLE e1.args (fun _ v => σ v)

theorem epEq_quant (h : EPEq properties σ m1 m2 e1 e2) : e2.isQuantifier = e1.isQuantifier := by
  unfold EP.isQuantifier
  rw [Bool.eq_iff_iff, List.any_eq_true, List.any_eq_true]
  constructor
  · rintro ⟨b, hb, hr⟩
    obtain ⟨a, ha, rfl⟩ := List.mem_map.1 (h.args.mem_iff.2 hb)
    exact ⟨a, ha, hr⟩
  · rintro ⟨a, ha, hr⟩
    exact ⟨(a.1, σ a.2), h.args.mem_iff.1 (List.mem_map.2 ⟨a, ha, rfl⟩), hr⟩

theorem epEq_nodeLabel (h : EPEq properties σ m1 m2 e1 e2)
    (hp1 : PropsOK (ivProps m1 e1)) (hp2 : PropsOK (ivProps m2 e2)) :
    epNodeLabel properties m1 e1 = epNodeLabel properties m2 e2 := by
  have hpp : propPart properties m1 e1 = propPart properties m2 e2 := by
    rw [propPart_eq_partOf, propPart_eq_partOf]
    exact part_of_keys hp1 hp2 h.props
  rw [epNodeLabel_parts, epNodeLabel_parts, h.pred, hpp]
  unfold cargPart
  rw [h.carg]

end EPFacts


/-- everything fixed in the construction of the graph isomorphism -/
structure BackCtx (properties : Bool) (σ : Var → Var) (m1 m2 : MRS) (ps : List (EP × EP)) : Prop where
  h1 : InSpace properties m1
  h2 : InSpace properties m2
  inj : ∀ v ∈ filledVars m1, ∀ w ∈ filledVars m1, σ v = σ w → v = w
  onto : ∀ w, w ∈ filledVars m2 ↔ ∃ v ∈ filledVars m1, σ v = w
  p1 : (ps.map (·.1)).Perm m1.rels
  p2 : (ps.map (·.2)).Perm m2.rels
  eq : ∀ pr ∈ ps, EPEq properties σ m1 m2 pr.1 pr.2
  hcons : (m1.hcons.map (fun h => (⟨σ h.hi, h.rel, σ h.lo⟩ : HCons))).Perm m2.hcons
  icons : (m1.icons.map (fun c => (⟨σ c.left, c.rel, σ c.right⟩ : ICons))).Perm m2.icons

section Back
variable {properties : Bool} {σ : Var → Var} {m1 m2 : MRS} {ps : List (EP × EP)}

theorem BackCtx.mem1 (c : BackCtx properties σ m1 m2 ps) {pr : EP × EP} (h : pr ∈ ps) : pr.1 ∈ m1.rels :=
  c.p1.mem_iff.1 (List.mem_map.2 ⟨pr, h, rfl⟩)
theorem BackCtx.mem2 (c : BackCtx properties σ m1 m2 ps) {pr : EP × EP} (h : pr ∈ ps) : pr.2 ∈ m2.rels :=
  c.p2.mem_iff.1 (List.mem_map.2 ⟨pr, h, rfl⟩)
theorem BackCtx.pair1 (c : BackCtx properties σ m1 m2 ps) {e1 : EP} (h : e1 ∈ m1.rels) : ∃ e2, (e1, e2) ∈ ps := by
  obtain ⟨pr, hp, rfl⟩ := List.mem_map.1 (c.p1.mem_iff.2 h)
  exact ⟨pr.2, hp⟩
theorem BackCtx.pair2 (c : BackCtx properties σ m1 m2 ps) {e2 : EP} (h : e2 ∈ m2.rels) : ∃ e1, (e1, e2) ∈ ps := by
  obtain ⟨pr, hp, rfl⟩ := List.mem_map.1 (c.p2.mem_iff.2 h)
  exact ⟨pr.1, hp⟩
theorem BackCtx.uniq1 (c : BackCtx properties σ m1 m2 ps) {e1 e1' e2 : EP} (h : (e1, e2) ∈ ps) (h' : (e1', e2) ∈ ps) :
    e1 = e1' := by
  have hnd : (ps.map (·.2)).Nodup := (c.p2.nodup_iff).2 (nodup_of_nodup_map _ _ c.h2.names.ids)
  exact map_eq_of_nodup_map (·.2) (·.1) ps hnd _ h _ h' rfl
theorem BackCtx.sigma_mem (c : BackCtx properties σ m1 m2 ps) {v : Var} (hv : v ∈ filledVars m1) :
    σ v ∈ filledVars m2 := (c.onto _).2 ⟨v, hv, rfl⟩

/-- `σ` is injective on variable NAMES too -/
theorem BackCtx.sigma_names (c : BackCtx properties σ m1 m2 ps) {v w : Var} (hv : v ∈ filledVars m1)
    (hw : w ∈ filledVars m1) (e : vstr (σ v) = vstr (σ w)) : v = w :=
  c.inj v hv w hw (var_of_names_eq c.h2 (c.sigma_mem hv) (c.sigma_mem hw) e)

/-- the node map: variable names by `σ`, predication ids by the pairing -/
def backTable (σ : Var → Var) (m1 : MRS) (ps : List (EP × EP)) : List (Node × Node) :=
  (filledVars m1).map (fun v => (vstr v, vstr (σ v))) ++ ps.map (fun pr => (vstr pr.1.baseId, vstr pr.2.baseId))

def backNode (σ : Var → Var) (m1 : MRS) (ps : List (EP × EP)) (s : Node) : Node :=
  (dlookup s (backTable σ m1 ps)).getD s

theorem backNode_var (c : BackCtx properties σ m1 m2 ps) {v : Var} (hv : v ∈ filledVars m1) :
    backNode σ m1 ps (vstr v) = vstr (σ v) := by
  unfold backNode backTable
  rw [dlookup_append]
  have : dlookup (vstr v) ((filledVars m1).map (fun v => (vstr v, vstr (σ v)))) = some (vstr (σ v)) := by
    apply dlookup_of_mem_nodup
    · simpa [dkeys, List.map_map, Function.comp_def] using c.h1.names.vars
    · exact List.mem_map.2 ⟨v, hv, rfl⟩
  simp [this]

/-- a paired predication whose id is a variable name: both are non-quantifiers and the ids are `σ`-related -/
theorem BackCtx.id_var (c : BackCtx properties σ m1 m2 ps) {pr : EP × EP} (hp : pr ∈ ps) {v : Var}
    (hv : v ∈ filledVars m1) (hk : vstr v = vstr pr.1.baseId) : pr.2.baseId = σ v := by
  have he1 := c.mem1 hp
  obtain ⟨hq, hiv⟩ := c.h1.names.idVar _ he1 (List.mem_map.2 ⟨v, hv, hk⟩)
  obtain ⟨u, hu⟩ := Option.isSome_iff_exists.1 hiv
  have hb := baseId_nonquant hq hu
  have hum : u ∈ filledVars m1 := mem_filledVars_raw.2 (iv_mem_raw he1 hu)
  have huv : u = v := var_of_names_eq c.h1 hum hv (by rw [hk, hb])
  subst huv
  have hE := c.eq pr hp
  exact baseId_nonquant (by rw [epEq_quant hE]; exact hq)
    (by rw [epEq_iv hE (c.h1.rolesNodup _ he1), hu]; rfl)

theorem backNode_id (c : BackCtx properties σ m1 m2 ps) {pr : EP × EP} (hp : pr ∈ ps) :
    backNode σ m1 ps (vstr pr.1.baseId) = vstr pr.2.baseId := by
  unfold backNode backTable
  rw [dlookup_append]
  cases hl : dlookup (vstr pr.1.baseId) ((filledVars m1).map (fun v => (vstr v, vstr (σ v)))) with
  | some x =>
    simp only [Option.getD_some]
    obtain ⟨v, hv, hpair⟩ := List.mem_map.1 (dlookup_mem hl)
    simp only [Prod.mk.injEq] at hpair
    obtain ⟨hk, rfl⟩ := hpair
    rw [c.id_var hp hv hk]
  | none =>
    have hnd : (dkeys (ps.map (fun pr => (vstr pr.1.baseId, vstr pr.2.baseId)))).Nodup := by
      have : ((ps.map (·.1)).map (fun e => vstr e.baseId)).Nodup :=
        ((c.p1.map _).nodup_iff).2 c.h1.names.ids
      simpa [dkeys, List.map_map, Function.comp_def] using this
    have : dlookup (vstr pr.1.baseId) (ps.map (fun pr => (vstr pr.1.baseId, vstr pr.2.baseId)))
        = some (vstr pr.2.baseId) :=
      dlookup_of_mem_nodup hnd (List.mem_map.2 ⟨pr, hp, rfl⟩)
    simp [this]

theorem backNode_inj (c : BackCtx properties σ m1 m2 ps) :
    ∀ x ∈ nodeNames m1, ∀ y ∈ nodeNames m1, backNode σ m1 ps x = backNode σ m1 ps y → x = y := by
  -- variable vs predication id
  have vi : ∀ v ∈ filledVars m1, ∀ pr ∈ ps, vstr (σ v) = vstr pr.2.baseId → vstr v = vstr pr.1.baseId := by
    intro v hv pr hp heq
    have he1 := c.mem1 hp
    have he2 := c.mem2 hp
    have hE := c.eq pr hp
    obtain ⟨hq2, hiv2⟩ := c.h2.names.idVar _ he2 (List.mem_map.2 ⟨σ v, c.sigma_mem hv, heq⟩)
    rw [epEq_quant hE] at hq2
    rw [epEq_iv hE (c.h1.rolesNodup _ he1)] at hiv2
    cases hu : pr.1.iv with
    | none => simp [hu] at hiv2
    | some u =>
      have hb := baseId_nonquant hq2 hu
      have hum : u ∈ filledVars m1 := mem_filledVars_raw.2 (iv_mem_raw he1 hu)
      have hb2 : pr.2.baseId = σ u := c.id_var hp hum (by rw [hb])
      rw [hb2] at heq
      rw [hb, c.sigma_names hv hum heq]
  intro x hx y hy hxy
  rcases mem_nodeNames.1 hx with ⟨v, hv, rfl⟩ | ⟨e, he, rfl⟩
  · rcases mem_nodeNames.1 hy with ⟨w, hw, rfl⟩ | ⟨e', he', rfl⟩
    · rw [backNode_var c hv, backNode_var c hw] at hxy
      rw [c.sigma_names hv hw hxy]
    · obtain ⟨e2, hp⟩ := c.pair1 he'
      rw [backNode_var c hv, backNode_id c hp] at hxy
      exact vi v hv _ hp hxy
  · obtain ⟨e2, hp⟩ := c.pair1 he
    rcases mem_nodeNames.1 hy with ⟨w, hw, rfl⟩ | ⟨e', he', rfl⟩
    · rw [backNode_id c hp, backNode_var c hw] at hxy
      exact (vi w hw _ hp hxy.symm).symm
    · obtain ⟨e2', hp'⟩ := c.pair1 he'
      rw [backNode_id c hp, backNode_id c hp'] at hxy
      have : e2 = e2' := rel_of_ids_eq c.h2 (c.mem2 hp) (c.mem2 hp') hxy
      subst this
      rw [c.uniq1 hp hp']

end Back


section Back2
variable {properties : Bool} {σ : Var → Var} {m1 m2 : MRS} {ps : List (EP × EP)}

/-- paired predications have corresponding role lists to corresponding targets -/
theorem rolesTo_pair (c : BackCtx properties σ m1 m2 ps) {pr : EP × EP} (hp : pr ∈ ps) {a : Role × Var}
    (ha : a ∈ pr.1.args) :
    sortLabels (rolesTo pr.2.args (vstr (σ a.2))) = sortLabels (rolesTo pr.1.args (vstr a.2)) := by
  apply sortLabels_congr
  have he1 := c.mem1 hp
  have hE := c.eq pr hp
  have h1 : (rolesTo pr.2.args (vstr (σ a.2))).Perm
      (rolesTo (pr.1.args.map (fun b => (b.1, σ b.2))) (vstr (σ a.2))) := by
    unfold rolesTo
    exact ((hE.args.symm).filter _).map _
  refine h1.trans ?_
  have : rolesTo (pr.1.args.map (fun b => (b.1, σ b.2))) (vstr (σ a.2)) = rolesTo pr.1.args (vstr a.2) := by
    unfold rolesTo
    rw [List.filter_map, List.map_map]
    congr 1
    apply List.filter_congr
    intro b hb
    simp only [Function.comp_apply]
    have hbm := arg_mem he1 hb
    have ham := arg_mem he1 ha
    by_cases hba : vstr b.2 = vstr a.2
    · have : b.2 = a.2 := var_of_names_eq c.h1 hbm ham hba
      rw [this]
      simp
    · have : ¬ vstr (σ b.2) = vstr (σ a.2) := fun e => hba (by rw [c.sigma_names hbm ham e])
      have e1 : (vstr (σ b.2) == vstr (σ a.2)) = false := by simpa using this
      have e2 : (vstr b.2 == vstr a.2) = false := by simpa using hba
      rw [e1, e2]
  rw [this]

/-- forwards: every labelled position of `g1` is a labelled position of `g2`, same label -/
theorem back_edge_fwd (c : BackCtx properties σ m1 m2 ps) {g1 g2 : IsoGraph}
    (hg1 : mkIsoGraph properties m1 = .ok g1) (hg2 : mkIsoGraph properties m2 = .ok g2)
    {u : Node} {t : Option Node} {l : Label} (h : edge g1 u t = some l) :
    edge g2 (backNode σ m1 ps u) (t.map (backNode σ m1 ps)) = some l := by
  cases t with
  | none =>
    obtain ⟨e1, he1, rfl⟩ := rel_of_node_label c.h1 hg1 h
    obtain ⟨e2, hp⟩ := c.pair1 he1
    rw [node_label_of_rel c.h1 hg1 he1] at h
    rw [backNode_id c hp]
    simp only [Option.map_none]
    rw [node_label_of_rel c.h2 hg2 (c.mem2 hp), ← epEq_nodeLabel (c.eq _ hp) (c.h1.props _ (c.mem1 hp)) (c.h2.props _ (c.mem2 hp))]
    exact h
  | some t' =>
    simp only [Option.map_some]
    rcases edge_source c.h1 hg1 h with ⟨e1, he1, rfl, rfl, rfl⟩ | ⟨e1, he1, a, ha, rfl, rfl, _⟩
        | ⟨c1, hc1, rfl, rfl, rfl⟩ | ⟨c1, hc1, rfl, rfl, rfl⟩
    · obtain ⟨e2, hp⟩ := c.pair1 he1
      rw [backNode_var c (label_mem he1), backNode_id c hp, (c.eq _ hp).label]
      exact edge_scope c.h2 hg2 (c.mem2 hp)
    · obtain ⟨e2, hp⟩ := c.pair1 he1
      rw [edge_arg_canon c.h1 hg1 he1 ha] at h
      rw [backNode_id c hp, backNode_var c (arg_mem he1 ha)]
      have hb : (a.1, σ a.2) ∈ e2.args := (c.eq _ hp).args.mem_iff.1 (List.mem_map.2 ⟨a, ha, rfl⟩)
      have := edge_arg_canon c.h2 hg2 (c.mem2 hp) hb
      simp only at this
      rw [this, rolesTo_pair c hp ha]
      exact h
    · rw [edge_hc c.h1 hg1 hc1] at h
      rw [backNode_var c (hc_mem hc1).1, backNode_var c (hc_mem hc1).2]
      have hm : (⟨σ c1.hi, c1.rel, σ c1.lo⟩ : HCons) ∈ m2.hcons :=
        c.hcons.mem_iff.1 (List.mem_map.2 ⟨c1, hc1, rfl⟩)
      have := edge_hc c.h2 hg2 hm
      simp only at this
      rw [this]
    · rw [edge_ic c.h1 hg1 hc1] at h
      rw [backNode_var c (ic_mem hc1).1, backNode_var c (ic_mem hc1).2]
      have hm : (⟨σ c1.left, c1.rel, σ c1.right⟩ : ICons) ∈ m2.icons :=
        c.icons.mem_iff.1 (List.mem_map.2 ⟨c1, hc1, rfl⟩)
      have := edge_ic c.h2 hg2 hm
      simp only at this
      rw [this]

/-- backwards: a labelled position of `g2` at the image of a position of `g1` comes from `g1` -/
theorem back_edge_bwd (c : BackCtx properties σ m1 m2 ps) {g1 g2 : IsoGraph}
    (hg1 : mkIsoGraph properties m1 = .ok g1) (hg2 : mkIsoGraph properties m2 = .ok g2)
    {u : Node} (hu : u ∈ nodeNames m1) {t : Option Node} (ht : ∀ t', t = some t' → t' ∈ nodeNames m1) {l : Label}
    (h : edge g2 (backNode σ m1 ps u) (t.map (backNode σ m1 ps)) = some l) : ∃ l', edge g1 u t = some l' := by
  have hinj := backNode_inj c
  have hvarN : ∀ v ∈ filledVars m1, vstr v ∈ nodeNames m1 := fun v hv => mem_nodeNames.2 (Or.inl ⟨v, hv, rfl⟩)
  have hidN : ∀ e ∈ m1.rels, vstr e.baseId ∈ nodeNames m1 := fun e he => mem_nodeNames.2 (Or.inr ⟨e, he, rfl⟩)
  cases t with
  | none =>
    simp only [Option.map_none] at h
    obtain ⟨e2, he2, hk⟩ := rel_of_node_label c.h2 hg2 h
    obtain ⟨e1, hp⟩ := c.pair2 he2
    have he1 := c.mem1 hp
    have : u = vstr e1.baseId := hinj u hu _ (hidN e1 he1) (by rw [hk, backNode_id c hp])
    subst this
    exact ⟨_, node_label_of_rel c.h1 hg1 he1⟩
  | some t' =>
    simp only [Option.map_some] at h
    have ht' := ht t' rfl
    rcases edge_source c.h2 hg2 h with ⟨e2, he2, hku, hkt, _⟩ | ⟨e2, he2, b, hb, hku, hkt, _⟩
        | ⟨c2, hc2, hku, hkt, _⟩ | ⟨c2, hc2, hku, hkt, _⟩
    · obtain ⟨e1, hp⟩ := c.pair2 he2
      have he1 := c.mem1 hp
      have e_u : u = vstr e1.label := hinj u hu _ (hvarN _ (label_mem he1))
        (by rw [hku, backNode_var c (label_mem he1), (c.eq _ hp).label])
      have e_t : t' = vstr e1.baseId := hinj t' ht' _ (hidN e1 he1) (by rw [hkt, backNode_id c hp])
      subst e_u; subst e_t
      exact ⟨_, edge_scope c.h1 hg1 he1⟩
    · obtain ⟨e1, hp⟩ := c.pair2 he2
      have he1 := c.mem1 hp
      obtain ⟨a, ha, hab⟩ := List.mem_map.1 ((c.eq _ hp).args.mem_iff.2 hb)
      have e_u : u = vstr e1.baseId := hinj u hu _ (hidN e1 he1) (by rw [hku, backNode_id c hp])
      have e_t : t' = vstr a.2 := hinj t' ht' _ (hvarN _ (arg_mem he1 ha))
        (by rw [hkt, backNode_var c (arg_mem he1 ha), ← hab])
      subst e_u; subst e_t
      exact ⟨_, edge_arg_canon c.h1 hg1 he1 ha⟩
    · obtain ⟨c1, hc1, hcc⟩ := List.mem_map.1 (c.hcons.mem_iff.2 hc2)
      have e_u : u = vstr c1.hi := hinj u hu _ (hvarN _ (hc_mem hc1).1)
        (by rw [hku, backNode_var c (hc_mem hc1).1, ← hcc])
      have e_t : t' = vstr c1.lo := hinj t' ht' _ (hvarN _ (hc_mem hc1).2)
        (by rw [hkt, backNode_var c (hc_mem hc1).2, ← hcc])
      subst e_u; subst e_t
      exact ⟨_, edge_hc c.h1 hg1 hc1⟩
    · obtain ⟨c1, hc1, hcc⟩ := List.mem_map.1 (c.icons.mem_iff.2 hc2)
      have e_u : u = vstr c1.left := hinj u hu _ (hvarN _ (ic_mem hc1).1)
        (by rw [hku, backNode_var c (ic_mem hc1).1, ← hcc])
      have e_t : t' = vstr c1.right := hinj t' ht' _ (hvarN _ (ic_mem hc1).2)
        (by rw [hkt, backNode_var c (ic_mem hc1).2, ← hcc])
      subst e_u; subst e_t
      exact ⟨_, edge_ic c.h1 hg1 hc1⟩

theorem back_edge_eq (c : BackCtx properties σ m1 m2 ps) {g1 g2 : IsoGraph}
    (hg1 : mkIsoGraph properties m1 = .ok g1) (hg2 : mkIsoGraph properties m2 = .ok g2)
    {u : Node} (hu : u ∈ nodeNames m1) {t : Option Node} (ht : ∀ t', t = some t' → t' ∈ nodeNames m1) :
    edge g1 u t = edge g2 (backNode σ m1 ps u) (t.map (backNode σ m1 ps)) := by
  cases h : edge g1 u t with
  | some l => exact (back_edge_fwd c hg1 hg2 h).symm
  | none =>
    cases h2 : edge g2 (backNode σ m1 ps u) (t.map (backNode σ m1 ps)) with
    | none => rfl
    | some l =>
      obtain ⟨l', hl'⟩ := back_edge_bwd c hg1 hg2 hu ht h2
      rw [h] at hl'; cases hl'

/-- **From an MRS isomorphism to a graph isomorphism.** -/
theorem graphIso_of_mrsIso {g1 g2 : IsoGraph} (h1 : InSpace properties m1) (h2 : InSpace properties m2)
    (hg1 : mkIsoGraph properties m1 = .ok g1) (hg2 : mkIsoGraph properties m2 = .ok g2)
    (h : MRSIso properties m1 m2) : IsIso g1 g2 := by
  obtain ⟨σ, hσ⟩ := h
  obtain ⟨ps, p1, p2, heq⟩ := hσ.rels
  have c : BackCtx properties σ m1 m2 ps := ⟨h1, h2, hσ.inj, hσ.onto, p1, p2, heq, hσ.hcons, hσ.icons⟩
  have hinj := backNode_inj c
  have hkn := keys_eq_nodeNames h1.names.simple hg1
  have hkn' := keys_eq_nodeNames h2.names.simple hg2
  refine ⟨(dkeys g1).map (fun n => (n, backNode σ m1 ps n)), ?_, ?_, ?_, ?_, ?_, ?_⟩
  · simpa [List.map_map, Function.comp_def] using (mkIsoGraph_wf hg1).1
  · have : ((dkeys g1).map (fun n => (n, backNode σ m1 ps n))).map (·.2) = (dkeys g1).map (backNode σ m1 ps) := by
      simp [List.map_map, Function.comp_def]
    rw [this]
    exact nodup_map_of_injOn _ _ (mkIsoGraph_wf hg1).1
      (fun x hx y hy e => hinj x ((hkn x).1 hx) y ((hkn y).1 hy) e)
  · intro n; simp [List.map_map, Function.comp_def]
  · intro k
    have hmap : ((dkeys g1).map (fun n => (n, backNode σ m1 ps n))).map (·.2) = (dkeys g1).map (backNode σ m1 ps) := by
      simp [List.map_map, Function.comp_def]
    rw [hmap, hkn' k, mem_nodeNames]
    constructor
    · rintro (⟨w, hw, rfl⟩ | ⟨e2, he2, rfl⟩)
      · obtain ⟨v, hv, rfl⟩ := (hσ.onto w).1 hw
        exact List.mem_map.2 ⟨vstr v, (hkn _).2 (mem_nodeNames.2 (Or.inl ⟨v, hv, rfl⟩)), backNode_var c hv⟩
      · obtain ⟨e1, hp⟩ := c.pair2 he2
        exact List.mem_map.2 ⟨vstr e1.baseId, (hkn _).2 (mem_nodeNames.2 (Or.inr ⟨e1, c.mem1 hp, rfl⟩)),
          backNode_id c hp⟩
    · intro hk
      obtain ⟨n, hn, rfl⟩ := List.mem_map.1 hk
      rcases mem_nodeNames.1 ((hkn n).1 hn) with ⟨v, hv, rfl⟩ | ⟨e1, he1, rfl⟩
      · exact Or.inl ⟨σ v, c.sigma_mem hv, (backNode_var c hv).symm⟩
      · obtain ⟨e2, hp⟩ := c.pair1 he1
        exact Or.inr ⟨e2, c.mem2 hp, (backNode_id c hp).symm⟩
  · intro p hp
    obtain ⟨n, hn, rfl⟩ := List.mem_map.1 hp
    exact back_edge_eq c hg1 hg2 ((hkn n).1 hn) (t := none) (by intro t' ht'; cases ht')
  · intro p hp q hq
    obtain ⟨n, hn, rfl⟩ := List.mem_map.1 hp
    obtain ⟨k, hk, rfl⟩ := List.mem_map.1 hq
    exact back_edge_eq c hg1 hg2 ((hkn n).1 hn) (t := some k) (by intro t' ht'; cases ht'; exact (hkn k).1 hk)

end Back2

end Verif.C06
