/-
C06 — the specification the matcher is compared with: a structure-preserving bijection between two
encoding graphs (the graphs of `_make_mrs_isograph`, BEFORE `_vf2_inv_map` adds inverse edges).
-/
import Verif.C06.Model

namespace Verif.C06
open Verif.Sem

/-- `μ` (a list of pairs `(n, m)`) is a bijection from the nodes of `g1` onto the nodes of `g2` that
preserves the node label entry (present/absent, and its text: predicate, constant, properties) and
every edge label (roles, scope membership, constraints) — in both directions, self loops included,
absent edges mapped to absent edges. -/
structure IsIsoVia (μ : Mapping) (g1 g2 : IsoGraph) : Prop where
  functional : (μ.map (·.1)).Nodup
  injective : (μ.map (·.2)).Nodup
  total : ∀ n, n ∈ dkeys g1 ↔ n ∈ μ.map (·.1)
  onto : ∀ m, m ∈ dkeys g2 ↔ m ∈ μ.map (·.2)
  nodeLabel : ∀ p ∈ μ, edge g1 p.1 none = edge g2 p.2 none
  edgeLabel : ∀ p ∈ μ, ∀ q ∈ μ, edge g1 p.1 (some q.1) = edge g2 p.2 (some q.2)

/-- the two graphs are isomorphic -/
def IsIso (g1 g2 : IsoGraph) : Prop := ∃ μ, IsIsoVia μ g1 g2

/-- the graph is a Python dict of dicts: node names are distinct and so are the keys of every
adjacency (true of everything `_make_mrs_isograph` builds: `mkIsoGraph_wf`) -/
def WFAdj (g : IsoGraph) : Prop := (dkeys g).Nodup ∧ ∀ p ∈ g, (dkeys p.2).Nodup

/-! ## the named input-space hypotheses of the encoding theorems (definitions only; the driver
evaluates their Boolean forms on every generated case) -/

abbrev Pos := Node × Option Node

/-- node-name hygiene of the construction: predication ids are distinct strings and no label is
also a predication id (handles vs. intrinsic variables / `q…` / `_…`) -/
def rowsOK (m : MRS) : Bool :=
  decide ((m.preds.map (fun p => vstr p.1)).Nodup)
  && m.preds.all (fun p => m.preds.all (fun q => vstr p.2.label != vstr q.1))

/-- the units of the construction: one predication, one handle constraint, one individual constraint -/
inductive Block where
  | ep (p : Pred)
  | hc (h : HCons)
  | ic (c : ICons)

def blocks (m : MRS) : List Block := m.preds.map .ep ++ m.hcons.map .hc ++ m.icons.map .ic

/-- the positions a unit writes (they depend neither on `properties` nor on the variable properties) -/
def blockPos : Block → List Pos
  | .ep p => (vstr p.2.label, some (vstr p.1)) :: (vstr p.1, none)
              :: p.2.args.map (fun a => ((vstr p.1, some (vstr a.2)) : Pos))
  | .hc h => [(vstr h.hi, some (vstr h.lo))]
  | .ic c => [(vstr c.left, some (vstr c.right))]

/-- **no parallel constraints**: two different units never write the same (node, target) position —
no handle / individual constraint between a pair of nodes already joined by an argument, a scope
edge or another constraint, no two predications on one node -/
def NoParallel (m : MRS) : Prop :=
  (blocks m).Pairwise (fun a b => ∀ x ∈ blockPos a, ∀ y ∈ blockPos b, x ≠ y)

/-- the predication ids `EP.__init__` assigns are already distinct, so `_uniquify_ids` changes nothing
(every predication has its own ARG0 up to quantifiers, no two quantifiers bind variables with the
same number) -/
def SimpleIds (m : MRS) : Prop := (m.rels.map EP.baseId).Nodup

def renEP (σ : Var → Var) (e : EP) : EP :=
  { e with label := σ e.label, args := e.args.map (fun a => (a.1, σ a.2)) }

/-- the MRS with every variable `v` replaced by `σ v` -/
def renMRS (σ : Var → Var) (m : MRS) : MRS :=
  { top := m.top.map σ, index := m.index.map σ, rels := m.rels.map (renEP σ),
    hcons := m.hcons.map (fun h => ⟨σ h.hi, h.rel, σ h.lo⟩),
    icons := m.icons.map (fun c => ⟨σ c.left, c.rel, σ c.right⟩),
    variables := m.variables.map (fun vp => (σ vp.1, vp.2)) }

/-- every variable occurrence, before `_fill_variables` removes duplicates -/
def rawVars (m : MRS) : List Var :=
  m.variables.map (·.1) ++ m.top.toList ++ m.index.toList
    ++ m.rels.flatMap (fun e => e.label :: e.args.map (·.2))
    ++ m.hcons.flatMap (fun h => [h.lo, h.hi])
    ++ m.icons.flatMap (fun c => [c.left, c.right])

/-- node-name hygiene: distinct variables have distinct names (no digits in sorts), distinct
predications have distinct ids (`SimpleIds`), a predication id is a variable name only when it is
the predication's own intrinsic variable, and no label is a predication id -/
structure NamesOK (m : MRS) : Prop where
  vars : ((filledVars m).map vstr).Nodup
  ids : (m.rels.map (fun e => vstr e.baseId)).Nodup
  idVar : ∀ e ∈ m.rels, vstr e.baseId ∈ (filledVars m).map vstr → e.isQuantifier = false ∧ e.iv.isSome = true
  lblId : ∀ e ∈ m.rels, ∀ e' ∈ m.rels, vstr e.label ≠ vstr e'.baseId

instance (m : MRS) : Decidable (NoParallel m) := by unfold NoParallel; exact inferInstance
instance (m : MRS) : Decidable (SimpleIds m) := by unfold SimpleIds; exact inferInstance

/-- Boolean form of `NamesOK` -/
def namesOKb (m : MRS) : Bool :=
  decide (((filledVars m).map vstr).Nodup)
  && decide ((m.rels.map (fun e => vstr e.baseId)).Nodup)
  && m.rels.all (fun e => !((filledVars m).map vstr).contains (vstr e.baseId)
        || (!e.isQuantifier && e.iv.isSome))
  && m.rels.all (fun e => m.rels.all (fun e' => vstr e.label != vstr e'.baseId))

/-- all hypotheses of `isIsomorphic_renamed` / `_reordered` / `faithful_labels_partial` on one MRS -/
def encodingHyps (m : MRS) : Bool := namesOKb m && decide (NoParallel m) && rowsOK m

end Verif.C06
