/-
C06 — the specification the matcher is compared with: a structure-preserving bijection between two
encoding graphs (the graphs of `_make_mrs_isograph`, BEFORE `_vf2_inv_map` adds inverse edges).
-/
import Verif.C06.Model

namespace Verif.C06
open Verif.Sem

/-- `μ` (a list of pairs `(n, m)`) is a bijection from the nodes of `g1` onto the nodes of `g2` that
preserves the node label entry (present/absent, and its text: predicate, constant, properties) and
every edge label (roles, scope membership, constraints) — in both directions, self loops included,
absent edges mapped to absent edges. -/
structure IsIsoVia (μ : Mapping) (g1 g2 : IsoGraph) : Prop where
  functional : (μ.map (·.1)).Nodup
  injective : (μ.map (·.2)).Nodup
  total : ∀ n, n ∈ dkeys g1 ↔ n ∈ μ.map (·.1)
  onto : ∀ m, m ∈ dkeys g2 ↔ m ∈ μ.map (·.2)
  nodeLabel : ∀ p ∈ μ, edge g1 p.1 none = edge g2 p.2 none
  edgeLabel : ∀ p ∈ μ, ∀ q ∈ μ, edge g1 p.1 (some q.1) = edge g2 p.2 (some q.2)

/-- the two graphs are isomorphic -/
def IsIso (g1 g2 : IsoGraph) : Prop := ∃ μ, IsIsoVia μ g1 g2

/-- the graph is a Python dict of dicts: node names are distinct and so are the keys of every
adjacency (true of everything `_make_mrs_isograph` builds: `mkIsoGraph_wf`) -/
def WFAdj (g : IsoGraph) : Prop := (dkeys g).Nodup ∧ ∀ p ∈ g, (dkeys p.2).Nodup

/-! ## the named input-space hypotheses of the encoding theorems (definitions only; the driver
evaluates their Boolean forms on every generated case) -/

abbrev Pos := Node × Option Node

/-- node-name hygiene of the construction: predication ids are distinct strings and no label is
also a predication id (handles vs. intrinsic variables / `q…` / `_…`) -/
def rowsOK (m : MRS) : Bool :=
  decide ((m.preds.map (fun p => vstr p.1)).Nodup)
  && m.preds.all (fun p => m.preds.all (fun q => vstr p.2.label != vstr q.1))

/-- the units of the construction: one predication, one handle constraint, one individual constraint -/
inductive Block where
  | ep (p : Pred)
  | hc (h : HCons)
  | ic (c : ICons)

def blocks (m : MRS) : List Block := m.preds.map .ep ++ m.hcons.map .hc ++ m.icons.map .ic

/-- the positions a unit writes (they depend neither on `properties` nor on the variable properties) -/
def blockPos : Block → List Pos
  | .ep p => (vstr p.2.label, some (vstr p.1)) :: (vstr p.1, none)
              :: p.2.args.map (fun a => ((vstr p.1, some (vstr a.2)) : Pos))
  | .hc h => [(vstr h.hi, some (vstr h.lo))]
  | .ic c => [(vstr c.left, some (vstr c.right))]

/-- **no parallel constraints**: two different units never write the same (node, target) position —
no handle / individual constraint between a pair of nodes already joined by an argument, a scope
edge or another constraint, no two predications on one node -/
def NoParallel (m : MRS) : Prop :=
  (blocks m).Pairwise (fun a b => ∀ x ∈ blockPos a, ∀ y ∈ blockPos b, x ≠ y)

/-- the predication ids `EP.__init__` assigns are already distinct, so `_uniquify_ids` changes nothing
(every predication has its own ARG0 up to quantifiers, no two quantifiers bind variables with the
same number) -/
def SimpleIds (m : MRS) : Prop := (m.rels.map EP.baseId).Nodup

def renEP (σ : Var → Var) (e : EP) : EP :=
  { e with label := σ e.label, args := e.args.map (fun a => (a.1, σ a.2)) }

/-- the MRS with every variable `v` replaced by `σ v` -/
def renMRS (σ : Var → Var) (m : MRS) : MRS :=
  { top := m.top.map σ, index := m.index.map σ, rels := m.rels.map (renEP σ),
    hcons := m.hcons.map (fun h => ⟨σ h.hi, h.rel, σ h.lo⟩),
    icons := m.icons.map (fun c => ⟨σ c.left, c.rel, σ c.right⟩),
    variables := m.variables.map (fun vp => (σ vp.1, vp.2)) }

/-- every variable occurrence, before `_fill_variables` removes duplicates -/
def rawVars (m : MRS) : List Var :=
  m.variables.map (·.1) ++ m.top.toList ++ m.index.toList
    ++ m.rels.flatMap (fun e => e.label :: e.args.map (·.2))
    ++ m.hcons.flatMap (fun h => [h.lo, h.hi])
    ++ m.icons.flatMap (fun c => [c.left, c.right])

/-- node-name hygiene: distinct variables have distinct names (no digits in sorts), distinct
predications have distinct ids (`SimpleIds`), a predication id is a variable name only when it is
the predication's own intrinsic variable, and no label is a predication id -/
structure NamesOK (m : MRS) : Prop where
  vars : ((filledVars m).map vstr).Nodup
  ids : (m.rels.map (fun e => vstr e.baseId)).Nodup
  idVar : ∀ e ∈ m.rels, vstr e.baseId ∈ (filledVars m).map vstr → e.isQuantifier = false ∧ e.iv.isSome = true
  lblId : ∀ e ∈ m.rels, ∀ e' ∈ m.rels, vstr e.label ≠ vstr e'.baseId

instance (m : MRS) : Decidable (NoParallel m) := by unfold NoParallel; exact inferInstance
instance (m : MRS) : Decidable (SimpleIds m) := by unfold SimpleIds; exact inferInstance

/-- Boolean form of `NamesOK` -/
def namesOKb (m : MRS) : Bool :=
  decide (((filledVars m).map vstr).Nodup)
  && decide ((m.rels.map (fun e => vstr e.baseId)).Nodup)
  && m.rels.all (fun e => !((filledVars m).map vstr).contains (vstr e.baseId)
        || (!e.isQuantifier && e.iv.isSome))
  && m.rels.all (fun e => m.rels.all (fun e' => vstr e.label != vstr e'.baseId))

/-- all hypotheses of `isIsomorphic_renamed` / `_reordered` / `faithful_labels_partial` on one MRS -/
def encodingHyps (m : MRS) : Bool := namesOKb m && decide (NoParallel m) && rowsOK m

/-! ## the input space of the faithfulness theorem and the MRS-level notion of isomorphism -/

/-- a string `str.split()` returns unchanged: non-empty, no blank -/
def WordOK (w : List Char) : Prop := w ≠ [] ∧ ' ' ∉ w

def noLower (s : List Char) : Prop := ∀ c ∈ s, c.isLower = false
def hasLower (s : List Char) : Prop := ∃ c ∈ s, c.isLower = true

/-- role names: non-empty, no blank, no lower-case letter (`ARG1`, `RSTR`, `L-INDEX`) -/
def RoleOK (r : Role) : Prop := WordOK r.toList ∧ noLower r.toList
def hrelNames : List String := ["qeq", "lheq", "outscopes"]
/-- handle-constraint relations -/
def HRelOK (s : String) : Prop := s ∈ hrelNames
/-- individual-constraint relations: lower-case words other than the handle-constraint relations and
`eq-scope` -/
def IRelOK (s : String) : Prop := hasLower s.toList ∧ s ∉ hrelNames ∧ s.toList ≠ eqScope
def PredOK (s : String) : Prop := '(' ∉ normalizePred s ∧ '{' ∉ normalizePred s
def CargOK (c : String) : Prop := ')' ∉ c.toList

/-- what is compared of one property: upper-cased name, lower-cased value -/
def keyOf (q : String × String) : List Char × List Char := (upperC q.1.toList, lowerC q.2.toList)
def renderKey (k : List Char × List Char) : List Char := k.1 ++ ['='] ++ k.2

/-- hygiene of a property list: names without lower-case letter, `=` or `|`; values without `|`;
distinct names -/
def PropsOK (ps : Props) : Prop :=
  (∀ q ∈ ps, noLower q.1.toList ∧ '=' ∉ q.1.toList ∧ '|' ∉ q.1.toList ∧ '|' ∉ lowerC q.2.toList)
  ∧ (ps.map (·.1)).Nodup

def partOf (properties : Bool) (ps : Props) : Label := if properties && !ps.isEmpty then propString ps else []
def keysOf (properties : Bool) (ps : Props) : List (List Char × List Char) := if properties then ps.map keyOf else []

/-- the properties that are compared for a predication: those of its intrinsic (for a quantifier: bound)
variable — properties of variables that occur only as arguments are not compared (as in the code:
`x.variables.get(ep.iv)`) -/
def ivProps (m : MRS) (e : EP) : Props :=
  match e.iv with
  | some v => m.props v
  | none => []

/-- the multiset (as a list up to permutation) of (upper-cased name, lower-cased value) pairs of the
intrinsic variable, when properties are compared -/
def propKey (properties : Bool) (m : MRS) (e : EP) : List (List Char × List Char) :=
  keysOf properties (ivProps m e)

/-- the input space of the faithfulness theorem (all clauses decidable) -/
structure InSpace (properties : Bool) (m : MRS) : Prop where
  names : NamesOK m
  nopar : NoParallel m
  roles : ∀ e ∈ m.rels, ∀ a ∈ e.args, RoleOK a.1
  rolesNodup : ∀ e ∈ m.rels, (e.args.map (·.1)).Nodup
  hrel : ∀ h ∈ m.hcons, HRelOK h.rel
  irel : ∀ c ∈ m.icons, IRelOK c.rel
  preds : ∀ e ∈ m.rels, PredOK e.predicate
  cargs : ∀ e ∈ m.rels, ∀ c, e.carg = some c → CargOK c
  props : ∀ e ∈ m.rels, PropsOK (ivProps m e)
  clean : ∀ g, mkIsoGraph properties m = .ok g → cleanGraph g = true

/-- `(constant)` -/
def cargPart (e : EP) : Label :=
  match e.carg with
  | some c => ['('] ++ c.toList ++ [')']
  | none => []

/-- `{PROP=val|…}` of the intrinsic variable, when properties are compared and there are any -/
def propPart (properties : Bool) (m : MRS) (e : EP) : Label :=
  let props : Props := match e.iv with
    | some v => m.props v
    | none => []
  if properties && !props.isEmpty then propString props else []

/-- the predications `e1` of `m1` and `e2` of `m2` correspond under the variable map `σ` -/
structure EPEq (properties : Bool) (σ : Var → Var) (m1 m2 : MRS) (e1 e2 : EP) : Prop where
  pred : normalizePred e1.predicate = normalizePred e2.predicate
  carg : e1.carg = e2.carg
  props : (propKey properties m1 e1).Perm (propKey properties m2 e2)
  label : σ e1.label = e2.label
  args : (e1.args.map (fun a => (a.1, σ a.2))).Perm e2.args

/-- **MRS isomorphism** (no graph involved): `σ` is a bijection from the variables of `m1` onto those
of `m2`; the predications can be paired off so that paired predications have the same normalised
predicate, the same constant, the same multiset of (upper-cased name, lower-cased value) property pairs of the
intrinsic — for a quantifier: bound — variable (when properties are compared; properties of variables that are
arguments only are not compared), `σ`-related labels (scopes) and `σ`-related role-labelled arguments; handle
constraints and individual constraints correspond under `σ` as multisets. -/
structure MRSIsoVia (properties : Bool) (σ : Var → Var) (m1 m2 : MRS) : Prop where
  inj : ∀ v ∈ filledVars m1, ∀ w ∈ filledVars m1, σ v = σ w → v = w
  onto : ∀ w, w ∈ filledVars m2 ↔ ∃ v ∈ filledVars m1, σ v = w
  rels : ∃ ps : List (EP × EP), (ps.map (·.1)).Perm m1.rels ∧ (ps.map (·.2)).Perm m2.rels
    ∧ ∀ pr ∈ ps, EPEq properties σ m1 m2 pr.1 pr.2
  hcons : (m1.hcons.map (fun h => (⟨σ h.hi, h.rel, σ h.lo⟩ : HCons))).Perm m2.hcons
  icons : (m1.icons.map (fun c => (⟨σ c.left, c.rel, σ c.right⟩ : ICons))).Perm m2.icons

def MRSIso (properties : Bool) (m1 m2 : MRS) : Prop := ∃ σ, MRSIsoVia properties σ m1 m2

instance (w : List Char) : Decidable (WordOK w) := by unfold WordOK; exact inferInstance
instance (s : List Char) : Decidable (noLower s) := by unfold noLower; exact inferInstance
instance (s : List Char) : Decidable (hasLower s) := by unfold hasLower; exact inferInstance
instance (r : Role) : Decidable (RoleOK r) := by unfold RoleOK; exact inferInstance
instance (s : String) : Decidable (HRelOK s) := by unfold HRelOK; exact inferInstance
instance (s : String) : Decidable (IRelOK s) := by unfold IRelOK; exact inferInstance
instance (s : String) : Decidable (PredOK s) := by unfold PredOK; exact inferInstance
instance (s : String) : Decidable (CargOK s) := by unfold CargOK; exact inferInstance
instance (ps : Props) : Decidable (PropsOK ps) := by unfold PropsOK; exact inferInstance

/-- Boolean form of `InSpace`, evaluated by the driver on every generated case -/
def inSpaceb (properties : Bool) (m : MRS) : Bool :=
  namesOKb m && decide (NoParallel m)
  && decide (∀ e ∈ m.rels, ∀ a ∈ e.args, RoleOK a.1)
  && decide (∀ e ∈ m.rels, (e.args.map (·.1)).Nodup)
  && decide (∀ h ∈ m.hcons, HRelOK h.rel)
  && decide (∀ c ∈ m.icons, IRelOK c.rel)
  && decide (∀ e ∈ m.rels, PredOK e.predicate)
  && decide (∀ e ∈ m.rels, ∀ c, e.carg = some c → CargOK c)
  && decide (∀ e ∈ m.rels, PropsOK (ivProps m e))
  && (match mkIsoGraph properties m with
      | .ok g => cleanGraph g
      | .error _ => true)

end Verif.C06
