/-
C06 — the specification the matcher is compared with: a structure-preserving bijection between two
encoding graphs (the graphs of `_make_mrs_isograph`, BEFORE `_vf2_inv_map` adds inverse edges).
-/
import Verif.C06.Model

namespace Verif.C06
open Verif.Sem

/-- `μ` (a list of pairs `(n, m)`) is a bijection from the nodes of `g1` onto the nodes of `g2` that
preserves the node label entry (present/absent, and its text: predicate, constant, properties) and
every edge label (roles, scope membership, constraints) — in both directions, self loops included,
absent edges mapped to absent edges. -/
structure IsIsoVia (μ : Mapping) (g1 g2 : IsoGraph) : Prop where
  functional : (μ.map (·.1)).Nodup
  injective : (μ.map (·.2)).Nodup
  total : ∀ n, n ∈ dkeys g1 ↔ n ∈ μ.map (·.1)
  onto : ∀ m, m ∈ dkeys g2 ↔ m ∈ μ.map (·.2)
  nodeLabel : ∀ p ∈ μ, edge g1 p.1 none = edge g2 p.2 none
  edgeLabel : ∀ p ∈ μ, ∀ q ∈ μ, edge g1 p.1 (some q.1) = edge g2 p.2 (some q.2)

/-- the two graphs are isomorphic -/
def IsIso (g1 g2 : IsoGraph) : Prop := ∃ μ, IsIsoVia μ g1 g2

/-- the graph is a Python dict of dicts: node names are distinct and so are the keys of every
adjacency (true of everything `_make_mrs_isograph` builds: `mkIsoGraph_wf`) -/
def WFAdj (g : IsoGraph) : Prop := (dkeys g).Nodup ∧ ∀ p ∈ g, (dkeys p.2).Nodup

end Verif.C06
