/-
C06 — executable model of MRS isomorphism and bag comparison (pydelphin 1.9.1, /repo after the
repairs 8c6cfbc (F21), 04b09d0 (F24), 333c7c6 (F25)).

What is modelled
  delphin/mrs/_operations.py   is_isomorphic, _make_mrs_isograph, compare_bags
  delphin/util.py              _vf2, _vf2_inv_map, _vf2_feasible, _vf2_consistent, _vf2_candidates
                               (_vf2_new: see `feasible`)
  delphin/predicate.py         normalize / _strip_predicate (ASCII)
  delphin/sembase.py           property_priority (table `commonProperties` generated from the code)
  delphin/mrs/_mrs.py          _fill_variables (keys only), EP ids (`Verif.Sem.MRS.ids`)

Conventions
* A graph `Dict[str, Dict[Optional[str], str]]` is an association list of association lists
  (`Verif.Sem.dlookup` / `dset`: first binding wins, `dset` keeps keys unique).  Node names are the
  Python strings (`x5`, `q5`, `_7`), because `_vf2_candidates` orders them as strings.
* Edge and node labels are `List Char` (the code concatenates and splits them).
* `_vf2` is an iterative stack machine; the model is the depth-first recursion it implements
  (`search`): the inner `while candidates` loop is `List.findSome?` over the candidate list in pop
  order, "restore old state" is the return to the caller.  The two are tied by the correspondence
  run, which compares the *mapping* `_vf2` returns (not only the verdict), so the visiting order
  is part of what is compared.
* Only sets / lengths / lookups of the dictionaries are ever observed by the matcher, never their
  key order, so `invMap` is written as the function it computes (for every node: merge the inverse
  of each incoming edge into the adjacency) instead of the two loops over a scratch dictionary.
* `str.split()` is modelled for the space character only, `upper()/lower()` for ASCII (the
  generators stay inside that range).
-/
import Verif.Common.Sem
import Verif.Generated.TablesC06

namespace Verif.C06
open Verif.Sem

abbrev Node := String
abbrev Label := List Char
abbrev Adj := List (Option Node × Label)
abbrev IsoGraph := List (Node × Adj)
/-- `mapping` of `_vf2`, most recent pair first -/
abbrev Mapping := List (Node × Node)

/-! ### Python string helpers -/

/-- `a < b` for Python strings (lexicographic by code point) -/
def ltChars : List Char → List Char → Bool
  | [], [] => false
  | [], _ :: _ => true
  | _ :: _, [] => false
  | a :: as, b :: bs => if a.toNat < b.toNat then true else if b.toNat < a.toNat then false else ltChars as bs

def ltNode (a b : Node) : Bool := ltChars a.toList b.toList

/-- the string of a variable / EP id -/
def vstr (v : Var) : Node := v.sort ++ toString v.vid

def lowerC (s : List Char) : List Char := s.map Char.toLower
def upperC (s : List Char) : List Char := s.map Char.toUpper

/-- `s.split()` (space only), e.g. `''.split() == []`; `cur` is the current word, reversed -/
def splitSpAux : List Char → List Char → List (List Char)
  | [], cur => if cur.isEmpty then [] else [cur.reverse]
  | c :: cs, cur =>
    if c = ' ' then (if cur.isEmpty then splitSpAux cs [] else cur.reverse :: splitSpAux cs [])
    else splitSpAux cs (c :: cur)

def splitSp (s : List Char) : List (List Char) := splitSpAux s []

/-- `sep.join(xs)` -/
def joinWith (sep : List Char) : List (List Char) → List Char
  | [] => []
  | [x] => x
  | x :: y :: ys => x ++ sep ++ joinWith sep (y :: ys)

def insertLabel (x : List Char) : List (List Char) → List (List Char)
  | [] => [x]
  | y :: ys => if ltChars x y then x :: y :: ys else y :: insertLabel x ys

/-- `sorted(roles)` -/
def sortLabels (l : List (List Char)) : List (List Char) := l.foldr insertLabel []

def insertNode (x : Node) : List Node → List Node
  | [] => [x]
  | y :: ys => if ltNode x y then x :: y :: ys else if x = y then y :: ys else y :: insertNode x ys

/-- `sorted(set(l))` -/
def sortDedup (l : List Node) : List Node := l.foldr insertNode []

/-! ### `predicate.normalize` -/

/-- `_strip_predicate` -/
def stripPredicate (s : List Char) : List Char :=
  let s1 :=
    if s.head? = some '"' ∧ s.getLast? = some '"' then (s.drop 1).dropLast
    else if s.head? = some '\'' then s.drop 1
    else s
  if lowerC (s1.drop (s1.length - 4)) = ['_', 'r', 'e', 'l'] then s1.take (s1.length - 4) else s1

def normalizePred (s : String) : List Char := lowerC (stripPredicate s.toList)

/-! ### node label of a predication -/

/-- `property_priority(prop)[0]` -/
def propIndex (prop : String) : Nat :=
  let up := String.ofList (upperC prop.toList)
  let i := Verif.Tables.commonProperties.idxOf up
  i   -- `idxOf` of a missing element is the length of the table, as in the code

/-- `(i, p) < (j, q)` -/
def propKeyLt (a b : String) : Bool :=
  propIndex a < propIndex b || (propIndex a == propIndex b && ltChars a.toList b.toList)

def insertProp (x : String × String) : List (String × String) → List (String × String)
  | [] => [x]
  | y :: ys => if propKeyLt x.1 y.1 then x :: y :: ys else y :: insertProp x ys

/-- `sorted(props, key=property_priority)` (with the values) -/
def sortProps (ps : Props) : Props := ps.foldr insertProp []

/-- `'{' + '|'.join(f'{prop.upper()}={val.lower()}' …) + '}'` -/
def propString (ps : Props) : List Char :=
  ['{'] ++ joinWith ['|'] ((sortProps ps).map (fun p => upperC p.1.toList ++ ['='] ++ lowerC p.2.toList)) ++ ['}']

/-- the string `s` put at `g[id][None]` -/
def epNodeLabel (properties : Bool) (m : MRS) (e : EP) : Label :=
  let s := normalizePred e.predicate
  let s := match e.carg with
    | some c => s ++ ['('] ++ c.toList ++ [')']
    | none => s
  -- `props = x.variables.get(ep.iv)`; `if properties and props:`
  let props : Props := match e.iv with
    | some v => m.props v
    | none => []
  if properties && !props.isEmpty then s ++ propString props else s

/-! ### `_make_mrs_isograph` -/

/-- keys of `_fill_variables(…)`, in insertion order -/
def filledVars (m : MRS) : List Var :=
  (m.variables.map (·.1) ++ m.top.toList ++ m.index.toList
    ++ m.rels.flatMap (fun e => e.label :: e.args.map (·.2))
    ++ m.hcons.flatMap (fun h => [h.lo, h.hi])
    ++ m.icons.flatMap (fun c => [c.left, c.right])).eraseDups

/-- `g[u].get(t)`; `none` also when `u` is not a node -/
def edge (g : IsoGraph) (u : Node) (t : Option Node) : Option Label :=
  (dlookup u g).bind (dlookup t)

/-- `g[a][t] = l` (`KeyError` when `a` is not a node) -/
def setEdge (g : IsoGraph) (a : Node) (t : Option Node) (l : Label) : Except Err IsoGraph :=
  match dlookup a g with
  | none => .error .keyError
  | some adj => .ok (dset a (dset t l adj) g)

def eqScope : Label := "eq-scope".toList

/-- the body of `for ep in x.rels:` -/
def addEP (properties : Bool) (m : MRS) (g : IsoGraph) (p : Pred) : Except Err IsoGraph := do
  let id := vstr p.1
  let e := p.2
  let g ← setEdge g (vstr e.label) (some id) eqScope
  let g ← setEdge g id none (epNodeLabel properties m e)
  e.args.foldlM (fun g a =>
      let tgt := vstr a.2
      let old := (edge g id (some tgt)).getD []
      setEdge g id (some tgt) (joinWith [' '] (sortLabels (splitSp old ++ [a.1.toList])))) g

def initGraph (m : MRS) : IsoGraph :=
  let g0 : IsoGraph := (filledVars m).foldl (fun g v => dset (vstr v) [] g) []
  m.ids.foldl (fun g i => dset (vstr i) [] g) g0

def mkIsoGraph (properties : Bool) (m : MRS) : Except Err IsoGraph := do
  let g ← m.preds.foldlM (addEP properties m) (initGraph m)
  let g ← m.hcons.foldlM (fun g h => setEdge g (vstr h.hi) (some (vstr h.lo)) h.rel.toList) g
  m.icons.foldlM (fun g c => setEdge g (vstr c.left) (some (vstr c.right)) c.rel.toList) g

/-! ### `_vf2_inv_map` -/

def invPrefix : Label := ['-', '-']

/-- the label of an existing edge `u→t` after `_vf2_inv_map`: if there is an opposite edge `t→u`
its data is appended as `' ' + '--' + data`.  Self loops and the `None` entry are left alone. -/
def augLabel (g : IsoGraph) (u : Node) (t : Option Node) (l : Label) : Label :=
  match t with
  | none => l
  | some v =>
    if v = u then l
    else match edge g v (some u) with
      | some b => l ++ [' '] ++ invPrefix ++ b
      | none => l

/-- the new entry `u→v` created for an edge `v→u` without opposite edge: `'--' + data` -/
def incoming (g : IsoGraph) (u : Node) (adjU : Adj) (v : Node) : Option Label :=
  if v = u then none
  else match dlookup (some v) adjU with
    | some _ => none
    | none => (edge g v (some u)).map (fun b => invPrefix ++ b)

/-- the adjacency of `u` after `_vf2_inv_map` -/
def augAdj (g : IsoGraph) (u : Node) (adjU : Adj) : Adj :=
  adjU.map (fun e => (e.1, augLabel g u e.1 e.2))
  ++ (dkeys g).filterMap (fun v => (incoming g u adjU v).map (fun b => (some v, b)))

/-- every edge target is a node (otherwise `d[k]` raises `KeyError` in `_vf2_inv_map`) -/
def closed (g : IsoGraph) : Bool :=
  g.all (fun p => p.2.all (fun e =>
    match e.1 with
    | none => true
    | some t => t == p.1 || (dkeys g).contains t))

def invMapRaw (g : IsoGraph) : IsoGraph := g.map (fun p => (p.1, augAdj g p.1 p.2))

def invMap (g : IsoGraph) : Except Err IsoGraph :=
  if closed g then .ok (invMapRaw g) else .error .keyError

/-! ### the matcher (all functions below take the graphs *after* `_vf2_inv_map`) -/

/-- `g[n]`; the default is never used: every `n` the matcher asks for is a node (candidates are
nodes or edge targets of a closed graph). -/
def adj (g : IsoGraph) (n : Node) : Adj := (dlookup n g).getD []

/-- `mapping.get(n)` -/
def mget (mp : Mapping) (n : Node) : Option Node := dlookup n mp

/-- `inv_map.get(m)` with `inv_map = {b: a for a, b in mapping.items()}` -/
def minv (mp : Mapping) (m : Node) : Option Node := dlookup m (mp.map (fun p => (p.2, p.1)))

/-- `_vf2_consistent(mapping, ga, gb, a, b)`; `look` is `mapping.get` -/
def consistent (look : Node → Option Node) (ga gb : IsoGraph) (a b : Node) : Bool :=
  (adj ga a).all (fun e =>
    match e.1 with
    | none => true                       -- `None not in mapping`
    | some a' =>
      match look a' with
      | none => true
      | some b' => dlookup (some b') (adj gb b) == some e.2)

/-- `_vf2_feasible`.  The `r_new` test compares `len(_vf2_new(…))` on both sides; `_vf2_new` starts
with `agenda = [a]`, pops `cur = a` and adds a neighbour only if `not (… or a == cur or …)`, which
is false on that first and only iteration, so it returns the empty set for every argument and the
test always passes. -/
def feasible (mp : Mapping) (g1 g2 : IsoGraph) (n m : Node) : Bool :=
  let e1 := adj g1 n
  let e2 := adj g2 m
  ((dlookup none e1).getD [] == (dlookup none e2).getD [])
  && (e1.length == e2.length)
  && (dlookup (some n) e1 == dlookup (some m) e2)
  && consistent (mget mp) g1 g2 n m
  && consistent (minv mp) g2 g1 m n

/-- the set `t1` / `t2` of `_vf2_candidates`: unmapped neighbours of mapped nodes -/
def frontier (g : IsoGraph) (mapped : List Node) : List Node :=
  mapped.flatMap (fun n => (adj g n).filterMap (fun e =>
    match e.1 with
    | some t => if mapped.contains t then none else some t
    | none => none))

/-- `_vf2_candidates`, in the order in which `candidates.pop()` delivers the pairs -/
def candidates (mp : Mapping) (g1 g2 : IsoGraph) : List (Node × Node) :=
  let m1 := mp.map (·.1)
  let m2 := mp.map (·.2)
  let t1 := sortDedup (frontier g1 m1)
  let t2 := sortDedup (frontier g2 m2)
  match t1, t2 with
  | _ :: _, m :: _ => t1.map (fun n => (n, m))
  | _, _ =>
    match sortDedup ((dkeys g2).filter (fun x => !m2.contains x)) with
    | [] => []
    | m :: _ => (sortDedup ((dkeys g1).filter (fun x => !m1.contains x))).map (fun n => (n, m))

/-- the main loop of `_vf2` with `k = len(g2) - len(mapping)` pairs still to find; `none` = every
candidate of this state failed ("restore old state", or abort at the top) -/
def search (g1 g2 : IsoGraph) : Nat → Mapping → Option Mapping
  | 0, mp => some mp
  | k + 1, mp =>
    (candidates mp g1 g2).findSome? (fun c =>
      if feasible mp g1 g2 c.1 c.2 then search g1 g2 k (c :: mp) else none)

/-- `_vf2(g1, g2)` after the two `_vf2_inv_map` calls; on failure the mapping has been emptied -/
def vf2 (g1 g2 : IsoGraph) : Mapping := (search g1 g2 g2.length []).getD []

/-- `set(iso) == set(g1)` -/
def accept (mp : Mapping) (g1 : IsoGraph) : Bool :=
  (mp.all (fun p => (dkeys g1).contains p.1)) && ((dkeys g1).all (fun n => (mp.map (·.1)).contains n))

/-! ### `is_isomorphic` -/

def sizesDiffer (m1 m2 : MRS) : Bool :=
  m1.rels.length != m2.rels.length || m1.hcons.length != m2.hcons.length
    || m1.icons.length != m2.icons.length || (filledVars m1).length != (filledVars m2).length

def isIsomorphic (properties : Bool) (m1 m2 : MRS) : Except Err Bool :=
  if sizesDiffer m1 m2 then .ok false
  else do
    let g1 ← mkIsoGraph properties m1
    let g2 ← mkIsoGraph properties m2
    let a1 ← invMap g1
    let a2 ← invMap g2
    .ok (accept (vf2 a1 a2) a1)

/-! ### `compare_bags` -/

section Bags
variable {α : Type}

/-- one iteration of `for test in testbag:`; state = (test_unique, shared, gold_remaining).
`gold_remaining.remove(gold_match)` removes the first element `==` to the match; the match is the
first isomorphic element, and an `==` MRS gives the same verdict, so that is its own position. -/
def bagStep (iso : α → α → Bool) (st : List α × List α × List α) (t : α) : List α × List α × List α :=
  match st.2.2.findIdx? (fun g => iso t g) with
  | some i => (st.1, st.2.1 ++ [t], st.2.2.eraseIdx i)
  | none => (st.1 ++ [t], st.2.1, st.2.2)

def compareBagsLists (iso : α → α → Bool) (test gold : List α) : List α × List α × List α :=
  test.foldl (bagStep iso) ([], [], gold)

/-- `compare_bags(test, gold, count_only=True)` -/
def compareBags (iso : α → α → Bool) (test gold : List α) : Nat × Nat × Nat :=
  let r := compareBagsLists iso test gold
  (r.1.length, r.2.1.length, r.2.2.length)

end Bags

/-! ### decidable side condition of the soundness theorem -/

def isInfixC (a : List Char) : List Char → Bool
  | [] => a.isEmpty
  | c :: b => a.isPrefixOf (c :: b) || isInfixC a b

/-- a label that cannot be confused with the `'--'`-marked inverse labels `_vf2_inv_map` adds -/
def cleanLabel (l : Label) : Bool := !(invPrefix.isPrefixOf l) && !(isInfixC (' ' :: invPrefix) l)

/-- every edge label (not the node labels under `None`) of the graph is clean -/
def cleanGraph (g : IsoGraph) : Bool :=
  g.all (fun p => p.2.all (fun e => match e.1 with | none => true | some _ => cleanLabel e.2))

end Verif.C06
