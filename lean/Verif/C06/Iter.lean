/-
C06 — the ITERATIVE form of `util._vf2` and the agenda loop of `util._vf2_new`, as the code writes them.

`Model.lean` describes `_vf2` by the depth-first recursion it implements (`search`) and `_vf2_feasible` without
its `r_new` look-ahead.  This file models the code itself:

  _vf2_new        `agenda = [a]; while agenda: cur = agenda.pop(); for a_ in g[cur]: if not (a_ is None or
                   a == cur or a in mapping or a in new): agenda.append(a_); new.add(a_)`
                  — the test reads `a` (the start node), not `a_`: `vf2NewLoop`, `vf2New`
  _vf2_feasible   with the test `len(_vf2_new(mapping, g1, n)) != len(_vf2_new(inv_map, g2, m))`: `feasibleCode`
  _vf2            the `while len(mapping) < len(g2)` loop with its explicit stack `states`, `prev_n`, the inner
                  `while candidates and not pair_found` loop, `del mapping[prev_n]` and `states.pop()`:
                  `VState`, `popFeasible`, `step`, `iterRun`, `vf2Iter`

`PropsIter.lean` proves that the machine terminates on every pair of graphs and returns `vf2` (the recursive
form the other theorems are about), and that `feasibleCode = feasible`.  The driver sends the machine's mapping
to the correspondence check.

Representation: `mapping` is the association list of the dict, most recent insertion first.  `mapping[n] = m`
is `(n, m) :: mapping` — `n` is never a key at that point (`candidates_spec` in Lemmas.lean: every candidate is
unmapped, which is also the hypothesis under which `machine_tryList` in IterLemmas.lean is proved) — and
`del mapping[k]` removes the binding(s) of `k`, `KeyError` when there is none.
-/
import Verif.C06.Model

namespace Verif.C06
open Verif.Sem

/-! ### `_vf2_new` -/

/-- `for a_ in g[cur]: if not (a_ is None or a == cur or a in mapping or a in new): agenda.append(a_); new.add(a_)`
(state: agenda with its top first, `new` as a duplicate-free list) -/
def newScanStep (mapped : Node → Bool) (a cur : Node) (st : List Node × List Node) (e : Option Node × Label) :
    List Node × List Node :=
  match e.1 with
  | none => st
  | some a' =>
    if a == cur || mapped a || st.2.contains a then st
    else (a' :: st.1, if st.2.contains a' then st.2 else st.2 ++ [a'])

def newScan (mapped : Node → Bool) (a cur : Node) (adjCur : Adj) (agenda new : List Node) :
    List Node × List Node :=
  adjCur.foldl (newScanStep mapped a cur) (agenda, new)

/-- `while agenda: cur = agenda.pop(); …` with fuel; `none` = out of fuel -/
def vf2NewLoop (mapped : Node → Bool) (g : IsoGraph) (a : Node) : Nat → List Node → List Node → Option (List Node)
  | 0, _, _ => none
  | _ + 1, [], new => some new
  | f + 1, cur :: agenda, new =>
    let r := newScan mapped a cur (adj g cur) agenda new
    vf2NewLoop mapped g a f r.1 r.2

/-- `_vf2_new(mapping, g, a)` (the set it returns, as a duplicate-free list; the fuel suffices: `vf2New_nil`) -/
def vf2New (mapped : Node → Bool) (g : IsoGraph) (a : Node) : List Node :=
  (vf2NewLoop mapped g a (g.length + 2) [a] []).getD []

/-! ### `_vf2_feasible` as written -/

def feasibleCode (mp : Mapping) (g1 g2 : IsoGraph) (n m : Node) : Bool :=
  let e1 := adj g1 n
  let e2 := adj g2 m
  if (dlookup none e1).getD [] != (dlookup none e2).getD [] then false
  else if e1.length != e2.length then false
  else if dlookup (some n) e1 != dlookup (some m) e2 then false
  else if (vf2New (fun x => (mget mp x).isSome) g1 n).length != (vf2New (fun x => (minv mp x).isSome) g2 m).length
    then false
  else if !(consistent (mget mp) g1 g2 n m && consistent (minv mp) g2 g1 m n) then false
  else true

/-! ### `_vf2`: the stack machine -/

inductive IterErr where
  | keyError      -- `del mapping[prev_n]` without such a key
  | indexError    -- `states.pop()` on the empty list
deriving DecidableEq, Repr

structure VState where
  mapping : Mapping
  prev : Option Node
  /-- `candidates`, next pair to be popped first -/
  cands : List (Node × Node)
  /-- `states`, top first -/
  states : List (Option Node × List (Node × Node))

/-- the inner loop `while candidates and not pair_found: n, m = candidates.pop(); if feasible: pair_found = True`:
the pair found and what is left of `candidates` -/
def popFeasible (mp : Mapping) (g1 g2 : IsoGraph) :
    List (Node × Node) → Option ((Node × Node) × List (Node × Node))
  | [] => none
  | c :: cs => if feasibleCode mp g1 g2 c.1 c.2 then some (c, cs) else popFeasible mp g1 g2 cs

/-- `del mapping[k]` -/
def delKey (k : Node) (mp : Mapping) : Except IterErr Mapping :=
  if (mp.map (·.1)).contains k then .ok (mp.filter (fun p => p.1 != k)) else .error .keyError

inductive Step where
  | done (r : Except IterErr Mapping)
  | next (s : VState)

/-- one round of `while len(mapping) < len(g2):` -/
def step (g1 g2 : IsoGraph) (s : VState) : Step :=
  if s.mapping.length < g2.length then
    match popFeasible s.mapping g1 g2 s.cands with
    | some (c, rest) =>
      -- mapping[n] = m; states.append((prev_n, candidates)); prev_n = n; candidates = _vf2_candidates(…)
      .next ⟨c :: s.mapping, some c.1, candidates (c :: s.mapping) g1 g2, (s.prev, rest) :: s.states⟩
    | none =>
      match s.prev with
      | none => .done (.ok s.mapping)                       -- end of the line; abort
      | some p =>
        match delKey p s.mapping with                      -- restore old state
        | .error e => .done (.error e)
        | .ok mp' =>
          match s.states with
          | [] => .done (.error .indexError)
          | (pp, cs) :: st => .next ⟨mp', pp, cs, st⟩
  else .done (.ok s.mapping)

/-- the loop with fuel; `none` = out of fuel -/
def iterRun (g1 g2 : IsoGraph) : Nat → VState → Option (Except IterErr Mapping)
  | 0, _ => none
  | f + 1, s =>
    match step g1 g2 s with
    | .done r => some r
    | .next s' => iterRun g1 g2 f s'

def initState (g1 g2 : IsoGraph) : VState := ⟨[], none, candidates [] g1 g2, []⟩

/-- `_vf2(g1, g2)` after the two `_vf2_inv_map` calls, run with the given fuel -/
def vf2Iter (g1 g2 : IsoGraph) (fuel : Nat) : Option (Except IterErr Mapping) :=
  iterRun g1 g2 fuel (initState g1 g2)

end Verif.C06
