/-
C06 — the encoding graph `_make_mrs_isograph` builds, characterised as a replay of writes
(`mkIsoGraph_edge`), and what follows for the MRS level.  Core Lean only.
-/
import Verif.C06.Complete
namespace Verif.C06
open Verif.Sem

/-! ## §16 the encoding graph as a replay of writes -/

abbrev Write := Pos × Label

theorem dlookup_dset {κ ν : Type} [DecidableEq κ] (k k' : κ) (v : ν) (d : List (κ × ν)) :
    dlookup k (dset k' v d) = if k' = k then some v else dlookup k d := by
  induction d with
  | nil => simp [dset, dlookup]
  | cons e d ih =>
    obtain ⟨k'', v''⟩ := e
    by_cases h : k'' = k'
    · subst h
      by_cases h2 : k'' = k <;> simp [dset, dlookup, h2]
    · by_cases h2 : k'' = k
      · subst h2
        have : ¬ k' = k'' := fun e => h e.symm
        simp [dset, dlookup, h, this]
      · simp only [dset, if_neg h, dlookup, if_neg h2, ih]

theorem edge_setEdge {g g' : IsoGraph} {a : Node} {t : Option Node} {l : Label}
    (h : setEdge g a t l = .ok g') (u : Node) (t' : Option Node) :
    edge g' u t' = if (a, t) = (u, t') then some l else edge g u t' := by
  unfold setEdge at h
  cases hA : dlookup a g with
  | none => simp [hA] at h
  | some adjA =>
    simp only [hA, Except.ok.injEq] at h
    subst h
    unfold edge
    rw [dlookup_dset]
    by_cases hau : a = u
    · subst hau
      simp only [if_true, Option.bind_some, hA, dlookup_dset]
      by_cases ht : t = t' <;> simp [ht]
    · simp [hau]

def applyWrite (g : IsoGraph) (w : Write) : Except Err IsoGraph := setEdge g w.1.1 w.1.2 w.2

/-- the value of the last write at `pos` (`init` if there is none) -/
def lastW (W : List Write) (pos : Pos) (init : Option Label) : Option Label :=
  W.foldl (fun acc w => if w.1 = pos then some w.2 else acc) init

theorem replay_edge : ∀ (W : List Write) (g g' : IsoGraph), W.foldlM applyWrite g = .ok g' →
    ∀ pos : Pos, edge g' pos.1 pos.2 = lastW W pos (edge g pos.1 pos.2) := by
  intro W
  induction W with
  | nil =>
    intro g g' h pos
    simp only [List.foldlM_nil, pure, Except.pure, Except.ok.injEq] at h
    subst h; rfl
  | cons w W ih =>
    intro g g' h pos
    rw [List.foldlM_cons] at h
    cases h1 : applyWrite g w with
    | error e => simp [h1, bind, Except.bind] at h
    | ok g1 =>
      simp only [h1, bind, Except.bind] at h
      rw [ih g1 g' h pos]
      unfold applyWrite at h1
      rw [edge_setEdge h1]
      obtain ⟨⟨a, t⟩, l⟩ := w
      obtain ⟨u, t'⟩ := pos
      simp only [lastW, List.foldl_cons]

theorem replay_keys : ∀ (W : List Write) (g g' : IsoGraph), W.foldlM applyWrite g = .ok g' →
    dkeys g' = dkeys g := by
  intro W g g' h
  exact foldlM_preserve (fun x : IsoGraph => dkeys x = dkeys g) applyWrite
    (fun s b s' hs hb => by rw [setEdge_keys hb]; exact hs) W g g' rfl h


/-- `' '.join(sorted(old.split() + [role]))` -/
def mergeRole (old : Label) (r : Role) : Label := joinWith [' '] (sortLabels (splitSp old ++ [r.toList]))

/-- the writes of the argument loop of one predication, computed on a private dictionary `d`
(target ↦ label written so far) instead of reading the graph -/
def argWrites (id : Node) : List (Role × Var) → List (Node × Label) → List Write
  | [], _ => []
  | a :: rest, d =>
    let tgt := vstr a.2
    let l := mergeRole ((dlookup tgt d).getD []) a.1
    ((id, some tgt), l) :: argWrites id rest (dset tgt l d)

/-- one step of the argument loop of `addEP` -/
def argStep (id : Node) (g : IsoGraph) (a : Role × Var) : Except Err IsoGraph :=
  setEdge g id (some (vstr a.2)) (mergeRole ((edge g id (some (vstr a.2))).getD []) a.1)

theorem argLoop_eq (id : Node) : ∀ (args : List (Role × Var)) (g : IsoGraph) (d : List (Node × Label)),
    (∀ a ∈ args, edge g id (some (vstr a.2)) = dlookup (vstr a.2) d) →
    args.foldlM (argStep id) g = (argWrites id args d).foldlM applyWrite g := by
  intro args
  induction args with
  | nil => intro g d _; rfl
  | cons a rest ih =>
    intro g d h
    have ha := h a List.mem_cons_self
    rw [List.foldlM_cons, argWrites, List.foldlM_cons]
    have hstep : argStep id g a = applyWrite g
        ((id, some (vstr a.2)), mergeRole ((dlookup (vstr a.2) d).getD []) a.1) := by
      simp only [argStep, applyWrite, ha]
    rw [hstep]
    cases h1 : applyWrite g ((id, some (vstr a.2)), mergeRole ((dlookup (vstr a.2) d).getD []) a.1) with
    | error e => rfl
    | ok g1 =>
      simp only [bind, Except.bind]
      apply ih
      intro b hb
      unfold applyWrite at h1
      rw [edge_setEdge h1, dlookup_dset]
      by_cases hab : vstr a.2 = vstr b.2
      · simp [hab]
      · have : ¬ ((id, some (vstr a.2)) : Pos) = (id, some (vstr b.2)) := by
          intro e; exact hab (by simpa using e)
        simp only [this, if_false, hab]
        exact h b (List.mem_cons_of_mem _ hb)

/-- all writes of `for ep in x.rels:` for one predication -/
def epWrites (properties : Bool) (m : MRS) (p : Pred) : List Write :=
  ((vstr p.2.label, some (vstr p.1)), eqScope)
  :: ((vstr p.1, none), epNodeLabel properties m p.2)
  :: argWrites (vstr p.1) p.2.args []

theorem addEP_eq_argStep (properties : Bool) (m : MRS) (g : IsoGraph) (p : Pred) :
    addEP properties m g p = (do
      let g ← setEdge g (vstr p.2.label) (some (vstr p.1)) eqScope
      let g ← setEdge g (vstr p.1) none (epNodeLabel properties m p.2)
      p.2.args.foldlM (argStep (vstr p.1)) g) := rfl

theorem addEP_eq_writes (properties : Bool) (m : MRS) (g : IsoGraph) (p : Pred)
    (hne : vstr p.2.label ≠ vstr p.1)
    (hfresh : ∀ a ∈ p.2.args, edge g (vstr p.1) (some (vstr a.2)) = none) :
    addEP properties m g p = (epWrites properties m p).foldlM applyWrite g := by
  rw [addEP_eq_argStep, epWrites]
  simp only [List.foldlM_cons, applyWrite]
  cases h1 : setEdge g (vstr p.2.label) (some (vstr p.1)) eqScope with
  | error e => rfl
  | ok g1 =>
    simp only [bind, Except.bind]
    cases h2 : setEdge g1 (vstr p.1) none (epNodeLabel properties m p.2) with
    | error e => rfl
    | ok g2 =>
      simp only
      apply argLoop_eq
      intro a ha
      rw [edge_setEdge h2, edge_setEdge h1]
      have n1 : ¬ ((vstr p.1, (none : Option Node)) = (vstr p.1, some (vstr a.2))) := by simp
      have n2 : ¬ ((vstr p.2.label, some (vstr p.1)) = ((vstr p.1, some (vstr a.2)) : Pos)) := by
        intro e; exact hne (by simpa using (congrArg Prod.fst e))
      simp only [n1, n2, if_false, dlookup]
      exact hfresh a ha


theorem lastW_no_row {W : List Write} {u : Node} (h : ∀ w ∈ W, w.1.1 ≠ u) (t : Option Node)
    (init : Option Label) : lastW W (u, t) init = init := by
  induction W generalizing init with
  | nil => rfl
  | cons w W ih =>
    simp only [lastW, List.foldl_cons]
    have hw : ¬ w.1 = (u, t) := fun e => h w List.mem_cons_self (by rw [e])
    simp only [hw, if_false]
    exact ih (fun w' hw' => h w' (List.mem_cons_of_mem _ hw')) init

theorem argWrites_row (id : Node) : ∀ (args : List (Role × Var)) (d : List (Node × Label)),
    ∀ w ∈ argWrites id args d, w.1.1 = id := by
  intro args
  induction args with
  | nil => intro d w hw; cases hw
  | cons a rest ih =>
    intro d w hw
    simp only [argWrites, List.mem_cons] at hw
    rcases hw with rfl | hw
    · rfl
    · exact ih _ w hw

theorem epWrites_row (properties : Bool) (m : MRS) (p : Pred) :
    ∀ w ∈ epWrites properties m p, w.1.1 = vstr p.2.label ∨ w.1.1 = vstr p.1 := by
  intro w hw
  simp only [epWrites, List.mem_cons] at hw
  rcases hw with rfl | rfl | hw
  · exact Or.inl rfl
  · exact Or.inr rfl
  · exact Or.inr (argWrites_row _ _ _ w hw)

theorem epsFold (properties : Bool) (m : MRS) : ∀ (ps : List Pred) (g : IsoGraph),
    (∀ p ∈ ps, ∀ a ∈ p.2.args, edge g (vstr p.1) (some (vstr a.2)) = none) →
    (ps.map (fun p => vstr p.1)).Nodup →
    (∀ p ∈ ps, ∀ q ∈ ps, vstr p.2.label ≠ vstr q.1) →
    ps.foldlM (addEP properties m) g = (ps.flatMap (epWrites properties m)).foldlM applyWrite g := by
  intro ps
  induction ps with
  | nil => intro g _ _ _; rfl
  | cons p ps ih =>
    intro g hfresh hnd hlbl
    rw [List.foldlM_cons, List.flatMap_cons, List.foldlM_append,
      addEP_eq_writes properties m g p (hlbl p List.mem_cons_self p List.mem_cons_self)
        (hfresh p List.mem_cons_self)]
    cases h1 : (epWrites properties m p).foldlM applyWrite g with
    | error e => rfl
    | ok g1 =>
      simp only [bind, Except.bind]
      obtain ⟨hp, hnd'⟩ := List.nodup_cons.1 hnd
      apply ih g1
      · intro q hq a ha
        have := replay_edge _ g g1 h1 (vstr q.1, some (vstr a.2))
        simp only at this
        rw [this, lastW_no_row, hfresh q (List.mem_cons_of_mem _ hq) a ha]
        intro w hw
        rcases epWrites_row properties m p w hw with h | h
        · rw [h]; exact hlbl p List.mem_cons_self q (List.mem_cons_of_mem _ hq)
        · rw [h]; intro e
          exact hp (List.mem_map.2 ⟨q, hq, e.symm⟩)
      · exact hnd'
      · intro a ha b hb
        exact hlbl a (List.mem_cons_of_mem _ ha) b (List.mem_cons_of_mem _ hb)

def hcWrite (h : HCons) : Write := ((vstr h.hi, some (vstr h.lo)), h.rel.toList)
def icWrite (c : ICons) : Write := ((vstr c.left, some (vstr c.right)), c.rel.toList)

/-- every write `_make_mrs_isograph` performs, in execution order -/
def allWrites (properties : Bool) (m : MRS) : List Write :=
  m.preds.flatMap (epWrites properties m) ++ m.hcons.map hcWrite ++ m.icons.map icWrite

theorem foldlM_map_write {β : Type} (f : β → Write) : ∀ (l : List β) (g : IsoGraph),
    l.foldlM (fun g b => applyWrite g (f b)) g = (l.map f).foldlM applyWrite g := by
  intro l
  induction l with
  | nil => intro g; rfl
  | cons b l ih =>
    intro g
    rw [List.foldlM_cons, List.map_cons, List.foldlM_cons]
    cases applyWrite g (f b) with
    | error e => rfl
    | ok g1 => exact ih g1

theorem edge_of_allEmpty {g : IsoGraph} (h : ∀ p ∈ g, p.2 = []) (u : Node) (t : Option Node) :
    edge g u t = none := by
  unfold edge
  cases hu : dlookup u g with
  | none => rfl
  | some adj =>
    have := h _ (dlookup_mem hu)
    simp only at this
    subst this
    rfl

theorem allEmpty_foldl_dset {β : Type} (f : β → Node) (l : List β) (g : IsoGraph) (h : ∀ p ∈ g, p.2 = []) :
    ∀ p ∈ l.foldl (fun g v => dset (f v) ([] : Adj) g) g, p.2 = [] := by
  induction l generalizing g with
  | nil => exact h
  | cons b l ih =>
    apply ih
    intro p hp
    rcases mem_dset hp with rfl | hp
    · rfl
    · exact h p hp

theorem edge_initGraph (m : MRS) (u : Node) (t : Option Node) : edge (initGraph m) u t = none := by
  apply edge_of_allEmpty
  unfold initGraph
  exact allEmpty_foldl_dset _ _ _ (allEmpty_foldl_dset _ _ _ (by intro p hp; cases hp))

theorem mkIsoGraph_eq_writes (properties : Bool) (m : MRS) (h : rowsOK m = true) :
    mkIsoGraph properties m = (allWrites properties m).foldlM applyWrite (initGraph m) := by
  simp only [rowsOK, Bool.and_eq_true, decide_eq_true_eq, List.all_eq_true, bne_iff_ne, ne_eq] at h
  unfold mkIsoGraph allWrites
  rw [List.foldlM_append, List.foldlM_append,
    epsFold properties m m.preds (initGraph m) (fun p _ a _ => edge_initGraph m _ _) h.1
      (fun p hp q hq => h.2 p hp q hq)]
  have e1 : ∀ g, m.hcons.foldlM (fun g h => setEdge g (vstr h.hi) (some (vstr h.lo)) h.rel.toList) g
      = (m.hcons.map hcWrite).foldlM applyWrite g := fun g => foldlM_map_write hcWrite m.hcons g
  have e2 : ∀ g, m.icons.foldlM (fun g c => setEdge g (vstr c.left) (some (vstr c.right)) c.rel.toList) g
      = (m.icons.map icWrite).foldlM applyWrite g := fun g => foldlM_map_write icWrite m.icons g
  simp only [bind, Except.bind, e1, e2]
  cases (m.preds.flatMap (epWrites properties m)).foldlM applyWrite (initGraph m) with
  | error e => rfl
  | ok ga => rfl

/-- **Characterisation of the encoding graph**: the label at any position is the value of the last
write at that position (and absent if there is none) -/
theorem mkIsoGraph_edge {properties : Bool} {m : MRS} {g : IsoGraph} (h : rowsOK m = true)
    (hg : mkIsoGraph properties m = .ok g) (pos : Pos) :
    edge g pos.1 pos.2 = lastW (allWrites properties m) pos none := by
  rw [mkIsoGraph_eq_writes properties m h] at hg
  rw [replay_edge _ _ _ hg pos, edge_initGraph]

/-! ## §17 reordering predications and constraints -/

theorem lastW_append (A B : List Write) (pos : Pos) (init : Option Label) :
    lastW (A ++ B) pos init = lastW B pos (lastW A pos init) := by
  simp only [lastW, List.foldl_append]

theorem lastW_not_mem {W : List Write} {pos : Pos} (h : ∀ w ∈ W, w.1 ≠ pos) (init : Option Label) :
    lastW W pos init = init := by
  induction W generalizing init with
  | nil => rfl
  | cons w W ih =>
    simp only [lastW, List.foldl_cons]
    have hw : ¬ w.1 = pos := h w List.mem_cons_self
    simp only [hw, if_false]
    exact ih (fun w' hw' => h w' (List.mem_cons_of_mem _ hw')) init

/-- two lists of writes that never touch the same position -/
def DisjW (A B : List Write) : Prop := ∀ w ∈ A, ∀ w' ∈ B, w.1 ≠ w'.1

theorem lastW_swap {A B : List Write} (h : DisjW A B) (pos : Pos) (init : Option Label) :
    lastW (A ++ B) pos init = lastW (B ++ A) pos init := by
  rw [lastW_append, lastW_append]
  by_cases hA : ∃ w ∈ A, w.1 = pos
  · obtain ⟨w, hw, hwp⟩ := hA
    have hB : ∀ w' ∈ B, w'.1 ≠ pos := fun w' hw' e => h w hw w' hw' (hwp.trans e.symm)
    rw [lastW_not_mem hB, lastW_not_mem hB]
  · have hA' : ∀ w ∈ A, w.1 ≠ pos := fun w hw e => hA ⟨w, hw, e⟩
    rw [lastW_not_mem hA', lastW_not_mem hA']

theorem lastW_flatMap_perm {β : Type} (f : β → List Write) {l l' : List β} (hp : l.Perm l')
    (hd : l.Pairwise (fun a b => DisjW (f a) (f b))) (pos : Pos) (init : Option Label) :
    lastW (l.flatMap f) pos init = lastW (l'.flatMap f) pos init := by
  have hsymm : ∀ {x y : β}, DisjW (f x) (f y) → DisjW (f y) (f x) :=
    fun h w hw w' hw' e => h w' hw' w hw e.symm
  induction hp generalizing init with
  | nil => rfl
  | cons x _ ih =>
    rw [List.flatMap_cons, List.flatMap_cons, lastW_append, lastW_append]
    exact ih (List.pairwise_cons.1 hd).2 _
  | swap x y l =>
    simp only [List.flatMap_cons]
    rw [← List.append_assoc, ← List.append_assoc, lastW_append, lastW_append (f x ++ f y)]
    congr 1
    have : DisjW (f y) (f x) := (List.pairwise_cons.1 hd).1 x List.mem_cons_self
    exact lastW_swap this pos init
  | trans h1 _ ih1 ih2 =>
    rw [ih1 hd, ih2 ((h1.pairwise_iff hsymm).1 hd)]

def blockWrites (properties : Bool) (m : MRS) : Block → List Write
  | .ep p => epWrites properties m p
  | .hc h => [hcWrite h]
  | .ic c => [icWrite c]

theorem allWrites_eq_blocks (properties : Bool) (m : MRS) :
    allWrites properties m = (blocks m).flatMap (blockWrites properties m) := by
  unfold allWrites blocks
  simp only [List.flatMap_append, List.flatMap_map, blockWrites]
  congr 1
  · congr 1
    induction m.hcons with
    | nil => rfl
    | cons h t ih => simp [List.flatMap_cons, ih]
  · induction m.icons with
    | nil => rfl
    | cons h t ih => simp [List.flatMap_cons, ih]

theorem argWrites_pos (id : Node) : ∀ (args : List (Role × Var)) (d : List (Node × Label)),
    (argWrites id args d).map (·.1) = args.map (fun a => ((id, some (vstr a.2)) : Pos)) := by
  intro args
  induction args with
  | nil => intro d; rfl
  | cons a rest ih => intro d; simp only [argWrites, List.map_cons, ih]

theorem blockWrites_pos (properties : Bool) (m : MRS) (b : Block) :
    (blockWrites properties m b).map (·.1) = blockPos b := by
  cases b with
  | ep p => simp only [blockWrites, epWrites, List.map_cons, argWrites_pos, blockPos]
  | hc h => rfl
  | ic c => rfl

theorem disjW_of_blockPos (properties : Bool) (m : MRS) {a b : Block}
    (h : ∀ x ∈ blockPos a, ∀ y ∈ blockPos b, x ≠ y) :
    DisjW (blockWrites properties m a) (blockWrites properties m b) := by
  intro w hw w' hw'
  apply h
  · rw [← blockWrites_pos properties m a]; exact List.mem_map.2 ⟨w, hw, rfl⟩
  · rw [← blockWrites_pos properties m b]; exact List.mem_map.2 ⟨w', hw', rfl⟩

theorem uniquify_eq_self (n : Nat) : ∀ (l seen : List Var), l.Nodup → (∀ x ∈ l, x ∉ seen) →
    uniquify n seen l = l := by
  intro l
  induction l with
  | nil => intro _ _ _; rfl
  | cons i is ih =>
    intro seen hnd hs
    obtain ⟨hi, hnd'⟩ := List.nodup_cons.1 hnd
    have : i ∉ seen := hs i List.mem_cons_self
    simp only [uniquify, this, if_false]
    rw [ih (i :: seen) hnd' (by
      intro x hx
      simp only [List.mem_cons, not_or]
      exact ⟨fun e => hi (e ▸ hx), hs x (List.mem_cons_of_mem _ hx)⟩)]

theorem ids_of_simple {m : MRS} (h : SimpleIds m) : m.ids = m.rels.map EP.baseId := by
  unfold MRS.ids
  exact uniquify_eq_self _ _ [] h (by intro x _ hx; cases hx)

theorem zip_map_self {α β : Type} (f : α → β) : ∀ (l : List α), (l.map f).zip l = l.map (fun a => (f a, a)) := by
  intro l
  induction l with
  | nil => rfl
  | cons a l ih => simp [ih]

theorem preds_of_simple {m : MRS} (h : SimpleIds m) : m.preds = m.rels.map (fun e => (e.baseId, e)) := by
  unfold MRS.preds
  rw [ids_of_simple h, zip_map_self]

/-- `m'` is `m` with predications, handle constraints and individual constraints reordered (and the
same variables with the same properties) -/
structure Reordered (m m' : MRS) : Prop where
  rels : m.rels.Perm m'.rels
  hcons : m.hcons.Perm m'.hcons
  icons : m.icons.Perm m'.icons
  props : ∀ v, m'.props v = m.props v
  vars : ∀ v, v ∈ filledVars m ↔ v ∈ filledVars m'

theorem epNodeLabel_congr (properties : Bool) {m m' : MRS} (h : ∀ v, m'.props v = m.props v) (e : EP) :
    epNodeLabel properties m' e = epNodeLabel properties m e := by
  unfold epNodeLabel
  cases e.iv with
  | none => rfl
  | some v => simp only [h v]

theorem blockWrites_congr (properties : Bool) {m m' : MRS} (h : ∀ v, m'.props v = m.props v) (b : Block) :
    blockWrites properties m' b = blockWrites properties m b := by
  cases b with
  | ep p => simp only [blockWrites, epWrites, epNodeLabel_congr properties h]
  | hc h => rfl
  | ic c => rfl

theorem reordered_simple {m m' : MRS} (hr : Reordered m m') (hs : SimpleIds m) : SimpleIds m' :=
  ((hr.rels.map EP.baseId).nodup_iff).1 hs

theorem reordered_preds {m m' : MRS} (hr : Reordered m m') (hs : SimpleIds m) : m.preds.Perm m'.preds := by
  rw [preds_of_simple hs, preds_of_simple (reordered_simple hr hs)]
  exact hr.rels.map _

theorem reordered_blocks {m m' : MRS} (hr : Reordered m m') (hs : SimpleIds m) :
    (blocks m).Perm (blocks m') := by
  unfold blocks
  exact (((reordered_preds hr hs).map _).append (hr.hcons.map _)).append (hr.icons.map _)

theorem reordered_rowsOK {m m' : MRS} (hr : Reordered m m') (hs : SimpleIds m) (h : rowsOK m = true) :
    rowsOK m' = true := by
  have hp := reordered_preds hr hs
  simp only [rowsOK, Bool.and_eq_true, decide_eq_true_eq, List.all_eq_true, bne_iff_ne, ne_eq] at h ⊢
  refine ⟨((hp.map _).nodup_iff).1 h.1, ?_⟩
  intro p hp' q hq'
  exact h.2 p (hp.mem_iff.2 hp') q (hp.mem_iff.2 hq')

/-- reordering predications and constraints does not change any edge of the encoding graph -/
theorem reorder_edges (properties : Bool) {m m' : MRS} (hr : Reordered m m') (hs : SimpleIds m)
    (hrow : rowsOK m = true) (hnp : NoParallel m) {g g' : IsoGraph}
    (hg : mkIsoGraph properties m = .ok g) (hg' : mkIsoGraph properties m' = .ok g') (pos : Pos) :
    edge g pos.1 pos.2 = edge g' pos.1 pos.2 := by
  rw [mkIsoGraph_edge hrow hg pos, mkIsoGraph_edge (reordered_rowsOK hr hs hrow) hg' pos,
    allWrites_eq_blocks, allWrites_eq_blocks]
  have hbw : (blocks m').flatMap (blockWrites properties m') = (blocks m').flatMap (blockWrites properties m) := by
    congr 1
    funext b
    exact blockWrites_congr properties hr.props b
  rw [hbw]
  apply lastW_flatMap_perm _ (reordered_blocks hr hs)
  exact hnp.imp (fun h => disjW_of_blockPos properties m h)

theorem mem_keys_foldl_dset_iff {β : Type} (f : β → Node) (l : List β) (g : IsoGraph) (k : Node) :
    k ∈ dkeys (l.foldl (fun g v => dset (f v) ([] : Adj) g) g) ↔ (k ∈ dkeys g ∨ ∃ v ∈ l, f v = k) := by
  induction l generalizing g with
  | nil => simp
  | cons b l ih =>
    simp only [List.foldl_cons]
    rw [ih, mem_dkeys_dset]
    constructor
    · rintro ((h | h) | ⟨v, hv, hfv⟩)
      · exact Or.inr ⟨b, List.mem_cons_self, h.symm⟩
      · exact Or.inl h
      · exact Or.inr ⟨v, List.mem_cons_of_mem _ hv, hfv⟩
    · rintro (h | ⟨v, hv, hfv⟩)
      · exact Or.inl (Or.inr h)
      · rcases List.mem_cons.1 hv with rfl | hv
        · exact Or.inl (Or.inl hfv.symm)
        · exact Or.inr ⟨v, hv, hfv⟩

theorem mem_keys_initGraph (m : MRS) (k : Node) :
    k ∈ dkeys (initGraph m) ↔ ((∃ v ∈ filledVars m, vstr v = k) ∨ (∃ i ∈ m.ids, vstr i = k)) := by
  unfold initGraph
  rw [mem_keys_foldl_dset_iff, mem_keys_foldl_dset_iff]
  simp [dkeys]

theorem isIso_of_edges_eq {g g' : IsoGraph} (hk : (dkeys g).Nodup)
    (hk' : ∀ k, k ∈ dkeys g ↔ k ∈ dkeys g') (he : ∀ u t, edge g u t = edge g' u t) : IsIso g g' := by
  refine ⟨(dkeys g).map (fun n => (n, n)), ?_, ?_, ?_, ?_, ?_, ?_⟩
  · simpa [List.map_map, Function.comp_def] using hk
  · simpa [List.map_map, Function.comp_def] using hk
  · intro n; simp [List.map_map, Function.comp_def]
  · intro n; simp [List.map_map, Function.comp_def, hk' n]
  · intro p hp
    obtain ⟨n, _, rfl⟩ := List.mem_map.1 hp
    exact he n none
  · intro p hp q hq
    obtain ⟨n, _, rfl⟩ := List.mem_map.1 hp
    obtain ⟨k, _, rfl⟩ := List.mem_map.1 hq
    exact he n (some k)

/-- **Reordering invariance of the encoding.** -/
theorem reorder_iso (properties : Bool) {m m' : MRS} (hr : Reordered m m') (hs : SimpleIds m)
    (hrow : rowsOK m = true) (hnp : NoParallel m) {g g' : IsoGraph}
    (hg : mkIsoGraph properties m = .ok g) (hg' : mkIsoGraph properties m' = .ok g') : IsIso g g' := by
  apply isIso_of_edges_eq (mkIsoGraph_wf hg).1
  · intro k
    rw [mkIsoGraph_keys hg, mkIsoGraph_keys hg', mem_keys_initGraph, mem_keys_initGraph,
      ids_of_simple hs, ids_of_simple (reordered_simple hr hs)]
    constructor
    · rintro (⟨v, hv, rfl⟩ | ⟨i, hi, rfl⟩)
      · exact Or.inl ⟨v, (hr.vars v).1 hv, rfl⟩
      · exact Or.inr ⟨i, ((hr.rels.map EP.baseId).mem_iff).1 hi, rfl⟩
    · rintro (⟨v, hv, rfl⟩ | ⟨i, hi, rfl⟩)
      · exact Or.inl ⟨v, (hr.vars v).2 hv, rfl⟩
      · exact Or.inr ⟨i, ((hr.rels.map EP.baseId).mem_iff).2 hi, rfl⟩
  · intro u t
    exact reorder_edges properties hr hs hrow hnp hg hg' (u, t)

theorem nodup_eraseDups {α : Type} [DecidableEq α] : ∀ (n : Nat) (l : List α), l.length ≤ n → l.eraseDups.Nodup := by
  intro n
  induction n with
  | zero =>
    intro l hl
    have : l = [] := List.eq_nil_of_length_eq_zero (by omega)
    subst this; simp
  | succ n ih =>
    intro l hl
    cases l with
    | nil => simp
    | cons a as =>
      rw [List.eraseDups_cons, List.nodup_cons]
      have hlen : (as.filter (fun b => !b == a)).length ≤ n := by
        have := List.length_filter_le (fun b => !b == a) as
        simp only [List.length_cons] at hl
        omega
      refine ⟨?_, ih _ hlen⟩
      intro hmem
      have := (List.mem_filter.1 (List.mem_eraseDups.1 hmem)).2
      simp at this

theorem filledVars_nodup (m : MRS) : (filledVars m).Nodup := nodup_eraseDups _ _ (Nat.le_refl _)

theorem reordered_sizes {m m' : MRS} (hr : Reordered m m') : sizesDiffer m m' = false := by
  simp only [sizesDiffer, Bool.or_eq_false_iff, bne_eq_false_iff_eq]
  refine ⟨⟨⟨hr.rels.length_eq, hr.hcons.length_eq⟩, hr.icons.length_eq⟩, ?_⟩
  have a := nodup_length_le_of_subset _ _ (filledVars_nodup m) (fun v hv => (hr.vars v).1 hv)
  have b := nodup_length_le_of_subset _ _ (filledVars_nodup m') (fun v hv => (hr.vars v).2 hv)
  omega

/-! ## §18 renaming variables -/

def mapPos (ρ : Node → Node) (p : Pos) : Pos := (ρ p.1, p.2.map ρ)
def mapW (ρ : Node → Node) (w : Write) : Write := (mapPos ρ w.1, w.2)

/-- the node names a position mentions all lie in `N` -/
def PosIn (N : List Node) (p : Pos) : Prop := p.1 ∈ N ∧ ∀ t, p.2 = some t → t ∈ N

theorem mapPos_inj {ρ : Node → Node} {N : List Node} (hinj : ∀ x ∈ N, ∀ y ∈ N, ρ x = ρ y → x = y)
    {p q : Pos} (hp : PosIn N p) (hq : PosIn N q) (h : mapPos ρ p = mapPos ρ q) : p = q := by
  obtain ⟨u, t⟩ := p
  obtain ⟨u', t'⟩ := q
  simp only [mapPos, Prod.mk.injEq] at h
  have h1 := hinj u hp.1 u' hq.1 h.1
  subst h1
  cases t with
  | none =>
    cases t' with
    | none => rfl
    | some y => simp at h
  | some x =>
    cases t' with
    | none => simp at h
    | some y =>
      have := hinj x (hp.2 x rfl) y (hq.2 y rfl) (by simpa using h.2)
      rw [this]

theorem lastW_map_inj {ρ : Node → Node} {N : List Node} (hinj : ∀ x ∈ N, ∀ y ∈ N, ρ x = ρ y → x = y)
    (W : List Write) (hW : ∀ w ∈ W, PosIn N w.1) (pos : Pos) (hpos : PosIn N pos) (init : Option Label) :
    lastW (W.map (mapW ρ)) (mapPos ρ pos) init = lastW W pos init := by
  induction W generalizing init with
  | nil => rfl
  | cons w W ih =>
    simp only [List.map_cons, lastW, List.foldl_cons]
    have hw := hW w List.mem_cons_self
    have hiff : ((mapW ρ w).1 = mapPos ρ pos) ↔ (w.1 = pos) := by
      constructor
      · intro h; exact mapPos_inj hinj hw hpos h
      · intro h; simp [mapW, h]
    by_cases h : w.1 = pos
    · simp only [h, if_true, mapW]
      exact ih (fun w' hw' => hW w' (List.mem_cons_of_mem _ hw')) _
    · have h' : ¬ (mapW ρ w).1 = mapPos ρ pos := fun e => h (hiff.1 e)
      simp only [h, h', if_false]
      exact ih (fun w' hw' => hW w' (List.mem_cons_of_mem _ hw')) _

/-- in a list whose `f`-image has no duplicates, `f` determines the POSITION; for equal images of
members we get equal `g`-values for every `g` -/
theorem map_eq_of_nodup_map {α β γ : Type} (f : α → β) (g : α → γ) : ∀ (l : List α), (l.map f).Nodup →
    ∀ x ∈ l, ∀ y ∈ l, f x = f y → g x = g y := by
  intro l
  induction l with
  | nil => intro _ x hx; cases hx
  | cons a l ih =>
    intro hnd x hx y hy hxy
    rw [List.map_cons, List.nodup_cons] at hnd
    rcases List.mem_cons.1 hx with hxa | hx
    · rcases List.mem_cons.1 hy with hya | hy
      · rw [hxa, hya]
      · rw [hxa] at hxy; exact absurd (List.mem_map.2 ⟨y, hy, hxy.symm⟩) hnd.1
    · rcases List.mem_cons.1 hy with hya | hy
      · rw [hya] at hxy; exact absurd (List.mem_map.2 ⟨x, hx, hxy⟩) hnd.1
      · exact ih hnd.2 x hx y hy hxy

theorem dlookup_map_key_inj {α β ν : Type} [DecidableEq α] [DecidableEq β] (f : α → β) :
    ∀ (d : List (α × ν)) (k : α), (∀ x ∈ dkeys d, f x = f k → x = k) →
      dlookup (f k) (d.map (fun p => (f p.1, p.2))) = dlookup k d := by
  intro d
  induction d with
  | nil => intro k _; rfl
  | cons e d ih =>
    intro k h
    obtain ⟨k', v⟩ := e
    by_cases hk : k' = k
    · subst hk; simp [dlookup]
    · have hne : ¬ f k' = f k := fun e => hk (h k' (by simp [dkeys]) e)
      simp only [List.map_cons, dlookup, if_neg hk, if_neg hne]
      exact ih k (fun x hx => h x (by simp only [dkeys, List.map_cons, List.mem_cons]; exact Or.inr hx))

theorem eraseDups_map_injOn {α β : Type} [DecidableEq α] [DecidableEq β] (f : α → β) :
    ∀ (n : Nat) (l : List α), l.length ≤ n → (∀ x ∈ l, ∀ y ∈ l, f x = f y → x = y) →
      (l.map f).eraseDups = l.eraseDups.map f := by
  intro n
  induction n with
  | zero =>
    intro l hl _
    have : l = [] := List.eq_nil_of_length_eq_zero (by omega)
    subst this; simp
  | succ n ih =>
    intro l hl hinj
    cases l with
    | nil => simp
    | cons a as =>
      rw [List.map_cons, List.eraseDups_cons, List.eraseDups_cons, List.map_cons]
      have hfilt : (as.map f).filter (fun b => !b == f a) = (as.filter (fun b => !b == a)).map f := by
        rw [List.filter_map]
        congr 1
        apply List.filter_congr
        intro x hx
        simp only [Function.comp_apply]
        by_cases hxa : x = a
        · simp [hxa]
        · have : ¬ f x = f a := fun e => hxa (hinj x (List.mem_cons_of_mem _ hx) a List.mem_cons_self e)
          have e1 : (f x == f a) = false := by simpa using this
          have e2 : (x == a) = false := by simpa using hxa
          rw [e1, e2]
      rw [hfilt]
      congr 1
      apply ih
      · have := List.length_filter_le (fun b => !b == a) as
        simp only [List.length_cons] at hl
        omega
      · intro x hx y hy
        exact hinj x (List.mem_cons_of_mem _ (List.mem_filter.1 hx).1) y (List.mem_cons_of_mem _ (List.mem_filter.1 hy).1)

theorem filledVars_eq (m : MRS) : filledVars m = (rawVars m).eraseDups := rfl

theorem mem_filledVars_raw {m : MRS} {v : Var} : v ∈ filledVars m ↔ v ∈ rawVars m := by
  rw [filledVars_eq]; exact List.mem_eraseDups

theorem rawVars_ren (σ : Var → Var) (m : MRS) : rawVars (renMRS σ m) = (rawVars m).map σ := by
  have ht : ∀ o : Option Var, (o.map σ).toList = o.toList.map σ := by intro o; cases o <;> rfl
  simp only [rawVars, renMRS, renEP, List.map_append, List.map_map, ht, List.flatMap_map, List.map_flatMap,
    Function.comp_def, List.map_cons, List.map_nil]

theorem filledVars_ren {σ : Var → Var} {m : MRS}
    (hσ : ∀ x ∈ rawVars m, ∀ y ∈ rawVars m, σ x = σ y → x = y) :
    filledVars (renMRS σ m) = (filledVars m).map σ := by
  rw [filledVars_eq, filledVars_eq, rawVars_ren]
  exact eraseDups_map_injOn σ _ _ (Nat.le_refl _) hσ

theorem iv_ren (σ : Var → Var) (e : EP) : (renEP σ e).iv = e.iv.map σ := by
  unfold EP.iv renEP
  exact dlookup_map_val INTRINSIC_ROLE e.args (fun _ v => σ v)

theorem isQuantifier_ren (σ : Var → Var) (e : EP) : (renEP σ e).isQuantifier = e.isQuantifier := by
  simp [EP.isQuantifier, renEP, List.any_map, Function.comp_def]

theorem label_mem_raw {m : MRS} {e : EP} (he : e ∈ m.rels) : e.label ∈ rawVars m := by
  simp only [rawVars, List.mem_append, List.mem_flatMap]
  exact Or.inl (Or.inl (Or.inr ⟨e, he, List.mem_cons_self⟩))

theorem arg_mem_raw {m : MRS} {e : EP} (he : e ∈ m.rels) {a : Role × Var} (ha : a ∈ e.args) :
    a.2 ∈ rawVars m := by
  simp only [rawVars, List.mem_append, List.mem_flatMap]
  exact Or.inl (Or.inl (Or.inr ⟨e, he, List.mem_cons_of_mem _ (List.mem_map.2 ⟨a, ha, rfl⟩)⟩))

theorem iv_mem_raw {m : MRS} {e : EP} (he : e ∈ m.rels) {v : Var} (hv : e.iv = some v) : v ∈ rawVars m := by
  have := dlookup_mem hv
  exact arg_mem_raw he this

theorem nodup_of_nodup_map {α β : Type} (f : α → β) : ∀ (l : List α), (l.map f).Nodup → l.Nodup := by
  intro l
  induction l with
  | nil => intro _; simp
  | cons a l ih =>
    intro h
    rw [List.map_cons, List.nodup_cons] at h
    rw [List.nodup_cons]
    exact ⟨fun ha => h.1 (List.mem_map.2 ⟨a, ha, rfl⟩), ih h.2⟩

theorem NamesOK.simple {m : MRS} (h : NamesOK m) : SimpleIds m := by
  have : ((m.rels.map EP.baseId).map vstr).Nodup := by simpa [List.map_map, Function.comp_def] using h.ids
  exact nodup_of_nodup_map vstr _ this

theorem NamesOK.rows {m : MRS} (h : NamesOK m) : rowsOK m = true := by
  simp only [rowsOK, Bool.and_eq_true, decide_eq_true_eq, List.all_eq_true, bne_iff_ne, ne_eq]
  rw [preds_of_simple h.simple]
  refine ⟨by simpa [List.map_map, Function.comp_def] using h.ids, ?_⟩
  intro p hp q hq
  obtain ⟨e, he, rfl⟩ := List.mem_map.1 hp
  obtain ⟨e', he', rfl⟩ := List.mem_map.1 hq
  exact h.lblId e he e' he'

/-- the node renaming induced by `σ`: variable names by `σ`, predication ids positionally -/
def renTable (σ : Var → Var) (m : MRS) : List (Node × Node) :=
  (filledVars m).map (fun v => (vstr v, vstr (σ v)))
    ++ m.rels.map (fun e => (vstr e.baseId, vstr (renEP σ e).baseId))

def renNode (σ : Var → Var) (m : MRS) (s : Node) : Node := (dlookup s (renTable σ m)).getD s

theorem renNode_var {σ : Var → Var} {m : MRS} (h : NamesOK m) {v : Var} (hv : v ∈ filledVars m) :
    renNode σ m (vstr v) = vstr (σ v) := by
  unfold renNode renTable
  rw [dlookup_append]
  have : dlookup (vstr v) ((filledVars m).map (fun v => (vstr v, vstr (σ v)))) = some (vstr (σ v)) := by
    apply dlookup_of_mem_nodup
    · simpa [dkeys, List.map_map, Function.comp_def] using h.vars
    · exact List.mem_map.2 ⟨v, hv, rfl⟩
  simp [this]

theorem baseId_nonquant {e : EP} {v : Var} (hq : e.isQuantifier = false) (hv : e.iv = some v) :
    e.baseId = v := by
  simp [EP.baseId, hq, hv]

theorem renNode_id {σ : Var → Var} {m : MRS} (h : NamesOK m) {e : EP} (he : e ∈ m.rels) :
    renNode σ m (vstr e.baseId) = vstr (renEP σ e).baseId := by
  unfold renNode renTable
  rw [dlookup_append]
  cases hl : dlookup (vstr e.baseId) ((filledVars m).map (fun v => (vstr v, vstr (σ v)))) with
  | some x =>
    simp only [Option.getD_some]
    obtain ⟨v', hv', hpair⟩ := List.mem_map.1 (dlookup_mem hl)
    simp only [Prod.mk.injEq] at hpair
    obtain ⟨hk, rfl⟩ := hpair
    obtain ⟨hq, hiv⟩ := h.idVar e he (List.mem_map.2 ⟨v', hv', hk⟩)
    obtain ⟨v, hv⟩ := Option.isSome_iff_exists.1 hiv
    have hb := baseId_nonquant hq hv
    have hvm : v ∈ filledVars m := mem_filledVars_raw.2 (iv_mem_raw he hv)
    have hvv : v' = v := map_eq_of_nodup_map vstr id _ h.vars v' hv' v hvm (by rw [hk, hb])
    subst hvv
    have hb' : (renEP σ e).baseId = σ v' :=
      baseId_nonquant (by rw [isQuantifier_ren]; exact hq) (by rw [iv_ren, hv]; rfl)
    rw [hb']
  | none =>
    have : dlookup (vstr e.baseId) (m.rels.map (fun e => (vstr e.baseId, vstr (renEP σ e).baseId)))
        = some (vstr (renEP σ e).baseId) := by
      apply dlookup_of_mem_nodup
      · simpa [dkeys, List.map_map, Function.comp_def] using h.ids
      · exact List.mem_map.2 ⟨e, he, rfl⟩
    simp [this]

/-- all node names of the encoding graph of `m` (given `SimpleIds`) -/
def nodeNames (m : MRS) : List Node :=
  (filledVars m).map vstr ++ m.rels.map (fun e => vstr e.baseId)

theorem mem_nodeNames {m : MRS} {x : Node} :
    x ∈ nodeNames m ↔ ((∃ v ∈ filledVars m, vstr v = x) ∨ (∃ e ∈ m.rels, vstr e.baseId = x)) := by
  simp [nodeNames]

theorem keys_eq_nodeNames {properties : Bool} {m : MRS} {g : IsoGraph} (hs : SimpleIds m)
    (hg : mkIsoGraph properties m = .ok g) (k : Node) : k ∈ dkeys g ↔ k ∈ nodeNames m := by
  rw [mkIsoGraph_keys hg, mem_keys_initGraph, ids_of_simple hs, mem_nodeNames]
  constructor
  · rintro (h | ⟨i, hi, rfl⟩)
    · exact Or.inl h
    · obtain ⟨e, he, rfl⟩ := List.mem_map.1 hi
      exact Or.inr ⟨e, he, rfl⟩
  · rintro (h | ⟨e, he, rfl⟩)
    · exact Or.inl h
    · exact Or.inr ⟨e.baseId, List.mem_map.2 ⟨e, he, rfl⟩, rfl⟩

theorem renNode_inj {σ : Var → Var} {m : MRS} (h : NamesOK m) (h' : NamesOK (renMRS σ m))
    (hσ : ∀ x ∈ rawVars m, ∀ y ∈ rawVars m, σ x = σ y → x = y) :
    ∀ x ∈ nodeNames m, ∀ y ∈ nodeNames m, renNode σ m x = renNode σ m y → x = y := by
  have hfv := filledVars_ren hσ
  have hvar' : ∀ v ∈ filledVars m, σ v ∈ filledVars (renMRS σ m) := by
    intro v hv; rw [hfv]; exact List.mem_map.2 ⟨v, hv, rfl⟩
  have hrel' : ∀ e ∈ m.rels, renEP σ e ∈ (renMRS σ m).rels := by
    intro e he; exact List.mem_map.2 ⟨e, he, rfl⟩
  -- variable vs variable
  have vv : ∀ v ∈ filledVars m, ∀ w ∈ filledVars m, vstr (σ v) = vstr (σ w) → v = w := by
    intro v hv w hw e
    have := map_eq_of_nodup_map vstr id _ h'.vars (σ v) (hvar' v hv) (σ w) (hvar' w hw) e
    exact hσ v (mem_filledVars_raw.1 hv) w (mem_filledVars_raw.1 hw) this
  -- variable vs predication id
  have vi : ∀ v ∈ filledVars m, ∀ e ∈ m.rels, vstr (σ v) = vstr (renEP σ e).baseId → vstr v = vstr e.baseId := by
    intro v hv e he heq
    have hin : vstr (renEP σ e).baseId ∈ (filledVars (renMRS σ m)).map vstr :=
      List.mem_map.2 ⟨σ v, hvar' v hv, heq⟩
    obtain ⟨hq, hiv⟩ := h'.idVar _ (hrel' e he) hin
    rw [isQuantifier_ren] at hq
    rw [iv_ren] at hiv
    cases hu : e.iv with
    | none => simp [hu] at hiv
    | some u =>
      have hb := baseId_nonquant hq hu
      have hb' : (renEP σ e).baseId = σ u :=
        baseId_nonquant (by rw [isQuantifier_ren]; exact hq) (by rw [iv_ren, hu]; rfl)
      rw [hb'] at heq
      have hum : u ∈ filledVars m := mem_filledVars_raw.2 (iv_mem_raw he hu)
      rw [hb, vv v hv u hum heq]
  -- predication id vs predication id
  have ii : ∀ e ∈ m.rels, ∀ e2 ∈ m.rels, vstr (renEP σ e).baseId = vstr (renEP σ e2).baseId →
      vstr e.baseId = vstr e2.baseId := by
    intro e he e2 he2 heq
    have hnd : (m.rels.map (fun e => vstr (renEP σ e).baseId)).Nodup := by
      have := h'.ids
      simpa [renMRS, List.map_map, Function.comp_def] using this
    exact map_eq_of_nodup_map _ (fun e => vstr e.baseId) _ hnd e he e2 he2 heq
  intro x hx y hy hxy
  rcases mem_nodeNames.1 hx with ⟨v, hv, rfl⟩ | ⟨e, he, rfl⟩
  · rcases mem_nodeNames.1 hy with ⟨w, hw, rfl⟩ | ⟨e2, he2, rfl⟩
    · rw [renNode_var h hv, renNode_var h hw] at hxy
      rw [vv v hv w hw hxy]
    · rw [renNode_var h hv, renNode_id h he2] at hxy
      exact vi v hv e2 he2 hxy
  · rcases mem_nodeNames.1 hy with ⟨w, hw, rfl⟩ | ⟨e2, he2, rfl⟩
    · rw [renNode_id h he, renNode_var h hw] at hxy
      exact (vi w hw e he hxy.symm).symm
    · rw [renNode_id h he, renNode_id h he2] at hxy
      exact ii e he e2 he2 hxy

theorem dset_map_key_inj {ν : Type} (ρ : Node → Node) (k : Node) (v : ν) :
    ∀ (d : List (Node × ν)), (∀ x ∈ dkeys d, ρ x = ρ k → x = k) →
      dset (ρ k) v (d.map (fun p => (ρ p.1, p.2))) = (dset k v d).map (fun p => (ρ p.1, p.2)) := by
  intro d
  induction d with
  | nil => intro _; rfl
  | cons e d ih =>
    intro h
    obtain ⟨k', v'⟩ := e
    by_cases hk : k' = k
    · subst hk; simp [dset]
    · have hne : ¬ ρ k' = ρ k := fun e => hk (h k' (by simp [dkeys]) e)
      simp only [List.map_cons, dset, if_neg hk, if_neg hne]
      rw [ih (fun x hx => h x (by simp only [dkeys, List.map_cons, List.mem_cons]; exact Or.inr hx))]

theorem argWrites_ren (σ : Var → Var) (ρ : Node → Node) (N : List Node) (id : Node)
    (hinj : ∀ x ∈ N, ∀ y ∈ N, ρ x = ρ y → x = y) :
    ∀ (args : List (Role × Var)) (d : List (Node × Label)),
      (∀ a ∈ args, vstr a.2 ∈ N ∧ ρ (vstr a.2) = vstr (σ a.2)) → (∀ x ∈ dkeys d, x ∈ N) →
      argWrites (ρ id) (args.map (fun a => (a.1, σ a.2))) (d.map (fun p => (ρ p.1, p.2)))
        = (argWrites id args d).map (mapW ρ) := by
  intro args
  induction args with
  | nil => intro d _ _; rfl
  | cons a rest ih =>
    intro d hargs hd
    obtain ⟨haN, haρ⟩ := hargs a List.mem_cons_self
    simp only [List.map_cons, argWrites]
    have hl : dlookup (vstr (σ a.2)) (d.map (fun p => (ρ p.1, p.2))) = dlookup (vstr a.2) d := by
      rw [← haρ]
      exact dlookup_map_key_inj ρ d (vstr a.2) (fun x hx e => hinj x (hd x hx) _ haN e)
    rw [hl]
    have hds : dset (vstr (σ a.2)) (mergeRole ((dlookup (vstr a.2) d).getD []) a.1) (d.map (fun p => (ρ p.1, p.2)))
        = (dset (vstr a.2) (mergeRole ((dlookup (vstr a.2) d).getD []) a.1) d).map (fun p => (ρ p.1, p.2)) := by
      rw [← haρ]
      exact dset_map_key_inj ρ _ _ d (fun x hx e => hinj x (hd x hx) _ haN e)
    rw [hds, ih _ (fun b hb => hargs b (List.mem_cons_of_mem _ hb))
      (fun x hx => by
        rcases mem_dkeys_dset.1 hx with rfl | hx
        · exact haN
        · exact hd x hx)]
    simp only [mapW, mapPos, Option.map_some, haρ]

theorem props_ren {σ : Var → Var} {m : MRS} (hσ : ∀ x ∈ rawVars m, ∀ y ∈ rawVars m, σ x = σ y → x = y)
    {v : Var} (hv : v ∈ rawVars m) : (renMRS σ m).props (σ v) = m.props v := by
  unfold MRS.props renMRS
  simp only
  rw [dlookup_map_key_inj σ m.variables v]
  intro x hx e
  apply hσ x _ v hv e
  simp only [rawVars, List.mem_append]
  exact Or.inl (Or.inl (Or.inl (Or.inl (Or.inl hx))))

theorem epNodeLabel_ren (properties : Bool) {σ : Var → Var} {m : MRS}
    (hσ : ∀ x ∈ rawVars m, ∀ y ∈ rawVars m, σ x = σ y → x = y) {e : EP} (he : e ∈ m.rels) :
    epNodeLabel properties (renMRS σ m) (renEP σ e) = epNodeLabel properties m e := by
  unfold epNodeLabel
  rw [iv_ren]
  cases hv : e.iv with
  | none => rfl
  | some v =>
    simp only [Option.map_some, props_ren hσ (iv_mem_raw he hv)]
    rfl

theorem flatMap_congr_mem {α β : Type} (f g : α → List β) : ∀ (l : List α), (∀ a ∈ l, f a = g a) →
    l.flatMap f = l.flatMap g := by
  intro l
  induction l with
  | nil => intro _; rfl
  | cons a l ih =>
    intro h
    rw [List.flatMap_cons, List.flatMap_cons, h a List.mem_cons_self,
      ih (fun b hb => h b (List.mem_cons_of_mem _ hb))]

theorem epWrites_ren (properties : Bool) {σ : Var → Var} {m : MRS} (h : NamesOK m)
    (h' : NamesOK (renMRS σ m)) (hσ : ∀ x ∈ rawVars m, ∀ y ∈ rawVars m, σ x = σ y → x = y)
    {e : EP} (he : e ∈ m.rels) :
    epWrites properties (renMRS σ m) ((renEP σ e).baseId, renEP σ e)
      = (epWrites properties m (e.baseId, e)).map (mapW (renNode σ m)) := by
  have hinj := renNode_inj h h' hσ
  have hv : ∀ v ∈ rawVars m, renNode σ m (vstr v) = vstr (σ v) ∧ vstr v ∈ nodeNames m := by
    intro v hv
    have hvm := mem_filledVars_raw.2 hv
    exact ⟨renNode_var h hvm, mem_nodeNames.2 (Or.inl ⟨v, hvm, rfl⟩)⟩
  have hid := renNode_id (σ := σ) h he
  have hlbl := (hv e.label (label_mem_raw he)).1
  have hlab := epNodeLabel_ren properties hσ he
  have hargs := argWrites_ren σ (renNode σ m) (nodeNames m) (vstr e.baseId) hinj e.args []
    (fun a ha => ⟨(hv a.2 (arg_mem_raw he ha)).2, (hv a.2 (arg_mem_raw he ha)).1⟩)
    (by intro x hx; cases hx)
  simp only [List.map_nil, hid] at hargs
  show ((vstr (σ e.label), some (vstr (renEP σ e).baseId)), eqScope)
      :: ((vstr (renEP σ e).baseId, none), epNodeLabel properties (renMRS σ m) (renEP σ e))
      :: argWrites (vstr (renEP σ e).baseId) (e.args.map (fun a => (a.1, σ a.2))) []
    = (((vstr e.label, some (vstr e.baseId)), eqScope)
      :: ((vstr e.baseId, none), epNodeLabel properties m e)
      :: argWrites (vstr e.baseId) e.args []).map (mapW (renNode σ m))
  rw [hargs, hlab]
  simp only [List.map_cons, mapW, mapPos, Option.map_some, Option.map_none, hid, hlbl]

/-- the writes of the renamed MRS are the writes of the original, with every node renamed -/
theorem allWrites_ren (properties : Bool) {σ : Var → Var} {m : MRS} (h : NamesOK m)
    (h' : NamesOK (renMRS σ m)) (hσ : ∀ x ∈ rawVars m, ∀ y ∈ rawVars m, σ x = σ y → x = y) :
    allWrites properties (renMRS σ m) = (allWrites properties m).map (mapW (renNode σ m)) := by
  have hv : ∀ v ∈ rawVars m, renNode σ m (vstr v) = vstr (σ v) := by
    intro v hv
    exact renNode_var h (mem_filledVars_raw.2 hv)
  have hrels : (renMRS σ m).rels = m.rels.map (renEP σ) := rfl
  have hhcs : (renMRS σ m).hcons = m.hcons.map (fun h => ⟨σ h.hi, h.rel, σ h.lo⟩) := rfl
  have hics : (renMRS σ m).icons = m.icons.map (fun c => ⟨σ c.left, c.rel, σ c.right⟩) := rfl
  unfold allWrites
  rw [preds_of_simple h.simple, preds_of_simple h'.simple, hrels, hhcs, hics]
  simp only [List.map_append, List.map_flatMap, List.map_map, List.flatMap_map]
  congr 1
  · congr 1
    · apply flatMap_congr_mem
      intro e he
      exact epWrites_ren properties h h' hσ he
    · apply List.map_congr_left
      intro hc hhc
      have hhi : hc.hi ∈ rawVars m := by
        simp only [rawVars, List.mem_append, List.mem_flatMap]
        exact Or.inl (Or.inr ⟨hc, hhc, by simp⟩)
      have hlo : hc.lo ∈ rawVars m := by
        simp only [rawVars, List.mem_append, List.mem_flatMap]
        exact Or.inl (Or.inr ⟨hc, hhc, by simp⟩)
      simp only [Function.comp_apply, hcWrite, mapW, mapPos, Option.map_some, hv _ hhi, hv _ hlo]
  · apply List.map_congr_left
    intro c hc
    have hl : c.left ∈ rawVars m := by
      simp only [rawVars, List.mem_append, List.mem_flatMap]
      exact Or.inr ⟨c, hc, by simp⟩
    have hr : c.right ∈ rawVars m := by
      simp only [rawVars, List.mem_append, List.mem_flatMap]
      exact Or.inr ⟨c, hc, by simp⟩
    simp only [Function.comp_apply, icWrite, mapW, mapPos, Option.map_some, hv _ hl, hv _ hr]

theorem allWrites_posIn (properties : Bool) {m : MRS} (hs : SimpleIds m) :
    ∀ w ∈ allWrites properties m, PosIn (nodeNames m) w.1 := by
  have hvar : ∀ v ∈ rawVars m, vstr v ∈ nodeNames m := fun v hv =>
    mem_nodeNames.2 (Or.inl ⟨v, mem_filledVars_raw.2 hv, rfl⟩)
  intro w hw
  unfold allWrites at hw
  rw [preds_of_simple hs] at hw
  simp only [List.mem_append, List.mem_flatMap, List.mem_map] at hw
  rcases hw with (⟨p, ⟨e, he, rfl⟩, hw⟩ | ⟨hc, hhc, rfl⟩) | ⟨c, hc, rfl⟩
  · have hid : vstr e.baseId ∈ nodeNames m := mem_nodeNames.2 (Or.inr ⟨e, he, rfl⟩)
    have hpos : w.1 ∈ blockPos (.ep (e.baseId, e)) := by
      rw [← blockWrites_pos properties m]; exact List.mem_map.2 ⟨w, hw, rfl⟩
    simp only [blockPos, List.mem_cons, List.mem_map] at hpos
    rcases hpos with hp | hp | ⟨a, ha, hp⟩
    · rw [hp]; exact ⟨hvar _ (label_mem_raw he), by intro t ht; cases ht; exact hid⟩
    · rw [hp]; exact ⟨hid, by intro t ht; cases ht⟩
    · rw [← hp]; exact ⟨hid, by intro t ht; cases ht; exact hvar _ (arg_mem_raw he ha)⟩
  · have hhi : hc.hi ∈ rawVars m := by
      simp only [rawVars, List.mem_append, List.mem_flatMap]
      exact Or.inl (Or.inr ⟨hc, hhc, by simp⟩)
    have hlo : hc.lo ∈ rawVars m := by
      simp only [rawVars, List.mem_append, List.mem_flatMap]
      exact Or.inl (Or.inr ⟨hc, hhc, by simp⟩)
    exact ⟨hvar _ hhi, by intro t ht; cases ht; exact hvar _ hlo⟩
  · have hl : c.left ∈ rawVars m := by
      simp only [rawVars, List.mem_append, List.mem_flatMap]
      exact Or.inr ⟨c, hc, by simp⟩
    have hr : c.right ∈ rawVars m := by
      simp only [rawVars, List.mem_append, List.mem_flatMap]
      exact Or.inr ⟨c, hc, by simp⟩
    exact ⟨hvar _ hl, by intro t ht; cases ht; exact hvar _ hr⟩

/-- **Renaming equivariance of the encoding**: the encoding graph of the renamed MRS is isomorphic
to the encoding graph of the original, via `σ` on variable nodes and position on predication nodes -/
theorem rename_iso (properties : Bool) {σ : Var → Var} {m : MRS} (h : NamesOK m)
    (h' : NamesOK (renMRS σ m)) (hσ : ∀ x ∈ rawVars m, ∀ y ∈ rawVars m, σ x = σ y → x = y)
    {g g' : IsoGraph} (hg : mkIsoGraph properties m = .ok g)
    (hg' : mkIsoGraph properties (renMRS σ m) = .ok g') : IsIso g g' := by
  have hinj := renNode_inj h h' hσ
  have hkn := keys_eq_nodeNames h.simple hg
  have hkn' := keys_eq_nodeNames h'.simple hg'
  have hW := allWrites_ren properties h h' hσ
  have hposIn := allWrites_posIn properties (m := m) h.simple
  have hedge : ∀ pos : Pos, PosIn (nodeNames m) pos →
      edge g pos.1 pos.2 = edge g' (mapPos (renNode σ m) pos).1 (mapPos (renNode σ m) pos).2 := by
    intro pos hpos
    rw [mkIsoGraph_edge h.rows hg pos, mkIsoGraph_edge h'.rows hg' (mapPos (renNode σ m) pos), hW,
      lastW_map_inj hinj _ hposIn pos hpos]
  refine ⟨(dkeys g).map (fun n => (n, renNode σ m n)), ?_, ?_, ?_, ?_, ?_, ?_⟩
  · simpa [List.map_map, Function.comp_def] using (mkIsoGraph_wf hg).1
  · have : ((dkeys g).map (fun n => (n, renNode σ m n))).map (·.2) = (dkeys g).map (renNode σ m) := by
      simp [List.map_map, Function.comp_def]
    rw [this]
    exact nodup_map_of_injOn _ _ (mkIsoGraph_wf hg).1
      (fun x hx y hy e => hinj x ((hkn x).1 hx) y ((hkn y).1 hy) e)
  · intro n; simp [List.map_map, Function.comp_def]
  · intro k
    have hmap : ((dkeys g).map (fun n => (n, renNode σ m n))).map (·.2) = (dkeys g).map (renNode σ m) := by
      simp [List.map_map, Function.comp_def]
    rw [hmap, hkn' k, mem_nodeNames, filledVars_ren hσ]
    constructor
    · rintro (⟨v', hv', rfl⟩ | ⟨e', he', rfl⟩)
      · obtain ⟨v, hv, rfl⟩ := List.mem_map.1 hv'
        exact List.mem_map.2 ⟨vstr v, (hkn _).2 (mem_nodeNames.2 (Or.inl ⟨v, hv, rfl⟩)), renNode_var h hv⟩
      · obtain ⟨e, he, rfl⟩ := List.mem_map.1 he'
        exact List.mem_map.2 ⟨vstr e.baseId, (hkn _).2 (mem_nodeNames.2 (Or.inr ⟨e, he, rfl⟩)), renNode_id h he⟩
    · intro hk
      obtain ⟨n, hn, rfl⟩ := List.mem_map.1 hk
      rcases mem_nodeNames.1 ((hkn n).1 hn) with ⟨v, hv, rfl⟩ | ⟨e, he, rfl⟩
      · exact Or.inl ⟨σ v, List.mem_map.2 ⟨v, hv, rfl⟩, (renNode_var h hv).symm⟩
      · exact Or.inr ⟨renEP σ e, List.mem_map.2 ⟨e, he, rfl⟩, (renNode_id h he).symm⟩
  · intro p hp
    obtain ⟨n, hn, rfl⟩ := List.mem_map.1 hp
    exact hedge (n, none) ⟨(hkn n).1 hn, by intro t ht; cases ht⟩
  · intro p hp q hq
    obtain ⟨n, hn, rfl⟩ := List.mem_map.1 hp
    obtain ⟨k, hk, rfl⟩ := List.mem_map.1 hq
    exact hedge (n, some k) ⟨(hkn n).1 hn, by intro t ht; cases ht; exact (hkn k).1 hk⟩

theorem renamed_sizes {σ : Var → Var} {m : MRS}
    (hσ : ∀ x ∈ rawVars m, ∀ y ∈ rawVars m, σ x = σ y → x = y) : sizesDiffer m (renMRS σ m) = false := by
  simp only [sizesDiffer, Bool.or_eq_false_iff, bne_eq_false_iff_eq]
  refine ⟨⟨⟨?_, ?_⟩, ?_⟩, ?_⟩
  · simp [renMRS]
  · simp [renMRS]
  · simp [renMRS]
  · rw [filledVars_ren hσ]; simp

/-! ## §19 reading the graph back: predication nodes and their labels -/

theorem lastW_some_mem {W : List Write} {pos : Pos} {l : Label} {init : Option Label}
    (h : lastW W pos init = some l) : init = some l ∨ ∃ w ∈ W, w.1 = pos ∧ w.2 = l := by
  induction W generalizing init with
  | nil => exact Or.inl h
  | cons w W ih =>
    simp only [lastW, List.foldl_cons] at h
    rcases ih h with h1 | ⟨w', hw', hp, hl⟩
    · by_cases hw : w.1 = pos
      · simp only [hw, if_true, Option.some.injEq] at h1
        exact Or.inr ⟨w, List.mem_cons_self, hw, h1⟩
      · simp only [hw, if_false] at h1
        exact Or.inl h1
    · exact Or.inr ⟨w', List.mem_cons_of_mem _ hw', hp, hl⟩

theorem lastW_last {A B : List Write} {w : Write} (hB : ∀ w' ∈ B, w'.1 ≠ w.1) (init : Option Label) :
    lastW (A ++ w :: B) w.1 init = some w.2 := by
  rw [lastW_append]
  simp only [lastW, List.foldl_cons, if_true]
  exact lastW_not_mem hB _

/-- the writes under the key `None` are exactly the node labels of the predications -/
theorem none_write_mem {properties : Bool} {m : MRS} {w : Write} (hw : w ∈ allWrites properties m)
    (hn : w.1.2 = none) : ∃ q ∈ m.preds, w = ((vstr q.1, none), epNodeLabel properties m q.2) := by
  unfold allWrites at hw
  simp only [List.mem_append, List.mem_flatMap, List.mem_map] at hw
  rcases hw with (⟨q, hq, hw⟩ | ⟨hc, _, rfl⟩) | ⟨c, _, rfl⟩
  · simp only [epWrites, List.mem_cons] at hw
    rcases hw with rfl | rfl | hw
    · simp at hn
    · exact ⟨q, hq, rfl⟩
    · have hpos : w.1 ∈ (argWrites (vstr q.1) q.2.args []).map (·.1) := List.mem_map.2 ⟨w, hw, rfl⟩
      rw [argWrites_pos] at hpos
      obtain ⟨a, _, ha⟩ := List.mem_map.1 hpos
      rw [← ha] at hn; simp at hn
  · simp [hcWrite] at hn
  · simp [icWrite] at hn

/-- **Fact A**: the node of a predication carries its label under the key `None` -/
theorem edge_none_of_pred {properties : Bool} {m : MRS} {g : IsoGraph} (hrow : rowsOK m = true)
    (hg : mkIsoGraph properties m = .ok g) {q : Pred} (hq : q ∈ m.preds) :
    edge g (vstr q.1) none = some (epNodeLabel properties m q.2) := by
  have hr := hrow
  simp only [rowsOK, Bool.and_eq_true, decide_eq_true_eq] at hr
  have hnd := hr.1
  have e := mkIsoGraph_edge hrow hg (vstr q.1, none)
  simp only at e
  rw [e]
  obtain ⟨pre, post, hsplit⟩ := List.append_of_mem hq
  -- all writes = A ++ w :: B with w the label write of q
  have hW : allWrites properties m
      = (pre.flatMap (epWrites properties m) ++ [((vstr q.2.label, some (vstr q.1)), eqScope)])
        ++ ((vstr q.1, none), epNodeLabel properties m q.2)
          :: (argWrites (vstr q.1) q.2.args [] ++ post.flatMap (epWrites properties m)
              ++ m.hcons.map hcWrite ++ m.icons.map icWrite) := by
    unfold allWrites
    rw [hsplit]
    simp [List.flatMap_append, List.flatMap_cons, epWrites, List.append_assoc]
  rw [hW]
  apply lastW_last (w := ((vstr q.1, none), epNodeLabel properties m q.2))
  intro w' hw' heq
  -- a later write at (id, None) would be the label write of another predication with the same id
  simp only [List.mem_append] at hw'
  have hcol : w'.1.2 = none := by rw [heq]
  rcases hw' with ((hw' | hw') | hw') | hw'
  · have hpos : w'.1 ∈ (argWrites (vstr q.1) q.2.args []).map (·.1) := List.mem_map.2 ⟨w', hw', rfl⟩
    rw [argWrites_pos] at hpos
    obtain ⟨a, _, ha⟩ := List.mem_map.1 hpos
    rw [← ha] at hcol; simp at hcol
  · obtain ⟨q', hq', hw'⟩ := List.mem_flatMap.1 hw'
    simp only [epWrites, List.mem_cons] at hw'
    rw [hsplit] at hnd
    have hne : vstr q'.1 ≠ vstr q.1 := by
      intro e
      simp only [List.map_append, List.map_cons] at hnd
      have := (List.nodup_append.1 hnd).2.1
      rw [List.nodup_cons] at this
      exact this.1 (List.mem_map.2 ⟨q', hq', e⟩)
    rcases hw' with rfl | rfl | hw'
    · simp at hcol
    · exact hne (by simpa using congrArg Prod.fst heq)
    · have hpos : w'.1 ∈ (argWrites (vstr q'.1) q'.2.args []).map (·.1) := List.mem_map.2 ⟨w', hw', rfl⟩
      rw [argWrites_pos] at hpos
      obtain ⟨a, _, ha⟩ := List.mem_map.1 hpos
      rw [← ha] at hcol; simp at hcol
  · obtain ⟨hc, _, rfl⟩ := List.mem_map.1 hw'
    simp [hcWrite] at hcol
  · obtain ⟨c, _, rfl⟩ := List.mem_map.1 hw'
    simp [icWrite] at hcol

/-- **Fact B**: only predication nodes have an entry under `None` -/
theorem pred_of_edge_none {properties : Bool} {m : MRS} {g : IsoGraph} (hrow : rowsOK m = true)
    (hg : mkIsoGraph properties m = .ok g) {u : Node} {l : Label} (h : edge g u none = some l) :
    ∃ q ∈ m.preds, u = vstr q.1 := by
  have e := mkIsoGraph_edge hrow hg (u, none)
  simp only at e
  rw [e] at h
  rcases lastW_some_mem h with h0 | ⟨w, hw, hp, _⟩
  · cases h0
  · obtain ⟨q, hq, rfl⟩ := none_write_mem hw (by rw [hp])
    exact ⟨q, hq, by simpa using (congrArg Prod.fst hp).symm⟩

theorem pred_id_mem_keys {properties : Bool} {m : MRS} {g : IsoGraph}
    (hg : mkIsoGraph properties m = .ok g) {q : Pred} (hq : q ∈ m.preds) : vstr q.1 ∈ dkeys g := by
  rw [mkIsoGraph_keys hg]
  exact initGraph_has_id (List.of_mem_zip (show (q.1, q.2) ∈ m.ids.zip m.rels from hq)).1

/-- **Faithfulness for node labels (partial form of "a graph isomorphism reads back as an MRS
isomorphism").**  An isomorphism of the encoding graphs maps predication nodes onto predication nodes
and preserves their labels, so the two MRSs have the same multiset of (normalised predicate,
constant, property string when requested). -/
theorem labels_perm {properties : Bool} {m1 m2 : MRS} {g1 g2 : IsoGraph} {μ : Mapping}
    (hr1 : rowsOK m1 = true) (hr2 : rowsOK m2 = true)
    (hg1 : mkIsoGraph properties m1 = .ok g1) (hg2 : mkIsoGraph properties m2 = .ok g2)
    (h : IsIsoVia μ g1 g2) :
    (m1.preds.map (fun q => epNodeLabel properties m1 q.2)).Perm
      (m2.preds.map (fun q => epNodeLabel properties m2 q.2)) := by
  let f : Node → Node := fun n => (dlookup n μ).getD n
  have hnd1 : (m1.preds.map (fun q => vstr q.1)).Nodup := by
    have := hr1; simp only [rowsOK, Bool.and_eq_true, decide_eq_true_eq] at this; exact this.1
  have hnd2 : (m2.preds.map (fun q => vstr q.1)).Nodup := by
    have := hr2; simp only [rowsOK, Bool.and_eq_true, decide_eq_true_eq] at this; exact this.1
  -- every predication node of m1 is mapped, label preserved
  have hf : ∀ q ∈ m1.preds, (vstr q.1, f (vstr q.1)) ∈ μ
      ∧ edge g2 (f (vstr q.1)) none = some (epNodeLabel properties m1 q.2) := by
    intro q hq
    have hk : vstr q.1 ∈ μ.map (·.1) := (h.total _).1 (pred_id_mem_keys hg1 hq)
    have hm := apply_of_mem_keys h.functional hk
    refine ⟨hm, ?_⟩
    rw [← h.nodeLabel _ hm]
    exact edge_none_of_pred hr1 hg1 hq
  have hperm : ((m1.preds.map (fun q => vstr q.1)).map f).Perm (m2.preds.map (fun q => vstr q.1)) := by
    rw [List.perm_ext_iff_of_nodup _ hnd2]
    · intro a
      constructor
      · intro ha
        obtain ⟨n, hn, rfl⟩ := List.mem_map.1 ha
        obtain ⟨q, hq, rfl⟩ := List.mem_map.1 hn
        obtain ⟨q2, hq2, he⟩ := pred_of_edge_none hr2 hg2 (hf q hq).2
        rw [he]; exact List.mem_map.2 ⟨q2, hq2, rfl⟩
      · intro ha
        obtain ⟨q2, hq2, rfl⟩ := List.mem_map.1 ha
        obtain ⟨⟨n, b⟩, hp, hpb⟩ := List.mem_map.1 ((h.onto _).1 (pred_id_mem_keys hg2 hq2))
        simp only at hpb; subst hpb
        have hl : edge g1 n none = some (epNodeLabel properties m2 q2.2) := by
          rw [h.nodeLabel _ hp]; exact edge_none_of_pred hr2 hg2 hq2
        obtain ⟨q, hq, rfl⟩ := pred_of_edge_none hr1 hg1 hl
        have hfn : f (vstr q.1) = vstr q2.1 := by
          have : dlookup (vstr q.1) μ = some (vstr q2.1) :=
            dlookup_of_mem_nodup (by simpa [dkeys] using h.functional) hp
          simp [f, this]
        rw [← hfn]
        exact List.mem_map.2 ⟨vstr q.1, List.mem_map.2 ⟨q, hq, rfl⟩, rfl⟩
    · apply nodup_map_of_injOn f _ hnd1
      intro x hx y hy hxy
      obtain ⟨q, hq, rfl⟩ := List.mem_map.1 hx
      obtain ⟨q', hq', rfl⟩ := List.mem_map.1 hy
      have a := (hf q hq).1
      have b := (hf q' hq').1
      rw [hxy] at a
      exact pair_snd_unique h.injective a b
  have hmap := hperm.map (fun n => edge g2 n none)
  have e1 : ((m1.preds.map (fun q => vstr q.1)).map f).map (fun n => edge g2 n none)
      = m1.preds.map (fun q => some (epNodeLabel properties m1 q.2)) := by
    rw [List.map_map, List.map_map]
    apply List.map_congr_left
    intro q hq
    exact (hf q hq).2
  have e2 : (m2.preds.map (fun q => vstr q.1)).map (fun n => edge g2 n none)
      = m2.preds.map (fun q => some (epNodeLabel properties m2 q.2)) := by
    rw [List.map_map]
    apply List.map_congr_left
    intro q hq
    exact edge_none_of_pred hr2 hg2 hq
  rw [e1, e2] at hmap
  have := hmap.filterMap id
  simpa [List.filterMap_map, Function.comp_def] using this

/-- the Boolean form evaluated by the driver on every generated case implies `NamesOK` -/
theorem namesOK_of_b {m : MRS} (h : namesOKb m = true) : NamesOK m := by
  simp only [namesOKb, Bool.and_eq_true, decide_eq_true_eq, List.all_eq_true, Bool.or_eq_true,
    Bool.not_eq_true', bne_iff_ne, ne_eq] at h
  obtain ⟨⟨⟨h1, h2⟩, h3⟩, h4⟩ := h
  refine ⟨h1, h2, ?_, fun e he e' he' => h4 e he e' he'⟩
  intro e he hmem
  rcases h3 e he with hc | hc
  · have : ((filledVars m).map vstr).contains (vstr e.baseId) = true := by simpa using hmem
    rw [this] at hc; cases hc
  · simpa using hc

theorem encodingHyps_spec {m : MRS} (h : encodingHyps m = true) :
    NamesOK m ∧ NoParallel m ∧ rowsOK m = true := by
  simp only [encodingHyps, Bool.and_eq_true, decide_eq_true_eq] at h
  exact ⟨namesOK_of_b h.1.1, h.1.2, h.2⟩

end Verif.C06
