/- C06 line-protocol driver: `lake env lean --run Verif/C06/Driver.lean` -/
import Verif.Common.Proto
import Verif.Common.SemJson
import Verif.C06.Model
import Verif.C06.Spec
import Verif.C06.Iter
open Lean Verif.Proto Verif.Sem Verif.C06

namespace Verif.C06.Driver

/-- what `dict(pairs)` keeps of a list of pairs (first position, last value) -/
def asDict {κ ν : Type} [DecidableEq κ] (l : List (κ × ν)) : List (κ × ν) :=
  l.foldl (fun d p => dset p.1 p.2 d) []

/-- the JSON converters of the harness build `args` and `variables` as Python dicts -/
def normMRS (m : MRS) : MRS :=
  { m with
    rels := m.rels.map (fun e => { e with args := asDict e.args })
    variables := asDict (m.variables.map (fun vp => (vp.1, asDict vp.2))) }

def jLabel (l : Label) : Json := Json.str (String.ofList l)

def jGraph (g : IsoGraph) : Json :=
  jList (fun p : Node × Adj =>
    Json.arr #[Json.str p.1,
      jList (fun e : Option Node × Label =>
        Json.arr #[(match e.1 with | none => Json.null | some t => Json.str t), jLabel e.2]) p.2]) g

def jMap (mp : Mapping) : Json :=
  jList (fun p : Node × Node => Json.arr #[Json.str p.1, Json.str p.2]) mp.reverse

/-- the mapping returned by the LOOP of `_vf2` (Iter.lean); PropsIter.vf2Iter_unique: it is `vf2 a1 a2` whenever
the fuel suffices -/
def loopMap (a1 a2 : IsoGraph) : Json :=
  match vf2Iter a1 a2 (2 ^ 40) with
  | some (.ok mp) => jMap mp
  | some (.error .keyError) => Json.str "loop:KeyError"
  | some (.error .indexError) => Json.str "loop:IndexError"
  | none => Json.str "loop:fuel"

/-- `sum(len(_vf2_new(mapping, g1, n)) for n in g1)` for the empty and for the returned mapping -/
def rnewSums (a1 : IsoGraph) (mp : Mapping) : List Nat :=
  [((dkeys a1).map (fun n => (vf2New (fun _ => false) a1 n).length)).sum,
   ((dkeys a1).map (fun n => (vf2New (fun x => (mget mp x).isSome) a1 n).length)).sum]

def isoAnswer (properties : Bool) (m1 m2 : MRS) : Except Err Json := do
  let g1 ← mkIsoGraph properties m1
  let g2 ← mkIsoGraph properties m2
  let a1 ← invMap g1
  let a2 ← invMap g2
  let verdict ← isIsomorphic properties m1 m2
  pure (Json.mkObj [
    ("iso", Json.bool verdict),
    ("map", loopMap a1 a2),
    ("rnew", jList jNat (rnewSums a1 (vf2 a1 a2))),
    ("g1", jGraph g1),
    ("a1", jGraph a1),
    ("clean", Json.bool (cleanGraph g1 && cleanGraph g2)),
    ("hyps", Json.bool (encodingHyps m1 && encodingHyps m2)),
    ("inspace", Json.bool (inSpaceb properties m1 && inSpaceb properties m2))])

def handle (j : Json) : Except String Json := do
  let op ← getStr j "op"
  match op with
  | "iso" => do
    let m1 := normMRS (← J.ofMRS (← j.getObjVal? "m1"))
    let m2 := normMRS (← J.ofMRS (← j.getObjVal? "m2"))
    let properties ← getBool j "props"
    match isoAnswer properties m1 m2 with
    | .ok r => pure r
    | .error e => pure (jErr (J.errTag e))
  | "bags" => do
    let test := (← (← getArr j "test").mapM J.ofMRS).map normMRS
    let gold := (← (← getArr j "gold").mapM J.ofMRS).map normMRS
    let properties ← getBool j "props"
    let iso := fun (a b : MRS) =>
      match isIsomorphic properties a b with
      | .ok v => v
      | .error _ => false
    let r := compareBags iso test gold
    pure (jList jNat [r.1, r.2.1, r.2.2])
  | "compare" => do
    -- `commands.compare`: one `compare_bags` (default arguments) per item
    let properties ← getBool j "props"
    let iso := fun (a b : MRS) =>
      match isIsomorphic properties a b with
      | .ok v => v
      | .error _ => false
    let items ← getArr j "items"
    let rows ← items.mapM (fun it => do
      let test := (← (← getArr it "test").mapM J.ofMRS).map normMRS
      let gold := (← (← getArr it "gold").mapM J.ofMRS).map normMRS
      let r := compareBags iso test gold
      pure (jList jNat [r.1, r.2.1, r.2.2]))
    pure (Json.arr rows.toArray)
  | _ => throw s!"bad op {op}"

end Verif.C06.Driver

def main : IO Unit := Verif.Proto.serve Verif.C06.Driver.handle
