/-
C06 — the stack machine of `util._vf2` (Iter.lean) computes the recursion `search` (Model.lean); helper lemmas.
Core Lean only.
-/
import Verif.C06.Lemmas
import Verif.C06.Iter

namespace Verif.C06
open Verif.Sem

/-! ## `_vf2_new` returns the empty set -/

theorem newScanStep_self (mapped : Node → Bool) (a : Node) (st : List Node × List Node)
    (e : Option Node × Label) : newScanStep mapped a a st e = st := by
  unfold newScanStep
  cases e.1 with
  | none => rfl
  | some a' => simp

theorem newScan_self (mapped : Node → Bool) (a : Node) (adjCur : Adj) (agenda new : List Node) :
    newScan mapped a a adjCur agenda new = (agenda, new) := by
  unfold newScan
  induction adjCur with
  | nil => rfl
  | cons e es ih => rw [List.foldl_cons, newScanStep_self]; exact ih

theorem vf2NewLoop_start (mapped : Node → Bool) (g : IsoGraph) (a : Node) (f : Nat) :
    vf2NewLoop mapped g a (f + 2) [a] [] = some [] := by
  simp [vf2NewLoop, newScan_self]

theorem vf2New_nil (mapped : Node → Bool) (g : IsoGraph) (a : Node) : vf2New mapped g a = [] := by
  unfold vf2New
  rw [vf2NewLoop_start]
  rfl

theorem feasibleCode_eq_feasible (mp : Mapping) (g1 g2 : IsoGraph) (n m : Node) :
    feasibleCode mp g1 g2 n m = feasible mp g1 g2 n m := by
  unfold feasibleCode feasible
  simp only [vf2New_nil, List.length_nil, bne]
  generalize ((dlookup none (adj g1 n)).getD [] == (dlookup none (adj g2 m)).getD []) = b1
  generalize ((adj g1 n).length == (adj g2 m).length) = b2
  generalize (dlookup (some n) (adj g1 n) == dlookup (some m) (adj g2 m)) = b3
  generalize consistent (mget mp) g1 g2 n m = b4
  generalize consistent (minv mp) g2 g1 m n = b5
  cases b1 <;> cases b2 <;> cases b3 <;> cases b4 <;> cases b5 <;> rfl

/-! ## the machine -/

/-- what `search` tries at one state: the candidates still in the list, in pop order -/
def tryList (g1 g2 : IsoGraph) (k : Nat) (mp : Mapping) (cs : List (Node × Node)) : Option Mapping :=
  cs.findSome? (fun c => if feasible mp g1 g2 c.1 c.2 then search g1 g2 k (c :: mp) else none)

theorem search_succ (g1 g2 : IsoGraph) (k : Nat) (mp : Mapping) :
    search g1 g2 (k + 1) mp = tryList g1 g2 k mp (candidates mp g1 g2) := by
  simp [search, tryList]

theorem tryList_cons_skip (g1 g2 : IsoGraph) (k : Nat) (mp : Mapping) (c : Node × Node) (cs : List (Node × Node))
    (hf : feasible mp g1 g2 c.1 c.2 = false) : tryList g1 g2 k mp (c :: cs) = tryList g1 g2 k mp cs := by
  simp [tryList, hf]

theorem tryList_cons_some (g1 g2 : IsoGraph) (k : Nat) (mp : Mapping) (c : Node × Node) (cs : List (Node × Node))
    (hf : feasible mp g1 g2 c.1 c.2 = true) {r : Mapping} (hr : search g1 g2 k (c :: mp) = some r) :
    tryList g1 g2 k mp (c :: cs) = some r := by
  simp [tryList, hf, hr]

theorem tryList_cons_none (g1 g2 : IsoGraph) (k : Nat) (mp : Mapping) (c : Node × Node) (cs : List (Node × Node))
    (hf : feasible mp g1 g2 c.1 c.2 = true) (hr : search g1 g2 k (c :: mp) = none) :
    tryList g1 g2 k mp (c :: cs) = tryList g1 g2 k mp cs := by
  simp [tryList, hf, hr]

/-- `s` halts with `r` -/
def Halts (g1 g2 : IsoGraph) (s : VState) (r : Except IterErr Mapping) : Prop :=
  ∃ n, ∀ f, iterRun g1 g2 (n + f) s = some r

/-- `s` reaches `s'` -/
def Reach (g1 g2 : IsoGraph) (s s' : VState) : Prop :=
  ∃ n, ∀ f, iterRun g1 g2 (n + f) s = iterRun g1 g2 f s'

theorem Reach.refl (g1 g2 : IsoGraph) (s : VState) : Reach g1 g2 s s := ⟨0, fun f => by rw [Nat.zero_add]⟩

theorem Reach.trans {g1 g2 : IsoGraph} {s s' s'' : VState} (h : Reach g1 g2 s s') (h' : Reach g1 g2 s' s'') :
    Reach g1 g2 s s'' := by
  obtain ⟨n, hn⟩ := h
  obtain ⟨n', hn'⟩ := h'
  exact ⟨n + n', fun f => by rw [Nat.add_assoc, hn, hn']⟩

theorem Reach.halts {g1 g2 : IsoGraph} {s s' : VState} {r : Except IterErr Mapping}
    (h : Reach g1 g2 s s') (h' : Halts g1 g2 s' r) : Halts g1 g2 s r := by
  obtain ⟨n, hn⟩ := h
  obtain ⟨n', hn'⟩ := h'
  exact ⟨n + n', fun f => by rw [Nat.add_assoc, hn, hn']⟩

theorem reach_of_step {g1 g2 : IsoGraph} {s s' : VState} (h : step g1 g2 s = .next s') : Reach g1 g2 s s' :=
  ⟨1, fun f => by rw [Nat.add_comm, iterRun, h]⟩

theorem halts_of_step {g1 g2 : IsoGraph} {s : VState} {r : Except IterErr Mapping} (h : step g1 g2 s = .done r) :
    Halts g1 g2 s r :=
  ⟨1, fun f => by rw [Nat.add_comm, iterRun, h]⟩

/-- two states with the same next step behave alike -/
theorem reach_of_step_eq {g1 g2 : IsoGraph} {s s' : VState} (h : step g1 g2 s = step g1 g2 s') :
    ∀ f, iterRun g1 g2 f s = iterRun g1 g2 f s' := by
  intro f
  cases f with
  | zero => rfl
  | succ f => rw [iterRun, iterRun, h]

theorem delKey_cons_self (c : Node × Node) (mp : Mapping) (h : c.1 ∉ mp.map (·.1)) :
    delKey c.1 (c :: mp) = .ok mp := by
  unfold delKey
  have hf : (c :: mp).filter (fun p => p.1 != c.1) = mp := by
    rw [List.filter_cons]
    simp only [bne_self_eq_false, Bool.false_eq_true, if_false]
    apply List.filter_eq_self.2
    intro p hp
    have : p.1 ≠ c.1 := fun e => h (e ▸ List.mem_map_of_mem hp)
    simpa using this
  simp [hf]

theorem popFeasible_skip (mp : Mapping) (g1 g2 : IsoGraph) (c : Node × Node) (cs : List (Node × Node))
    (h : feasible mp g1 g2 c.1 c.2 = false) :
    popFeasible mp g1 g2 (c :: cs) = popFeasible mp g1 g2 cs := by
  simp [popFeasible, feasibleCode_eq_feasible, h]

theorem popFeasible_take (mp : Mapping) (g1 g2 : IsoGraph) (c : Node × Node) (cs : List (Node × Node))
    (h : feasible mp g1 g2 c.1 c.2 = true) :
    popFeasible mp g1 g2 (c :: cs) = some (c, cs) := by
  simp [popFeasible, feasibleCode_eq_feasible, h]

/-- The heart: at a state with `k + 1` pairs still to find whose candidate list is `cs`, the machine halts with
the mapping `search` finds through `cs`, or — when `search` finds none — comes back to the same state with the
candidate list exhausted. -/
theorem machine_tryList (g1 g2 : IsoGraph) : ∀ (k : Nat) (mp : Mapping) (cs : List (Node × Node))
    (prev : Option Node) (st : List (Option Node × List (Node × Node))),
    mp.length + (k + 1) = g2.length → (∀ c ∈ cs, c.1 ∉ mp.map (·.1)) →
    (∀ r, tryList g1 g2 k mp cs = some r → Halts g1 g2 ⟨mp, prev, cs, st⟩ (.ok r))
    ∧ (tryList g1 g2 k mp cs = none → Reach g1 g2 ⟨mp, prev, cs, st⟩ ⟨mp, prev, [], st⟩) := by
  intro k
  induction k with
  | zero =>
    intro mp cs
    induction cs with
    | nil =>
      intro prev st _ _
      exact ⟨fun r h => by simp [tryList] at h, fun _ => Reach.refl _ _ _⟩
    | cons c cs ih =>
      intro prev st hlen hun
      have hlt : mp.length < g2.length := by omega
      have hun' : ∀ c' ∈ cs, c'.1 ∉ mp.map (·.1) := fun c' hc' => hun c' (List.mem_cons_of_mem _ hc')
      cases hf : feasible mp g1 g2 c.1 c.2 with
      | false =>
        have hs : step g1 g2 ⟨mp, prev, c :: cs, st⟩ = step g1 g2 ⟨mp, prev, cs, st⟩ := by
          simp only [step, popFeasible_skip mp g1 g2 c cs hf]
        have ht : tryList g1 g2 0 mp (c :: cs) = tryList g1 g2 0 mp cs := tryList_cons_skip g1 g2 0 mp c cs hf
        obtain ⟨ih1, ih2⟩ := ih prev st hlen hun'
        refine ⟨fun r h => ?_, fun h => ?_⟩
        · obtain ⟨n, hn⟩ := ih1 r (ht ▸ h)
          exact ⟨n, fun f => by rw [reach_of_step_eq hs]; exact hn f⟩
        · obtain ⟨n, hn⟩ := ih2 (ht ▸ h)
          exact ⟨n, fun f => by rw [reach_of_step_eq hs]; exact hn f⟩
      | true =>
        have ht : tryList g1 g2 0 mp (c :: cs) = some (c :: mp) :=
          tryList_cons_some g1 g2 0 mp c cs hf (by simp [search])
        have hs : step g1 g2 ⟨mp, prev, c :: cs, st⟩
            = .next ⟨c :: mp, some c.1, candidates (c :: mp) g1 g2, (prev, cs) :: st⟩ := by
          simp only [step, hlt, if_true, popFeasible_take mp g1 g2 c cs hf]
        have hd : step g1 g2 ⟨c :: mp, some c.1, candidates (c :: mp) g1 g2, (prev, cs) :: st⟩
            = .done (.ok (c :: mp)) := by
          have : ¬ (c :: mp).length < g2.length := by simp only [List.length_cons]; omega
          simp only [step, this, if_false]
        refine ⟨fun r h => ?_, fun h => ?_⟩
        · rw [ht] at h
          cases h
          exact (reach_of_step hs).halts (halts_of_step hd)
        · rw [ht] at h
          cases h
  | succ k ihk =>
    intro mp cs
    induction cs with
    | nil =>
      intro prev st _ _
      exact ⟨fun r h => by simp [tryList] at h, fun _ => Reach.refl _ _ _⟩
    | cons c cs ih =>
      intro prev st hlen hun
      have hlt : mp.length < g2.length := by omega
      have hun' : ∀ c' ∈ cs, c'.1 ∉ mp.map (·.1) := fun c' hc' => hun c' (List.mem_cons_of_mem _ hc')
      cases hf : feasible mp g1 g2 c.1 c.2 with
      | false =>
        have hs : step g1 g2 ⟨mp, prev, c :: cs, st⟩ = step g1 g2 ⟨mp, prev, cs, st⟩ := by
          simp only [step, popFeasible_skip mp g1 g2 c cs hf]
        have ht : tryList g1 g2 (k + 1) mp (c :: cs) = tryList g1 g2 (k + 1) mp cs :=
          tryList_cons_skip g1 g2 (k + 1) mp c cs hf
        obtain ⟨ih1, ih2⟩ := ih prev st hlen hun'
        refine ⟨fun r h => ?_, fun h => ?_⟩
        · obtain ⟨n, hn⟩ := ih1 r (ht ▸ h)
          exact ⟨n, fun f => by rw [reach_of_step_eq hs]; exact hn f⟩
        · obtain ⟨n, hn⟩ := ih2 (ht ▸ h)
          exact ⟨n, fun f => by rw [reach_of_step_eq hs]; exact hn f⟩
      | true =>
        have hs : step g1 g2 ⟨mp, prev, c :: cs, st⟩
            = .next ⟨c :: mp, some c.1, candidates (c :: mp) g1 g2, (prev, cs) :: st⟩ := by
          simp only [step, hlt, if_true, popFeasible_take mp g1 g2 c cs hf]
        have hlen' : (c :: mp).length + (k + 1) = g2.length := by simp only [List.length_cons]; omega
        have hunc : ∀ c' ∈ candidates (c :: mp) g1 g2, c'.1 ∉ (c :: mp).map (·.1) :=
          fun c' hc' => (candidates_spec (c :: mp) g1 g2 c' hc').1
        obtain ⟨sub1, sub2⟩ := ihk (c :: mp) (candidates (c :: mp) g1 g2) (some c.1) ((prev, cs) :: st) hlen' hunc
        have hsrch : search g1 g2 (k + 1) (c :: mp) = tryList g1 g2 k (c :: mp) (candidates (c :: mp) g1 g2) :=
          search_succ g1 g2 k (c :: mp)
        cases hsub : tryList g1 g2 k (c :: mp) (candidates (c :: mp) g1 g2) with
        | some r' =>
          have ht : tryList g1 g2 (k + 1) mp (c :: cs) = some r' :=
            tryList_cons_some g1 g2 (k + 1) mp c cs hf (hsrch.trans hsub)
          refine ⟨fun r h => ?_, fun h => ?_⟩
          · rw [ht] at h
            cases h
            exact (reach_of_step hs).halts (sub1 r' hsub)
          · rw [ht] at h
            cases h
        | none =>
          have ht : tryList g1 g2 (k + 1) mp (c :: cs) = tryList g1 g2 (k + 1) mp cs :=
            tryList_cons_none g1 g2 (k + 1) mp c cs hf (hsrch.trans hsub)
          -- back from the exhausted child state to (mp, prev, cs, st)
          have hlt' : (c :: mp).length < g2.length := by simp only [List.length_cons]; omega
          have hback : step g1 g2 ⟨c :: mp, some c.1, [], (prev, cs) :: st⟩ = .next ⟨mp, prev, cs, st⟩ := by
            simp only [step, hlt', if_true, popFeasible, delKey_cons_self c mp (hun c List.mem_cons_self)]
          have hreach : Reach g1 g2 ⟨mp, prev, c :: cs, st⟩ ⟨mp, prev, cs, st⟩ :=
            ((reach_of_step hs).trans (sub2 hsub)).trans (reach_of_step hback)
          obtain ⟨ih1, ih2⟩ := ih prev st hlen hun'
          refine ⟨fun r h => ?_, fun h => ?_⟩
          · exact hreach.halts (ih1 r (ht ▸ h))
          · exact hreach.trans (ih2 (ht ▸ h))

/-- more fuel does not change the answer -/
theorem iterRun_mono (g1 g2 : IsoGraph) : ∀ (f : Nat) (s : VState) (r : Except IterErr Mapping),
    iterRun g1 g2 f s = some r → ∀ k, iterRun g1 g2 (f + k) s = some r := by
  intro f
  induction f with
  | zero => intro s r h; simp [iterRun] at h
  | succ f ih =>
    intro s r h k
    rw [Nat.add_right_comm, iterRun]
    rw [iterRun] at h
    cases hs : step g1 g2 s with
    | done r' => rw [hs] at h; exact h
    | next s' => rw [hs] at h; exact ih s' r h k

end Verif.C06
