/-
C06 — lemmas for the completeness of the matcher and for the exact (entry-preserving) form of
soundness.  Core Lean only.
  §6 lists and dictionaries      §7 counting the keys of an adjacency
  §8 keys of the augmented adjacency are distinct
-/
import Verif.C06.Lemmas
import Verif.C06.Spec

namespace Verif.C06
open Verif.Sem

/-! ## §6 lists and dictionaries -/

theorem nodup_map_of_injOn {α β : Type} (f : α → β) :
    ∀ (l : List α), l.Nodup → (∀ x ∈ l, ∀ y ∈ l, f x = f y → x = y) → (l.map f).Nodup := by
  intro l
  induction l with
  | nil => intro _ _; simp
  | cons a l ih =>
    intro hnd hinj
    obtain ⟨hal, hl⟩ := List.nodup_cons.1 hnd
    rw [List.map_cons, List.nodup_cons]
    refine ⟨?_, ih hl (fun x hx y hy => hinj x (List.mem_cons_of_mem _ hx) y (List.mem_cons_of_mem _ hy))⟩
    intro hmem
    obtain ⟨x, hx, hfx⟩ := List.mem_map.1 hmem
    have := hinj x (List.mem_cons_of_mem _ hx) a List.mem_cons_self hfx
    exact hal (this ▸ hx)

theorem mem_dset {κ ν : Type} [DecidableEq κ] {k : κ} {v : ν} {d : List (κ × ν)} {p : κ × ν}
    (h : p ∈ dset k v d) : p = (k, v) ∨ p ∈ d := by
  induction d with
  | nil => left; simpa [dset] using h
  | cons e d ih =>
    obtain ⟨k', v'⟩ := e
    by_cases hk : k' = k
    · simp only [dset, if_pos hk, List.mem_cons] at h
      rcases h with h | h
      · left; rw [h, hk]
      · right; exact List.mem_cons_of_mem _ h
    · simp only [dset, if_neg hk, List.mem_cons] at h
      rcases h with h | h
      · right; rw [h]; exact List.mem_cons_self
      · rcases ih h with h | h
        · left; exact h
        · right; exact List.mem_cons_of_mem _ h

/-- pairs of a list with distinct first components: the first component determines the pair -/
theorem pair_fst_unique {l : List (Node × Node)} (hnd : (l.map (·.1)).Nodup) {a b b' : Node}
    (h1 : (a, b) ∈ l) (h2 : (a, b') ∈ l) : b = b' := by
  have e1 := dlookup_of_mem_nodup (by simpa [dkeys] using hnd) h1
  have e2 := dlookup_of_mem_nodup (by simpa [dkeys] using hnd) h2
  rw [e1] at e2; exact Option.some.inj e2

theorem pair_snd_unique {l : List (Node × Node)} (hnd : (l.map (·.2)).Nodup) {a a' b : Node}
    (h1 : (a, b) ∈ l) (h2 : (a', b) ∈ l) : a = a' := by
  have hsw : ((l.map (fun p => (p.2, p.1))).map (·.1)).Nodup := by
    simpa [List.map_map, Function.comp_def] using hnd
  exact pair_fst_unique hsw (List.mem_map.2 ⟨(a, b), h1, rfl⟩) (List.mem_map.2 ⟨(a', b), h2, rfl⟩)

/-! ## §7 counting the keys of an adjacency -/

/-- the keys other than `None` -/
def someKeys (a : Adj) : List Node := a.filterMap (·.1)

/-- number of entries under the key `None` -/
def noneCount (a : Adj) : Nat := a.countP (fun e => e.1.isNone)

theorem length_split (a : Adj) : a.length = noneCount a + (someKeys a).length := by
  induction a with
  | nil => rfl
  | cons e a ih =>
    obtain ⟨t, l⟩ := e
    cases t with
    | none => simp [noneCount, someKeys] at ih ⊢; omega
    | some v => simp [noneCount, someKeys] at ih ⊢; omega

theorem mem_someKeys {a : Adj} {u : Node} : u ∈ someKeys a ↔ ∃ l, ((some u : Option Node), l) ∈ a := by
  unfold someKeys
  rw [List.mem_filterMap]
  constructor
  · rintro ⟨⟨t, l⟩, he, ht⟩
    simp only at ht
    subst ht
    exact ⟨l, he⟩
  · rintro ⟨l, he⟩
    exact ⟨(some u, l), he, rfl⟩

theorem mem_someKeys_iff_lookup {a : Adj} {u : Node} :
    u ∈ someKeys a ↔ (dlookup (some u) a).isSome = true := by
  rw [mem_someKeys, dlookup_isSome_iff]
  simp only [dkeys, List.mem_map]
  constructor
  · rintro ⟨l, he⟩; exact ⟨(some u, l), he, rfl⟩
  · rintro ⟨⟨t, l⟩, he, ht⟩
    simp only at ht; subst ht; exact ⟨l, he⟩

theorem someKeys_nodup {a : Adj} (h : (dkeys a).Nodup) : (someKeys a).Nodup := by
  induction a with
  | nil => simp [someKeys]
  | cons e a ih =>
    obtain ⟨t, l⟩ := e
    have h' : t ∉ dkeys a ∧ (dkeys a).Nodup := by simpa [dkeys] using h
    cases t with
    | none => simpa [someKeys] using ih h'.2
    | some v =>
      have : someKeys ((some v, l) :: a) = v :: someKeys a := by simp [someKeys]
      rw [this, List.nodup_cons]
      refine ⟨?_, ih h'.2⟩
      intro hv
      obtain ⟨l', hl'⟩ := mem_someKeys.1 hv
      exact h'.1 (List.mem_map.2 ⟨(some v, l'), hl', rfl⟩)

theorem noneCount_of_nodup {a : Adj} (h : (dkeys a).Nodup) :
    noneCount a = if (dlookup none a).isSome then 1 else 0 := by
  induction a with
  | nil => rfl
  | cons e a ih =>
    obtain ⟨t, l⟩ := e
    have h' : t ∉ dkeys a ∧ (dkeys a).Nodup := by simpa [dkeys] using h
    cases t with
    | none =>
      have hn : dlookup none a = none := (dlookup_eq_none_iff none a).2 h'.1
      have := ih h'.2
      rw [hn] at this
      simp [noneCount, dlookup] at this ⊢
      exact this
    | some v =>
      have := ih h'.2
      simp [noneCount, dlookup] at this ⊢
      exact this

/-- an injective relation that sends every key of `A1` to a key of `A2` -/
theorem someKeys_le {A1 A2 : Adj} (φ : Mapping) (hk : (dkeys A1).Nodup)
    (hfun : (φ.map (·.1)).Nodup) (hinj : (φ.map (·.2)).Nodup)
    (h : ∀ u ∈ someKeys A1, ∃ w, (u, w) ∈ φ ∧ w ∈ someKeys A2) :
    (someKeys A1).length ≤ (someKeys A2).length := by
  let f : Node → Node := fun u => (dlookup u φ).getD u
  have hf : ∀ u ∈ someKeys A1, (u, f u) ∈ φ ∧ f u ∈ someKeys A2 := by
    intro u hu
    obtain ⟨w, hw, hw2⟩ := h u hu
    have : dlookup u φ = some w := dlookup_of_mem_nodup (by simpa [dkeys] using hfun) hw
    have hfu : f u = w := by simp [f, this]
    rw [hfu]; exact ⟨hw, hw2⟩
  have hnd : ((someKeys A1).map f).Nodup := by
    apply nodup_map_of_injOn f _ (someKeys_nodup hk)
    intro x hx y hy hxy
    have h1 := (hf x hx).1
    have h2 := (hf y hy).1
    rw [hxy] at h1
    exact pair_snd_unique hinj h1 h2
  have := nodup_length_le_of_subset ((someKeys A1).map f) (someKeys A2) hnd (by
    intro a ha
    obtain ⟨u, hu, rfl⟩ := List.mem_map.1 ha
    exact (hf u hu).2)
  simpa using this

/-! ## §8 the keys of an augmented adjacency are distinct -/

theorem dkeys_incomingList (ks : List Node) (F : Node → Option Label) :
    dkeys (ks.filterMap (fun k => (F k).map (fun b => ((some k : Option Node), b))))
      = (ks.filter (fun k => (F k).isSome)).map some := by
  induction ks with
  | nil => rfl
  | cons k ks ih =>
    rw [List.filterMap_cons]
    cases hF : F k with
    | none =>
      simp only [Option.map_none]
      rw [ih, List.filter_cons]
      simp [hF]
    | some b =>
      simp only [Option.map_some]
      rw [List.filter_cons]
      simp only [hF, Option.isSome_some, if_true, List.map_cons]
      rw [← ih]
      rfl

theorem incoming_isSome {g : IsoGraph} {u v : Node} {adjU : Adj}
    (h : (incoming g u adjU v).isSome = true) : dlookup (some v) adjU = none := by
  unfold incoming at h
  by_cases hv : v = u
  · simp [hv] at h
  · simp only [if_neg hv] at h
    cases hl : dlookup (some v) adjU with
    | none => rfl
    | some x => simp [hl] at h

theorem augAdj_keys_nodup {g : IsoGraph} {u : Node} {adjU : Adj}
    (hg : (dkeys g).Nodup) (ha : (dkeys adjU).Nodup) : (dkeys (augAdj g u adjU)).Nodup := by
  have e1 : dkeys (adjU.map (fun e => (e.1, augLabel g u e.1 e.2))) = dkeys adjU := by
    simp [dkeys, List.map_map, Function.comp_def]
  have e0 : dkeys (augAdj g u adjU) = dkeys adjU
      ++ ((dkeys g).filter (fun k => (incoming g u adjU k).isSome)).map some := by
    unfold augAdj
    rw [← dkeys_incomingList, ← e1]
    simp [dkeys]
  rw [e0, List.nodup_append]
  refine ⟨ha, ?_, ?_⟩
  · exact nodup_map_of_injOn some _ (List.Nodup.sublist List.filter_sublist hg)
      (fun x _ y _ hxy => Option.some.inj hxy)
  · intro a haA b hb hab
    subst hab
    obtain ⟨v, hv, rfl⟩ := List.mem_map.1 hb
    have hv' := (List.mem_filter.1 hv).2
    have := incoming_isSome hv'
    exact (dlookup_eq_none_iff _ _).1 this haA

theorem adj_aug_keys_nodup {g : IsoGraph} (hwf : WFAdj g) (n : Node) :
    (dkeys (adj (invMapRaw g) n)).Nodup := by
  unfold adj
  rw [dlookup_invMapRaw]
  cases hN : dlookup n g with
  | none => simp [dkeys]
  | some adjN =>
    simp only [Option.map_some, Option.getD_some]
    exact augAdj_keys_nodup hwf.1 (hwf.2 (n, adjN) (dlookup_mem hN))

/-! ## §9 edges of the augmented graphs under a partial isomorphism -/

def swapM (φ : Mapping) : Mapping := φ.map (fun p => (p.2, p.1))

theorem mem_swapM {φ : Mapping} {a b : Node} : (a, b) ∈ swapM φ ↔ (b, a) ∈ φ := by
  unfold swapM
  rw [List.mem_map]
  constructor
  · rintro ⟨⟨x, y⟩, h, e⟩
    simp only [Prod.mk.injEq] at e
    obtain ⟨rfl, rfl⟩ := e
    exact h
  · intro h; exact ⟨(b, a), h, rfl⟩

theorem swapM_fst (φ : Mapping) : (swapM φ).map (·.1) = φ.map (·.2) := by
  simp [swapM, List.map_map, Function.comp_def]

theorem swapM_snd (φ : Mapping) : (swapM φ).map (·.2) = φ.map (·.1) := by
  simp [swapM, List.map_map, Function.comp_def]

theorem good_swap {g1 g2 : IsoGraph} {φ : Mapping} (h : Good g1 g2 φ) : Good g2 g1 (swapM φ) := by
  refine ⟨by rw [swapM_fst]; exact h.valsNodup, by rw [swapM_snd]; exact h.keysNodup, ?_, ?_, ?_, ?_⟩
  · rintro ⟨a, b⟩ hp; exact h.valsIn (b, a) (mem_swapM.1 hp)
  · rintro ⟨a, b⟩ hp; exact h.keysIn (b, a) (mem_swapM.1 hp)
  · rintro ⟨a, b⟩ hp; exact (h.nodeLbl (b, a) (mem_swapM.1 hp)).symm
  · rintro ⟨a, b⟩ hp ⟨c, d⟩ hq
    exact (h.edges (b, a) (mem_swapM.1 hp) (d, c) (mem_swapM.1 hq)).symm

theorem aug_edge_preserved {g1 g2 : IsoGraph} {φ : Mapping} (h : Good g1 g2 φ) {n m u w : Node}
    (hnm : (n, m) ∈ φ) (huw : (u, w) ∈ φ) :
    edge (invMapRaw g1) n (some u) = edge (invMapRaw g2) m (some w) := by
  have hn := h.keysIn _ hnm
  have hm := h.valsIn _ hnm
  by_cases hun : u = n
  · subst hun
    have : w = m := pair_fst_unique h.keysNodup huw hnm
    subst this
    rw [edge_aug_self, edge_aug_self]
    exact h.edges _ hnm _ hnm
  · have hwm : w ≠ m := fun e => hun (pair_snd_unique h.valsNodup (e ▸ huw) hnm)
    rw [edge_aug_ne g1 n u hn hun, edge_aug_ne g2 m w hm hwm]
    have e1 := h.edges _ hnm _ huw
    have e2 := h.edges _ huw _ hnm
    simp only at e1 e2
    rw [e1, e2]

theorem someKeys_aug_le {g1 g2 : IsoGraph} {φ : Mapping} (hc1 : closed g1 = true) (hwf1 : WFAdj g1)
    (h : Good g1 g2 φ) (htotal : ∀ n ∈ dkeys g1, n ∈ φ.map (·.1)) {n m : Node} (hnm : (n, m) ∈ φ) :
    (someKeys (adj (invMapRaw g1) n)).length ≤ (someKeys (adj (invMapRaw g2) m)).length := by
  apply someKeys_le φ (adj_aug_keys_nodup hwf1 n) h.keysNodup h.valsNodup
  intro u hu
  obtain ⟨l, hl⟩ := mem_someKeys.1 hu
  have hu1 : u ∈ dkeys g1 := closed_targets hc1 hl
  obtain ⟨⟨u', w⟩, hp, hpu⟩ := List.mem_map.1 (htotal u hu1)
  simp only at hpu
  subst hpu
  refine ⟨w, hp, ?_⟩
  rw [mem_someKeys_iff_lookup, edge_adj, ← aug_edge_preserved h hnm hp, ← edge_adj,
    ← mem_someKeys_iff_lookup]
  exact hu

theorem someKeys_aug_eq {g1 g2 : IsoGraph} {φ : Mapping} (hc1 : closed g1 = true) (hc2 : closed g2 = true)
    (hwf1 : WFAdj g1) (hwf2 : WFAdj g2) (h : Good g1 g2 φ)
    (htotal : ∀ n ∈ dkeys g1, n ∈ φ.map (·.1)) (honto : ∀ m ∈ dkeys g2, m ∈ φ.map (·.2))
    {n m : Node} (hnm : (n, m) ∈ φ) :
    (someKeys (adj (invMapRaw g1) n)).length = (someKeys (adj (invMapRaw g2) m)).length := by
  have a := someKeys_aug_le hc1 hwf1 h htotal hnm
  have b := someKeys_aug_le hc2 hwf2 (good_swap h) (by rw [swapM_fst]; exact honto) (mem_swapM.2 hnm)
  omega

theorem IsIsoVia.good {g1 g2 : IsoGraph} {φ : Mapping} (h : IsIsoVia φ g1 g2) : Good g1 g2 φ := by
  refine ⟨h.functional, h.injective, ?_, ?_, ?_, h.edgeLabel⟩
  · intro p hp; exact (h.total p.1).2 (List.mem_map.2 ⟨p, hp, rfl⟩)
  · intro p hp; exact (h.onto p.2).2 (List.mem_map.2 ⟨p, hp, rfl⟩)
  · intro p hp; rw [h.nodeLabel p hp]

/-! ## §10 completeness: under an isomorphism φ extending the current mapping, the pair
(φ⁻¹(m), m) for the chosen target m is a candidate and passes every feasibility test -/

theorem mem_insertNode_of {a x : Node} {l : List Node} (h : a = x ∨ a ∈ l) : a ∈ insertNode x l := by
  induction l with
  | nil => rcases h with h | h <;> simp_all [insertNode]
  | cons y ys ih =>
    unfold insertNode
    split
    · rcases h with h | h
      · simp [h]
      · exact List.mem_cons_of_mem _ h
    · split
      · rename_i hxy
        rcases h with h | h
        · rw [h, hxy]; exact List.mem_cons_self
        · exact h
      · rcases h with h | h
        · exact List.mem_cons_of_mem _ (ih (Or.inl h))
        · rcases List.mem_cons.1 h with h | h
          · rw [h]; exact List.mem_cons_self
          · exact List.mem_cons_of_mem _ (ih (Or.inr h))

theorem mem_sortDedup_of {a : Node} {l : List Node} (h : a ∈ l) : a ∈ sortDedup l := by
  induction l with
  | nil => cases h
  | cons x xs ih =>
    show a ∈ insertNode x (sortDedup xs)
    apply mem_insertNode_of
    rcases List.mem_cons.1 h with h | h
    · exact Or.inl h
    · exact Or.inr (ih h)

theorem mem_frontier' {g : IsoGraph} {mapped : List Node} {x : Node} (h : x ∈ frontier g mapped) :
    x ∉ mapped ∧ ∃ n, n ∈ mapped ∧ ∃ l, ((some x : Option Node), l) ∈ adj g n := by
  unfold frontier at h
  obtain ⟨n, hn, hx⟩ := List.mem_flatMap.1 h
  obtain ⟨e, he, hfe⟩ := List.mem_filterMap.1 hx
  obtain ⟨t, l⟩ := e
  cases t with
  | none => simp at hfe
  | some t =>
    simp at hfe
    obtain ⟨h1, rfl⟩ := hfe
    exact ⟨h1, n, hn, l, he⟩

theorem mem_frontier_of {g : IsoGraph} {mapped : List Node} {x n : Node} {l : Label}
    (hn : n ∈ mapped) (hx : x ∉ mapped) (he : ((some x : Option Node), l) ∈ adj g n) :
    x ∈ frontier g mapped := by
  unfold frontier
  refine List.mem_flatMap.2 ⟨n, hn, List.mem_filterMap.2 ⟨(some x, l), he, ?_⟩⟩
  simp [hx]

theorem consistent_of {look : Node → Option Node} {ga gb : IsoGraph} {a b : Node}
    (hk : (dkeys (adj ga a)).Nodup)
    (h : ∀ a' b' l, edge ga a (some a') = some l → look a' = some b' → edge gb b (some b') = some l) :
    consistent look ga gb a b = true := by
  unfold consistent
  rw [List.all_eq_true]
  rintro ⟨t, l⟩ he
  cases t with
  | none => rfl
  | some a' =>
    cases hl : look a' with
    | none => simp [hl]
    | some b' =>
      have h1 : edge ga a (some a') = some l := by
        rw [← edge_adj]; exact dlookup_of_mem_nodup hk he
      have h2 := h a' b' l h1 hl
      rw [← edge_adj] at h2
      simp [hl, h2]

/-- "extends to φ": the current mapping is part of φ -/
def Ext (φ mp : Mapping) : Prop := (∀ p ∈ mp, p ∈ φ) ∧ (mp.map (·.1)).Nodup

/-- every feasibility test is necessary under an isomorphism -/
theorem feasible_of_iso {g1 g2 : IsoGraph} {φ mp : Mapping}
    (hc1 : closed g1 = true) (hc2 : closed g2 = true) (hwf1 : WFAdj g1) (hwf2 : WFAdj g2)
    (h : IsIsoVia φ g1 g2) (hext : Ext φ mp) {n m : Node} (hnm : (n, m) ∈ φ) :
    feasible mp (invMapRaw g1) (invMapRaw g2) n m = true := by
  have hg := h.good
  have htotal : ∀ n ∈ dkeys g1, n ∈ φ.map (·.1) := fun n hn => (h.total n).1 hn
  have honto : ∀ m ∈ dkeys g2, m ∈ φ.map (·.2) := fun m hm => (h.onto m).1 hm
  have hnone : dlookup none (adj (invMapRaw g1) n) = dlookup none (adj (invMapRaw g2) m) := by
    rw [edge_adj, edge_adj, edge_aug_none, edge_aug_none]; exact h.nodeLabel _ hnm
  have hlen : (adj (invMapRaw g1) n).length = (adj (invMapRaw g2) m).length := by
    rw [length_split, length_split (adj (invMapRaw g2) m),
      noneCount_of_nodup (adj_aug_keys_nodup hwf1 n), noneCount_of_nodup (adj_aug_keys_nodup hwf2 m),
      hnone, someKeys_aug_eq hc1 hc2 hwf1 hwf2 hg htotal honto hnm]
  have hself : dlookup (some n) (adj (invMapRaw g1) n) = dlookup (some m) (adj (invMapRaw g2) m) := by
    rw [edge_adj, edge_adj]; exact aug_edge_preserved hg hnm hnm
  have hc4 : consistent (mget mp) (invMapRaw g1) (invMapRaw g2) n m = true := by
    apply consistent_of (adj_aug_keys_nodup hwf1 n)
    intro u w l he hl
    have hmem : (u, w) ∈ φ := hext.1 _ (dlookup_mem hl)
    rw [← aug_edge_preserved hg hnm hmem]; exact he
  have hc5 : consistent (minv mp) (invMapRaw g2) (invMapRaw g1) m n = true := by
    apply consistent_of (adj_aug_keys_nodup hwf2 m)
    intro w u l he hl
    have h1 : (w, u) ∈ mp.map (fun p => (p.2, p.1)) := dlookup_mem hl
    have hmem : (u, w) ∈ φ := hext.1 _ (mem_swapM.1 h1)
    rw [aug_edge_preserved hg hnm hmem]; exact he
  unfold feasible
  simp only [hnone, hlen, hself, hc4, hc5, beq_self_eq_true, Bool.and_self]

/-- the candidate list of the current state contains a pair of φ whose first component is unmapped -/
theorem candidate_of_iso {g1 g2 : IsoGraph} {φ mp : Mapping}
    (hc2 : closed g2 = true) (hwf2 : WFAdj g2)
    (h : IsIsoVia φ g1 g2) (hext : Ext φ mp) (hlt : mp.length < (invMapRaw g2).length) :
    ∃ c ∈ candidates mp (invMapRaw g1) (invMapRaw g2), c ∈ φ ∧ c.1 ∉ mp.map (·.1) := by
  have hg := h.good
  -- the φ-partner of an unmapped node of g2 is an unmapped node of g1
  have partner : ∀ m, m ∈ dkeys g2 → m ∉ mp.map (·.2) →
      ∃ n, (n, m) ∈ φ ∧ n ∈ dkeys g1 ∧ n ∉ mp.map (·.1) := by
    intro m hm hm2
    obtain ⟨⟨n, m'⟩, hp, hpm⟩ := List.mem_map.1 ((h.onto m).1 hm)
    simp only at hpm; subst hpm
    refine ⟨n, hp, hg.keysIn _ hp, ?_⟩
    intro hn1
    obtain ⟨⟨n', m''⟩, hq, hqn⟩ := List.mem_map.1 hn1
    simp only at hqn; subst hqn
    have : m'' = m' := pair_fst_unique h.functional (hext.1 _ hq) hp
    subst this
    exact hm2 (List.mem_map.2 ⟨_, hq, rfl⟩)
  unfold candidates
  simp only
  split
  · rename_i x xs m ms h1 h2
    have hm' : m ∈ frontier (invMapRaw g2) (mp.map (·.2)) :=
      mem_sortDedup (by rw [h2]; exact List.mem_cons_self)
    obtain ⟨hm2, w, hw, l, hl⟩ := mem_frontier' hm'
    have hmg : m ∈ dkeys g2 := closed_targets hc2 hl
    obtain ⟨n, hnm, _, hn1⟩ := partner m hmg hm2
    obtain ⟨⟨u, w'⟩, hq, hqw⟩ := List.mem_map.1 hw
    simp only at hqw; subst hqw
    have huw : (u, w') ∈ φ := hext.1 _ hq
    have hsome : n ∈ someKeys (adj (invMapRaw g1) u) := by
      rw [mem_someKeys_iff_lookup, edge_adj, aug_edge_preserved hg huw hnm, ← edge_adj,
        ← mem_someKeys_iff_lookup]
      exact mem_someKeys.2 ⟨l, hl⟩
    obtain ⟨l', hl'⟩ := mem_someKeys.1 hsome
    have hfr : n ∈ frontier (invMapRaw g1) (mp.map (·.1)) :=
      mem_frontier_of (List.mem_map.2 ⟨_, hq, rfl⟩) hn1 hl'
    exact ⟨(n, m), List.mem_map.2 ⟨n, mem_sortDedup_of hfr, rfl⟩, hnm, hn1⟩
  · split
    · rename_i hnil
      exfalso
      have hall : ∀ x ∈ dkeys (invMapRaw g2), x ∈ mp.map (·.2) := by
        intro x hx
        refine Classical.byContradiction fun hnot => ?_
        have : x ∈ sortDedup ((dkeys (invMapRaw g2)).filter (fun x => !(mp.map (·.2)).contains x)) :=
          mem_sortDedup_of (by simp [List.mem_filter, hx, hnot])
        rw [hnil] at this; cases this
      have hnd : (dkeys (invMapRaw g2)).Nodup := by rw [dkeys_invMapRaw]; exact hwf2.1
      have := nodup_length_le_of_subset _ _ hnd hall
      simp [dkeys] at this
      omega
    · rename_i m ms h2
      have hm' : m ∈ (dkeys (invMapRaw g2)).filter (fun x => !(mp.map (·.2)).contains x) :=
        mem_sortDedup (by rw [h2]; exact List.mem_cons_self)
      simp only [List.mem_filter, Bool.not_eq_true', List.contains_eq_mem, decide_eq_false_iff_not] at hm'
      rw [dkeys_invMapRaw] at hm'
      obtain ⟨n, hnm, hng, hn1⟩ := partner m hm'.1 hm'.2
      have hin : n ∈ sortDedup ((dkeys (invMapRaw g1)).filter (fun x => !(mp.map (·.1)).contains x)) := by
        apply mem_sortDedup_of
        rw [dkeys_invMapRaw]
        simp [List.mem_filter, hng, hn1]
      exact ⟨(n, m), List.mem_map.2 ⟨n, hin, rfl⟩, hnm, hn1⟩

/-- the search is exhaustive over feasible candidates (see `Props.completeness_partial`) -/
theorem search_exhaustive (a1 a2 : IsoGraph) (P : Mapping → Prop)
    (hstep : ∀ mp, P mp → mp.length < a2.length →
      ∃ c ∈ candidates mp a1 a2, feasible mp a1 a2 c.1 c.2 = true ∧ P (c :: mp)) :
    ∀ (k : Nat) (mp : Mapping), P mp → mp.length + k = a2.length →
      ∃ μ, search a1 a2 k mp = some μ := by
  intro k
  induction k with
  | zero => intro mp _ _; exact ⟨mp, rfl⟩
  | succ k ih =>
    intro mp he hl
    obtain ⟨c, hc, hf, he'⟩ := hstep mp he (by omega)
    obtain ⟨μ', hμ'⟩ := ih (c :: mp) he' (by simp only [List.length_cons]; omega)
    simp only [search]
    cases hfs : (candidates mp a1 a2).findSome?
        (fun c => if feasible mp a1 a2 c.1 c.2 = true then search a1 a2 k (c :: mp) else none) with
    | some μ => exact ⟨μ, rfl⟩
    | none =>
      exfalso
      have := List.findSome?_eq_none_iff.1 hfs c hc
      simp [hf, hμ'] at this

/-- whatever the search returns has distinct keys inside `g1` and the announced size -/
theorem search_basic {g1 g2 : IsoGraph} (hc1 : closed g1 = true) :
    ∀ (k : Nat) (mp μ : Mapping), (mp.map (·.1)).Nodup → (∀ p ∈ mp, p.1 ∈ dkeys g1) →
      search (invMapRaw g1) (invMapRaw g2) k mp = some μ →
      (μ.map (·.1)).Nodup ∧ (∀ p ∈ μ, p.1 ∈ dkeys g1) ∧ μ.length = mp.length + k := by
  intro k
  induction k with
  | zero =>
    intro mp μ h1 h2 hs
    simp only [search, Option.some.injEq] at hs
    subst hs; exact ⟨h1, h2, rfl⟩
  | succ k ih =>
    intro mp μ h1 h2 hs
    simp only [search] at hs
    obtain ⟨c, hc, hcs⟩ := List.exists_of_findSome?_eq_some hs
    by_cases hf : feasible mp (invMapRaw g1) (invMapRaw g2) c.1 c.2 = true
    · simp only [hf, if_true] at hcs
      obtain ⟨hnk, _, hn, _⟩ := candidates_spec _ _ _ _ hc
      have hn1 : c.1 ∈ dkeys g1 := by
        rcases hn with h | ⟨x, l, h⟩
        · rwa [dkeys_invMapRaw] at h
        · exact closed_targets hc1 h
      obtain ⟨a, b, c'⟩ := ih (c :: mp) μ (by simpa using ⟨by simpa using hnk, h1⟩)
        (by
          intro p hp
          rcases List.mem_cons.1 hp with rfl | hp
          · exact hn1
          · exact h2 p hp) hcs
      exact ⟨a, b, by simp only [List.length_cons] at c'; omega⟩
    · simp [hf] at hcs

/-- **Completeness of the matcher.**  If the two graphs are isomorphic, the search returns a complete
mapping and the final test `set(iso) == set(g1)` accepts it. -/
theorem matcher_complete_raw {g1 g2 : IsoGraph}
    (hc1 : closed g1 = true) (hc2 : closed g2 = true) (hwf1 : WFAdj g1) (hwf2 : WFAdj g2)
    (h : IsIso g1 g2) :
    ∃ μ, search (invMapRaw g1) (invMapRaw g2) (invMapRaw g2).length [] = some μ
      ∧ accept μ (invMapRaw g1) = true := by
  obtain ⟨φ, hφ⟩ := h
  have hg := hφ.good
  obtain ⟨μ, hμ⟩ := search_exhaustive (invMapRaw g1) (invMapRaw g2) (Ext φ)
    (by
      intro mp hext hlt
      obtain ⟨c, hc, hcφ, hck⟩ := candidate_of_iso hc2 hwf2 hφ hext hlt
      refine ⟨c, hc, feasible_of_iso hc1 hc2 hwf1 hwf2 hφ hext hcφ, ?_⟩
      refine ⟨?_, by simpa using ⟨by simpa using hck, hext.2⟩⟩
      intro p hp
      rcases List.mem_cons.1 hp with rfl | hp
      · exact hcφ
      · exact hext.1 p hp)
    (invMapRaw g2).length [] ⟨by simp, by simp⟩ (by simp)
  refine ⟨μ, hμ, ?_⟩
  obtain ⟨hnd, hin, hlen⟩ := search_basic (g2 := g2) hc1 _ [] μ (by simp) (by simp) hμ
  -- |g1| ≤ |φ| ≤ |g2| = |μ|
  have h1 : (dkeys g1).length ≤ (φ.map (·.1)).length :=
    nodup_length_le_of_subset _ _ hwf1.1 (fun a ha => (hφ.total a).1 ha)
  have h2 : (φ.map (·.2)).length ≤ (dkeys g2).length :=
    nodup_length_le_of_subset _ _ hφ.injective (fun a ha => (hφ.onto a).2 ha)
  have hcover : ∀ b ∈ dkeys g1, b ∈ μ.map (·.1) := by
    apply nodup_covers (μ.map (·.1)) (dkeys g1) hnd
    · intro a ha
      obtain ⟨p, hp, rfl⟩ := List.mem_map.1 ha
      exact hin p hp
    · simp only [List.length_nil, Nat.zero_add, length_invMapRaw] at hlen
      simp only [List.length_map, dkeys] at h1 h2 ⊢
      omega
  simp only [accept, Bool.and_eq_true, List.all_eq_true, List.contains_iff_mem, dkeys_invMapRaw]
  exact ⟨fun p hp => hin p hp, hcover⟩

/-! ## §11 soundness in its exact form: the node-label ENTRY (present / absent) is preserved too -/

theorem feasible_len {mp : Mapping} {a1 a2 : IsoGraph} {n m : Node} (h : feasible mp a1 a2 n m = true) :
    (adj a1 n).length = (adj a2 m).length := by
  unfold feasible at h
  simp only [Bool.and_eq_true] at h
  exact eq_of_beq h.1.1.1.2

/-- every pair the search holds has equal degree in the augmented graphs -/
theorem search_deg (a1 a2 : IsoGraph) :
    ∀ (k : Nat) (mp μ : Mapping), (∀ p ∈ mp, (adj a1 p.1).length = (adj a2 p.2).length) →
      search a1 a2 k mp = some μ → ∀ p ∈ μ, (adj a1 p.1).length = (adj a2 p.2).length := by
  intro k
  induction k with
  | zero =>
    intro mp μ h hs
    simp only [search, Option.some.injEq] at hs
    subst hs; exact h
  | succ k ih =>
    intro mp μ h hs
    simp only [search] at hs
    obtain ⟨c, _, hcs⟩ := List.exists_of_findSome?_eq_some hs
    by_cases hf : feasible mp a1 a2 c.1 c.2 = true
    · simp only [hf, if_true] at hcs
      apply ih (c :: mp) μ _ hcs
      intro p hp
      rcases List.mem_cons.1 hp with rfl | hp
      · exact feasible_len hf
      · exact h p hp
    · simp [hf] at hcs

/-- **Soundness of the matcher (exact form).** -/
theorem matcher_sound_raw {g1 g2 : IsoGraph}
    (hc1 : closed g1 = true) (hc2 : closed g2 = true) (hwf1 : WFAdj g1) (hwf2 : WFAdj g2)
    (hl1 : cleanGraph g1 = true) (hl2 : cleanGraph g2 = true)
    {μ : Mapping} (hs : search (invMapRaw g1) (invMapRaw g2) (invMapRaw g2).length [] = some μ)
    (hacc : accept μ (invMapRaw g1) = true) : IsIsoVia μ g1 g2 := by
  obtain ⟨hg, hlen⟩ := search_sound hc1 hc2 hl1 hl2 _ [] μ (good_nil g1 g2) hs
  have hdeg := search_deg _ _ _ [] μ (by simp) hs
  simp only [accept, Bool.and_eq_true, List.all_eq_true, List.contains_iff_mem] at hacc
  rw [dkeys_invMapRaw] at hacc
  have htotal : ∀ n ∈ dkeys g1, n ∈ μ.map (·.1) := hacc.2
  have honto : ∀ m ∈ dkeys g2, m ∈ μ.map (·.2) := by
    refine nodup_covers (μ.map (·.2)) (dkeys g2) hg.valsNodup ?_ ?_
    · intro a ha
      obtain ⟨p, hp, rfl⟩ := List.mem_map.1 ha
      exact hg.valsIn p hp
    · simp only [List.length_nil, Nat.zero_add, length_invMapRaw] at hlen
      simp [dkeys, hlen]
  refine ⟨hg.keysNodup, hg.valsNodup, ?_, ?_, ?_, hg.edges⟩
  · intro n
    exact ⟨htotal n, fun hn => by
      obtain ⟨p, hp, rfl⟩ := List.mem_map.1 hn
      exact hacc.1 p hp⟩
  · intro m
    exact ⟨honto m, fun hm => by
      obtain ⟨p, hp, rfl⟩ := List.mem_map.1 hm
      exact hg.valsIn p hp⟩
  · rintro ⟨n, m⟩ hp
    have hd := hdeg _ hp
    simp only at hd
    rw [length_split, length_split (adj (invMapRaw g2) m),
      someKeys_aug_eq hc1 hc2 hwf1 hwf2 hg htotal honto hp,
      noneCount_of_nodup (adj_aug_keys_nodup hwf1 n), noneCount_of_nodup (adj_aug_keys_nodup hwf2 m),
      edge_adj, edge_adj, edge_aug_none, edge_aug_none] at hd
    have hl := hg.nodeLbl _ hp
    simp only at hl ⊢
    cases e1 : edge g1 n none with
    | none =>
      cases e2 : edge g2 m none with
      | none => rfl
      | some y => simp [e1, e2] at hd
    | some x =>
      cases e2 : edge g2 m none with
      | none => simp [e1, e2] at hd
      | some y => simp [e1, e2] at hl; rw [hl]

/-! ## §12 graph isomorphism is an equivalence relation -/

theorem isIso_refl {g : IsoGraph} (h : (dkeys g).Nodup) : IsIso g g := by
  refine ⟨(dkeys g).map (fun n => (n, n)), ?_, ?_, ?_, ?_, ?_, ?_⟩
  · simpa [List.map_map, Function.comp_def] using h
  · simpa [List.map_map, Function.comp_def] using h
  · intro n; simp [List.map_map, Function.comp_def]
  · intro n; simp [List.map_map, Function.comp_def]
  · intro p hp
    obtain ⟨n, _, rfl⟩ := List.mem_map.1 hp
    rfl
  · intro p hp q hq
    obtain ⟨n, _, rfl⟩ := List.mem_map.1 hp
    obtain ⟨m, _, rfl⟩ := List.mem_map.1 hq
    rfl

theorem isIsoVia_symm {g1 g2 : IsoGraph} {φ : Mapping} (h : IsIsoVia φ g1 g2) :
    IsIsoVia (swapM φ) g2 g1 := by
  refine ⟨by rw [swapM_fst]; exact h.injective, by rw [swapM_snd]; exact h.functional, ?_, ?_, ?_, ?_⟩
  · intro n; rw [swapM_fst]; exact h.onto n
  · intro n; rw [swapM_snd]; exact h.total n
  · rintro ⟨a, b⟩ hp; exact (h.nodeLabel (b, a) (mem_swapM.1 hp)).symm
  · rintro ⟨a, b⟩ hp ⟨c, d⟩ hq
    exact (h.edgeLabel (b, a) (mem_swapM.1 hp) (d, c) (mem_swapM.1 hq)).symm

theorem isIso_symm {g1 g2 : IsoGraph} (h : IsIso g1 g2) : IsIso g2 g1 := by
  obtain ⟨φ, hφ⟩ := h
  exact ⟨swapM φ, isIsoVia_symm hφ⟩

/-- `ψ ∘ φ` as a list of pairs -/
def compM (φ ψ : Mapping) : Mapping := φ.map (fun p => (p.1, (dlookup p.2 ψ).getD p.2))

theorem apply_of_mem_keys {ψ : Mapping} (hfun : (ψ.map (·.1)).Nodup) {v : Node}
    (hv : v ∈ ψ.map (·.1)) : (v, (dlookup v ψ).getD v) ∈ ψ := by
  obtain ⟨⟨v', w⟩, hp, hpv⟩ := List.mem_map.1 hv
  simp only at hpv; subst hpv
  have : dlookup v' ψ = some w := dlookup_of_mem_nodup (by simpa [dkeys] using hfun) hp
  simpa [this] using hp

theorem isIsoVia_trans {g1 g2 g3 : IsoGraph} {φ ψ : Mapping}
    (h1 : IsIsoVia φ g1 g2) (h2 : IsIsoVia ψ g2 g3) : IsIsoVia (compM φ ψ) g1 g3 := by
  have hstep : ∀ p ∈ φ, (p.2, (dlookup p.2 ψ).getD p.2) ∈ ψ := by
    intro p hp
    apply apply_of_mem_keys h2.functional
    exact (h2.total p.2).1 ((h1.onto p.2).2 (List.mem_map.2 ⟨p, hp, rfl⟩))
  have hkeys : (compM φ ψ).map (·.1) = φ.map (·.1) := by
    simp [compM, List.map_map, Function.comp_def]
  have hvals : (compM φ ψ).map (·.2) = (φ.map (·.2)).map (fun v => (dlookup v ψ).getD v) := by
    simp [compM, List.map_map, Function.comp_def]
  have hmem : ∀ q ∈ compM φ ψ, ∃ p ∈ φ, q = (p.1, (dlookup p.2 ψ).getD p.2) := by
    intro q hq
    obtain ⟨p, hp, rfl⟩ := List.mem_map.1 hq
    exact ⟨p, hp, rfl⟩
  refine ⟨by rw [hkeys]; exact h1.functional, ?_, ?_, ?_, ?_, ?_⟩
  · rw [hvals]
    apply nodup_map_of_injOn _ _ h1.injective
    intro x hx y hy hxy
    obtain ⟨p, hp, rfl⟩ := List.mem_map.1 hx
    obtain ⟨q, hq, rfl⟩ := List.mem_map.1 hy
    have a := hstep p hp
    have b := hstep q hq
    rw [hxy] at a
    exact pair_snd_unique h2.injective a b
  · intro n; rw [hkeys]; exact h1.total n
  · intro m
    constructor
    · intro hm
      obtain ⟨⟨v, m'⟩, hq, hqm⟩ := List.mem_map.1 ((h2.onto m).1 hm)
      simp only at hqm; subst hqm
      have hv2 : v ∈ dkeys g2 := (h2.total v).2 (List.mem_map.2 ⟨_, hq, rfl⟩)
      obtain ⟨⟨u, v'⟩, hp, hpv⟩ := List.mem_map.1 ((h1.onto v).1 hv2)
      simp only at hpv; subst hpv
      have : dlookup v' ψ = some m' := dlookup_of_mem_nodup (by simpa [dkeys] using h2.functional) hq
      refine List.mem_map.2 ⟨(u, m'), List.mem_map.2 ⟨(u, v'), hp, ?_⟩, rfl⟩
      simp [this]
    · intro hm
      obtain ⟨q, hq, rfl⟩ := List.mem_map.1 hm
      obtain ⟨p, hp, rfl⟩ := hmem q hq
      exact (h2.onto _).2 (List.mem_map.2 ⟨_, hstep p hp, rfl⟩)
  · intro q hq
    obtain ⟨p, hp, rfl⟩ := hmem q hq
    exact (h1.nodeLabel p hp).trans (h2.nodeLabel _ (hstep p hp))
  · intro q hq r hr
    obtain ⟨p, hp, rfl⟩ := hmem q hq
    obtain ⟨p', hp', rfl⟩ := hmem r hr
    exact (h1.edgeLabel p hp p' hp').trans (h2.edgeLabel _ (hstep p hp) _ (hstep p' hp'))

theorem isIso_trans {g1 g2 g3 : IsoGraph} (h1 : IsIso g1 g2) (h2 : IsIso g2 g3) : IsIso g1 g3 := by
  obtain ⟨φ, hφ⟩ := h1
  obtain ⟨ψ, hψ⟩ := h2
  exact ⟨compM φ ψ, isIsoVia_trans hφ hψ⟩

/-! ## §13 everything `_make_mrs_isograph` builds is a dict of dicts -/

theorem wf_dset_empty {g : IsoGraph} (h : WFAdj g) (k : Node) : WFAdj (dset k ([] : Adj) g) := by
  constructor
  · rw [dkeys_dset]
    by_cases hk : k ∈ dkeys g
    · simp [hk, h.1]
    · simp only [hk, if_false]
      rw [List.nodup_append]
      exact ⟨h.1, by simp, by
        intro a ha b hb hab
        simp only [List.mem_singleton] at hb
        subst hab; subst hb; exact hk ha⟩
  · intro p hp
    rcases mem_dset hp with rfl | hp
    · simp [dkeys]
    · exact h.2 p hp

theorem wf_foldl_dset {β : Type} (f : β → Node) (l : List β) (g : IsoGraph) (h : WFAdj g) :
    WFAdj (l.foldl (fun g v => dset (f v) ([] : Adj) g) g) := by
  induction l generalizing g with
  | nil => exact h
  | cons b l ih => exact ih _ (wf_dset_empty h _)

theorem wf_initGraph (m : MRS) : WFAdj (initGraph m) := by
  unfold initGraph
  exact wf_foldl_dset _ _ _ (wf_foldl_dset _ _ _ ⟨by simp [dkeys], by simp⟩)

theorem wf_setEdge {g g' : IsoGraph} {a : Node} {t : Option Node} {l : Label}
    (h : WFAdj g) (hs : setEdge g a t l = .ok g') : WFAdj g' := by
  have hk := setEdge_keys hs
  unfold setEdge at hs
  cases hA : dlookup a g with
  | none => simp [hA] at hs
  | some adjA =>
    simp only [hA, Except.ok.injEq] at hs
    subst hs
    refine ⟨by rw [hk]; exact h.1, ?_⟩
    intro p hp
    rcases mem_dset hp with rfl | hp
    · have hadj := h.2 (a, adjA) (dlookup_mem hA)
      simp only at hadj ⊢
      rw [dkeys_dset]
      by_cases ht : t ∈ dkeys adjA
      · simp [ht, hadj]
      · simp only [ht, if_false]
        rw [List.nodup_append]
        exact ⟨hadj, by simp, by
          intro x hx y hy hxy
          simp only [List.mem_singleton] at hy
          subst hxy; subst hy; exact ht hx⟩
    · exact h.2 p hp

theorem wf_addEP {properties : Bool} {m : MRS} {g g' : IsoGraph} {p : Pred}
    (hw : WFAdj g) (h : addEP properties m g p = .ok g') : WFAdj g' := by
  unfold addEP at h
  simp only [bind, Except.bind] at h
  cases h1 : setEdge g (vstr p.2.label) (some (vstr p.1)) eqScope with
  | error e => simp [h1] at h
  | ok ga =>
    simp only [h1] at h
    cases h2 : setEdge ga (vstr p.1) none (epNodeLabel properties m p.2) with
    | error e => simp [h2] at h
    | ok gb =>
      simp only [h2] at h
      exact foldlM_preserve WFAdj _ (fun s b s' hs hb => wf_setEdge hs hb) _ gb g'
        (wf_setEdge (wf_setEdge hw h1) h2) h

theorem mkIsoGraph_wf {properties : Bool} {m : MRS} {g : IsoGraph}
    (h : mkIsoGraph properties m = .ok g) : WFAdj g := by
  unfold mkIsoGraph at h
  simp only [bind, Except.bind] at h
  cases h1 : m.preds.foldlM (addEP properties m) (initGraph m) with
  | error e => simp [h1] at h
  | ok ga =>
    simp only [h1] at h
    have k1 := foldlM_preserve WFAdj _ (fun s b s' hs hb => wf_addEP hs hb) _ _ ga (wf_initGraph m) h1
    cases h2 : m.hcons.foldlM (fun g h => setEdge g (vstr h.hi) (some (vstr h.lo)) h.rel.toList) ga with
    | error e => simp [h2] at h
    | ok gb =>
      simp only [h2] at h
      have k2 := foldlM_preserve WFAdj _ (fun s b s' hs hb => wf_setEdge hs hb) _ _ gb k1 h2
      exact foldlM_preserve WFAdj _ (fun s b s' hs hb => wf_setEdge hs hb) _ _ g k2 h

/-! ## §14 assembling `is_isomorphic` -/

theorem invMap_ok {g a : IsoGraph} (h : invMap g = .ok a) : closed g = true ∧ a = invMapRaw g := by
  unfold invMap at h
  by_cases hc : closed g = true
  · simp only [hc, if_true, Except.ok.injEq] at h; exact ⟨hc, h.symm⟩
  · simp [hc] at h

theorem isIsomorphic_eq {p : Bool} {m1 m2 : MRS} {g1 g2 a1 a2 : IsoGraph}
    (hg1 : mkIsoGraph p m1 = .ok g1) (hg2 : mkIsoGraph p m2 = .ok g2)
    (ha1 : invMap g1 = .ok a1) (ha2 : invMap g2 = .ok a2) :
    isIsomorphic p m1 m2 = .ok (if sizesDiffer m1 m2 = true then false else accept (vf2 a1 a2) a1) := by
  unfold isIsomorphic
  by_cases hsz : sizesDiffer m1 m2 = true
  · simp [hsz]
  · simp [hsz, hg1, hg2, ha1, ha2, bind, Except.bind]

/-- the size pre-checks exclude the degenerate accepting state (first graph empty, second not) -/
theorem sizes_empty {p : Bool} {m1 m2 : MRS} {g1 g2 : IsoGraph}
    (hsz : sizesDiffer m1 m2 = false)
    (hg1 : mkIsoGraph p m1 = .ok g1) (hg2 : mkIsoGraph p m2 = .ok g2) (hk1 : dkeys g1 = []) :
    g2 = [] := by
  rw [mkIsoGraph_keys hg1] at hk1
  obtain ⟨hv1, hi1⟩ := initGraph_eq_nil (dkeys_eq_nil hk1)
  simp only [sizesDiffer, Bool.or_eq_false_iff, bne_eq_false_iff_eq] at hsz
  obtain ⟨⟨⟨hr, _⟩, _⟩, hvl⟩ := hsz
  have hr1 : m1.rels.length = 0 := by rw [← ids_length, hi1]; rfl
  have hi2 : m2.ids = [] := by
    apply List.eq_nil_of_length_eq_zero
    rw [ids_length, ← hr, hr1]
  have hv2 : filledVars m2 = [] := by
    apply List.eq_nil_of_length_eq_zero
    rw [← hvl, hv1]; rfl
  apply dkeys_eq_nil
  rw [mkIsoGraph_keys hg2]
  simp [initGraph, hi2, hv2, dkeys]

/-- the verdict of the matcher is exactly graph isomorphism -/
theorem accept_vf2_iff {g1 g2 : IsoGraph}
    (hc1 : closed g1 = true) (hc2 : closed g2 = true) (hwf1 : WFAdj g1) (hwf2 : WFAdj g2)
    (hl1 : cleanGraph g1 = true) (hl2 : cleanGraph g2 = true) (hempty : dkeys g1 = [] → g2 = []) :
    accept (vf2 (invMapRaw g1) (invMapRaw g2)) (invMapRaw g1) = true ↔ IsIso g1 g2 := by
  constructor
  · intro h
    cases hs : search (invMapRaw g1) (invMapRaw g2) (invMapRaw g2).length [] with
    | some μ =>
      have hv : vf2 (invMapRaw g1) (invMapRaw g2) = μ := by simp [vf2, hs]
      rw [hv] at h
      exact ⟨μ, matcher_sound_raw hc1 hc2 hwf1 hwf2 hl1 hl2 hs h⟩
    | none =>
      exfalso
      have hv : vf2 (invMapRaw g1) (invMapRaw g2) = [] := by simp [vf2, hs]
      rw [hv] at h
      have hk1 : dkeys (invMapRaw g1) = [] := by
        simp only [accept, List.all_nil, Bool.true_and, List.map_nil, List.contains_nil,
          List.all_eq_true] at h
        cases hd : dkeys (invMapRaw g1) with
        | nil => rfl
        | cons x xs =>
          have := h x (by rw [hd]; exact List.mem_cons_self)
          cases this
      rw [dkeys_invMapRaw] at hk1
      rw [hempty hk1] at hs
      simp [invMapRaw, search] at hs
  · intro h
    obtain ⟨μ, hs, hacc⟩ := matcher_complete_raw hc1 hc2 hwf1 hwf2 h
    have hv : vf2 (invMapRaw g1) (invMapRaw g2) = μ := by simp [vf2, hs]
    rw [hv]; exact hacc

theorem sizesDiffer_self (m : MRS) : sizesDiffer m m = false := by simp [sizesDiffer]

theorem sizesDiffer_symm {m1 m2 : MRS} (h : sizesDiffer m1 m2 = false) : sizesDiffer m2 m1 = false := by
  simp only [sizesDiffer, Bool.or_eq_false_iff, bne_eq_false_iff_eq] at h ⊢
  obtain ⟨⟨⟨a, b⟩, c⟩, d⟩ := h
  exact ⟨⟨⟨a.symm, b.symm⟩, c.symm⟩, d.symm⟩

theorem sizesDiffer_trans {m1 m2 m3 : MRS} (h : sizesDiffer m1 m2 = false) (h' : sizesDiffer m2 m3 = false) :
    sizesDiffer m1 m3 = false := by
  simp only [sizesDiffer, Bool.or_eq_false_iff, bne_eq_false_iff_eq] at h h' ⊢
  obtain ⟨⟨⟨a, b⟩, c⟩, d⟩ := h
  obtain ⟨⟨⟨a', b'⟩, c'⟩, d'⟩ := h'
  exact ⟨⟨⟨a.trans a', b.trans b'⟩, c.trans c'⟩, d.trans d'⟩

/-! ## §15 `_make_mrs_isograph` and `_vf2_inv_map` never raise: every key they use is a node -/

theorem mem_dkeys_dset {κ ν : Type} [DecidableEq κ] {k k' : κ} {v : ν} {d : List (κ × ν)} :
    k ∈ dkeys (dset k' v d) ↔ k = k' ∨ k ∈ dkeys d := by
  rw [dkeys_dset]
  by_cases h : k' ∈ dkeys d
  · simp only [h, if_true]
    constructor
    · exact Or.inr
    · rintro (rfl | h') <;> assumption
  · simp only [h, if_false, List.mem_append, List.mem_singleton]
    exact Or.comm

theorem mem_keys_foldl_dset {β : Type} (f : β → Node) (l : List β) (g : IsoGraph) (k : Node)
    (h : k ∈ dkeys g ∨ ∃ v ∈ l, f v = k) :
    k ∈ dkeys (l.foldl (fun g v => dset (f v) ([] : Adj) g) g) := by
  induction l generalizing g with
  | nil =>
    rcases h with h | ⟨v, hv, _⟩
    · exact h
    · cases hv
  | cons b l ih =>
    simp only [List.foldl_cons]
    apply ih
    rcases h with h | ⟨v, hv, hfv⟩
    · exact Or.inl (mem_dkeys_dset.2 (Or.inr h))
    · rcases List.mem_cons.1 hv with rfl | hv
      · exact Or.inl (mem_dkeys_dset.2 (Or.inl hfv.symm))
      · exact Or.inr ⟨v, hv, hfv⟩

theorem initGraph_has_var {m : MRS} {v : Var} (h : v ∈ filledVars m) : vstr v ∈ dkeys (initGraph m) := by
  unfold initGraph
  exact mem_keys_foldl_dset _ _ _ _ (Or.inl (mem_keys_foldl_dset _ _ _ _ (Or.inr ⟨v, h, rfl⟩)))

theorem initGraph_has_id {m : MRS} {i : Var} (h : i ∈ m.ids) : vstr i ∈ dkeys (initGraph m) := by
  unfold initGraph
  exact mem_keys_foldl_dset _ _ _ _ (Or.inr ⟨i, h, rfl⟩)

/-- every edge target is a node (`closed`, as a proposition) -/
def ClosedP (g : IsoGraph) : Prop := ∀ p ∈ g, ∀ e ∈ p.2, ∀ t, e.1 = some t → t ∈ dkeys g

theorem closed_of_closedP {g : IsoGraph} (h : ClosedP g) : closed g = true := by
  unfold closed
  rw [List.all_eq_true]
  intro p hp
  rw [List.all_eq_true]
  rintro ⟨t, l⟩ he
  cases t with
  | none => rfl
  | some t =>
    have := h p hp (some t, l) he t rfl
    simp [this]

theorem closedP_foldl_dset {β : Type} (f : β → Node) (l : List β) (g : IsoGraph) (h : ClosedP g) :
    ClosedP (l.foldl (fun g v => dset (f v) ([] : Adj) g) g) := by
  induction l generalizing g with
  | nil => exact h
  | cons b l ih =>
    apply ih
    intro p hp e he t ht
    rcases mem_dset hp with rfl | hp
    · cases he
    · exact mem_dkeys_dset.2 (Or.inr (h p hp e he t ht))

/-- the invariant of the construction: the node set is that of `initGraph` and the graph is closed -/
def Built (m : MRS) (g : IsoGraph) : Prop := dkeys g = dkeys (initGraph m) ∧ ClosedP g

theorem built_init (m : MRS) : Built m (initGraph m) := by
  refine ⟨rfl, ?_⟩
  unfold initGraph
  exact closedP_foldl_dset _ _ _ (closedP_foldl_dset _ _ _ (by intro p hp; cases hp))

theorem setEdge_built {m : MRS} {g : IsoGraph} {a : Node} {t : Option Node} {l : Label}
    (hb : Built m g) (ha : a ∈ dkeys (initGraph m)) (ht : ∀ x, t = some x → x ∈ dkeys (initGraph m)) :
    ∃ g', setEdge g a t l = .ok g' ∧ Built m g' := by
  have ha' : a ∈ dkeys g := by rw [hb.1]; exact ha
  obtain ⟨adjA, hA⟩ := dlookup_of_mem_keys ha'
  have hs : setEdge g a t l = .ok (dset a (dset t l adjA) g) := by simp [setEdge, hA]
  refine ⟨_, hs, ?_, ?_⟩
  · rw [setEdge_keys hs]; exact hb.1
  · intro p hp e he x hx
    rw [setEdge_keys hs, hb.1]
    rcases mem_dset hp with rfl | hp
    · rcases mem_dset he with rfl | he
      · exact ht x hx
      · have := hb.2 (a, adjA) (dlookup_mem hA) e he x hx
        rwa [hb.1] at this
    · have := hb.2 p hp e he x hx
      rwa [hb.1] at this

theorem foldlM_ok {β σ : Type} (P : σ → Prop) (f : σ → β → Except Err σ) (l : List β)
    (hf : ∀ s, ∀ b ∈ l, P s → ∃ s', f s b = .ok s' ∧ P s') :
    ∀ s, P s → ∃ s', l.foldlM f s = .ok s' ∧ P s' := by
  induction l with
  | nil => intro s hs; exact ⟨s, rfl, hs⟩
  | cons b l ih =>
    intro s hs
    obtain ⟨s1, h1, hp1⟩ := hf s b List.mem_cons_self hs
    obtain ⟨s2, h2, hp2⟩ := ih (fun s b hb => hf s b (List.mem_cons_of_mem _ hb)) s1 hp1
    refine ⟨s2, ?_, hp2⟩
    rw [List.foldlM_cons, h1]
    exact h2

theorem mem_filledVars {m : MRS} {v : Var} :
    v ∈ filledVars m ↔ v ∈ (m.variables.map (·.1) ++ m.top.toList ++ m.index.toList
      ++ m.rels.flatMap (fun e => e.label :: e.args.map (·.2))
      ++ m.hcons.flatMap (fun h => [h.lo, h.hi])
      ++ m.icons.flatMap (fun c => [c.left, c.right])) := by
  unfold filledVars
  exact List.mem_eraseDups

theorem addEP_built {properties : Bool} {m : MRS} {g : IsoGraph} {p : Pred} (hb : Built m g)
    (hp : p ∈ m.preds) : ∃ g', addEP properties m g p = .ok g' ∧ Built m g' := by
  have hid : p.1 ∈ m.ids := (List.of_mem_zip (show (p.1, p.2) ∈ m.ids.zip m.rels from hp)).1
  have hrel : p.2 ∈ m.rels := (List.of_mem_zip (show (p.1, p.2) ∈ m.ids.zip m.rels from hp)).2
  have hlbl : vstr p.2.label ∈ dkeys (initGraph m) := by
    apply initGraph_has_var
    rw [mem_filledVars]
    simp only [List.mem_append, List.mem_flatMap]
    exact Or.inl (Or.inl (Or.inr ⟨p.2, hrel, List.mem_cons_self⟩))
  have hidk := initGraph_has_id hid
  have harg : ∀ a ∈ p.2.args, vstr a.2 ∈ dkeys (initGraph m) := by
    intro a ha
    apply initGraph_has_var
    rw [mem_filledVars]
    simp only [List.mem_append, List.mem_flatMap]
    exact Or.inl (Or.inl (Or.inr ⟨p.2, hrel, List.mem_cons_of_mem _ (List.mem_map.2 ⟨a, ha, rfl⟩)⟩))
  obtain ⟨ga, h1, b1⟩ := setEdge_built (t := some (vstr p.1)) (l := eqScope) hb hlbl
    (by intro x hx; cases hx; exact hidk)
  obtain ⟨gb, h2, b2⟩ := setEdge_built (t := none) (l := epNodeLabel properties m p.2) b1 hidk
    (by intro x hx; cases hx)
  obtain ⟨gc, h3, b3⟩ := foldlM_ok (Built m)
    (fun g (a : Role × Var) =>
      setEdge g (vstr p.1) (some (vstr a.2))
        (joinWith [' '] (sortLabels (splitSp ((edge g (vstr p.1) (some (vstr a.2))).getD []) ++ [a.1.toList]))))
    p.2.args
    (fun s a ha hs => setEdge_built hs hidk (by intro x hx; cases hx; exact harg a ha)) gb b2
  refine ⟨gc, ?_, b3⟩
  unfold addEP
  simp only [bind, Except.bind, h1, h2]
  exact h3

theorem mkIsoGraph_ok (properties : Bool) (m : MRS) :
    ∃ g, mkIsoGraph properties m = .ok g ∧ closed g = true := by
  obtain ⟨ga, h1, b1⟩ := foldlM_ok (Built m) (addEP properties m) m.preds
    (fun s p hp hs => addEP_built hs hp) _ (built_init m)
  obtain ⟨gb, h2, b2⟩ := foldlM_ok (Built m)
    (fun g (h : HCons) => setEdge g (vstr h.hi) (some (vstr h.lo)) h.rel.toList) m.hcons
    (fun s h hh hs => setEdge_built hs
      (by
        apply initGraph_has_var; rw [mem_filledVars]
        simp only [List.mem_append, List.mem_flatMap]
        exact Or.inl (Or.inr ⟨h, hh, by simp⟩))
      (by
        intro x hx; cases hx
        apply initGraph_has_var; rw [mem_filledVars]
        simp only [List.mem_append, List.mem_flatMap]
        exact Or.inl (Or.inr ⟨h, hh, by simp⟩))) ga b1
  obtain ⟨gc, h3, b3⟩ := foldlM_ok (Built m)
    (fun g (c : ICons) => setEdge g (vstr c.left) (some (vstr c.right)) c.rel.toList) m.icons
    (fun s c hc hs => setEdge_built hs
      (by
        apply initGraph_has_var; rw [mem_filledVars]
        simp only [List.mem_append, List.mem_flatMap]
        exact Or.inr ⟨c, hc, by simp⟩)
      (by
        intro x hx; cases hx
        apply initGraph_has_var; rw [mem_filledVars]
        simp only [List.mem_append, List.mem_flatMap]
        exact Or.inr ⟨c, hc, by simp⟩)) gb b2
  refine ⟨gc, ?_, closed_of_closedP b3.2⟩
  unfold mkIsoGraph
  simp only [bind, Except.bind, h1, h2]
  exact h3

end Verif.C06
