/-
C09 — property theorems, round 7: `_cleanup_files` on file names (relation names that are prefixes of
one another), the one-physical-form invariant over arbitrary histories of operations on a directory,
crash points of `write` and of the loop of `write_database`, and the digests that let the driver
answer large requests in linear time.  Helper lemmas are in Lemmas3.lean.
-/
import Verif.C09.Lemmas3

namespace Verif.C09
open Verif.Py Verif.Tables
open Verif.C08 (Val)

/-! ## large requests: the driver answers from a digest -/

/-- the state and exception of a call computed without its intermediate states are those of running
its effect list; no temp file is left -/
theorem effects_digest (now : Nat) (r : Rel) (q : WReqE) :
    writeDigest now r q = ((runEffs now ⟨r, none⟩ (effects r q).1).rel, (effects r q).2)
    ∧ (runEffs now ⟨r, none⟩ (effects r q).1).tmp = none := by
  obtain ⟨h1, h2⟩ := effects_refine_write now r q
  rw [h1, h2]
  unfold writeDigest step
  cases write now r q.toWReq <;> simp

/-- what the caller's iterable sees, for requests of any size: `pullCount` times the relation files
of before the call, with the temp file in place -/
theorem during_digest (now : Nat) (r : Rel) (q : WReqE) :
    (duringStates now r q).map (fun s => (s.rel, s.tmp.isSome)) = List.replicate (pullCount r q) (r, true) := by
  unfold duringStates pullCount
  cases hrej : (q.append && (q.gzip || r.useGz))
  · simp only [Bool.false_eq_true, if_false]
    apply List.eq_replicate_iff.mpr
    refine ⟨by simp, ?_⟩
    intro b hb
    simp only [List.mem_map] at hb
    obtain ⟨s, ⟨k, _, rfl⟩, rfl⟩ := hb
    rw [run_staging]
    rfl
  · simp

/-! ## `_cleanup_files` on file names -/

/-- "cleanup of undeclared or superseded files": both files of every named relation are gone -/
theorem cleanupDir_removes (d : Dir) (ns : List Name) (m : Name) (hm : m ∈ ns) :
    (cleanupDir d ns).rel m = {} := by
  have h1 : ns.any (fun n => decide (m = n) || decide (m = n ++ gzSuffix)) = true :=
    List.any_eq_true.mpr ⟨m, hm, by simp⟩
  have h2 : ns.any (fun n => decide (m ++ gzSuffix = n) || decide (m ++ gzSuffix = n ++ gzSuffix)) = true :=
    List.any_eq_true.mpr ⟨m, hm, by simp⟩
  simp only [Dir.rel, cleanupDir, h1, h2, ↓reduceIte]

/-- … and nothing else: a relation that is not named keeps both its files, whatever its name shares
with the named ones (`item` / `item-set` / `item-phenomenon`: a name being a prefix of another is
irrelevant).  Relation names are dot-free (hypothesis necessary: `cleanup_dotted_names_collide`). -/
theorem cleanupDir_keeps (d : Dir) (ns : List Name) (m : Name) (hdm : dotFree m = true)
    (hns : ∀ n ∈ ns, dotFree n = true) (hm : m ∉ ns) : (cleanupDir d ns).rel m = d.rel m := by
  have h1 : ns.any (fun n => decide (m = n) || decide (m = n ++ gzSuffix)) = false := by
    apply Bool.eq_false_iff.mpr
    intro h
    obtain ⟨n, hn, hp⟩ := List.any_eq_true.mp h
    simp only [Bool.or_eq_true, decide_eq_true_eq] at hp
    rcases hp with e | e
    · exact hm (e ▸ hn)
    · exact name_ne_gz m n hdm e
  have h2 : ns.any (fun n => decide (m ++ gzSuffix = n) || decide (m ++ gzSuffix = n ++ gzSuffix)) = false := by
    apply Bool.eq_false_iff.mpr
    intro h
    obtain ⟨n, hn, hp⟩ := List.any_eq_true.mp h
    simp only [Bool.or_eq_true, decide_eq_true_eq] at hp
    rcases hp with e | e
    · exact name_ne_gz n m (hns n hn) e.symm
    · exact hm (gz_inj m n e ▸ hn)
  simp only [Dir.rel, cleanupDir, h1, h2, Bool.false_eq_true, ↓reduceIte]

/-- the file-name level refines the relation level: for dot-free names `cleanupDir` on the directory
of `fs` is `cleanup` on `fs` -/
theorem cleanupDir_refines (fs : Files) (ns : List Name) (m : Name) (hdm : dotFree m = true)
    (hns : ∀ n ∈ ns, dotFree n = true) : (cleanupDir (Dir.ofFiles fs) ns).rel m = cleanup fs ns m := by
  by_cases hm : m ∈ ns
  · rw [cleanupDir_removes _ _ _ hm]; simp [cleanup, hm]
  · rw [cleanupDir_keeps _ _ _ hdm hns hm, ofFiles_rel fs m hdm]; simp [cleanup, hm]

/-- outside the quantifier the files of two relations do collide: cleaning relation `a` removes the
plain file of a relation called `a.gz` -/
theorem cleanup_dotted_names_collide :
    ((cleanupDir (fun _ => some ⟨[], 0⟩) [['a']]).rel ['a', '.', 'g', 'z']).tx = none
    ∧ (Dir.rel (fun _ => some ⟨[], 0⟩) ['a', '.', 'g', 'z']).tx ≠ none := by decide

/-- `write_database` with its final cleanup done on FILE NAMES (what the driver runs) is `writeDbE`
for the relations of a dot-free target schema -/
theorem writeDbFiles_eq (enc : Enc) (now : Nat) (q : DbReq) (src dst : Files) (n : Name)
    (hT : ∀ t ∈ q.target.map (·.1), dotFree t = true) (hn : dotFree n = true) :
    (writeDbFiles enc now q src dst).1 n = (writeDbE enc now q src dst).1 n
    ∧ (writeDbFiles enc now q src dst).2 = (writeDbE enc now q src dst).2 := by
  unfold writeDbFiles writeDbE
  cases hloop : writeLoopE enc q src now dst q.nameList with
  | mk d e =>
    cases e with
    | some e => exact ⟨rfl, rfl⟩
    | none =>
      refine ⟨?_, rfl⟩
      apply cleanupDir_refines _ _ _ hn
      intro t ht
      exact hT t (List.mem_filter.mp ht).1

/-- "… and never a file of a relation it just wrote": after a successful `write_database` every
relation named in `names` holds exactly what the loop wrote — the final cleanup, done on file names,
spares it even when its name is a prefix of (or has as prefix) a relation that is cleaned. -/
theorem cleanup_spares_written (enc : Enc) (now : Nat) (q : DbReq) (src dst d : Files) (n : Name)
    (hT : ∀ t ∈ q.target.map (·.1), dotFree t = true) (hdn : dotFree n = true) (hn : n ∈ q.nameList)
    (hloop : writeLoopE enc q src now dst q.nameList = (d, none)) :
    (writeDbFiles enc now q src dst).1 n = d n := by
  unfold writeDbFiles
  simp only [hloop]
  rw [cleanupDir_keeps _ _ _ hdn (fun t ht => hT t (List.mem_filter.mp ht).1), ofFiles_rel d n hdn]
  intro hm
  have := (List.mem_filter.mp hm).2
  simp [hn] at this

/-- not vacuous: `item` cleaned, `item-set` written and kept -/
example :
    let d : Dir := fun fn => if fn = "item".toList ∨ fn = "item-set.gz".toList ∨ fn = "item.gz".toList
                             then some ⟨[fn], 1⟩ else none
    (cleanupDir d ["item".toList]).rel "item".toList = {}
    ∧ (cleanupDir d ["item".toList]).rel "item-set".toList = { tx := none, gz := some ⟨["item-set.gz".toList], 1⟩ } := by
  decide

/-! ## one physical form, over histories of operations -/

/-- "exactly one of the plain and compressed files exists", as an invariant of the DIRECTORY over
arbitrary histories of `tsdb.write` (any relation, any flags, accepted or refused), in-place and
out-of-place `write_database` (any schema, names, encoding; completed or aborted by an exception
half-way) and `initialize_database`, in any order: if no relation starts with both forms, no relation
ever has both.  (From a start with stale files of both forms a relation gets rid of one at its first
accepted write: `write_one_form`; until then nobody touches it.) -/
theorem history_at_most_one_form (now : Nat) (fs : Files) (ops : List DbOp)
    (h : ∀ n, AtMostOne (fs n)) : ∀ n, AtMostOne (dbRun now fs ops n) := by
  induction ops generalizing now fs with
  | nil => exact h
  | cons op ops ih =>
    apply ih
    intro n
    cases op with
    | write m q =>
      simp only [dbStep]
      by_cases e : n = m
      · subst e; rw [Files.set_same]; exact step_atMostOne now _ q (h n)
      · rw [Files.set_other _ _ _ _ e]; exact h n
    | writeDbInPlace enc q => exact writeDbE_atMostOne enc now _ fs fs h n
    | writeDbFrom enc q src => exact writeDbE_atMostOne enc now _ src fs h n
    | init files names =>
      simp only [dbStep, initFiles]
      split
      · cases files
        · left; rfl
        · right; rfl
      · exact h n

/-- … and a relation is in EXACTLY one form from its first accepted `tsdb.write` on, as long as only
`tsdb.write` calls follow (any relations, any flags) -/
theorem history_one_form_after_write (now : Nat) (fs : Files) (n : Name) (ops : List DbOp)
    (h : OneForm (fs n)) (hw : ∀ op ∈ ops, ∃ m q, op = .write m q) : OneForm (dbRun now fs ops n) := by
  induction ops generalizing now fs with
  | nil => exact h
  | cons op ops ih =>
    obtain ⟨m, q, rfl⟩ := hw op (by simp)
    apply ih _ _ _ (fun o ho => hw o (by simp [ho]))
    simp only [dbStep]
    by_cases e : n = m
    · subst e
      rw [Files.set_same]
      unfold step
      cases hwr : write now (fs n) q with
      | error _ => exact h
      | ok r' => exact (write_one_form now _ r' q hwr).1
    · rw [Files.set_other _ _ _ _ e]; exact h

/-- not vacuous: write, in-place write_database that aborts on an unknown name, initialize, write -/
example :
    let sch : Schema := [(['a'], [⟨['x'], .string⟩]), (['b'], [⟨['x'], .string⟩])]
    let q : DbReq := { srcSchema := sch, inPlace := true, names := some [['a'], ['z']], schema := none, gzip := true }
    let fs := dbRun 0 (fun _ => {}) [.write ['a'] ⟨false, false, .ok [['1']]⟩, .writeDbInPlace .utf8 q,
                                     .init true [['b']], .write ['b'] ⟨true, true, .ok [['2']]⟩]
    ((fs ['a']).tx.isSome, (fs ['a']).gz.isSome, (fs ['b']).tx.isSome, (fs ['b']).gz.isSome) = (false, true, true, false) := by
  decide

/-! ## crash points -/

/-- the state of a relation after ANY prefix of the effects of one `tsdb.write` (any flags, accepted,
refused or failing): each of its two files is either the file from before the call, untouched, or the
file the completed call leaves — never anything in between (in the model's abstraction, where the copy
onto the destination is one step). -/
theorem write_crash_old_or_new (now : Nat) (r : Rel) (q : WReqE) :
    ∀ s ∈ relCrash now r q,
      (s.tx = r.tx ∨ s.tx = (step now r q.toWReq).tx) ∧ (s.gz = r.gz ∨ s.gz = (step now r q.toWReq).gz) := by
  intro s hs
  have hfin : step now r q.toWReq = (runEffs now ⟨r, none⟩ (effects r q).1).rel := by
    rw [(effects_refine_write now r q).1]
  rw [hfin]
  unfold relCrash at hs
  simp only [List.mem_map] at hs
  obtain ⟨k, _, rfl⟩ := hs
  unfold effects
  cases hrej : (q.append && (q.gzip || r.useGz))
  · simp only [Bool.false_eq_true, if_false]
    cases hp : okPrefix q.recs with
    | mk ls e =>
      cases e with
      | some e =>
        simp only
        rcases take_staging now r ls [Eff.rmTemp] k with h | ⟨j, h⟩
        · rw [h]; exact ⟨Or.inl rfl, Or.inl rfl⟩
        · rw [h]
          match j with
          | 0 => exact ⟨Or.inl rfl, Or.inl rfl⟩
          | j + 1 => simp [runEffs, Eff.apply]
      | none =>
        simp only
        have hfull : runEffs now ⟨r, none⟩ (Eff.mkTemp :: List.map Eff.tmpWrite ls ++
              [Eff.copy (q.gzip && !ls.isEmpty) q.append, Eff.rmTemp, Eff.unlinkOther (!(q.gzip && !ls.isEmpty))])
            = runEffs now ⟨r, some ls⟩
              [Eff.copy (q.gzip && !ls.isEmpty) q.append, Eff.rmTemp, Eff.unlinkOther (!(q.gzip && !ls.isEmpty))] := by
          have : (Eff.mkTemp :: List.map Eff.tmpWrite ls ++
              [Eff.copy (q.gzip && !ls.isEmpty) q.append, Eff.rmTemp, Eff.unlinkOther (!(q.gzip && !ls.isEmpty))])
              = (Eff.mkTemp :: List.map Eff.tmpWrite ls) ++
              [Eff.copy (q.gzip && !ls.isEmpty) q.append, Eff.rmTemp, Eff.unlinkOther (!(q.gzip && !ls.isEmpty))] := by simp
          rw [this, runEffs_append, run_staging]
        rw [hfull]
        rcases take_staging now r ls
            [Eff.copy (q.gzip && !ls.isEmpty) q.append, Eff.rmTemp, Eff.unlinkOther (!(q.gzip && !ls.isEmpty))] k
          with h | ⟨j, h⟩
        · rw [h]; exact ⟨Or.inl rfl, Or.inl rfl⟩
        · rw [h]
          cases hgz : (q.gzip && !ls.isEmpty) <;>
          match j with
          | 0 => simp [runEffs, Eff.apply]
          | 1 => simp [runEffs, Eff.apply]
          | 2 => simp [runEffs, Eff.apply]
          | j + 3 => simp [runEffs, Eff.apply]
  · simp [runEffs]

/-- the body of the loop of `write_database`, seen through the per-record request -/
theorem writeOneE_step (enc : Enc) (now : Nat) (q : DbReq) (src dst dst' : Files) (n : Name)
    (h : writeOneE enc now q src dst n = .ok dst') :
    ∃ qe, dbReqE enc q src dst n = some qe ∧ dst' = dst.set n (step now (dst n) qe.toWReq) := by
  unfold writeOneE at h
  unfold dbReqE
  cases hl : q.target.lookup n with
  | none => simp [hl] at h
  | some fields =>
    simp only [hl] at h ⊢
    refine ⟨_, rfl, ?_⟩
    generalize sourceVals q fields (if q.inPlace then dst else src) n = sv at h ⊢
    cases sv with
    | error e => simp [write, bind, Except.bind] at h
    | ok vals =>
      have hc : collect (vals.map (encodeRec enc fields)) = stageEnc enc fields vals := by
        simp [collect_map, stageEnc]
      simp only [WReqE.toWReq, hc]
      simp only [bind, Except.bind] at h
      unfold step
      cases hw : write now (dst n) ⟨false, q.gzip, stageEnc enc fields vals⟩ with
      | error e => simp [hw] at h
      | ok r' => simp [hw] at h; simp [h]

/-- crash points of `write_database` (relations named once): in EVERY state the destination
directory goes through during a loop that completes — after any prefix of the effects of any of its
`write` calls — every file of every relation is either the one from before the call or the one the
completed loop leaves; relations already done are new, relations not yet reached are old, the one
being written is governed by `write_crash_old_or_new`, no file is ever anything else. -/
theorem db_crash_old_or_new (enc : Enc) (q : DbReq) (src : Files) (names : List Name) (now : Nat)
    (dst d : Files) (hnd : names.Nodup) (hloop : writeLoopE enc q src now dst names = (d, none)) :
    ∀ c ∈ loopCrash enc q src now dst names, ∀ m,
      ((c m).tx = (dst m).tx ∨ (c m).tx = (d m).tx) ∧ ((c m).gz = (dst m).gz ∨ (c m).gz = (d m).gz) := by
  induction names generalizing now dst with
  | nil =>
    intro c hc m
    simp only [loopCrash, List.mem_singleton] at hc
    subst hc
    exact ⟨Or.inl rfl, Or.inl rfl⟩
  | cons n ns ih =>
    unfold writeLoopE at hloop
    cases hw : writeOneE enc now q src dst n with
    | error e => simp [hw] at hloop
    | ok dst' =>
      simp only [hw] at hloop
      obtain ⟨qe, hqe, hset⟩ := writeOneE_step enc now q src dst dst' n hw
      have hn : n ∉ ns := (List.nodup_cons.mp hnd).1
      have hdn : d n = dst' n :=
        writeLoop_other q src ns (now + 1) dst' d (writeLoopE_ok enc q src ns (now + 1) dst' d hloop) n hn
      have hdst'n : dst' n = step now (dst n) qe.toWReq := by rw [hset, Files.set_same]
      intro c hc m
      unfold loopCrash at hc
      simp only [hqe, hw, List.mem_append, List.mem_map] at hc
      rcases hc with ⟨s, hs, rfl⟩ | hc
      · by_cases e : m = n
        · subst e
          rw [Files.set_same, hdn, hdst'n]
          exact write_crash_old_or_new now (dst m) qe s hs
        · rw [Files.set_other _ _ _ _ e]
          exact ⟨Or.inl rfl, Or.inl rfl⟩
      · have := ih (now + 1) dst' (List.nodup_cons.mp hnd).2 hloop c hc m
        by_cases e : m = n
        · subst e
          rw [← hdn] at this
          exact ⟨Or.inr (by rcases this.1 with h | h <;> exact h), Or.inr (by rcases this.2 with h | h <;> exact h)⟩
        · have hm : dst' m = dst m := by rw [hset, Files.set_other _ _ _ _ e]
          rw [hm] at this
          exact this

/-- not vacuous: two relations, gzip requested; 6 + 6 + 1 crash states, among them one where the new
`a.gz` stands next to the old plain `a` -/
example :
    let sch : Schema := [(['a'], [⟨['x'], .string⟩]), (['b'], [⟨['x'], .string⟩])]
    let q : DbReq := { srcSchema := sch, inPlace := true, names := none, schema := none, gzip := true }
    let fs : Files := fun n => if n = ['a'] ∨ n = ['b'] then { tx := some ⟨[n], 1⟩ } else {}
    (loopCrash .utf8 q fs 5 fs [['a'], ['b']]).length = 13
    ∧ (loopCrash .utf8 q fs 5 fs [['a'], ['b']]).any (fun c => (c ['a']).tx.isSome && (c ['a']).gz.isSome) = true := by
  decide

end Verif.C09
