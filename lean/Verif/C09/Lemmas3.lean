/- C09 helper lemmas, round 7: file names, the at-most-one-form invariant, crash states. -/
import Verif.C09.FsProps

namespace Verif.C09
open Verif.Py Verif.Tables
open Verif.C08 (Val)

/-! ### file names of dot-free relations -/

theorem dotFree_mem (n : Name) (h : dotFree n = true) : ∀ c ∈ n, (c != '.') = true := by
  simpa [dotFree, List.all_eq_true] using h

theorem dot_not_mem (n : Name) (h : dotFree n = true) : '.' ∉ n := by
  intro hm
  have := dotFree_mem n h '.' hm
  simp at this

/-- a dot-free name is neither another dot-free name nor such a name with `.gz` -/
theorem name_ne_gz (n m : Name) (hn : dotFree n = true) : n ≠ m ++ gzSuffix := by
  intro e
  apply dot_not_mem n hn
  rw [e]
  simp [gzSuffix]

theorem gz_inj (n m : Name) (h : n ++ gzSuffix = m ++ gzSuffix) : n = m :=
  List.append_cancel_right h

theorem ofFiles_plain (fs : Files) (n : Name) (hn : dotFree n = true) : Dir.ofFiles fs n = (fs n).tx := by
  have h := takeWhile_dropWhile_all (p := fun c => c != '.') n (dotFree_mem n hn)
  simp [Dir.ofFiles, h.1, h.2]

theorem ofFiles_gz (fs : Files) (n : Name) (hn : dotFree n = true) :
    Dir.ofFiles fs (n ++ gzSuffix) = (fs n).gz := by
  have h := takeWhile_dropWhile_stop (p := fun c => c != '.') n '.' ['g', 'z'] (dotFree_mem n hn) (by decide)
  have e : n ++ gzSuffix = n ++ '.' :: ['g', 'z'] := rfl
  simp only [Dir.ofFiles, e, h.1, h.2]
  simp [gzSuffix]

theorem ofFiles_rel (fs : Files) (n : Name) (hn : dotFree n = true) : (Dir.ofFiles fs).rel n = fs n := by
  simp [Dir.rel, ofFiles_plain fs n hn, ofFiles_gz fs n hn]

/-! ### at most one physical form -/

/-- not both physical files -/
def AtMostOne (r : Rel) : Prop := r.tx = none ∨ r.gz = none

theorem OneForm.atMostOne {r : Rel} (h : OneForm r) : AtMostOne r := by
  rcases h with ⟨_, h2⟩ | ⟨h1, _⟩
  · right; cases hg : r.gz <;> simp [hg] at h2 ⊢
  · left; cases ht : r.tx <;> simp [ht] at h1 ⊢

theorem step_atMostOne (now : Nat) (r : Rel) (q : WReq) (h : AtMostOne r) : AtMostOne (step now r q) := by
  unfold step
  cases hw : write now r q with
  | error e => exact h
  | ok r' => exact (write_one_form now r r' q hw).1.atMostOne

theorem writeLoopE_atMostOne (enc : Enc) (q : DbReq) (src : Files) (names : List Name) (now : Nat) (dst : Files)
    (h : ∀ n, AtMostOne (dst n)) : ∀ n, AtMostOne ((writeLoopE enc q src now dst names).1 n) := by
  induction names generalizing now dst with
  | nil => exact h
  | cons m ms ih =>
    unfold writeLoopE
    cases hw : writeOneE enc now q src dst m with
    | error e => exact h
    | ok dst' =>
      simp only
      apply ih
      obtain ⟨_, lines, r', _, hwr, hset⟩ := writeOneE_ok enc now q src dst dst' m hw
      intro n
      rw [hset]
      by_cases e : n = m
      · subst e
        rw [Files.set_same]
        exact (write_one_form now _ r' _ hwr).1.atMostOne
      · rw [Files.set_other _ _ _ _ e]
        exact h n

theorem writeDbE_atMostOne (enc : Enc) (now : Nat) (q : DbReq) (src dst : Files)
    (h : ∀ n, AtMostOne (dst n)) : ∀ n, AtMostOne ((writeDbE enc now q src dst).1 n) := by
  have hl := writeLoopE_atMostOne enc q src q.nameList now dst h
  unfold writeDbE
  cases hloop : writeLoopE enc q src now dst q.nameList with
  | mk d e =>
    rw [hloop] at hl
    cases e with
    | some e => exact hl
    | none =>
      intro n
      simp only [cleanup]
      split
      · left; rfl
      · exact hl n

/-! ### crash states of one `write` -/

theorem runEffs_cons (now : Nat) (s : RelT) (e : Eff) (es : List Eff) :
    runEffs now s (e :: es) = runEffs now (Eff.apply now s e) es := rfl

/-- prefixes of `staging ++ tail`: either inside the staging part (relation untouched) or all of the
staging followed by a prefix of the tail -/
theorem take_staging (now : Nat) (r : Rel) (ls : List Line) (tl : List Eff) (k : Nat) :
    (runEffs now ⟨r, none⟩ ((Eff.mkTemp :: ls.map Eff.tmpWrite ++ tl).take k)).rel = r ∨
    ∃ j, runEffs now ⟨r, none⟩ ((Eff.mkTemp :: ls.map Eff.tmpWrite ++ tl).take k)
        = runEffs now ⟨r, some ls⟩ (tl.take j) := by
  have hsplit : (Eff.mkTemp :: ls.map Eff.tmpWrite ++ tl) = (Eff.mkTemp :: ls.map Eff.tmpWrite) ++ tl := by simp
  rw [hsplit, List.take_append]
  by_cases hk : k ≤ (Eff.mkTemp :: ls.map Eff.tmpWrite).length
  · left
    have h0 : k - (Eff.mkTemp :: ls.map Eff.tmpWrite).length = 0 := by omega
    rw [h0]
    simp only [List.take_zero, List.append_nil]
    -- a prefix of the staging effects is temp-only
    have tempOnly : ∀ (es : List Eff) (s : RelT),
        (∀ x ∈ es, x = .mkTemp ∨ ∃ l, x = .tmpWrite l) → (runEffs now s es).rel = s.rel := by
      intro es
      induction es with
      | nil => intro s _; rfl
      | cons x xs ih =>
        intro s hx
        have h1 : (Eff.apply now s x).rel = s.rel := by
          rcases hx x (by simp) with rfl | ⟨l, rfl⟩ <;> rfl
        rw [runEffs_cons, ih _ (fun y hy => hx y (by simp [hy])), h1]
    apply tempOnly
    intro x hx
    have hx' := List.mem_of_mem_take hx
    simp at hx'
    rcases hx' with rfl | ⟨l, _, rfl⟩
    · exact Or.inl rfl
    · exact Or.inr ⟨l, rfl⟩
  · right
    refine ⟨k - (Eff.mkTemp :: ls.map Eff.tmpWrite).length, ?_⟩
    have hfull : (Eff.mkTemp :: ls.map Eff.tmpWrite).take k = (Eff.mkTemp :: ls.map Eff.tmpWrite) :=
      List.take_of_length_le (by omega)
    rw [hfull, runEffs_append, run_staging]

end Verif.C09
