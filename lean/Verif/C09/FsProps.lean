/-
C09 — property theorems, round 6: `tsdb.write` as file-system effects (temp-file staging, copy,
removal of the other form), the `encoding=` option, `initialize_database`, and column matching by
name without any hypothesis on the column names.  Helper lemmas are in Lemmas2.lean.
-/
import Verif.C09.Props
import Verif.C09.Lemmas2

/-!
Pinned constants behind the definitions used here (the pins themselves are `c09_pins` in Props.lean;
a change there stops that theorem from checking):
* `effects`, `Eff`, `duringStates`: `c09WriteConsts` — the refusal test `append and (gzip or use_gz)` placed
  BEFORE the temp file is made, `NamedTemporaryFile(mode='w+b', suffix='.tmp', prefix=name, dir=dir)`, one
  `f_tmp.write` per record, `gzip and f_tmp.tell() != 0`, `'ab'`/`'wb'`, the unlink of the other form after the
  `with` block.
* `Enc`, `encodeRec`, `stageEnc`, `writeOneE`: the defaults `encoding='utf-8'` of `write`, `write_database`,
  `Database.__init__`, `Relation.__init__` (`c09Defaults`) and `(join(record, fields) + '\n').encode(encoding)`.
* `initFiles`, `initDbDir`: `c09InitializeDatabaseConsts` (`exist_ok=True`), default `files=False`,
  `_cleanup_files(path, set(schema))` (`c09CleanupFilesConsts`: both `''` and `'.gz'`).
* `remake_last`, `fieldIndex_last`: `c09MakeRecordConsts` (`colmap.get(f.name, None)`), `c09MakeFieldIndexConsts`
  (bare dict comprehension: the last index wins), `c09RemakeRecordsConsts` (`dict(zip(field_names, record))`).
-/

namespace Verif.C09
open Verif.Py Verif.Tables
open Verif.C08 (Val)

/-! ## `write` as effects: temp-file staging then copy, then removal of the other form -/

/-- "a rejected request (appending to compressed data) leaves the stored records unchanged", at the
level of what the code DOES: a refused request performs no file-system effect at all — no temp file,
no copy, no unlink — and never asks the caller's iterable for a record. -/
theorem write_refused_no_effect (now : Nat) (r : Rel) (q : WReqE)
    (ha : q.append = true) (hc : q.gzip = true ∨ r.useGz = true) :
    effects r q = ([], some .notImplemented) ∧ duringStates now r q = [] := by
  have h : (q.append && (q.gzip || r.useGz)) = true := by
    rcases hc with hc | hc <;> simp [ha, hc]
  simp [effects, duringStates, h]

/-- the effect list is the call: run from the state before the call (no temp file) it ends in the
state `write`/`step` describe, with no temp file left, and it raises exactly when `write` does, the
same exception.  Every theorem about `write`, `step` and `run` is therefore a theorem about the
effects (mechanism "temp-file staging then copy, then removal of the other form"). -/
theorem effects_refine_write (now : Nat) (r : Rel) (q : WReqE) :
    runEffs now ⟨r, none⟩ (effects r q).1 = ⟨step now r q.toWReq, none⟩ ∧
    (effects r q).2 = (match write now r q.toWReq with | .ok _ => none | .error e => some e) := by
  unfold effects step write WReqE.toWReq
  cases hrej : (q.append && (q.gzip || r.useGz))
  · simp only [Bool.false_eq_true, if_false]
    cases hp : okPrefix q.recs with
    | mk ls e =>
      cases e with
      | some e =>
        rw [okPrefix_collect_err _ _ _ hp]
        simp only
        constructor
        · have : (Eff.mkTemp :: List.map Eff.tmpWrite ls ++ [Eff.rmTemp])
              = (Eff.mkTemp :: List.map Eff.tmpWrite ls) ++ [Eff.rmTemp] := by simp
          rw [this, runEffs_append, run_staging]
          simp [runEffs, Eff.apply]
        · trivial
      | none =>
        rw [okPrefix_collect_ok _ _ hp]
        simp only
        have hsplit : ∀ tl : List Eff, (Eff.mkTemp :: List.map Eff.tmpWrite ls ++ tl)
              = (Eff.mkTemp :: List.map Eff.tmpWrite ls) ++ tl := by intro tl; simp
        rw [hsplit, runEffs_append, run_staging]
        cases hgz : (q.gzip && !ls.isEmpty)
        · simp [runEffs, Eff.apply]
        · simp [runEffs, Eff.apply]
  · simp [runEffs]

/-- "temp-file staging": at every moment at which the caller's iterable is asked for a record — this
is when an in-place `write_database` reads the very relation it is rewriting — the relation files
are exactly those from before the call, and the temp file exists. -/
theorem staging_never_touches_relation (now : Nat) (r : Rel) (q : WReqE) :
    ∀ s ∈ duringStates now r q, s.rel = r ∧ s.tmp.isSome = true := by
  intro s hs
  unfold duringStates at hs
  cases hrej : (q.append && (q.gzip || r.useGz))
  · simp only [hrej, Bool.false_eq_true, if_false, List.mem_map] at hs
    obtain ⟨k, _, rfl⟩ := hs
    rw [run_staging]
    exact ⟨rfl, rfl⟩
  · simp [hrej] at hs

/-- "a rejected request … leaves the stored records unchanged", at full strength and for every kind
of failure (refused append, a record `join` rejects, a character the encoding cannot represent): at
EVERY moment of a call that ends in an exception — after any prefix of its effects — the two
relation files are what they were; and at the end the temp file is gone. -/
theorem failed_write_touches_nothing (now : Nat) (r : Rel) (q : WReqE) (e : Err)
    (h : (effects r q).2 = some e) :
    (∀ k, (runEffs now ⟨r, none⟩ ((effects r q).1.take k)).rel = r) ∧
    runEffs now ⟨r, none⟩ (effects r q).1 = ⟨r, none⟩ := by
  have tempOnly : ∀ (es : List Eff) (s : RelT),
      (∀ x ∈ es, x = .mkTemp ∨ x = .rmTemp ∨ ∃ l, x = .tmpWrite l) → (runEffs now s es).rel = s.rel := by
    intro es
    induction es with
    | nil => intro s _; rfl
    | cons x xs ih =>
      intro s hx
      have h1 : (Eff.apply now s x).rel = s.rel := by
        rcases hx x (by simp) with rfl | rfl | ⟨l, rfl⟩ <;> rfl
      have := ih (Eff.apply now s x) (fun y hy => hx y (by simp [hy]))
      simpa [runEffs, h1] using this
  unfold effects at h ⊢
  cases hrej : (q.append && (q.gzip || r.useGz))
  · simp only [hrej, Bool.false_eq_true, if_false] at h ⊢
    cases hp : okPrefix q.recs with
    | mk ls e' =>
      cases e' with
      | none => simp [hp] at h
      | some e' =>
        simp only [hp] at h ⊢
        constructor
        · intro k
          apply tempOnly
          intro x hx
          have hx' := List.mem_of_mem_take hx
          simp at hx'
          rcases hx' with rfl | ⟨l, _, rfl⟩ | rfl
          · exact Or.inl rfl
          · exact Or.inr (Or.inr ⟨l, rfl⟩)
          · exact Or.inr (Or.inl rfl)
        · have : (Eff.mkTemp :: List.map Eff.tmpWrite ls ++ [Eff.rmTemp])
              = (Eff.mkTemp :: List.map Eff.tmpWrite ls) ++ [Eff.rmTemp] := by simp
          rw [this, runEffs_append, run_staging]
          simp [runEffs, Eff.apply]
  · simp [hrej, runEffs]

/-- the request the harness hands to the effect-level model — one `encodeRec` per record of the
iterable — is, seen as a whole, the staged request of `write` -/
theorem request_of_records (enc : Enc) (fields : List Field) (recs : List (List Val)) (a g : Bool) :
    (⟨a, g, recs.map (encodeRec enc fields)⟩ : WReqE).toWReq = ⟨a, g, stageEnc enc fields recs⟩ := by
  simp [WReqE.toWReq, collect_map, stageEnc]

/-- not vacuous: an overwrite of two records onto a relation with a newer stale `.gz`, gzip requested:
five effects, three pulls, all of them seeing the old files -/
example :
    (effects { tx := some ⟨[['a']], 1⟩, gz := some ⟨[['z']], 5⟩ } ⟨false, true, [.ok ['b'], .ok ['c']]⟩).1
      = [.mkTemp, .tmpWrite ['b'], .tmpWrite ['c'], .copy true false, .rmTemp, .unlinkOther false]
    ∧ (duringStates 9 { tx := some ⟨[['a']], 1⟩, gz := some ⟨[['z']], 5⟩ } ⟨false, true, [.ok ['b'], .ok ['c']]⟩).length = 3
    ∧ (effects {} ⟨false, false, [.ok ['b'], .error .tsdbError, .ok ['c']]⟩)
      = ([.mkTemp, .tmpWrite ['b'], .rmTemp], some .tsdbError) := by decide

/-! ## the `encoding=` option -/

/-- under UTF-8 (the default) staging is `stage`: every character has an encoding -/
theorem stageEnc_utf8_is_stage (fields : List Field) (recs : List (List Val)) :
    stageEnc .utf8 fields recs = stage fields recs := by
  unfold stageEnc stage
  congr 1
  funext v
  exact encodeRec_utf8 fields v

/-- under any encoding, what is staged is what `stage` stages (so every theorem about staged lines
applies) and every staged character has an encoding -/
theorem stageEnc_sound (enc : Enc) (fields : List Field) (recs : List (List Val)) (ls : List Line)
    (h : stageEnc enc fields recs = .ok ls) :
    stage fields recs = .ok ls ∧ ∀ l ∈ ls, l.all enc.ok = true :=
  stageEnc_ok enc fields recs ls h

/-- a record with a character the encoding cannot represent makes the call fail with `ValueError`
(`UnicodeEncodeError`) or, if the request is refused anyway, `NotImplementedError` — and the relation
is left as it was (`failed_write_touches_nothing` says: at every moment). -/
theorem unencodable_write_rejected (now : Nat) (enc : Enc) (r : Rel) (fields : List Field)
    (recs : List (List Val)) (ls : List Line) (a g : Bool)
    (h : stage fields recs = .ok ls) (hbad : ∃ l ∈ ls, l.all enc.ok = false) :
    (write now r ⟨a, g, stageEnc enc fields recs⟩ = .error .valueError
      ∨ write now r ⟨a, g, stageEnc enc fields recs⟩ = .error .notImplemented)
    ∧ step now r ⟨a, g, stageEnc enc fields recs⟩ = r := by
  rw [stageEnc_refuses enc fields recs ls h hbad]
  unfold step write
  cases (a && (g || r.useGz)) <;> simp

/-- the hypothesis is necessary and satisfiable: `é` is staged under Latin-1, refused under ASCII -/
example :
    (stageEnc .latin1 [⟨['x'], .string⟩] [[.str ['é']]]).toOption = some [['é']]
    ∧ errOf (stageEnc .ascii [⟨['x'], .string⟩] [[.str ['é']]]) = some .valueError
    ∧ errOf (stageEnc .latin1 [⟨['x'], .string⟩] [[.str ['a']], [.str ['€']], [.str ['b'], .none]]) = some .valueError
    ∧ errOf (stageEnc .latin1 [⟨['x'], .string⟩] [[.str ['a']], [.str ['b'], .none], [.str ['€']]]) = some .tsdbError := by
  decide

/-- `write_database(..., encoding=enc)`: under UTF-8 it is `writeDb` -/
theorem writeDbE_utf8 (now : Nat) (q : DbReq) (src dst : Files) :
    writeDbE .utf8 now q src dst = writeDb now q src dst := by
  unfold writeDbE writeDb
  rw [writeLoopE_utf8]

/-- … and under any encoding a successful call is a successful `writeDb` with the same files, so
`writeDb_preserves`, `writeDb_readRaw`, `writeDb_no_stale`, `writeDb_other_untouched` hold for it. -/
theorem writeDbE_refines (enc : Enc) (now : Nat) (q : DbReq) (src dst d : Files)
    (h : writeDbE enc now q src dst = (d, none)) : writeDb now q src dst = (d, none) := by
  unfold writeDbE at h
  unfold writeDb
  cases hloop : writeLoopE enc q src now dst q.nameList with
  | mk d1 e =>
    cases e with
    | some e => simp [hloop] at h
    | none =>
      simp only [hloop] at h
      rw [writeLoopE_ok enc q src q.nameList now dst d1 hloop]
      exact h

/-- "preserves every record of every relation it writes" under an encoding -/
theorem writeDbE_preserves (enc : Enc) (now : Nat) (q : DbReq) (src dst d : Files)
    (hnd : q.inPlace = false ∨ q.nameList.Nodup) (h : writeDbE enc now q src dst = (d, none)) (n : Name)
    (hn : n ∈ q.nameList) :
    ∃ fields vals lines, q.target.lookup n = some fields ∧
      sourceVals q fields (if q.inPlace then dst else src) n = .ok vals ∧
      stage fields vals = .ok lines ∧
      (d n).read = some lines ∧ OneForm (d n) ∧
      ((d n).gz.isSome = true ↔ (q.gzip = true ∧ lines ≠ [])) :=
  writeDb_preserves now q src dst d hnd (writeDbE_refines enc now q src dst d h) n hn

/-! ## `initialize_database` -/

/-- "cleanup of undeclared or superseded files": after `initialize_database` no relation of the
schema keeps a file of either form from before; with `files=True` each is one empty plain file. -/
theorem init_clears (now : Nat) (files : Bool) (names : List Name) (dst : Files) (n : Name) (hn : n ∈ names) :
    (initFiles now files names dst n).gz = none ∧
    (initFiles now files names dst n).read = (if files then some [] else none) := by
  unfold initFiles
  cases files <;> simp [hn, Rel.read, Rel.useGz]

theorem init_other_untouched (now : Nat) (files : Bool) (names : List Name) (dst : Files) (n : Name)
    (hn : n ∉ names) : initFiles now files names dst n = dst n := by
  simp [initFiles, hn]

/-- the initialised directory opens with the schema it was given (for schemas satisfying
`schemaOkB`, see `readSchema_writeSchema`) -/
theorem init_reopens (now : Nat) (files : Bool) (tss : SSchema) (dst : DbDir) (h : schemaOkB tss = true) :
    reopenSchema (initDbDir now files tss dst) = .ok tss := by
  simp [initDbDir, reopenSchema, readSchema_writeSchema tss h]

/-! ## column matching by name, no hypothesis on the names

`remake_kept`/`remake_added` (Props.lean) assume pairwise different source column names.  The code
has no such requirement: `dict(zip(field_names, record))` keeps, for a repeated name, the LAST column
of that name that the record is wide enough to have.  These theorems say exactly that, for all
schemas and all record widths. -/

/-- a target column takes the value of the LAST source column of its name within the record's width -/
theorem remake_last (oldF newF : List Field) (rec : RawRec) (i j : Nat) (hi : i < newF.length)
    (hj : j < oldF.length) (hr : j < rec.length) (hname : oldF[j].name = newF[i].name)
    (hlast : ∀ j', j < j' → (h1 : j' < oldF.length) → j' < rec.length → oldF[j'].name ≠ newF[i].name) :
    (remake oldF newF rec)[i]? = some rec[j] := by
  have h := lookupLast_zip_last (oldF.map (·.name)) rec newF[i].name j (by simpa using hj) hr
    (by simpa using hname) (fun j' hlt h1 h2 => by
      have := hlast j' hlt (by simpa using h1) h2
      simpa using this)
  simp [remake, hi, colGet, h]

/-- … and is left empty iff no source column of its name lies within the record's width -/
theorem remake_absent (oldF newF : List Field) (rec : RawRec) (i : Nat) (hi : i < newF.length)
    (habs : ∀ j (h1 : j < oldF.length), j < rec.length → oldF[j].name ≠ newF[i].name) :
    (remake oldF newF rec)[i]? = some none := by
  have h := lookupLast_zip_absent (oldF.map (·.name)) rec newF[i].name (fun j h1 h2 => by
    have := habs j (by simpa using h1) h2
    simpa using this)
  simp [remake, hi, colGet, h]

/-- the same for typed records (source opened with `autocast=True`) -/
theorem remakeV_last (oldF newF : List Field) (rec : List Val) (i j : Nat) (hi : i < newF.length)
    (hj : j < oldF.length) (hr : j < rec.length) (hname : oldF[j].name = newF[i].name)
    (hlast : ∀ j', j < j' → (h1 : j' < oldF.length) → j' < rec.length → oldF[j'].name ≠ newF[i].name) :
    (remakeV oldF newF rec)[i]? = some rec[j] := by
  have h := lookupLast_zip_last (oldF.map (·.name)) rec newF[i].name j (by simpa using hj) hr
    (by simpa using hname) (fun j' hlt h1 h2 => by
      have := hlast j' hlt (by simpa using h1) h2
      simpa using this)
  simp [remakeV, hi, colGetV, h]

theorem remakeV_absent (oldF newF : List Field) (rec : List Val) (i : Nat) (hi : i < newF.length)
    (habs : ∀ j (h1 : j < oldF.length), j < rec.length → oldF[j].name ≠ newF[i].name) :
    (remakeV oldF newF rec)[i]? = some Val.none := by
  have h := lookupLast_zip_absent (oldF.map (·.name)) rec newF[i].name (fun j h1 h2 => by
    have := habs j (by simpa using h1) h2
    simpa using this)
  simp [remakeV, hi, colGetV, h]

/-- `select_from` resolves a column name the same way (`make_field_index` is a dict comprehension):
the index of the LAST field of that name -/
theorem fieldIndex_last (fields : List Field) (n : Name) (j : Nat) (hj : j < fields.length)
    (hname : fields[j].name = n) (hlast : ∀ j', j < j' → (h1 : j' < fields.length) → fields[j'].name ≠ n) :
    fieldIndex fields n = some j := by
  have h := lookupLast_zip_last (fields.map (·.name)) (List.range fields.length) n j (by simpa using hj)
    (by simpa using hj) (by simpa using hname) (fun j' hlt h1 _ => by
      have := hlast j' hlt (by simpa using h1)
      simpa using this)
  simp [fieldIndex, h]

/-- not vacuous, and the width matters: with the record cut short the earlier `x` is the last one in
reach; `select_from` picks index 2 -/
example :
    remake [⟨['x'], .string⟩, ⟨['y'], .string⟩, ⟨['x'], .string⟩] [⟨['x'], .string⟩, ⟨['z'], .string⟩]
      [some ['1'], some ['2'], some ['3']] = [some ['3'], none]
    ∧ remake [⟨['x'], .string⟩, ⟨['y'], .string⟩, ⟨['x'], .string⟩] [⟨['x'], .string⟩, ⟨['z'], .string⟩]
      [some ['1'], some ['2']] = [some ['1'], none]
    ∧ fieldIndex [⟨['x'], .string⟩, ⟨['y'], .string⟩, ⟨['x'], .string⟩] ['x'] = some 2 := by decide

end Verif.C09
