/- C09 helper lemmas, round 6: effect-level `write`, encodings, `dict(zip(...))` with repeated keys. -/
import Verif.C09.Lemmas

namespace Verif.C09
open Verif.Py Verif.Tables
open Verif.C08 (Val)

/-! ### `dict(zip(names, record)).get(n)` without any hypothesis on the names -/

theorem lookupLast_cons {α} (k : Name) (v : α) (rest : List (Name × α)) (n : Name) :
    lookupLast ((k, v) :: rest) n =
      match lookupLast rest n with
      | some x => some x
      | none => if k = n then some v else none := rfl

/-- no column of that name within the record's width: nothing is found -/
theorem lookupLast_zip_absent {α} (ns : List Name) (vs : List α) (n : Name)
    (h : ∀ j (h1 : j < ns.length), j < vs.length → ns[j] ≠ n) :
    lookupLast (ns.zip vs) n = none := by
  induction ns generalizing vs with
  | nil => simp [lookupLast]
  | cons k ns ih =>
    cases vs with
    | nil => simp [lookupLast]
    | cons v vs =>
      have hk : k ≠ n := by
        have := h 0 (by simp) (by simp)
        simpa using this
      have ih' := ih vs (fun j h1 h2 => by
        have := h (j + 1) (by simpa using h1) (by simpa using h2)
        simpa using this)
      rw [List.zip_cons_cons, lookupLast_cons, ih']
      simp [hk]

/-- the LAST column of that name within the record's width is the one found -/
theorem lookupLast_zip_last {α} (ns : List Name) (vs : List α) (n : Name) (j : Nat)
    (hj : j < ns.length) (hv : j < vs.length) (hname : ns[j] = n)
    (hlast : ∀ j', j < j' → (h1 : j' < ns.length) → j' < vs.length → ns[j'] ≠ n) :
    lookupLast (ns.zip vs) n = some vs[j] := by
  induction ns generalizing vs j with
  | nil => simp at hj
  | cons k ns ih =>
    cases vs with
    | nil => simp at hv
    | cons v vs =>
      rw [List.zip_cons_cons, lookupLast_cons]
      cases j with
      | zero =>
        have hk : k = n := by simpa using hname
        have habs := lookupLast_zip_absent ns vs n (fun j' h1 h2 => by
          have := hlast (j' + 1) (by omega) (by simpa using h1) (by simpa using h2)
          simpa using this)
        rw [habs]
        simp [hk]
      | succ j =>
        have hj' : j < ns.length := by simpa using hj
        have hv' : j < vs.length := by simpa using hv
        have ih' := ih vs j hj' hv' (by simpa using hname) (fun j' hlt h1 h2 => by
          have := hlast (j' + 1) (by omega) (by simpa using h1) (by simpa using h2)
          simpa using this)
        rw [ih']
        simp

/-- the exception a computation ends with (for `decide`-checked examples) -/
def errOf {α} : Except Err α → Option Err
  | .ok _ => none
  | .error e => some e

/-! ### staging under an encoding -/

theorem encodeRec_ok (enc : Enc) (fields : List Field) (vals : List Val) (l : Line)
    (h : encodeRec enc fields vals = .ok l) : encodeLine fields vals = .ok l ∧ l.all enc.ok = true := by
  unfold encodeRec at h
  cases he : encodeLine fields vals with
  | error e => simp [he] at h
  | ok l' =>
    simp only [he] at h
    by_cases hall : l'.all enc.ok = true
    · simp [hall] at h; subst h; exact ⟨rfl, hall⟩
    · simp [hall] at h

theorem encodeRec_utf8 (fields : List Field) (vals : List Val) :
    encodeRec .utf8 fields vals = encodeLine fields vals := by
  unfold encodeRec
  cases encodeLine fields vals with
  | error e => rfl
  | ok l =>
    have : l.all (Enc.ok .utf8) = true := by simp [Enc.ok]
    simp [this]

theorem stageEnc_ok (enc : Enc) (fields : List Field) (recs : List (List Val)) (ls : List Line)
    (h : stageEnc enc fields recs = .ok ls) :
    stage fields recs = .ok ls ∧ ∀ l ∈ ls, l.all enc.ok = true := by
  induction recs generalizing ls with
  | nil =>
    have : ls = [] := by simpa [stageEnc, pure, Except.pure] using h.symm
    subst this
    exact ⟨rfl, by simp⟩
  | cons v vs ih =>
    unfold stageEnc at h
    rw [List.mapM_cons] at h
    cases h1 : encodeRec enc fields v with
    | error e => simp [h1, bind, Except.bind] at h
    | ok l =>
      cases h2 : vs.mapM (encodeRec enc fields) with
      | error e => simp [h1, h2, bind, Except.bind] at h
      | ok ls' =>
        simp [h1, h2, bind, Except.bind, pure, Except.pure] at h
        subst h
        obtain ⟨e1, e2⟩ := encodeRec_ok enc fields v l h1
        obtain ⟨i1, i2⟩ := ih ls' h2
        refine ⟨?_, ?_⟩
        · unfold stage at i1 ⊢
          rw [List.mapM_cons, e1, i1]
          rfl
        · intro l' hl'
          rcases List.mem_cons.mp hl' with e | e
          · subst e; exact e2
          · exact i2 l' e

/-- if the records can be staged as characters but some character of some line has no encoding,
the call ends in `UnicodeEncodeError` (a `ValueError`) -/
theorem stageEnc_refuses (enc : Enc) (fields : List Field) (recs : List (List Val)) (ls : List Line)
    (h : stage fields recs = .ok ls) (hbad : ∃ l ∈ ls, l.all enc.ok = false) :
    stageEnc enc fields recs = .error .valueError := by
  induction recs generalizing ls with
  | nil =>
    have : ls = [] := by simpa [stage, pure, Except.pure] using h.symm
    subst this
    simp at hbad
  | cons v vs ih =>
    unfold stage at h
    rw [List.mapM_cons] at h
    cases h1 : encodeLine fields v with
    | error e => simp [h1, bind, Except.bind] at h
    | ok l =>
      cases h2 : vs.mapM (encodeLine fields) with
      | error e => simp [h1, h2, bind, Except.bind] at h
      | ok ls' =>
        simp [h1, h2, bind, Except.bind, pure, Except.pure] at h
        subst h
        unfold stageEnc
        rw [List.mapM_cons]
        by_cases hl : l.all enc.ok = true
        · have e1 : encodeRec enc fields v = .ok l := by simp [encodeRec, h1, hl]
          obtain ⟨l', hl', hb⟩ := hbad
          have hmem : l' ∈ ls' := by
            rcases List.mem_cons.mp hl' with e | e
            · subst e; simp [hl] at hb
            · exact e
          have := ih ls' h2 ⟨l', hmem, hb⟩
          unfold stageEnc at this
          simp [e1, this, bind, Except.bind]
        · have e1 : encodeRec enc fields v = .error .valueError := by simp [encodeRec, h1, hl]
          simp [e1, bind, Except.bind]

/-! ### effects -/

theorem runEffs_append (now : Nat) (s : RelT) (a b : List Eff) :
    runEffs now s (a ++ b) = runEffs now (runEffs now s a) b := by
  simp [runEffs, List.foldl_append]

theorem run_tmpWrites (now : Nat) (r : Rel) (t ls : List Line) :
    runEffs now ⟨r, some t⟩ (ls.map .tmpWrite) = ⟨r, some (t ++ ls)⟩ := by
  induction ls generalizing t with
  | nil => simp [runEffs]
  | cons l ls ih =>
    have : runEffs now ⟨r, some t⟩ ((l :: ls).map .tmpWrite)
        = runEffs now ⟨r, some (t ++ [l])⟩ (ls.map .tmpWrite) := by
      simp [runEffs, Eff.apply]
    rw [this, ih]
    simp

theorem run_staging (now : Nat) (r : Rel) (ls : List Line) :
    runEffs now ⟨r, none⟩ (.mkTemp :: ls.map .tmpWrite) = ⟨r, some ls⟩ := by
  have : runEffs now ⟨r, none⟩ (.mkTemp :: ls.map .tmpWrite)
      = runEffs now ⟨r, some []⟩ (ls.map .tmpWrite) := by
    simp [runEffs, Eff.apply]
  rw [this, run_tmpWrites]
  simp

theorem collect_map {α} (f : α → Except Err Line) (xs : List α) :
    collect (xs.map f) = xs.mapM f := by
  induction xs with
  | nil => rfl
  | cons x xs ih =>
    rw [List.mapM_cons, ← ih]
    unfold collect
    simp only [List.map_cons]
    cases hf : f x with
    | error e => simp [okPrefix, bind, Except.bind]
    | ok l =>
      simp only [okPrefix]
      cases hp : okPrefix (xs.map f) with
      | mk ls e =>
        cases e with
        | none => simp [bind, Except.bind, pure, Except.pure]
        | some e => simp [bind, Except.bind]

theorem okPrefix_collect_ok (recs : List (Except Err Line)) (ls : List Line)
    (h : okPrefix recs = (ls, none)) : collect recs = .ok ls := by
  simp [collect, h]

theorem okPrefix_collect_err (recs : List (Except Err Line)) (ls : List Line) (e : Err)
    (h : okPrefix recs = (ls, some e)) : collect recs = .error e := by
  simp [collect, h]

/-! ### `write_database` under an encoding refines `write_database` -/

theorem writeOneE_ok (enc : Enc) (now : Nat) (q : DbReq) (src dst dst' : Files) (n : Name)
    (h : writeOneE enc now q src dst n = .ok dst') :
    writeOne now q src dst n = .ok dst' ∧
      ∃ lines r', (∀ l ∈ lines, l.all enc.ok = true) ∧
        write now (dst n) ⟨false, q.gzip, .ok lines⟩ = .ok r' ∧ dst' = dst.set n r' := by
  unfold writeOneE at h
  unfold writeOne
  cases hl : q.target.lookup n with
  | none => simp [hl] at h
  | some fields =>
    simp only [hl] at h ⊢
    cases hs : sourceVals q fields (if q.inPlace then dst else src) n with
    | error e => simp [hs, write, bind, Except.bind] at h
    | ok vals =>
      cases hst : stageEnc enc fields vals with
      | error e => simp [hs, hst, write, bind, Except.bind] at h
      | ok lines =>
        obtain ⟨h1, h2⟩ := stageEnc_ok enc fields vals lines hst
        simp only [hs, hst, h1, bind, Except.bind] at h ⊢
        refine ⟨h, ?_⟩
        cases hw : write now (dst n) ⟨false, q.gzip, .ok lines⟩ with
        | error e => simp [hw] at h
        | ok r' =>
          simp [hw] at h
          exact ⟨lines, r', h2, hw, h.symm⟩

theorem writeOneE_utf8 (now : Nat) (q : DbReq) (src dst : Files) (n : Name) :
    writeOneE .utf8 now q src dst n = writeOne now q src dst n := by
  unfold writeOneE writeOne
  have : ∀ fields vals, stageEnc .utf8 fields vals = stage fields vals := by
    intro fields vals
    unfold stageEnc stage
    congr 1
    funext v
    exact encodeRec_utf8 fields v
  simp only [this]

theorem writeLoopE_ok (enc : Enc) (q : DbReq) (src : Files) (names : List Name) (now : Nat) (dst d : Files)
    (h : writeLoopE enc q src now dst names = (d, none)) : writeLoop q src now dst names = (d, none) := by
  induction names generalizing now dst with
  | nil => simpa [writeLoopE, writeLoop] using h
  | cons n ns ih =>
    unfold writeLoopE at h
    unfold writeLoop
    cases hw : writeOneE enc now q src dst n with
    | error e => simp [hw] at h
    | ok dst' =>
      simp only [hw] at h
      rw [(writeOneE_ok enc now q src dst dst' n hw).1]
      exact ih (now + 1) dst' h

theorem writeLoopE_utf8 (q : DbReq) (src : Files) (names : List Name) (now : Nat) (dst : Files) :
    writeLoopE .utf8 q src now dst names = writeLoop q src now dst names := by
  induction names generalizing now dst with
  | nil => rfl
  | cons n ns ih =>
    unfold writeLoopE writeLoop
    rw [writeOneE_utf8]
    cases writeOne now q src dst n with
    | error e => rfl
    | ok dst' => exact ih (now + 1) dst'

end Verif.C09
