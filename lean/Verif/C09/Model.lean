/-
C09 — model of `delphin.tsdb` relation files: `_get_paths/get_path/open`, `write`,
`write_database/_remake_records/make_record`, `_cleanup_files`, and (at the level of
"is the written schema readable again") `_format_schema/_parse_schema`.

Filesystem abstraction (trusted, DESIGN §3): one relation is a pair of optional files
(plain `name`, compressed `name.gz`), a file is a list of lines (without the `\n`
terminator every `write` adds) plus a logical mtime; gzip is the identity on content.
Record encoding/decoding is the C08 model (`escape`, `splitRaw`, `cast`, `format`).
Core Lean only.
-/
import Verif.C08.Model
import Verif.Generated.Tables

namespace Verif.C09
open Verif.Py Verif.Tables
open Verif.C08 (Val DType CastRes escape splitRaw)

inductive Err where
  | notImplemented   -- NotImplementedError: append with gzip / to a compressed relation
  | tsdbError        -- tsdb.TSDBError (column count, invalid escape, missing file)
  | schemaError      -- tsdb.TSDBSchemaError
  | attributeError   -- AttributeError escaping from `_parse_schema`
  | keyError
  | valueError
  | indexError       -- IndexError escaping from `_parse_schema` (`flags.pop(0)` on an empty list)
  | unmodelled
deriving Repr, DecidableEq

def ofC08 : C08.Err → Err
  | .tsdbError => .tsdbError
  | .valueError => .valueError
  | .keyError => .keyError
  | .indexError => .unmodelled
  | .unmodelled => .unmodelled

abbrev Line := List Char

structure File where
  lines : List Line
  mtime : Nat
deriving Repr, DecidableEq

/-- the two possible physical files of one relation -/
structure Rel where
  tx : Option File := none
  gz : Option File := none
deriving Repr, DecidableEq

/-- `_get_paths`: `.gz` is used iff it exists and (plain absent or gz STRICTLY newer). -/
def Rel.useGz (r : Rel) : Bool :=
  match r.gz, r.tx with
  | none, _ => false
  | some _, none => true
  | some g, some t => decide (g.mtime > t.mtime)

/-- `get_path`/`open`: the lines of the chosen file; `none` = `TSDBError` (file does not exist). -/
def Rel.read (r : Rel) : Option (List Line) :=
  if r.useGz then r.gz.map (·.lines) else r.tx.map (·.lines)

/-- one call of `tsdb.write` as far as the files are concerned: the flags and the result of
staging the records into the temp file (an error while staging discards the temp file). -/
structure WReq where
  append : Bool
  gzip : Bool
  staged : Except Err (List Line)

/-- `tsdb.write`.  The refusal test comes first and touches nothing; then staging; then
`gzip and non-empty` decides the destination; the copy uses mode `ab`/`wb`; the other form is
unlinked. -/
def write (now : Nat) (r : Rel) (q : WReq) : Except Err Rel :=
  if q.append && (q.gzip || r.useGz) then .error .notImplemented else
  match q.staged with
  | .error e => .error e
  | .ok lines =>
    if q.gzip && !lines.isEmpty then
      let old := if q.append then (r.gz.map (·.lines)).getD [] else []
      .ok { tx := none, gz := some ⟨old ++ lines, now⟩ }
    else
      let old := if q.append then (r.tx.map (·.lines)).getD [] else []
      .ok { tx := some ⟨old ++ lines, now⟩, gz := none }

/-- what the caller's file system looks like after the call (a raised exception changes nothing) -/
def step (now : Nat) (r : Rel) (q : WReq) : Rel :=
  match write now r q with
  | .ok r' => r'
  | .error _ => r

/-- a history of writes; the clock advances with every call -/
def run (now : Nat) (r : Rel) : List WReq → Rel
  | [] => r
  | q :: qs => run (now + 1) (step now r q) qs

/-! ### what is on disk: text, not lines

`write` copies `join(record) + '\n'` for every record; both `open(newline='\n')` and
`gzip.open(mode='rt', newline='\n')` split that text at `\n` ONLY — a `\r`, `\r\n`, NUL, VT, FF,
NEL … inside a value stays inside its line, in the plain and in the compressed form alike. -/

/-- the characters of a file holding these lines -/
def toText (ls : List Line) : List Char := ls.flatMap (· ++ ['\n'])

/-- iteration over a text file opened with `newline='\n'`: lines end at `\n` only; a final
unterminated fragment is a line of its own -/
def splitLinesAux : List Char → List Char → List Line
  | cur, [] => if cur.isEmpty then [] else [cur.reverse]
  | cur, c :: cs => if c = '\n' then cur.reverse :: splitLinesAux [] cs else splitLinesAux (c :: cur) cs

def splitLines (t : List Char) : List Line := splitLinesAux [] t

/-! ### fields, encoding of records -/

structure Field where
  name : List Char
  dt : DType
deriving Repr, DecidableEq

/-- `Field.default`: coded attribute, else `-1` for `:integer`, else empty. -/
def Field.default (f : Field) : List Char :=
  match codedAttributes.find? (fun p => p.1.toList == f.name) with
  | some p => p.2.toList
  | none => if f.dt = .integer then ['-', '1'] else []

/-- `format(f.datatype, v, default=f.default)` -/
def fmtField (f : Field) (v : Val) : List Char :=
  match v with
  | .none => f.default
  | _ => C08.format f.dt v

/-- `join(record, fields)` for non-empty `fields` (an empty field list makes Python take the
untyped branch: not modelled). -/
def encodeLine (fields : List Field) (vals : List Val) : Except Err Line :=
  if fields.isEmpty then .error .unmodelled
  else if vals.length ≠ fields.length then .error .tsdbError
  else .ok (joinWith fieldDelimiter ((fields.zip vals).map (fun fv => escape (fmtField fv.1 fv.2))))

/-- the staging loop of `write` -/
def stage (fields : List Field) (recs : List (List Val)) : Except Err (List Line) :=
  recs.mapM (encodeLine fields)

abbrev RawRec := List (Option (List Char))

/-- `split(line)` on a line as the file iterator delivers it (with its terminator) -/
def decodeRaw (l : Line) : Except Err RawRec :=
  match splitRaw (l ++ ['\n']) with
  | .ok r => .ok r
  | .error e => .error (ofC08 e)

/-- reading a relation through `Database(autocast=False)[name]` -/
def readRaw (r : Rel) : Except Err (List RawRec) :=
  match r.read with
  | none => .error .tsdbError
  | some ls => (splitLines (toText ls)).mapM decodeRaw

def castRow (fields : List Field) (raw : RawRec) : Except Err (List Val) :=
  if fields.isEmpty then .error .unmodelled
  else if raw.length ≠ fields.length then .error .tsdbError
  else (raw.zip fields).mapM (fun cf =>
    match C08.cast cf.2.dt (cf.1.getD []) with
    | .val v => .ok v
    | .err e => .error (ofC08 e))

/-- reading through `Database(autocast=True)[name]` -/
def readCast (fields : List Field) (r : Rel) : Except Err (List (List Val)) :=
  match r.read with
  | none => .error .tsdbError
  | some ls => (splitLines (toText ls)).mapM (fun l => do castRow fields (← decodeRaw l))

def toVal : Option (List Char) → Val
  | none => .none
  | some s => .str s

/-! ### whole databases -/

abbrev Name := List Char
abbrev Schema := List (Name × List Field)
/-- the relation files of one directory -/
abbrev Files := Name → Rel

def Files.set (fs : Files) (n : Name) (r : Rel) : Files := fun m => if m = n then r else fs m

/-- `dict(pairs).get(n)`: the LAST pair with that key wins. -/
def lookupLast {α} : List (Name × α) → Name → Option α
  | [], _ => none
  | (k, v) :: rest, n =>
    match lookupLast rest n with
    | some x => some x
    | none => if k = n then some v else none

/-- `dict(zip(field_names, record)).get(name)`: `zip` truncates to the shorter list; the LAST column
of that name wins; a missing column and a `None` value both give `None`. -/
def colGet (oldNames : List Name) (rec : RawRec) (n : Name) : Option (List Char) :=
  (lookupLast (oldNames.zip rec) n).getD none

/-- `_remake_records` + `make_record` for one record -/
def remake (oldF newF : List Field) (rec : RawRec) : RawRec :=
  newF.map (fun f => colGet (oldF.map (·.name)) rec f.name)

/-- the same for a record of typed values (source opened with `autocast=True`); a missing column
gives `None` — a value that is merely falsy in Python (`0`, `0.0`) is a value like any other. -/
def colGetV (oldNames : List Name) (rec : List Val) (n : Name) : Val :=
  (lookupLast (oldNames.zip rec) n).getD .none

def remakeV (oldF newF : List Field) (rec : List Val) : List Val :=
  newF.map (fun f => colGetV (oldF.map (·.name)) rec f.name)

structure DbReq where
  srcSchema : Schema            -- `db.schema`, read when `db` was opened
  autocast : Bool := false      -- `db.autocast`: the source relation yields typed values
  inPlace : Bool                -- `path == db.path`
  names : Option (List Name)
  schema : Option Schema
  gzip : Bool

def DbReq.target (q : DbReq) : Schema := q.schema.getD q.srcSchema
def DbReq.nameList (q : DbReq) : List Name := q.names.getD (q.target.map (·.1))

/-- the records `write_database` hands to `write` for relation `name`: the source relation (empty
if it is not in the source schema or has no file), remade by column name when a schema was given -/
def sourceRecords (q : DbReq) (newF : List Field) (from_ : Files) (name : Name) :
    Except Err (List RawRec) :=
  match q.srcSchema.lookup name with
  | none => .ok []
  | some oldF =>
    match (from_ name).read with
    | none => .ok []            -- TSDBError of `db[name]` is swallowed
    | some ls => do
      let recs ← (splitLines (toText ls)).mapM decodeRaw
      pure (if q.schema.isSome then recs.map (remake oldF newF) else recs)

/-- the same for a source opened with `autocast=True`: every line is split with the source fields
(column count checked, every cell cast to its datatype — an error there aborts the call while the
temp file is being filled), the typed records are remade by column name when a schema was given. -/
def sourceTyped (q : DbReq) (newF : List Field) (from_ : Files) (name : Name) :
    Except Err (List (List Val)) :=
  match q.srcSchema.lookup name with
  | none => .ok []
  | some oldF =>
    match (from_ name).read with
    | none => .ok []
    | some ls => do
      let recs ← (splitLines (toText ls)).mapM (fun l => do castRow oldF (← decodeRaw l))
      pure (if q.schema.isSome then recs.map (remakeV oldF newF) else recs)

/-- the values handed to `join(record, fields)` -/
def sourceVals (q : DbReq) (newF : List Field) (from_ : Files) (name : Name) :
    Except Err (List (List Val)) :=
  if q.autocast then sourceTyped q newF from_ name
  else match sourceRecords q newF from_ name with
    | .ok recs => .ok (recs.map (·.map toVal))
    | .error e => .error e

/-- body of the `for name in names` loop -/
def writeOne (now : Nat) (q : DbReq) (src dst : Files) (name : Name) : Except Err Files :=
  match q.target.lookup name with
  | none => .error .keyError
  | some fields =>
    let from_ := if q.inPlace then dst else src
    let staged : Except Err (List Line) := do
      let vals ← sourceVals q fields from_ name
      stage fields vals
    match write now (dst name) { append := false, gzip := q.gzip, staged := staged } with
    | .ok r' => .ok (dst.set name r')
    | .error e => .error e

/-- the loop stops at the first exception, keeping what was already written -/
def writeLoop (q : DbReq) (src : Files) : Nat → Files → List Name → Files × Option Err
  | _, dst, [] => (dst, none)
  | now, dst, n :: ns =>
    match writeOne now q src dst n with
    | .ok dst' => writeLoop q src (now + 1) dst' ns
    | .error e => (dst, some e)

/-- `_cleanup_files` -/
def cleanup (dst : Files) (ns : List Name) : Files := fun n => if n ∈ ns then {} else dst n

/-- `write_database`; the destination's `relations` file is `q.target` afterwards in every case
(it is written before the loop). -/
def writeDb (now : Nat) (q : DbReq) (src dst : Files) : Files × Option Err :=
  match writeLoop q src now dst q.nameList with
  | (d, some e) => (d, some e)
  | (d, none) => (cleanup d ((q.target.map (·.1)).filter (fun n => !(q.nameList.contains n))), none)

/-! ### the `relations` file at line level: `Field.__str__`, `_format_schema`, `_parse_schema`

The text of the file is modelled as its list of lines (`str.splitlines` of what `write_schema`
wrote; trusted: no line of a formatted schema contains a line-break character, which holds when
names, flags and comments do not).  `\w`, `\s`, `str.strip`, `str.split` are modelled on ASCII
plus the few Latin-1 spaces; the generators stay in printable ASCII + TAB. -/

structure SField where
  name : List Char
  datatype : List Char
  flags : List (List Char)
  comment : Option (List Char)
deriving Repr, DecidableEq

abbrev SSchema := List (Name × List SField)

/-- `str.isspace` / regex `\s` (ASCII, FS..US, NEL, NBSP) -/
def isSpace (c : Char) : Bool :=
  c = ' ' || c = '\t' || c = '\n' || c = '\r' || c.toNat = 11 || c.toNat = 12
  || (28 ≤ c.toNat && c.toNat ≤ 31) || c.toNat = 0x85 || c.toNat = 0xa0
  || c.toNat = 0x1680 || (0x2000 ≤ c.toNat && c.toNat ≤ 0x200a) || c.toNat = 0x2028 || c.toNat = 0x2029
  || c.toNat = 0x202f || c.toNat = 0x205f || c.toNat = 0x3000

/-- the characters `str.splitlines` breaks at -/
def isLineBreak (c : Char) : Bool :=
  c = '\n' || c = '\r' || c.toNat = 11 || c.toNat = 12 || (28 ≤ c.toNat && c.toNat ≤ 30)
  || c.toNat = 0x85 || c.toNat = 0x2028 || c.toNat = 0x2029

/-- `str.splitlines()`: `\r\n` is one break; no empty last line after a final break -/
def splitlinesAux : List Char → List Char → List Line
  | cur, [] => if cur.isEmpty then [] else [cur.reverse]
  | cur, [c] => if isLineBreak c then [cur.reverse] else [(c :: cur).reverse]
  | cur, c :: d :: cs =>
    if c = '\r' && d = '\n' then cur.reverse :: splitlinesAux [] cs
    else if isLineBreak c then cur.reverse :: splitlinesAux [] (d :: cs)
    else splitlinesAux (c :: cur) (d :: cs)

def splitlinesPy (t : List Char) : List Line := splitlinesAux [] t

/-- `str.ljust(n)` -/
def ljust (n : Nat) (s : List Char) : List Char := s ++ List.replicate (n - s.length) ' '

/-- `Field.__str__` -/
def fmtSField (f : SField) : Line :=
  let s := ' ' :: ' ' :: joinWith ' ' (f.name :: f.datatype :: f.flags)
  match f.comment with
  | none => s
  | some c => if c.isEmpty then s else ljust 40 s ++ '#' :: ' ' :: c

/-- `'\n'.join(xs)` seen as lines: the empty join is one empty line -/
def joinLines (xs : List Line) : List Line := if xs.isEmpty then [[]] else xs

def fmtTable (t : Name × List SField) : List Line :=
  (t.1 ++ [':']) :: joinLines (t.2.map fmtSField)

/-- `_format_schema(schema) + '\n'`, as `splitlines()` sees it: tables separated by one blank line -/
def formatSchema : SSchema → List Line
  | [] => [[]]
  | [t] => fmtTable t
  | t :: ts => fmtTable t ++ [] :: formatSchema ts

/-- `str.strip()` -/
def strip (l : List Char) : List Char := ((l.dropWhile isSpace).reverse.dropWhile isSpace).reverse

/-- `str.split()`: `cur` is the token being read, reversed -/
def splitWsAux : List Char → List Char → List (List Char)
  | cur, [] => if cur.isEmpty then [] else [cur.reverse]
  | cur, c :: cs =>
    if isSpace c then (if cur.isEmpty then splitWsAux [] cs else cur.reverse :: splitWsAux [] cs)
    else splitWsAux (c :: cur) cs

def splitWs (s : List Char) : List (List Char) := splitWsAux [] s

/-- `re.match(r'^(?P<table>\w.*):$', line)` on a stripped line: first character a word character,
last character the colon, at least two characters -/
def tableMatch (L : List Char) : Option Name :=
  match L with
  | c :: tl =>
    if C08.isAsciiWord c && !tl.isEmpty && tl.getLast? == some ':' then some (c :: tl.dropLast) else none
  | [] => none

/-- the field pattern `\s*(?P<name>\S+)(\s+(?P<flags>[^#]+))?(\s*#\s*(?P<comment>.*)$)?` on a
stripped non-empty line, followed by `flags.split()` / `flags.pop(0)`:
* name = the maximal run of non-space characters;
* flags group: all following white space, then the maximal `#`-free run — if that run would be
  empty (end of line or `#` right after the white space) the engine backtracks and gives the LAST
  white-space character to the flags group, which needs two of them; otherwise the group does not
  participate (`None.split()` → AttributeError);
* comment group: optional white space, `#`, white space, rest of the line. -/
def parseFieldLine (L : List Char) : Except Err SField :=
  let name := L.takeWhile (fun c => !isSpace c)
  let rest := L.dropWhile (fun c => !isSpace c)
  let W := rest.takeWhile isSpace
  let X := rest.dropWhile isSpace
  let flagsTxt : Option (List Char × List Char) :=
    if X.head?.any (fun c => c != '#') then some (X.takeWhile (fun c => c != '#'), X.dropWhile (fun c => c != '#'))
    else match W.reverse with
      | w :: _ :: _ => some ([w], X)
      | _ => none
  match flagsTxt with
  | none => .error .attributeError
  | some (ft, R) =>
    let comment := match R.dropWhile isSpace with
      | '#' :: r => some (r.dropWhile isSpace)
      | _ => none
    match splitWs ft with
    | [] => .error .indexError
    | dt :: fl => .ok { name := name, datatype := dt, flags := fl, comment := comment }

/-- parser state: the finished tables in order and the table being filled -/
structure PState where
  done : List (Name × List SField) := []
  cur : Option (Name × List SField) := none
deriving Repr

def PState.tables (st : PState) : SSchema := st.done ++ st.cur.toList

/-- one turn of the `while lines:` loop of `_parse_schema` -/
def parseLine (st : PState) (line : Line) : Except Err PState :=
  let L := strip line
  match tableMatch L with
  | some t =>
    if (st.tables.map (·.1)).contains t then .error .schemaError      -- table redefined
    else .ok { done := st.tables, cur := some (t, []) }
  | none =>
    if L.isEmpty then .ok st
    else match st.cur with
      | none => .error .schemaError                                 -- invalid line in schema file
      | some (t, fs) =>
        match parseFieldLine L with
        | .ok f => .ok { st with cur := some (t, fs ++ [f]) }
        | .error e => .error e

def parseLines : PState → List Line → Except Err PState
  | st, [] => .ok st
  | st, l :: ls =>
    match parseLine st l with
    | .ok st' => parseLines st' ls
    | .error e => .error e

/-- `_parse_schema` -/
def parseSchema (lines : List Line) : Except Err SSchema :=
  match parseLines {} lines with
  | .ok st => .ok st.tables
  | .error e => .error e

/-- what `write_database` / `initialize_database` leave in the `relations` file of the
destination (written before anything else, whatever happens afterwards) -/
def writeSchemaFile (target : SSchema) : List Line := formatSchema target

/-- `tsdb.Database(path)` / `read_schema(path)` on that directory -/
def openSchema (relationsFile : List Line) : Except Err SSchema := parseSchema relationsFile

/-- `write_schema`: the characters of the `relations` file, `_format_schema(schema) + '\n'` -/
def writeSchema (s : SSchema) : List Char := toText (formatSchema s)

/-- `read_schema`: `_parse_schema(path.read_text())` (the universal-newline translation of
`read_text` maps `\r\n` and `\r` to `\n`, all of which `splitlines` treats as one break anyway) -/
def readSchema (t : List Char) : Except Err SSchema := parseSchema (splitlinesPy t)

def dtypeText : DType → List Char
  | .integer => ":integer".toList
  | .string => ":string".toList
  | .date => ":date".toList

def SField.ofField (f : Field) : SField := { name := f.name, datatype := dtypeText f.dt, flags := [], comment := none }

def dtypeOfText (s : List Char) : Option DType :=
  if s = ":integer".toList then some .integer
  else if s = ":string".toList then some .string
  else if s = ":date".toList then some .date
  else none

/-- the data-level view (name, datatype) of a schema read from the file; `none` for a datatype the
data model does not cover -/
def SSchema.toSchema (ss : SSchema) : Option Schema :=
  ss.mapM (fun t => do
    let fs ← t.2.mapM (fun f => do pure ({ name := f.name, dt := ← dtypeOfText f.datatype } : Field))
    pure (t.1, fs))

/-! ### the reading interfaces: `tsdb.open`, `Database.__getitem__`, `Database.select_from` -/

/-- `tsdb.open(dir, name)` iterated: the lines of the chosen file (plain or `.gz` by `_get_paths`)
with their terminators; `TSDBError` if neither file exists -/
def openLines (r : Rel) : Except Err (List (List Char)) :=
  match r.read with
  | none => .error .tsdbError
  | some ls => .ok ((splitLines (toText ls)).map (· ++ ['\n']))

/-- `split(line)` without fields -/
def splitLine (line : List Char) : Except Err RawRec :=
  match splitRaw line with
  | .ok r => .ok r
  | .error e => .error (ofC08 e)

/-- `make_field_index(fields)[name]`: a dict comprehension, the LAST column of a name wins -/
def fieldIndex (fields : List Field) (n : Name) : Option Nat :=
  lookupLast ((fields.map (·.name)).zip (List.range fields.length)) n

/-- `indices = [index[column] for column in columns]` (`KeyError` for an unknown column; all
columns when `columns is None`) -/
def selIndices (fields : List Field) (cols : Option (List Name)) : Except Err (List Nat) :=
  (cols.getD (fields.map (·.name))).mapM (fun c =>
    match fieldIndex fields c with
    | some i => .ok i
    | none => .error .keyError)

/-- `tuple(record[idx] for idx in indices)` (`IndexError` for a short record) -/
def projectRow {α} (idxs : List Nat) (rec : List α) : Except Err (List α) :=
  idxs.mapM (fun i => match rec[i]? with | some x => .ok x | none => .error .indexError)

/-- `cast(datatype, raw_value)` -/
def castCell (dt : DType) (c : Option (List Char)) : Except Err Val :=
  match C08.cast dt (c.getD []) with
  | .val v => .ok v
  | .err e => .error (ofC08 e)

/-- `Database(autocast=False).select_from(name, columns)` -/
def selectRaw (fields : List Field) (cols : Option (List Name)) (r : Rel) : Except Err (List RawRec) := do
  let idxs ← selIndices fields cols
  let lines ← openLines r
  lines.mapM (fun l => do projectRow idxs (← splitLine l))

/-- `Database(autocast=False).select_from(name, columns, cast=True)`: only the selected cells are
cast, one after the other -/
def selectCast (fields : List Field) (cols : Option (List Name)) (r : Rel) : Except Err (List (List Val)) := do
  let idxs ← selIndices fields cols
  let lines ← openLines r
  lines.mapM (fun l => do
    let rec_ ← splitLine l
    idxs.mapM (fun i =>
      match fields[i]?, rec_[i]? with
      | some f, some c => castCell f.dt c
      | _, _ => .error .indexError))

/-- `Database(autocast=True).select_from(name, columns)` (the `cast` flag is then ignored): whole
records are split with the fields (count checked, every cell cast), then projected -/
def selectAuto (fields : List Field) (cols : Option (List Name)) (r : Rel) : Except Err (List (List Val)) := do
  let idxs ← selIndices fields cols
  let lines ← openLines r
  lines.mapM (fun l => do projectRow idxs (← castRow fields (← splitLine l)))

/-! ### a database directory: the `relations` file and the relation files -/

structure DbDir where
  relations : Option (List Char) := none
  files : Files

/-- `write_database` on a directory: the `relations` file is `write_schema(path, schema)` of the
target schema — written before the loop, so also when the loop raises — and the relation files are
those of `writeDb`.  `tss` is the target schema with flags and comments. -/
def writeDbDir (now : Nat) (q : DbReq) (tss : SSchema) (src : Files) (dst : DbDir) : DbDir × Option Err :=
  match writeDb now q src dst.files with
  | (d, e) => ({ relations := some (writeSchema tss), files := d }, e)

/-- `tsdb.Database(path).schema` -/
def reopenSchema (d : DbDir) : Except Err SSchema :=
  match d.relations with
  | none => .error .tsdbError
  | some t => readSchema t

/-! ### encodings (`encoding=` of `write`, `write_database`, `Database`, `open`)

Trusted: a file written under an encoding and read under the same encoding gives the characters
back (the codecs are not modelled); what IS modelled is where `str.encode` refuses a character,
because that is an error raised in the middle of staging. -/

inductive Enc where
  | utf8 | latin1 | ascii
deriving Repr, DecidableEq

/-- `c.encode(enc)` succeeds.  A Lean `Char` is a Unicode scalar value, so UTF-8 never refuses
(lone surrogates, which Python strings can hold, are outside the model). -/
def Enc.ok : Enc → Char → Bool
  | .utf8, _ => true
  | .latin1, c => decide (c.toNat < 256)
  | .ascii, c => decide (c.toNat < 128)

/-- `(join(record, fields) + '\n').encode(encoding)` for one record: the `TSDBError` of `join`
comes first, then `UnicodeEncodeError` (a `ValueError`). -/
def encodeRec (enc : Enc) (fields : List Field) (vals : List Val) : Except Err Line :=
  match encodeLine fields vals with
  | .ok l => if l.all enc.ok then .ok l else .error .valueError
  | .error e => .error e

/-- the staging loop of `write` under an encoding -/
def stageEnc (enc : Enc) (fields : List Field) (recs : List (List Val)) : Except Err (List Line) :=
  recs.mapM (encodeRec enc fields)

/-! ### `tsdb.write` as a sequence of file-system effects

`write` above gives the end result of a call.  Here the same call is the list of primitive effects
the code performs, in order: nothing at all when the request is refused; otherwise the temp file is
created in the directory, one line is staged per record pulled from the caller's iterable (the
relation files are not touched meanwhile), then — only if every record could be staged — the temp file
is copied onto the destination (`ab`/`wb`, plain or `GzipFile`), the temp file disappears at the end
of the `with` block, and the other physical form is unlinked. -/

/-- the relation files together with the staging file of a `write` in progress -/
structure RelT where
  rel : Rel
  tmp : Option (List Line) := none
deriving Repr, DecidableEq

inductive Eff where
  | mkTemp                        -- `NamedTemporaryFile(prefix=name, suffix='.tmp', dir=dir)`
  | tmpWrite (l : Line)           -- `f_tmp.write((join(record, fields) + '\n').encode(encoding))`
  | copy (gz append : Bool)       -- `copyfileobj(f_tmp, GzipFile(dest, mode) | dest.open(mode))`
  | rmTemp                        -- end of the `with` block (also when an exception passes through)
  | unlinkOther (gz : Bool)       -- `other.unlink()` if it is a file; `gz` = the form removed
deriving Repr, DecidableEq

def Eff.apply (now : Nat) (s : RelT) : Eff → RelT
  | .mkTemp => { s with tmp := some [] }
  | .tmpWrite l => { s with tmp := s.tmp.map (· ++ [l]) }
  | .copy gz app =>
    let lines := s.tmp.getD []
    if gz then
      let old := if app then (s.rel.gz.map (·.lines)).getD [] else []
      { s with rel := { s.rel with gz := some ⟨old ++ lines, now⟩ } }
    else
      let old := if app then (s.rel.tx.map (·.lines)).getD [] else []
      { s with rel := { s.rel with tx := some ⟨old ++ lines, now⟩ } }
  | .rmTemp => { s with tmp := none }
  | .unlinkOther gz =>
    if gz then { s with rel := { s.rel with gz := none } } else { s with rel := { s.rel with tx := none } }

def runEffs (now : Nat) (s : RelT) (es : List Eff) : RelT := es.foldl (Eff.apply now) s

/-- a request at effect level: the flags and, per record of the caller's iterable, the result of
`(join(record, fields) + '\n').encode(encoding)`; the iterable is consumed lazily and the loop
stops at the first record that raises -/
structure WReqE where
  append : Bool
  gzip : Bool
  recs : List (Except Err Line)

/-- the lines staged before the first failing record, and that record's error -/
def okPrefix : List (Except Err Line) → List Line × Option Err
  | [] => ([], none)
  | .ok l :: rest => ((l :: (okPrefix rest).1), (okPrefix rest).2)
  | .error e :: _ => ([], some e)

/-- all records staged, or the first error -/
def collect (recs : List (Except Err Line)) : Except Err (List Line) :=
  match okPrefix recs with
  | (ls, none) => .ok ls
  | (_, some e) => .error e

def WReqE.toWReq (q : WReqE) : WReq := { append := q.append, gzip := q.gzip, staged := collect q.recs }

/-- the effects of one call of `tsdb.write`, and the exception it ends with -/
def effects (r : Rel) (q : WReqE) : List Eff × Option Err :=
  if q.append && (q.gzip || r.useGz) then ([], some .notImplemented) else
  match okPrefix q.recs with
  | (ls, some e) => (.mkTemp :: ls.map .tmpWrite ++ [.rmTemp], some e)
  | (ls, none) =>
    let gz := q.gzip && !ls.isEmpty
    (.mkTemp :: ls.map .tmpWrite ++ [.copy gz q.append, .rmTemp, .unlinkOther (!gz)], none)

/-- the states of the directory at the moments the caller's iterable is asked for its next record
(once per staged record, plus the pull that fails or finds the iterable exhausted); none for a
refused request: its iterable is never touched -/
def duringStates (now : Nat) (r : Rel) (q : WReqE) : List RelT :=
  if q.append && (q.gzip || r.useGz) then [] else
  let ls := (okPrefix q.recs).1
  (List.range (ls.length + 1)).map (fun k => runEffs now ⟨r, none⟩ (.mkTemp :: (ls.take k).map .tmpWrite))

/-- how often the caller's iterable is asked for a record: never for a refused request, else once per
staged record plus the pull that fails or finds it exhausted -/
def pullCount (r : Rel) (q : WReqE) : Nat :=
  if q.append && (q.gzip || r.useGz) then 0 else (okPrefix q.recs).1.length + 1

/-- the call without its intermediate states (linear in the size of the request): the state after it
and its exception.  `effects_digest` (FsProps.lean) shows it is what running the effects gives. -/
def writeDigest (now : Nat) (r : Rel) (q : WReqE) : Rel × Option Err :=
  match write now r q.toWReq with
  | .ok r' => (r', none)
  | .error e => (r, some e)

/-! ### `write_database` under an encoding; `initialize_database` -/

/-- body of the `for name in names` loop with `encoding=enc` handed down to `write` -/
def writeOneE (enc : Enc) (now : Nat) (q : DbReq) (src dst : Files) (name : Name) : Except Err Files :=
  match q.target.lookup name with
  | none => .error .keyError
  | some fields =>
    let from_ := if q.inPlace then dst else src
    let staged : Except Err (List Line) := do
      let vals ← sourceVals q fields from_ name
      stageEnc enc fields vals
    match write now (dst name) { append := false, gzip := q.gzip, staged := staged } with
    | .ok r' => .ok (dst.set name r')
    | .error e => .error e

def writeLoopE (enc : Enc) (q : DbReq) (src : Files) : Nat → Files → List Name → Files × Option Err
  | _, dst, [] => (dst, none)
  | now, dst, n :: ns =>
    match writeOneE enc now q src dst n with
    | .ok dst' => writeLoopE enc q src (now + 1) dst' ns
    | .error e => (dst, some e)

def writeDbE (enc : Enc) (now : Nat) (q : DbReq) (src dst : Files) : Files × Option Err :=
  match writeLoopE enc q src now dst q.nameList with
  | (d, some e) => (d, some e)
  | (d, none) => (cleanup d ((q.target.map (·.1)).filter (fun n => !(q.nameList.contains n))), none)

def writeDbDirE (enc : Enc) (now : Nat) (q : DbReq) (tss : SSchema) (src : Files) (dst : DbDir) : DbDir × Option Err :=
  match writeDbE enc now q src dst.files with
  | (d, e) => ({ relations := some (writeSchema tss), files := d }, e)

/-- `initialize_database(path, schema, files)`: the schema is written, both forms of every relation
of the schema are removed (`_cleanup_files(path, set(schema))`), and with `files=True` an empty plain
file is created for each of them; files of other relations stay. -/
def initFiles (now : Nat) (files : Bool) (names : List Name) (dst : Files) : Files :=
  fun n => if n ∈ names then (if files then { tx := some ⟨[], now⟩, gz := none } else {}) else dst n

def initDbDir (now : Nat) (files : Bool) (tss : SSchema) (dst : DbDir) : DbDir :=
  { relations := some (writeSchema tss), files := initFiles now files (tss.map (·.1)) dst.files }

/-! ### the directory at the level of file NAMES: `_cleanup_files`

`Files` above is keyed by relation name, so "cleaning `item` must not delete `item-set`" cannot even
be said there.  Here a directory maps file names to files; a relation `n` owns the names `n` and
`n ++ ".gz"` (`Path(path, n).with_suffix('')` / `.with_suffix('.gz')` for dot-free `n`). -/

abbrev FName := List Char
abbrev Dir := FName → Option File

def gzSuffix : List Char := ['.', 'g', 'z']

def dotFree (n : Name) : Bool := n.all (fun c => c != '.')

/-- `_cleanup_files(path, names)`: for every name both files are unlinked if they are files -/
def cleanupDir (d : Dir) (names : List Name) : Dir :=
  fun fn => if names.any (fun n => decide (fn = n) || decide (fn = n ++ gzSuffix)) then none else d fn

/-- the two physical files of relation `n` in a directory -/
def Dir.rel (d : Dir) (n : Name) : Rel := { tx := d n, gz := d (n ++ gzSuffix) }

/-- the directory holding the relation files `fs` (relation names dot-free) and nothing else -/
def Dir.ofFiles (fs : Files) : Dir := fun fn =>
  let base := fn.takeWhile (fun c => c != '.')
  let ext := fn.dropWhile (fun c => c != '.')
  if ext.isEmpty then (fs base).tx else if ext = gzSuffix then (fs base).gz else none

/-- `write_database` with its final `_cleanup_files` done on file names: the loop as before, then the
directory of the loop's result is cleaned, and the relations are read off the cleaned directory -/
def writeDbFiles (enc : Enc) (now : Nat) (q : DbReq) (src dst : Files) : (Name → Rel) × Option Err :=
  match writeLoopE enc q src now dst q.nameList with
  | (d, some e) => (d, some e)
  | (d, none) =>
    ((cleanupDir (Dir.ofFiles d) ((q.target.map (·.1)).filter (fun n => !(q.nameList.contains n)))).rel, none)

/-! ### histories of operations on one database directory -/

inductive DbOp where
  | write (n : Name) (q : WReq)                              -- `tsdb.write(dir, n, …)`
  | writeDbInPlace (enc : Enc) (q : DbReq)                   -- `write_database(db, db.path, …)`
  | writeDbFrom (enc : Enc) (q : DbReq) (src : Files)        -- another database written onto this directory
  | init (files : Bool) (names : List Name)                  -- `initialize_database(dir, schema, files)`

/-- what the directory holds after the operation, whether it raised or not -/
def dbStep (now : Nat) (fs : Files) : DbOp → Files
  | .write n q => fs.set n (step now (fs n) q)
  | .writeDbInPlace enc q => (writeDbE enc now { q with inPlace := true } fs fs).1
  | .writeDbFrom enc q src => (writeDbE enc now { q with inPlace := false } src fs).1
  | .init files names => initFiles now files names fs

def dbRun (now : Nat) (fs : Files) : List DbOp → Files
  | [] => fs
  | op :: ops => dbRun (now + 1) (dbStep now fs op) ops

/-! ### crash points: the directory after every prefix of the effects -/

/-- the relation files after each prefix of the effects of one `write` (first = before, last = after) -/
def relCrash (now : Nat) (r : Rel) (q : WReqE) : List Rel :=
  (List.range ((effects r q).1.length + 1)).map (fun k => (runEffs now ⟨r, none⟩ ((effects r q).1.take k)).rel)

/-- the request `write_database` hands to `write` for one relation, record by record (a source that
cannot be read or remade fails at the first pull); `none`: the name is not in the target schema
(`KeyError` before any effect) -/
def dbReqE (enc : Enc) (q : DbReq) (src dst : Files) (name : Name) : Option WReqE :=
  match q.target.lookup name with
  | none => none
  | some fields =>
    let from_ := if q.inPlace then dst else src
    some { append := false, gzip := q.gzip,
           recs := match sourceVals q fields from_ name with
             | .ok vals => vals.map (encodeRec enc fields)
             | .error e => [.error e] }

/-- every state the destination directory goes through during the loop of `write_database` -/
def loopCrash (enc : Enc) (q : DbReq) (src : Files) : Nat → Files → List Name → List Files
  | _, dst, [] => [dst]
  | now, dst, n :: ns =>
    (match dbReqE enc q src dst n with
      | some qe => (relCrash now (dst n) qe).map (fun r => dst.set n r)
      | none => [dst]) ++
    match writeOneE enc now q src dst n with
    | .ok dst' => loopCrash enc q src (now + 1) dst' ns
    | .error _ => []

end Verif.C09
