/- C09 helper definitions and lemmas (the logical specification the model is refined to). -/
import Verif.C09.Model
import Verif.C08.Lemmas

namespace Verif.C09
open Verif.Py Verif.Tables

/-- what a reader sees of a relation: the records (none = no file) and whether they come from
the compressed form -/
structure Abs where
  content : Option (List Line)
  compressed : Bool
deriving Repr, DecidableEq

def abs (r : Rel) : Abs := ⟨r.read, r.useGz⟩

/-- the logical effect of one `write` request on what a reader sees: a refused request
(append together with gzip, or append onto compressed data) and a request whose staging failed
change nothing; otherwise the new content is the written lines, preceded by the old content for an
append; it is compressed iff requested and non-empty. -/
def absStep (a : Abs) (q : WReq) : Abs :=
  if q.append && (q.gzip || a.compressed) then a else
  match q.staged with
  | .error _ => a
  | .ok lines => ⟨some ((if q.append then a.content.getD [] else []) ++ lines), q.gzip && !lines.isEmpty⟩

/-- lines a request carries (none if its staging failed) -/
def linesOf (q : WReq) : List Line :=
  match q.staged with
  | .ok l => l
  | .error _ => []

/-- exactly one of the two physical files exists -/
def OneForm (r : Rel) : Prop := (r.tx.isSome = true ∧ r.gz.isSome = false) ∨ (r.tx.isSome = false ∧ r.gz.isSome = true)

theorem useGz_tx_only (f : File) : (Rel.useGz { tx := some f, gz := none }) = false := rfl
theorem useGz_gz_only (f : File) : (Rel.useGz { tx := none, gz := some f }) = true := rfl

theorem read_not_useGz (r : Rel) (h : r.useGz = false) : r.read = r.tx.map (·.lines) := by
  simp [Rel.read, h]

theorem abs_step (now : Nat) (r : Rel) (q : WReq) : abs (step now r q) = absStep (abs r) q := by
  unfold step write absStep abs
  cases hrej : (q.append && (q.gzip || r.useGz))
  · cases hst : q.staged with
    | error e => simp
    | ok lines =>
      cases hgz : (q.gzip && !lines.isEmpty)
      · -- plain destination
        cases hap : q.append
        · simp [hgz, Rel.read, Rel.useGz]
        · have hu : r.useGz = false := by
            cases hu : r.useGz <;> simp [hap, hu] at hrej ⊢
          have hg : q.gzip = false := by
            cases hg : q.gzip <;> simp [hap, hg] at hrej ⊢
          simp [hgz, hu, Rel.read, useGz_tx_only]
      · -- compressed destination: then it is not an append
        have hg : q.gzip = true := by
          cases hg : q.gzip <;> simp [hg] at hgz ⊢
        have hap : q.append = false := by
          cases hap : q.append <;> simp [hap, hg] at hrej ⊢
        simp [hgz, hap, Rel.read, Rel.useGz]
  · simp

theorem abs_run (now : Nat) (r : Rel) (qs : List WReq) :
    abs (run now r qs) = qs.foldl absStep (abs r) := by
  induction qs generalizing now r with
  | nil => rfl
  | cons q qs ih => simp [run, ih, abs_step]

/-- folding appends over a plain (uncompressed) content -/
theorem fold_appends_plain (c : List Line) (apps : List WReq) (happ : ∀ a ∈ apps, a.append = true) :
    apps.foldl absStep ⟨some c, false⟩ =
      ⟨some (c ++ (apps.filter (fun a => !a.gzip)).flatMap linesOf), false⟩ := by
  induction apps generalizing c with
  | nil => simp
  | cons a apps ih =>
    have ha : a.append = true := happ a (by simp)
    have happ' : ∀ b ∈ apps, b.append = true := fun b hb => happ b (by simp [hb])
    rw [List.foldl_cons]
    cases hg : a.gzip
    · cases hst : a.staged with
      | error e =>
        have : absStep ⟨some c, false⟩ a = ⟨some c, false⟩ := by simp [absStep, ha, hg, hst]
        rw [this, ih c happ']
        simp [hg, linesOf, hst]
      | ok lines =>
        have : absStep ⟨some c, false⟩ a = ⟨some (c ++ lines), false⟩ := by simp [absStep, ha, hg, hst]
        rw [this, ih (c ++ lines) happ']
        simp [hg, linesOf, hst, List.append_assoc]
    · have : absStep ⟨some c, false⟩ a = ⟨some c, false⟩ := by simp [absStep, ha, hg]
      rw [this, ih c happ']
      simp [hg]

/-- appends onto compressed content are all refused -/
theorem fold_appends_compressed (c : Option (List Line)) (apps : List WReq)
    (happ : ∀ a ∈ apps, a.append = true) :
    apps.foldl absStep ⟨c, true⟩ = ⟨c, true⟩ := by
  induction apps with
  | nil => rfl
  | cons a apps ih =>
    have ha : a.append = true := happ a (by simp)
    have : absStep ⟨c, true⟩ a = ⟨c, true⟩ := by simp [absStep, ha]
    rw [List.foldl_cons, this]
    exact ih (fun b hb => happ b (by simp [hb]))

end Verif.C09

/-! ### records remade by column name -/

namespace Verif.C09
open Verif.Py Verif.Tables
open Verif.C08 (Val)

theorem lookupLast_zip_none (ns : List Name) (vs : RawRec) (n : Name) (h : n ∉ ns) :
    lookupLast (ns.zip vs) n = none := by
  induction ns generalizing vs with
  | nil => simp [lookupLast]
  | cons k ns ih =>
    cases vs with
    | nil => simp [lookupLast]
    | cons v vs =>
      have hk : k ≠ n := fun e => h (by simp [e])
      have hn : n ∉ ns := fun e => h (by simp [e])
      simp [List.zip_cons_cons, lookupLast, ih vs hn, hk]

theorem colGet_not_mem (ns : List Name) (vs : RawRec) (n : Name) (h : n ∉ ns) : colGet ns vs n = none := by
  simp [colGet, lookupLast_zip_none ns vs n h]

theorem colGet_cons (k : Name) (ns : List Name) (v : Option (List Char)) (vs : RawRec) (n : Name) :
    colGet (k :: ns) (v :: vs) n =
      match lookupLast (ns.zip vs) n with
      | some x => x
      | none => if k = n then v else none := by
  unfold colGet
  simp only [List.zip_cons_cons, lookupLast]
  cases lookupLast (ns.zip vs) n with
  | none => by_cases hk : k = n <;> simp [hk]
  | some x => simp

theorem colGet_get (ns : List Name) (vs : RawRec) (hnd : ns.Nodup) (j : Nat) (hj : j < ns.length)
    (hv : j < vs.length) : colGet ns vs ns[j] = vs[j] := by
  induction ns generalizing vs j with
  | nil => simp at hj
  | cons k ns ih =>
    cases vs with
    | nil => simp at hv
    | cons v vs =>
      have hk : k ∉ ns := (List.nodup_cons.mp hnd).1
      have hnd' : ns.Nodup := (List.nodup_cons.mp hnd).2
      rw [colGet_cons]
      cases j with
      | zero => simp [lookupLast_zip_none ns vs k hk]
      | succ j =>
        have hj' : j < ns.length := by simpa using hj
        have hv' : j < vs.length := by simpa using hv
        have ih' := ih vs hnd' j hj' hv'
        have hne : k ≠ ns[j] := fun e => hk (e ▸ List.getElem_mem hj')
        simp only [List.getElem_cons_succ]
        unfold colGet at ih'
        cases hl : lookupLast (ns.zip vs) ns[j] with
        | none => simp [hl] at ih'; simp [hne, ih']
        | some x => simp [hl] at ih'; simp [ih']

theorem lookupLast_zip_noneV (ns : List Name) (vs : List Val) (n : Name) (h : n ∉ ns) :
    lookupLast (ns.zip vs) n = none := by
  induction ns generalizing vs with
  | nil => simp [lookupLast]
  | cons k ns ih =>
    cases vs with
    | nil => simp [lookupLast]
    | cons v vs =>
      have hk : k ≠ n := fun e => h (by simp [e])
      have hn : n ∉ ns := fun e => h (by simp [e])
      simp [List.zip_cons_cons, lookupLast, ih vs hn, hk]

theorem colGetV_not_mem (ns : List Name) (vs : List Val) (n : Name) (h : n ∉ ns) : colGetV ns vs n = .none := by
  simp [colGetV, lookupLast_zip_noneV ns vs n h]

theorem colGetV_cons (k : Name) (ns : List Name) (v : Val) (vs : List Val) (n : Name) :
    colGetV (k :: ns) (v :: vs) n =
      match lookupLast (ns.zip vs) n with
      | some x => x
      | none => if k = n then v else .none := by
  unfold colGetV
  simp only [List.zip_cons_cons, lookupLast]
  cases lookupLast (ns.zip vs) n with
  | none => by_cases hk : k = n <;> simp [hk]
  | some x => simp

theorem colGetV_get (ns : List Name) (vs : List Val) (hnd : ns.Nodup) (j : Nat) (hj : j < ns.length)
    (hv : j < vs.length) : colGetV ns vs ns[j] = vs[j] := by
  induction ns generalizing vs j with
  | nil => simp at hj
  | cons k ns ih =>
    cases vs with
    | nil => simp at hv
    | cons v vs =>
      have hk : k ∉ ns := (List.nodup_cons.mp hnd).1
      have hnd' : ns.Nodup := (List.nodup_cons.mp hnd).2
      rw [colGetV_cons]
      cases j with
      | zero => simp [lookupLast_zip_noneV ns vs k hk]
      | succ j =>
        have hj' : j < ns.length := by simpa using hj
        have hv' : j < vs.length := by simpa using hv
        have ih' := ih vs hnd' j hj' hv'
        have hne : k ≠ ns[j] := fun e => hk (e ▸ List.getElem_mem hj')
        simp only [List.getElem_cons_succ]
        unfold colGetV at ih'
        cases hl : lookupLast (ns.zip vs) ns[j] with
        | none => simp [hl] at ih'; simp [hne, ih']
        | some x => simp [hl] at ih'; simp [ih']

/-! ### write_database -/

@[simp] theorem Files.set_same (fs : Files) (n : Name) (r : Rel) : (fs.set n r) n = r := by simp [Files.set]
theorem Files.set_other (fs : Files) (n m : Name) (r : Rel) (h : m ≠ n) : (fs.set n r) m = fs m := by
  simp [Files.set, h]

theorem sourceRecords_congr (q : DbReq) (fl : List Field) (f g : Files) (n : Name) (h : f n = g n) :
    sourceRecords q fl f n = sourceRecords q fl g n := by
  unfold sourceRecords; rw [h]

theorem sourceVals_congr (q : DbReq) (fl : List Field) (f g : Files) (n : Name) (h : f n = g n) :
    sourceVals q fl f n = sourceVals q fl g n := by
  unfold sourceVals sourceTyped; rw [sourceRecords_congr q fl f g n h, h]

theorem writeOne_ok (now : Nat) (q : DbReq) (src dst dst' : Files) (n : Name)
    (h : writeOne now q src dst n = .ok dst') :
    ∃ fields vals lines r', q.target.lookup n = some fields ∧
      sourceVals q fields (if q.inPlace then dst else src) n = .ok vals ∧
      stage fields vals = .ok lines ∧
      write now (dst n) ⟨false, q.gzip, .ok lines⟩ = .ok r' ∧ dst' = dst.set n r' := by
  unfold writeOne at h
  cases hl : q.target.lookup n with
  | none => simp [hl] at h
  | some fields =>
    simp only [hl] at h
    cases hs : sourceVals q fields (if q.inPlace then dst else src) n with
    | error e => simp [hs, write, bind, Except.bind] at h
    | ok recs =>
      cases hst : stage fields recs with
      | error e => simp [hs, hst, write, bind, Except.bind] at h
      | ok lines =>
        simp only [hs, hst, bind, Except.bind] at h
        cases hw : write now (dst n) ⟨false, q.gzip, .ok lines⟩ with
        | error e => simp [hw] at h
        | ok r' =>
          simp [hw] at h
          exact ⟨fields, recs, lines, r', rfl, hs, hst, hw, h.symm⟩

theorem writeLoop_other (q : DbReq) (src : Files) (names : List Name) (now : Nat) (dst d : Files)
    (h : writeLoop q src now dst names = (d, none)) (m : Name) (hm : m ∉ names) : d m = dst m := by
  induction names generalizing now dst with
  | nil => simp [writeLoop] at h; rw [h]
  | cons n ns ih =>
    unfold writeLoop at h
    cases hw : writeOne now q src dst n with
    | error e => simp [hw] at h
    | ok dst' =>
      simp only [hw] at h
      obtain ⟨_, _, _, r', _, _, _, _, hset⟩ := writeOne_ok now q src dst dst' n hw
      have hmn : m ≠ n := fun e => hm (by simp [e])
      have hms : m ∉ ns := fun e => hm (by simp [e])
      rw [ih (now + 1) dst' h hms, hset, Files.set_other _ _ _ _ hmn]

end Verif.C09

/-! ### a stored line decodes to the cells it was made from -/

namespace Verif.C09
open Verif.Py Verif.Tables
open Verif.C08 (Val escape unescape splitRaw joinRaw normEmpty)

/-- C08 `split_join` for a line with its terminator, re-derived here from the C08 lemmas so that
this file does not depend on the whole of C08's Props (dates, integers). -/
theorem joinRaw_no_nl (vs : List (Option (List Char))) : '\n' ∉ joinRaw vs := by
  unfold joinRaw
  rw [C08.tables_ok.2]
  apply C08.not_mem_joinWith '@' '\n' _ (by decide)
  intro p hp
  simp only [List.mem_map] at hp
  obtain ⟨v, _, rfl⟩ := hp
  exact (C08.L.escape_safe _).1

theorem split_join_nl (vs : List (Option (List Char))) (hne : vs ≠ []) :
    splitRaw (joinRaw vs ++ ['\n']) = .ok (vs.map normEmpty) := by
  have hnl : '\n' ∉ joinRaw vs := joinRaw_no_nl vs
  unfold splitRaw
  rw [C08.rstripChar_snoc, C08.rstripChar_not_mem _ _ hnl]
  unfold joinRaw
  rw [C08.tables_ok.2, C08.splitOn_joinWith '@' _ (by simpa using hne) (C08.cols_no_delim vs)]
  exact C08.mapM_cols vs

/-- the cells `join(record, fields)` prints -/
def cellsOf (fields : List Field) (vals : List Val) : List (List Char) :=
  (fields.zip vals).map (fun fv => fmtField fv.1 fv.2)

theorem encodeLine_eq_joinRaw (fields : List Field) (vals : List Val) (l : Line)
    (h : encodeLine fields vals = .ok l) :
    fields ≠ [] ∧ vals.length = fields.length ∧ l = joinRaw ((cellsOf fields vals).map some) := by
  unfold encodeLine at h
  cases hf : fields.isEmpty
  · by_cases hl : vals.length = fields.length
    · simp [hf, hl] at h
      refine ⟨by intro e; simp [e] at hf, hl, ?_⟩
      rw [← h]
      simp [joinRaw, cellsOf, List.map_map, Function.comp_def]
    · simp [hf, hl] at h
  · simp [hf] at h

/-! ### text on disk ↔ lines -/

theorem splitLinesAux_line (cur l rest : List Char) (h : '\n' ∉ l) :
    splitLinesAux cur (l ++ '\n' :: rest) = (cur.reverse ++ l) :: splitLinesAux [] rest := by
  induction l generalizing cur with
  | nil => simp [splitLinesAux]
  | cons c l ih =>
    have hc : c ≠ '\n' := fun e => h (by simp [e])
    have hl : '\n' ∉ l := fun e => h (by simp [e])
    simp [splitLinesAux, hc, ih (c :: cur) hl]

theorem splitLines_toText (ls : List Line) (h : ∀ l ∈ ls, '\n' ∉ l) : splitLines (toText ls) = ls := by
  induction ls with
  | nil => rfl
  | cons l ls ih =>
    have h1 : '\n' ∉ l := h l (by simp)
    have h2 : ∀ l' ∈ ls, '\n' ∉ l' := fun l' hl => h l' (by simp [hl])
    have : toText (l :: ls) = l ++ '\n' :: toText ls := by simp [toText]
    unfold splitLines at ih ⊢
    rw [this, splitLinesAux_line [] l _ h1, ih h2]
    simp

theorem toText_append (a b : List Line) : toText (a ++ b) = toText a ++ toText b := by
  simp [toText]

theorem encodeLine_no_nl (fields : List Field) (vals : List Val) (l : Line)
    (h : encodeLine fields vals = .ok l) : '\n' ∉ l := by
  obtain ⟨_, _, rfl⟩ := encodeLine_eq_joinRaw fields vals l h
  exact joinRaw_no_nl _

theorem stage_no_nl (fields : List Field) (recs : List (List Val)) (lines : List Line)
    (h : stage fields recs = .ok lines) : ∀ l ∈ lines, '\n' ∉ l := by
  induction recs generalizing lines with
  | nil =>
    have : lines = [] := by simpa [stage, pure, Except.pure] using h.symm
    subst this; simp
  | cons v vs ih =>
    unfold stage at h
    rw [List.mapM_cons] at h
    cases h1 : encodeLine fields v with
    | error e => simp [h1, bind, Except.bind] at h
    | ok l =>
      cases h2 : vs.mapM (encodeLine fields) with
      | error e => simp [h1, h2, bind, Except.bind] at h
      | ok ls =>
        simp [h1, h2, bind, Except.bind, pure, Except.pure] at h
        subst h
        intro l' hl'
        rcases List.mem_cons.mp hl' with e | e
        · subst e; exact encodeLine_no_nl fields v _ h1
        · exact ih ls h2 l' e

end Verif.C09

/-! ### the relations file: `_parse_schema (_format_schema s) = s` -/

namespace Verif.C09
open Verif.Py Verif.Tables

/-- characters of an identifier: ASCII letters, digits, `_`, `-` -/
def isIdentChar (c : Char) : Bool := C08.isAsciiWord c || c = '-'

theorem identChar_props (c : Char) (h : isIdentChar c = true) :
    isSpace c = false ∧ c ≠ '#' ∧ c ≠ ':' := by
  have key : ∀ n : Nat, c.toNat = n →
      ((48 ≤ n ∧ n ≤ 57) ∨ (97 ≤ n ∧ n ≤ 122) ∨ (65 ≤ n ∧ n ≤ 90) ∨ n = 95 ∨ n = 45) := by
    intro n hn
    simp only [isIdentChar, C08.isAsciiWord, C08.isDigit, Bool.or_eq_true, Bool.and_eq_true,
      decide_eq_true_eq, Char.le_def, UInt32.le_iff_toNat_le, Char.isDigit, ge_iff_le] at h
    subst hn
    rcases h with ((((h | h) | h) | h) | h)
    · left; exact ⟨h.1, h.2⟩
    · right; left; exact ⟨h.1, h.2⟩
    · right; right; left; exact ⟨h.1, h.2⟩
    · right; right; right; left; subst h; rfl
    · right; right; right; right; subst h; rfl
  have hk := key c.toNat rfl
  refine ⟨?_, ?_, ?_⟩
  · have h1 : c ≠ ' ' := by intro e; subst e; revert hk; decide
    have h2 : c ≠ '\t' := by intro e; subst e; revert hk; decide
    have h3 : c ≠ '\n' := by intro e; subst e; revert hk; decide
    have h4 : c ≠ '\r' := by intro e; subst e; revert hk; decide
    simp only [isSpace, h1, h2, h3, h4, decide_false, Bool.false_or, Bool.or_eq_false_iff, Bool.and_eq_false_iff,
      decide_eq_false_iff_not]
    omega
  · intro e; subst e; revert hk; decide
  · intro e; subst e; revert hk; decide

theorem word_not_space (c : Char) (h : C08.isAsciiWord c = true) : isSpace c = false :=
  (identChar_props c (by simp [isIdentChar, h])).1

/-- a field name: non-empty, free of white space (`\S+`) -/
def NameOk (n : List Char) : Prop := n ≠ [] ∧ ∀ c ∈ n, isSpace c = false

/-- ends in a character that is not white space -/
def EndNS (l : List Char) : Prop := ∃ pre z, l = pre ++ [z] ∧ isSpace z = false

/-- a token of a field line: non-empty, free of white space and `#` -/
def TokOk (t : List Char) : Prop := t ≠ [] ∧ ∀ c ∈ t, isSpace c = false ∧ c ≠ '#'

/-- the last character is neither white space nor a colon -/
def LastOk (l : List Char) : Prop := ∃ pre z, l = pre ++ [z] ∧ isSpace z = false ∧ z ≠ ':'

theorem takeWhile_dropWhile_stop {p : Char → Bool} (a : List Char) (x : Char) (r : List Char)
    (ha : ∀ c ∈ a, p c = true) (hx : p x = false) :
    (a ++ x :: r).takeWhile p = a ∧ (a ++ x :: r).dropWhile p = x :: r := by
  induction a with
  | nil => simp [List.takeWhile, List.dropWhile, hx]
  | cons c a ih =>
    have hc : p c = true := ha c (by simp)
    have ih' := ih (fun d hd => ha d (by simp [hd]))
    simp [List.takeWhile, List.dropWhile, hc, ih'.1, ih'.2]

theorem takeWhile_dropWhile_all {p : Char → Bool} (a : List Char) (ha : ∀ c ∈ a, p c = true) :
    a.takeWhile p = a ∧ a.dropWhile p = [] := by
  induction a with
  | nil => simp
  | cons c a ih =>
    have hc : p c = true := ha c (by simp)
    have ih' := ih (fun d hd => ha d (by simp [hd]))
    simp [List.takeWhile, List.dropWhile, hc, ih'.1, ih'.2]

theorem isSpace_space : isSpace ' ' = true := by decide
theorem isSpace_colon : isSpace ':' = false := by decide
theorem isSpace_hash : isSpace '#' = false := by decide

theorem strip_cons_space (l : List Char) : strip (' ' :: l) = strip l := by
  simp [strip, List.dropWhile, isSpace_space]

/-- a line that starts and ends with a non-space character is its own `strip()` -/
theorem strip_eq_self (x : Char) (tl pre : List Char) (z : Char) (h : x :: tl = pre ++ [z])
    (hx : isSpace x = false) (hz : isSpace z = false) : strip (x :: tl) = x :: tl := by
  unfold strip
  have h1 : (x :: tl).dropWhile isSpace = x :: tl := by simp [List.dropWhile, hx]
  rw [h1, h, List.reverse_append]
  simp [List.dropWhile, hz]

theorem LastOk_append (a b : List Char) (h : LastOk b) : LastOk (a ++ b) := by
  obtain ⟨pre, z, rfl, h1, h2⟩ := h
  exact ⟨a ++ pre, z, by simp, h1, h2⟩

theorem LastOk_joinWith (toks : List (List Char)) (hne : toks ≠ []) (h : ∀ t ∈ toks, LastOk t) :
    LastOk (joinWith ' ' toks) := by
  induction toks with
  | nil => exact absurd rfl hne
  | cons p ps ih =>
    cases ps with
    | nil => simpa [joinWith] using h p (by simp)
    | cons q qs =>
      have := ih (by simp) (fun t ht => h t (by simp [ht]))
      simp only [joinWith]
      exact LastOk_append p (' ' :: _) (LastOk_append [' '] _ this)

theorem tableMatch_none_of_LastOk (L : List Char) (h : LastOk L) : tableMatch L = none := by
  obtain ⟨pre, z, rfl, _, hz⟩ := h
  cases pre with
  | nil => simp [tableMatch]
  | cons c tl =>
    have : (tl ++ [z]).getLast? = some z := by simp
    simp [tableMatch, this, hz]

/-- `str.split()` over space-separated tokens followed by padding -/
theorem splitWsAux_tok (cur t rest : List Char) (ht : ∀ c ∈ t, isSpace c = false) :
    splitWsAux cur (t ++ rest) = splitWsAux (t.reverse ++ cur) rest := by
  induction t generalizing cur with
  | nil => simp
  | cons c t ih =>
    have hc : isSpace c = false := ht c (by simp)
    have := ih (c :: cur) (fun d hd => ht d (by simp [hd]))
    simp [splitWsAux, hc, this]

theorem splitWsAux_pad (k : Nat) : splitWsAux [] (List.replicate k ' ') = [] := by
  induction k with
  | zero => simp [splitWsAux]
  | succ k ih => simp [List.replicate_succ, splitWsAux, isSpace_space, ih]

theorem splitWs_join (toks : List (List Char)) (k : Nat) (h : ∀ t ∈ toks, TokOk t) :
    splitWs (joinWith ' ' toks ++ List.replicate k ' ') = toks := by
  unfold splitWs
  induction toks with
  | nil => simp [joinWith, splitWsAux_pad]
  | cons p ps ih =>
    have hp := h p (by simp)
    have hps : ∀ t ∈ ps, TokOk t := fun t ht => h t (by simp [ht])
    have hsp : ∀ c ∈ p, isSpace c = false := fun c hc => (hp.2 c hc).1
    have hpne : p.reverse ≠ [] := by simpa using hp.1
    cases ps with
    | nil =>
      simp only [joinWith]
      rw [splitWsAux_tok [] p _ hsp]
      cases k with
      | zero =>
        cases hr : p.reverse with
        | nil => exact absurd hr hpne
        | cons x xs =>
          have : p = (x :: xs).reverse := by rw [← hr]; simp
          simp [splitWsAux, this]
      | succ k =>
        cases hr : p.reverse with
        | nil => exact absurd hr hpne
        | cons x xs =>
          have : p = (x :: xs).reverse := by rw [← hr]; simp
          simp [List.replicate_succ, splitWsAux, isSpace_space, splitWsAux_pad, this]
    | cons q qs =>
      simp only [joinWith, List.append_assoc, List.cons_append]
      rw [splitWsAux_tok [] p _ hsp]
      cases hr : p.reverse with
      | nil => exact absurd hr hpne
      | cons x xs =>
        have hpe : p = (x :: xs).reverse := by rw [← hr]; simp
        have ih' := ih hps
        simp [splitWsAux, isSpace_space, ih', hpe]

theorem joinWith_no_hash (toks : List (List Char)) (h : ∀ t ∈ toks, TokOk t) :
    ∀ c ∈ joinWith ' ' toks, c ≠ '#' := by
  induction toks with
  | nil => simp [joinWith]
  | cons p ps ih =>
    cases ps with
    | nil => intro c hc; exact ((h p (by simp)).2 c (by simpa [joinWith] using hc)).2
    | cons q qs =>
      intro c hc
      simp only [joinWith, List.mem_append, List.mem_cons] at hc
      rcases hc with hc | hc | hc
      · exact ((h p (by simp)).2 c hc).2
      · subst hc; decide
      · exact ih (fun t ht => h t (by simp [ht])) c hc

theorem joinWith_head (p : List Char) (ps : List (List Char)) (hp : TokOk p) :
    ∃ x tl, joinWith ' ' (p :: ps) = x :: tl ∧ isSpace x = false ∧ x ≠ '#' := by
  cases p with
  | nil => exact absurd rfl hp.1
  | cons x xs =>
    have hx := hp.2 x (by simp)
    cases ps with
    | nil => exact ⟨x, xs, by simp [joinWith], hx.1, hx.2⟩
    | cons q qs => exact ⟨x, xs ++ ' ' :: joinWith ' ' (q :: qs), by simp [joinWith], hx.1, hx.2⟩

theorem parseFieldLine_fmt (name dt : List Char) (flags : List (List Char)) (T : List Char)
    (cm : Option (List Char)) (hn : NameOk name) (htoks : ∀ t ∈ dt :: flags, TokOk t)
    (hT : (T = [] ∧ cm = none) ∨
          (∃ k c x tl, T = List.replicate k ' ' ++ '#' :: ' ' :: c ∧ cm = some c ∧ c = x :: tl ∧ isSpace x = false)) :
    parseFieldLine (name ++ ' ' :: (joinWith ' ' (dt :: flags) ++ T))
      = .ok { name := name, datatype := dt, flags := flags, comment := cm } := by
  obtain ⟨x, jt, hJ, hx1, hx2⟩ := joinWith_head dt flags (htoks dt (by simp))
  have hnohash := joinWith_no_hash (dt :: flags) htoks
  have hsplit := fun k => splitWs_join (dt :: flags) k htoks
  generalize joinWith ' ' (dt :: flags) = J at hJ hnohash hsplit ⊢
  have hname : ∀ c ∈ name, (fun c => !isSpace c) c = true := fun c hc => by simp [hn.2 c hc]
  have h1 := takeWhile_dropWhile_stop (p := fun c => !isSpace c) name ' ' (J ++ T) hname (by simp [isSpace_space])
  have h2 := takeWhile_dropWhile_stop (p := isSpace) [' '] x (jt ++ T) (by simp [isSpace_space]) hx1
  have hJT : J ++ T = x :: (jt ++ T) := by rw [hJ]; rfl
  have h2a : List.takeWhile isSpace (' ' :: (J ++ T)) = [' '] := by rw [hJT]; simpa using h2.1
  have h2b : List.dropWhile isSpace (' ' :: (J ++ T)) = J ++ T := by rw [hJT]; simpa using h2.2
  have hhead : (J ++ T).head?.any (fun c => c != '#') = true := by rw [hJT]; simp [hx2]
  unfold parseFieldLine
  simp only [h1.1, h1.2, h2a, h2b, hhead, if_true]
  rcases hT with ⟨hT, hcm⟩ | ⟨k, c, y, tl, hT, hcm, hc, hy⟩
  · subst hT; subst hcm
    have h3 := takeWhile_dropWhile_all (p := fun c => c != '#') J (fun c hc => by simpa using hnohash c hc)
    have hs := hsplit 0
    simp only [List.replicate_zero, List.append_nil] at hs
    simp only [List.append_nil, h3.1, h3.2, hs]
    rfl
  · subst hT; subst hcm
    have hall : ∀ d ∈ J ++ List.replicate k ' ', (fun c => c != '#') d = true := by
      intro d hd
      rcases List.mem_append.mp hd with hd | hd
      · simpa using hnohash d hd
      · have : d = ' ' := (List.mem_replicate.mp hd).2
        subst this; decide
    have h3 := takeWhile_dropWhile_stop (p := fun c => c != '#') (J ++ List.replicate k ' ') '#' (' ' :: c)
      hall (by simp)
    have hre : J ++ (List.replicate k ' ' ++ '#' :: ' ' :: c) = (J ++ List.replicate k ' ') ++ '#' :: ' ' :: c := by simp
    rw [hre]
    simp only [h3.1, h3.2, hsplit k]
    subst hc
    simp [List.dropWhile, isSpace_hash, isSpace_space, hy]

theorem exists_concat' (l : List Char) (h : l ≠ []) : ∃ pre z, l = pre ++ [z] := by
  induction l with
  | nil => exact absurd rfl h
  | cons x xs ih =>
    cases xs with
    | nil => exact ⟨[], x, rfl⟩
    | cons y ys =>
      obtain ⟨pre, z, hz⟩ := ih (by simp)
      exact ⟨x :: pre, z, by simp [hz]⟩

theorem EndNS_of_tok (t : List Char) (h : TokOk t) : EndNS t := by
  obtain ⟨pre, z, rfl⟩ := exists_concat' t h.1
  exact ⟨pre, z, rfl, (h.2 z (by simp)).1⟩

theorem EndNS_append (a b : List Char) (h : EndNS b) : EndNS (a ++ b) := by
  obtain ⟨pre, z, rfl, h1⟩ := h
  exact ⟨a ++ pre, z, by simp, h1⟩

theorem LastOk_EndNS (l : List Char) (h : LastOk l) : EndNS l := by
  obtain ⟨pre, z, rfl, h1, _⟩ := h
  exact ⟨pre, z, rfl, h1⟩

/-- the joined tokens end with the last token -/
theorem joinWith_getLast (toks : List (List Char)) (hne : toks ≠ []) :
    ∃ pre, joinWith ' ' toks = pre ++ toks.getLast hne := by
  induction toks with
  | nil => exact absurd rfl hne
  | cons p ps ih =>
    cases ps with
    | nil => exact ⟨[], by simp [joinWith]⟩
    | cons q qs =>
      obtain ⟨pre, hpre⟩ := ih (by simp)
      refine ⟨p ++ ' ' :: pre, ?_⟩
      simp only [joinWith, List.getLast_cons_cons]
      rw [hpre]; simp

/-- what a formatted field line ends with: the comment if there is one, else the last flag, else
the datatype -/
def lineTail (f : SField) : List Char :=
  match f.comment with
  | some c => c
  | none => (f.datatype :: f.flags).getLast (by simp)

/-- EXACTLY the fields `_parse_schema` reads back as written (on the model's ASCII reading of
`\w`): the name is a non-empty run of non-space characters (`\S+`); datatype and flags are non-empty
and free of white space and `#` (`[^#]+`, `split()`); a comment is non-empty (an empty one is not
written) and neither starts nor ends with white space (`#\s*`, `line.strip()`); and the line must
not look like a relation header `^\w.*:$`: either the name does not start with a word character or
the line does not end in a colon. -/
structure FieldOk (f : SField) : Prop where
  name : NameOk f.name
  toks : ∀ t ∈ f.datatype :: f.flags, TokOk t
  comment : ∀ c, f.comment = some c → (∃ x tl, c = x :: tl ∧ isSpace x = false) ∧ EndNS c
  notTable : (∃ x tl, f.name = x :: tl ∧ C08.isAsciiWord x = false) ∨ LastOk (lineTail f)

/-- EXACTLY the relation names read back as written: a word character first (`^\w.*:$`) -/
def RelNameOk (n : Name) : Prop := ∃ c tl, n = c :: tl ∧ C08.isAsciiWord c = true

theorem tableMatch_none_of_head (x : Char) (tl : List Char) (h : C08.isAsciiWord x = false) :
    tableMatch (x :: tl) = none := by
  simp [tableMatch, h]

theorem fmtSField_parse (f : SField) (h : FieldOk f) :
    ∃ body, strip (fmtSField f) = body ∧ tableMatch body = none ∧ body.isEmpty = false ∧
      parseFieldLine body = .ok f := by
  have htoks := h.toks
  have hJend : EndNS (joinWith ' ' (f.datatype :: f.flags)) := by
    obtain ⟨pre, hpre⟩ := joinWith_getLast (f.datatype :: f.flags) (by simp)
    rw [hpre]
    exact EndNS_append _ _ (EndNS_of_tok _ (htoks _ (List.getLast_mem _)))
  obtain ⟨n0, ntl, hname⟩ : ∃ n0 ntl, f.name = n0 :: ntl := by
    cases hn : f.name with
    | nil => exact absurd hn h.name.1
    | cons a b => exact ⟨a, b, rfl⟩
  have hn0 : isSpace n0 = false := h.name.2 n0 (by simp [hname])
  -- the line is not a relation header
  have hnot : ∀ rest : List Char, (∀ pre, LastOk (lineTail f) → LastOk (pre ++ lineTail f)) →
      (∃ pre, rest = pre ++ lineTail f) → tableMatch (f.name ++ rest) = none := by
    intro rest _ hrest
    rcases h.notTable with ⟨x, tl, hx, hw⟩ | hl
    · rw [hx]; exact tableMatch_none_of_head x _ hw
    · obtain ⟨pre, rfl⟩ := hrest
      apply tableMatch_none_of_LastOk
      rw [← List.append_assoc]
      exact LastOk_append _ _ hl
  cases hc : f.comment with
  | none =>
    have htail : lineTail f = (f.datatype :: f.flags).getLast (by simp) := by simp [lineTail, hc]
    refine ⟨f.name ++ ' ' :: (joinWith ' ' (f.datatype :: f.flags) ++ []), ?_, ?_, ?_, ?_⟩
    · have hfmt : fmtSField f = ' ' :: ' ' :: (f.name ++ ' ' :: (joinWith ' ' (f.datatype :: f.flags) ++ [])) := by
        simp [fmtSField, hc, joinWith]
      rw [hfmt, strip_cons_space, strip_cons_space]
      have hL : EndNS (f.name ++ ' ' :: (joinWith ' ' (f.datatype :: f.flags) ++ [])) := by
        simpa using EndNS_append (f.name ++ [' ']) _ hJend
      obtain ⟨pre, z, hpz, hz⟩ := hL
      rw [hname] at hpz ⊢
      exact strip_eq_self n0 _ pre z hpz hn0 hz
    · apply hnot _ (fun pre hl => LastOk_append pre _ hl)
      obtain ⟨pre, hpre⟩ := joinWith_getLast (f.datatype :: f.flags) (by simp)
      exact ⟨' ' :: pre, by rw [htail, hpre]; simp⟩
    · simp [hname]
    · have := parseFieldLine_fmt f.name f.datatype f.flags [] none h.name htoks (Or.inl ⟨rfl, rfl⟩)
      rw [this]
      cases f; simp_all
  | some c =>
    obtain ⟨⟨x, tl, hcx, hx⟩, hcl⟩ := h.comment c hc
    have htail : lineTail f = c := by simp [lineTail, hc]
    have hce : c.isEmpty = false := by simp [hcx]
    let k := 40 - (' ' :: ' ' :: joinWith ' ' (f.name :: f.datatype :: f.flags)).length
    let T := List.replicate k ' ' ++ '#' :: ' ' :: c
    refine ⟨f.name ++ ' ' :: (joinWith ' ' (f.datatype :: f.flags) ++ T), ?_, ?_, ?_, ?_⟩
    · have hfmt : fmtSField f = ' ' :: ' ' :: (f.name ++ ' ' :: (joinWith ' ' (f.datatype :: f.flags) ++ T)) := by
        simp [fmtSField, hc, hce, joinWith, ljust, T, k]
      rw [hfmt, strip_cons_space, strip_cons_space]
      have hL : EndNS (f.name ++ ' ' :: (joinWith ' ' (f.datatype :: f.flags) ++ T)) := by
        have := EndNS_append (f.name ++ ' ' :: (joinWith ' ' (f.datatype :: f.flags) ++ List.replicate k ' ' ++ ['#', ' '])) c hcl
        simpa [T] using this
      obtain ⟨pre, z, hpz, hz⟩ := hL
      rw [hname] at hpz ⊢
      exact strip_eq_self n0 _ pre z hpz hn0 hz
    · apply hnot _ (fun pre hl => LastOk_append pre _ hl)
      exact ⟨' ' :: (joinWith ' ' (f.datatype :: f.flags) ++ List.replicate k ' ' ++ ['#', ' ']), by rw [htail]; simp [T]⟩
    · simp [hname]
    · have := parseFieldLine_fmt f.name f.datatype f.flags T (some c) h.name htoks
        (Or.inr ⟨k, c, x, tl, rfl, rfl, hcx, hx⟩)
      rw [this]
      cases f; simp_all

theorem parseLine_field (done : List (Name × List SField)) (t : Name) (fs : List SField) (f : SField)
    (h : FieldOk f) :
    parseLine { done := done, cur := some (t, fs) } (fmtSField f) = .ok { done := done, cur := some (t, fs ++ [f]) } := by
  obtain ⟨body, h1, h2, h3, h4⟩ := fmtSField_parse f h
  unfold parseLine
  simp only [h1, h2, h3, h4]
  rfl

theorem parseLine_blank (st : PState) : parseLine st [] = .ok st := by
  simp [parseLine, strip, tableMatch]

theorem parseLine_table (st : PState) (n : Name) (hn : RelNameOk n) (hnew : n ∉ st.tables.map (·.1)) :
    parseLine st (n ++ [':']) = .ok { done := st.tables, cur := some (n, []) } := by
  obtain ⟨c, tl, rfl, hw⟩ := hn
  have hc : isSpace c = false := word_not_space c hw
  have hstrip : strip ((c :: tl) ++ [':']) = c :: (tl ++ [':']) :=
    strip_eq_self c (tl ++ [':']) (c :: tl) ':' (by simp) hc isSpace_colon
  have hm : tableMatch (c :: (tl ++ [':'])) = some (c :: tl) := by
    simp [tableMatch, hw]
  unfold parseLine
  simp only [hstrip, hm]
  have : (st.tables.map (·.1)).contains (c :: tl) = false := by
    simpa using hnew
  simp only [this, Bool.false_eq_true, if_false]

theorem parseLines_append (st st' : PState) (a b : List Line) (h : parseLines st a = .ok st') :
    parseLines st (a ++ b) = parseLines st' b := by
  induction a generalizing st with
  | nil => simp [parseLines] at h; subst h; rfl
  | cons l a ih =>
    simp only [List.cons_append, parseLines] at h ⊢
    cases hl : parseLine st l with
    | error e => simp [hl] at h
    | ok st1 => simp only [hl] at h ⊢; exact ih st1 h

theorem parseLines_fields (done : List (Name × List SField)) (t : Name) (fs0 fs : List SField)
    (h : ∀ f ∈ fs, FieldOk f) :
    parseLines { done := done, cur := some (t, fs0) } (fs.map fmtSField)
      = .ok { done := done, cur := some (t, fs0 ++ fs) } := by
  induction fs generalizing fs0 with
  | nil => simp [parseLines]
  | cons f fs ih =>
    simp only [List.map_cons, parseLines, parseLine_field done t fs0 f (h f (by simp))]
    rw [ih (fs0 ++ [f]) (fun g hg => h g (by simp [hg]))]
    simp

/-- a schema the round trip covers -/
structure TableOk (t : Name × List SField) : Prop where
  name : RelNameOk t.1
  fields : ∀ f ∈ t.2, FieldOk f

theorem parseLines_table (st : PState) (t : Name × List SField) (h : TableOk t)
    (hnew : t.1 ∉ st.tables.map (·.1)) :
    parseLines st (fmtTable t) = .ok { done := st.tables, cur := some t } := by
  unfold fmtTable
  simp only [parseLines, parseLine_table st t.1 h.name hnew]
  unfold joinLines
  cases hf : t.2 with
  | nil =>
    simp [parseLines, parseLine_blank]
    cases t; simp_all
  | cons f fs =>
    have := parseLines_fields st.tables t.1 [] (f :: fs) (by rw [← hf]; exact h.fields)
    simp only [List.map_cons, List.isEmpty_cons] at this ⊢
    simp only [Bool.false_eq_true, if_false, this]
    cases t; simp_all

theorem parseLines_schema (st : PState) (ss : SSchema) (h : ∀ t ∈ ss, TableOk t)
    (hnd : (ss.map (·.1)).Nodup) (hdis : ∀ t ∈ ss, t.1 ∉ st.tables.map (·.1)) :
    ∃ st', parseLines st (formatSchema ss) = .ok st' ∧ st'.tables = st.tables ++ ss := by
  induction ss generalizing st with
  | nil => exact ⟨st, by simp [formatSchema, parseLines, parseLine_blank], by simp⟩
  | cons t ts ih =>
    have ht := h t (by simp)
    have hnew := hdis t (by simp)
    have h1 := parseLines_table st t ht hnew
    cases ts with
    | nil =>
      exact ⟨_, by simpa [formatSchema] using h1, by simp [PState.tables]⟩
    | cons t2 ts =>
      have hnd' : ((t2 :: ts).map (·.1)).Nodup := (List.nodup_cons.mp (by simpa using hnd)).2
      have hnotin : t.1 ∉ (t2 :: ts).map (·.1) := (List.nodup_cons.mp (by simpa using hnd)).1
      let st1 : PState := { done := st.tables, cur := some t }
      have hdis' : ∀ u ∈ t2 :: ts, u.1 ∉ st1.tables.map (·.1) := by
        intro u hu
        have hu1 := hdis u (by simp [List.mem_cons.mp hu])
        have hst1 : st1.tables = st.tables ++ [t] := by simp [PState.tables, st1]
        intro hmem
        rw [hst1, List.map_append, List.mem_append] at hmem
        rcases hmem with e | e
        · exact hu1 e
        · have e' : u.1 = t.1 := by simpa using e
          exact hnotin (e' ▸ List.mem_map_of_mem hu)
      obtain ⟨st', h2, h3⟩ := ih st1 (fun u hu => h u (by simp [List.mem_cons.mp hu])) hnd' hdis'
      refine ⟨st', ?_, ?_⟩
      · show parseLines st (fmtTable t ++ [] :: formatSchema (t2 :: ts)) = _
        rw [parseLines_append st st1 _ _ h1]
        simp only [parseLines, parseLine_blank]
        exact h2
      · rw [h3]; simp [PState.tables, st1]

/-! ### identifiers are inside the covered region -/

/-- an identifier: non-empty, identifier characters only (no white space, `#`, `:`) -/
def IdentOk (n : List Char) : Prop := n ≠ [] ∧ ∀ c ∈ n, isIdentChar c = true

/-- a datatype or flag such as `:integer`, `:key`, `:foreign`: identifier characters and colons,
not ending in a colon -/
def FlagOk (t : List Char) : Prop :=
  (∀ c ∈ t, isIdentChar c = true ∨ c = ':') ∧ ∃ pre z, t = pre ++ [z] ∧ isIdentChar z = true

theorem exists_concat (l : List Char) (h : l ≠ []) : ∃ pre z, l = pre ++ [z] := by
  induction l with
  | nil => exact absurd rfl h
  | cons x xs ih =>
    cases xs with
    | nil => exact ⟨[], x, rfl⟩
    | cons y ys =>
      obtain ⟨pre, z, hz⟩ := ih (by simp)
      exact ⟨x :: pre, z, by simp [hz]⟩

theorem TokOk_of_ident (n : List Char) (h : IdentOk n) : TokOk n :=
  ⟨h.1, fun c hc => ⟨(identChar_props c (h.2 c hc)).1, (identChar_props c (h.2 c hc)).2.1⟩⟩

theorem TokOk_LastOk_of_flag (t : List Char) (h : FlagOk t) : TokOk t ∧ LastOk t := by
  obtain ⟨hall, pre, z, rfl, hz⟩ := h
  refine ⟨⟨by simp, ?_⟩, ⟨pre, z, rfl, (identChar_props z hz).1, (identChar_props z hz).2.2⟩⟩
  intro c hc
  rcases hall c hc with h | h
  · exact ⟨(identChar_props c h).1, (identChar_props c h).2.1⟩
  · subst h; exact ⟨isSpace_colon, by decide⟩

/-- a schema over identifiers: relation names are identifiers that start with a word character
(one-character names included), field names are identifiers, datatypes and flags are `FlagOk`,
a comment is non-empty, has no leading or trailing white space and does not end in a colon. -/
structure IdentTable (t : Name × List SField) : Prop where
  name : IdentOk t.1 ∧ ∃ c tl, t.1 = c :: tl ∧ C08.isAsciiWord c = true
  fields : ∀ f ∈ t.2, IdentOk f.name ∧ FlagOk f.datatype ∧ (∀ x ∈ f.flags, FlagOk x) ∧
    ∀ c, f.comment = some c → (∃ x tl, c = x :: tl ∧ isSpace x = false) ∧ LastOk c

theorem TableOk_of_ident (t : Name × List SField) (h : IdentTable t) : TableOk t := by
  obtain ⟨⟨_, c, tl, hc, hw⟩, hf⟩ := h
  refine ⟨⟨c, tl, hc, hw⟩, ?_⟩
  intro f hfm
  obtain ⟨h1, h2, h3, h4⟩ := hf f hfm
  have htoks : ∀ t ∈ f.datatype :: f.flags, TokOk t ∧ LastOk t := by
    intro t ht
    rcases List.mem_cons.mp ht with e | e
    · subst e; exact TokOk_LastOk_of_flag _ h2
    · exact TokOk_LastOk_of_flag _ (h3 t e)
  refine ⟨⟨h1.1, fun c hc => (identChar_props c (h1.2 c hc)).1⟩, fun t ht => (htoks t ht).1,
    fun c hc => ⟨(h4 c hc).1, LastOk_EndNS c (h4 c hc).2⟩, Or.inr ?_⟩
  cases hc : f.comment with
  | none =>
    have : lineTail f = (f.datatype :: f.flags).getLast (by simp) := by simp [lineTail, hc]
    rw [this]
    exact (htoks _ (List.getLast_mem _)).2
  | some c =>
    have : lineTail f = c := by simp [lineTail, hc]
    rw [this]
    exact (h4 c hc).2

end Verif.C09

/-! ### the decidable schema predicate, and the relations file at character level -/

namespace Verif.C09
open Verif.Py Verif.Tables
open Verif.C08 (Val)

def nameOkB (n : List Char) : Bool := !n.isEmpty && n.all (fun c => !isSpace c)
def tokOkB (t : List Char) : Bool := !t.isEmpty && t.all (fun c => !isSpace c && c != '#')
def noBreakB (l : List Char) : Bool := l.all (fun c => !isLineBreak c)
def endNSB (l : List Char) : Bool := match l.getLast? with | some z => !isSpace z | none => false
def lastOkB (l : List Char) : Bool := match l.getLast? with | some z => !isSpace z && z != ':' | none => false
def headWordB (l : List Char) : Bool := match l with | c :: _ => C08.isAsciiWord c | [] => false
def commentOkB (c : Option (List Char)) : Bool :=
  match c with
  | none => true
  | some c => (match c with | x :: _ => !isSpace x | [] => false) && endNSB c && noBreakB c
def fieldOkB (f : SField) : Bool :=
  nameOkB f.name && (f.datatype :: f.flags).all tokOkB && commentOkB f.comment
  && (!headWordB f.name || lastOkB (lineTail f))
def tableOkB (t : Name × List SField) : Bool := headWordB t.1 && noBreakB t.1 && t.2.all fieldOkB
def nodupB : List Name → Bool
  | [] => true
  | n :: ns => !ns.contains n && nodupB ns
/-- the decidable predicate: exactly the schemas that `read_schema (write_schema s)` gives back -/
def schemaOkB (ss : SSchema) : Bool := ss.all tableOkB && nodupB (ss.map (·.1))

theorem nodupB_nodup (ns : List Name) (h : nodupB ns = true) : ns.Nodup := by
  induction ns with
  | nil => simp
  | cons n ns ih =>
    simp only [nodupB, Bool.and_eq_true, Bool.not_eq_true', List.contains_eq_mem, decide_eq_false_iff_not] at h
    exact List.nodup_cons.mpr ⟨h.1, ih h.2⟩

theorem NameOk_of_B (n : List Char) (h : nameOkB n = true) : NameOk n := by
  simp only [nameOkB, Bool.and_eq_true, Bool.not_eq_true', List.isEmpty_eq_false_iff, List.all_eq_true] at h
  exact ⟨h.1, fun c hc => by simpa using h.2 c hc⟩

theorem TokOk_of_B (t : List Char) (h : tokOkB t = true) : TokOk t := by
  simp only [tokOkB, Bool.and_eq_true, Bool.not_eq_true', List.isEmpty_eq_false_iff, List.all_eq_true] at h
  exact ⟨h.1, fun c hc => by simpa using h.2 c hc⟩

theorem EndNS_of_B (l : List Char) (h : endNSB l = true) : EndNS l := by
  unfold endNSB at h
  cases hl : l.getLast? with
  | none => simp [hl] at h
  | some z =>
    obtain ⟨pre, hpre⟩ := List.getLast?_eq_some_iff.mp hl
    exact ⟨pre, z, hpre, by simpa [hl] using h⟩

theorem LastOk_of_B (l : List Char) (h : lastOkB l = true) : LastOk l := by
  unfold lastOkB at h
  cases hl : l.getLast? with
  | none => simp [hl] at h
  | some z =>
    obtain ⟨pre, hpre⟩ := List.getLast?_eq_some_iff.mp hl
    have : isSpace z = false ∧ z ≠ ':' := by simpa [hl] using h
    exact ⟨pre, z, hpre, this.1, this.2⟩

theorem FieldOk_of_B (f : SField) (h : fieldOkB f = true) : FieldOk f := by
  simp only [fieldOkB, Bool.and_eq_true, Bool.or_eq_true, Bool.not_eq_true', List.all_eq_true] at h
  obtain ⟨⟨⟨h1, h2⟩, h3⟩, h4⟩ := h
  have hn := NameOk_of_B _ h1
  refine ⟨hn, fun t ht => TokOk_of_B t (h2 t ht), ?_, ?_⟩
  · intro c hc
    rw [hc] at h3
    simp only [commentOkB, Bool.and_eq_true] at h3
    obtain ⟨⟨ha, hb⟩, _⟩ := h3
    refine ⟨?_, EndNS_of_B c hb⟩
    cases c with
    | nil => simp at ha
    | cons x tl => exact ⟨x, tl, rfl, by simpa using ha⟩
  · rcases h4 with h4 | h4
    · left
      cases hnm : f.name with
      | nil => exact absurd hnm hn.1
      | cons x tl => exact ⟨x, tl, rfl, by simpa [headWordB, hnm] using h4⟩
    · right; exact LastOk_of_B _ h4

theorem TableOk_of_B (t : Name × List SField) (h : tableOkB t = true) : TableOk t := by
  simp only [tableOkB, Bool.and_eq_true, List.all_eq_true] at h
  obtain ⟨⟨h1, _⟩, h3⟩ := h
  refine ⟨?_, fun f hf => FieldOk_of_B f (h3 f hf)⟩
  cases hn : t.1 with
  | nil => simp [headWordB, hn] at h1
  | cons c tl => exact ⟨c, tl, rfl, by simpa [headWordB, hn] using h1⟩

/-! every line break is white space, so tokens and names free of white space contain none -/

theorem lineBreak_isSpace (c : Char) (h : isLineBreak c = true) : isSpace c = true := by
  simp only [isLineBreak, Bool.or_eq_true, Bool.and_eq_true, decide_eq_true_eq] at h
  rcases h with ((((((h | h) | h) | h) | h) | h) | h) | h
  · subst h; decide
  · subst h; decide
  all_goals (simp only [isSpace, Bool.or_eq_true, Bool.and_eq_true, decide_eq_true_eq]; omega)

theorem noBreak_of_noSpace (l : List Char) (h : ∀ c ∈ l, isSpace c = false) : noBreakB l = true := by
  simp only [noBreakB, List.all_eq_true, Bool.not_eq_true']
  intro c hc
  cases hb : isLineBreak c with
  | false => rfl
  | true => have := lineBreak_isSpace c hb; rw [h c hc] at this; exact absurd this (by simp)

theorem noBreak_append (a b : List Char) : noBreakB (a ++ b) = (noBreakB a && noBreakB b) := by
  simp [noBreakB, List.all_append]

theorem noBreak_joinWith (toks : List (List Char)) (h : ∀ t ∈ toks, noBreakB t = true) :
    noBreakB (joinWith ' ' toks) = true := by
  induction toks with
  | nil => rfl
  | cons p ps ih =>
    cases ps with
    | nil => simpa [joinWith] using h p (by simp)
    | cons q qs =>
      have h1 := h p (by simp)
      have h2 := ih (fun t ht => h t (by simp [ht]))
      have hsp : noBreakB [' '] = true := by decide
      simp only [joinWith]
      rw [show p ++ ' ' :: joinWith ' ' (q :: qs) = p ++ ([' '] ++ joinWith ' ' (q :: qs)) by simp,
        noBreak_append, noBreak_append, h1, hsp, h2]
      rfl

theorem noBreak_replicate (k : Nat) : noBreakB (List.replicate k ' ') = true := by
  simp only [noBreakB, List.all_eq_true, Bool.not_eq_true']
  intro c hc
  have : c = ' ' := (List.mem_replicate.mp hc).2
  subst this; decide

theorem noBreak_fmtSField (f : SField) (h : fieldOkB f = true) : noBreakB (fmtSField f) = true := by
  have hb := h
  simp only [fieldOkB, Bool.and_eq_true, List.all_eq_true] at hb
  obtain ⟨⟨⟨h1, h2⟩, h3⟩, _⟩ := hb
  have hname : noBreakB f.name = true := noBreak_of_noSpace _ (NameOk_of_B _ h1).2
  have htoks : ∀ t ∈ f.name :: f.datatype :: f.flags, noBreakB t = true := by
    intro t ht
    rcases List.mem_cons.mp ht with e | e
    · subst e; exact hname
    · exact noBreak_of_noSpace _ (fun c hc => ((TokOk_of_B t (h2 t e)).2 c hc).1)
  have hJ := noBreak_joinWith _ htoks
  have h2s : noBreakB [' ', ' '] = true := by decide
  have hs : noBreakB (' ' :: ' ' :: joinWith ' ' (f.name :: f.datatype :: f.flags)) = true := by
    rw [show ' ' :: ' ' :: joinWith ' ' (f.name :: f.datatype :: f.flags)
          = [' ', ' '] ++ joinWith ' ' (f.name :: f.datatype :: f.flags) by rfl, noBreak_append, h2s, hJ]; rfl
  unfold fmtSField
  cases hc : f.comment with
  | none => simpa using hs
  | some c =>
    rw [hc] at h3
    simp only [commentOkB, Bool.and_eq_true] at h3
    have hcb : noBreakB c = true := h3.2
    have hhash : noBreakB ['#', ' '] = true := by decide
    simp only []
    split
    · exact hs
    · unfold ljust
      rw [show (' ' :: ' ' :: joinWith ' ' (f.name :: f.datatype :: f.flags)
            ++ List.replicate (40 - (' ' :: ' ' :: joinWith ' ' (f.name :: f.datatype :: f.flags)).length) ' ')
            ++ '#' :: ' ' :: c
          = (' ' :: ' ' :: joinWith ' ' (f.name :: f.datatype :: f.flags))
            ++ (List.replicate (40 - (' ' :: ' ' :: joinWith ' ' (f.name :: f.datatype :: f.flags)).length) ' '
            ++ (['#', ' '] ++ c)) by simp,
        noBreak_append, noBreak_append, noBreak_append, hs, noBreak_replicate, hhash, hcb]
      rfl

theorem noBreak_fmtTable (t : Name × List SField) (h : tableOkB t = true) :
    ∀ l ∈ fmtTable t, noBreakB l = true := by
  have hb := h
  simp only [tableOkB, Bool.and_eq_true, List.all_eq_true] at hb
  obtain ⟨⟨_, h2⟩, h3⟩ := hb
  intro l hl
  simp only [fmtTable, List.mem_cons] at hl
  rcases hl with e | e
  · subst e
    rw [noBreak_append, h2]; decide
  · unfold joinLines at e
    split at e
    · simp only [List.mem_singleton] at e; subst e; rfl
    · obtain ⟨f, hf, rfl⟩ := List.mem_map.mp e
      exact noBreak_fmtSField f (h3 f hf)

theorem noBreak_formatSchema (ss : SSchema) (h : ∀ t ∈ ss, tableOkB t = true) :
    ∀ l ∈ formatSchema ss, noBreakB l = true := by
  induction ss with
  | nil => intro l hl; simp [formatSchema] at hl; subst hl; rfl
  | cons t ts ih =>
    cases ts with
    | nil => simpa [formatSchema] using noBreak_fmtTable t (h t (by simp))
    | cons t2 ts =>
      intro l hl
      simp only [formatSchema, List.mem_append, List.mem_cons] at hl
      rcases hl with e | e | e
      · exact noBreak_fmtTable t (h t (by simp)) l e
      · subst e; rfl
      · exact ih (fun u hu => h u (by simp [hu])) l e

/-! `str.splitlines` of the written text -/

theorem splitlinesAux_nl (cur rest : List Char) :
    splitlinesAux cur ('\n' :: rest) = cur.reverse :: splitlinesAux [] rest := by
  cases rest with
  | nil => simp [splitlinesAux, isLineBreak]
  | cons d cs => simp [splitlinesAux, isLineBreak]

theorem splitlinesAux_nb (cur : List Char) (c d : Char) (cs : List Char) (hc : isLineBreak c = false) :
    splitlinesAux cur (c :: d :: cs) = splitlinesAux (c :: cur) (d :: cs) := by
  have hr : c ≠ '\r' := by intro e; subst e; simp [isLineBreak] at hc
  simp [splitlinesAux, hc, hr]

theorem splitlinesAux_line (cur l rest : List Char) (h : noBreakB l = true) :
    splitlinesAux cur (l ++ '\n' :: rest) = (cur.reverse ++ l) :: splitlinesAux [] rest := by
  induction l generalizing cur with
  | nil => simp [splitlinesAux_nl]
  | cons c l ih =>
    simp only [noBreakB, List.all_cons, Bool.and_eq_true, Bool.not_eq_true'] at h
    have hl : noBreakB l = true := h.2
    cases hl' : l ++ '\n' :: rest with
    | nil => simp at hl'
    | cons d cs =>
      rw [List.cons_append, hl', splitlinesAux_nb cur c d cs h.1, ← hl', ih (c :: cur) hl]
      simp

theorem splitlinesPy_toText (ls : List Line) (h : ∀ l ∈ ls, noBreakB l = true) :
    splitlinesPy (toText ls) = ls := by
  induction ls with
  | nil => rfl
  | cons l ls ih =>
    have h1 := h l (by simp)
    have h2 : ∀ l' ∈ ls, noBreakB l' = true := fun l' hl => h l' (by simp [hl])
    have : toText (l :: ls) = l ++ '\n' :: toText ls := by simp [toText]
    unfold splitlinesPy at ih ⊢
    rw [this, splitlinesAux_line [] l _ h1, ih h2]
    simp

/-! ### the reading interfaces -/

theorem mapM_map_eq {α β γ} (f : α → β) (g : β → Except Err γ) (xs : List α) :
    (xs.map f).mapM g = xs.mapM (fun x => g (f x)) := by
  induction xs with
  | nil => rfl
  | cons x xs ih => simp [List.mapM_cons, ih]

/-- if the first pass succeeds, a fused pass equals the second pass over its result -/
theorem mapM_fuse {α β γ} (f : α → Except Err β) (g : β → Except Err γ) (xs : List α) (ys : List β)
    (h : xs.mapM f = .ok ys) : xs.mapM (fun x => do g (← f x)) = ys.mapM g := by
  induction xs generalizing ys with
  | nil =>
    have : ys = [] := by simpa [pure, Except.pure] using h.symm
    subst this; rfl
  | cons x xs ih =>
    rw [List.mapM_cons] at h
    cases h1 : f x with
    | error e => simp [h1, bind, Except.bind] at h
    | ok y =>
      cases h2 : xs.mapM f with
      | error e => simp [h1, h2, bind, Except.bind] at h
      | ok ys' =>
        simp [h1, h2, bind, Except.bind, pure, Except.pure] at h
        subst h
        rw [List.mapM_cons, List.mapM_cons, ih ys' h2]
        simp [h1, bind, Except.bind]

theorem decodeRaw_eq_splitLine (l : Line) : decodeRaw l = splitLine (l ++ ['\n']) := rfl

/-- does `read_schema(write_schema(s))` give `s` back? -/
def roundTrips (s : SSchema) : Bool := decide ((readSchema (writeSchema s)).toOption = some s)

def mkF (n dt : String) (flags : List String) (c : Option String) : SField :=
  { name := n.toList, datatype := dt.toList, flags := flags.map (·.toList), comment := c.map (·.toList) }

end Verif.C09

/-! ### closed form for arbitrary histories -/

namespace Verif.C09
open Verif.Py Verif.Tables
open Verif.C08 (Val)

/-- is the request accepted in the state a reader sees?  (not an append onto / with compression, and
its records could be staged) -/
def accepts (a : Abs) (q : WReq) : Bool := !(q.append && (q.gzip || a.compressed)) && q.staged.isOk

/-- the requests of a history that are accepted, in order -/
def acceptedIn : Abs → List WReq → List WReq
  | _, [] => []
  | a, q :: qs => if accepts a q then q :: acceptedIn (absStep a q) qs else acceptedIn a qs

/-- the list-level effect of an accepted request on the content -/
def specStep (c : Option (List Line)) (q : WReq) : Option (List Line) :=
  some ((if q.append then c.getD [] else []) ++ linesOf q)

/-- the last overwrite of a list of requests and what follows it -/
def afterLastOverwrite : List WReq → Option (WReq × List WReq)
  | [] => none
  | q :: qs =>
    match afterLastOverwrite qs with
    | some p => some p
    | none => if q.append then none else some (q, qs)

/-- "the records of the last overwrite followed by the later appends": over the ACCEPTED requests
`acc` of a history started at content `c` -/
def closedForm (c : Option (List Line)) (acc : List WReq) : Option (List Line) :=
  match afterLastOverwrite acc with
  | some (ow, apps) => some (linesOf ow ++ apps.flatMap linesOf)
  | none => if acc.isEmpty then c else some (c.getD [] ++ acc.flatMap linesOf)

theorem absStep_not_accepted (a : Abs) (q : WReq) (h : accepts a q = false) : absStep a q = a := by
  unfold accepts at h
  unfold absStep
  cases hrej : (q.append && (q.gzip || a.compressed))
  · cases hst : q.staged with
    | error e => simp
    | ok l => simp [hrej, hst, Except.isOk, Except.toBool] at h
  · simp

theorem absStep_accepted (a : Abs) (q : WReq) (h : accepts a q = true) :
    (absStep a q).content = specStep a.content q := by
  unfold accepts at h
  unfold absStep specStep
  cases hrej : (q.append && (q.gzip || a.compressed))
  · cases hst : q.staged with
    | error e => simp [hrej, hst, Except.isOk, Except.toBool] at h
    | ok l => simp [linesOf, hst]
  · simp [hrej] at h

theorem fold_absStep_accepted (a : Abs) (qs : List WReq) :
    qs.foldl absStep a = (acceptedIn a qs).foldl absStep a := by
  induction qs generalizing a with
  | nil => rfl
  | cons q qs ih =>
    simp only [List.foldl_cons, acceptedIn]
    cases h : accepts a q
    · simp only [Bool.false_eq_true, if_false]
      rw [absStep_not_accepted a q h]; exact ih a
    · simp only [if_true, List.foldl_cons]; exact ih _

theorem fold_content_spec (a : Abs) (qs : List WReq) :
    (qs.foldl absStep a).content = (acceptedIn a qs).foldl specStep a.content := by
  induction qs generalizing a with
  | nil => rfl
  | cons q qs ih =>
    simp only [List.foldl_cons, acceptedIn]
    cases h : accepts a q
    · simp only [Bool.false_eq_true, if_false]
      rw [absStep_not_accepted a q h]; exact ih a
    · simp only [if_true, List.foldl_cons]
      rw [ih (absStep a q), absStep_accepted a q h]

theorem fold_spec_closed (c : Option (List Line)) (l : List WReq) : l.foldl specStep c = closedForm c l := by
  induction l generalizing c with
  | nil => rfl
  | cons q qs ih =>
    rw [List.foldl_cons, ih (specStep c q)]
    unfold closedForm
    simp only [afterLastOverwrite]
    cases h : afterLastOverwrite qs with
    | some p => rfl
    | none =>
      simp only [List.isEmpty_cons, Bool.false_eq_true, if_false]
      cases ha : q.append
      · simp only [Bool.false_eq_true, if_false]
        cases qs with
        | nil => simp [specStep, ha]
        | cons x xs => simp [specStep, ha]
      · simp only [if_true]
        cases qs with
        | nil => simp [specStep, ha]
        | cons x xs => simp [specStep, ha, List.append_assoc]

theorem stage_append (fields : List Field) (a b : List (List Val)) (la lb : List Line)
    (ha : stage fields a = .ok la) (hb : stage fields b = .ok lb) : stage fields (a ++ b) = .ok (la ++ lb) := by
  induction a generalizing la with
  | nil =>
    have : la = [] := by simpa [stage, pure, Except.pure] using ha.symm
    subst this; simpa using hb
  | cons v vs ih =>
    unfold stage at ha ⊢
    rw [List.mapM_cons] at ha
    rw [List.cons_append, List.mapM_cons]
    cases h1 : encodeLine fields v with
    | error e => simp [h1, bind, Except.bind] at ha
    | ok l =>
      cases h2 : vs.mapM (encodeLine fields) with
      | error e => simp [h1, h2, bind, Except.bind] at ha
      | ok ls =>
        simp [h1, h2, bind, Except.bind, pure, Except.pure] at ha
        subst ha
        have := ih ls h2
        unfold stage at this
        simp [this, bind, Except.bind, pure, Except.pure]

end Verif.C09
