/- C09 helper definitions and lemmas (the logical specification the model is refined to). -/
import Verif.C09.Model
import Verif.C08.Lemmas

namespace Verif.C09
open Verif.Py Verif.Tables

/-- what a reader sees of a relation: the records (none = no file) and whether they come from
the compressed form -/
structure Abs where
  content : Option (List Line)
  compressed : Bool
deriving Repr, DecidableEq

def abs (r : Rel) : Abs := ⟨r.read, r.useGz⟩

/-- the logical effect of one `write` request on what a reader sees: a refused request
(append together with gzip, or append onto compressed data) and a request whose staging failed
change nothing; otherwise the new content is the written lines, preceded by the old content for an
append; it is compressed iff requested and non-empty. -/
def absStep (a : Abs) (q : WReq) : Abs :=
  if q.append && (q.gzip || a.compressed) then a else
  match q.staged with
  | .error _ => a
  | .ok lines => ⟨some ((if q.append then a.content.getD [] else []) ++ lines), q.gzip && !lines.isEmpty⟩

/-- lines a request carries (none if its staging failed) -/
def linesOf (q : WReq) : List Line :=
  match q.staged with
  | .ok l => l
  | .error _ => []

/-- exactly one of the two physical files exists -/
def OneForm (r : Rel) : Prop := (r.tx.isSome = true ∧ r.gz.isSome = false) ∨ (r.tx.isSome = false ∧ r.gz.isSome = true)

theorem useGz_tx_only (f : File) : (Rel.useGz { tx := some f, gz := none }) = false := rfl
theorem useGz_gz_only (f : File) : (Rel.useGz { tx := none, gz := some f }) = true := rfl

theorem read_not_useGz (r : Rel) (h : r.useGz = false) : r.read = r.tx.map (·.lines) := by
  simp [Rel.read, h]

theorem abs_step (now : Nat) (r : Rel) (q : WReq) : abs (step now r q) = absStep (abs r) q := by
  unfold step write absStep abs
  cases hrej : (q.append && (q.gzip || r.useGz))
  · cases hst : q.staged with
    | error e => simp
    | ok lines =>
      cases hgz : (q.gzip && !lines.isEmpty)
      · -- plain destination
        cases hap : q.append
        · simp [hgz, Rel.read, Rel.useGz]
        · have hu : r.useGz = false := by
            cases hu : r.useGz <;> simp [hap, hu] at hrej ⊢
          have hg : q.gzip = false := by
            cases hg : q.gzip <;> simp [hap, hg] at hrej ⊢
          simp [hgz, hu, Rel.read, useGz_tx_only]
      · -- compressed destination: then it is not an append
        have hg : q.gzip = true := by
          cases hg : q.gzip <;> simp [hg] at hgz ⊢
        have hap : q.append = false := by
          cases hap : q.append <;> simp [hap, hg] at hrej ⊢
        simp [hgz, hap, Rel.read, Rel.useGz]
  · simp

theorem abs_run (now : Nat) (r : Rel) (qs : List WReq) :
    abs (run now r qs) = qs.foldl absStep (abs r) := by
  induction qs generalizing now r with
  | nil => rfl
  | cons q qs ih => simp [run, ih, abs_step]

/-- folding appends over a plain (uncompressed) content -/
theorem fold_appends_plain (c : List Line) (apps : List WReq) (happ : ∀ a ∈ apps, a.append = true) :
    apps.foldl absStep ⟨some c, false⟩ =
      ⟨some (c ++ (apps.filter (fun a => !a.gzip)).flatMap linesOf), false⟩ := by
  induction apps generalizing c with
  | nil => simp
  | cons a apps ih =>
    have ha : a.append = true := happ a (by simp)
    have happ' : ∀ b ∈ apps, b.append = true := fun b hb => happ b (by simp [hb])
    rw [List.foldl_cons]
    cases hg : a.gzip
    · cases hst : a.staged with
      | error e =>
        have : absStep ⟨some c, false⟩ a = ⟨some c, false⟩ := by simp [absStep, ha, hg, hst]
        rw [this, ih c happ']
        simp [hg, linesOf, hst]
      | ok lines =>
        have : absStep ⟨some c, false⟩ a = ⟨some (c ++ lines), false⟩ := by simp [absStep, ha, hg, hst]
        rw [this, ih (c ++ lines) happ']
        simp [hg, linesOf, hst, List.append_assoc]
    · have : absStep ⟨some c, false⟩ a = ⟨some c, false⟩ := by simp [absStep, ha, hg]
      rw [this, ih c happ']
      simp [hg]

/-- appends onto compressed content are all refused -/
theorem fold_appends_compressed (c : Option (List Line)) (apps : List WReq)
    (happ : ∀ a ∈ apps, a.append = true) :
    apps.foldl absStep ⟨c, true⟩ = ⟨c, true⟩ := by
  induction apps with
  | nil => rfl
  | cons a apps ih =>
    have ha : a.append = true := happ a (by simp)
    have : absStep ⟨c, true⟩ a = ⟨c, true⟩ := by simp [absStep, ha]
    rw [List.foldl_cons, this]
    exact ih (fun b hb => happ b (by simp [hb]))

end Verif.C09

/-! ### records remade by column name -/

namespace Verif.C09
open Verif.Py Verif.Tables

theorem lookupLast_zip_none (ns : List Name) (vs : RawRec) (n : Name) (h : n ∉ ns) :
    lookupLast (ns.zip vs) n = none := by
  induction ns generalizing vs with
  | nil => simp [lookupLast]
  | cons k ns ih =>
    cases vs with
    | nil => simp [lookupLast]
    | cons v vs =>
      have hk : k ≠ n := fun e => h (by simp [e])
      have hn : n ∉ ns := fun e => h (by simp [e])
      simp [List.zip_cons_cons, lookupLast, ih vs hn, hk]

theorem colGet_not_mem (ns : List Name) (vs : RawRec) (n : Name) (h : n ∉ ns) : colGet ns vs n = none := by
  simp [colGet, lookupLast_zip_none ns vs n h]

theorem colGet_cons (k : Name) (ns : List Name) (v : Option (List Char)) (vs : RawRec) (n : Name) :
    colGet (k :: ns) (v :: vs) n =
      match lookupLast (ns.zip vs) n with
      | some x => x
      | none => if k = n then v else none := by
  unfold colGet
  simp only [List.zip_cons_cons, lookupLast]
  cases lookupLast (ns.zip vs) n with
  | none => by_cases hk : k = n <;> simp [hk]
  | some x => simp

theorem colGet_get (ns : List Name) (vs : RawRec) (hnd : ns.Nodup) (j : Nat) (hj : j < ns.length)
    (hv : j < vs.length) : colGet ns vs ns[j] = vs[j] := by
  induction ns generalizing vs j with
  | nil => simp at hj
  | cons k ns ih =>
    cases vs with
    | nil => simp at hv
    | cons v vs =>
      have hk : k ∉ ns := (List.nodup_cons.mp hnd).1
      have hnd' : ns.Nodup := (List.nodup_cons.mp hnd).2
      rw [colGet_cons]
      cases j with
      | zero => simp [lookupLast_zip_none ns vs k hk]
      | succ j =>
        have hj' : j < ns.length := by simpa using hj
        have hv' : j < vs.length := by simpa using hv
        have ih' := ih vs hnd' j hj' hv'
        have hne : k ≠ ns[j] := fun e => hk (e ▸ List.getElem_mem hj')
        simp only [List.getElem_cons_succ]
        unfold colGet at ih'
        cases hl : lookupLast (ns.zip vs) ns[j] with
        | none => simp [hl] at ih'; simp [hne, ih']
        | some x => simp [hl] at ih'; simp [ih']

/-! ### write_database -/

@[simp] theorem Files.set_same (fs : Files) (n : Name) (r : Rel) : (fs.set n r) n = r := by simp [Files.set]
theorem Files.set_other (fs : Files) (n m : Name) (r : Rel) (h : m ≠ n) : (fs.set n r) m = fs m := by
  simp [Files.set, h]

theorem sourceRecords_congr (q : DbReq) (fl : List Field) (f g : Files) (n : Name) (h : f n = g n) :
    sourceRecords q fl f n = sourceRecords q fl g n := by
  unfold sourceRecords; rw [h]

theorem writeOne_ok (now : Nat) (q : DbReq) (src dst dst' : Files) (n : Name)
    (h : writeOne now q src dst n = .ok dst') :
    ∃ fields recs lines r', q.target.lookup n = some fields ∧
      sourceRecords q fields (if q.inPlace then dst else src) n = .ok recs ∧
      stage fields (recs.map (·.map toVal)) = .ok lines ∧
      write now (dst n) ⟨false, q.gzip, .ok lines⟩ = .ok r' ∧ dst' = dst.set n r' := by
  unfold writeOne at h
  cases hl : q.target.lookup n with
  | none => simp [hl] at h
  | some fields =>
    simp only [hl] at h
    cases hs : sourceRecords q fields (if q.inPlace then dst else src) n with
    | error e => simp [hs, write, bind, Except.bind] at h
    | ok recs =>
      cases hst : stage fields (recs.map (·.map toVal)) with
      | error e => simp [hs, hst, write, bind, Except.bind] at h
      | ok lines =>
        simp only [hs, hst, bind, Except.bind] at h
        cases hw : write now (dst n) ⟨false, q.gzip, .ok lines⟩ with
        | error e => simp [hw] at h
        | ok r' =>
          simp [hw] at h
          exact ⟨fields, recs, lines, r', rfl, hs, hst, hw, h.symm⟩

theorem writeLoop_other (q : DbReq) (src : Files) (names : List Name) (now : Nat) (dst d : Files)
    (h : writeLoop q src now dst names = (d, none)) (m : Name) (hm : m ∉ names) : d m = dst m := by
  induction names generalizing now dst with
  | nil => simp [writeLoop] at h; rw [h]
  | cons n ns ih =>
    unfold writeLoop at h
    cases hw : writeOne now q src dst n with
    | error e => simp [hw] at h
    | ok dst' =>
      simp only [hw] at h
      obtain ⟨_, _, _, r', _, _, _, _, hset⟩ := writeOne_ok now q src dst dst' n hw
      have hmn : m ≠ n := fun e => hm (by simp [e])
      have hms : m ∉ ns := fun e => hm (by simp [e])
      rw [ih (now + 1) dst' h hms, hset, Files.set_other _ _ _ _ hmn]

end Verif.C09

/-! ### a stored line decodes to the cells it was made from -/

namespace Verif.C09
open Verif.Py Verif.Tables
open Verif.C08 (Val escape unescape splitRaw joinRaw normEmpty)

/-- C08 `split_join` for a line with its terminator, re-derived here from the C08 lemmas so that
this file does not depend on the whole of C08's Props (dates, integers). -/
theorem split_join_nl (vs : List (Option (List Char))) (hne : vs ≠ []) :
    splitRaw (joinRaw vs ++ ['\n']) = .ok (vs.map normEmpty) := by
  have hnl : '\n' ∉ joinRaw vs := by
    unfold joinRaw
    rw [C08.tables_ok.2]
    apply C08.not_mem_joinWith '@' '\n' _ (by decide)
    intro p hp
    simp only [List.mem_map] at hp
    obtain ⟨v, _, rfl⟩ := hp
    exact (C08.L.escape_safe _).1
  unfold splitRaw
  rw [C08.rstripChar_snoc, C08.rstripChar_not_mem _ _ hnl]
  unfold joinRaw
  rw [C08.tables_ok.2, C08.splitOn_joinWith '@' _ (by simpa using hne) (C08.cols_no_delim vs)]
  exact C08.mapM_cols vs

/-- the cells `join(record, fields)` prints -/
def cellsOf (fields : List Field) (vals : List Val) : List (List Char) :=
  (fields.zip vals).map (fun fv => fmtField fv.1 fv.2)

theorem encodeLine_eq_joinRaw (fields : List Field) (vals : List Val) (l : Line)
    (h : encodeLine fields vals = .ok l) :
    fields ≠ [] ∧ vals.length = fields.length ∧ l = joinRaw ((cellsOf fields vals).map some) := by
  unfold encodeLine at h
  cases hf : fields.isEmpty
  · by_cases hl : vals.length = fields.length
    · simp [hf, hl] at h
      refine ⟨by intro e; simp [e] at hf, hl, ?_⟩
      rw [← h]
      simp [joinRaw, cellsOf, List.map_map, Function.comp_def]
    · simp [hf, hl] at h
  · simp [hf] at h

end Verif.C09
