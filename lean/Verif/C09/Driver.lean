/- C09 line-protocol driver: `lake env lean --run Verif/C09/Driver.lean` -/
import Verif.Common.Proto
import Verif.C09.Model
open Lean Verif.Proto Verif.C09 Verif.Py
open Verif.C08 (Val DType DT)

namespace Verif.C09.Driver

def errTag : Err → String
  | .notImplemented => "NotImplementedError"
  | .tsdbError => "TSDBError"
  | .schemaError => "TSDBSchemaError"
  | .attributeError => "AttributeError"
  | .keyError => "KeyError"
  | .valueError => "ValueError"
  | .indexError => "IndexError"
  | .unmodelled => "unmodelled"

def jDT (t : DT) : Json := jList jNat [t.y, t.mo, t.d, t.H, t.M, t.S]

def jVal : Val → Json
  | .none => Json.null
  | .int i => Json.mkObj [("int", Json.str (toString i))]
  | .str s => Json.mkObj [("str", cps s)]
  | .date t => Json.mkObj [("date", jDT t)]

def ofDT (j : Json) : Except String DT := do
  let a ← j.getArr?
  let ns ← a.toList.mapM (·.getNat?)
  match ns with
  | [y, mo, d, H, M, S] => pure { y, mo, d, H, M, S }
  | _ => throw "bad date"

def ofVal (j : Json) : Except String Val :=
  match j with
  | Json.null => pure .none
  | _ =>
    match j.getObjVal? "int" with
    | .ok v => do
      let s ← v.getStr?
      match s.toInt? with
      | some i => pure (.int i)
      | none => throw "bad int"
    | .error _ =>
      match j.getObjVal? "str" with
      | .ok v => do pure (.str (← ofCps v))
      | .error _ => do pure (.date (← ofDT (← j.getObjVal? "date")))

def ofDType (s : String) : Except String DType :=
  match s with
  | ":integer" => pure .integer
  | ":string" => pure .string
  | ":date" => pure .date
  | _ => throw s!"bad datatype {s}"

def dtTag : DType → String
  | .integer => ":integer"
  | .string => ":string"
  | .date => ":date"

def ofField (j : Json) : Except String Field := do
  pure { name := ← getCps j "name", dt := ← ofDType (← getStr j "dt") }

def ofFields (j : Json) (k : String) : Except String (List Field) := do
  (← getArr j k).mapM ofField

def ofSchema (j : Json) : Except String Schema := do
  let a ← j.getArr?
  a.toList.mapM (fun t => do pure (← getCps t "name", ← ofFields t "fields"))

def ofOptSchema (j : Json) (k : String) : Except String (Option Schema) :=
  match j.getObjVal? k with
  | .ok Json.null => pure none
  | .ok v => do pure (some (← ofSchema v))
  | .error _ => pure none

def ofRawRec (j : Json) : Except String RawRec := do
  (← j.getArr?).toList.mapM ofOptCps

def ofRawRecs (j : Json) (k : String) : Except String (List RawRec) := do
  (← getArr j k).mapM ofRawRec

/-- the harness plants files with its own encoder: `'@'.join(escape(v or ''))` -/
def plantLines (recs : List RawRec) : List Line := recs.map C08.joinRaw

def ofFile (j : Json) : Except String (Option File) :=
  match j with
  | Json.null => pure none
  | _ => do pure (some { lines := plantLines (← ofRawRecs j "recs"), mtime := ← getNat j "mtime" })

def ofRel (j : Json) : Except String Rel := do
  pure { tx := ← ofFile (← j.getObjVal? "tx"), gz := ← ofFile (← j.getObjVal? "gz") }

def jExcept {α} (f : α → Json) : Except Err α → Json
  | .ok a => jOk (f a)
  | .error e => jErr (errTag e)

def jRaw (r : Except Err (List RawRec)) : Json := jExcept (jList (jList optCps)) r
def jCastRead (r : Except Err (List (List Val))) : Json := jExcept (jList (jList jVal)) r

/-- what the harness observes of one relation; `sel`: `none` = no column-selecting reads,
`some none` = `select_from(name)` with the default `columns=None`, `some (some cols)` = explicit columns -/
def obsRel (fields : Option (List Field)) (r : Rel) (sel : Option (Option (List Name)) := none) : List (String × Json) :=
  [("tx", Json.bool r.tx.isSome), ("gz", Json.bool r.gz.isSome)] ++
  match fields with
  | none => []
  | some fs =>
    [("raw", jRaw (readRaw r)), ("cast", jCastRead (readCast fs r))] ++
    match sel with
    | none => []
    | some cols =>
      [("open", jExcept (jList cps) (openLines r)),
       ("sel", jRaw (selectRaw fs cols r)),
       ("selcast", jCastRead (selectCast fs cols r)),
       ("selauto", jCastRead (selectAuto fs cols r))]

/-- `sel` of a case: `null`, the string `"all"` or a list of column names -/
def ofSel (j : Json) : Except String (Option (Option (List Name))) :=
  match j with
  | Json.null => pure none
  | Json.str _ => pure (some none)
  | _ => do pure (some (some (← (← j.getArr?).toList.mapM ofCps)))

def ofEnc (j : Json) (k : String) : Except String Enc :=
  match j.getObjVal? k with
  | .ok (Json.str "latin-1") => pure .latin1
  | .ok (Json.str "ascii") => pure .ascii
  | .ok (Json.str "utf-8") => pure .utf8
  | .ok Json.null => pure .utf8
  | .ok v => throw s!"bad encoding {v}"
  | .error _ => pure .utf8

/-- mtime of files written by `tsdb.write` during a case: later than every "old"/start
file (small numbers), earlier than every "new" plant (see harness/c09.py) -/
def MID : Nat := 2000000000

/-! history cases -/

/-- what the caller's iterable sees each time it is asked for a record -/
def jDuring (r : Rel) (s : RelT) : Json :=
  Json.mkObj [("tx", Json.bool s.rel.tx.isSome), ("gz", Json.bool s.rel.gz.isSome),
              ("tmp", jNat (if s.tmp.isSome then 1 else 0)), ("same", Json.bool (decide (s.rel = r)))]

def histStep (enc : Enc) (fields : List Field) (sel : Option (Option (List Name))) (k : Nat) (r : Rel) (op : Json) : Except String (Rel × Json) := do
  let kind ← getStr op "k"
  match kind with
  | "write" =>
    let recs ← (← getArr op "recs").mapM (fun rj => do (← rj.getArr?).toList.mapM ofVal)
    -- the effect-level model: one `encodeRec` per record, effects run from the state without temp file
    let q : WReqE := { append := ← getBool op "append", gzip := ← getBool op "gzip", recs := recs.map (encodeRec enc fields) }
    -- small requests run the effect list itself; large ones (relations of 100 KiB and more) are answered from
    -- the digest that `effects_digest` / `during_digest` prove equal to it (running 2600 prefixes is cubic)
    let small := recs.length ≤ 64
    let (rel', err, tmpLeft) :=
      if small then
        let (es, err) := effects r q
        let st := runEffs MID ⟨r, none⟩ es
        (st.rel, err, st.tmp.isSome)
      else
        let (r', err) := writeDigest MID r q
        (r', err, false)
    let duringJ :=
      if small then jList (jDuring r) (duringStates MID r q)
      else
        -- `during_digest`: every pull sees the relation files of before the call and the temp file
        let one := Json.mkObj [("tx", Json.bool r.tx.isSome), ("gz", Json.bool r.gz.isSome),
                               ("tmp", jNat 1), ("same", Json.bool true)]
        Json.arr (List.replicate (pullCount r q) one).toArray
    let during := ("during", duringJ)
    let left := ("tmp_left", Json.bool tmpLeft)
    match err with
    | none => pure (rel', Json.mkObj ([("res", Json.str "ok")] ++ obsRel (some fields) rel' sel ++ [during, left]))
    | some e => pure (rel', Json.mkObj ([("res", Json.str (errTag e))] ++ obsRel (some fields) rel' sel ++ [during, left]))
  | "plant" =>
    let gz ← getBool op "gz"
    let lines := plantLines (← ofRawRecs op "recs")
    let when_ ← getStr op "when"
    let other := if gz then r.tx else r.gz
    let newT := 3000000000 + k
    let mt := match when_ with
      | "old" => 1
      | "new" => newT
      | _ => match other with | some f => f.mtime | none => newT
    let f : File := { lines := lines, mtime := mt }
    let r' : Rel := if gz then { r with gz := some f } else { r with tx := some f }
    pure (r', Json.mkObj ([("res", Json.str "planted")] ++ obsRel (some fields) r' sel))
  | "remove" =>
    let gz ← getBool op "gz"
    let r' : Rel := if gz then { r with gz := none } else { r with tx := none }
    pure (r', Json.mkObj ([("res", Json.str "removed")] ++ obsRel (some fields) r' sel))
  | _ => throw s!"bad hist op {kind}"

def histLoop (enc : Enc) (fields : List Field) (sel : Option (Option (List Name))) : Nat → Rel → List Json → Except String (List Json)
  | _, _, [] => pure []
  | k, r, op :: ops => do
    let (r', o) ← histStep enc fields sel k r op
    pure (o :: (← histLoop enc fields sel (k + 1) r' ops))

/-! database cases -/

def ofFiles (j : Json) : Except String Files := do
  let a ← j.getArr?
  let l ← a.toList.mapM (fun t => do pure (← getCps t "name", ← ofRel t))
  pure (fun n => (l.lookup n).getD {})

def jSField (f : SField) : Json :=
  Json.arr #[cps f.name, cps f.datatype, jList cps f.flags, optCps f.comment]

def jSSchema (s : SSchema) : Json :=
  jList (fun t => Json.mkObj [("name", cps t.1), ("fields", jList jSField t.2)]) s

def ofSField (j : Json) : Except String SField := do
  let flags ← match j.getObjVal? "flags" with
    | .ok Json.null => pure []
    | .ok v => (← v.getArr?).toList.mapM ofCps
    | .error _ => pure []
  let dt ← match j.getObjVal? "dtc" with
    | .ok v => ofCps v
    | .error _ => do pure (← getStr j "dt").toList
  pure { name := ← getCps j "name", datatype := dt, flags := flags, comment := ← getOptCps j "comment" }

def ofSSchema (j : Json) : Except String SSchema := do
  let a ← j.getArr?
  a.toList.mapM (fun t => do pure (← getCps t "name", ← (← getArr t "fields").mapM ofSField))

def handle (j : Json) : Except String Json := do
  let op ← getStr j "op"
  match op with
  | "hist" =>
    let fields ← ofFields j "fields"
    let r0 ← ofRel (← j.getObjVal? "start")
    let sel ← match j.getObjVal? "sel" with
      | .ok v => ofSel v
      | .error _ => pure none
    let enc ← ofEnc j "enc"
    let o0 := Json.mkObj ([("res", Json.str "start")] ++ obsRel (some fields) r0 sel)
    let os ← histLoop enc fields sel 0 r0 (← getArr j "ops")
    pure (Json.arr (o0 :: os).toArray)
  | "db" =>
    let srcSchema ← ofSchema (← j.getObjVal? "src_schema")
    let src ← ofFiles (← j.getObjVal? "src_files")
    let dstJ ← j.getObjVal? "dst_files"
    let inPlace := dstJ == Json.null
    let dst ← if inPlace then pure src else ofFiles dstJ
    let names ← match j.getObjVal? "names" with
      | .ok Json.null => pure none
      | .ok v => do pure (some (← (← v.getArr?).toList.mapM ofCps))
      | .error _ => pure none
    let autocast ← match j.getObjVal? "src_autocast" with
      | .ok v => v.getBool?
      | .error _ => pure false
    let watch ← (← getArr j "watch").mapM ofCps
    let tss0 ← match j.getObjVal? "schema" with
      | .ok Json.null => ofSSchema (← j.getObjVal? "src_schema")
      | .ok v => ofSSchema v
      | .error _ => ofSSchema (← j.getObjVal? "src_schema")
    -- a schema handed over as a path goes through `write_schema` + `read_schema` first
    let viaPath := match j.getObjVal? "schema_via" with
      | .ok (Json.str "obj") => false
      | .ok (Json.str _) => true
      | _ => false
    let schemaJ ← ofOptSchema j "schema"
    let (tss, schema) ← if viaPath && schemaJ.isSome then
        match readSchema (writeSchema tss0) with
        | .ok t => match t.toSchema with
          | some sc => pure (t, some sc)
          | none => throw "schema given as a path: datatype outside the model"
        | .error e => throw s!"schema given as a path does not parse: {errTag e}"
      else pure (tss0, schemaJ)
    let q : DbReq := { srcSchema := srcSchema, autocast := autocast, inPlace := inPlace, names := names,
                       schema := schema, gzip := ← getBool j "gzip" }
    let enc ← ofEnc j "enc"
    -- the final `_cleanup_files` runs on file NAMES (`writeDbFiles`; equal to `writeDbE` for dot-free names by
    -- `writeDbFiles_eq`, HistProps.lean)
    let (d, e) := writeDbFiles enc MID q src dst
    let dd : DbDir := { relations := some (writeSchema tss), files := d }
    let back := reopenSchema dd
    let sels ← match j.getObjVal? "sel" with
      | .ok v => (← v.getArr?).toList.mapM ofSel
      | .error _ => pure (watch.map (fun _ => none))
    let rels := (watch.zip sels).map (fun (n, sel) =>
      let fs : Option (List Field) := match back with
        | .ok s => (s.toSchema.getD []).lookup n
        | .error _ => none
      Json.mkObj (obsRel fs (d n) sel))
    pure (Json.mkObj [
      ("res", Json.str (match e with | none => "ok" | some e => errTag e)),
      ("schema", jExcept jSSchema back),
      ("rels", Json.arr rels.toArray)])
  | "init" =>
    let tss ← ofSSchema (← j.getObjVal? "schema")
    let dst ← ofFiles (← j.getObjVal? "dst_files")
    let files ← getBool j "files"
    let watch ← (← getArr j "watch").mapM ofCps
    let dd := initDbDir MID files tss { files := dst }
    let back := reopenSchema dd
    let rels := watch.map (fun n =>
      let fs : Option (List Field) := match back with
        | .ok s => (s.toSchema.getD []).lookup n
        | .error _ => none
      Json.mkObj (obsRel fs (dd.files n) (some none)))
    pure (Json.mkObj [
      ("res", Json.str "ok"),
      ("schema", jExcept jSSchema back),
      ("rels", Json.arr rels.toArray)])
  | "schema_rt" =>
    let ss ← ofSSchema (← j.getObjVal? "schema")
    let text := writeSchema ss
    pure (Json.mkObj [("text", cps text), ("parsed", jExcept jSSchema (readSchema text))])
  | "schema_parse" =>
    pure (jExcept jSSchema (readSchema (← getCps j "text")))
  | _ => throw s!"bad op {op}"

end Verif.C09.Driver

def main : IO Unit := Verif.Proto.serve Verif.C09.Driver.handle
