/-
C09 — property theorems (relation files).  Only property statements live here; the logical
specification (`Abs`, `absStep`, `linesOf`, `OneForm`) and helper lemmas are in Lemmas.lean.
-/
import Verif.C09.Lemmas
import Verif.Generated.TablesC09

namespace Verif.C09
open Verif.Py Verif.Tables

/-! ## one relation, histories of writes -/

/-- "a rejected request (appending to compressed data) leaves the stored records unchanged":
appending with `gzip`, or onto a relation that is read from its compressed file, is refused, and
nothing — neither file, hence no read — changes.  The first conjunct (WHICH requests are refused,
before anything is staged) is the content; the second holds by construction of the model (`step`
keeps the state on every error) — that the real code touches nothing before raising is checked on the
code, by the byte digest the harness takes after every rejected step. -/
theorem write_rejected_noop (now : Nat) (r : Rel) (q : WReq)
    (ha : q.append = true) (hc : q.gzip = true ∨ r.useGz = true) :
    write now r q = .error .notImplemented ∧ step now r q = r := by
  have h : write now r q = .error .notImplemented := by
    unfold write
    rcases hc with hc | hc <;> simp [ha, hc]
  exact ⟨h, by simp [step, h]⟩

/-- "exactly one of the plain and compressed files exists (compressed only if requested and
non-empty)" — and stale data cannot resurface: from ANY start state (both forms present, any
mtimes) one accepted write leaves exactly one physical file, so the mtime comparison can never
again choose old data. -/
theorem write_one_form (now : Nat) (r r' : Rel) (q : WReq) (h : write now r q = .ok r') :
    OneForm r' ∧ (r'.gz.isSome = true ↔ (q.gzip = true ∧ linesOf q ≠ [])) := by
  unfold write at h
  cases hrej : (q.append && (q.gzip || r.useGz))
  · rw [hrej] at h
    cases hst : q.staged with
    | error e => simp [hst] at h
    | ok lines =>
      cases hgz : (q.gzip && !lines.isEmpty)
      · simp [hst, hgz] at h
        subst h
        refine ⟨Or.inl ⟨rfl, rfl⟩, ?_⟩
        simp [linesOf, hst]
        intro hg
        simpa [hg] using hgz
      · simp [hst, hgz] at h
        subst h
        refine ⟨Or.inr ⟨rfl, rfl⟩, ?_⟩
        simp [linesOf, hst]
        cases hg : q.gzip <;> simp [hg] at hgz ⊢
        exact hgz
  · simp [hrej] at h

/-- what is read after one accepted write, from ANY start state: the lines just written,
preceded by what was read before if it was an append. -/
theorem write_read (now : Nat) (r r' : Rel) (q : WReq) (h : write now r q = .ok r') :
    r'.read = some ((if q.append then r.read.getD [] else []) ++ linesOf q) := by
  have hs : step now r q = r' := by simp [step, h]
  have ha := abs_step now r q
  rw [hs] at ha
  have hc : (abs r').content = r'.read := rfl
  rw [← hc, ha]
  unfold write at h
  unfold absStep abs
  cases hrej : (q.append && (q.gzip || r.useGz))
  · cases hst : q.staged with
    | error e => simp [hrej, hst] at h
    | ok lines => simp [linesOf, hst]
  · simp [hrej] at h

/-- refinement: what a reader sees after any history of writes, from ANY start state (absent,
plain, compressed, or both forms with any mtimes), is the fold of the logical effect `absStep`
over the history, started at what the reader saw before. -/
theorem run_refines (now : Nat) (r : Rel) (qs : List WReq) :
    abs (run now r qs) = qs.foldl absStep (abs r) :=
  abs_run now r qs

/-- "After any sequence of writes … reading the relation returns exactly the records of the last
overwrite followed by the later appends, in order": for every history `pre ++ ow :: apps` whose
last overwrite `ow` was accepted with lines `L0` and is followed only by appends, from ANY start
state, the read returns `L0` followed by the lines of the later appends that the API accepts —
none if the overwrite produced a compressed file (every append is then refused), else those
without the gzip flag (and whose records could be staged). -/
theorem read_last_overwrite (now : Nat) (r : Rel) (pre apps : List WReq) (ow : WReq) (L0 : List Line)
    (how : ow.append = false) (hst : ow.staged = .ok L0) (happ : ∀ a ∈ apps, a.append = true) :
    (run now r (pre ++ ow :: apps)).read =
      some (L0 ++ (if ow.gzip && !L0.isEmpty then []
                   else (apps.filter (fun a => !a.gzip)).flatMap linesOf)) := by
  have h := abs_run now r (pre ++ ow :: apps)
  have hc : (abs (run now r (pre ++ ow :: apps))).content = (run now r (pre ++ ow :: apps)).read := rfl
  rw [← hc, h, List.foldl_append, List.foldl_cons]
  generalize pre.foldl absStep (abs r) = a
  have hstep : absStep a ow = ⟨some L0, ow.gzip && !L0.isEmpty⟩ := by
    simp [absStep, how, hst]
  rw [hstep]
  cases hz : (ow.gzip && !L0.isEmpty)
  · rw [fold_appends_plain L0 apps happ]; simp
  · rw [fold_appends_compressed (some L0) apps happ]; simp

/-- the same for a history without any overwrite: the start content followed by the accepted
appends (all refused if the start is read from a compressed file). -/
theorem read_appends_only (now : Nat) (r : Rel) (apps : List WReq) (happ : ∀ a ∈ apps, a.append = true)
    (hne : (apps.filter (fun a => !a.gzip && a.staged.isOk)) ≠ []) (hplain : r.useGz = false) :
    (run now r apps).read =
      some (r.read.getD [] ++ (apps.filter (fun a => !a.gzip)).flatMap linesOf) := by
  have h := abs_run now r apps
  have hc : (abs (run now r apps)).content = (run now r apps).read := rfl
  rw [← hc, h]
  clear h hc
  -- split at the first accepted append
  induction apps with
  | nil => simp at hne
  | cons a apps ih =>
    have ha : a.append = true := happ a (by simp)
    have happ' : ∀ b ∈ apps, b.append = true := fun b hb => happ b (by simp [hb])
    rw [List.foldl_cons]
    by_cases hacc : (!a.gzip && a.staged.isOk) = true
    · have hg : a.gzip = false := by cases hg : a.gzip <;> simp [hg] at hacc ⊢
      cases hst : a.staged with
      | error e => simp [hst, Except.isOk, Except.toBool] at hacc
      | ok lines =>
        have : absStep (abs r) a = ⟨some (r.read.getD [] ++ lines), false⟩ := by
          simp [absStep, abs, ha, hg, hplain, hst]
        rw [this, fold_appends_plain _ apps happ']
        simp [hg, linesOf, hst, List.append_assoc]
    · have hskip : absStep (abs r) a = abs r := by
        cases hg : a.gzip
        · cases hst : a.staged with
          | error e => simp [absStep, hst]
          | ok lines => simp [hg, hst, Except.isOk, Except.toBool] at hacc
        · simp [absStep, ha, hg]
      have hne' : (apps.filter (fun a => !a.gzip && a.staged.isOk)) ≠ [] := by
        simpa [List.filter_cons, hacc] using hne
      rw [hskip, ih happ' hne']
      have hl : (if (!a.gzip) = true then linesOf a else []) = [] := by
        cases hg : a.gzip
        · cases hst : a.staged with
          | error e => simp [linesOf, hst]
          | ok lines => simp [hg, hst, Except.isOk, Except.toBool] at hacc
        · simp
      cases hg : a.gzip
      · have : linesOf a = [] := by simpa [hg] using hl
        simp [hg, this]
      · simp [hg]

/-- dropping the requests that fail (refused appends, requests whose records cannot be staged) does
not change what a reader sees after a history -/
theorem drop_failed_requests (now : Nat) (r : Rel) (qs : List WReq) :
    abs (run now r qs) = (acceptedIn (abs r) qs).foldl absStep (abs r) := by
  rw [abs_run, fold_absStep_accepted]

/-- the closed form for ARBITRARY histories, from any start state: reading returns the records of
the last ACCEPTED overwrite followed by those of the later ACCEPTED appends, in order (`closedForm`
over `acceptedIn`: if no overwrite was accepted, the start content followed by the accepted appends;
if nothing was accepted, the start content).  Failed overwrites and failed appends, wherever they
stand, contribute nothing. -/
theorem read_any_history (now : Nat) (r : Rel) (qs : List WReq) :
    (run now r qs).read = closedForm r.read (acceptedIn (abs r) qs) := by
  have h := abs_run now r qs
  have hc : (abs (run now r qs)).content = (run now r qs).read := rfl
  rw [← hc, h, fold_content_spec, fold_spec_closed]
  rfl

/-- the shape `read_last_overwrite` does not cover: a staging-failed overwrite AFTER the last
accepted one (and a refused append) leave the closed form untouched. -/
example :
    (run 0 {} [⟨false, false, .ok [['a']]⟩, ⟨true, false, .ok [['b']]⟩, ⟨false, true, .error .tsdbError⟩,
               ⟨true, true, .ok [['x']]⟩, ⟨true, false, .ok [['c']]⟩]).read = some [['a'], ['b'], ['c']] := by
  decide

/-- exactly one physical form after any history that starts with an accepted write, whatever
came before and whatever follows -/
theorem run_one_form (now : Nat) (r : Rel) (qs : List WReq) (h : OneForm r) : OneForm (run now r qs) := by
  induction qs generalizing now r with
  | nil => exact h
  | cons q qs ih =>
    apply ih
    unfold step
    cases hw : write now r q with
    | error e => exact h
    | ok r' => exact (write_one_form now r r' q hw).1

theorem run_one_form_after_write (now : Nat) (r r' : Rel) (q : WReq) (qs : List WReq)
    (h : write now r q = .ok r') : OneForm (run now r (q :: qs)) := by
  have : step now r q = r' := by simp [step, h]
  simp only [run, this]
  exact run_one_form _ _ _ (write_one_form now r r' q h).1


/-! ## records remade by column name (`_remake_records` / `make_record`) -/

/-- "matching columns by name, leaving added columns empty and dropping removed ones" (shape):
the remade record has exactly the columns of the target schema. -/
theorem remake_length (oldF newF : List Field) (rec : RawRec) :
    (remake oldF newF rec).length = newF.length := by
  simp [remake]

/-- … a column of the target that exists in the source (distinct source names) carries the
source value of that name, wherever the two schemas place it. -/
theorem remake_kept (oldF newF : List Field) (rec : RawRec) (hnd : (oldF.map (·.name)).Nodup)
    (i j : Nat) (hi : i < newF.length) (hj : j < oldF.length) (hr : j < rec.length)
    (hname : newF[i].name = oldF[j].name) :
    (remake oldF newF rec)[i]? = some rec[j] := by
  have hj' : j < (oldF.map (·.name)).length := by simpa using hj
  have h := colGet_get (oldF.map (·.name)) rec hnd j hj' hr
  simp only [List.getElem_map] at h
  simp [remake, hi, hname, h]

/-- … a column the source does not have is left empty (`None`; `join` prints the field default). -/
theorem remake_added (oldF newF : List Field) (rec : RawRec) (i : Nat) (hi : i < newF.length)
    (hnew : newF[i].name ∉ oldF.map (·.name)) :
    (remake oldF newF rec)[i]? = some none := by
  simp [remake, hi, colGet_not_mem _ rec _ hnew]

/-- … and remaking under the same schema (distinct names, full-width record) is the identity;
columns of the source that the target does not name are dropped by `remake_length`. -/
theorem remake_id (f : List Field) (rec : RawRec) (hnd : (f.map (·.name)).Nodup)
    (hlen : rec.length = f.length) : remake f f rec = rec := by
  apply List.ext_getElem
  · simp [remake, hlen]
  · intro i h1 h2
    have hi : i < f.length := by simpa [remake] using h1
    have hi' : i < (f.map (·.name)).length := by simpa using hi
    have h := colGet_get (f.map (·.name)) rec hnd i hi' h2
    simp only [List.getElem_map] at h
    simp [remake, h]

/-- duplicate source column names: Python's `dict(zip(...))` keeps the LAST one (model faithful
to the code; the property's "by name" is ambiguous there). -/
theorem remake_duplicate_last_wins :
    remake [⟨['x'], .string⟩, ⟨['x'], .string⟩] [⟨['x'], .string⟩] [some ['1'], some ['2']] = [some ['2']] := by
  decide

/-! ## whole databases (`write_database`) -/

/-- "Writing a whole database to a new directory or onto itself, optionally under a different
schema, preserves every record of every relation it writes": after a successful `write_database`
— out of place with any `names`, in place with `names` without repetition (an in-place call that
names a relation twice reads, the second time, the file it has just rewritten: the model follows
the code there, the theorem does not cover it) — every relation `n` it was asked to write reads back as exactly the
lines staged from the records that the source relation held BEFORE the call — for an in-place
write (`inPlace`, source = destination) too: the loop never reads a file it has already replaced —
remade by column name if a schema was given (`sourceVals`: raw cells of a source opened with
`autocast=False`, typed values of one opened with `autocast=True`); it exists in exactly one
physical form, compressed iff requested and non-empty. -/
theorem writeDb_preserves (now : Nat) (q : DbReq) (src dst d : Files)
    (hnd : q.inPlace = false ∨ q.nameList.Nodup) (h : writeDb now q src dst = (d, none)) (n : Name)
    (hn : n ∈ q.nameList) :
    ∃ fields vals lines, q.target.lookup n = some fields ∧
      sourceVals q fields (if q.inPlace then dst else src) n = .ok vals ∧
      stage fields vals = .ok lines ∧
      (d n).read = some lines ∧ OneForm (d n) ∧
      ((d n).gz.isSome = true ↔ (q.gzip = true ∧ lines ≠ [])) := by
  unfold writeDb at h
  cases hloop : writeLoop q src now dst q.nameList with
  | mk d1 e =>
    cases e with
    | some e => simp [hloop] at h
    | none =>
      simp only [hloop, Prod.mk.injEq, and_true] at h
      have hd : d n = d1 n := by
        rw [← h]; simp [cleanup, hn]
      rw [hd]
      clear h hd
      generalize q.nameList = names at hnd hn hloop
      induction names generalizing now dst with
      | nil => simp at hn
      | cons n0 ns ih =>
        unfold writeLoop at hloop
        cases hw : writeOne now q src dst n0 with
        | error e => simp [hw] at hloop
        | ok dst' =>
          simp only [hw] at hloop
          obtain ⟨fields, recs, lines, r', hl, hs, hst, hwr, hset⟩ := writeOne_ok now q src dst dst' n0 hw
          have hnd' : q.inPlace = false ∨ ns.Nodup := by
            rcases hnd with h' | h'
            · exact Or.inl h'
            · exact Or.inr (List.nodup_cons.mp h').2
          by_cases hmem : n ∈ ns
          · -- a later occurrence decides; it reads the same source
            obtain ⟨fields', recs', lines', a1, a2, a3, a4⟩ := ih (now + 1) dst' hnd' hmem hloop
            refine ⟨fields', recs', lines', a1, ?_, a3, a4⟩
            rw [← a2]
            apply sourceVals_congr
            rcases hnd with h' | h'
            · simp [h']
            · have hEq : n ≠ n0 := fun e => (List.nodup_cons.mp h').1 (e ▸ hmem)
              cases q.inPlace
              · rfl
              · simp [hset, Files.set_other _ _ _ _ hEq]
          · have hEq : n = n0 := by
              rcases List.mem_cons.mp hn with h' | h'
              · exact h'
              · exact absurd h' hmem
            subst hEq
            have hdn : d1 n = r' := by
              rw [writeLoop_other q src ns (now + 1) dst' d1 hloop n hmem, hset, Files.set_same]
            have h1 := write_one_form now (dst n) r' _ hwr
            have h2 := write_read now (dst n) r' _ hwr
            refine ⟨fields, recs, lines, hl, hs, hst, ?_, ?_, ?_⟩
            · rw [hdn, h2]; simp [linesOf]
            · rw [hdn]; exact h1.1
            · rw [hdn]; simpa [linesOf] using h1.2

/-- "… and leaves no stale file for a relation of the target schema that was not written":
neither the plain nor the compressed file of such a relation exists afterwards, whatever the
destination directory held before. -/
theorem writeDb_no_stale (now : Nat) (q : DbReq) (src dst d : Files)
    (h : writeDb now q src dst = (d, none)) (n : Name)
    (hT : n ∈ q.target.map (·.1)) (hn : n ∉ q.nameList) :
    (d n).tx = none ∧ (d n).gz = none := by
  unfold writeDb at h
  cases hloop : writeLoop q src now dst q.nameList with
  | mk d1 e =>
    cases e with
    | some e => simp [hloop] at h
    | none =>
      simp only [hloop, Prod.mk.injEq, and_true] at h
      rw [← h]
      have : n ∈ (q.target.map (·.1)).filter (fun m => !(q.nameList.contains m)) := by
        simp [List.mem_filter, hn]
        simpa using hT
      show (if n ∈ _ then ({} : Rel) else d1 n).tx = none ∧ (if n ∈ _ then ({} : Rel) else d1 n).gz = none
      rw [if_pos this]
      exact ⟨rfl, rfl⟩

/-- relations outside the target schema are not touched -/
theorem writeDb_other_untouched (now : Nat) (q : DbReq) (src dst d : Files)
    (h : writeDb now q src dst = (d, none)) (n : Name)
    (hT : n ∉ q.target.map (·.1)) (hn : n ∉ q.nameList) : d n = dst n := by
  unfold writeDb at h
  cases hloop : writeLoop q src now dst q.nameList with
  | mk d1 e =>
    cases e with
    | some e => simp [hloop] at h
    | none =>
      simp only [hloop, Prod.mk.injEq, and_true] at h
      rw [← h]
      have : n ∉ (q.target.map (·.1)).filter (fun m => !(q.nameList.contains m)) := by
        intro hm; exact hT (List.mem_filter.mp hm).1
      show (if n ∈ _ then ({} : Rel) else d1 n) = dst n
      rw [if_neg this]
      exact writeLoop_other q src q.nameList now dst d1 hloop n hn


/-! ## from stored lines back to records -/

open Verif.C08 (Val normEmpty) in
/-- one stored record reads back (raw interface) as the cells it was printed from, an empty cell
as `None` — this is C08's `split_join` (no value can create, merge or shift columns). -/
theorem decode_encode (fields : List Field) (vals : List Val) (l : Line)
    (h : encodeLine fields vals = .ok l) :
    decodeRaw l = .ok ((cellsOf fields vals).map (fun s => normEmpty (some s))) := by
  obtain ⟨hne, hlen, rfl⟩ := encodeLine_eq_joinRaw fields vals l h
  have hne' : (cellsOf fields vals).map some ≠ [] := by
    cases fields with
    | nil => exact absurd rfl hne
    | cons f fs =>
      cases vals with
      | nil => simp at hlen
      | cons v vs => simp [cellsOf]
  unfold decodeRaw
  rw [split_join_nl _ hne']
  simp [List.map_map, Function.comp_def]

open Verif.C08 (Val normEmpty) in
/-- "reading the relation returns exactly the records …" at the level of records: if the lines a
reader gets are the ones staged from `recs`, the raw read returns the printed cells of `recs`,
record by record, in order. -/
theorem readRaw_staged (fields : List Field) (recs : List (List Val)) (lines : List Line) (r : Rel)
    (hst : stage fields recs = .ok lines) (hr : r.read = some lines) :
    readRaw r = .ok (recs.map (fun vals => (cellsOf fields vals).map (fun s => normEmpty (some s)))) := by
  unfold readRaw
  rw [hr]
  show (splitLines (toText lines)).mapM decodeRaw = _
  rw [splitLines_toText lines (stage_no_nl fields recs lines hst)]
  clear hr
  induction recs generalizing lines with
  | nil =>
    have : lines = [] := by simpa [stage, pure, Except.pure] using hst.symm
    subst this; rfl
  | cons v vs ih =>
    unfold stage at hst
    rw [List.mapM_cons] at hst
    cases h1 : encodeLine fields v with
    | error e => simp [h1, bind, Except.bind] at hst
    | ok l =>
      cases h2 : vs.mapM (encodeLine fields) with
      | error e => simp [h1, h2, bind, Except.bind] at hst
      | ok ls =>
        simp [h1, h2, bind, Except.bind, pure, Except.pure] at hst
        subst hst
        rw [List.mapM_cons, decode_encode fields v l h1, ih ls h2]
        rfl

/-- a raw cell copied by `write_database` is printed verbatim, an empty one as the default of its
(target) column — the documented replacement "preserves every record" is read modulo. -/
theorem cells_of_raw (fields : List Field) (rec : RawRec) :
    cellsOf fields (rec.map toVal) = (fields.zip rec).map (fun fc => fc.2.getD fc.1.default) := by
  unfold cellsOf
  rw [List.zip_map_right, List.map_map]
  apply List.map_congr_left
  intro fc _
  cases h : fc.2 with
  | none => simp [h, toVal, fmtField]
  | some s => simp [h, toVal, fmtField, C08.format]

open Verif.C08 (normEmpty) in
/-- `writeDb_preserves` through the raw read interface: every written relation reads back as the
source records (remade by name if a schema was given), cell by cell, an empty cell replaced by the
column default. -/
theorem writeDb_readRaw (now : Nat) (q : DbReq) (src dst d : Files) (hraw : q.autocast = false)
    (hnd : q.inPlace = false ∨ q.nameList.Nodup) (h : writeDb now q src dst = (d, none)) (n : Name) (hn : n ∈ q.nameList) :
    ∃ fields recs, q.target.lookup n = some fields ∧
      sourceRecords q fields (if q.inPlace then dst else src) n = .ok recs ∧
      readRaw (d n) = .ok (recs.map (fun rec =>
        ((fields.zip rec).map (fun fc => fc.2.getD fc.1.default)).map (fun s => normEmpty (some s)))) := by
  obtain ⟨fields, vals, lines, h1, h2, h3, h4, _, _⟩ := writeDb_preserves now q src dst d hnd h n hn
  unfold sourceVals at h2
  simp only [hraw, Bool.false_eq_true, if_false] at h2
  cases hs : sourceRecords q fields (if q.inPlace then dst else src) n with
  | error e => simp [hs] at h2
  | ok recs =>
  simp only [hs, Except.ok.injEq] at h2
  subst h2
  refine ⟨fields, recs, h1, hs, ?_⟩
  rw [readRaw_staged fields _ lines (d n) h3 h4, List.map_map]
  congr 1
  apply List.map_congr_left
  intro rec _
  simp [cells_of_raw]



/-! ## typed sources (`Database(autocast=True)` handed to `write_database`) -/

open Verif.C08 (Val) in
/-- remaking a typed record: a target column that the source has carries the source VALUE of that
name, whatever it is — `0`, `-1` (the text of the integer default) and every other value alike; only
`None` (an empty cell) is later replaced by the column default. -/
theorem remakeV_kept (oldF newF : List Field) (rec : List Val) (hnd : (oldF.map (·.name)).Nodup)
    (i j : Nat) (hi : i < newF.length) (hj : j < oldF.length) (hr : j < rec.length)
    (hname : newF[i].name = oldF[j].name) :
    (remakeV oldF newF rec)[i]? = some rec[j] := by
  have hj' : j < (oldF.map (·.name)).length := by simpa using hj
  have h := colGetV_get (oldF.map (·.name)) rec hnd j hj' hr
  simp only [List.getElem_map] at h
  simp [remakeV, hi, hname, h]

open Verif.C08 (Val) in
theorem remakeV_added (oldF newF : List Field) (rec : List Val) (i : Nat) (hi : i < newF.length)
    (hnew : newF[i].name ∉ oldF.map (·.name)) :
    (remakeV oldF newF rec)[i]? = some Val.none := by
  simp [remakeV, hi, colGetV_not_mem _ rec _ hnew]

open Verif.C08 (Val) in
theorem remakeV_id (f : List Field) (rec : List Val) (hnd : (f.map (·.name)).Nodup)
    (hlen : rec.length = f.length) : remakeV f f rec = rec := by
  apply List.ext_getElem
  · simp [remakeV, hlen]
  · intro i h1 h2
    have hi : i < f.length := by simpa [remakeV] using h1
    have hi' : i < (f.map (·.name)).length := by simpa using hi
    have h := colGetV_get (f.map (·.name)) rec hnd i hi' h2
    simp only [List.getElem_map] at h
    simp [remakeV, h]

/-- the integer `0` (falsy in Python) in a typed record is printed as `0`, not as the column
default: `i-wf` has the coded default `1`, a plain `:integer` column `-1`. -/
theorem zero_is_not_empty :
    fmtField ⟨"i-wf".toList, .integer⟩ (.int 0) = ['0'] ∧ fmtField ⟨"i-wf".toList, .integer⟩ .none = ['1']
    ∧ fmtField ⟨"n".toList, .integer⟩ (.int 0) = ['0'] ∧ fmtField ⟨"n".toList, .integer⟩ .none = ['-', '1']
    ∧ remakeV [⟨"n".toList, .integer⟩, ⟨"i-wf".toList, .integer⟩] [⟨"i-wf".toList, .integer⟩, ⟨"n".toList, .integer⟩]
        [.int 0, .int 0] = [.int 0, .int 0] := by decide

/-! ## the relations file (`_format_schema` / `_parse_schema`, `write_schema` / `read_schema`) -/

/-- schema text round trip at line level: for every schema whose relation names start with a word
character and contain no white space, whose field names, datatypes and flags are non-empty tokens
free of white space and `#`, where no datatype, flag or comment ends in a colon and comments are
non-empty without leading or trailing white space, parsing the formatted schema gives the schema
back — names, datatypes, flags AND comments, tables and fields in order. -/
theorem parse_format_schema (ss : SSchema) (h : ∀ t ∈ ss, TableOk t) (hnd : (ss.map (·.1)).Nodup) :
    parseSchema (formatSchema ss) = .ok ss := by
  obtain ⟨st', h1, h2⟩ := parseLines_schema {} ss h hnd (by simp [PState.tables])
  have h3 : st'.tables = ss := by rw [h2]; simp [PState.tables]
  simp only [parseSchema, h1, h3]

/-- the stretch statement: `parseSchema (formatSchema s) = ok s` for schemas over identifiers (no
white space, `#`, `:` in relation and field names; `:key`-like datatypes and flags; optional
comments), one-character relation names included. -/
theorem parse_format_schema_ident (ss : SSchema) (h : ∀ t ∈ ss, IdentTable t)
    (hnd : (ss.map (·.1)).Nodup) : parseSchema (formatSchema ss) = .ok ss :=
  parse_format_schema ss (fun t ht => TableOk_of_ident t (h t ht)) hnd

/-- F27 regression (fixed by 464c039), checked on the model: relations named by one character, in
first and in later position, with flags, a padded and an unpadded comment. -/
theorem one_char_relation_roundtrip :
    (parseSchema (formatSchema
      [("a".toList, [⟨"x".toList, ":integer".toList, [":key".toList], some "the id".toList⟩]),
       ("q".toList, [⟨"ffffffffffffffffffffffffffffffffffffffff".toList, ":string".toList, [], some "# tight".toList⟩,
                     ⟨"y".toList, ":date".toList, [], none⟩]),
       ("_".toList, [])])).toOption
    = some
      [("a".toList, [⟨"x".toList, ":integer".toList, [":key".toList], some "the id".toList⟩]),
       ("q".toList, [⟨"ffffffffffffffffffffffffffffffffffffffff".toList, ":string".toList, [], some "# tight".toList⟩,
                     ⟨"y".toList, ":date".toList, [], none⟩]),
       ("_".toList, [])] := by decide

/-- outside the region the round trip really fails (so the hypotheses are not decoration): a comment
that ends in a colon turns its field line into a table line. -/
theorem comment_colon_breaks_roundtrip :
    (parseSchema (formatSchema [("t".toList, [⟨"x".toList, ":string".toList, [], some "see:".toList⟩])])).toOption
      ≠ some [("t".toList, [⟨"x".toList, ":string".toList, [], some "see:".toList⟩])] := by decide


/-! ## the relations file at character level (`write_schema` / `read_schema`) -/

/-- `readSchema (writeSchema s) = s` for every schema satisfying the decidable predicate
`schemaOkB` (Lemmas.lean): relation names start with a word character, contain no line-break
character and are pairwise different; field names are non-empty and free of white space; datatypes
and flags are non-empty and free of white space and `#`; a comment is non-empty, neither starts nor
ends with white space and contains no line-break character; and no field line looks like a relation
header (name starting with a word character AND line ending in a colon).  Here the file is its
character text, read through `str.splitlines` (all of `\n \r \r\n \v \f FS GS RS NEL LS PS`). -/
theorem readSchema_writeSchema (ss : SSchema) (h : schemaOkB ss = true) :
    readSchema (writeSchema ss) = .ok ss := by
  simp only [schemaOkB, Bool.and_eq_true, List.all_eq_true] at h
  unfold readSchema writeSchema
  rw [splitlinesPy_toText _ (noBreak_formatSchema ss h.1)]
  exact parse_format_schema ss (fun t ht => TableOk_of_B t (h.1 t ht)) (nodupB_nodup _ h.2)

/-- stability of the text: writing what was read back reproduces the file character by character -/
theorem schema_text_stable (ss s' : SSchema) (h : schemaOkB ss = true)
    (hr : readSchema (writeSchema ss) = .ok s') : writeSchema s' = writeSchema ss := by
  rw [readSchema_writeSchema ss h] at hr
  cases hr; rfl

/-- the predicate is exact, clause by clause: dropping any one of its conjuncts admits a schema that
the writer emits and the reader reads differently (or rejects) — and what it does NOT demand really is
harmless (relation names with inner spaces, `#`, `:`; a field name starting with `-` whose line ends
in a colon; a datatype ending in a colon that is not last on its line; `#` inside a comment).  On
every one of these examples `schemaOkB` and the actual round trip agree. -/
theorem schemaOk_clauses_needed :
    roundTrips [("t".toList, [mkF "a b" ":s" [] none])] = false          -- white space in a field name
    ∧ roundTrips [("t".toList, [mkF "" ":s" [] none])] = false           -- empty field name
    ∧ roundTrips [("t".toList, [mkF "a" ":s#" [] none])] = false         -- `#` in a datatype
    ∧ roundTrips [("t".toList, [mkF "a" ":s" [""] none])] = false        -- empty flag
    ∧ roundTrips [("t".toList, [mkF "a" ":s" ["k k"] none])] = false     -- white space in a flag
    ∧ roundTrips [("t".toList, [mkF "a" ":s" [] (some " c")])] = false   -- comment starting with a space
    ∧ roundTrips [("t".toList, [mkF "a" ":s" [] (some "c ")])] = false   -- comment ending with a space
    ∧ roundTrips [("t".toList, [mkF "a" ":s" [] (some "")])] = false     -- empty comment (read back as None)
    ∧ roundTrips [("t".toList, [mkF "a" ":s" [] (some "see:")])] = false -- comment ending in a colon
    ∧ roundTrips [("t".toList, [mkF "a" ":s" [":k:"] none])] = false     -- last flag ending in a colon
    ∧ roundTrips [("t".toList, [mkF "a" ":s" [] (some "c\rd")])] = false -- line break inside a comment
    ∧ roundTrips [("-t".toList, [mkF "a" ":s" [] none])] = false         -- relation name not starting with \w
    ∧ roundTrips [("t\nu".toList, [mkF "a" ":s" [] none])] = false       -- line break in a relation name
    ∧ roundTrips [("t".toList, []), ("t".toList, [])] = false            -- relation defined twice
    ∧ roundTrips [("my table #1:".toList, [mkF "-x#" ":a:" [":k:"] none])] = true
    ∧ roundTrips [("t".toList, [mkF "x" ":s:" [":k"] (some "c # d")]), ("q".toList, [])] = true
    ∧ ([ [("t".toList, [mkF "a b" ":s" [] none])], [("t".toList, [mkF "" ":s" [] none])],
         [("t".toList, [mkF "a" ":s#" [] none])], [("t".toList, [mkF "a" ":s" [""] none])],
         [("t".toList, [mkF "a" ":s" ["k k"] none])], [("t".toList, [mkF "a" ":s" [] (some " c")])],
         [("t".toList, [mkF "a" ":s" [] (some "c ")])], [("t".toList, [mkF "a" ":s" [] (some "")])],
         [("t".toList, [mkF "a" ":s" [] (some "see:")])], [("t".toList, [mkF "a" ":s" [":k:"] none])],
         [("t".toList, [mkF "a" ":s" [] (some "c\rd")])], [("-t".toList, [mkF "a" ":s" [] none])],
         [("t\nu".toList, [mkF "a" ":s" [] none])], [("t".toList, []), ("t".toList, [])],
         [("my table #1:".toList, [mkF "-x#" ":a:" [":k:"] none])],
         [("t".toList, [mkF "x" ":s:" [":k"] (some "c # d")]), ("q".toList, [])] ].all
        (fun s => schemaOkB s == roundTrips s)) = true := by
  decide

/-- "Writing a whole database … optionally under a different schema": `tss` is the target schema
WITH its flags and comments, tied to the request by `htss` (its data-level view — names and
datatypes — is the schema `q.target` that governs the relation files).  The destination's `relations`
file is exactly `writeSchema tss` — in every case, also when the loop over the relations raised — the
relation files and the error are those of `writeDb` (theorems `writeDb_preserves`,
`writeDb_no_stale`), and re-opening the written directory yields `tss`, whose data-level view is
`q.target` (for targets satisfying `schemaOkB`). -/
theorem written_database_reopens (now : Nat) (q : DbReq) (tss : SSchema) (src : Files) (dst d : DbDir)
    (e : Option Err) (htss : tss.toSchema = some q.target)
    (h : writeDbDir now q tss src dst = (d, e)) :
    d.relations = some (writeSchema tss) ∧ (d.files, e) = writeDb now q src dst.files
    ∧ (schemaOkB tss = true →
        ∃ s, reopenSchema d = .ok s ∧ s.toSchema = some q.target ∧ s = tss) := by
  unfold writeDbDir at h
  cases hw : writeDb now q src dst.files with
  | mk d1 e1 =>
    simp only [hw, Prod.mk.injEq] at h
    obtain ⟨hd, he⟩ := h
    subst hd; subst he
    refine ⟨rfl, rfl, ?_⟩
    intro hok
    exact ⟨tss, readSchema_writeSchema tss hok, htss, rfl⟩

/-- the hypothesis `htss` is satisfiable: the data-level view of a schema with flags and comments -/
example : SSchema.toSchema [("item".toList, [mkF "i-id" ":integer" [":key"] (some "id"), mkF "i-input" ":string" [] none])]
    = some [("item".toList, [⟨"i-id".toList, .integer⟩, ⟨"i-input".toList, .string⟩])] := by decide

/-! ## the reading interfaces -/

/-- `Database[name]` (raw) is `split` mapped over what `tsdb.open` yields: both go through the same
choice between the plain and the compressed file. -/
theorem getitem_reads_open (r : Rel) :
    readRaw r = (match openLines r with
                 | .ok lines => lines.mapM splitLine
                 | .error e => .error e) := by
  unfold readRaw openLines
  cases r.read with
  | none => rfl
  | some ls =>
    simp only [mapM_map_eq]
    rfl

open Verif.C08 (Val) in
/-- the autocast interface returns the cast of what the raw interface returns: if the raw read is
`recs`, `Database(autocast=True)[name]` is `recs` with every record checked for its width and cast
cell by cell. -/
theorem autocast_is_cast_of_raw (fields : List Field) (r : Rel) (recs : List RawRec)
    (h : readRaw r = .ok recs) : readCast fields r = recs.mapM (castRow fields) := by
  unfold readRaw at h
  unfold readCast
  cases hr : r.read with
  | none => simp [hr] at h
  | some ls =>
    simp only [hr] at h ⊢
    exact mapM_fuse decodeRaw (castRow fields) _ recs h

/-- the column-selecting interface returns the projection of what the raw interface returns -/
theorem select_is_projection (fields : List Field) (cols : Option (List Name)) (r : Rel)
    (recs : List RawRec) (idxs : List Nat) (h : readRaw r = .ok recs)
    (hi : selIndices fields cols = .ok idxs) :
    selectRaw fields cols r = recs.mapM (projectRow idxs) := by
  unfold readRaw at h
  unfold selectRaw openLines
  cases hr : r.read with
  | none => simp [hr] at h
  | some ls =>
    simp only [hr] at h
    simp only [hi, bind, Except.bind, mapM_map_eq]
    exact mapM_fuse decodeRaw (projectRow idxs) _ recs h

open Verif.C08 (Val) in
/-- … with `cast=True`: the projection of the raw records, the selected cells cast one by one -/
theorem select_cast_is_projection_then_cast (fields : List Field) (cols : Option (List Name)) (r : Rel)
    (recs : List RawRec) (idxs : List Nat) (h : readRaw r = .ok recs)
    (hi : selIndices fields cols = .ok idxs) :
    selectCast fields cols r = recs.mapM (fun rec_ => idxs.mapM (fun i =>
      match fields[i]?, rec_[i]? with
      | some f, some c => castCell f.dt c
      | _, _ => .error .indexError)) := by
  unfold readRaw at h
  unfold selectCast openLines
  cases hr : r.read with
  | none => simp [hr] at h
  | some ls =>
    simp only [hr] at h
    simp only [hi, bind, Except.bind, mapM_map_eq]
    exact mapM_fuse decodeRaw _ _ recs h

open Verif.C08 (Val) in
/-- … on a `Database(autocast=True)`: the projection of what the autocast interface returns -/
theorem select_auto_is_projection (fields : List Field) (cols : Option (List Name)) (r : Rel)
    (rows : List (List Val)) (idxs : List Nat) (h : readCast fields r = .ok rows)
    (hi : selIndices fields cols = .ok idxs) :
    selectAuto fields cols r = rows.mapM (projectRow idxs) := by
  unfold readCast at h
  unfold selectAuto openLines
  cases hr : r.read with
  | none => simp [hr] at h
  | some ls =>
    simp only [hr] at h
    simp only [hi, bind, Except.bind, mapM_map_eq]
    have := mapM_fuse (fun l => do castRow fields (← decodeRaw l)) (projectRow idxs) _ rows h
    rw [← this]
    congr 1
    funext l
    simp only [bind, Except.bind, decodeRaw_eq_splitLine]
    cases splitLine (l ++ ['\n']) <;> rfl

open Verif.C08 (Val normEmpty) in
/-- composed statement, history → every reading interface: after ANY history from any start state,
if the closed form of the history (last accepted overwrite + later accepted appends) is the list of
lines `L` that prints the records `R` under `fields`, then the raw interface returns the printed
cells of `R` (`tsdb.open` + `split` likewise), the autocast interface returns their cast, and the
three column-selecting variants return the projection of the raw records, the projection with the
selected cells cast, and the projection of the autocast records.  (`stage_append` in Lemmas.lean shows
how `L`/`R` arise: lines staged from `a` followed by lines staged from `b` are the lines staged from
`a ++ b`.) -/
theorem interfaces_after_history (now : Nat) (r : Rel) (qs : List WReq) (fields : List Field)
    (cols : Option (List Name)) (idxs : List Nat) (R : List (List Val)) (L : List Line)
    (hL : closedForm r.read (acceptedIn (abs r) qs) = some L)
    (hst : stage fields R = .ok L)
    (hi : selIndices fields cols = .ok idxs) :
    let recs := R.map (fun vals => (cellsOf fields vals).map (fun s => normEmpty (some s)))
    readRaw (run now r qs) = .ok recs
    ∧ (match openLines (run now r qs) with
        | .ok lines => lines.mapM splitLine
        | .error e => .error e) = .ok recs
    ∧ readCast fields (run now r qs) = recs.mapM (castRow fields)
    ∧ selectRaw fields cols (run now r qs) = recs.mapM (projectRow idxs)
    ∧ selectCast fields cols (run now r qs) = recs.mapM (fun rec_ => idxs.mapM (fun i =>
        match fields[i]?, rec_[i]? with
        | some f, some c => castCell f.dt c
        | _, _ => .error .indexError))
    ∧ ∀ rows, readCast fields (run now r qs) = .ok rows →
        selectAuto fields cols (run now r qs) = rows.mapM (projectRow idxs) := by
  intro recs
  have hread : (run now r qs).read = some L := by rw [read_any_history, hL]
  have hraw : readRaw (run now r qs) = .ok recs := readRaw_staged fields R L _ hst hread
  refine ⟨hraw, ?_, ?_, ?_, ?_, ?_⟩
  · rw [← getitem_reads_open]; exact hraw
  · exact autocast_is_cast_of_raw fields _ recs hraw
  · exact select_is_projection fields cols _ recs idxs hraw hi
  · exact select_cast_is_projection_then_cast fields cols _ recs idxs hraw hi
  · intro rows hrows
    exact select_auto_is_projection fields cols _ rows idxs hrows hi

/-! ## what is on disk: carriage returns, NUL and friends -/

/-- the file iterator (`newline='\n'`, plain and gzip alike) splits the stored text at `\n` only:
lines free of `\n` come back exactly, whatever else they contain (`\r`, `\r\n`-less CR, NUL, VT,
FF, NEL, U+2028 …). -/
theorem text_roundtrip (ls : List Line) (h : ∀ l ∈ ls, '\n' ∉ l) : splitLines (toText ls) = ls :=
  splitLines_toText ls h

/-- appending in `ab` mode is concatenation of the text, i.e. of the line lists. -/
theorem append_is_concatenation (old new : List Line) : toText (old ++ new) = toText old ++ toText new :=
  toText_append old new

open Verif.C08 (Val) in
/-- every staged line is free of `\n` (a newline in a value is stored as the two characters `\n`),
so the text layer never merges or splits records. -/
theorem staged_lines_no_newline (fields : List Field) (recs : List (List Val)) (lines : List Line)
    (h : stage fields recs = .ok lines) : ∀ l ∈ lines, '\n' ∉ l :=
  stage_no_nl fields recs lines h

open Verif.C08 (Val) in
/-- a string value made of ANY characters — `\r`, `\r\n`, `\n`, NUL, a backslash followed by `n` —
written as the only record, plain or compressed, reads back as exactly that string. -/
theorem string_value_survives (now : Nat) (r r' : Rel) (f : Field) (s : List Char) (hs : s ≠ []) (gz : Bool)
    (hw : write now r ⟨false, gz, stage [f] [[Val.str s]]⟩ = .ok r') :
    readRaw r' = .ok [[some s]] := by
  cases hst : stage [f] [[Val.str s]] with
  | error e => simp [write, hst] at hw
  | ok lines =>
    rw [hst] at hw
    have hr := write_read now r r' _ hw
    simp only [linesOf, Bool.false_eq_true, if_false, List.nil_append] at hr
    rw [readRaw_staged [f] [[Val.str s]] lines r' hst hr]
    cases s with
    | nil => exact absurd rfl hs
    | cons c cs => simp [cellsOf, fmtField, C08.format, C08.normEmpty]

/-- concrete instance through both physical forms: CR, CR LF, LF, NUL, backslash-n in one value. -/
theorem cr_nul_concrete :
    ((readRaw { tx := some ⟨[['1', '@', 'a', '\r', '\\', 'n', '\r', '\\', 'n', Char.ofNat 0, '\\', '\\', 'n']], 1⟩, gz := none }).toOption
      = some [[some ['1'], some ['a', '\r', '\n', '\r', '\n', Char.ofNat 0, '\\', 'n']]])
    ∧ ((readRaw { tx := none, gz := some ⟨[['1', '@', 'a', '\r', '\\', 'n', '\r', '\\', 'n', Char.ofNat 0, '\\', '\\', 'n']], 1⟩ }).toOption
      = some [[some ['1'], some ['a', '\r', '\n', '\r', '\n', Char.ofNat 0, '\\', 'n']]]) := by
  decide

/-- the hypotheses above are satisfiable and the statement is not vacuous: a stale newer `.gz`
next to a plain file, then overwrite + append + refused gzip-append. -/
example :
    (run 10 { tx := some ⟨[['a']], 1⟩, gz := some ⟨[['z']], 5⟩ }
      [⟨false, false, .ok [['b']]⟩, ⟨true, false, .ok [['c']]⟩, ⟨true, true, .ok [['d']]⟩]).read
      = some [['b'], ['c']] := by decide


/-! ## Pins: the constants of the anchored code that the hand-written model mirrors

`Generated/TablesC09.lean` is rewritten on every run by `harness/c09.py: tables()` from the live
`delphin.tsdb`: for every anchored function its literals in source order (strings, numbers,
`None`/`True`/`False`; `kw=value` for keyword arguments with a literal value; for `_get_paths` and
`write` also the comparison / boolean operators as `op:…`), without docstrings, annotations and the
message texts inside `raise` / `warnings.warn`; the default argument values; `SCHEMA_FILENAME`.
`Generated/Tables.lean` carries `FIELD_DELIMITER`, `TSDB_CODED_ATTRIBUTES`, `TSDB_CORE_FILES`.
Which model definition hand-codes which of them:

* `c09GetPathsConsts` (`''`, `'.gz'`, `and / or / not / >`): `Rel.useGz` — the `.gz` form is used iff
  it exists and (plain absent or gz STRICTLY newer); `Rel` has exactly the two forms `name`, `name.gz`.
* `c09OpenConsts` (`'.gz'`, `mode='rt'`, `newline='\n'` for the gzip AND the plain branch):
  `Rel.read`, `splitLines` (text split at `\n` only, both forms alike), theorems `text_roundtrip`,
  `string_value_survives`.
* `c09WriteConsts` (`append and (gzip or use_gz)`, `'ab'`/`'wb'`, temp file `mode='w+b'`,
  `suffix='.tmp'`, line terminator `'\n'`, `gzip and tell() != 0`) and the defaults of `write`
  (`fields=None, append=False, gzip=False, encoding='utf-8'`): `write`, `WReq`, `toText`, `stage`.
* `c09WriteDatabaseConsts` (`exist_ok=True`, `append=False`, the three `is None` tests) and its defaults
  (`names=None, schema=None, gzip=False, 'utf-8'`): `DbReq`, `writeOne` (`append := false`), `writeDb`.
* `c09MakeRecordConsts` (`colmap.get(name, None)`), `c09RemakeRecordsConsts`: `colGet`, `remake`.
* `c09CleanupFilesConsts` (`''`, `'.gz'`): `cleanup` removes both forms.
* `c09InitializeDatabaseConsts`, defaults `(files=False)`: `writeSchemaFile` (schema written, relation
  files of the schema cleared; the harness calls it with the default).
* `c09ParseSchemaConsts` (the table pattern `^(?P<table>\w.*):$`, the field pattern, the group names,
  `pop(0)`, the `''` tests): `tableMatch`, `parseFieldLine`, `parseLine`, `parseSchema`.
* `c09FormatSchemaConsts` (`'\n\n'`, `'{name}:\n{fields}'`, `'\n'`), `c09WriteSchemaConsts` (final `'\n'`,
  utf-8), `c09ReadSchemaConsts`, `c09SchemaFilename`: `formatSchema`, `fmtTable`, `joinLines`,
  `writeSchemaFile`, `openSchema`.
* `c09FieldStrConsts` (`'  '`, `' '`, `'{}# {}'`, `40`): `fmtSField`, `ljust 40`.
* `c09FieldInitConsts` (`':integer'`, `'-1'`, `''`; key flags) and `codedAttributes`: `Field.default`.
* `c09SplitConsts` (`rstrip('\n')`), `c09JoinConsts` (`None ↦ ''`), `fieldDelimiter`: `decodeRaw`
  (`l ++ ['\n']`), `encodeLine`, the driver's `plantLines` (C08 `splitRaw` / `joinRaw`).
* `c09DatabaseInitConsts`/defaults (`autocast=False`), `c09DatabaseGetitemConsts` (`fields = None` unless
  autocast), `c09SelectFromConsts`/defaults (`columns=None, cast=False`), `c09RelationInitConsts`:
  `readRaw` vs `readCast`, and the harness's observation through the default arguments.
* `c09MakeFieldIndexConsts` (a bare dict comprehension: last index wins), `c09CastAlias` (`_cast is cast`):
  `fieldIndex`, `selIndices`, `castCell`, `selectRaw` / `selectCast` / `selectAuto`; `c09ParseSchemaConsts`
  and `c09ReadSchemaConsts` also stand behind the character-level `readSchema` (`splitlinesPy`, `strip`).
* `coreFiles` is not used by the model; it is pinned because the generators take their relation
  names from it.

A change to any of them must be followed in the model: this theorem stops checking, which the check
reports as a broken proof obligation and then searches for a failing input. -/
theorem c09_pins :
    c09GetPathsConsts = ["", ".gz", "False", "op:And", "op:Or", "op:Not", "op:Gt", "True"] ∧
    c09GetPathConsts = [] ∧
    c09OpenConsts = [".gz", "mode='rt'", "newline='\\n'", "newline='\\n'"] ∧
    c09WriteConsts = ["op:Is", "None", "utf-8", "op:Not", "op:Is", "None", "op:And", "op:Or", "ab", "wb", "mode='w+b'", "suffix='.tmp'", "\n", "op:And", "op:NotEq", "0", "0"] ∧
    c09WriteDatabaseConsts = ["None", "None", "None", "exist_ok=True", "append=False"] ∧
    c09RemakeRecordsConsts = [] ∧
    c09MakeRecordConsts = ["None"] ∧
    c09CleanupFilesConsts = ["", ".gz"] ∧
    c09InitializeDatabaseConsts = ["exist_ok=True"] ∧
    c09ParseSchemaConsts = ["", "^(?P<table>\\w.*):$", "\\s*(?P<name>\\S+)(\\s+(?P<flags>[^#]+))?(\\s*#\\s*(?P<comment>.*)$)?", "None", "table", "None", "name", "flags", "0", "comment", ""] ∧
    c09FormatSchemaConsts = ["\n\n", "{name}:\n{fields}", "\n"] ∧
    c09WriteSchemaConsts = ["\n", "encoding='utf-8'"] ∧
    c09ReadSchemaConsts = ["encoding='utf-8'"] ∧
    c09FieldStrConsts = ["  ", " ", "{}# {}", "40"] ∧
    c09FieldInitConsts = ["False", ":key", ":primary", ":foreign", "True", ":integer", "-1", ""] ∧
    c09SplitConsts = ["None", "\n"] ∧
    c09JoinConsts = ["None", ""] ∧
    c09RelationInitConsts = [] ∧
    c09DatabaseInitConsts = [] ∧
    c09DatabaseGetitemConsts = ["None"] ∧
    c09SelectFromConsts = ["None"] ∧
    c09MakeFieldIndexConsts = [] ∧
    c09CastAlias = true ∧
    c09Defaults = [
       ("_get_paths", "None", "None"),
       ("get_path", "None", "None"),
       ("open", "(None,)", "None"),
       ("write", "(None, False, False, 'utf-8')", "None"),
       ("write_database", "(None, None, False, 'utf-8')", "None"),
       ("_remake_records", "None", "None"),
       ("make_record", "None", "None"),
       ("_cleanup_files", "None", "None"),
       ("initialize_database", "(False,)", "None"),
       ("_parse_schema", "None", "None"),
       ("_format_schema", "None", "None"),
       ("write_schema", "None", "None"),
       ("read_schema", "None", "None"),
       ("Field.__str__", "None", "None"),
       ("Field.__init__", "(None, None)", "None"),
       ("split", "(None,)", "None"),
       ("join", "(None,)", "None"),
       ("Relation.__init__", "('utf-8',)", "None"),
       ("Database.__init__", "(False, 'utf-8')", "None"),
       ("Database.__getitem__", "None", "None"),
       ("Database.select_from", "(None, False)", "None"),
       ("make_field_index", "None", "None")] ∧
    c09SchemaFilename = "relations" ∧
    fieldDelimiter = '@' ∧
    codedAttributes = [("i-wf", "1"), ("i-difficulty", "1"), ("polarity", "-1")] ∧
    coreFiles = ["item", "analysis", "phenomenon", "parameter", "set", "item-phenomenon", "item-set"] := by
  refine ⟨?_, ?_, ?_, ?_, ?_, ?_, ?_, ?_, ?_, ?_, ?_, ?_, ?_, ?_, ?_, ?_, ?_, ?_, ?_, ?_, ?_, ?_, ?_, ?_, ?_, ?_, ?_, ?_⟩ <;> rfl

end Verif.C09
