/-
C11 ∘ C08 — the cast is no longer a parameter: databases arrive as RAW cells plus the column's
datatype and are cast by C08's model of `tsdb.cast` (`:integer`, `:date`, `:string`); literals are
converted from their lexemes by C08's `castInt` (`int(lexeme)`) and `parseDate`
(`tsdb.cast(':date', lexeme)`).  Where C08's model answers `unmodelled` (non-ASCII digits, text no
date pattern matches, `now`/`:today`) or an error the tsql code would raise lazily (`ValueError`,
`KeyError` of a bad month name), the composition answers `unmodelled`.
Imports C08's model read-only.
-/
import Verif.C08.Model
import Verif.C11.Model

namespace Verif.C11.Compose
open Verif.C11

/-- C11's datatype as C08's -/
def dtype08 : DType → Option Verif.C08.DType
  | .integer => some .integer
  | .string => some .string
  | .date => some .date
  | .float => none          -- floats are a parameter in C08 as well

/-- a date-time as the sortable number YYYYMMDDhhmmss (the encoding of `Val.date`) -/
def dateKey (t : Verif.C08.DT) : Nat :=
  ((((t.y * 100 + t.mo) * 100 + t.d) * 100 + t.H) * 100 + t.M) * 100 + t.S

def val08 : Verif.C08.Val → Val
  | .none => .none
  | .int i => .int i
  | .str s => .str s
  | .date t => .date (dateKey t)

/-- `tsdb.cast(datatype, raw)` by C08's model; `none` = C08 does not model it / the code would raise -/
def castVal (dt : DType) (raw : Option (List Char)) : Option Val :=
  match raw with
  | none => some .none
  | some r =>
    match dtype08 dt with
    | none => some .none     -- a :float cell: its value is never looked at (no float keys: `DB.wf`;
                             -- conditions on float columns answer `unmodelled` or `TSQLError`)
    | some d8 =>
      match Verif.C08.cast d8 r with
      | .val v => some (val08 v)
      | .err _ => none

/-- a relation as it is on disk: raw cells (`None` for an empty field) -/
structure RawRel where
  name : String
  fields : List Field
  rows : List (List (Option (List Char)))

abbrev RawDB := List RawRel

def castCell (dt : DType) (raw : Option (List Char)) : Option Cell :=
  (castVal dt raw).map (fun v => ⟨raw, v⟩)

/-- cast a row cell by cell with the datatypes of its columns (a ragged row keeps its extra cells
out of reach: `DB.wf` rejects it afterwards) -/
def castRow : List Field → List (Option (List Char)) → Option (List Cell)
  | f :: fs, r :: rs =>
    match castCell f.dtype r, castRow fs rs with
    | some c, some cs => some (c :: cs)
    | _, _ => none
  | [], [] => some []
  | [], _ :: _ => none
  | _ :: _, [] => none

def castRows (fs : List Field) : List (List (Option (List Char))) → Option (List (List Cell))
  | [] => some []
  | r :: rs =>
    match castRow fs r, castRows fs rs with
    | some c, some cs => some (c :: cs)
    | _, _ => none

def castRel (r : RawRel) : Option Rel :=
  (castRows r.fields r.rows).map (fun rows => { name := r.name, fields := r.fields, rows := rows })

def castDB : RawDB → Option DB
  | [] => some []
  | r :: rs =>
    match castRel r, castDB rs with
    | some c, some cs => some (c :: cs)
    | _, _ => none

/-- `select` on a raw database -/
def selectRaw (rx : List Char → List Char → Bool) (rdb : RawDB) (q : Query) : Except Err Result :=
  match castDB rdb with
  | none => .error .unmodelled
  | some db => select rx db q

/-- `int(lexeme)` of an INT token -/
def intOf (s : List Char) : Option Int :=
  match Verif.C08.castInt s with
  | .ok i => some i
  | .error _ => none

/-- `tsdb.cast(':date', lexeme)` of a date token: `some none` = the warning + `None` of an invalid
calendar date, `none` = not modelled (`now`, `:today`) -/
def dateOf (s : List Char) : Option (Option Nat) :=
  match Verif.C08.parseDate s with
  | .ok t => some (some (dateKey t))
  | .invalid => some none
  | .keyError => none
  | .unmodelled => none

/-- lexical token ↦ parser token with C08's conversions -/
def toTok08 : LTok → Option Tok
  | .fix t => some t
  | .str s => some (.str s)
  | .ymd s => (dateOf s).map .date
  | .dmy s => (dateOf s).map .date
  | .kwdate _ => none
  | .int s => (intOf s).map .int
  | .qid a b => some (.qid (String.ofList a) (String.ofList b))
  | .id s => some (.id (String.ofList s))

def toToks08 : List LTok → Option (List Tok)
  | [] => some []
  | t :: ts =>
    match toTok08 t, toToks08 ts with
    | some a, some as => some (a :: as)
    | _, _ => none

def splitLines (s : List Char) : List (List Char) :=
  s.foldr (fun c acc => if c = '\n' then [] :: acc else match acc with
    | l :: ls => (c :: l) :: ls
    | [] => [[c]]) [[]]

def lexText : List (List Char) → Except Err (List LTok)
  | [] => .ok []
  | l :: ls =>
    match lexLine (l.length + 1) l with
    | .error e => .error e
    | .ok ts =>
      match lexText ls with
      | .error e => .error e
      | .ok more => .ok (ts ++ more)

/-- characters to query: `_parse_select(text)` -/
def parseText (text : List Char) : Except Err Query :=
  match lexText (splitLines (text ++ ['.'])) with
  | .error e => .error e
  | .ok lts =>
    match toToks08 lts with
    | none => .error .unmodelled
    | some toks => parseSelect (3 * toks.length + 10) toks

/-- the whole of `tsql.select(text, db)`: characters and raw files in, raw rows out -/
def selectText (rx : List Char → List Char → Bool) (rdb : RawDB) (text : List Char) : Except Err Result :=
  match parseText text with
  | .error e => .error e
  | .ok q => selectRaw rx rdb q

end Verif.C11.Compose
