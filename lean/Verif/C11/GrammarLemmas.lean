/-
C11 — the documented TSQL grammar as inductive derivation predicates, and soundness of the
parser model with respect to it: the parser accepts ONLY sentences of the grammar, and the tree
it returns is the tree of a derivation.  (The converse direction, for printed normal-form trees,
is `parseSelect_print_aux` in `Lemmas.lean`.)  Core Lean only.
-/
import Verif.C11.Lemmas
namespace Verif.C11

/-- the column of a column token -/
def tokCol : Tok → Option ColRef
  | .qid rel col => some ⟨rel, col⟩
  | .id s => some ⟨"", s⟩
  | _ => none

mutual
/-- `disjunction := conjunction (OR conjunction)*`; the index is the list of its members' trees -/
inductive DisjD : List Tok → List (Cond ColRef) → Prop
  | one {ts as} : ConjD ts as → DisjD ts [mkJunction true as]
  | more {ts as ts' cs} : ConjD ts as → DisjD ts' cs →
      DisjD (ts ++ .or_ :: ts') (mkJunction true as :: cs)
/-- `conjunction := atom (AND atom)*` -/
inductive ConjD : List Tok → List (Cond ColRef) → Prop
  | one {ts a} : AtomD ts a → ConjD ts [a]
  | more {ts a ts' as} : AtomD ts a → ConjD ts' as → ConjD (ts ++ .and_ :: ts') (a :: as)
/-- `atom := NOT disjunction | ( disjunction ) | column OP literal` with the operand kinds of the
documentation table (`litAllowed`) -/
inductive AtomD : List Tok → Cond ColRef → Prop
  | stmt {c col o t l} : tokCol c = some col → tokLit t = some l → litAllowed o.norm l = true →
      AtomD [c, .op o, t] (.leaf o.norm col l)
  | paren {ts cs} : DisjD ts cs → AtomD (.lparen :: ts ++ [.rparen]) (mkJunction false cs)
  | neg {ts cs} : DisjD ts cs → AtomD (.not_ :: ts) (.not (mkJunction false cs))
end

/-- `(WHERE disjunction)*` -/
inductive WheresD : List Tok → List (Cond ColRef) → Prop
  | nil : WheresD [] []
  | cons {ts cs ts' ws} : DisjD ts cs → WheresD ts' ws →
      WheresD (.where_ :: ts ++ ts') (mkJunction false cs :: ws)

/-- `projection := * | column+`: the token list of a projection.  (Stated on tokens, not through
`printProj`, because a token `.qid "" col` — which the lexer never produces — is accepted by the
parser model as the column `⟨"", col⟩`, whose printed form is `.id col`.) -/
inductive ProjD : List Tok → Proj → Prop
  | star : ProjD [.star] .star
  | cols {pt cs} : pt ≠ [] → pt.map tokCol = cs.map some → ProjD pt (.cols cs)

/-- a sentence: projection, optional from, where clauses, the sentinel `.` and possibly more `.` -/
def Sentence (ts : List Tok) (q : Query) : Prop :=
  ∃ pt wt ws k, ProjD pt q.proj ∧ WheresD wt ws ∧ ProjOK q.proj q.rels ∧ q.cond = whereCond ws ∧
    ts = pt ++ (printFrom q.rels ++ (wt ++ List.replicate (k + 1) .dot))

/-! ## soundness of the condition parser -/

theorem parseStmt_sound (col : ColRef) (ts : List Tok) (a : Cond ColRef) (rest : List Tok)
    (h : parseStmt col ts = .ok (a, rest)) :
    ∃ o t l, ts = .op o :: t :: rest ∧ tokLit t = some l ∧ litAllowed o.norm l = true ∧
      a = .leaf o.norm col l := by
  cases ts with
  | nil => simp [parseStmt] at h
  | cons t0 ts =>
    cases t0 with
    | op o =>
      cases ts with
      | nil => simp [parseStmt] at h
      | cons t r =>
        simp only [parseStmt] at h
        split at h
        · rename_i l hl
          split at h
          · rename_i hal
            cases h
            exact ⟨o, t, l, rfl, hl, hal, rfl⟩
          · cases h
        · cases h
    | _ => simp [parseStmt] at h

theorem parse_sound_aux : ∀ n,
    (∀ ts cs rest, parseDisjList n ts = .ok (cs, rest) → ∃ used, ts = used ++ rest ∧ DisjD used cs) ∧
    (∀ ts as rest, parseConjList n ts = .ok (as, rest) → ∃ used, ts = used ++ rest ∧ ConjD used as) ∧
    (∀ ts a rest, parseAtom n ts = .ok (a, rest) → ∃ used, ts = used ++ rest ∧ AtomD used a) := by
  intro n
  induction n with
  | zero =>
    refine ⟨?_, ?_, ?_⟩
    · intro ts cs rest h; rw [parseDisjList] at h; cases h
    · intro ts as rest h; rw [parseConjList] at h; cases h
    · intro ts a rest h; rw [parseAtom] at h; cases h
  | succ n ih =>
    obtain ⟨ihD, ihC, ihA⟩ := ih
    refine ⟨?_, ?_, ?_⟩
    · intro ts cs rest h
      rw [parseDisjList] at h
      split at h
      · cases h
      · rename_i as ts1 hc
        obtain ⟨u1, hts, hd1⟩ := ihC _ _ _ hc
        split at h
        · rename_i ts2
          split at h
          · cases h
          · rename_i cs' ts3 hd
            cases h
            obtain ⟨u2, hts2, hd2⟩ := ihD _ _ _ hd
            refine ⟨u1 ++ .or_ :: u2, ?_, .more hd1 hd2⟩
            rw [hts, hts2]; simp
        · cases h
          exact ⟨u1, hts, .one hd1⟩
    · intro ts as rest h
      rw [parseConjList] at h
      split at h
      · cases h
      · rename_i a ts1 hc
        obtain ⟨u1, hts, hd1⟩ := ihA _ _ _ hc
        split at h
        · rename_i ts2
          split at h
          · cases h
          · rename_i as' ts3 hd
            cases h
            obtain ⟨u2, hts2, hd2⟩ := ihC _ _ _ hd
            refine ⟨u1 ++ .and_ :: u2, ?_, .more hd1 hd2⟩
            rw [hts, hts2]; simp
        · cases h
          exact ⟨u1, hts, .one hd1⟩
    · intro ts a rest h
      cases ts with
      | nil => rw [parseAtom] at h; cases h
      | cons t ts =>
        cases t with
        | not_ =>
          rw [parseAtom] at h
          split at h
          · cases h
          · rename_i cs r hd
            cases h
            obtain ⟨u, hts, hdd⟩ := ihD _ _ _ hd
            exact ⟨.not_ :: u, by rw [hts]; rfl, .neg hdd⟩
        | lparen =>
          rw [parseAtom] at h
          split at h
          · cases h
          · rename_i cs r hd
            cases h
            obtain ⟨u, hts, hdd⟩ := ihD _ _ _ hd
            exact ⟨.lparen :: u ++ [.rparen], by rw [hts]; simp, .paren hdd⟩
          · cases h
          · cases h
        | qid rel col =>
          rw [parseAtom] at h
          obtain ⟨o, t, l, rfl, hl, hal, rfl⟩ := parseStmt_sound _ _ _ _ h
          exact ⟨[.qid rel col, .op o, t], rfl, .stmt rfl hl hal⟩
        | id s =>
          rw [parseAtom] at h
          obtain ⟨o, t, l, rfl, hl, hal, rfl⟩ := parseStmt_sound _ _ _ _ h
          exact ⟨[.id s, .op o, t], rfl, .stmt rfl hl hal⟩
        | _ => simp [parseAtom] at h

theorem parseDisjList_sound : ∀ n ts cs rest, parseDisjList n ts = .ok (cs, rest) →
    ∃ used, ts = used ++ rest ∧ DisjD used cs := fun n => (parse_sound_aux n).1

theorem parseConjList_sound : ∀ n ts as rest, parseConjList n ts = .ok (as, rest) →
    ∃ used, ts = used ++ rest ∧ ConjD used as := fun n => (parse_sound_aux n).2.1

theorem parseAtom_sound : ∀ n ts a rest, parseAtom n ts = .ok (a, rest) →
    ∃ used, ts = used ++ rest ∧ AtomD used a := fun n => (parse_sound_aux n).2.2

/-- `_parse_condition_disjunction`: the tree is the junction of a derivation's members -/
theorem parseDisj_sound (n : Nat) (ts : List Tok) (c : Cond ColRef) (rest : List Tok)
    (h : parseDisj n ts = .ok (c, rest)) :
    ∃ used cs, ts = used ++ rest ∧ DisjD used cs ∧ c = mkJunction false cs := by
  unfold parseDisj at h
  split at h
  · cases h
  · rename_i cs r hd
    cases h
    obtain ⟨u, hts, hdd⟩ := parseDisjList_sound _ _ _ _ hd
    exact ⟨u, cs, hts, hdd, rfl⟩

theorem parseWheres_sound : ∀ f n ts ws rest, parseWheres f n ts = .ok (ws, rest) →
    ∃ used, ts = used ++ rest ∧ WheresD used ws ∧ (rest.head? ≠ some .where_) := by
  intro f n
  induction n with
  | zero => intro ts ws rest h; rw [parseWheres] at h; cases h
  | succ n ih =>
    intro ts ws rest h
    cases ts with
    | nil =>
      simp only [parseWheres, Except.ok.injEq, Prod.mk.injEq] at h
      obtain ⟨rfl, rfl⟩ := h
      exact ⟨[], rfl, .nil, by simp⟩
    | cons t tl =>
      cases t with
      | where_ =>
        rw [parseWheres] at h
        split at h
        · cases h
        · rename_i c r hd
          split at h
          · cases h
          · rename_i cs r' hw
            cases h
            obtain ⟨u1, cs1, hts1, hd1, rfl⟩ := parseDisj_sound _ _ _ _ hd
            obtain ⟨u2, hts2, hw2, hnw⟩ := ih _ _ _ hw
            refine ⟨.where_ :: u1 ++ u2, ?_, .cons hd1 hw2, hnw⟩
            rw [hts1, hts2]; simp
      | _ =>
        simp only [parseWheres, Except.ok.injEq, Prod.mk.injEq] at h
        obtain ⟨rfl, rfl⟩ := h
        exact ⟨[], rfl, .nil, by simp⟩

/-! ## projection, from, the trailing dots -/

theorem takeCols_sound : ∀ ts : List Tok,
    ∃ pt, ts = pt ++ (takeCols ts).2 ∧ pt.map tokCol = (takeCols ts).1.map some
  | [] => ⟨[], by simp [takeCols]⟩
  | t :: r => by
    obtain ⟨pt, h1, h2⟩ := takeCols_sound r
    cases t with
    | qid rel col =>
      refine ⟨.qid rel col :: pt, ?_, ?_⟩
      · simp only [takeCols, List.cons_append]; rw [← h1]
      · simp only [takeCols, List.map_cons, h2, tokCol]
    | id s =>
      refine ⟨.id s :: pt, ?_, ?_⟩
      · simp only [takeCols, List.cons_append]; rw [← h1]
      · simp only [takeCols, List.map_cons, h2, tokCol]
    | _ => exact ⟨[], by simp [takeCols]⟩

theorem takeIds_sound : ∀ ts : List Tok, ts = (takeIds ts).1.map Tok.id ++ (takeIds ts).2
  | [] => by simp [takeIds]
  | t :: r => by
    have ih := takeIds_sound r
    cases t with
    | id s => simp only [takeIds, List.map_cons, List.cons_append]; rw [← ih]
    | _ => simp [takeIds]

theorem parseProj_sound (ts : List Tok) (p : Proj) (rest : List Tok)
    (h : parseProj ts = .ok (p, rest)) :
    ∃ pt, ts = pt ++ rest ∧ ProjD pt p ∧ (∀ cs, p = .cols cs → cs ≠ []) := by
  unfold parseProj at h
  split at h
  · cases h
  · cases h
    exact ⟨[.star], rfl, .star, by intro cs hc; cases hc⟩
  · rename_i rel col r
    obtain ⟨pt, h1, h2⟩ := takeCols_sound r
    cases h
    refine ⟨.qid rel col :: pt, ?_, .cols (by simp) ?_, ?_⟩
    · rw [List.cons_append, ← h1]
    · simp only [List.map_cons, h2, tokCol]
    · intro cs hc; cases hc; simp
  · rename_i s r
    obtain ⟨pt, h1, h2⟩ := takeCols_sound r
    cases h
    refine ⟨.id s :: pt, ?_, .cols (by simp) ?_, ?_⟩
    · rw [List.cons_append, ← h1]
    · simp only [List.map_cons, h2, tokCol]
    · intro cs hc; cases hc; simp
  · cases h

theorem parseFrom_sound (ts : List Tok) (rels : List String) (rest : List Tok)
    (h : parseFrom ts = .ok (rels, rest)) : ts = printFrom rels ++ rest := by
  unfold parseFrom at h
  split at h
  · split at h
    · rename_i s r'
      cases h
      simp only [printFrom, List.map_cons, List.cons_append]
      rw [← takeIds_sound r']
    · cases h
    · cases h
  · cases h
    rfl

theorem all_dot_replicate : ∀ r : List Tok, r.all (fun t => t = .dot) = true →
    r = List.replicate r.length .dot
  | [], _ => rfl
  | t :: r, h => by
    simp only [List.all_cons, Bool.and_eq_true, decide_eq_true_eq] at h
    rw [List.length_cons, List.replicate_succ, ← all_dot_replicate r h.2, h.1]

theorem parseSelect_sound (n : Nat) (ts : List Tok) (q : Query) (h : parseSelect n ts = .ok q) :
    Sentence ts q := by
  unfold parseSelect at h
  split at h
  · cases h
  · rename_i proj r1 hp
    split at h
    · cases h
    · rename_i rels r2 hf
      split at h
      · cases h
      · rename_i cs r3 hw
        split at h
        · cases h
        · rename_i r4
          split at h
          · cases h
          · rename_i hall
            split at h
            · cases h
            · rename_i hstar
              cases h
              obtain ⟨pt, hts, hpd, hne⟩ := parseProj_sound _ _ _ hp
              have hfr := parseFrom_sound _ _ _ hf
              obtain ⟨wt, hwt, hwd, _⟩ := parseWheres_sound _ _ _ _ _ hw
              have hdots : r4 = List.replicate r4.length .dot :=
                all_dot_replicate r4 (by simpa using hall)
              refine ⟨pt, wt, cs, r4.length, hpd, hwd, ?_, rfl, ?_⟩
              · cases proj with
                | star =>
                  intro hr
                  exact hstar ⟨rfl, hr⟩
                | cols cs' => exact hne cs' rfl
              · rw [hts, hfr, hwt, List.replicate_succ, ← hdots]
        · cases h

/-! ## the printed form, when no token is the (unlexable) `.qid "" col` -/

theorem colTok_tokCol (t : Tok) (c : ColRef) (h : tokCol t = some c) (hq : ∀ col, t ≠ .qid "" col) :
    colTok c = t := by
  cases t with
  | qid rel col =>
    simp only [tokCol, Option.some.injEq] at h
    subst h
    have : rel ≠ "" := by intro e; subst e; exact hq col rfl
    simp [colTok, this]
  | id s =>
    simp only [tokCol, Option.some.injEq] at h
    subst h
    simp [colTok]
  | _ => simp [tokCol] at h

theorem map_colTok_tokCol : ∀ (pt : List Tok) (cs : List ColRef), pt.map tokCol = cs.map some →
    (∀ col, Tok.qid "" col ∉ pt) → cs.map colTok = pt
  | [], [], _, _ => rfl
  | [], _ :: _, h, _ => by simp at h
  | _ :: _, [], h, _ => by simp at h
  | t :: pt, c :: cs, h, hq => by
    simp only [List.map_cons, List.cons.injEq] at h
    have h1 := colTok_tokCol t c h.1 (fun col e => hq col (by simp [e]))
    have h2 := map_colTok_tokCol pt cs h.2 (fun col hm => hq col (by simp [hm]))
    simp only [List.map_cons, h1, h2]

theorem projD_print (pt : List Tok) (p : Proj) (h : ProjD pt p) (hq : ∀ col, Tok.qid "" col ∉ pt) :
    pt = printProj p := by
  cases h with
  | star => rfl
  | cols _ hm => exact (map_colTok_tokCol _ _ hm hq).symm

/-- with the tokens the lexer can produce, an accepted sentence is literally
`printProj ++ printFrom ++ wheres ++ dots` -/
theorem parseSelect_sound_print (n : Nat) (ts : List Tok) (q : Query) (h : parseSelect n ts = .ok q)
    (hq : ∀ col, Tok.qid "" col ∉ ts) :
    ∃ wt ws k, WheresD wt ws ∧ ProjOK q.proj q.rels ∧ q.cond = whereCond ws ∧
      ts = printProj q.proj ++ (printFrom q.rels ++ (wt ++ List.replicate (k + 1) .dot)) := by
  obtain ⟨pt, wt, ws, k, hpd, hwd, hok, hc, hts⟩ := parseSelect_sound n ts q h
  have hpt : pt = printProj q.proj :=
    projD_print pt _ hpd (fun col hm => hq col (by rw [hts]; simp [hm]))
  exact ⟨wt, ws, k, hwd, hok, hc, by rw [← hpt]; exact hts⟩

/-! ## non-vacuity -/

example : AtomD [.id "a", .op .eq1, .int 1] (.leaf .eq ⟨"", "a"⟩ (.int 1)) :=
  .stmt (o := .eq1) rfl rfl rfl

example : DisjD [.id "a", .op .eq1, .int 1, .or_, .id "b", .op .re, .str ['x']]
    [.leaf .eq ⟨"", "a"⟩ (.int 1), .leaf .re ⟨"", "b"⟩ (.str ['x'])] :=
  .more (ts := [.id "a", .op .eq1, .int 1]) (as := [.leaf .eq ⟨"", "a"⟩ (.int 1)])
    (.one (.stmt (o := .eq1) rfl rfl rfl))
    (.one (as := [.leaf .re ⟨"", "b"⟩ (.str ['x'])]) (.one (.stmt (o := .re) rfl rfl rfl)))

/-- `NOT` takes a whole disjunction -/
example : AtomD [.not_, .id "a", .op .eq1, .int 1, .or_, .id "b", .op .re, .str ['x']]
    (.not (.or [.leaf .eq ⟨"", "a"⟩ (.int 1), .leaf .re ⟨"", "b"⟩ (.str ['x'])])) :=
  .neg (cs := [.leaf .eq ⟨"", "a"⟩ (.int 1), .leaf .re ⟨"", "b"⟩ (.str ['x'])])
    (.more (ts := [.id "a", .op .eq1, .int 1]) (as := [.leaf .eq ⟨"", "a"⟩ (.int 1)])
      (.one (.stmt (o := .eq1) rfl rfl rfl))
      (.one (as := [.leaf .re ⟨"", "b"⟩ (.str ['x'])]) (.one (.stmt (o := .re) rfl rfl rfl))))

/-- a regex operator does not take an integer: no derivation -/
example : ¬ AtomD [.id "a", .op .re, .int 1] (.leaf .re ⟨"", "a"⟩ (.int 1)) := by
  intro h
  cases h with
  | stmt _ hl hal =>
    cases hl
    exact absurd hal (by decide)

def exToks : List Tok :=
  [.id "i-id", .from_, .id "item", .where_, .not_, .id "a", .op .eq1, .int 1, .or_,
   .id "b", .op .re, .str ['x'], .dot]

def exQuery : Query :=
  { proj := .cols [⟨"", "i-id"⟩], rels := ["item"],
    cond := some (.not (.or [.leaf .eq ⟨"", "a"⟩ (.int 1), .leaf .re ⟨"", "b"⟩ (.str ['x'])])) }

theorem exParse : parseSelect 40 exToks = .ok exQuery := by rfl

example : Sentence exToks exQuery := parseSelect_sound 40 exToks exQuery exParse

end Verif.C11

