/- C11 line-protocol driver: `lake env lean --run Verif/C11/Driver.lean` -/
import Verif.Common.Proto
import Verif.C11.Model
import Verif.C11.Compose
import Verif.C11.Query
open Lean Verif.Proto Verif.C11

namespace Verif.C11.Driver

def errTag : Err → String
  | .syntaxError => "TSQLSyntaxError"
  | .tsqlError => "TSQLError"
  | .keyError => "KeyError"
  | .stopIteration => "StopIteration"
  | .fuel => "fuel"
  | .unmodelled => "unmodelled"

def ofRawOp (s : String) : Except String RawOp :=
  match s with
  | "=" => pure .eq1 | "==" => pure .eq2 | "!=" => pure .ne | "~" => pure .re | "!~" => pure .nre
  | "<=" => pure .le | "<" => pure .lt | ">=" => pure .ge | ">" => pure .gt
  | _ => throw s!"bad op {s}"

def opStr : Op → String
  | .eq => "==" | .ne => "!=" | .lt => "<" | .le => "<=" | .gt => ">" | .ge => ">=" | .re => "~" | .nre => "!~"

def ofOptNat (j : Json) : Except String (Option Nat) :=
  match j with
  | Json.null => pure none
  | _ => do pure (some (← j.getNat?))

def ofIntStr (j : Json) : Except String Int := do
  let s ← j.getStr?
  match s.toInt? with
  | some i => pure i
  | none => throw s!"bad int {s}"

/-- tokens: ["FROM"], ["ID","x"], ["QID","r","c"], ["OP","=="], ["INT","5"], ["STR",cps], ["DATE",n|null] … -/
def ofTok (j : Json) : Except String Tok := do
  let a ← j.getArr?
  let tag ← (a[0]?.getD Json.null).getStr?
  let arg (i : Nat) : Json := a[i]?.getD Json.null
  match tag with
  | "FROM" => pure .from_
  | "WHERE" => pure .where_
  | "REPORT" => pure .report
  | "STAR" => pure .star
  | "DOT" => pure .dot
  | "AND" => pure .and_
  | "OR" => pure .or_
  | "NOT" => pure .not_
  | "LP" => pure .lparen
  | "RP" => pure .rparen
  | "OP" => do pure (.op (← ofRawOp (← (arg 1).getStr?)))
  | "STR" => do pure (.str (← ofCps (arg 1)))
  | "DATE" => do pure (.date (← ofOptNat (arg 1)))
  | "INT" => do pure (.int (← ofIntStr (arg 1)))
  | "QID" => do pure (.qid (← (arg 1).getStr?) (← (arg 2).getStr?))
  | "ID" => do pure (.id (← (arg 1).getStr?))
  | _ => throw s!"bad token {tag}"

def jCol (c : ColRef) : Json := Json.str (if c.rel = "" then c.col else c.rel ++ "." ++ c.col)

def jLit : Lit → Json
  | .int i => Json.mkObj [("i", Json.str (toString i))]
  | .str s => Json.mkObj [("s", cps s)]
  | .date none => Json.mkObj [("d", Json.null)]
  | .date (some k) => Json.mkObj [("d", jNat k)]

mutual
def jCond : Cond ColRef → Json
  | .leaf op c l => Json.arr #[Json.str (opStr op), jCol c, jLit l]
  | .not c => Json.arr #[Json.str "not", jCond c]
  | .and cs => Json.arr #[Json.str "and", Json.arr (jConds cs).toArray]
  | .or cs => Json.arr #[Json.str "or", Json.arr (jConds cs).toArray]
def jConds : List (Cond ColRef) → List Json
  | [] => []
  | c :: cs => jCond c :: jConds cs
end

def jQuery (q : Query) : Json :=
  Json.mkObj [
    ("projection", match q.proj with
      | .star => Json.arr #[Json.str "*"]
      | .cols cs => jList jCol cs),
    ("relations", jList Json.str q.rels),
    ("condition", match q.cond with | none => Json.null | some c => jCond c)]

def ofDType (s : String) : Except String DType :=
  match s with
  | "integer" => pure .integer
  | "string" => pure .string
  | "date" => pure .date
  | "float" => pure .float
  | _ => throw s!"bad datatype {s}"

def ofVal (j : Json) : Except String Val :=
  match j with
  | Json.null => pure .none
  | _ =>
    match j.getObjVal? "i" with
    | .ok v => do pure (.int (← ofIntStr v))
    | .error _ =>
      match j.getObjVal? "s" with
      | .ok v => do pure (.str (← ofCps v))
      | .error _ => do pure (.date (← (← j.getObjVal? "d").getNat?))

def ofCell (j : Json) : Except String Cell := do
  let raw ← ofOptCps (← j.getObjVal? "r")
  let val ← ofVal (← j.getObjVal? "v")
  pure ⟨raw, val⟩

def ofField (j : Json) : Except String Field := do
  let a ← j.getArr?
  let name ← (a[0]?.getD Json.null).getStr?
  let dt ← ofDType (← (a[1]?.getD Json.null).getStr?)
  let k ← (a[2]?.getD Json.null).getBool?
  pure ⟨name, dt, k⟩

def ofRel (j : Json) : Except String Rel := do
  let name ← getStr j "name"
  let fields ← (← getArr j "fields").mapM ofField
  let rows ← (← getArr j "rows").mapM (fun r => do (← r.getArr?).toList.mapM ofCell)
  pure { name, fields, rows }

def ofRx (j : Json) : Except String (List (List Char × List Char × Bool)) := do
  (← j.getArr?).toList.mapM (fun e => do
    let a ← e.getArr?
    let p ← ofCps (a[0]?.getD Json.null)
    let v ← ofCps (a[1]?.getD Json.null)
    let b ← (a[2]?.getD Json.null).getBool?
    pure (p, v, b))

def rxOf (tbl : List (List Char × List Char × Bool)) (p v : List Char) : Bool :=
  match tbl.find? (fun e => e.1 = p ∧ e.2.1 = v) with
  | some e => e.2.2
  | none => false

def jTokFix : Tok → Json
  | .from_ => Json.arr #[Json.str "FROM"]
  | .where_ => Json.arr #[Json.str "WHERE"]
  | .report => Json.arr #[Json.str "REPORT"]
  | .star => Json.arr #[Json.str "STAR"]
  | .dot => Json.arr #[Json.str "DOT"]
  | .and_ => Json.arr #[Json.str "AND"]
  | .or_ => Json.arr #[Json.str "OR"]
  | .not_ => Json.arr #[Json.str "NOT"]
  | .lparen => Json.arr #[Json.str "LP"]
  | .rparen => Json.arr #[Json.str "RP"]
  | .op o => Json.arr #[Json.str "OP", Json.str (match o with
      | .eq1 => "=" | .eq2 => "==" | .ne => "!=" | .re => "~" | .nre => "!~"
      | .le => "<=" | .lt => "<" | .ge => ">=" | .gt => ">")]
  | _ => Json.null

def jLTok : LTok → Json
  | .fix t => jTokFix t
  | .str s => Json.arr #[Json.str "STR", cps s]
  | .ymd s => Json.arr #[Json.str "YMD", cps s]
  | .dmy s => Json.arr #[Json.str "DMY", cps s]
  | .kwdate s => Json.arr #[Json.str "KWDATE", cps s]
  | .int s => Json.arr #[Json.str "INT", cps s]
  | .qid a b => Json.arr #[Json.str "QID", cps a, cps b]
  | .id s => Json.arr #[Json.str "ID", cps s]

def splitLines (s : List Char) : List (List Char) :=
  s.foldr (fun c acc => if c = '\n' then [] :: acc else match acc with
    | l :: ls => (c :: l) :: ls
    | [] => [[c]]) [[]]

def lexAll : List (List Char) → Except Err (List LTok)
  | [] => .ok []
  | l :: ls =>
    match lexLine (l.length + 1) l with
    | .error e => .error e
    | .ok ts =>
      match lexAll ls with
      | .error e => .error e
      | .ok more => .ok (ts ++ more)

def handleQuery (j : Json) : Except String Json := do
    let toks ← (← getArr j "toks").mapM ofTok
    let fuel := 3 * toks.length + 10
    match parseSelect fuel toks with
    | .error e => pure (Json.mkObj [("parse", jErr (errTag e))])
    | .ok q =>
      let pj := jOk (jQuery q)
      match j.getObjVal? "db" with
      | .error _ => pure (Json.mkObj [("parse", pj)])
      | .ok dbj => do
        let db ← (← dbj.getArr?).toList.mapM ofRel
        let tbl ← ofRx (← j.getObjVal? "rx")
        match select (rxOf tbl) db q with
        | .error e => pure (Json.mkObj [("parse", pj), ("rows", jErr (errTag e))])
        | .ok r => pure (Json.mkObj [("parse", pj),
            ("rows", Json.mkObj [("ok", jList (jList optCps) r.rows), ("ordered", Json.bool r.ordered)])])

def ofRawRel (j : Json) : Except String Compose.RawRel := do
  let name ← getStr j "name"
  let fields ← (← getArr j "fields").mapM ofField
  let rows ← (← getArr j "rows").mapM (fun r => do (← r.getArr?).toList.mapM ofOptCps)
  pure { name, fields, rows }

/-- the composed pipeline C11 ∘ C08: query text and raw cells in -/
def handleComposed (j : Json) : Except String Json := do
  let text ← getCps j "text"
  let rdb ← (← getArr j "rawdb").mapM ofRawRel
  let tbl ← ofRx (← j.getObjVal? "rx")
  match Compose.parseText text with
  | .error e => pure (Json.mkObj [("parse", jErr (errTag e))])
  | .ok q =>
    let pj := jOk (jQuery q)
    match Compose.selectRaw (rxOf tbl) rdb q with
    | .error e => pure (Json.mkObj [("parse", pj), ("rows", jErr (errTag e))])
    | .ok r => pure (Json.mkObj [("parse", pj),
        ("rows", Json.mkObj [("ok", jList (jList optCps) r.rows), ("ordered", Json.bool r.ordered)])])

/-- the public entry points from the full query string (`tsql.inspect_query(qtext)` and, when a raw
database comes with the request, `tsql.query(qtext, db)`): `_parse_query` in front of the composed
pipeline -/
def handleQText (j : Json) : Except String Json := do
  let text ← getCps j "qtext"
  match Compose.inspectText text with
  | .error e => pure (Json.mkObj [("parse", jErr (errTag e))])
  | .ok q =>
    let pj := jOk (jQuery q)
    match j.getObjVal? "rawdb" with
    | .error _ => pure (Json.mkObj [("parse", pj)])
    | .ok _ => do
      let rdb ← (← getArr j "rawdb").mapM ofRawRel
      let tbl ← ofRx (← j.getObjVal? "rx")
      match Compose.queryText (rxOf tbl) rdb text with
      | .error e => pure (Json.mkObj [("parse", pj), ("rows", jErr (errTag e))])
      | .ok r => pure (Json.mkObj [("parse", pj),
          ("rows", Json.mkObj [("ok", jList (jList optCps) r.rows), ("ordered", Json.bool r.ordered)])])

/-- one query: parser/select on tokens, the spelling check, the composition with C08, the lexer -/
def answerQuery (j : Json) : Except String Json := do
  let r0 ← handleQuery j
  -- the generator's words: are they spellings (`spells`) of the tokens the lexer model finds?
  let r ← match j.getObjVal? "words" with
    | .error _ => pure r0
    | .ok wj => do
      let ws ← (← wj.getArr?).toList.mapM ofCps
      let ok := match lexLine (ws.length + 2) (renderW (ws ++ [['.']])) with
        | .error _ => false
        | .ok ts =>
          let ps := (ws ++ [['.']]).zip ts
          ts.length = ws.length + 1 && ps.all (fun p => spells p.1 p.2) && seqOKW ps
      pure (r0.mergeObj (Json.mkObj [("spelled", Json.bool ok)]))
  -- the composed pipeline needs the query text (absent when the text is outside the lexer model's alphabet)
  let r ← match j.getObjVal? "rawdb", j.getObjVal? "text" with
    | .ok _, .ok _ => do pure (r.mergeObj (Json.mkObj [("composed", ← handleComposed j)]))
    | _, _ => pure r
  let r ← match j.getObjVal? "qtext" with
    | .error _ => pure r
    | .ok _ => do pure (r.mergeObj (Json.mkObj [("cquery", ← handleQText j)]))
  match j.getObjVal? "text" with
  | .error _ => pure r
  | .ok t => do
    let text ← ofCps t
    let lx := match lexAll (splitLines (text ++ ['.'])) with
      | .error e => jErr (errTag e)
      | .ok ts => jOk (jList jLTok ts)
    pure (r.mergeObj (Json.mkObj [("lex", lx)]))

def handle (j : Json) : Except String Json := do
  let op ← getStr j "op"
  match op with
  | "session" => do
    -- a sequence of queries against one database: the model is pure, one answer per query
    let db ← j.getObjVal? "db"
    let rx ← j.getObjVal? "rx"
    let steps ← getArr j "steps"
    let answers ← steps.mapM (fun st => do
      -- every step is a full query request (tokens, words, text) against the shared database
      answerQuery (st.mergeObj (Json.mkObj ([("db", db), ("rx", rx)] ++
        (match j.getObjVal? "rawdb" with | .ok r => [("rawdb", r)] | .error _ => [])))))
    pure (Json.mkObj [("steps", Json.arr answers.toArray)])
  | "lex" => do
    let text ← getCps j "text"
    match lexAll (splitLines (text ++ ['.'])) with
    | .error e => pure (jErr (errTag e))
    | .ok ts => pure (jOk (jList jLTok ts))
  | "query" => answerQuery j
  | _ => throw s!"bad op {op}"

end Verif.C11.Driver

def main : IO Unit := Verif.Proto.serve Verif.C11.Driver.handle
