/-
C11 — completeness, multiplicity and order of `select` over any number of relations, stated on the
database and the plan only (no selection index): definitions and the invariant in TupleLemmas.lean.
-/
import Verif.C11.TupleLemmas

namespace Verif.C11

/-- "A select query returns exactly the rows of the inner join, on shared key columns, of the
relations required by its projection and condition … that satisfy the condition, projected to the
requested columns in the requested order, with multiplicities preserved": whenever `select`
answers, with `plan.joins = [(n₀, cols₀), …, (nₘ, colsₘ)]` (distinct relation names),

* `joinTuples db [] [] plan.joins` is the list of all tuples `[r₀, …, rₘ]`, `rᵢ` a stored row of `nᵢ`,
  in the order of nested loops with `n₀` outermost and every relation in stored order, such that
  each `rᵢ` (i > 0) carries, in every requested KEY column of `nᵢ` that an earlier planned relation
  also requests AS A KEY column (`onT`, `reqKey`), the same cast value as the row of the FIRST such
  earlier relation (`agreesT`) — defined from the database and the plan alone; by
  `joined_tuples_are_the_natural_join` below these are exactly the tuples of stored rows that agree
  pairwise on every key column two planned relations share, whatever non-key columns are named
  (the code after commit 14dfce4, finding F59);
* the answer is exactly: those tuples that satisfy the condition, each comparison evaluated on the
  cast value of its column in the tuple's own row of that relation (`evalW` on `wOfT`), in that
  order, each ONCE (so a stored row matched by k partners appears k times: multiplicities), mapped
  to the raw text of the requested columns in the requested order (`outCell`: the relation's own
  cell, or for a join column the cell of the first earlier relation with that column — "shared keys
  once");
* every tuple consists of one stored row per planned relation, and the emitted cells carry the cast
  values of the requested columns in the tuple's own rows (`CellsOf`).

Together with `planJoins_valid` (which relations are planned, with all their key columns) and
`joined_tuples_are_the_natural_join` this is the relational reading of the query with no index,
position or hash table left in it, and with no hypothesis about columns that merely share a name
with a key. -/
theorem select_complete (rx : List Char → List Char → Bool) (db : DB) (q : Query) (res : Result)
    (h : select rx db q = .ok res) :
    ∃ proj cond plan, resolveProj db q = .ok proj ∧ resolveQCond db q = .ok cond ∧
      planJoins db proj (condFieldsOpt cond) q.rels = .ok plan ∧
      (plan.joins.map (·.1)).Nodup ∧
      res.rows = (((joinTuples db [] [] plan.joins).filter
          (fun t => match cond with | none => true | some c => evalW rx db (wOfT plan.joins t) c)).map
          (fun t => proj.map (fun qn => (outCell db plan.joins t qn).raw))) ∧
      (∀ t ∈ joinTuples db [] [] plan.joins, t.length = plan.joins.length ∧
         ∀ i (hi : i < plan.joins.length), ∃ rel, db.rel? (plan.joins[i]).1 = some rel ∧ t.getD i [] ∈ rel.rows) ∧
      ∀ t ∈ joinTuples db [] [] plan.joins,
        CellsOf db (wOfT plan.joins t) proj (proj.map (outCell db plan.joins t)) :=
  select_complete_cells rx db q res h

/-- the join loop on its own: the joined rows of the model are the joined tuples, one for one and in
order, each flattened by one function `flat`; every qualified entry `n.c ↦ p` of the selection's
index points, in every flattened tuple, at exactly the cell `outCell` reads off the tuple. -/
theorem joined_rows_are_tuples (db : DB) (plan : List (String × List String)) (sel : Sel)
    (h : runJoins db Sel.empty plan = .ok sel) :
    ∃ flat : List (List Cell) → List Cell,
      sel.data = (joinTuples db [] [] plan).map flat ∧
      (∀ t ∈ joinTuples db [] [] plan, t.length = plan.length ∧
         ∀ i (hi : i < plan.length), ∃ rel, db.rel? (plan[i]).1 = some rel ∧ t.getD i [] ∈ rel.rows) ∧
      (∀ t ∈ joinTuples db [] [] plan, WitBy db sel.index (flat t) (wOfT plan t)) ∧
      (∀ n c p, dictGet sel.index (.q n c) = some p →
        ∀ t, (flat t).getD p noCell = outCell db plan t (n, c)) :=
  runJoins_tuples db plan sel h

/-- "the inner join, ON SHARED KEY COLUMNS": the columns a join compares are key columns on both
sides — every join column `k` of a newly joined relation is a requested KEY field of that relation, and
the earlier relation it is compared with (`firstWith`) requests `k` as a KEY field too.  A non-key
column that merely shares its name with a key never takes part in a join (the statement finding F59
contradicted before commit 14dfce4). -/
theorem join_columns_are_keys (db : DB) (prev : List (String × List String)) (rel : Rel) (cols : List String)
    (k : String) (h : k ∈ onT db prev rel cols) :
    k ∈ cols ∧ (∃ f, rel.field? k = some f ∧ f ∈ rel.fields ∧ f.name = k ∧ f.isKey = true) ∧
    ∃ i, firstWith db prev k = some i ∧ ∃ hi : i < prev.length, reqKey db (prev[i]) k = true :=
  onT_keys db prev rel cols k h

/-- the joined tuples are the natural join on shared key columns, as a membership characterisation with
no hypothesis on the schema (no `KeyCol`, nothing about homonym columns, not even distinct relation
names): for a non-empty plan, `t` is one of the joined tuples iff it consists of one stored row of each
planned relation (`RowsOf`) and ANY two planned relations that both request a column `k` as a key
column carry the same cast value in it (`KeyAgree` — pairwise, not only against the first holder).
The right-hand side does not mention the order of the plan beyond the positions of the tuple, so the
SET of joined tuples of two plans over the same relations differs only by that permutation; their order
and multiplicity are `select_complete`.  (`plan ≠ []` is needed: the empty plan has no tuple, while the
empty tuple satisfies the right-hand side.) -/
theorem joined_tuples_are_the_natural_join (db : DB) (plan : List (String × List String)) (hne : plan ≠ [])
    (t : List (List Cell)) :
    t ∈ joinTuples db [] [] plan ↔ RowsOf db plan t ∧ KeyAgree db plan t :=
  mem_joinTuples_iff db plan hne t

/-- two relations, spelled out: the joined tuples are the comprehension
`[[a, b] | a ← A.rows, b ← B.rows, b agrees with a on the join columns]` -/
theorem two_relation_tuples (db : DB) (a b : String × List String) (A B : Rel)
    (hA : db.rel? a.1 = some A) (hB : db.rel? b.1 = some B) :
    joinTuples db [] [] [a, b]
      = A.rows.flatMap (fun ra => (B.rows.filter (agreesT db [a] [ra] B b.2)).map (fun rb => [ra, rb])) := by
  simp [joinTuples, stepTuples, hA, hB, List.flatMap_map]

/-- non-vacuity, order and multiplicity on a concrete database: item 1 is parsed twice (two tuples,
in the stored order of `parse`), parse 12 is dangling (no tuple), `parse.i-id` is read from the item
row ("shared keys once") -/
example : joinTuples TupleExample.db [] [] TupleExample.plan
      = [[TupleExample.item1, TupleExample.parse11], [TupleExample.item1, TupleExample.parse13],
         [TupleExample.item2, TupleExample.parse10]]
    ∧ srcT TupleExample.db TupleExample.plan "parse" "i-id" = some 0
    ∧ srcT TupleExample.db TupleExample.plan "parse" "parse-id" = some 1 := by decide

/-! ### the join-order loop and non-key homonyms (finding F58, repaired in /repo by commit e207678)

Before the fix `_plan_joins` ordered the joins by intersecting the key names joined so far with ALL
requested columns of a candidate relation; a relation with a NON-key column named like a key of an
earlier relation (an "extra column" `xx.i-id`) was then scheduled before the linking relation and
`_join` raised `TSQLError('no shared keys for joining')`, while the same query with the projection
swapped was answered.  The model follows the repaired code (`orderJoins` tests the candidate's KEY
columns); the witness is a regression instance here and in corpus/C11. -/

def homonymDB : DB :=
  [{ name := "item", fields := [⟨"i-id", .integer, true⟩, ⟨"i-input", .string, false⟩],
     rows := [[⟨some ['1'], .int 1⟩, ⟨some ['d'], .str ['d']⟩], [⟨some ['2'], .int 2⟩, ⟨some ['c'], .str ['c']⟩]] },
   { name := "parse", fields := [⟨"parse-id", .integer, true⟩, ⟨"i-id", .integer, true⟩],
     rows := [[⟨some ['1', '0'], .int 10⟩, ⟨some ['1'], .int 1⟩], [⟨some ['1', '1'], .int 11⟩, ⟨some ['2'], .int 2⟩]] },
   { name := "xx", fields := [⟨"parse-id", .integer, true⟩, ⟨"i-id", .integer, false⟩, ⟨"x-note", .string, false⟩],
     rows := [[⟨some ['1', '0'], .int 10⟩, ⟨some ['1'], .int 1⟩, ⟨some ['a'], .str ['a']⟩],
              [⟨some ['1', '1'], .int 11⟩, ⟨some ['7'], .int 7⟩, ⟨some ['b'], .str ['b']⟩]] }]

/-- regression instance (`decide`): on the tree-linked schema item / parse / xx, `i-input x-note where
xx.i-id = 1` and the same query with the projection swapped both return the one joined row; the plan
puts the linking relation `parse` before `xx`. -/
example :
    treeLinked homonymDB = true ∧
    (select (fun _ _ => false) homonymDB
      { proj := .cols [⟨"", "i-input"⟩, ⟨"", "x-note"⟩], rels := [],
        cond := some (.leaf .eq ⟨"xx", "i-id"⟩ (.int 1)) }).toOption.map (·.rows)
      = some [[some ['d'], some ['a']]] ∧
    (select (fun _ _ => false) homonymDB
      { proj := .cols [⟨"", "x-note"⟩, ⟨"", "i-input"⟩], rels := [],
        cond := some (.leaf .eq ⟨"xx", "i-id"⟩ (.int 1)) }).toOption.map (·.rows)
      = some [[some ['a'], some ['d']]] ∧
    (planJoins homonymDB [("item", "i-input"), ("xx", "x-note")] [("xx", "i-id")] []).toOption.map
        (fun p => p.joins.map (·.1)) = some ["item", "parse", "xx"] := by decide

/-- regression instance for F59 (`decide`): with `xx` first in the plan (`xx.i-id i-input`) the non-key
column `xx.i-id` is not a join column: both items are returned, each with its own `xx.i-id`; the swapped
projection returns the same rows with the columns swapped. -/
example :
    (select (fun _ _ => false) homonymDB
      { proj := .cols [⟨"xx", "i-id"⟩, ⟨"", "i-input"⟩], rels := [], cond := none }).toOption.map (·.rows)
      = some [[some ['1'], some ['d']], [some ['7'], some ['c']]] ∧
    (select (fun _ _ => false) homonymDB
      { proj := .cols [⟨"", "i-input"⟩, ⟨"xx", "i-id"⟩], rels := [], cond := none }).toOption.map (·.rows)
      = some [[some ['d'], some ['1']], [some ['c'], some ['7']]] ∧
    onT homonymDB [("xx", ["i-id", "parse-id"])] 
        { name := "parse", fields := [⟨"parse-id", .integer, true⟩, ⟨"i-id", .integer, true⟩], rows := [] }
        ["parse-id", "i-id"] = ["parse-id"] := by decide

end Verif.C11
