/-
C11 — "The query parser accepts exactly the documented grammar": the direction *accepts only*.
The grammar is stated declaratively (inductive derivations `DisjD`/`ConjD`/`AtomD`/`WheresD`/`ProjD`,
`Sentence` in GrammarLemmas.lean), independently of the parser's control flow; the other direction
(every printed normal-form query and every loosely written condition is accepted, with its tree) is
`parse_print_select`, `parse_print_cond`, `precedence_and_associativity` in Props.lean.
-/
import Verif.C11.GrammarLemmas
import Verif.C11.Compose

namespace Verif.C11

/-- "The query parser accepts exactly the documented grammar - projection, optional from, repeated
where clauses meaning conjunction, and/or/not with parentheses, numeric, string, date and regex
operands": whenever the parser model accepts a token list (any fuel), the list IS a sentence of the
grammar

    query       := projection [FROM id+] (WHERE disjunction)* `.`+
    projection  := `*` | column+                         (`*` only with a from clause: `ProjOK`)
    disjunction := conjunction (OR conjunction)*
    conjunction := atom (AND atom)*
    atom        := NOT disjunction | `(` disjunction `)` | column OP literal
                   (literal kinds per operator as in the documentation table: `litAllowed`)

and the query it returns is the one read off the derivation: the projection columns and relation
names in order, the where clauses' trees combined by `whereCond` (none, the one, or their
conjunction), each where clause the `or` of its conjunctions' `and`s (`mkJunction`: a single member
stands for itself).  Nothing outside the grammar is accepted: no token may be left before the
sentinel, parentheses balance, every operator has an operand of an allowed kind. -/
theorem parser_accepts_only_sentences (n : Nat) (ts : List Tok) (q : Query)
    (h : parseSelect n ts = .ok q) : Sentence ts q :=
  parseSelect_sound n ts q h

/-- the condition level on its own: what `_parse_condition_disjunction` consumes is a derivation of
the `disjunction` nonterminal, it returns the tree of that derivation and leaves the rest untouched -/
theorem condition_parse_is_derivation (n : Nat) (ts : List Tok) (c : Cond ColRef) (rest : List Tok)
    (h : parseDisj n ts = .ok (c, rest)) :
    ∃ used cs, ts = used ++ rest ∧ DisjD used cs ∧ c = mkJunction false cs :=
  parseDisj_sound n ts c rest h

/-- from the characters: whenever the composed text-to-query model (`_parse_select`: lexer, `int()`
and `tsdb.cast(':date')` by C08's model, parser) accepts a query text, the lexer produced a token
stream whose converted tokens form a sentence of the grammar with that query. -/
theorem text_accepts_only_sentences (text : List Char) (q : Query)
    (h : Compose.parseText text = .ok q) :
    ∃ lts toks, Compose.lexText (Compose.splitLines (text ++ ['.'])) = .ok lts ∧
      Compose.toToks08 lts = some toks ∧ Sentence toks q := by
  unfold Compose.parseText at h
  split at h
  · cases h
  · rename_i lts hl
    split at h
    · cases h
    · rename_i toks ht
      exact ⟨lts, toks, hl, ht, parseSelect_sound _ toks q h⟩

/-- the two directions meet: the token text the printer writes for a well-formed query (normal-form
where trees) is a sentence of the declarative grammar, with exactly that query — so `Sentence` is
inhabited by every printed query, not only by the instance below. -/
theorem printed_query_is_sentence (proj : Proj) (rels : List String) (ws : List (Cond ColRef))
    (hp : ProjOK proj rels) (hw : ∀ w ∈ ws, nf w = true) :
    Sentence (printQuery proj rels ws) { proj := proj, rels := rels, cond := whereCond ws } :=
  parseSelect_sound _ _ _ (parseSelect_print_aux proj rels ws hp hw _ (Nat.le_refl _))

/-- non-vacuity: `i-id from item where not a = 1 or b ~ 'x' .` is accepted, hence a sentence; a
regex operator with an integer operand has no derivation -/
example : Sentence exToks exQuery := parser_accepts_only_sentences 40 exToks exQuery exParse

example : ¬ AtomD [.id "a", .op .re, .int 1] (.leaf .re ⟨"", "a"⟩ (.int 1)) := by
  intro h
  cases h with
  | stmt _ hl hal =>
    cases hl
    exact absurd hal (by decide)

end Verif.C11
