/-
C11 — the public entry points around `_parse_select` / `_select`: `tsql.query`, `tsql.inspect_query`
(`_parse_query`) and `tsql.select`, from the characters of the query string.

`_parse_query(querystring)`:
    querytype, _, querybody = querystring.lstrip().partition(' ')
    querytype = querytype.lower()
    if querytype in ('select', 'retrieve'): result = _parse_select(querybody)
    else: raise TSQLSyntaxError
ASCII only (as the lexer model): `str.lstrip()` strips `str.isspace()` characters — for ASCII
`\t \n \x0b \x0c \r \x1c \x1d \x1e \x1f` and the blank; `str.lower()` maps `A-Z` to `a-z`;
`partition(' ')` splits at the first BLANK only (a tab or a newline after `select` does not end the
query type).  Core Lean + the composition with C08 (Compose.lean).
-/
import Verif.C11.Compose

namespace Verif.C11

/-- `str.isspace()` on an ASCII character -/
def isPySpace (c : Char) : Bool :=
  c = ' ' || c = '\t' || c = '\n' || c = '\x0b' || c = '\x0c' || c = '\r' ||
  c = '\x1c' || c = '\x1d' || c = '\x1e' || c = '\x1f'

/-- `str.lower()` on an ASCII character -/
def lowerC (c : Char) : Char :=
  if 'A' ≤ c && c ≤ 'Z' then Char.ofNat (c.toNat + 32) else c

/-- `s.partition(' ')`: the text before the first blank and the text after it (both of `s` and
nothing when there is no blank) -/
def partitionSp : List Char → List Char × List Char
  | [] => ([], [])
  | c :: r => if c = ' ' then ([], r) else ((c :: (partitionSp r).1), (partitionSp r).2)

def kwSelect : List Char := ['s', 'e', 'l', 'e', 'c', 't']
def kwRetrieve : List Char := ['r', 'e', 't', 'r', 'i', 'e', 'v', 'e']

/-- `_parse_query` with the select parser as a parameter (`inspect_query` passes `_parse_select`,
`query` continues with `_select`) -/
def parseQuery {α} (parseSel : List Char → Except Err α) (text : List Char) : Except Err α :=
  let p := partitionSp (text.dropWhile isPySpace)
  if p.1.map lowerC = kwSelect || p.1.map lowerC = kwRetrieve then parseSel p.2
  else .error .syntaxError

namespace Compose

/-- `tsql.inspect_query(text)`: characters to query -/
def inspectText (text : List Char) : Except Err Query := parseQuery parseText text

/-- `tsql.query(text, db)`: characters and raw files in, raw rows out (`queryobj['type']` is always
`'select'` after `_parse_select`, so the second dispatch of `query` cannot fail) -/
def queryText (rx : List Char → List Char → Bool) (rdb : RawDB) (text : List Char) : Except Err Result :=
  parseQuery (selectText rx rdb) text

end Compose

end Verif.C11
