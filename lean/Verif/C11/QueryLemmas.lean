/-
C11 — helper lemmas for QueryProps.lean (`_parse_query`: lstrip, partition, lower) and the fuel of the
text-level lexer loop.
-/
import Verif.C11.Query
import Verif.C11.FuelLemmas
import Verif.C11.Lemmas

namespace Verif.C11

theorem isPySpace_cases (c : Char) (h : isPySpace c = true) :
    c = ' ' ∨ c = '\t' ∨ c = '\n' ∨ c = '\x0b' ∨ c = '\x0c' ∨ c = '\r' ∨
    c = '\x1c' ∨ c = '\x1d' ∨ c = '\x1e' ∨ c = '\x1f' := by
  simpa [isPySpace, or_assoc] using h

/-- a character of a word that lower-cases to `select` / `retrieve` is not white space -/
theorem word_char (c : Char) (h : lowerC c ∈ kwSelect ∨ lowerC c ∈ kwRetrieve) : isPySpace c = false := by
  cases hs : isPySpace c with
  | false => rfl
  | true =>
    exfalso
    rcases isPySpace_cases c hs with e | e | e | e | e | e | e | e | e | e <;> subst e <;>
      revert h <;> decide

theorem word_chars (kw : List Char) (h : kw.map lowerC = kwSelect ∨ kw.map lowerC = kwRetrieve) :
    ∀ c ∈ kw, isPySpace c = false := by
  intro c hc
  apply word_char
  have hm : lowerC c ∈ kw.map lowerC := List.mem_map.mpr ⟨c, hc, rfl⟩
  rcases h with h | h
  · exact Or.inl (h ▸ hm)
  · exact Or.inr (h ▸ hm)

theorem partitionSp_word : ∀ (kw body : List Char), (∀ c ∈ kw, c ≠ ' ') →
    partitionSp (kw ++ ' ' :: body) = (kw, body)
  | [], body, _ => by simp [partitionSp]
  | c :: kw, body, h => by
    have hc : c ≠ ' ' := h c (by simp)
    have ih := partitionSp_word kw body (fun x hx => h x (by simp [hx]))
    simp only [List.cons_append, partitionSp, hc, if_false, ih]

theorem partitionSp_noblank : ∀ (kw : List Char), (∀ c ∈ kw, c ≠ ' ') → partitionSp kw = (kw, [])
  | [], _ => rfl
  | c :: kw, h => by
    have hc : c ≠ ' ' := h c (by simp)
    have ih := partitionSp_noblank kw (fun x hx => h x (by simp [hx]))
    simp only [partitionSp, hc, if_false, ih]

theorem dropWhile_ws : ∀ (ws rest : List Char), ws.all isPySpace = true →
    (∀ c, rest.head? = some c → isPySpace c = false) →
    (ws ++ rest).dropWhile isPySpace = rest
  | [], rest, _, hr => by
    cases rest with
    | nil => rfl
    | cons c r => simp [hr c rfl]
  | w :: ws, rest, hws, hr => by
    have h' : isPySpace w = true ∧ ws.all isPySpace = true := by simpa using hws
    simp only [List.cons_append, List.dropWhile, h'.1]
    exact dropWhile_ws ws rest h'.2 hr

theorem not_blank_of_not_space (c : Char) (h : isPySpace c = false) : c ≠ ' ' := by
  intro e; subst e; revert h; decide

namespace Compose

theorem lexText_no_fuel : ∀ (ls : List (List Char)), lexText ls ≠ .error .fuel
  | [] => by simp [lexText]
  | l :: ls => by
    have h1 := lexLine_no_fuel (l.length + 1) l (Nat.lt_succ_self _)
    have h2 := lexText_no_fuel ls
    unfold lexText
    split
    · rename_i e he; intro h; cases h; exact h1 he
    · split
      · rename_i e he; intro h; cases h; exact h2 he
      · intro h; cases h

end Compose

end Verif.C11
