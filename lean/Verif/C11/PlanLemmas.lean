import Verif.C11.TupleLemmas

/-!
# C11: once the planner has answered, the join loop does not raise `TSQLError`

`joinStep` answers `.tsqlError` in two places: a relation joined twice, and no shared key column with
the selection so far.  After commit e207678 the order loop of `_plan_joins` picks the next relation by
its KEY columns, so both are unreachable for a plan `planJoins` returned (`runJoins_no_tsqlError`):
the plan's relation names are distinct (`planJoins_names_nodup`), and every relation after the first has
a key column that an earlier planned relation requests as well (`validPlan` + "always add keys").
Field names of a relation must be distinct (part of `DB.wf`): see the counterexample at the end.
-/

namespace Verif.C11

/-! ## the relation names of a plan are distinct -/

theorem jmAdd_map_fst (jm : JoinMap) (r c : String) :
    (jmAdd jm r c).map (·.1) = if jm.any (fun p => p.1 = r) then jm.map (·.1) else jm.map (·.1) ++ [r] := by
  unfold jmAdd
  split
  · rw [List.map_map]
    apply List.map_congr_left
    intro p _
    simp only [Function.comp]
    split <;> rfl
  · simp

theorem jmAdd_nodup (jm : JoinMap) (r c : String) (h : (jm.map (·.1)).Nodup) :
    ((jmAdd jm r c).map (·.1)).Nodup := by
  rw [jmAdd_map_fst]
  split
  · exact h
  · rename_i hany
    rw [List.nodup_append]
    refine ⟨h, by simp, ?_⟩
    intro a ha b hb
    simp only [List.mem_singleton] at hb
    subst hb
    intro e
    apply hany
    obtain ⟨p, hp, hpe⟩ := List.mem_map.mp ha
    exact List.any_eq_true.mpr ⟨p, hp, by simp [hpe, e]⟩

theorem foldl_jmAdd_nodup : ∀ (qs : List QName) (jm : JoinMap), (jm.map (·.1)).Nodup →
    ((qs.foldl (fun jm q => jmAdd jm q.1 q.2) jm).map (·.1)).Nodup := by
  intro qs
  induction qs with
  | nil => intro jm h; exact h
  | cons q qs ih => intro jm h; exact ih _ (jmAdd_nodup jm q.1 q.2 h)

theorem addKeys_nodup (qs : List QName) (r : String) : ∀ (ks : List String) (jm : JoinMap),
    (jm.map (·.1)).Nodup → ((addKeys qs r ks jm).map (·.1)).Nodup := by
  intro ks
  induction ks with
  | nil => intro jm h; exact h
  | cons k ks ih =>
    intro jm h
    simp only [addKeys, List.foldl_cons]
    apply ih
    split
    · exact h
    · exact jmAdd_nodup jm r k h

theorem allKeys_nodup (db : DB) (qs : List QName) : ∀ (all : List String) (jm : JoinMap),
    (jm.map (·.1)).Nodup →
    ((all.foldl (fun jm r => addKeys qs r (keyNamesOf db r) jm) jm).map (·.1)).Nodup := by
  intro all
  induction all with
  | nil => intro jm h; exact h
  | cons r all ih => intro jm h; exact ih _ (addKeys_nodup qs r _ jm h)

/-- the order loop only moves entries from the join map to the plan -/
theorem orderJoins_perm (db : DB) : ∀ (n : Nat) (jm : JoinMap) (joins : List (String × List String))
    (jk : List String) (out : List (String × List String)),
    orderJoins db n jm joins jk = .ok out → out.Perm (joins ++ jm) := by
  intro n
  induction n with
  | zero =>
    intro jm joins jk out h
    cases jm with
    | nil => simp only [orderJoins] at h; cases h; simp
    | cons a as => simp [orderJoins] at h
  | succ n ih =>
    intro jm joins jk out h
    cases jm with
    | nil => simp only [orderJoins] at h; cases h; simp
    | cons a as =>
      simp only [orderJoins] at h
      split at h
      · cases h
      · rename_i p hfind
        have hpmem : p ∈ a :: as := List.mem_of_find?_eq_some hfind
        have h1 := ih _ _ _ out h
        refine h1.trans ?_
        rw [List.append_assoc]
        exact List.Perm.append_left joins (List.perm_cons_erase hpmem).symm

/-- no relation is planned twice -/
theorem planJoins_names_nodup (db : DB) (projection condFs : List QName) (rels : List String) (plan : Plan)
    (h : planJoins db projection condFs rels = .ok plan) : (plan.joins.map (·.1)).Nodup := by
  unfold planJoins at h
  simp only at h
  split at h
  · cases h
  · split at h
    · cases h
    · rename_i pivots _
      split at h
      · cases h
      · rename_i joins hord
        cases h
        simp only
        have hperm := orderJoins_perm db _ _ [] [] joins hord
        rw [List.nil_append] at hperm
        rw [(hperm.map (·.1)).nodup_iff]
        exact allKeys_nodup db (projection ++ condFs).eraseDups _ _
          (foldl_jmAdd_nodup (projection ++ condFs).eraseDups [] (by simp))

/-! ## one step of the join loop does not raise `TSQLError` -/

theorem field?_of_mem (rel : Rel) (hfn : (rel.fields.map (·.name)).Nodup) (f : Field) (hf : f ∈ rel.fields) :
    rel.field? f.name = some f := by
  unfold Rel.field?
  generalize rel.fields = fs at hfn hf
  induction fs with
  | nil => simp at hf
  | cons a fs ih =>
    simp only [List.map_cons, List.nodup_cons] at hfn
    rcases List.mem_cons.mp hf with e | e
    · subst e; simp
    · have hne : a.name ≠ f.name := by
        intro heq
        exact hfn.1 (List.mem_map.mpr ⟨f, e, heq.symm⟩)
      simp only [List.find?_cons, hne, decide_false]
      exact ih hfn.2 e

/-- a requested key column of the new relation that an earlier planned relation requests as a key
column too is a join column -/
theorem mem_onT (db : DB) (prev : List (String × List String)) (rel : Rel) (hfn : (rel.fields.map (·.name)).Nodup)
    (cols : List String) (k : String) (hk : k ∈ rel.keyNames) (hc : k ∈ cols)
    (hfw : (firstWith db prev k).isSome = true) : k ∈ onT db prev rel cols := by
  unfold Rel.keyNames at hk
  obtain ⟨f, hf, hname⟩ := List.mem_map.mp hk
  obtain ⟨hfm, hkey⟩ := List.mem_filter.mp hf
  unfold onT
  refine List.mem_map.mpr ⟨f, List.mem_filter.mpr ⟨List.mem_filterMap.mpr ⟨k, hc, ?_⟩, ?_⟩, hname⟩
  · rw [← hname]; exact field?_of_mem rel hfn f hfm
  · rw [hname, hkey, hfw]; rfl

theorem nestedStep_ne_tsqlError (db : DB) (hfn : ∀ r ∈ db, (r.fields.map (·.name)).Nodup)
    (prev : List (String × List String)) (sel : Sel) (T : List (List (List Cell)))
    (flat : List (List Cell) → List Cell) (hinv : TInv db prev sel T flat) (j : String × List String)
    (hnew : j.1 ∉ prev.map (·.1))
    (hshare : prev = [] ∨ ∃ k, k ∈ keyNamesOf db j.1 ∧ k ∈ j.2 ∧ (firstWith db prev k).isSome = true) :
    nestedStep db sel j ≠ .error .tsqlError := by
  unfold nestedStep
  have hc : sel.joined.contains j.1 = false := by
    rw [hinv.joined]; simpa using hnew
  simp only [hc, Bool.false_eq_true, if_false]
  cases hrel : db.rel? j.1 with
  | none => simp
  | some rel =>
    simp only
    cases hm : j.2.mapM rel.fieldIdx? with
    | none => simp
    | some indices =>
      simp only
      by_cases he : sel.joined.isEmpty = true
      · simp [he]
      · simp only [he, Bool.false_eq_true, if_false]
        rcases hshare with hp | ⟨k, hk, hkc, hfw⟩
        · exfalso
          apply he
          rw [hinv.joined, hp]; rfl
        · have hmem : rel ∈ db := List.mem_of_find?_eq_some hrel
          have hk' : k ∈ rel.keyNames := by simpa [keyNamesOf, hrel] using hk
          have hon := mem_onT db prev rel (hfn rel hmem) j.2 k hk' hkc hfw
          rw [← sharedKeys_onT db prev sel T flat hinv rel j.2 indices hm ⟨"", .string, false⟩] at hon
          have hne : (sharedKeys sel (indices.map (fun i => rel.fields.getD i ⟨"", .string, false⟩))).isEmpty = false := by
            cases hs : sharedKeys sel (indices.map (fun i => rel.fields.getD i ⟨"", .string, false⟩)) with
            | nil => rw [hs] at hon; simp at hon
            | cons a b => rfl
          simp only [hne, Bool.false_eq_true, if_false]
          intro h; cases h

/-- a relation planned with its key column `k` requests `k` as a key -/
theorem reqKey_of_key (db : DB) (hfn : ∀ r ∈ db, (r.fields.map (·.name)).Nodup) (q : String × List String)
    (k : String) (hk : k ∈ keyNamesOf db q.1) (hc : k ∈ q.2) : reqKey db q k = true := by
  unfold keyNamesOf at hk
  cases hrel : db.rel? q.1 with
  | none => rw [hrel] at hk; simp at hk
  | some rel =>
    rw [hrel] at hk
    simp only at hk
    unfold Rel.keyNames at hk
    obtain ⟨f, hf, hname⟩ := List.mem_map.mp hk
    obtain ⟨hfm, hkey⟩ := List.mem_filter.mp hf
    have hmem : rel ∈ db := List.mem_of_find?_eq_some hrel
    refine (reqKey_iff db q rel hrel k).mpr ⟨hc, f, ?_, hkey⟩
    rw [← hname]; exact field?_of_mem rel (hfn rel hmem) f hfm

theorem firstWith_isSome_of_mem (db : DB) (prev : List (String × List String)) (q : String × List String)
    (k : String) (hq : q ∈ prev) (hk : reqKey db q k = true) : (firstWith db prev k).isSome = true := by
  unfold firstWith
  rw [List.findIdx?_isSome]
  exact List.any_eq_true.mpr ⟨q, hq, hk⟩

/-! ## the whole loop -/

theorem nestedJoins_ne_tsqlError (db : DB) (hfn : ∀ r ∈ db, (r.fields.map (·.name)).Nodup) :
    ∀ (js prev : List (String × List String)) (sel : Sel) (T : List (List (List Cell)))
      (flat : List (List Cell) → List Cell) (jk : List String),
    TInv db prev sel T flat → prev ≠ [] → ((prev ++ js).map (·.1)).Nodup →
    (∀ p ∈ prev ++ js, ∀ k ∈ keyNamesOf db p.1, k ∈ p.2) →
    (∀ k ∈ jk, ∃ q ∈ prev, k ∈ keyNamesOf db q.1) → validFrom db jk js = true →
    nestedJoins db sel js ≠ .error .tsqlError := by
  intro js
  induction js with
  | nil => intro prev sel T flat jk _ _ _ _ _ _; simp [nestedJoins]
  | cons j js ih =>
    intro prev sel T flat jk hinv hne hnd hcov hjk hv
    simp only [validFrom, Bool.and_eq_true] at hv
    obtain ⟨hint, hv'⟩ := hv
    simp only [intersects, List.any_eq_true, List.contains_eq_mem, decide_eq_true_eq] at hint
    obtain ⟨k, hk1, hk2⟩ := hint
    obtain ⟨q, hq, hkq⟩ := hjk k hk1
    have hnew : j.1 ∉ prev.map (·.1) := by
      rw [List.map_append, List.nodup_append] at hnd
      intro hmem
      exact hnd.2.2 _ hmem j.1 (by simp) rfl
    have hstep := nestedStep_ne_tsqlError db hfn prev sel T flat hinv j hnew
      (Or.inr ⟨k, hk2, hcov j (by simp) k hk2,
        firstWith_isSome_of_mem db prev q k hq
          (reqKey_of_key db hfn q k hkq (hcov q (List.mem_append_left _ hq) k hkq))⟩)
    simp only [nestedJoins]
    cases hs : nestedStep db sel j with
    | error e =>
      simp only
      intro h
      cases h
      exact hstep hs
    | ok s1 =>
      simp only
      obtain ⟨rel, _, flat1, h1⟩ := nestedStep_tinv db prev sel s1 T flat j hinv hs
      refine ih (prev ++ [j]) s1 _ flat1 (jk ++ keyNamesOf db j.1) h1 (by simp) ?_ ?_ ?_ hv'
      · simpa using hnd
      · simpa using hcov
      · intro k' hk'
        rcases List.mem_append.mp hk' with h | h
        · obtain ⟨q', hq', hkq'⟩ := hjk k' h
          exact ⟨q', List.mem_append_left _ hq', hkq'⟩
        · exact ⟨j, by simp, h⟩

/-- the join loop over a valid plan with distinct relation names, every relation planned with all its
key columns, does not raise `TSQLError` (it may still stop with `KeyError` on an unknown column) -/
theorem runJoins_no_tsqlError_of_valid (db : DB) (hfn : ∀ r ∈ db, (r.fields.map (·.name)).Nodup)
    (joins : List (String × List String)) (hnd : (joins.map (·.1)).Nodup)
    (hcov : ∀ p ∈ joins, ∀ k ∈ keyNamesOf db p.1, k ∈ p.2) (hv : validPlan db joins = true) :
    runJoins db Sel.empty joins ≠ .error .tsqlError := by
  rw [runJoins_eq_nestedJoins]
  cases joins with
  | nil => simp [nestedJoins]
  | cons p ps =>
    simp only [validPlan] at hv
    have hstep := nestedStep_ne_tsqlError db hfn [] Sel.empty [] _ (tinv_empty db) p (by simp) (Or.inl rfl)
    simp only [nestedJoins]
    cases hs : nestedStep db Sel.empty p with
    | error e =>
      simp only
      intro h
      cases h
      exact hstep hs
    | ok s1 =>
      simp only
      obtain ⟨rel, _, flat1, h1⟩ := nestedStep_tinv db [] Sel.empty s1 [] _ p (tinv_empty db) hs
      exact nestedJoins_ne_tsqlError db hfn ps ([] ++ [p]) s1 _ flat1 (keyNamesOf db p.1) h1 (by simp)
        (by simpa using hnd) (by simpa using hcov) (fun k hk => ⟨p, by simp, hk⟩) hv

theorem covered_mem (joins : List (String × List String)) (hnd : (joins.map (·.1)).Nodup)
    (p : String × List String) (hp : p ∈ joins) (k : String) (h : Covered joins p.1 k) : k ∈ p.2 := by
  obtain ⟨cols, hm, hk⟩ := h
  have : (p.1, cols) = p := by
    induction joins with
    | nil => simp at hp
    | cons a l ih =>
      simp only [List.map_cons, List.nodup_cons] at hnd
      rcases List.mem_cons.mp hp with e | e <;> rcases List.mem_cons.mp hm with e' | e'
      · rw [e, ← e']
      · exact absurd (List.mem_map.mpr ⟨(p.1, cols), e', by simp [e]⟩) hnd.1
      · exact absurd (List.mem_map.mpr ⟨p, e, by simp [← e']⟩) hnd.1
      · exact ih hnd.2 e e'
  rw [← this]; exact hk

/-- once the planner has answered, the join loop never fails for lack of a shared key or a repeated
relation -/
theorem runJoins_no_tsqlError (db : DB) (hnd : (db.map (·.name)).Nodup)
    (hfn : ∀ r ∈ db, (r.fields.map (·.name)).Nodup) (projection condFs : List QName)
    (rels : List String) (plan : Plan) (h : planJoins db projection condFs rels = .ok plan) :
    runJoins db Sel.empty plan.joins ≠ .error .tsqlError := by
  obtain ⟨hv, _, hreq, pivots, hin, hpiv, _⟩ := planJoins_valid_aux db hnd projection condFs rels plan h
  have hnames := planJoins_names_nodup db projection condFs rels plan h
  refine runJoins_no_tsqlError_of_valid db hfn plan.joins hnames ?_ hv
  intro p hp k hk
  apply covered_mem plan.joins hnames p hp k
  rcases List.mem_append.mp (hin p hp) with hr | hr
  · exact (hreq p.1 hr).2 k hk
  · exact (hpiv p.1 hr).2.2 k hk

/-! ## `select`: a `TSQLError` comes from resolution or from the planner, never from the join loop -/

mutual
theorem indexCond_error (ix : List (Key × Nat)) :
    (c : Cond QName) → (e : Err) → indexCond ix c = .error e → e = .keyError
  | .leaf op q l, e, h => by
    simp only [indexCond] at h
    split at h
    · cases h; rfl
    · cases h
  | .not c, e, h => by
    simp only [indexCond] at h
    split at h
    · rename_i e' he; cases h; exact indexCond_error ix c e he
    · cases h
  | .and cs, e, h => by
    simp only [indexCond] at h
    split at h
    · rename_i e' he; cases h; exact indexConds_error ix cs e he
    · cases h
  | .or cs, e, h => by
    simp only [indexCond] at h
    split at h
    · rename_i e' he; cases h; exact indexConds_error ix cs e he
    · cases h
theorem indexConds_error (ix : List (Key × Nat)) :
    (cs : List (Cond QName)) → (e : Err) → indexConds ix cs = .error e → e = .keyError
  | [], e, h => by simp [indexConds] at h
  | c :: cs, e, h => by
    simp only [indexConds] at h
    split at h
    · rename_i e' he; cases h; exact indexCond_error ix c e he
    · split at h
      · rename_i e' he; cases h; exact indexConds_error ix cs e he
      · cases h
end

/-- filtering and projecting only ever fails with `KeyError` -/
theorem finish_error (rx : List Char → List Char → Bool) (sel : Sel) (proj : List QName)
    (cond : Option (Cond QName)) (e : Err) (h : finish rx sel proj cond = .error e) : e = .keyError := by
  unfold finish at h
  split at h
  · cases h; rfl
  · cases cond with
    | none => simp only at h; cases h
    | some c =>
      simp only at h
      split at h
      · rename_i e' he; cases h; exact indexCond_error sel.index c e he
      · cases h

/-- a `TSQLError` of `select` is an undefined / ambiguous column, a type mismatch, or the planner's own
refusal (no linking relation, no key path) — never the join loop, never filtering or projecting -/
theorem select_tsqlError_only_from_planning (rx : List Char → List Char → Bool) (db : DB) (q : Query)
    (h : select rx db q = .error .tsqlError) :
    resolveProj db q = .error .tsqlError ∨ resolveQCond db q = .error .tsqlError ∨
    ∃ proj cond, resolveProj db q = .ok proj ∧ resolveQCond db q = .ok cond ∧
      planJoins db proj (condFieldsOpt cond) q.rels = .error .tsqlError := by
  unfold select at h
  split at h
  · cases h
  · rename_i hwf
    have hwf' : db.wf = true := by simpa using hwf
    simp only [DB.wf, Bool.and_eq_true, decide_eq_true_eq, List.all_eq_true] at hwf'
    obtain ⟨hnd, hall⟩ := hwf'
    have hfn : ∀ r ∈ db, (r.fields.map (·.name)).Nodup := by
      intro r hr
      have := hall r hr
      simp only [Rel.wf, Bool.and_eq_true, decide_eq_true_eq] at this
      exact this.1.1.1.1
    split at h
    · rename_i e he
      cases h
      exact Or.inl he
    · rename_i proj hproj
      split at h
      · rename_i e he
        cases h
        exact Or.inr (Or.inl he)
      · rename_i cond hcond
        simp only at h
        refine Or.inr (Or.inr ⟨proj, cond, hproj, hcond, ?_⟩)
        split at h
        · rename_i e he
          cases h
          cases cond <;> exact he
        · rename_i plan hplan
          exfalso
          have hplan : planJoins db proj (condFieldsOpt cond) q.rels = .ok plan := by
            cases cond <;> exact hplan
          have hno := runJoins_no_tsqlError db hnd hfn proj (condFieldsOpt cond) q.rels plan hplan
          split at h
          · rename_i e he
            cases h
            exact hno he
          · rename_i sel hsel
            split at h
            · rename_i e he
              cases h
              have := finish_error rx sel proj cond _ he
              cases this
            · cases h

/-! ## the order loop does not give up when the key graph is connected -/

/-- `c` lies on one side of a partition of the key names -/
def Side (A B c : List String) : Prop := (∀ k ∈ c, k ∈ A) ∨ (∀ k ∈ c, k ∈ B)

/-- some component holds all of `ks` (vacuous for a relation without keys) -/
def Held (comps : List (List String)) (ks : List String) : Prop := ks = [] ∨ ∃ c ∈ comps, ∀ k ∈ ks, k ∈ c

theorem intersects_iff (a b : List String) : intersects a b = true ↔ ∃ k, k ∈ a ∧ k ∈ b := by
  simp [intersects]

theorem merged_sub (X Y : List String) (hdisj : ∀ k, k ∈ X → k ∈ Y → False) (comps : List (List String))
    (hc : ∀ c ∈ comps, Side X Y c) (keys : List String) (hk : ∀ k ∈ keys, k ∈ X) :
    ∀ k ∈ (comps.filter (fun c => intersects keys c)).flatten ++ keys, k ∈ X := by
  intro k hk'
  rcases List.mem_append.mp hk' with h | h
  · obtain ⟨c, hcm, hkc⟩ := List.mem_flatten.mp h
    obtain ⟨hcc, hint⟩ := List.mem_filter.mp hcm
    obtain ⟨y, hy1, hy2⟩ := (intersects_iff keys c).mp hint
    rcases hc c hcc with hs | hs
    · exact hs k hkc
    · exact absurd (hs y hy2) (fun hyY => hdisj y (hk y hy1) hyY)
  · exact hk k h

theorem mergeComp_side (A B : List String) (hdisj : ∀ k, k ∈ A → k ∈ B → False) (comps : List (List String))
    (hc : ∀ c ∈ comps, Side A B c) (keys : List String) (hk : Side A B keys) :
    ∀ c ∈ mergeComp comps keys, Side A B c := by
  unfold mergeComp
  split
  · exact hc
  · intro c hcm
    rcases List.mem_cons.mp hcm with e | e
    · subst e
      rcases hk with hk | hk
      · exact Or.inl (merged_sub A B hdisj comps hc keys hk)
      · refine Or.inr (merged_sub B A (fun k h1 h2 => hdisj k h2 h1) comps ?_ keys hk)
        intro c hc'
        exact (hc c hc').symm
    · exact hc c (List.mem_filter.mp e).1

theorem mergeComp_held_new (comps : List (List String)) (keys : List String) :
    Held (mergeComp comps keys) keys := by
  unfold mergeComp Held
  split
  · rename_i h; left; simpa using h
  · right
    exact ⟨_, List.mem_cons_self, fun k hk => List.mem_append_right _ hk⟩

theorem mergeComp_held_old (comps : List (List String)) (keys ks : List String) (h : Held comps ks) :
    Held (mergeComp comps keys) ks := by
  unfold mergeComp
  split
  · exact h
  · rcases h with h | ⟨c, hc, hks⟩
    · exact Or.inl h
    · right
      by_cases hint : intersects keys c = true
      · refine ⟨_, List.mem_cons_self, ?_⟩
        intro k hk
        exact List.mem_append_left _ (List.mem_flatten.mpr ⟨c, List.mem_filter.mpr ⟨hc, hint⟩, hks k hk⟩)
      · exact ⟨c, List.mem_cons_of_mem _ (List.mem_filter.mpr ⟨hc, by simpa using hint⟩), hks⟩

theorem foldl_side (db : DB) (A B : List String) (hdisj : ∀ k, k ∈ A → k ∈ B → False) :
    ∀ (L : List String) (comps : List (List String)), (∀ c ∈ comps, Side A B c) →
    (∀ r ∈ L, Side A B (keyNamesOf db r)) →
    ∀ c ∈ L.foldl (fun cs r => mergeComp cs (keyNamesOf db r)) comps, Side A B c := by
  intro L
  induction L with
  | nil => intro comps hc _; exact hc
  | cons x l ih =>
    intro comps hc h
    simp only [List.foldl_cons]
    exact ih _ (mergeComp_side A B hdisj comps hc _ (h x (by simp))) (fun r hr => h r (by simp [hr]))

theorem components_side (db : DB) (A B : List String) (hdisj : ∀ k, k ∈ A → k ∈ B → False) (L : List String)
    (h : ∀ r ∈ L, Side A B (keyNamesOf db r)) : ∀ c ∈ components db L, Side A B c :=
  foldl_side db A B hdisj L [] (by simp) h

theorem foldl_held_old (db : DB) (ks : List String) : ∀ (L : List String) (comps : List (List String)),
    Held comps ks → Held (L.foldl (fun cs r => mergeComp cs (keyNamesOf db r)) comps) ks := by
  intro L
  induction L with
  | nil => intro comps h; exact h
  | cons x l ih =>
    intro comps h
    simp only [List.foldl_cons]
    exact ih _ (mergeComp_held_old comps _ ks h)

theorem foldl_held (db : DB) : ∀ (L : List String) (comps : List (List String)), ∀ r ∈ L,
    Held (L.foldl (fun cs r => mergeComp cs (keyNamesOf db r)) comps) (keyNamesOf db r) := by
  intro L
  induction L with
  | nil => intro comps r hr; simp at hr
  | cons x l ih =>
    intro comps r hr
    simp only [List.foldl_cons]
    rcases List.mem_cons.mp hr with e | e
    · subst e
      exact foldl_held_old db _ l _ (mergeComp_held_new comps _)
    · exact ih _ r e

theorem components_held (db : DB) (L : List String) : ∀ r ∈ L, Held (components db L) (keyNamesOf db r) :=
  foldl_held db L []

theorem two_le_length {α} (l : List α) (a b : α) (ha : a ∈ l) (hb : b ∈ l) (hne : a ≠ b) : 2 ≤ l.length := by
  match l, ha, hb with
  | [x], ha, hb => simp at ha hb; exact absurd (ha.trans hb.symm) hne
  | x :: y :: _, _, _ => simp

/-- relations on both sides of a partition of the key names lie in different components -/
theorem components_split (db : DB) (A B : List String) (hdisj : ∀ k, k ∈ A → k ∈ B → False) (L : List String)
    (hside : ∀ r ∈ L, Side A B (keyNamesOf db r)) (ra rb : String) (ha : ra ∈ L) (hb : rb ∈ L)
    (hane : keyNamesOf db ra ≠ []) (hbne : keyNamesOf db rb ≠ [])
    (haA : ∀ k ∈ keyNamesOf db ra, k ∈ A) (hbB : ∀ k ∈ keyNamesOf db rb, k ∈ B) :
    2 ≤ (components db L).length := by
  have hs := components_side db A B hdisj L hside
  rcases components_held db L ra ha with e | ⟨ca, hca, hka⟩
  · exact absurd e hane
  rcases components_held db L rb hb with e | ⟨cb, hcb, hkb⟩
  · exact absurd e hbne
  obtain ⟨ka, hka'⟩ := List.exists_mem_of_ne_nil _ hane
  obtain ⟨kb, hkb'⟩ := List.exists_mem_of_ne_nil _ hbne
  apply two_le_length _ ca cb hca hcb
  intro e
  subst e
  rcases hs ca hca with h | h
  · exact hdisj kb (h kb (hkb kb hkb')) (hbB kb hkb')
  · exact hdisj ka (haA ka hka') (h ka (hka ka hka'))

theorem mem_keysOfJoins (db : DB) (js : List (String × List String)) (k : String) :
    k ∈ keysOfJoins db js ↔ ∃ p ∈ js, k ∈ keyNamesOf db p.1 := by
  simp [keysOfJoins, List.mem_flatMap]

theorem orderJoins_ne_tsqlError_aux (db : DB) (L : List String) (hL : (components db L).length ≤ 1) :
    ∀ (n : Nat) (jm : JoinMap) (joins : List (String × List String)) (jk : List String),
    jk = keysOfJoins db joins →
    (∀ p ∈ joins ++ jm, p.1 ∈ L) →
    (∀ r ∈ L, (∃ p ∈ joins ++ jm, p.1 = r) ∨ keyNamesOf db r = []) →
    (∀ p ∈ joins ++ jm, keyNamesOf db p.1 ≠ []) →
    orderJoins db n jm joins jk ≠ .error .tsqlError := by
  intro n
  induction n with
  | zero =>
    intro jm joins jk _ _ _ _
    cases jm <;> simp [orderJoins]
  | succ n ih =>
    intro jm joins jk hjk hsub hcovL hkeys
    cases jm with
    | nil => simp [orderJoins]
    | cons a as =>
      simp only [orderJoins]
      cases hfind : (a :: as).find? (fun p => joins.isEmpty || intersects jk (keyNamesOf db p.1)) with
      | none =>
        exfalso
        rw [List.find?_eq_none] at hfind
        have hno : ∀ p ∈ a :: as, joins.isEmpty = false ∧ intersects jk (keyNamesOf db p.1) = false := by
          intro p hp
          have := hfind p hp
          simpa using this
        cases joins with
        | nil => have := (hno a (by simp)).1; simp at this
        | cons s ss =>
          have hdisj : ∀ k, k ∈ jk → k ∈ keysOfJoins db (a :: as) → False := by
            intro k h1 h2
            obtain ⟨p, hp, hkp⟩ := (mem_keysOfJoins db _ k).mp h2
            have := (hno p hp).2
            rw [← Bool.not_eq_true, intersects_iff] at this
            exact this ⟨k, h1, hkp⟩
          have hside : ∀ r ∈ L, Side jk (keysOfJoins db (a :: as)) (keyNamesOf db r) := by
            intro r hr
            rcases hcovL r hr with ⟨p, hp, e⟩ | e
            · subst e
              rcases List.mem_append.mp hp with hp | hp
              · left; intro k hk; rw [hjk]; exact (mem_keysOfJoins db _ k).mpr ⟨p, hp, hk⟩
              · right; intro k hk; exact (mem_keysOfJoins db _ k).mpr ⟨p, hp, hk⟩
            · left; rw [e]; simp
          have := components_split db jk (keysOfJoins db (a :: as)) hdisj L hside s.1 a.1
            (hsub s (by simp)) (hsub a (by simp)) (hkeys s (by simp)) (hkeys a (by simp))
            (by intro k hk; rw [hjk]; exact (mem_keysOfJoins db _ k).mpr ⟨s, by simp, hk⟩)
            (by intro k hk; exact (mem_keysOfJoins db _ k).mpr ⟨a, by simp, hk⟩)
          omega
      | some p =>
        simp only
        have hpmem : p ∈ a :: as := List.mem_of_find?_eq_some hfind
        have hperm : ((joins ++ [p]) ++ (a :: as).erase p).Perm (joins ++ (a :: as)) := by
          rw [List.append_assoc]
          exact List.Perm.append_left joins (List.perm_cons_erase hpmem).symm
        refine ih _ _ _ (by simp [keysOfJoins, hjk]) ?_ ?_ ?_
        · intro x hx; exact hsub x (hperm.mem_iff.mp hx)
        · intro r hr
          rcases hcovL r hr with ⟨x, hx, e⟩ | e
          · exact Or.inl ⟨x, hperm.mem_iff.mpr hx, e⟩
          · exact Or.inr e
        · intro x hx; exact hkeys x (hperm.mem_iff.mp hx)

/-- 'infinite loop detected!' is unreachable when the key graph of the join map's relations is
connected (what `_pivot_relations` establishes) and every relation of the join map has a key.
`L` may hold further relations without keys (they do not count for `components`). -/
theorem orderJoins_no_tsqlError_gen (db : DB) (L : List String) (hL : (components db L).length ≤ 1)
    (n : Nat) (jm : JoinMap) (hsub : ∀ p ∈ jm, p.1 ∈ L)
    (hcov : ∀ r ∈ L, (∃ p ∈ jm, p.1 = r) ∨ keyNamesOf db r = [])
    (hk : ∀ p ∈ jm, keyNamesOf db p.1 ≠ []) :
    orderJoins db n jm [] [] ≠ .error .tsqlError :=
  orderJoins_ne_tsqlError_aux db L hL n jm [] [] rfl (by simpa using hsub) (by simpa using hcov)
    (by simpa using hk)

theorem orderJoins_no_tsqlError (db : DB) (n : Nat) (jm : JoinMap)
    (hc : (components db (jm.map (·.1))).length ≤ 1) (hk : ∀ p ∈ jm, keyNamesOf db p.1 ≠ []) :
    orderJoins db n jm [] [] ≠ .error .tsqlError :=
  orderJoins_no_tsqlError_gen db (jm.map (·.1)) hc n jm
    (fun p hp => List.mem_map.mpr ⟨p, hp, rfl⟩)
    (fun r hr => by
      obtain ⟨p, hp, e⟩ := List.mem_map.mp hr
      exact Or.inl ⟨p, hp, e⟩) hk

/-- with enough fuel (as `planJoins` gives) the order loop does not run out of it -/
theorem orderJoins_ne_fuel (db : DB) : ∀ (n : Nat) (jm : JoinMap) (joins : List (String × List String))
    (jk : List String), jm.length < n → orderJoins db n jm joins jk ≠ .error .fuel := by
  intro n
  induction n with
  | zero => intro jm joins jk h; omega
  | succ n ih =>
    intro jm joins jk h
    cases jm with
    | nil => simp [orderJoins]
    | cons a as =>
      simp only [orderJoins]
      split
      · simp
      · rename_i p hfind
        have hpmem : p ∈ a :: as := List.mem_of_find?_eq_some hfind
        apply ih
        rw [List.length_erase_of_mem hpmem]
        simp only [List.length_cons] at h ⊢
        omega

/-- so the order loop answers -/
theorem orderJoins_ok (db : DB) (n : Nat) (jm : JoinMap) (hn : jm.length < n)
    (hc : (components db (jm.map (·.1))).length ≤ 1) (hk : ∀ p ∈ jm, keyNamesOf db p.1 ≠ []) :
    ∃ out, orderJoins db n jm [] [] = .ok out := by
  have h1 := orderJoins_no_tsqlError db n jm hc hk
  have h2 := orderJoins_ne_fuel db n jm [] [] hn
  have h3 : ∀ (n : Nat) (jm : JoinMap) (joins : List (String × List String)) (jk : List String) (e : Err),
      orderJoins db n jm joins jk = .error e → e = .tsqlError ∨ e = .fuel := by
    intro n
    induction n with
    | zero =>
      intro jm joins jk e h
      cases jm with
      | nil => simp [orderJoins] at h
      | cons a as => simp only [orderJoins] at h; cases h; exact Or.inr rfl
    | succ n ih =>
      intro jm joins jk e h
      cases jm with
      | nil => simp [orderJoins] at h
      | cons a as =>
        simp only [orderJoins] at h
        split at h
        · cases h; exact Or.inl rfl
        · exact ih _ _ _ e h
  cases h : orderJoins db n jm [] [] with
  | ok out => exact ⟨out, rfl⟩
  | error e =>
    rcases h3 n jm [] [] e h with e' | e'
    · subst e'; exact absurd h h1
    · subst e'; exact absurd h h2

/-- when every required relation has a key column, the planner refuses only in `_pivot_relations`
("no relation found to link the components"): the order loop's 'infinite loop detected!' is unreachable -/
theorem planJoins_tsqlError_from_pivots (db : DB) (hnd : (db.map (·.name)).Nodup)
    (projection condFs : List QName) (rels : List String)
    (hkeys : ∀ r ∈ requiredRels projection condFs rels, keyNamesOf db r ≠ [])
    (h : planJoins db projection condFs rels = .error .tsqlError) :
    pivotLoop db (db.length + 1) (requiredRels projection condFs rels) [] = .error .tsqlError := by
  unfold planJoins at h
  simp only at h
  split at h
  · cases h
  · split at h
    · rename_i e he
      cases h
      exact he
    · rename_i pivots hpiv
      exfalso
      split at h
      · rename_i e hord
        cases h
        obtain ⟨extra, he, hp1, hp2, _, _⟩ := pivotLoop_spec db hnd _ _ [] pivots hpiv
        simp only [List.nil_append] at he
        subst he
        have hq0 := (foldl_jmAdd_covers (projection ++ condFs).eraseDups []).1
        have hk := allKeys_covers db (projection ++ condFs).eraseDups
          (requiredRels projection condFs rels ++ pivots) _ hq0
        have hn := allKeys_namesIn db (projection ++ condFs).eraseDups
          (requiredRels projection condFs rels ++ pivots)
          (requiredRels projection condFs rels ++ pivots) _ (fun r hr => hr)
          (foldl_jmAdd_namesIn (requiredRels projection condFs rels ++ pivots) (projection ++ condFs).eraseDups []
            (by
              intro q hq
              apply List.mem_append_left
              unfold requiredRels
              rw [List.mem_eraseDups]
              exact List.mem_append_right _ (List.mem_map.mpr ⟨q, hq, rfl⟩))
            (by intro x hx; simp at hx))
        refine orderJoins_no_tsqlError_gen db (requiredRels projection condFs rels ++ pivots) hp2 _ _
          hn ?_ ?_ hord
        · intro r hr
          cases hkr : keyNamesOf db r with
          | nil => exact Or.inr rfl
          | cons k ks =>
            obtain ⟨cols, hm, _⟩ := hk.2 r hr k (by rw [hkr]; simp)
            exact Or.inl ⟨(r, cols), hm, rfl⟩
        · intro p hp
          rcases List.mem_append.mp (hn p hp) with hr | hr
          · exact hkeys p.1 hr
          · intro e
            have := (hp1 p.1 hr).2
            rw [e] at this
            simp at this
      · cases h

/-! ## why field names must be distinct -/

namespace PlanExample

/-- relation `B` has two columns named `k`: a non-key one first, then a key -/
def db : DB :=
  [{ name := "A", fields := [⟨"k", .integer, true⟩], rows := [] },
   { name := "B", fields := [⟨"k", .integer, false⟩, ⟨"k", .integer, true⟩], rows := [] }]

/-- the planner answers (`k` is a key name of both), but `_join` looks `k` up by name, finds the
non-key column, and has no shared key: the hypothesis `hfn` of `runJoins_no_tsqlError` is needed
(such a database is not `DB.wf`, so `select` answers `.unmodelled` before getting here) -/
example : (planJoins db [] [] ["A", "B"]).toOption.map (·.joins) = some [("A", ["k"]), ("B", ["k"])]
    ∧ (match runJoins db Sel.empty [("A", ["k"]), ("B", ["k"])] with
       | .error .tsqlError => true | _ => false) = true
    ∧ db.wf = false := by decide

end PlanExample

end Verif.C11
