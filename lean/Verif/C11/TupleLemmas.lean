import Verif.C11.Lemmas

/-!
# C11: joins as lists of tuples (no selection, no index)

`select_eq_spec` and `join_step_is_relational` describe the joined rows of the model through the
selection's index.  Here the joined rows are described from the database and the plan alone: a joined
TUPLE holds one stored row per planned relation (`joinTuples`), a stored row joins a tuple when it agrees
(as cast values) in every join column with the FIRST earlier relation that requests a column of that
name (`agreesT`), and the answer of `select` is the list of joined tuples that satisfy the condition,
in nested-loop order and with multiplicity (`select_complete_aux`).
-/

namespace Verif.C11

/-! ## index-free definitions -/

/-- the planned relation `j` requests a column named `k`, and that column (looked up by name, as `_join`
does) is a KEY field of the relation -/
def reqKey (db : DB) (j : String × List String) (k : String) : Bool :=
  j.2.contains k && (match db.rel? j.1 with
    | some rel => (match rel.field? k with
      | some f => f.isKey
      | none => false)
    | none => false)

/-- the first planned relation (in plan order) among `prev` that requests `k` as a KEY column: the holder
of `Selection._key_index[k]` (position in the plan = position in the tuple) -/
def firstWith (db : DB) (prev : List (String × List String)) (k : String) : Option Nat :=
  prev.findIdx? (fun j => reqKey db j k)

/-- the join columns of the new relation `rel` (requested columns `cols`) against the relations planned
before it: its requested KEY columns whose name an earlier planned relation also requests as a KEY
column (after commit 14dfce4; before, any earlier column of that name counted) -/
def onT (db : DB) (prev : List (String × List String)) (rel : Rel) (cols : List String) : List String :=
  ((cols.filterMap rel.field?).filter (fun f => f.isKey && (firstWith db prev f.name).isSome)).map (·.name)

/-- cell of column `k` of the `i`-th planned relation in the tuple `t` (one stored row per planned
relation) -/
def cellT (db : DB) (plan : List (String × List String)) (t : List (List Cell)) (i : Nat) (k : String) : Cell :=
  match plan[i]? with
  | some j =>
    match db.rel? j.1 with
    | some rel => cellOf rel (t.getD i []) k
    | none => noCell
  | none => noCell

/-- does the stored row `r` of `rel` join the tuple `t`: equal cast values in every join column,
compared with the FIRST earlier relation that requests a KEY column of that name -/
def agreesT (db : DB) (prev : List (String × List String)) (t : List (List Cell)) (rel : Rel)
    (cols : List String) (r : List Cell) : Bool :=
  (onT db prev rel cols).all (fun k => match firstWith db prev k with
    | some i => decide ((cellT db prev t i k).val = (cellOf rel r k).val)
    | none => false)

/-- one more relation: the first relation contributes each of its rows; a later one extends every
tuple by each of its rows that joins it, tuples outermost -/
def stepTuples (db : DB) (prev : List (String × List String)) (T : List (List (List Cell))) (rel : Rel)
    (cols : List String) : List (List (List Cell)) :=
  if prev.isEmpty then rel.rows.map (fun r => [r])
  else T.flatMap (fun t => (rel.rows.filter (agreesT db prev t rel cols)).map (fun r => t ++ [r]))

/-- all joined tuples, in the order the nested loops produce them: relation 0 outermost -/
def joinTuples (db : DB) : (prev : List (String × List String)) → List (List (List Cell)) →
    List (String × List String) → List (List (List Cell))
  | _, T, [] => T
  | prev, T, j :: js =>
    match db.rel? j.1 with
    | none => []
    | some rel => joinTuples db (prev ++ [j]) (stepTuples db prev T rel j.2) js

/-- the witness rows of a tuple: relation `n`'s row is the one at `n`'s position in the plan -/
def wOfT (plan : List (String × List String)) (t : List (List Cell)) : String → List Cell :=
  fun n => t.getD (plan.findIdx (fun j => j.1 = n)) []

/-- where the value of the qualified column `n.c` sits in a tuple: `n`'s own row, unless `c` is a join
column of `n` (then the first earlier relation that requests that column: "shared keys once") -/
def srcT (db : DB) (plan : List (String × List String)) (n c : String) : Option Nat :=
  match plan[plan.findIdx (fun j => j.1 = n)]? with
  | none => none
  | some j =>
    match db.rel? n with
    | none => none
    | some rel =>
      if (onT db (plan.take (plan.findIdx (fun j => j.1 = n))) rel j.2).contains c
      then firstWith db (plan.take (plan.findIdx (fun j => j.1 = n))) c
      else some (plan.findIdx (fun j => j.1 = n))

/-- the cell the index entry `n.c` of the model points at, read off the tuple -/
def outCell (db : DB) (plan : List (String × List String)) (t : List (List Cell)) (qn : QName) : Cell :=
  match srcT db plan qn.1 qn.2 with
  | some i => cellT db plan t i qn.2
  | none => noCell

/-! ## small facts -/

theorem flatMap_congr' {α β} (l : List α) (f g : α → List β) (h : ∀ a ∈ l, f a = g a) :
    l.flatMap f = l.flatMap g := by
  induction l with
  | nil => rfl
  | cons a l ih =>
    simp only [List.flatMap_cons]
    rw [h a (by simp), ih (fun x hx => h x (by simp [hx]))]

theorem all_congr' {α} (l : List α) (f g : α → Bool) (h : ∀ a ∈ l, f a = g a) : l.all f = l.all g := by
  induction l with
  | nil => rfl
  | cons a l ih =>
    simp only [List.all_cons]
    rw [h a (by simp), ih (fun x hx => h x (by simp [hx]))]

theorem field?_name (rel : Rel) (c : String) (f : Field) (h : rel.field? c = some f) : f.name = c := by
  unfold Rel.field? at h
  simpa using List.find?_some h

theorem field?_mem (rel : Rel) (c : String) (f : Field) (h : rel.field? c = some f) : f ∈ rel.fields := by
  unfold Rel.field? at h
  exact List.mem_of_find?_eq_some h

theorem reqKey_iff (db : DB) (j : String × List String) (rel : Rel) (hrel : db.rel? j.1 = some rel) (k : String) :
    reqKey db j k = true ↔ k ∈ j.2 ∧ ∃ f, rel.field? k = some f ∧ f.isKey = true := by
  unfold reqKey
  rw [hrel]
  cases hf : rel.field? k with
  | none => simp [hf]
  | some f => simp [hf]

theorem firstWith_lt (db : DB) (prev : List (String × List String)) (k : String) (i : Nat)
    (h : firstWith db prev k = some i) : i < prev.length := by
  unfold firstWith at h
  rw [List.findIdx?_eq_some_iff_getElem] at h
  exact h.1

theorem firstWith_append_some (db : DB) (prev : List (String × List String)) (j : String × List String) (k : String)
    (i : Nat) (h : firstWith db prev k = some i) : firstWith db (prev ++ [j]) k = some i := by
  unfold firstWith at h ⊢
  rw [List.findIdx?_append, h]
  rfl

theorem firstWith_append_none (db : DB) (prev : List (String × List String)) (j : String × List String) (k : String)
    (h : firstWith db prev k = none) :
    firstWith db (prev ++ [j]) k = if reqKey db j k then some prev.length else none := by
  unfold firstWith at h ⊢
  rw [List.findIdx?_append, h]
  simp only [Option.none_or, List.findIdx?_cons, List.findIdx?_nil]
  split <;> simp

theorem getD_take (t : List (List Cell)) (n i : Nat) (h : i < n) : (t.take n).getD i [] = t.getD i [] := by
  simp [List.getD_eq_getElem?_getD, h]

theorem cellT_append (db : DB) (prev : List (String × List String)) (j : String × List String)
    (t : List (List Cell)) (i : Nat) (k : String) (h : i < prev.length) :
    cellT db (prev ++ [j]) t i k = cellT db prev (t.take prev.length) i k := by
  unfold cellT
  rw [List.getElem?_append_left h, getD_take t prev.length i h]

theorem cellT_last (db : DB) (prev : List (String × List String)) (j : String × List String) (rel : Rel)
    (hrel : db.rel? j.1 = some rel) (t : List (List Cell)) (k : String) :
    cellT db (prev ++ [j]) t prev.length k = cellOf rel (t.getD prev.length []) k := by
  unfold cellT
  simp [hrel]

theorem findIdx_field (p : Field → Bool) (d : Field) :
    (l : List Field) → (i : Nat) → l.findIdx? p = some i → l.find? p = some (l.getD i d)
  | [], i, h => by simp at h
  | a :: l, i, h => by
    rw [List.findIdx?_cons] at h
    by_cases hp : p a = true
    · simp only [hp, if_true, Option.some.injEq] at h
      subst h
      simp [hp]
    · simp only [hp, Bool.false_eq_true, if_false, Option.map_eq_some_iff] at h
      obtain ⟨i', hi', e⟩ := h
      subst e
      have := findIdx_field p d l i' hi'
      simp only [Bool.not_eq_true] at hp
      simp [hp, this]

/-- the requested columns, looked up as fields, are the fields `_join` works with -/
theorem filterMap_field (rel : Rel) (d : Field) :
    (cols : List String) → (indices : List Nat) → cols.mapM rel.fieldIdx? = some indices →
    cols.filterMap rel.field? = indices.map (fun i => rel.fields.getD i d)
  | [], indices, h => by simp at h; subst h; rfl
  | c :: cols, indices, h => by
    rw [List.mapM_cons] at h
    cases hc : rel.fieldIdx? c with
    | none => simp [hc] at h
    | some i =>
      cases hl : cols.mapM rel.fieldIdx? with
      | none => simp [hc, hl] at h
      | some is =>
        simp [hc, hl] at h
        subst h
        have ih := filterMap_field rel d cols is hl
        have hf : rel.field? c = some (rel.fields.getD i d) := findIdx_field _ d rel.fields i hc
        simp [hf, ih]

theorem wOfT_append_old (prev : List (String × List String)) (j : String × List String)
    (t : List (List Cell)) (r : List Cell) (ht : t.length = prev.length) (n : String)
    (hn : n ∈ prev.map (·.1)) : wOfT (prev ++ [j]) (t ++ [r]) n = wOfT prev t n := by
  unfold wOfT
  have hlt : prev.findIdx (fun j => decide (j.1 = n)) < prev.length := by
    apply List.findIdx_lt_length_of_exists
    obtain ⟨x, hx, e⟩ := List.mem_map.mp hn
    exact ⟨x, hx, by simpa using e⟩
  rw [List.findIdx_append, if_pos hlt]
  simp [List.getD_eq_getElem?_getD, List.getElem?_append_left (ht ▸ hlt)]

theorem wOfT_append_new (prev : List (String × List String)) (j : String × List String)
    (t : List (List Cell)) (r : List Cell) (ht : t.length = prev.length)
    (hn : j.1 ∉ prev.map (·.1)) : wOfT (prev ++ [j]) (t ++ [r]) j.1 = r := by
  unfold wOfT
  have hge : prev.findIdx (fun x => decide (x.1 = j.1)) = prev.length := by
    apply List.findIdx_eq_length.mpr
    intro x hx
    simp only [decide_eq_false_iff_not]
    intro e
    exact hn (List.mem_map.mpr ⟨x, hx, e⟩)
  rw [List.findIdx_append, hge]
  simp [List.findIdx_cons, ← ht]

theorem srcT_lt (db : DB) (plan : List (String × List String)) (n c : String) (i : Nat)
    (h : srcT db plan n c = some i) : i < plan.length := by
  unfold srcT at h
  split at h
  · cases h
  · rename_i j hj
    have hlt : plan.findIdx (fun j => decide (j.1 = n)) < plan.length := by
      rcases Nat.lt_or_ge (plan.findIdx (fun j => decide (j.1 = n))) plan.length with h' | h'
      · exact h'
      · rw [List.getElem?_eq_none h'] at hj; cases hj
    split at h
    · cases h
    · split at h
      · have := firstWith_lt _ _ _ _ h
        simp only [List.length_take] at this
        omega
      · cases h; exact hlt

theorem srcT_append_old (db : DB) (prev : List (String × List String)) (j : String × List String)
    (n c : String) (hn : n ∈ prev.map (·.1)) : srcT db (prev ++ [j]) n c = srcT db prev n c := by
  have hlt : prev.findIdx (fun j => decide (j.1 = n)) < prev.length := by
    apply List.findIdx_lt_length_of_exists
    obtain ⟨x, hx, e⟩ := List.mem_map.mp hn
    exact ⟨x, hx, by simpa using e⟩
  unfold srcT
  rw [List.findIdx_append, if_pos hlt, List.getElem?_append_left hlt,
    List.take_append_of_le_length (Nat.le_of_lt hlt)]

theorem srcT_append_new (db : DB) (prev : List (String × List String)) (j : String × List String)
    (rel : Rel) (hrel : db.rel? j.1 = some rel) (c : String) (hn : j.1 ∉ prev.map (·.1)) :
    srcT db (prev ++ [j]) j.1 c
      = if (onT db prev rel j.2).contains c then firstWith db prev c else some prev.length := by
  have hge : prev.findIdx (fun x => decide (x.1 = j.1)) = prev.length := by
    apply List.findIdx_eq_length.mpr
    intro x hx
    simp only [decide_eq_false_iff_not]
    intro e
    exact hn (List.mem_map.mpr ⟨x, hx, e⟩)
  unfold srcT
  rw [List.findIdx_append, hge]
  simp [List.findIdx_cons, hrel]

theorem outCell_append_old (db : DB) (prev : List (String × List String)) (j : String × List String)
    (t : List (List Cell)) (n c : String) (hn : n ∈ prev.map (·.1)) :
    outCell db (prev ++ [j]) t (n, c) = outCell db prev (t.take prev.length) (n, c) := by
  unfold outCell
  simp only
  rw [srcT_append_old db prev j n c hn]
  cases hs : srcT db prev n c with
  | none => rfl
  | some i => exact cellT_append db prev j t i c (srcT_lt db prev n c i hs)

theorem onT_nil (db : DB) (rel : Rel) (cols : List String) : onT db [] rel cols = [] := by
  simp [onT, firstWith]

/-! ## the witness rows of an extended row, named -/

/-- `merge_inv`'s witness part with the witness rows given: the extended row `l ++ pick rV r` is
justified by `w'` when `l` was justified by `w`, `w'` is `w` on the joined relations and `r` on the new one -/
theorem merge_witBy (db : DB) (sel : Sel)
    (hbound : ∀ key p, dictGet sel.index key = some p → p < sel.fields.length)
    (hjoined : ∀ n c p, dictGet sel.index (.q n c) = some p → n ∈ sel.joined)
    (name : String) (rel : Rel) (hrel : db.rel? name = some rel)
    (fields' : List Field) (rV : List Nat) (on : List String)
    (hrV : ∀ (i : Nat) (f : Field), fields'[i]? = some f → ∃ j, rV[i]? = some j ∧ rel.fieldIdx? f.name = some j)
    (data' : List (List Cell))
    (l r : List Cell) (hlen : l.length = sel.fields.length) (hr : r ∈ rel.rows)
    (w w' : String → List Cell) (hw : WitBy db sel.index l w)
    (hw1 : w' name = r) (hw2 : ∀ n ∈ sel.joined, w' n = w n)
    (hagree : ∀ k ∈ on, ∀ p, dictGet sel.index (.k k) = some p →
        ∃ j, rel.fieldIdx? k = some j ∧ (l.getD p noCell).val = (r.getD j noCell).val) :
    WitBy db (mergeFields { sel with data := data' } name on fields').index (l ++ pick rV r) w' := by
  have horigin := mergeFields_origin { sel with data := data' } name on fields'
  simp only at horigin
  intro n c p h
  have newcol : ∀ i f, i < fields'.length → fields'[i]? = some f → p = sel.fields.length + i →
      ((l ++ pick rV r).getD p noCell).val = (cellOf rel r f.name).val := by
    intro i f _ hf hp
    obtain ⟨j, hj1, hj2⟩ := hrV i f hf
    rw [hp, ← hlen, getD_append_right', pick_getD rV r i j hj1, cellOf_eq rel r f.name j hj2]
  have old : ∀ key, dictGet sel.index key = some p → (l ++ pick rV r).getD p noCell = l.getD p noCell := by
    intro key hk
    rw [getD_append_left' _ _ _ (by rw [hlen]; exact hbound key p hk)]
  rcases horigin (.q n c) p h with o | ⟨k, hk, ekey, o⟩
  · rcases o with eold | ⟨i, f, hi, hf, hp, hkey⟩
    · have hnj := hjoined n c p eold
      obtain ⟨rel', h1, h2, h3⟩ := hw n c p eold
      refine ⟨rel', h1, by rw [hw2 n hnj]; exact h2, ?_⟩
      rw [hw2 n hnj, old _ eold, h3]
    · rcases hkey with hkey | hkey | ⟨hkey, _⟩
      · cases hkey
      · cases hkey
        exact ⟨rel, hrel, by rw [hw1]; exact hr, by rw [hw1]; exact newcol i f hi hf hp⟩
      · cases hkey
  · cases ekey
    refine ⟨rel, hrel, by rw [hw1]; exact hr, ?_⟩
    rw [hw1]
    rcases o with eold | ⟨i, f, hi, hf, hp, hkey⟩
    · obtain ⟨j, hj, hv⟩ := hagree c hk p eold
      rw [old _ eold, hv, cellOf_eq rel r c j hj]
    · rcases hkey with hkey | hkey | ⟨hkey, _⟩
      · cases hkey
      · cases hkey
      · cases hkey
        exact newcol i f hi hf hp

/-! ## the invariant of the join loop, on tuples -/

/-- the selection `sel` after joining the relations `prev` is the list of tuples `T`, each flattened by
`flat`; key entries (`_key_index`) point at the cell of the FIRST relation requesting that column as a key;
qualified entries are justified by the tuple's own rows -/
structure TInv (db : DB) (prev : List (String × List String)) (sel : Sel) (T : List (List (List Cell)))
    (flat : List (List Cell) → List Cell) : Prop where
  sinv : SelInv db sel
  joined : sel.joined = prev.map (·.1)
  nodup : (prev.map (·.1)).Nodup
  data : sel.data = T.map flat
  flen : ∀ t, (flat t).length = sel.fields.length
  tlen : ∀ t ∈ T, t.length = prev.length
  trow : ∀ t ∈ T, ∀ i (hi : i < prev.length), ∃ rel, db.rel? (prev[i]).1 = some rel ∧ t.getD i [] ∈ rel.rows
  uiff : ∀ k, (dictGet sel.index (.k k)).isSome = (firstWith db prev k).isSome
  ucell : ∀ k p i, dictGet sel.index (.k k) = some p → firstWith db prev k = some i →
    ∀ t, (flat t).getD p noCell = cellT db prev t i k
  wit : ∀ t ∈ T, WitBy db sel.index (flat t) (wOfT prev t)
  qcell : ∀ n c p, dictGet sel.index (.q n c) = some p → ∀ t, (flat t).getD p noCell = outCell db prev t (n, c)

theorem tinv_empty (db : DB) : TInv db [] Sel.empty [] (fun _ => []) where
  sinv := selInv_empty db
  joined := rfl
  nodup := by simp
  data := rfl
  flen := by intro t; rfl
  tlen := by simp
  trow := by simp
  uiff := by intro k; simp [Sel.empty, dictGet, firstWith]
  ucell := by intro k p i h; simp [Sel.empty, dictGet] at h
  wit := by simp
  qcell := by intro n c p h; simp [Sel.empty, dictGet] at h

/-- adding the columns of one more relation keeps the invariant -/
theorem merge_tinv (db : DB) (prev : List (String × List String)) (sel : Sel) (T : List (List (List Cell)))
    (flat : List (List Cell) → List Cell) (hinv : TInv db prev sel T flat)
    (j : String × List String) (rel : Rel) (hrel : db.rel? j.1 = some rel) (hnew : j.1 ∉ sel.joined)
    (fields' : List Field) (rV : List Nat) (on : List String)
    (hrVlen : rV.length = fields'.length)
    (hrV : ∀ (i : Nat) (f : Field), fields'[i]? = some f → ∃ jx, rV[i]? = some jx ∧ rel.fieldIdx? f.name = some jx)
    (hfsub : ∀ f ∈ fields', f.name ∈ j.2 ∧ rel.field? f.name = some f)
    (hfcov : ∀ c ∈ j.2, ∀ f, rel.field? c = some f → f.isKey = true → dictGet sel.index (.k c) = none →
      f ∈ fields')
    (honT : on = onT db prev rel j.2) (hnoton : ∀ f ∈ fields', f.name ∉ on)
    (T' : List (List (List Cell))) (data' : List (List Cell))
    (hdata : data' = T'.map (fun t => flat (t.take prev.length) ++ pick rV (t.getD prev.length [])))
    (hT' : ∀ t' ∈ T', ∃ t r, t' = t ++ [r] ∧ t.length = prev.length ∧ r ∈ rel.rows ∧
       (∀ i (hi : i < prev.length), ∃ rel, db.rel? (prev[i]).1 = some rel ∧ t.getD i [] ∈ rel.rows) ∧
       WitBy db sel.index (flat t) (wOfT prev t) ∧
       (∀ k ∈ on, ∀ p, dictGet sel.index (.k k) = some p →
          ∃ jx, rel.fieldIdx? k = some jx ∧ ((flat t).getD p noCell).val = (r.getD jx noCell).val))
    (hsinv : SelInv db (mergeFields { sel with data := data' } j.1 on fields')) :
    TInv db (prev ++ [j]) (mergeFields { sel with data := data' } j.1 on fields') T'
      (fun t => flat (t.take prev.length) ++ pick rV (t.getD prev.length [])) := by
  have horigin := mergeFields_origin { sel with data := data' } j.1 on fields'
  have hpres := mergeFields_k_pres { sel with data := data' } j.1 on fields'
  have hunew := mergeFields_k_new { sel with data := data' } j.1 on fields'
  simp only at horigin hpres hunew
  have hnew' : j.1 ∉ prev.map (·.1) := hinv.joined ▸ hnew
  have uclass : ∀ k p, dictGet (mergeFields { sel with data := data' } j.1 on fields').index (.k k) = some p →
      dictGet sel.index (.k k) = some p ∨
      (dictGet sel.index (.k k) = none ∧
        ∃ i f, fields'[i]? = some f ∧ p = sel.fields.length + i ∧ f.name = k ∧ f.isKey = true) := by
    intro k p h
    cases hd : dictGet sel.index (.k k) with
    | some p0 =>
      have := hpres k p0 hd
      rw [h] at this
      exact Or.inl this.symm
    | none =>
      right
      refine ⟨rfl, ?_⟩
      rcases horigin (.k k) p h with o | ⟨_, _, e, _⟩
      · rcases o with eold | ⟨i, f, _, hf, hp, hkey⟩
        · rw [hd] at eold; cases eold
        · rcases hkey with hkey | hkey | ⟨hkey, hfk⟩
          · cases hkey
          · cases hkey
          · cases hkey; exact ⟨i, f, hf, hp, rfl, hfk⟩
      · cases e
  have unone : ∀ k, dictGet sel.index (.k k) = none → firstWith db prev k = none := by
    intro k hd
    have := hinv.uiff k
    rw [hd] at this
    cases hf : firstWith db prev k with
    | none => rfl
    | some i => simp [hf] at this
  constructor
  · exact hsinv
  · simp [mergeFields, hinv.joined]
  · rw [List.map_append, List.nodup_append]
    refine ⟨hinv.nodup, by simp, ?_⟩
    intro a ha b hb
    simp only [List.map_cons, List.map_nil, List.mem_singleton] at hb
    subst hb
    intro e
    exact hnew' (e ▸ ha)
  · simp only [mergeFields]; exact hdata
  · intro t
    simp [mergeFields, pick, hinv.flen, hrVlen]
  · intro t' ht'
    obtain ⟨t, r, e, hl, _⟩ := hT' t' ht'
    subst e
    simp [hl]
  · intro t' ht' i hi
    obtain ⟨t, r, e, hl, hr, hrows, _⟩ := hT' t' ht'
    subst e
    by_cases h : i < prev.length
    · rw [List.getElem_append_left h]
      obtain ⟨rel', h1, h2⟩ := hrows i h
      refine ⟨rel', h1, ?_⟩
      rw [List.getD_eq_getElem?_getD, List.getElem?_append_left (hl ▸ h), ← List.getD_eq_getElem?_getD]
      exact h2
    · have hi' : i = prev.length := by simp at hi; omega
      subst hi'
      refine ⟨rel, by simp [hrel], ?_⟩
      simp [List.getD_eq_getElem?_getD, ← hl, hr]
  · intro k
    cases hd : dictGet sel.index (.k k) with
    | some p0 =>
      rw [hpres k p0 hd]
      have h1 := hinv.uiff k
      rw [hd] at h1
      cases hf : firstWith db prev k with
      | none => simp [hf] at h1
      | some i => rw [firstWith_append_some _ _ _ _ _ hf]; rfl
    | none =>
      rw [firstWith_append_none _ _ _ _ (unone k hd)]
      by_cases hc : reqKey db j k = true
      · obtain ⟨hc', f, hff, hfk⟩ := (reqKey_iff db j rel hrel k).mp hc
        have hf' := hfcov k hc' f hff hfk hd
        obtain ⟨q, hq⟩ := hunew f hf' hfk
        rw [field?_name rel k f hff] at hq
        simp [hc, hq]
      · simp only [hc, Bool.false_eq_true, if_false, Option.isSome_none]
        cases hx : dictGet (mergeFields { sel with data := data' } j.1 on fields').index (.k k) with
        | none => rfl
        | some p =>
          rcases uclass k p hx with e | ⟨_, i, f, hf', _, e, hfk⟩
          · rw [hd] at e; cases e
          · have := hfsub f (List.mem_iff_getElem?.mpr ⟨i, hf'⟩)
            rw [e] at this
            exact absurd ((reqKey_iff db j rel hrel k).mpr ⟨this.1, f, this.2, hfk⟩) hc
  · intro k p i hp hfw t
    rcases uclass k p hp with e | ⟨hd, i', f, hf', hpi, e, _⟩
    · have hs : (firstWith db prev k).isSome = true := by rw [← hinv.uiff k, e]; rfl
      cases hf0 : firstWith db prev k with
      | none => simp [hf0] at hs
      | some i0 =>
        rw [firstWith_append_some db prev j k i0 hf0] at hfw
        cases hfw
        rw [cellT_append db prev j t i k (firstWith_lt db prev k i hf0),
          ← hinv.ucell k p i e hf0 (t.take prev.length)]
        exact getD_append_left' _ _ _ (by rw [hinv.flen]; exact hinv.sinv.bound _ p e)
    · rw [firstWith_append_none _ _ _ _ (unone k hd)] at hfw
      split at hfw
      · cases hfw
        rw [cellT_last db prev j rel hrel]
        obtain ⟨jx, hj1, hj2⟩ := hrV i' f hf'
        show (flat (t.take prev.length) ++ pick rV (t.getD prev.length [])).getD p noCell = _
        rw [hpi, ← hinv.flen (t.take prev.length), getD_append_right', pick_getD rV _ i' jx hj1, ← e,
          cellOf_eq rel _ f.name jx hj2]
      · cases hfw
  · intro t' ht'
    obtain ⟨t, r, e, hl, hr, _, hw, hag⟩ := hT' t' ht'
    subst e
    have hfl : flat ((t ++ [r]).take prev.length) ++ pick rV ((t ++ [r]).getD prev.length [])
        = flat t ++ pick rV r := by
      simp [← hl, List.getD_eq_getElem?_getD]
    show WitBy _ _ (flat ((t ++ [r]).take prev.length) ++ pick rV ((t ++ [r]).getD prev.length [])) _
    rw [hfl]
    exact merge_witBy db sel hinv.sinv.bound hinv.sinv.joined j.1 rel hrel fields' rV on hrV data'
      (flat t) r (hinv.flen t) hr (wOfT prev t) (wOfT (prev ++ [j]) (t ++ [r])) hw
      (wOfT_append_new prev j t r hl hnew')
      (fun n hn => wOfT_append_old prev j t r hl n (hinv.joined ▸ hn)) hag
  · intro n c p hp t
    show (flat (t.take prev.length) ++ pick rV (t.getD prev.length [])).getD p noCell = _
    rcases horigin (.q n c) p hp with o | ⟨k, hk, ekey, o⟩
    · rcases o with eold | ⟨i, f, hi, hf, hpi, hkey⟩
      · have hnj : n ∈ prev.map (·.1) := hinv.joined ▸ hinv.sinv.joined n c p eold
        rw [outCell_append_old db prev j t n c hnj, ← hinv.qcell n c p eold (t.take prev.length)]
        exact getD_append_left' _ _ _ (by rw [hinv.flen]; exact hinv.sinv.bound _ p eold)
      · rcases hkey with hkey | hkey | ⟨hkey, _⟩
        · cases hkey
        · cases hkey
          have hfm : f ∈ fields' := List.mem_iff_getElem?.mpr ⟨i, hf⟩
          have hno : (onT db prev rel j.2).contains f.name = false := by
            rw [← honT]; simpa using hnoton f hfm
          unfold outCell
          simp only
          rw [srcT_append_new db prev j rel hrel f.name hnew', hno]
          simp only [Bool.false_eq_true, if_false]
          rw [cellT_last db prev j rel hrel]
          obtain ⟨jx, hj1, hj2⟩ := hrV i f hf
          rw [hpi, ← hinv.flen (t.take prev.length), getD_append_right', pick_getD rV _ i jx hj1,
            cellOf_eq rel _ f.name jx hj2]
        · cases hkey
    · cases ekey
      have hyes : (onT db prev rel j.2).contains c = true := by
        rw [← honT]; simpa using hk
      unfold outCell
      simp only
      rw [srcT_append_new db prev j rel hrel c hnew', hyes]
      simp only [if_true]
      rcases o with eold | ⟨i, f, hi, hf, hpi, hkey⟩
      · have hs : (firstWith db prev c).isSome = true := by rw [← hinv.uiff c, eold]; rfl
        cases hf0 : firstWith db prev c with
        | none => simp [hf0] at hs
        | some i0 =>
          simp only
          rw [cellT_append db prev j t i0 c (firstWith_lt db prev c i0 hf0),
            ← hinv.ucell c p i0 eold hf0 (t.take prev.length)]
          exact getD_append_left' _ _ _ (by rw [hinv.flen]; exact hinv.sinv.bound _ p eold)
      · rcases hkey with hkey | hkey | ⟨hkey, _⟩
        · cases hkey
        · cases hkey
        · cases hkey
          exact absurd hk (hnoton f (List.mem_iff_getElem?.mpr ⟨i, hf⟩))

/-- the model's join columns are the index-free ones -/
theorem sharedKeys_onT (db : DB) (prev : List (String × List String)) (sel : Sel) (T : List (List (List Cell)))
    (flat : List (List Cell) → List Cell) (hinv : TInv db prev sel T flat) (rel : Rel) (cols : List String)
    (indices : List Nat) (hm : cols.mapM rel.fieldIdx? = some indices) (d : Field) :
    sharedKeys sel (indices.map (fun i => rel.fields.getD i d)) = onT db prev rel cols := by
  unfold sharedKeys onT
  rw [filterMap_field rel d cols indices hm]
  congr 1
  apply List.filter_congr
  intro f _
  rw [hinv.uiff]

/-- the model's join test on a flattened tuple is the index-free one on the tuple -/
theorem agreeOn_agreesT (db : DB) (prev : List (String × List String)) (sel : Sel) (T : List (List (List Cell)))
    (flat : List (List Cell) → List Cell) (hinv : TInv db prev sel T flat) (rel : Rel) (cols : List String)
    (indices : List Nat) (hm : cols.mapM rel.fieldIdx? = some indices) (d : Field)
    (t : List (List Cell)) (r : List Cell) :
    agreeOn sel rel (sharedKeys sel (indices.map (fun i => rel.fields.getD i d))) (flat t) r
      = agreesT db prev t rel cols r := by
  unfold agreeOn agreesT
  rw [← sharedKeys_onT db prev sel T flat hinv rel cols indices hm d]
  apply all_congr'
  intro k hk
  have h1 := sharedKeys_left sel _ k hk
  have h2 := sharedKeys_right sel rel cols indices hm d k hk
  cases hd : dictGet sel.index (.k k) with
  | none => simp [hd] at h1
  | some p =>
    cases hj : rel.fieldIdx? k with
    | none => simp [hj] at h2
    | some jx =>
      have hs : (firstWith db prev k).isSome = true := by rw [← hinv.uiff k, hd]; rfl
      cases hf : firstWith db prev k with
      | none => simp [hf] at hs
      | some i =>
        simp only
        rw [hinv.ucell k p i hd hf t, cellOf_eq rel r k jx hj]

/-- one step of the join loop, on tuples -/
theorem nestedStep_tinv (db : DB) (prev : List (String × List String)) (sel sel' : Sel)
    (T : List (List (List Cell))) (flat : List (List Cell) → List Cell) (j : String × List String)
    (hinv : TInv db prev sel T flat) (h : nestedStep db sel j = .ok sel') :
    ∃ rel, db.rel? j.1 = some rel ∧
      ∃ flat', TInv db (prev ++ [j]) sel' (stepTuples db prev T rel j.2) flat' := by
  have hs' := nestedStep_inv db sel sel' j hinv.sinv h
  unfold nestedStep at h
  by_cases hc : sel.joined.contains j.1 = true
  · simp only [hc, if_true] at h; cases h
  · simp only [hc] at h
    have hnew : j.1 ∉ sel.joined := by simpa using hc
    cases hrel : db.rel? j.1 with
    | none => simp only [hrel] at h; cases h
    | some rel =>
      simp only [hrel] at h
      cases hm : j.2.mapM rel.fieldIdx? with
      | none => simp only [hm] at h; cases h
      | some indices =>
        simp only [hm] at h
        refine ⟨rel, rfl, ?_⟩
        have hfld := filterMap_field rel ⟨"", .string, false⟩ j.2 indices hm
        have hnames : ∀ f ∈ indices.map (fun i => rel.fields.getD i ⟨"", .string, false⟩),
            f.name ∈ j.2 ∧ rel.field? f.name = some f := by
          intro f hf
          rw [← hfld] at hf
          obtain ⟨c, hc, hcf⟩ := List.mem_filterMap.mp hf
          have := field?_name rel c f hcf
          rw [this]; exact ⟨hc, hcf⟩
        have hcover : ∀ c ∈ j.2, ∀ f, rel.field? c = some f →
            f ∈ indices.map (fun i => rel.fields.getD i ⟨"", .string, false⟩) := by
          intro c hc f hcf
          rw [← hfld]
          exact List.mem_filterMap.mpr ⟨c, hc, hcf⟩
        by_cases he : sel.joined.isEmpty = true
        · simp only [he, if_true] at h
          cases h
          have hj : sel.joined = [] := by simpa using he
          have hp : prev = [] := by
            have := hinv.joined
            rw [hj] at this
            simpa using this.symm
          subst hp
          obtain ⟨hf, hi⟩ := hinv.sinv.fresh hj
          have hflat : ∀ t, flat t = [] := by
            intro t
            have := hinv.flen t
            rw [hf] at this
            simpa using this
          refine ⟨_, merge_tinv db [] sel T flat hinv j rel hrel hnew _ indices [] (by simp)
            (field_of_indices rel j.2 indices hm _) hnames (fun c hc f hcf _ _ => hcover c hc f hcf)
            (onT_nil db rel j.2).symm (by simp) (stepTuples db [] T rel j.2) _ ?_ ?_ hs'⟩
          · simp [stepTuples, hflat, List.getD_eq_getElem?_getD]
          · intro t' ht'
            simp only [stepTuples, List.isEmpty_nil, if_true, List.mem_map] at ht'
            obtain ⟨r, hr, e⟩ := ht'
            refine ⟨[], r, by simp [e], rfl, hr, by simp, ?_, by simp⟩
            intro n c p hp
            rw [hi] at hp
            simp [dictGet] at hp
        · simp only [he] at h
          by_cases hon : (sharedKeys sel (indices.map (fun i => rel.fields.getD i ⟨"", .string, false⟩))).isEmpty = true
          · simp only [hon, if_true] at h; cases h
          · simp only [hon] at h
            cases h
            have hpne : prev.isEmpty = false := by
              cases prev with
              | nil => have := hinv.joined; simp at this; simp [this] at he
              | cons a b => rfl
            have hsome : ∀ f ∈ (indices.map (fun i => rel.fields.getD i ⟨"", .string, false⟩)).filter
                (fun f => !(sharedKeys sel (indices.map (fun i => rel.fields.getD i ⟨"", .string, false⟩))).contains f.name),
                (rel.fieldIdx? f.name).isSome := by
              intro f hf
              obtain ⟨i, hi⟩ := List.mem_iff_getElem?.mp (List.mem_filter.mp hf).1
              obtain ⟨jx, _, hjx⟩ := field_of_indices rel j.2 indices hm _ i f hi
              simp [hjx]
            have hal := filterMap_aligned (fun f : Field => rel.fieldIdx? f.name) _ hsome
            have hag := agreeOn_agreesT db prev sel T flat hinv rel j.2 indices hm ⟨"", .string, false⟩
            refine ⟨_, merge_tinv db prev sel T flat hinv j rel hrel hnew _ _ _ hal.1 hal.2 ?_ ?_
              (sharedKeys_onT db prev sel T flat hinv rel j.2 indices hm _)
              (fun f hf => by simpa using (List.mem_filter.mp hf).2)
              (stepTuples db prev T rel j.2) _ ?_ ?_ hs'⟩
            · intro f hf
              exact hnames f (List.mem_filter.mp hf).1
            · intro c hc' f hcf _ hd
              refine List.mem_filter.mpr ⟨hcover c hc' f hcf, ?_⟩
              simp only [Bool.not_eq_true', List.contains_eq_mem, decide_eq_false_iff_not]
              intro hmem
              have := sharedKeys_left sel _ _ hmem
              rw [field?_name rel c f hcf, hd] at this
              simp at this
            · rw [hinv.data, List.flatMap_map]
              simp only [stepTuples, hpne, Bool.false_eq_true, if_false]
              rw [List.map_flatMap]
              apply flatMap_congr'
              intro t ht
              rw [List.map_map]
              have hfil : rel.rows.filter (fun r => agreeOn sel rel
                  (sharedKeys sel (indices.map (fun i => rel.fields.getD i ⟨"", .string, false⟩))) (flat t) r)
                  = rel.rows.filter (agreesT db prev t rel j.2) :=
                List.filter_congr (fun r _ => hag t r)
              rw [hfil]
              apply List.map_congr_left
              intro r _
              simp [← hinv.tlen t ht, List.getD_eq_getElem?_getD]
            · intro t' ht'
              simp only [stepTuples, hpne, Bool.false_eq_true, if_false, List.mem_flatMap, List.mem_map,
                List.mem_filter] at ht'
              obtain ⟨t, ht, r, ⟨hr, hagr⟩, e⟩ := ht'
              refine ⟨t, r, e.symm, hinv.tlen t ht, hr, hinv.trow t ht, hinv.wit t ht, ?_⟩
              rw [← hag t r] at hagr
              exact agreeOn_spec sel rel _ (flat t) r hagr

theorem nestedJoins_tinv (db : DB) : (js : List (String × List String)) →
    (prev : List (String × List String)) → (sel sel' : Sel) → (T : List (List (List Cell))) →
    (flat : List (List Cell) → List Cell) → TInv db prev sel T flat → nestedJoins db sel js = .ok sel' →
    ∃ flat', TInv db (prev ++ js) sel' (joinTuples db prev T js) flat'
  | [], prev, sel, sel', T, flat, hinv, h => by
    simp only [nestedJoins] at h
    cases h
    exact ⟨flat, by simpa [joinTuples] using hinv⟩
  | j :: js, prev, sel, sel', T, flat, hinv, h => by
    simp only [nestedJoins] at h
    split at h
    · cases h
    · rename_i s1 hs1
      obtain ⟨rel, hrel, flat1, h1⟩ := nestedStep_tinv db prev sel s1 T flat j hinv hs1
      obtain ⟨flat2, h2⟩ := nestedJoins_tinv db js (prev ++ [j]) s1 sel' _ flat1 h1 h
      refine ⟨flat2, ?_⟩
      simp only [joinTuples, hrel]
      simpa using h2

/-! ## the main statements -/

/-- the joined rows of the model are exactly the joined tuples, in order and with multiplicity, each
flattened; every tuple holds one stored row of each planned relation and justifies its flattened row;
and every qualified index entry points at the cell `outCell` reads off the tuple -/
theorem runJoins_tuples (db : DB) (plan : List (String × List String)) (sel : Sel)
    (h : runJoins db Sel.empty plan = .ok sel) :
    ∃ flat : List (List Cell) → List Cell,
      sel.data = (joinTuples db [] [] plan).map flat ∧
      (∀ t ∈ joinTuples db [] [] plan, t.length = plan.length ∧
         ∀ i (hi : i < plan.length), ∃ rel, db.rel? (plan[i]).1 = some rel ∧ t.getD i [] ∈ rel.rows) ∧
      (∀ t ∈ joinTuples db [] [] plan, WitBy db sel.index (flat t) (wOfT plan t)) ∧
      (∀ n c p, dictGet sel.index (.q n c) = some p → ∀ t, (flat t).getD p noCell = outCell db plan t (n, c)) := by
  rw [runJoins_eq_nestedJoins] at h
  obtain ⟨flat, hinv⟩ := nestedJoins_tinv db plan [] Sel.empty sel [] _ (tinv_empty db) h
  rw [List.nil_append] at hinv
  exact ⟨flat, hinv.data, fun t ht => ⟨hinv.tlen t ht, hinv.trow t ht⟩, hinv.wit, hinv.qcell⟩

/-- the relation names of a plan that ran are distinct (so `wOfT` picks the row of the one relation of
that name) -/
theorem runJoins_nodup (db : DB) (plan : List (String × List String)) (sel : Sel)
    (h : runJoins db Sel.empty plan = .ok sel) : (plan.map (·.1)).Nodup := by
  rw [runJoins_eq_nestedJoins] at h
  obtain ⟨flat, hinv⟩ := nestedJoins_tinv db plan [] Sel.empty sel [] _ (tinv_empty db) h
  rw [List.nil_append] at hinv
  exact hinv.nodup

/-- the projection of a flattened tuple is `outCell` of the requested columns -/
theorem proj_outCell (db : DB) (plan : List (String × List String)) (ix : List (Key × Nat))
    (row : List Cell) (t : List (List Cell))
    (H : ∀ n c p, dictGet ix (.q n c) = some p → row.getD p noCell = outCell db plan t (n, c)) :
    (proj : List QName) → (pidx : List Nat) →
    proj.mapM (fun q => dictGet ix (.q q.1 q.2)) = some pidx →
    pick pidx row = proj.map (outCell db plan t)
  | [], pidx, h => by
    simp at h; subst h; simp [pick]
  | q :: proj, pidx, h => by
    rw [List.mapM_cons] at h
    cases hq : dictGet ix (.q q.1 q.2) with
    | none => simp [hq] at h
    | some i =>
      cases hl : proj.mapM (fun q => dictGet ix (.q q.1 q.2)) with
      | none => simp [hq, hl] at h
      | some is =>
        simp [hq, hl] at h
        subst h
        have ih := proj_outCell db plan ix row t H proj is hl
        simp only [pick, List.map_cons] at ih ⊢
        rw [ih, H q.1 q.2 i hq]

/-- completeness, multiplicity and order, index-free and with the projected cells explicit: the answer
of `select` is the list of joined tuples that satisfy the condition (evaluated on the tuple's own rows),
each mapped to the raw text of `outCell` of the requested columns; and those cells carry the cast values
of the requested columns in the tuple's own rows -/
theorem select_complete_cells (rx : List Char → List Char → Bool) (db : DB) (q : Query) (res : Result)
    (h : select rx db q = .ok res) :
    ∃ proj cond plan, resolveProj db q = .ok proj ∧ resolveQCond db q = .ok cond ∧
      planJoins db proj (condFieldsOpt cond) q.rels = .ok plan ∧
      (plan.joins.map (·.1)).Nodup ∧
      res.rows = (((joinTuples db [] [] plan.joins).filter
          (fun t => match cond with | none => true | some c => evalW rx db (wOfT plan.joins t) c)).map
          (fun t => proj.map (fun qn => (outCell db plan.joins t qn).raw))) ∧
      (∀ t ∈ joinTuples db [] [] plan.joins, t.length = plan.joins.length ∧
         ∀ i (hi : i < plan.joins.length), ∃ rel, db.rel? (plan.joins[i]).1 = some rel ∧ t.getD i [] ∈ rel.rows) ∧
      ∀ t ∈ joinTuples db [] [] plan.joins,
        CellsOf db (wOfT plan.joins t) proj (proj.map (outCell db plan.joins t)) := by
  obtain ⟨proj, cond, plan, sel, rows, _, hproj, hcond, hplan, hsel, hrows, hres⟩ := select_inv h
  refine ⟨proj, cond, plan, hproj, hcond, hplan, runJoins_nodup db plan.joins sel hsel, ?_⟩
  obtain ⟨flat, hdata, hrowsT, hwit, hq⟩ := runJoins_tuples db plan.joins sel hsel
  rw [hres]
  simp only
  unfold finish at hrows
  split at hrows
  · cases hrows
  · rename_i pidx hp
    have hout : ∀ t, pick pidx (flat t) = proj.map (outCell db plan.joins t) := fun t =>
      proj_outCell db plan.joins sel.index (flat t) t (fun n c p hp' => hq n c p hp' t) proj pidx hp
    refine ⟨?_, hrowsT, fun t ht => by
      rw [← hout t]; exact proj_witnessed db sel.index (flat t) _ (hwit t ht) proj pidx hp⟩
    have hmap : (fun t => proj.map (fun qn => (outCell db plan.joins t qn).raw))
        = (fun row => (pick pidx row).map (·.raw)) ∘ flat := by
      funext t
      simp only [Function.comp, hout t, List.map_map]
      rfl
    rw [hmap]
    cases cond with
    | none =>
      simp only at hrows
      cases hrows
      have hfil : (joinTuples db [] [] plan.joins).filter (fun _ => true) = joinTuples db [] [] plan.joins :=
        List.filter_eq_self.mpr (fun _ _ => rfl)
      rw [hfil, hdata, List.map_map]
    | some c =>
      simp only at hrows
      split at hrows
      · cases hrows
      · rename_i ci hci
        cases hrows
        rw [hdata, List.filter_map, List.map_map]
        have hfil : (joinTuples db [] [] plan.joins).filter ((fun row => evalCond rx row ci) ∘ flat)
            = (joinTuples db [] [] plan.joins).filter (fun t => evalW rx db (wOfT plan.joins t) c) :=
          List.filter_congr (fun t ht => evalCond_evalW rx db sel.index (flat t) _ (hwit t ht) c ci hci)
        rw [hfil]

/-- completeness, multiplicity and order, index-free (the form with the projected cells left abstract) -/
theorem select_complete_aux (rx : List Char → List Char → Bool) (db : DB) (q : Query) (res : Result)
    (h : select rx db q = .ok res) :
    ∃ proj cond plan, resolveProj db q = .ok proj ∧ resolveQCond db q = .ok cond ∧
      planJoins db proj (condFieldsOpt cond) q.rels = .ok plan ∧
      ∃ out : List (List Cell) → List Cell,
        res.rows = (((joinTuples db [] [] plan.joins).filter
            (fun t => match cond with | none => true | some c => evalW rx db (wOfT plan.joins t) c)).map
            (fun t => (out t).map (·.raw))) ∧
        ∀ t ∈ joinTuples db [] [] plan.joins, CellsOf db (wOfT plan.joins t) proj (out t) := by
  obtain ⟨proj, cond, plan, hproj, hcond, hplan, _, hrows, _, hcells⟩ := select_complete_cells rx db q res h
  refine ⟨proj, cond, plan, hproj, hcond, hplan, fun t => proj.map (outCell db plan.joins t), ?_, hcells⟩
  rw [hrows]
  apply List.map_congr_left
  intro t _
  simp only [List.map_map]
  rfl

/-! ## the joined tuples, characterised (no model, no index) -/

theorem reqKey_spec (db : DB) (j : String × List String) (k : String) :
    reqKey db j k = true ↔
      k ∈ j.2 ∧ ∃ rel f, db.rel? j.1 = some rel ∧ rel.field? k = some f ∧ f ∈ rel.fields ∧ f.name = k ∧
        f.isKey = true := by
  cases hrel : db.rel? j.1 with
  | none => simp [reqKey, hrel]
  | some rel =>
    rw [reqKey_iff db j rel hrel k]
    constructor
    · rintro ⟨h1, f, h2, h3⟩
      exact ⟨h1, rel, f, rfl, h2, field?_mem rel k f h2, field?_name rel k f h2, h3⟩
    · rintro ⟨h1, rel', f, e, h2, _, _, h3⟩
      cases e
      exact ⟨h1, f, h2, h3⟩

/-- (a) joins compare key columns with key columns only: a join column of the new relation is a
requested KEY field of it, and the relation it is compared with (`firstWith`) requests it as a KEY
field too -/
theorem onT_keys (db : DB) (prev : List (String × List String)) (rel : Rel) (cols : List String) (k : String)
    (h : k ∈ onT db prev rel cols) :
    k ∈ cols ∧ (∃ f, rel.field? k = some f ∧ f ∈ rel.fields ∧ f.name = k ∧ f.isKey = true) ∧
    ∃ i, firstWith db prev k = some i ∧ ∃ hi : i < prev.length, reqKey db (prev[i]) k = true := by
  unfold onT at h
  obtain ⟨f, hf, hname⟩ := List.mem_map.mp h
  obtain ⟨hfm, hp⟩ := List.mem_filter.mp hf
  obtain ⟨c, hc, hcf⟩ := List.mem_filterMap.mp hfm
  simp only [Bool.and_eq_true] at hp
  have hck : c = k := by rw [← field?_name rel c f hcf]; exact hname
  subst hck
  refine ⟨hc, ⟨f, hcf, field?_mem rel c f hcf, hname, hp.1⟩, ?_⟩
  rw [hname] at hp
  cases hfw : firstWith db prev c with
  | none => rw [hfw] at hp; simp at hp
  | some i =>
    refine ⟨i, rfl, ?_⟩
    unfold firstWith at hfw
    rw [List.findIdx?_eq_some_iff_getElem] at hfw
    exact ⟨hfw.1, hfw.2.1⟩

/-- `t` holds one stored row of each planned relation -/
def RowsOf (db : DB) (plan : List (String × List String)) (t : List (List Cell)) : Prop :=
  t.length = plan.length ∧
  ∀ i (hi : i < plan.length), ∃ rel, db.rel? (plan[i]).1 = some rel ∧ t.getD i [] ∈ rel.rows

/-- the natural-join condition on key columns, pairwise: any two planned relations that both request `k`
as a KEY column carry the same cast value in it -/
def KeyAgree (db : DB) (plan : List (String × List String)) (t : List (List Cell)) : Prop :=
  ∀ i j k (hi : i < plan.length) (hj : j < plan.length), reqKey db (plan[i]) k = true →
    reqKey db (plan[j]) k = true → (cellT db plan t i k).val = (cellT db plan t j k).val

/-- every key column agrees with the first holder of that key -/
def Anchored (db : DB) (prev : List (String × List String)) (t : List (List Cell)) : Prop :=
  ∀ i k (hi : i < prev.length), reqKey db (prev[i]) k = true →
    ∃ i0, firstWith db prev k = some i0 ∧ (cellT db prev t i k).val = (cellT db prev t i0 k).val

theorem cellT_append_left (db : DB) (prev suf : List (String × List String))
    (t : List (List Cell)) (i : Nat) (k : String) (h : i < prev.length) :
    cellT db (prev ++ suf) t i k = cellT db prev (t.take prev.length) i k := by
  unfold cellT
  rw [List.getElem?_append_left h, getD_take t prev.length i h]

theorem cellT_at (db : DB) (prev js : List (String × List String)) (j : String × List String) (rel : Rel)
    (hrel : db.rel? j.1 = some rel) (t : List (List Cell)) (k : String) :
    cellT db (prev ++ j :: js) t prev.length k = cellOf rel (t.getD prev.length []) k := by
  unfold cellT
  simp [hrel]

theorem firstWith_unique_isSome (db : DB) (prev : List (String × List String)) (k : String) (i : Nat)
    (hi : i < prev.length) (h : reqKey db (prev[i]) k = true) : (firstWith db prev k).isSome = true := by
  unfold firstWith
  rw [List.findIdx?_isSome]
  exact List.any_eq_true.mpr ⟨prev[i], List.getElem_mem hi, h⟩

theorem agreesT_spec (db : DB) (prev : List (String × List String)) (t : List (List Cell)) (rel : Rel)
    (cols : List String) (r : List Cell) :
    agreesT db prev t rel cols r = true ↔
      ∀ k ∈ onT db prev rel cols, ∀ i, firstWith db prev k = some i →
        (cellT db prev t i k).val = (cellOf rel r k).val := by
  unfold agreesT
  rw [List.all_eq_true]
  constructor
  · intro h k hk i hi
    have := h k hk
    rw [hi] at this
    simpa using this
  · intro h k hk
    obtain ⟨_, _, i, hi, _⟩ := onT_keys db prev rel cols k hk
    rw [hi]
    simpa using h k hk i hi

/-- extending a tuple by a row that joins it keeps the two invariants -/
theorem extend_inv (db : DB) (prev : List (String × List String)) (t : List (List Cell))
    (j : String × List String) (rel : Rel) (hrel : db.rel? j.1 = some rel) (r : List Cell)
    (hrows : RowsOf db prev t) (hanc : Anchored db prev t) (hr : r ∈ rel.rows)
    (hag : agreesT db prev t rel j.2 r = true) :
    RowsOf db (prev ++ [j]) (t ++ [r]) ∧ Anchored db (prev ++ [j]) (t ++ [r]) := by
  obtain ⟨hl, hrow⟩ := hrows
  have htake : (t ++ [r]).take prev.length = t := by rw [← hl]; simp
  have hlast : (t ++ [r]).getD prev.length [] = r := by
    rw [← hl]; simp [List.getD_eq_getElem?_getD]
  constructor
  · refine ⟨by simp [hl], ?_⟩
    intro i hi
    by_cases h : i < prev.length
    · rw [List.getElem_append_left h]
      obtain ⟨rel', h1, h2⟩ := hrow i h
      refine ⟨rel', h1, ?_⟩
      rw [List.getD_eq_getElem?_getD, List.getElem?_append_left (hl ▸ h), ← List.getD_eq_getElem?_getD]
      exact h2
    · have hi' : i = prev.length := by simp at hi; omega
      subst hi'
      refine ⟨rel, by simp [hrel], ?_⟩
      rw [hlast]; exact hr
  · intro i k hi hreq
    by_cases h : i < prev.length
    · rw [List.getElem_append_left h] at hreq
      obtain ⟨i0, h0, hv⟩ := hanc i k h hreq
      refine ⟨i0, firstWith_append_some db prev j k i0 h0, ?_⟩
      rw [cellT_append db prev j _ i k h, cellT_append db prev j _ i0 k (firstWith_lt db prev k i0 h0), htake]
      exact hv
    · have hi' : i = prev.length := by simp at hi; omega
      subst hi'
      have hreq' : reqKey db j k = true := by simpa using hreq
      cases h0 : firstWith db prev k with
      | none =>
        refine ⟨prev.length, ?_, rfl⟩
        rw [firstWith_append_none db prev j k h0, if_pos hreq']
      | some i0 =>
        refine ⟨i0, firstWith_append_some db prev j k i0 h0, ?_⟩
        obtain ⟨hc, f, hf, hfk⟩ := (reqKey_iff db j rel hrel k).mp hreq'
        have hon : k ∈ onT db prev rel j.2 := by
          unfold onT
          refine List.mem_map.mpr ⟨f, List.mem_filter.mpr ⟨List.mem_filterMap.mpr ⟨k, hc, hf⟩, ?_⟩,
            field?_name rel k f hf⟩
          rw [field?_name rel k f hf, hfk, h0]; rfl
        have := (agreesT_spec db prev t rel j.2 r).mp hag k hon i0 h0
        rw [cellT_last db prev j rel hrel, hlast,
          cellT_append db prev j _ i0 k (firstWith_lt db prev k i0 h0), htake]
        exact this.symm

theorem mem_stepTuples (db : DB) (prev : List (String × List String)) (T : List (List (List Cell)))
    (rel : Rel) (cols : List String) (t' : List (List Cell)) :
    t' ∈ stepTuples db prev T rel cols ↔
      (prev = [] ∧ ∃ r ∈ rel.rows, t' = [] ++ [r]) ∨
      (prev ≠ [] ∧ ∃ t ∈ T, ∃ r ∈ rel.rows, agreesT db prev t rel cols r = true ∧ t' = t ++ [r]) := by
  unfold stepTuples
  cases prev with
  | nil =>
    simp only [List.isEmpty_nil, if_true, List.mem_map, List.nil_append, true_and, ne_eq, not_true_eq_false,
      false_and, or_false]
    constructor
    · rintro ⟨r, hr, e⟩; exact ⟨r, hr, e.symm⟩
    · rintro ⟨r, hr, e⟩; exact ⟨r, hr, e.symm⟩
  | cons a b =>
    simp only [List.isEmpty_cons, Bool.false_eq_true, if_false, List.mem_flatMap, List.mem_map,
      List.mem_filter, reduceCtorEq, false_and, ne_eq, not_false_eq_true, true_and, false_or]
    constructor
    · rintro ⟨t, ht, r, ⟨hr, hag⟩, e⟩; exact ⟨t, ht, r, hr, hag, e.symm⟩
    · rintro ⟨t, ht, r, hr, hag, e⟩; exact ⟨t, ht, r, ⟨hr, hag⟩, e.symm⟩

theorem agreesT_nil (db : DB) (t : List (List Cell)) (rel : Rel) (cols : List String) (r : List Cell) :
    agreesT db [] t rel cols r = true := by
  simp [agreesT, onT_nil]

theorem joinTuples_inv (db : DB) : ∀ (js prev : List (String × List String)) (T : List (List (List Cell))),
    (∀ t ∈ T, RowsOf db prev t ∧ Anchored db prev t) →
    ∀ t ∈ joinTuples db prev T js, RowsOf db (prev ++ js) t ∧ Anchored db (prev ++ js) t := by
  intro js
  induction js with
  | nil => intro prev T h t ht; simpa [joinTuples] using h t (by simpa [joinTuples] using ht)
  | cons j js ih =>
    intro prev T h t ht
    simp only [joinTuples] at ht
    cases hrel : db.rel? j.1 with
    | none => rw [hrel] at ht; simp at ht
    | some rel =>
      rw [hrel] at ht
      simp only at ht
      have := ih (prev ++ [j]) (stepTuples db prev T rel j.2) ?_ t ht
      · simpa using this
      · intro t' ht'
        rcases (mem_stepTuples db prev T rel j.2 t').mp ht' with ⟨hp, r, hr, e⟩ | ⟨_, t0, ht0, r, hr, hag, e⟩
        · subst hp; subst e
          exact extend_inv db [] [] j rel hrel r ⟨rfl, by simp⟩ (by intro i k hi; simp at hi) hr
            (agreesT_nil db [] rel j.2 r)
        · subst e
          exact extend_inv db prev t0 j rel hrel r (h t0 ht0).1 (h t0 ht0).2 hr hag

theorem anchored_keyAgree (db : DB) (plan : List (String × List String)) (t : List (List Cell))
    (h : Anchored db plan t) : KeyAgree db plan t := by
  intro i j k hi hj h1 h2
  obtain ⟨a, ha, hva⟩ := h i k hi h1
  obtain ⟨b, hb, hvb⟩ := h j k hj h2
  rw [ha] at hb
  cases hb
  rw [hva, hvb]

/-- (b) every joined tuple holds one stored row of each planned relation, and any two planned relations
that both request `k` as a KEY column carry the same cast value in `k` -/
theorem joinTuples_key_agree (db : DB) (plan : List (String × List String)) (t : List (List Cell))
    (ht : t ∈ joinTuples db [] [] plan) : RowsOf db plan t ∧ KeyAgree db plan t := by
  have := joinTuples_inv db plan [] [] (by simp) t ht
  simp only [List.nil_append] at this
  exact ⟨this.1, anchored_keyAgree db plan t this.2⟩

/-- (c) the converse, with the accumulators of `joinTuples` general -/
theorem mem_joinTuples_of (db : DB) : ∀ (js prev : List (String × List String)) (T : List (List (List Cell)))
    (t : List (List Cell)), RowsOf db (prev ++ js) t → KeyAgree db (prev ++ js) t →
    ((prev = [] ∧ js ≠ []) ∨ t.take prev.length ∈ T) → t ∈ joinTuples db prev T js := by
  intro js
  induction js with
  | nil =>
    intro prev T t hrows _ h
    rcases h with ⟨_, h⟩ | h
    · exact absurd rfl h
    · have : t.take prev.length = t := by
        apply List.take_of_length_le
        have := hrows.1
        simp at this
        omega
      rw [this] at h
      simpa [joinTuples] using h
  | cons j js ih =>
    intro prev T t hrows hagree h
    have hn : prev.length < (prev ++ j :: js).length := by simp
    obtain ⟨rel, hrel, hr⟩ := hrows.2 prev.length hn
    have hjn : (prev ++ j :: js)[prev.length] = j := by simp
    rw [hjn] at hrel
    simp only [joinTuples, hrel]
    have hlen : prev.length < t.length := by rw [hrows.1]; exact hn
    have htake : t.take (prev.length + 1) = t.take prev.length ++ [t.getD prev.length []] := by
      rw [List.take_add_one, List.getD_eq_getElem?_getD, List.getElem?_eq_getElem hlen]
      rfl
    have hassoc : prev ++ j :: js = (prev ++ [j]) ++ js := by simp
    apply ih (prev ++ [j]) _ t (hassoc ▸ hrows) (hassoc ▸ hagree)
    right
    rw [List.length_append, List.length_singleton, htake]
    apply (mem_stepTuples db prev T rel j.2 _).mpr
    by_cases hpne : prev = []
    · left
      subst hpne
      exact ⟨rfl, _, hr, by simp⟩
    · right
      have h : t.take prev.length ∈ T := by
        rcases h with ⟨hp', _⟩ | h
        · exact absurd hp' hpne
        · exact h
      refine ⟨hpne, t.take prev.length, h, _, hr, ?_, rfl⟩
      rw [agreesT_spec]
      intro k hk i0 h0
      obtain ⟨hc, ⟨f, hf, _, _, hfk⟩, _⟩ := onT_keys db prev rel j.2 k hk
      have hi0 := firstWith_lt db prev k i0 h0
      have hreq0 : reqKey db (prev[i0]) k = true := by
        unfold firstWith at h0
        rw [List.findIdx?_eq_some_iff_getElem] at h0
        exact h0.2.1
      have hreqn : reqKey db j k = true := (reqKey_iff db j rel hrel k).mpr ⟨hc, f, hf, hfk⟩
      have := hagree i0 prev.length k (by simp; omega) hn
        (by rw [List.getElem_append_left hi0]; exact hreq0) (by rw [hjn]; exact hreqn)
      rw [cellT_append_left db prev (j :: js) t i0 k hi0, cellT_at db prev js j rel hrel] at this
      exact this

/-- (c) membership in the joined tuples, characterised: one stored row per planned relation, agreeing
pairwise on shared key columns -/
theorem mem_joinTuples_iff (db : DB) (plan : List (String × List String)) (hne : plan ≠ [])
    (t : List (List Cell)) :
    t ∈ joinTuples db [] [] plan ↔ RowsOf db plan t ∧ KeyAgree db plan t := by
  constructor
  · exact joinTuples_key_agree db plan t
  · rintro ⟨h1, h2⟩
    exact mem_joinTuples_of db plan [] [] t (by simpa using h1) (by simpa using h2) (Or.inl ⟨rfl, hne⟩)

/-! ## non-vacuity: order and multiplicity on a tiny database -/

namespace TupleExample

def item1 : List Cell := [⟨some ['1'], .int 1⟩, ⟨some ['a'], .str ['a']⟩]
def item2 : List Cell := [⟨some ['2'], .int 2⟩, ⟨some ['b'], .str ['b']⟩]
def parse10 : List Cell := [⟨some ['1', '0'], .int 10⟩, ⟨some ['2'], .int 2⟩]
def parse11 : List Cell := [⟨some ['1', '1'], .int 11⟩, ⟨some ['1'], .int 1⟩]
def parse12 : List Cell := [⟨some ['1', '2'], .int 12⟩, ⟨some ['3'], .int 3⟩]
def parse13 : List Cell := [⟨some ['1', '3'], .int 13⟩, ⟨some ['1'], .int 1⟩]

def db : DB :=
  [{ name := "item", fields := [⟨"i-id", .integer, true⟩, ⟨"i-input", .string, false⟩], rows := [item1, item2] },
   { name := "parse", fields := [⟨"parse-id", .integer, true⟩, ⟨"i-id", .integer, true⟩],
     rows := [parse10, parse11, parse12, parse13] }]

def plan : List (String × List String) := [("item", ["i-id", "i-input"]), ("parse", ["parse-id", "i-id"])]

/-- item 1 is matched twice (multiplicity), item 2 once, `parse12` is dangling; the first relation is
the outer loop (item 1's tuples come first although `parse10` is stored first) -/
example : joinTuples db [] [] plan = [[item1, parse11], [item1, parse13], [item2, parse10]] := by decide

/-- the model's joined rows are these tuples flattened ("shared keys once": `parse.i-id` is not copied) -/
example : (runJoins db Sel.empty plan).toOption.map (·.data)
    = some [item1 ++ [⟨some ['1', '1'], .int 11⟩], item1 ++ [⟨some ['1', '3'], .int 13⟩],
            item2 ++ [⟨some ['1', '0'], .int 10⟩]] := by decide

/-- `parse.i-id` is read from the item row of the tuple, `parse.parse-id` from the parse row -/
example : [("parse", "i-id"), ("parse", "parse-id"), ("item", "i-input")].map (outCell db plan [item1, parse13])
    = [⟨some ['1'], .int 1⟩, ⟨some ['1', '3'], .int 13⟩, ⟨some ['a'], .str ['a']⟩] := by decide

example : srcT db plan "parse" "i-id" = some 0 ∧ srcT db plan "parse" "parse-id" = some 1 := by decide

end TupleExample

end Verif.C11
