/-
C11 — definitions used only by the property statements (printer, normal form, leaves,
specification joins) and the helper lemmas.  Core Lean only.
-/
import Verif.C11.Model

namespace Verif.C11

/-! ## hash join = nested loops -/

theorem lookupD_groupAdd {κ ρ} [DecidableEq κ] (d : List (κ × List ρ)) (k : κ) (v : ρ) (k' : κ) :
    lookupD (groupAdd d k v) k' = if k = k' then lookupD d k' ++ [v] else lookupD d k' := by
  induction d with
  | nil => simp [groupAdd, lookupD]
  | cons p rest ih =>
    obtain ⟨k0, vs⟩ := p
    by_cases h0 : k0 = k
    · subst h0
      by_cases h1 : k0 = k' <;> simp [groupAdd, lookupD, h1]
    · by_cases h1 : k = k'
      · subst h1
        simp [groupAdd, lookupD, h0, ih]
      · by_cases h2 : k0 = k'
        · subst h2; simp [groupAdd, lookupD, h0]; exact h1
        · simp [groupAdd, lookupD, h0, h1, h2, ih]

theorem lookupD_group {κ β} [DecidableEq κ] (R : List β) (kr : β → κ) (d0 : List (κ × List β)) (k : κ) :
    lookupD (R.foldl (fun d r => groupAdd d (kr r) r) d0) k
      = lookupD d0 k ++ R.filter (fun r => kr r = k) := by
  induction R generalizing d0 with
  | nil => simp
  | cons r R ih =>
    simp only [List.foldl_cons, ih, lookupD_groupAdd]
    by_cases h : kr r = k <;> simp [h]

theorem hashJoin_eq_nested_aux {α β γ κ} [DecidableEq κ] (L : List α) (R : List β) (kl : α → κ) (kr : β → κ)
    (out : α → β → γ) :
    hashJoin L R kl kr out
      = L.flatMap (fun l => (R.filter (fun r => kr r = kl l)).map (out l)) := by
  simp only [hashJoin, lookupD_group]
  simp [lookupD]

/-! ## type check of conditions -/

mutual
def leaves {κ} : Cond κ → List (Op × κ × Lit)
  | .leaf op c l => [(op, c, l)]
  | .not c => leaves c
  | .and cs => leavesList cs
  | .or cs => leavesList cs
def leavesList {κ} : List (Cond κ) → List (Op × κ × Lit)
  | [] => []
  | c :: cs => leaves c ++ leavesList cs
end

mutual
theorem resolveCond_ok_leaves (res : ColRef → Except Err (QName × Field)) :
    (c : Cond ColRef) → (c' : Cond QName) → resolveCond res c = .ok c' →
    ∀ lf ∈ leaves c, ∃ qn f, res lf.2.1 = .ok (qn, f) ∧ litType lf.2.2 = some f.dtype
  | .leaf op col l, c', h => by
    intro lf hlf
    simp only [leaves, List.mem_singleton] at hlf
    subst hlf
    simp only [resolveCond] at h
    split at h
    · cases h
    · rename_i q f hres
      split at h
      · exact ⟨q, f, hres, by assumption⟩
      · cases h
  | .not c, c', h => by
    simp only [resolveCond] at h
    split at h
    · cases h
    · rename_i c'' hc
      simpa only [leaves] using resolveCond_ok_leaves res c c'' hc
  | .and cs, c', h => by
    simp only [resolveCond] at h
    split at h
    · cases h
    · rename_i cs' hc
      simpa only [leaves] using resolveConds_ok_leaves res cs cs' hc
  | .or cs, c', h => by
    simp only [resolveCond] at h
    split at h
    · cases h
    · rename_i cs' hc
      simpa only [leaves] using resolveConds_ok_leaves res cs cs' hc
theorem resolveConds_ok_leaves (res : ColRef → Except Err (QName × Field)) :
    (cs : List (Cond ColRef)) → (cs' : List (Cond QName)) → resolveConds res cs = .ok cs' →
    ∀ lf ∈ leavesList cs, ∃ qn f, res lf.2.1 = .ok (qn, f) ∧ litType lf.2.2 = some f.dtype
  | [], _, _ => by intro lf hlf; simp [leavesList] at hlf
  | c :: cs, cs', h => by
    simp only [resolveConds] at h
    split at h
    · cases h
    · rename_i c'' hc
      split at h
      · cases h
      · rename_i cs'' hcs
        intro lf hlf
        simp only [leavesList, List.mem_append] at hlf
        rcases hlf with hlf | hlf
        · exact resolveCond_ok_leaves res c c'' hc lf hlf
        · exact resolveConds_ok_leaves res cs cs'' hcs lf hlf
end

theorem select_ok_resolveQCond {rx db q r} (h : select rx db q = .ok r) :
    ∃ c, resolveQCond db q = .ok c := by
  unfold select at h
  split at h
  · cases h
  · split at h
    · cases h
    · split at h
      · cases h
      · rename_i c hc
        exact ⟨c, hc⟩

theorem typeMismatch_rejected_aux (rx : List Char → List Char → Bool) (db : DB) (q : Query) (r : Result)
    (h : select rx db q = .ok r) (c : Cond ColRef) (hc : q.cond = some c) :
    ∀ lf ∈ leaves c, ∃ qn f, resolve db q.rels lf.2.1 = .ok (qn, f) ∧ litType lf.2.2 = some f.dtype := by
  obtain ⟨c', hc'⟩ := select_ok_resolveQCond h
  unfold resolveQCond at hc'
  rw [hc] at hc'
  simp only at hc'
  split at hc'
  · cases hc'
  · rename_i c'' hres
    exact resolveCond_ok_leaves _ c c'' hres

/-! ## printing and parsing conditions -/

def opTok : Op → Tok
  | .eq => .op .eq2 | .ne => .op .ne | .lt => .op .lt | .le => .op .le
  | .gt => .op .gt | .ge => .op .ge | .re => .op .re | .nre => .op .nre

def litTok : Lit → Tok
  | .int i => .int i
  | .str s => .str s
  | .date k => .date k

def colTok (c : ColRef) : Tok := if c.rel = "" then .id c.col else .qid c.rel c.col

mutual
/-- printer: level 0 = disjunction position, 1 = conjunction position, 2 = atom position -/
def pr : Nat → Cond ColRef → List Tok
  | _, .leaf op c l => [colTok c, opTok op, litTok l]
  | lvl, .or cs => if lvl = 0 then prList .or_ 1 cs else .lparen :: prList .or_ 1 cs ++ [.rparen]
  | lvl, .and cs => if lvl ≤ 1 then prList .and_ 2 cs else .lparen :: prList .and_ 2 cs ++ [.rparen]
  | _, .not c => .lparen :: .not_ :: pr 0 c ++ [.rparen]
def prList : Tok → Nat → List (Cond ColRef) → List Tok
  | _, _, [] => []
  | sep, lvl, c :: cs => pr lvl c ++ (match cs with | [] => [] | _ :: _ => sep :: prList sep lvl cs)
end

mutual
def nf : Cond ColRef → Bool
  | .leaf op _ l => litAllowed op l
  | .not c => nf c
  | .and cs => decide (2 ≤ cs.length) && nfList cs
  | .or cs => decide (2 ≤ cs.length) && nfList cs
def nfList : List (Cond ColRef) → Bool
  | [] => true
  | c :: cs => nf c && nfList cs
end

def conjuncts : Cond ColRef → List (Cond ColRef)
  | .and cs => cs
  | t => [t]

def disjuncts : Cond ColRef → List (Cond ColRef)
  | .or cs => cs
  | t => [t]

def NoAnd (ts : List Tok) : Prop := ts.head? ≠ some .and_
def NoOr (ts : List Tok) : Prop := ts.head? ≠ some .or_

def AtomOK (t : Cond ColRef) : Prop :=
  ∃ n0, ∀ n, n0 ≤ n → ∀ rest, parseAtom n (pr 2 t ++ rest) = .ok (t, rest)
def ConjOK (t : Cond ColRef) : Prop :=
  ∃ n0, ∀ n, n0 ≤ n → ∀ rest, NoAnd rest → parseConjList n (pr 1 t ++ rest) = .ok (conjuncts t, rest)
def DisjOK (t : Cond ColRef) : Prop :=
  ∃ n0, ∀ n, n0 ≤ n → ∀ rest, NoAnd rest → NoOr rest → parseDisjList n (pr 0 t ++ rest) = .ok (disjuncts t, rest)

theorem tokLit_litTok (l : Lit) : tokLit (litTok l) = some l := by cases l <;> rfl

theorem norm_opTok (op : Op) : ∃ o, opTok op = .op o ∧ o.norm = op := by
  cases op <;> exact ⟨_, rfl, rfl⟩

theorem parseStmt_print (c : ColRef) (op : Op) (l : Lit) (h : litAllowed op l = true) (rest : List Tok) :
    parseStmt c (opTok op :: litTok l :: rest) = .ok (.leaf op c l, rest) := by
  obtain ⟨o, ho, hn⟩ := norm_opTok op
  rw [ho]
  simp [parseStmt, tokLit_litTok, hn, h]

theorem leafOK (op : Op) (c : ColRef) (l : Lit) (h : litAllowed op l = true) : AtomOK (.leaf op c l) := by
  refine ⟨1, fun n hn rest => ?_⟩
  obtain ⟨m, rfl⟩ : ∃ m, n = m + 1 := ⟨n - 1, by omega⟩
  simp only [pr, List.cons_append, List.nil_append]
  unfold colTok
  split
  · rename_i hrel
    have : c = ⟨"", c.col⟩ := by cases c; simp_all
    rw [parseAtom, parseStmt_print _ _ _ h, ← this]
  · rw [parseAtom, parseStmt_print _ _ _ h]



theorem prList_cons_cons (sep : Tok) (lvl : Nat) (c c' : Cond ColRef) (cs : List (Cond ColRef)) :
    prList sep lvl (c :: c' :: cs) = pr lvl c ++ sep :: prList sep lvl (c' :: cs) := by
  rw [prList]

theorem prList_single (sep : Tok) (lvl : Nat) (c : Cond ColRef) : prList sep lvl [c] = pr lvl c := by
  rw [prList]; simp

/-- atoms joined by AND parse back to the list of atoms -/
theorem conjList_ok : (cs : List (Cond ColRef)) → cs ≠ [] → (∀ c ∈ cs, AtomOK c) →
    ∃ n0, ∀ n, n0 ≤ n → ∀ rest, NoAnd rest →
      parseConjList n (prList .and_ 2 cs ++ rest) = .ok (cs, rest)
  | [], h, _ => absurd rfl h
  | [c], _, hall => by
    obtain ⟨n0, hc⟩ := hall c (by simp)
    refine ⟨n0 + 1, fun n hn rest hrest => ?_⟩
    obtain ⟨m, rfl⟩ : ∃ m, n = m + 1 := ⟨n - 1, by omega⟩
    rw [prList_single, parseConjList, hc m (by omega)]
    simp only
    split
    · exact absurd rfl hrest
    · rfl
  | c :: c' :: cs, _, hall => by
    obtain ⟨n0, hc⟩ := hall c (by simp)
    obtain ⟨n1, hcs⟩ := conjList_ok (c' :: cs) (by simp) (fun x hx => hall x (by simp [hx]))
    refine ⟨n0 + n1 + 1, fun n hn rest hrest => ?_⟩
    obtain ⟨m, rfl⟩ : ∃ m, n = m + 1 := ⟨n - 1, by omega⟩
    rw [prList_cons_cons, List.append_assoc, List.cons_append, parseConjList, hc m (by omega)]
    simp only
    rw [hcs m (by omega) rest hrest]

theorem mkJunction_conjuncts (t : Cond ColRef) (h : nf t = true) : mkJunction true (conjuncts t) = t := by
  cases t with
  | leaf op c l => rfl
  | not c => rfl
  | or cs => rfl
  | and cs =>
    simp only [nf, Bool.and_eq_true, decide_eq_true_eq] at h
    match cs, h with
    | a :: b :: cs, _ => rfl

theorem mkJunction_disjuncts (t : Cond ColRef) (h : nf t = true) : mkJunction false (disjuncts t) = t := by
  cases t with
  | leaf op c l => rfl
  | not c => rfl
  | and cs => rfl
  | or cs =>
    simp only [nf, Bool.and_eq_true, decide_eq_true_eq] at h
    match cs, h with
    | a :: b :: cs, _ => rfl

/-- conjunctions joined by OR parse back to the list of conjunctions -/
theorem disjList_ok : (cs : List (Cond ColRef)) → cs ≠ [] → (∀ c ∈ cs, ConjOK c ∧ nf c = true) →
    ∃ n0, ∀ n, n0 ≤ n → ∀ rest, NoAnd rest → NoOr rest →
      parseDisjList n (prList .or_ 1 cs ++ rest) = .ok (cs, rest)
  | [], h, _ => absurd rfl h
  | [c], _, hall => by
    obtain ⟨⟨n0, hc⟩, hnf⟩ := hall c (by simp)
    refine ⟨n0 + 1, fun n hn rest hrest hor => ?_⟩
    obtain ⟨m, rfl⟩ : ∃ m, n = m + 1 := ⟨n - 1, by omega⟩
    rw [prList_single, parseDisjList, hc m (by omega) rest hrest]
    simp only [mkJunction_conjuncts c hnf]
    split
    · exact absurd rfl hor
    · rfl
  | c :: c' :: cs, _, hall => by
    obtain ⟨⟨n0, hc⟩, hnf⟩ := hall c (by simp)
    obtain ⟨n1, hcs⟩ := disjList_ok (c' :: cs) (by simp) (fun x hx => hall x (by simp [hx]))
    refine ⟨n0 + n1 + 1, fun n hn rest hrest hor => ?_⟩
    obtain ⟨m, rfl⟩ : ∃ m, n = m + 1 := ⟨n - 1, by omega⟩
    rw [prList_cons_cons, List.append_assoc, List.cons_append, parseDisjList,
      hc m (by omega) _ (by simp [NoAnd])]
    simp only [mkJunction_conjuncts c hnf]
    rw [hcs m (by omega) rest hrest hor]



theorem atom_to_conj (t : Cond ColRef) (h : AtomOK t) (hp : pr 1 t = pr 2 t) (hc : conjuncts t = [t]) :
    ConjOK t := by
  obtain ⟨n0, ht⟩ := h
  refine ⟨n0 + 1, fun n hn rest hrest => ?_⟩
  obtain ⟨m, rfl⟩ : ∃ m, n = m + 1 := ⟨n - 1, by omega⟩
  rw [hp, hc, parseConjList, ht m (by omega)]
  simp only
  split
  · exact absurd rfl hrest
  · rfl

theorem conj_to_disj (t : Cond ColRef) (h : ConjOK t) (hnf : nf t = true) (hp : pr 0 t = pr 1 t)
    (hd : disjuncts t = [t]) : DisjOK t := by
  obtain ⟨n0, ht⟩ := h
  refine ⟨n0 + 1, fun n hn rest hrest hor => ?_⟩
  obtain ⟨m, rfl⟩ : ∃ m, n = m + 1 := ⟨n - 1, by omega⟩
  rw [hp, hd, parseDisjList, ht m (by omega) rest hrest]
  simp only [mkJunction_conjuncts t hnf]
  split
  · exact absurd rfl hor
  · rfl

theorem disj_to_atom_paren (t : Cond ColRef) (h : DisjOK t) (hnf : nf t = true)
    (hp : pr 2 t = .lparen :: pr 0 t ++ [.rparen]) : AtomOK t := by
  obtain ⟨n0, ht⟩ := h
  refine ⟨n0 + 1, fun n hn rest => ?_⟩
  obtain ⟨m, rfl⟩ : ∃ m, n = m + 1 := ⟨n - 1, by omega⟩
  rw [hp]
  simp only [List.cons_append, List.append_assoc, List.nil_append]
  rw [parseAtom, ht m (by omega) _ (by simp [NoAnd]) (by simp [NoOr])]
  simp only [mkJunction_disjuncts t hnf]

theorem not_atom (c : Cond ColRef) (h : DisjOK c) (hnf : nf c = true) : AtomOK (.not c) := by
  obtain ⟨n0, ht⟩ := h
  refine ⟨n0 + 4, fun n hn rest => ?_⟩
  obtain ⟨m, rfl⟩ : ∃ m, n = m + 4 := ⟨n - 4, by omega⟩
  have hpr : pr 2 (.not c) = .lparen :: .not_ :: pr 0 c ++ [.rparen] := by rw [pr]
  rw [hpr]
  simp only [List.cons_append, List.append_assoc, List.nil_append]
  rw [parseAtom, parseDisjList, parseConjList, parseAtom,
    ht m (by omega) _ (by simp [NoAnd]) (by simp [NoOr])]
  simp only [mkJunction_disjuncts c hnf]
  rfl

mutual
theorem allOK : (t : Cond ColRef) → nf t = true → AtomOK t ∧ ConjOK t ∧ DisjOK t
  | .leaf op c l, h => by
    have ha : AtomOK (.leaf op c l) := leafOK op c l (by simpa [nf] using h)
    have hc := atom_to_conj _ ha (by simp [pr]) rfl
    exact ⟨ha, hc, conj_to_disj _ hc h (by simp [pr]) rfl⟩
  | .not c, h => by
    have hnf : nf c = true := by simpa [nf] using h
    have ih := allOK c hnf
    have ha : AtomOK (.not c) := not_atom c ih.2.2 hnf
    have hc := atom_to_conj _ ha (by simp [pr]) rfl
    exact ⟨ha, hc, conj_to_disj _ hc h (by simp [pr]) rfl⟩
  | .and cs, h => by
    have h' : 2 ≤ cs.length ∧ nfList cs = true := by simpa [nf] using h
    have ih := allOKList cs h'.2
    have hne : cs ≠ [] := by intro e; subst e; simp at h'
    have hc : ConjOK (.and cs) := by
      obtain ⟨n0, hl⟩ := conjList_ok cs hne (fun c hc => (ih c hc).1.1)
      exact ⟨n0, fun n hn rest hrest => by simpa [pr, conjuncts] using hl n hn rest hrest⟩
    have hd := conj_to_disj _ hc h (by simp [pr]) rfl
    exact ⟨disj_to_atom_paren _ hd h (by simp [pr]), hc, hd⟩
  | .or cs, h => by
    have h' : 2 ≤ cs.length ∧ nfList cs = true := by simpa [nf] using h
    have ih := allOKList cs h'.2
    have hne : cs ≠ [] := by intro e; subst e; simp at h'
    have hd : DisjOK (.or cs) := by
      obtain ⟨n0, hl⟩ := disjList_ok cs hne (fun c hc => ⟨(ih c hc).1.2.1, (ih c hc).2⟩)
      exact ⟨n0, fun n hn rest hrest hor => by simpa [pr, disjuncts] using hl n hn rest hrest hor⟩
    have ha := disj_to_atom_paren _ hd h (by simp [pr])
    exact ⟨ha, atom_to_conj _ ha (by simp [pr]) rfl, hd⟩
theorem allOKList : (cs : List (Cond ColRef)) → nfList cs = true →
    ∀ c ∈ cs, (AtomOK c ∧ ConjOK c ∧ DisjOK c) ∧ nf c = true
  | [], _ => by intro c hc; simp at hc
  | c :: cs, h => by
    have h' : nf c = true ∧ nfList cs = true := by simpa [nfList] using h
    intro x hx
    rcases List.mem_cons.mp hx with hx | hx
    · rw [hx]; exact ⟨allOK c h'.1, h'.1⟩
    · exact allOKList cs h'.2 x hx
end



def printWheres (ws : List (Cond ColRef)) : List Tok := ws.flatMap (fun w => .where_ :: pr 0 w)

def printProj : Proj → List Tok
  | .star => [.star]
  | .cols cs => cs.map colTok

def printFrom : List String → List Tok
  | [] => []
  | rels => .from_ :: rels.map .id

def printQuery (proj : Proj) (rels : List String) (ws : List (Cond ColRef)) : List Tok :=
  printProj proj ++ (printFrom rels ++ (printWheres ws ++ [.dot]))

def NoWhere (ts : List Tok) : Prop := ts.head? ≠ some .where_

/-- the next token is not a column name -/
def NoName : List Tok → Prop
  | .id _ :: _ => False
  | .qid _ _ :: _ => False
  | _ => True

theorem parseDisj_print (t : Cond ColRef) (h : nf t = true) :
    ∃ n0, ∀ n, n0 ≤ n → ∀ rest, NoAnd rest → NoOr rest → parseDisj n (pr 0 t ++ rest) = .ok (t, rest) := by
  obtain ⟨n0, hd⟩ := (allOK t h).2.2
  refine ⟨n0, fun n hn rest ha ho => ?_⟩
  rw [parseDisj, hd n hn rest ha ho]
  simp only [mkJunction_disjuncts t h]

theorem parseWheres_print : (ws : List (Cond ColRef)) → (∀ w ∈ ws, nf w = true) →
    ∃ n0, ∀ f n, n0 ≤ f → n0 ≤ n → ∀ rest, NoAnd rest → NoOr rest → NoWhere rest →
      parseWheres f n (printWheres ws ++ rest) = .ok (ws, rest)
  | [], _ => by
    refine ⟨1, fun f n _ hn rest _ _ hw => ?_⟩
    obtain ⟨m, rfl⟩ : ∃ m, n = m + 1 := ⟨n - 1, by omega⟩
    simp only [printWheres, List.flatMap_nil, List.nil_append]
    cases rest with
    | nil => simp [parseWheres]
    | cons t ts => cases t <;> first | exact absurd rfl hw | simp [parseWheres]
  | w :: ws, h => by
    obtain ⟨n0, hw⟩ := parseDisj_print w (h w (by simp))
    obtain ⟨n1, hws⟩ := parseWheres_print ws (fun x hx => h x (by simp [hx]))
    refine ⟨n0 + n1 + 1, fun f n hf hn rest ha ho hwh => ?_⟩
    obtain ⟨m, rfl⟩ : ∃ m, n = m + 1 := ⟨n - 1, by omega⟩
    have e : printWheres (w :: ws) ++ rest = .where_ :: (pr 0 w ++ (printWheres ws ++ rest)) := by
      simp [printWheres]
    rw [e, parseWheres]
    have hnext : NoAnd (printWheres ws ++ rest) ∧ NoOr (printWheres ws ++ rest) := by
      cases ws with
      | nil => simpa [printWheres] using And.intro ha ho
      | cons a as => simp [printWheres, NoAnd, NoOr]
    rw [hw f (by omega) _ hnext.1 hnext.2]
    simp only
    rw [hws f m (by omega) (by omega) rest ha ho hwh]

theorem colRef_eta (c : ColRef) (h : c.rel = "") : (⟨"", c.col⟩ : ColRef) = c := by
  cases c; simp_all

theorem takeCols_print : (cs : List ColRef) → (rest : List Tok) → NoName rest →
    takeCols (cs.map colTok ++ rest) = (cs, rest)
  | [], rest, h => by
    simp only [List.map_nil, List.nil_append]
    unfold takeCols
    split
    · exact absurd h (by simp [NoName])
    · exact absurd h (by simp [NoName])
    · rfl
  | c :: cs, rest, h => by
    have ih := takeCols_print cs rest h
    simp only [List.map_cons, List.cons_append]
    by_cases hrel : c.rel = ""
    · have e : colTok c = .id c.col := by simp [colTok, hrel]
      rw [e, takeCols, ih, colRef_eta c hrel]
    · have e : colTok c = .qid c.rel c.col := by simp [colTok, hrel]
      rw [e, takeCols, ih]

theorem takeIds_print : (rs : List String) → (rest : List Tok) → NoName rest →
    takeIds (rs.map Tok.id ++ rest) = (rs, rest)
  | [], rest, h => by
    simp only [List.map_nil, List.nil_append]
    unfold takeIds
    split
    · exact absurd h (by simp [NoName])
    · rfl
  | r :: rs, rest, h => by
    have ih := takeIds_print rs rest h
    simp only [List.map_cons, List.cons_append]
    rw [takeIds, ih]



def ProjOK : Proj → List String → Prop
  | .star, rels => rels ≠ []
  | .cols cs, _ => cs ≠ []

theorem noName_wheres (ws : List (Cond ColRef)) : NoName (printWheres ws ++ [.dot]) := by
  cases ws <;> simp [printWheres, NoName]

theorem noName_from (rels : List String) (ws : List (Cond ColRef)) :
    NoName (printFrom rels ++ (printWheres ws ++ [.dot])) := by
  cases rels with
  | nil => simpa [printFrom] using noName_wheres ws
  | cons r rs => simp [printFrom, NoName]

theorem parseFrom_print (rels : List String) (ws : List (Cond ColRef)) :
    parseFrom (printFrom rels ++ (printWheres ws ++ [.dot])) = .ok (rels, printWheres ws ++ [.dot]) := by
  cases rels with
  | nil =>
    cases ws <;> simp [printFrom, printWheres, parseFrom]
  | cons r rs =>
    simp only [printFrom, List.map_cons, List.cons_append, parseFrom]
    rw [takeIds_print rs _ (noName_wheres ws)]

theorem parseProj_print (proj : Proj) (rels : List String) (hp : ProjOK proj rels) (rest : List Tok)
    (hr : NoName rest) : parseProj (printProj proj ++ rest) = .ok (proj, rest) := by
  cases proj with
  | star => simp [printProj, parseProj]
  | cols cs =>
    cases cs with
    | nil => exact absurd rfl hp
    | cons c cs =>
      simp only [printProj, List.map_cons, List.cons_append]
      by_cases hrel : c.rel = ""
      · have e : colTok c = .id c.col := by simp [colTok, hrel]
        rw [e, parseProj, takeCols_print cs rest hr, colRef_eta c hrel]
      · have e : colTok c = .qid c.rel c.col := by simp [colTok, hrel]
        rw [e, parseProj, takeCols_print cs rest hr]

theorem parseSelect_print_aux (proj : Proj) (rels : List String) (ws : List (Cond ColRef))
    (hp : ProjOK proj rels) (hw : ∀ w ∈ ws, nf w = true) :
    ∃ n0, ∀ n, n0 ≤ n →
      parseSelect n (printQuery proj rels ws) = .ok { proj := proj, rels := rels, cond := whereCond ws } := by
  obtain ⟨n0, hws⟩ := parseWheres_print ws hw
  refine ⟨n0, fun n hn => ?_⟩
  unfold parseSelect printQuery
  rw [parseProj_print proj rels hp _ (noName_from rels ws)]
  simp only
  rw [parseFrom_print]
  simp only
  rw [hws n n hn hn [.dot] (by simp [NoAnd]) (by simp [NoOr]) (by simp [NoWhere])]
  simp only [List.all_nil, Bool.not_true]
  cases proj with
  | star =>
    have : rels ≠ [] := hp
    simp [this]
  | cols cs => simp

end Verif.C11
