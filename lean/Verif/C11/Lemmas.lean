/-
C11 — definitions used only by the property statements (printer, normal form, leaves,
specification joins) and the helper lemmas.  Core Lean only.
-/
import Verif.C11.Model

namespace Verif.C11

/-! ## hash join = nested loops -/

theorem lookupD_groupAdd {κ ρ} [DecidableEq κ] (d : List (κ × List ρ)) (k : κ) (v : ρ) (k' : κ) :
    lookupD (groupAdd d k v) k' = if k = k' then lookupD d k' ++ [v] else lookupD d k' := by
  induction d with
  | nil => simp [groupAdd, lookupD]
  | cons p rest ih =>
    obtain ⟨k0, vs⟩ := p
    by_cases h0 : k0 = k
    · subst h0
      by_cases h1 : k0 = k' <;> simp [groupAdd, lookupD, h1]
    · by_cases h1 : k = k'
      · subst h1
        simp [groupAdd, lookupD, h0, ih]
      · by_cases h2 : k0 = k'
        · subst h2; simp [groupAdd, lookupD, h0]; exact h1
        · simp [groupAdd, lookupD, h0, h1, h2, ih]

theorem lookupD_group {κ β} [DecidableEq κ] (R : List β) (kr : β → κ) (d0 : List (κ × List β)) (k : κ) :
    lookupD (R.foldl (fun d r => groupAdd d (kr r) r) d0) k
      = lookupD d0 k ++ R.filter (fun r => kr r = k) := by
  induction R generalizing d0 with
  | nil => simp
  | cons r R ih =>
    simp only [List.foldl_cons, ih, lookupD_groupAdd]
    by_cases h : kr r = k <;> simp [h]

theorem hashJoin_eq_nested_aux {α β γ κ} [DecidableEq κ] (L : List α) (R : List β) (kl : α → κ) (kr : β → κ)
    (out : α → β → γ) :
    hashJoin L R kl kr out
      = L.flatMap (fun l => (R.filter (fun r => kr r = kl l)).map (out l)) := by
  simp only [hashJoin, lookupD_group]
  simp [lookupD]

/-! ## type check of conditions -/

mutual
def leaves {κ} : Cond κ → List (Op × κ × Lit)
  | .leaf op c l => [(op, c, l)]
  | .not c => leaves c
  | .and cs => leavesList cs
  | .or cs => leavesList cs
def leavesList {κ} : List (Cond κ) → List (Op × κ × Lit)
  | [] => []
  | c :: cs => leaves c ++ leavesList cs
end

mutual
theorem resolveCond_ok_leaves (res : ColRef → Except Err (QName × Field)) :
    (c : Cond ColRef) → (c' : Cond QName) → resolveCond res c = .ok c' →
    ∀ lf ∈ leaves c, ∃ qn f, res lf.2.1 = .ok (qn, f) ∧ litFits f.dtype lf.2.2 = true
  | .leaf op col l, c', h => by
    intro lf hlf
    simp only [leaves, List.mem_singleton] at hlf
    subst hlf
    simp only [resolveCond] at h
    split at h
    · cases h
    · rename_i q f hres
      split at h
      · exact ⟨q, f, hres, by assumption⟩
      · cases h
  | .not c, c', h => by
    simp only [resolveCond] at h
    split at h
    · cases h
    · rename_i c'' hc
      simpa only [leaves] using resolveCond_ok_leaves res c c'' hc
  | .and cs, c', h => by
    simp only [resolveCond] at h
    split at h
    · cases h
    · rename_i cs' hc
      simpa only [leaves] using resolveConds_ok_leaves res cs cs' hc
  | .or cs, c', h => by
    simp only [resolveCond] at h
    split at h
    · cases h
    · rename_i cs' hc
      simpa only [leaves] using resolveConds_ok_leaves res cs cs' hc
theorem resolveConds_ok_leaves (res : ColRef → Except Err (QName × Field)) :
    (cs : List (Cond ColRef)) → (cs' : List (Cond QName)) → resolveConds res cs = .ok cs' →
    ∀ lf ∈ leavesList cs, ∃ qn f, res lf.2.1 = .ok (qn, f) ∧ litFits f.dtype lf.2.2 = true
  | [], _, _ => by intro lf hlf; simp [leavesList] at hlf
  | c :: cs, cs', h => by
    simp only [resolveConds] at h
    split at h
    · cases h
    · rename_i c'' hc
      split at h
      · cases h
      · rename_i cs'' hcs
        intro lf hlf
        simp only [leavesList, List.mem_append] at hlf
        rcases hlf with hlf | hlf
        · exact resolveCond_ok_leaves res c c'' hc lf hlf
        · exact resolveConds_ok_leaves res cs cs'' hcs lf hlf
end

theorem select_ok_resolveQCond {rx db q r} (h : select rx db q = .ok r) :
    ∃ c, resolveQCond db q = .ok c := by
  unfold select at h
  split at h
  · cases h
  · split at h
    · cases h
    · split at h
      · cases h
      · rename_i c hc
        exact ⟨c, hc⟩

theorem typeMismatch_rejected_aux (rx : List Char → List Char → Bool) (db : DB) (q : Query) (r : Result)
    (h : select rx db q = .ok r) (c : Cond ColRef) (hc : q.cond = some c) :
    ∀ lf ∈ leaves c, ∃ qn f, resolve db q.rels lf.2.1 = .ok (qn, f) ∧ litFits f.dtype lf.2.2 = true := by
  obtain ⟨c', hc'⟩ := select_ok_resolveQCond h
  unfold resolveQCond at hc'
  rw [hc] at hc'
  simp only at hc'
  split at hc'
  · cases hc'
  · rename_i c'' hres
    exact resolveCond_ok_leaves _ c c'' hres

/-! ## printing and parsing conditions -/

def opTok : Op → Tok
  | .eq => .op .eq2 | .ne => .op .ne | .lt => .op .lt | .le => .op .le
  | .gt => .op .gt | .ge => .op .ge | .re => .op .re | .nre => .op .nre

def litTok : Lit → Tok
  | .int i => .int i
  | .str s => .str s
  | .date k => .date k

def colTok (c : ColRef) : Tok := if c.rel = "" then .id c.col else .qid c.rel c.col

mutual
/-- printer: level 0 = disjunction position, 1 = conjunction position, 2 = atom position -/
def pr : Nat → Cond ColRef → List Tok
  | _, .leaf op c l => [colTok c, opTok op, litTok l]
  | lvl, .or cs => if lvl = 0 then prList .or_ 1 cs else .lparen :: prList .or_ 1 cs ++ [.rparen]
  | lvl, .and cs => if lvl ≤ 1 then prList .and_ 2 cs else .lparen :: prList .and_ 2 cs ++ [.rparen]
  | _, .not c => .lparen :: .not_ :: pr 0 c ++ [.rparen]
def prList : Tok → Nat → List (Cond ColRef) → List Tok
  | _, _, [] => []
  | sep, lvl, c :: cs => pr lvl c ++ (match cs with | [] => [] | _ :: _ => sep :: prList sep lvl cs)
end

mutual
def nf : Cond ColRef → Bool
  | .leaf op _ l => litAllowed op l
  | .not c => nf c
  | .and cs => decide (2 ≤ cs.length) && nfList cs
  | .or cs => decide (2 ≤ cs.length) && nfList cs
def nfList : List (Cond ColRef) → Bool
  | [] => true
  | c :: cs => nf c && nfList cs
end

def conjuncts : Cond ColRef → List (Cond ColRef)
  | .and cs => cs
  | t => [t]

def disjuncts : Cond ColRef → List (Cond ColRef)
  | .or cs => cs
  | t => [t]

def NoAnd (ts : List Tok) : Prop := ts.head? ≠ some .and_
def NoOr (ts : List Tok) : Prop := ts.head? ≠ some .or_

/-- fuel: three units per printed token are enough (one per level of the
disjunction / conjunction / atom descent) -/
def AtomOK (t : Cond ColRef) : Prop :=
  ∀ n, 3 * (pr 2 t).length ≤ n + 2 → ∀ rest, parseAtom n (pr 2 t ++ rest) = .ok (t, rest)
def ConjOK (t : Cond ColRef) : Prop :=
  ∀ n, 3 * (pr 1 t).length ≤ n + 1 → ∀ rest, NoAnd rest →
    parseConjList n (pr 1 t ++ rest) = .ok (conjuncts t, rest)
def DisjOK (t : Cond ColRef) : Prop :=
  ∀ n, 3 * (pr 0 t).length ≤ n → ∀ rest, NoAnd rest → NoOr rest →
    parseDisjList n (pr 0 t ++ rest) = .ok (disjuncts t, rest)

theorem tokLit_litTok (l : Lit) : tokLit (litTok l) = some l := by cases l <;> rfl

theorem norm_opTok (op : Op) : ∃ o, opTok op = .op o ∧ o.norm = op := by
  cases op <;> exact ⟨_, rfl, rfl⟩

theorem parseStmt_print (c : ColRef) (op : Op) (l : Lit) (h : litAllowed op l = true) (rest : List Tok) :
    parseStmt c (opTok op :: litTok l :: rest) = .ok (.leaf op c l, rest) := by
  obtain ⟨o, ho, hn⟩ := norm_opTok op
  rw [ho]
  simp [parseStmt, tokLit_litTok, hn, h]

theorem leafOK (op : Op) (c : ColRef) (l : Lit) (h : litAllowed op l = true) : AtomOK (.leaf op c l) := by
  intro n hn rest
  obtain ⟨m, rfl⟩ : ∃ m, n = m + 1 := ⟨n - 1, by simp [pr] at hn; omega⟩
  simp only [pr, List.cons_append, List.nil_append]
  unfold colTok
  split
  · rename_i hrel
    have : c = ⟨"", c.col⟩ := by cases c; simp_all
    rw [parseAtom, parseStmt_print _ _ _ h, ← this]
  · rw [parseAtom, parseStmt_print _ _ _ h]

theorem prList_cons_cons (sep : Tok) (lvl : Nat) (c c' : Cond ColRef) (cs : List (Cond ColRef)) :
    prList sep lvl (c :: c' :: cs) = pr lvl c ++ sep :: prList sep lvl (c' :: cs) := by
  rw [prList]

theorem prList_single (sep : Tok) (lvl : Nat) (c : Cond ColRef) : prList sep lvl [c] = pr lvl c := by
  rw [prList]; simp

/-- a normal-form tree prints to at least one token at every level -/
theorem pr_pos (lvl : Nat) (t : Cond ColRef) (h : nf t = true) : 0 < (pr lvl t).length := by
  cases t with
  | leaf op c l => simp [pr]
  | not c => simp [pr]
  | and cs =>
    simp only [nf, Bool.and_eq_true, decide_eq_true_eq] at h
    match cs, h with
    | a :: b :: cs, _ =>
      rw [pr]; split
      · rw [prList_cons_cons]; simp; omega
      · simp
  | or cs =>
    simp only [nf, Bool.and_eq_true, decide_eq_true_eq] at h
    match cs, h with
    | a :: b :: cs, _ =>
      rw [pr]; split
      · rw [prList_cons_cons]; simp; omega
      · simp

/-- atoms joined by AND parse back to the list of atoms -/
theorem conjList_ok : (cs : List (Cond ColRef)) → cs ≠ [] → (∀ c ∈ cs, AtomOK c ∧ 0 < (pr 2 c).length) →
    ∀ n, 3 * (prList .and_ 2 cs).length ≤ n + 1 → ∀ rest, NoAnd rest →
      parseConjList n (prList .and_ 2 cs ++ rest) = .ok (cs, rest)
  | [], h, _ => absurd rfl h
  | [c], _, hall => by
    obtain ⟨hc, hpos⟩ := hall c (by simp)
    intro n hn rest hrest
    rw [prList_single] at hn ⊢
    obtain ⟨m, rfl⟩ : ∃ m, n = m + 1 := ⟨n - 1, by omega⟩
    rw [parseConjList, hc m (by omega)]
    simp only
    split
    · exact absurd rfl hrest
    · rfl
  | c :: c' :: cs, _, hall => by
    obtain ⟨hc, hpos⟩ := hall c (by simp)
    have hcs := conjList_ok (c' :: cs) (by simp) (fun x hx => hall x (by simp [hx]))
    intro n hn rest hrest
    rw [prList_cons_cons] at hn ⊢
    simp only [List.length_append, List.length_cons] at hn
    obtain ⟨m, rfl⟩ : ∃ m, n = m + 1 := ⟨n - 1, by omega⟩
    rw [List.append_assoc, List.cons_append, parseConjList, hc m (by omega)]
    simp only
    rw [hcs m (by omega) rest hrest]

theorem mkJunction_conjuncts (t : Cond ColRef) (h : nf t = true) : mkJunction true (conjuncts t) = t := by
  cases t with
  | leaf op c l => rfl
  | not c => rfl
  | or cs => rfl
  | and cs =>
    simp only [nf, Bool.and_eq_true, decide_eq_true_eq] at h
    match cs, h with
    | a :: b :: cs, _ => rfl

theorem mkJunction_disjuncts (t : Cond ColRef) (h : nf t = true) : mkJunction false (disjuncts t) = t := by
  cases t with
  | leaf op c l => rfl
  | not c => rfl
  | and cs => rfl
  | or cs =>
    simp only [nf, Bool.and_eq_true, decide_eq_true_eq] at h
    match cs, h with
    | a :: b :: cs, _ => rfl

/-- conjunctions joined by OR parse back to the list of conjunctions -/
theorem disjList_ok : (cs : List (Cond ColRef)) → cs ≠ [] →
    (∀ c ∈ cs, ConjOK c ∧ nf c = true) →
    ∀ n, 3 * (prList .or_ 1 cs).length ≤ n → ∀ rest, NoAnd rest → NoOr rest →
      parseDisjList n (prList .or_ 1 cs ++ rest) = .ok (cs, rest)
  | [], h, _ => absurd rfl h
  | [c], _, hall => by
    obtain ⟨hc, hnf⟩ := hall c (by simp)
    have hpos := pr_pos 1 c hnf
    intro n hn rest hrest hor
    rw [prList_single] at hn ⊢
    obtain ⟨m, rfl⟩ : ∃ m, n = m + 1 := ⟨n - 1, by omega⟩
    rw [parseDisjList, hc m (by omega) rest hrest]
    simp only [mkJunction_conjuncts c hnf]
    split
    · exact absurd rfl hor
    · rfl
  | c :: c' :: cs, _, hall => by
    obtain ⟨hc, hnf⟩ := hall c (by simp)
    have hpos := pr_pos 1 c hnf
    have hcs := disjList_ok (c' :: cs) (by simp) (fun x hx => hall x (by simp [hx]))
    intro n hn rest hrest hor
    rw [prList_cons_cons] at hn ⊢
    simp only [List.length_append, List.length_cons] at hn
    obtain ⟨m, rfl⟩ : ∃ m, n = m + 1 := ⟨n - 1, by omega⟩
    rw [List.append_assoc, List.cons_append, parseDisjList,
      hc m (by omega) _ (by simp [NoAnd])]
    simp only [mkJunction_conjuncts c hnf]
    rw [hcs m (by omega) rest hrest hor]

theorem atom_to_conj (t : Cond ColRef) (h : AtomOK t) (hpos : 0 < (pr 2 t).length)
    (hp : pr 1 t = pr 2 t) (hc : conjuncts t = [t]) : ConjOK t := by
  intro n hn rest hrest
  rw [hp] at hn ⊢
  obtain ⟨m, rfl⟩ : ∃ m, n = m + 1 := ⟨n - 1, by omega⟩
  rw [hc, parseConjList, h m (by omega)]
  simp only
  split
  · exact absurd rfl hrest
  · rfl

theorem conj_to_disj (t : Cond ColRef) (h : ConjOK t) (hnf : nf t = true) (hp : pr 0 t = pr 1 t)
    (hd : disjuncts t = [t]) : DisjOK t := by
  have hpos := pr_pos 1 t hnf
  intro n hn rest hrest hor
  rw [hp] at hn ⊢
  obtain ⟨m, rfl⟩ : ∃ m, n = m + 1 := ⟨n - 1, by omega⟩
  rw [hd, parseDisjList, h m (by omega) rest hrest]
  simp only [mkJunction_conjuncts t hnf]
  split
  · exact absurd rfl hor
  · rfl

theorem disj_to_atom_paren (t : Cond ColRef) (h : DisjOK t) (hnf : nf t = true)
    (hp : pr 2 t = .lparen :: pr 0 t ++ [.rparen]) : AtomOK t := by
  intro n hn rest
  rw [hp] at hn ⊢
  simp only [List.length_cons, List.length_append, List.length_nil] at hn
  obtain ⟨m, rfl⟩ : ∃ m, n = m + 1 := ⟨n - 1, by omega⟩
  simp only [List.cons_append, List.append_assoc, List.nil_append]
  rw [parseAtom, h m (by omega) _ (by simp [NoAnd]) (by simp [NoOr])]
  simp only [mkJunction_disjuncts t hnf]

theorem not_atom (c : Cond ColRef) (h : DisjOK c) (hnf : nf c = true) : AtomOK (.not c) := by
  intro n hn rest
  have hpr : pr 2 (.not c) = .lparen :: .not_ :: pr 0 c ++ [.rparen] := by rw [pr]
  rw [hpr] at hn ⊢
  simp only [List.length_cons, List.length_append, List.length_nil] at hn
  obtain ⟨m, rfl⟩ : ∃ m, n = m + 4 := ⟨n - 4, by omega⟩
  simp only [List.cons_append, List.append_assoc, List.nil_append]
  rw [parseAtom, parseDisjList, parseConjList, parseAtom,
    h m (by omega) _ (by simp [NoAnd]) (by simp [NoOr])]
  simp only [mkJunction_disjuncts c hnf]
  rfl

mutual
theorem allOK : (t : Cond ColRef) → nf t = true → AtomOK t ∧ ConjOK t ∧ DisjOK t
  | .leaf op c l, h => by
    have ha : AtomOK (.leaf op c l) := leafOK op c l (by simpa [nf] using h)
    have hc := atom_to_conj _ ha (pr_pos 2 _ h) (by simp [pr]) rfl
    exact ⟨ha, hc, conj_to_disj _ hc h (by simp [pr]) rfl⟩
  | .not c, h => by
    have hnf : nf c = true := by simpa [nf] using h
    have ih := allOK c hnf
    have ha : AtomOK (.not c) := not_atom c ih.2.2 hnf
    have hc := atom_to_conj _ ha (pr_pos 2 _ h) (by simp [pr]) rfl
    exact ⟨ha, hc, conj_to_disj _ hc h (by simp [pr]) rfl⟩
  | .and cs, h => by
    have h' : 2 ≤ cs.length ∧ nfList cs = true := by simpa [nf] using h
    have ih := allOKList cs h'.2
    have hne : cs ≠ [] := by intro e; subst e; simp at h'
    have hc : ConjOK (.and cs) := by
      have hl := conjList_ok cs hne (fun c hc => ⟨(ih c hc).1.1, pr_pos 2 c (ih c hc).2⟩)
      intro n hn rest hrest
      simpa [pr, conjuncts] using hl n (by simpa [pr] using hn) rest hrest
    have hd := conj_to_disj _ hc h (by simp [pr]) rfl
    exact ⟨disj_to_atom_paren _ hd h (by simp [pr]), hc, hd⟩
  | .or cs, h => by
    have h' : 2 ≤ cs.length ∧ nfList cs = true := by simpa [nf] using h
    have ih := allOKList cs h'.2
    have hne : cs ≠ [] := by intro e; subst e; simp at h'
    have hd : DisjOK (.or cs) := by
      have hl := disjList_ok cs hne (fun c hc => ⟨(ih c hc).1.2.1, (ih c hc).2⟩)
      intro n hn rest hrest hor
      simpa [pr, disjuncts] using hl n (by simpa [pr] using hn) rest hrest hor
    have ha := disj_to_atom_paren _ hd h (by simp [pr])
    exact ⟨ha, atom_to_conj _ ha (pr_pos 2 _ h) (by simp [pr]) rfl, hd⟩
theorem allOKList : (cs : List (Cond ColRef)) → nfList cs = true →
    ∀ c ∈ cs, (AtomOK c ∧ ConjOK c ∧ DisjOK c) ∧ nf c = true
  | [], _ => by intro c hc; simp at hc
  | c :: cs, h => by
    have h' : nf c = true ∧ nfList cs = true := by simpa [nfList] using h
    intro x hx
    rcases List.mem_cons.mp hx with hx | hx
    · rw [hx]; exact ⟨allOK c h'.1, h'.1⟩
    · exact allOKList cs h'.2 x hx
end

def printWheres (ws : List (Cond ColRef)) : List Tok := ws.flatMap (fun w => .where_ :: pr 0 w)

def printProj : Proj → List Tok
  | .star => [.star]
  | .cols cs => cs.map colTok

def printFrom : List String → List Tok
  | [] => []
  | rels => .from_ :: rels.map .id

def printQuery (proj : Proj) (rels : List String) (ws : List (Cond ColRef)) : List Tok :=
  printProj proj ++ (printFrom rels ++ (printWheres ws ++ [.dot]))

def NoWhere (ts : List Tok) : Prop := ts.head? ≠ some .where_

/-- the next token is not a column name -/
def NoName : List Tok → Prop
  | .id _ :: _ => False
  | .qid _ _ :: _ => False
  | _ => True

theorem parseDisj_print (t : Cond ColRef) (h : nf t = true) :
    ∀ n, 3 * (pr 0 t).length ≤ n → ∀ rest, NoAnd rest → NoOr rest →
      parseDisj n (pr 0 t ++ rest) = .ok (t, rest) := by
  intro n hn rest ha ho
  rw [parseDisj, (allOK t h).2.2 n hn rest ha ho]
  simp only [mkJunction_disjuncts t h]

theorem printWheres_cons (w : Cond ColRef) (ws : List (Cond ColRef)) :
    printWheres (w :: ws) = .where_ :: (pr 0 w ++ printWheres ws) := by
  simp [printWheres]

theorem parseWheres_print : (ws : List (Cond ColRef)) → (∀ w ∈ ws, nf w = true) →
    ∀ f n, 3 * (printWheres ws).length ≤ f → (printWheres ws).length < n →
      ∀ rest, NoAnd rest → NoOr rest → NoWhere rest →
      parseWheres f n (printWheres ws ++ rest) = .ok (ws, rest)
  | [], _ => by
    intro f n _ hn rest _ _ hw
    obtain ⟨m, rfl⟩ : ∃ m, n = m + 1 := ⟨n - 1, by omega⟩
    simp only [printWheres, List.flatMap_nil, List.nil_append]
    cases rest with
    | nil => simp [parseWheres]
    | cons t ts => cases t <;> first | exact absurd rfl hw | simp [parseWheres]
  | w :: ws, h => by
    have hw := parseDisj_print w (h w (by simp))
    have hws := parseWheres_print ws (fun x hx => h x (by simp [hx]))
    intro f n hf hn rest ha ho hwh
    rw [printWheres_cons] at hf hn
    simp only [List.length_cons, List.length_append] at hf hn
    obtain ⟨m, rfl⟩ : ∃ m, n = m + 1 := ⟨n - 1, by omega⟩
    have e : printWheres (w :: ws) ++ rest = .where_ :: (pr 0 w ++ (printWheres ws ++ rest)) := by
      simp [printWheres]
    rw [e, parseWheres]
    have hnext : NoAnd (printWheres ws ++ rest) ∧ NoOr (printWheres ws ++ rest) := by
      cases ws with
      | nil => simpa [printWheres] using And.intro ha ho
      | cons a as => simp [printWheres, NoAnd, NoOr]
    rw [hw f (by omega) _ hnext.1 hnext.2]
    simp only
    rw [hws f m (by omega) (by omega) rest ha ho hwh]

theorem colRef_eta (c : ColRef) (h : c.rel = "") : (⟨"", c.col⟩ : ColRef) = c := by
  cases c; simp_all

theorem takeCols_print : (cs : List ColRef) → (rest : List Tok) → NoName rest →
    takeCols (cs.map colTok ++ rest) = (cs, rest)
  | [], rest, h => by
    simp only [List.map_nil, List.nil_append]
    unfold takeCols
    split
    · exact absurd h (by simp [NoName])
    · exact absurd h (by simp [NoName])
    · rfl
  | c :: cs, rest, h => by
    have ih := takeCols_print cs rest h
    simp only [List.map_cons, List.cons_append]
    by_cases hrel : c.rel = ""
    · have e : colTok c = .id c.col := by simp [colTok, hrel]
      rw [e, takeCols, ih, colRef_eta c hrel]
    · have e : colTok c = .qid c.rel c.col := by simp [colTok, hrel]
      rw [e, takeCols, ih]

theorem takeIds_print : (rs : List String) → (rest : List Tok) → NoName rest →
    takeIds (rs.map Tok.id ++ rest) = (rs, rest)
  | [], rest, h => by
    simp only [List.map_nil, List.nil_append]
    unfold takeIds
    split
    · exact absurd h (by simp [NoName])
    · rfl
  | r :: rs, rest, h => by
    have ih := takeIds_print rs rest h
    simp only [List.map_cons, List.cons_append]
    rw [takeIds, ih]



def ProjOK : Proj → List String → Prop
  | .star, rels => rels ≠ []
  | .cols cs, _ => cs ≠ []

theorem noName_wheres (ws : List (Cond ColRef)) : NoName (printWheres ws ++ [.dot]) := by
  cases ws <;> simp [printWheres, NoName]

theorem noName_from (rels : List String) (ws : List (Cond ColRef)) :
    NoName (printFrom rels ++ (printWheres ws ++ [.dot])) := by
  cases rels with
  | nil => simpa [printFrom] using noName_wheres ws
  | cons r rs => simp [printFrom, NoName]

theorem parseFrom_print (rels : List String) (ws : List (Cond ColRef)) :
    parseFrom (printFrom rels ++ (printWheres ws ++ [.dot])) = .ok (rels, printWheres ws ++ [.dot]) := by
  cases rels with
  | nil =>
    cases ws <;> simp [printFrom, printWheres, parseFrom]
  | cons r rs =>
    simp only [printFrom, List.map_cons, List.cons_append, parseFrom]
    rw [takeIds_print rs _ (noName_wheres ws)]

theorem parseProj_print (proj : Proj) (rels : List String) (hp : ProjOK proj rels) (rest : List Tok)
    (hr : NoName rest) : parseProj (printProj proj ++ rest) = .ok (proj, rest) := by
  cases proj with
  | star => simp [printProj, parseProj]
  | cols cs =>
    cases cs with
    | nil => exact absurd rfl hp
    | cons c cs =>
      simp only [printProj, List.map_cons, List.cons_append]
      by_cases hrel : c.rel = ""
      · have e : colTok c = .id c.col := by simp [colTok, hrel]
        rw [e, parseProj, takeCols_print cs rest hr, colRef_eta c hrel]
      · have e : colTok c = .qid c.rel c.col := by simp [colTok, hrel]
        rw [e, parseProj, takeCols_print cs rest hr]

theorem parseSelect_print_aux (proj : Proj) (rels : List String) (ws : List (Cond ColRef))
    (hp : ProjOK proj rels) (hw : ∀ w ∈ ws, nf w = true) :
    ∀ n, 3 * (printQuery proj rels ws).length ≤ n →
      parseSelect n (printQuery proj rels ws) = .ok { proj := proj, rels := rels, cond := whereCond ws } := by
  intro n hn
  have hlen : (printWheres ws).length + 1 ≤ (printQuery proj rels ws).length := by
    simp only [printQuery, List.length_append, List.length_cons, List.length_nil]; omega
  have hws := parseWheres_print ws hw n n (by omega) (by omega)
  unfold parseSelect printQuery
  rw [parseProj_print proj rels hp _ (noName_from rels ws)]
  simp only
  rw [parseFrom_print]
  simp only
  rw [hws [.dot] (by simp [NoAnd]) (by simp [NoOr]) (by simp [NoWhere])]
  simp only [List.all_nil, Bool.not_true]
  cases proj with
  | star =>
    have : rels ≠ [] := hp
    simp [this]
  | cols cs => simp


/-! ## the index of a selection; a single relation -/

theorem dictGet_dictSet {α} (d : List (Key × α)) (k : Key) (v : α) (k' : Key) :
    dictGet (dictSet d k v) k' = if k = k' then some v else dictGet d k' := by
  induction d with
  | nil => simp [dictSet, dictGet]
  | cons p rest ih =>
    obtain ⟨k0, v0⟩ := p
    by_cases h0 : k0 = k
    · subst h0
      by_cases h1 : k0 = k' <;> simp [dictSet, dictGet, h1]
    · by_cases h1 : k = k'
      · subst h1
        simp [dictSet, dictGet, h0, ih]
      · by_cases h2 : k0 = k'
        · subst h2; simp [dictSet, dictGet, h0]; exact fun h => absurd h h1
        · simp [dictSet, dictGet, h0, h1, h2, ih]

theorem dictGet_append {α} (d : List (Key × α)) (k : Key) (v : α) (k' : Key) :
    dictGet (d ++ [(k, v)]) k' = match dictGet d k' with
      | some x => some x
      | none => if k = k' then some v else none := by
  induction d with
  | nil => simp [dictGet]
  | cons p rest ih =>
    obtain ⟨k0, v0⟩ := p
    by_cases h0 : k0 = k' <;> simp [dictGet, h0, ih]

theorem dictGet_dictAdd_q {α} (d : List (Key × α)) (c : String) (v : α) (rn c' : String) :
    dictGet (dictAdd d (.u c) v) (.q rn c') = dictGet d (.q rn c') := by
  unfold dictAdd
  split
  · rfl
  · rw [dictGet_append]
    cases dictGet d (.q rn c') <;> simp

theorem dictGet_dictAdd_ne {α} (d : List (Key × α)) (k : Key) (v : α) (k' : Key) (h : k ≠ k') :
    dictGet (dictAdd d k v) k' = dictGet d k' := by
  unfold dictAdd
  split
  · rfl
  · rw [dictGet_append]
    cases dictGet d k' <;> simp [h]

/-- qualified entries after one step of the first loop of `_merge_fields` -/
theorem mergeStep_get_q (name : String) (off : Nat) (ix : List (Key × Nat)) (p : Field × Nat) (rn c : String) :
    dictGet (mergeStep name off ix p) (.q rn c)
      = if Key.q name p.1.name = Key.q rn c then some (off + p.2) else dictGet ix (.q rn c) := by
  unfold mergeStep
  simp only
  split
  · rw [dictGet_dictAdd_ne _ _ _ _ (by simp), dictGet_dictSet, dictGet_dictAdd_ne _ _ _ _ (by simp)]
  · rw [dictGet_dictSet, dictGet_dictAdd_ne _ _ _ _ (by simp)]

/-- unqualified entries after one step -/
theorem mergeStep_get_u (name : String) (off : Nat) (ix : List (Key × Nat)) (p : Field × Nat) (c : String) :
    dictGet (mergeStep name off ix p) (.u c) = dictGet (dictAdd ix (.u p.1.name) (off + p.2)) (.u c) := by
  unfold mergeStep
  simp only
  split
  · rw [dictGet_dictAdd_ne _ _ _ _ (by simp), dictGet_dictSet]; simp
  · rw [dictGet_dictSet]; simp

theorem dictGet_dictAdd_eq {α} (d : List (Key × α)) (k : Key) (v : α) (k' : Key) :
    dictGet (dictAdd d k v) k' = match dictGet d k' with
      | some x => some x
      | none => if k = k' then some v else none := by
  unfold dictAdd
  split
  · rename_i h
    cases hd : dictGet d k' with
    | some x => rfl
    | none =>
      simp only
      split
      · rename_i e; subst e; rw [hd] at h; simp at h
      · rfl
  · exact dictGet_append d k v k'

/-- key entries after one step -/
theorem mergeStep_get_k (name : String) (off : Nat) (ix : List (Key × Nat)) (p : Field × Nat) (c : String) :
    dictGet (mergeStep name off ix p) (.k c)
      = if p.1.isKey = true then dictGet (dictAdd ix (.k p.1.name) (off + p.2)) (.k c) else dictGet ix (.k c) := by
  have h1 : dictGet (dictSet (dictAdd ix (.u p.1.name) (off + p.2)) (.q name p.1.name) (off + p.2)) (.k c)
      = dictGet ix (.k c) := by
    rw [dictGet_dictSet]; simp only [reduceCtorEq, if_false]; rw [dictGet_dictAdd_ne _ _ _ _ (by simp)]
  unfold mergeStep
  simp only
  split
  · rw [dictGet_dictAdd_eq, dictGet_dictAdd_eq, h1]
  · exact h1

/-- after merging the fields `all` (names `all.map name`) of the first relation `name`, a
qualified key of the index is `name.c` and points at a position holding a field named `c` -/
def QInv (name : String) (names : List String) (m : Nat) (ix : List (Key × Nat)) : Prop :=
  ∀ rn c i, dictGet ix (.q rn c) = some i → rn = name ∧ i < m ∧ names[i]? = some c

theorem mergeFold_inv (name : String) (all : List Field) :
    (fs : List Field) → (n : Nat) → (ix : List (Key × Nat)) → all.drop n = fs →
    QInv name (all.map (·.name)) n ix →
    QInv name (all.map (·.name)) all.length ((fs.zipIdx n).foldl (mergeStep name 0) ix)
  | [], n, ix, hdrop, hinv => by
    have hn : all.length ≤ n := by
      have := congrArg List.length hdrop
      simp at this; omega
    intro rn c i hi
    obtain ⟨h1, h2, h3⟩ := hinv rn c i hi
    refine ⟨h1, ?_, h3⟩
    have : i < (all.map (·.name)).length := by
      rcases Nat.lt_or_ge i (all.map (·.name)).length with h | h
      · exact h
      · rw [List.getElem?_eq_none h] at h3; cases h3
    simpa using this
  | f :: fs, n, ix, hdrop, hinv => by
    have hf : all[n]? = some f := by
      have := congrArg (fun l => l[0]?) hdrop
      simpa [List.getElem?_drop] using this
    have hdrop' : all.drop (n + 1) = fs := by
      have := congrArg List.tail hdrop
      simpa [List.tail_drop] using this
    simp only [List.zipIdx_cons, List.foldl_cons]
    apply mergeFold_inv name all fs (n + 1) _ hdrop'
    intro rn c i hi
    rw [mergeStep_get_q] at hi
    simp only [Nat.zero_add] at hi
    split at hi
    · rename_i heq
      cases heq
      cases hi
      refine ⟨rfl, by omega, ?_⟩
      simp [hf]
    · obtain ⟨h1, h2, h3⟩ := hinv rn c i hi
      exact ⟨h1, by omega, h3⟩



theorem mapM_some_getElem {α β} (f : α → Option β) :
    (l : List α) → (r : List β) → l.mapM f = some r →
    ∀ (i : Nat) (x : β), r[i]? = some x → ∃ a, l[i]? = some a ∧ f a = some x
  | [], r, h => by
    simp at h; subst h; intro i x hx; simp at hx
  | a :: l, r, h => by
    rw [List.mapM_cons] at h
    cases hfa : f a with
    | none => simp [hfa] at h
    | some b =>
      cases hl : l.mapM f with
      | none => simp [hfa, hl] at h
      | some bs =>
        simp [hfa, hl] at h
        subst h
        intro i x hx
        cases i with
        | zero => simp at hx; subst hx; exact ⟨a, by simp, hfa⟩
        | succ i =>
          simp at hx
          obtain ⟨a', h1, h2⟩ := mapM_some_getElem f l bs hl i x hx
          exact ⟨a', by simpa using h1, h2⟩

/-- the cell of column `c` in a stored row of `rel` -/
def cellOf (rel : Rel) (row : List Cell) (c : String) : Cell :=
  match rel.fieldIdx? c with
  | some i => row.getD i noCell
  | none => noCell

theorem fieldIdx_name (rel : Rel) (col : String) (j : Nat) (h : rel.fieldIdx? col = some j) :
    ∀ d, (rel.fields.getD j d).name = col := by
  intro d
  unfold Rel.fieldIdx? at h
  rw [List.findIdx?_eq_some_iff_getElem] at h
  obtain ⟨hj, hp, _⟩ := h
  rw [List.getD_eq_getElem?_getD, List.getElem?_eq_getElem hj]
  simpa using hp

/-- position `i` of a picked row holds the source row's cell of the column named at `i` -/
theorem pick_cellOf (rel : Rel) (cols : List String) (indices : List Nat)
    (hm : cols.mapM rel.fieldIdx? = some indices) (d : Field) (i : Nat) (c : String)
    (hn : ((indices.map (fun i => rel.fields.getD i d)).map (·.name))[i]? = some c) (row : List Cell) :
    (pick indices row).getD i noCell = cellOf rel row c := by
  simp only [List.map_map, List.getElem?_map, Option.map_eq_some_iff] at hn
  obtain ⟨j, hj, hname⟩ := hn
  obtain ⟨col, _, hcol⟩ := mapM_some_getElem _ cols indices hm i j hj
  have : col = c := by
    have := fieldIdx_name rel col j hcol d
    simp only [Function.comp] at hname
    rw [← this, hname]
  subst this
  unfold cellOf pick
  rw [hcol, List.getD_eq_getElem?_getD, List.getElem?_map, hj]
  rfl



mutual
/-- a resolved condition evaluated directly on a stored row of `rel` (no index, no join) -/
def evalSrc (rx : List Char → List Char → Bool) (rel : Rel) (row : List Cell) : Cond QName → Bool
  | .leaf op q l => evalLeaf rx op (cellOf rel row q.2).val l
  | .not c => !evalSrc rx rel row c
  | .and cs => evalSrcAll rx rel row cs
  | .or cs => evalSrcAny rx rel row cs
def evalSrcAll (rx : List Char → List Char → Bool) (rel : Rel) (row : List Cell) : List (Cond QName) → Bool
  | [] => true
  | c :: cs => evalSrc rx rel row c && evalSrcAll rx rel row cs
def evalSrcAny (rx : List Char → List Char → Bool) (rel : Rel) (row : List Cell) : List (Cond QName) → Bool
  | [] => false
  | c :: cs => evalSrc rx rel row c || evalSrcAny rx rel row cs
end

def evalSrcOpt (rx : List Char → List Char → Bool) (rel : Rel) (row : List Cell) : Option (Cond QName) → Bool
  | none => true
  | some c => evalSrc rx rel row c

def condFieldsOpt : Option (Cond QName) → List QName
  | none => []
  | some c => condFields c

/-- every qualified key of the index points at the position of that column's cell -/
def Points (ix : List (Key × Nat)) (indices : List Nat) (rel : Rel) : Prop :=
  ∀ rn c i, dictGet ix (.q rn c) = some i →
    rn = rel.name ∧ ∀ row, (pick indices row).getD i noCell = cellOf rel row c

mutual
theorem evalCond_evalSrc (rx : List Char → List Char → Bool) (ix : List (Key × Nat)) (indices : List Nat)
    (rel : Rel) (H : Points ix indices rel) :
    (c : Cond QName) → (ci : Cond Nat) → indexCond ix c = .ok ci →
    ∀ row, evalCond rx (pick indices row) ci = evalSrc rx rel row c
  | .leaf op q l, ci, h => by
    simp only [indexCond] at h
    split at h
    · cases h
    · rename_i i hi
      cases h
      intro row
      simp only [evalCond, evalSrc, (H q.1 q.2 i hi).2 row]
  | .not c, ci, h => by
    simp only [indexCond] at h
    split at h
    · cases h
    · rename_i c' hc
      cases h
      intro row
      simp only [evalCond, evalSrc, evalCond_evalSrc rx ix indices rel H c c' hc row]
  | .and cs, ci, h => by
    simp only [indexCond] at h
    split at h
    · cases h
    · rename_i cs' hc
      cases h
      intro row
      simp only [evalCond, evalSrc, (evalConds_evalSrc rx ix indices rel H cs cs' hc row).1]
  | .or cs, ci, h => by
    simp only [indexCond] at h
    split at h
    · cases h
    · rename_i cs' hc
      cases h
      intro row
      simp only [evalCond, evalSrc, (evalConds_evalSrc rx ix indices rel H cs cs' hc row).2]
theorem evalConds_evalSrc (rx : List Char → List Char → Bool) (ix : List (Key × Nat)) (indices : List Nat)
    (rel : Rel) (H : Points ix indices rel) :
    (cs : List (Cond QName)) → (cis : List (Cond Nat)) → indexConds ix cs = .ok cis →
    ∀ row, evalAll rx (pick indices row) cis = evalSrcAll rx rel row cs
      ∧ evalAny rx (pick indices row) cis = evalSrcAny rx rel row cs
  | [], cis, h => by
    simp only [indexConds] at h
    cases h
    intro row
    simp [evalAll, evalAny, evalSrcAll, evalSrcAny]
  | c :: cs, cis, h => by
    simp only [indexConds] at h
    split at h
    · cases h
    · rename_i c' hc
      split at h
      · cases h
      · rename_i cs' hcs
        cases h
        intro row
        have h1 := evalCond_evalSrc rx ix indices rel H c c' hc row
        have h2 := evalConds_evalSrc rx ix indices rel H cs cs' hcs row
        simp only [evalAll, evalAny, evalSrcAll, evalSrcAny, h1, h2.1, h2.2, and_self]
end

theorem proj_pick (ix : List (Key × Nat)) (indices : List Nat) (rel : Rel) (H : Points ix indices rel) :
    (proj : List QName) → (pidx : List Nat) →
    proj.mapM (fun q => dictGet ix (.q q.1 q.2)) = some pidx →
    ∀ row, pick pidx (pick indices row) = proj.map (fun qn => cellOf rel row qn.2)
  | [], pidx, h => by
    simp at h; subst h; intro row; simp [pick]
  | q :: proj, pidx, h => by
    rw [List.mapM_cons] at h
    cases hq : dictGet ix (.q q.1 q.2) with
    | none => simp [hq] at h
    | some i =>
      cases hl : proj.mapM (fun q => dictGet ix (.q q.1 q.2)) with
      | none => simp [hq, hl] at h
      | some is =>
        simp [hq, hl] at h
        subst h
        intro row
        have ih := proj_pick ix indices rel H proj is hl row
        simp only [pick, List.map_cons] at ih ⊢
        rw [ih]
        congr 1
        exact (H q.1 q.2 i hq).2 row



/-- what a successful `select` went through -/
theorem select_inv {rx : List Char → List Char → Bool} {db : DB} {q : Query} {res : Result}
    (h : select rx db q = .ok res) :
    ∃ proj cond plan sel rows, db.wf = true ∧ resolveProj db q = .ok proj ∧ resolveQCond db q = .ok cond ∧
      planJoins db proj (condFieldsOpt cond) q.rels = .ok plan ∧
      runJoins db Sel.empty plan.joins = .ok sel ∧ finish rx sel proj cond = .ok rows ∧
      res = { ordered := plan.ordered, rows := rows } := by
  unfold select at h
  split at h
  · cases h
  · rename_i hwf
    split at h
    · cases h
    · rename_i proj hproj
      split at h
      · cases h
      · rename_i cond hcond
        simp only at h
        split at h
        · cases h
        · rename_i plan hplan
          split at h
          · cases h
          · rename_i sel hsel
            split at h
            · cases h
            · rename_i rows hrows
              cases h
              refine ⟨proj, cond, plan, sel, rows, by simpa using hwf, hproj, hcond, ?_, hsel, hrows, rfl⟩
              cases cond <;> exact hplan

theorem firstJoin_inv {db : DB} {name : String} {cols : List String} {sel : Sel}
    (h : joinStep db Sel.empty (name, cols) = .ok sel) :
    ∃ rel indices, db.rel? name = some rel ∧ cols.mapM rel.fieldIdx? = some indices ∧
      sel.data = rel.rows.map (pick indices) ∧ Points sel.index indices rel := by
  unfold joinStep at h
  simp only [Sel.empty, List.contains_nil, Bool.false_eq_true, ↓reduceIte] at h
  split at h
  · cases h
  · rename_i rel hrel
    split at h
    · cases h
    · rename_i indices hidx
      simp only [List.isEmpty_nil, ↓reduceIte] at h
      cases h
      refine ⟨rel, indices, hrel, hidx, rfl, ?_⟩
      intro rn c i hi
      simp only [mergeFields, List.length_nil, List.foldl_nil] at hi
      have inv := mergeFold_inv name (indices.map (fun i => rel.fields.getD i ⟨"", .string, false⟩))
        (indices.map (fun i => rel.fields.getD i ⟨"", .string, false⟩)) 0 [] rfl
        (by intro rn c i hi; simp [dictGet] at hi)
      obtain ⟨hrn, _, hn⟩ := inv rn c i hi
      have hname : rel.name = name := by
        unfold DB.rel? at hrel
        have := List.find?_some hrel
        simpa using this
      exact ⟨by rw [hrn, hname], fun row => pick_cellOf rel cols indices hidx _ i c hn row⟩



theorem proj_rel (ix : List (Key × Nat)) (indices : List Nat) (rel : Rel) (H : Points ix indices rel) :
    (proj : List QName) → (pidx : List Nat) →
    proj.mapM (fun q => dictGet ix (.q q.1 q.2)) = some pidx → ∀ qn ∈ proj, qn.1 = rel.name
  | [], _, _ => by intro qn hq; simp at hq
  | q :: proj, pidx, h => by
    rw [List.mapM_cons] at h
    cases hq : dictGet ix (.q q.1 q.2) with
    | none => simp [hq] at h
    | some i =>
      cases hl : proj.mapM (fun q => dictGet ix (.q q.1 q.2)) with
      | none => simp [hq, hl] at h
      | some is =>
        intro qn hqn
        rcases List.mem_cons.mp hqn with e | e
        · rw [e]; exact (H q.1 q.2 i hq).1
        · exact proj_rel ix indices rel H proj is hl qn e

theorem finish_single (rx : List Char → List Char → Bool) (sel : Sel) (indices : List Nat) (rel : Rel)
    (hdata : sel.data = rel.rows.map (pick indices)) (H : Points sel.index indices rel)
    (proj : List QName) (cond : Option (Cond QName)) (rows : List (List (Option (List Char))))
    (h : finish rx sel proj cond = .ok rows) :
    (∀ qn ∈ proj, qn.1 = rel.name) ∧
    rows = (rel.rows.filter (fun r => evalSrcOpt rx rel r cond)).map
            (fun r => proj.map (fun qn => (cellOf rel r qn.2).raw)) := by
  unfold finish at h
  split at h
  · cases h
  · rename_i pidx hp
    refine ⟨proj_rel sel.index indices rel H proj pidx hp, ?_⟩
    have hpick := proj_pick sel.index indices rel H proj pidx hp
    cases cond with
    | none =>
      simp only at h
      cases h
      have hf : rel.rows.filter (fun r => evalSrcOpt rx rel r none) = rel.rows := by
        apply List.filter_eq_self.mpr
        intro r _; rfl
      rw [hf]
      simp only [hdata, List.map_map]
      apply List.map_congr_left
      intro r _
      simp only [Function.comp, hpick r, List.map_map]
      rfl
    | some c =>
      simp only at h
      split at h
      · cases h
      · rename_i ci hci
        cases h
        have hev := evalCond_evalSrc rx sel.index indices rel H c ci hci
        simp only [hdata, List.filter_map, List.map_map, evalSrcOpt]
        have : ((fun row => evalCond rx row ci) ∘ pick indices) = fun r => evalSrc rx rel r c := by
          funext r; exact hev r
        rw [this]
        apply List.map_congr_left
        intro r _
        simp only [Function.comp, hpick r, List.map_map]
        rfl

theorem select_single_relation_aux (rx : List Char → List Char → Bool) (db : DB) (q : Query) (res : Result)
    (h : select rx db q = .ok res) :
    ∃ proj cond plan, resolveProj db q = .ok proj ∧ resolveQCond db q = .ok cond ∧
      planJoins db proj (condFieldsOpt cond) q.rels = .ok plan ∧
      ∀ name cols, plan.joins = [(name, cols)] →
        ∃ rel, db.rel? name = some rel ∧ (∀ qn ∈ proj, qn.1 = name) ∧
          res.rows = (rel.rows.filter (fun r => evalSrcOpt rx rel r cond)).map
            (fun r => proj.map (fun qn => (cellOf rel r qn.2).raw)) := by
  obtain ⟨proj, cond, plan, sel, rows, _, hproj, hcond, hplan, hsel, hrows, hres⟩ := select_inv h
  refine ⟨proj, cond, plan, hproj, hcond, hplan, ?_⟩
  intro name cols hj
  rw [hj] at hsel
  simp only [runJoins] at hsel
  split at hsel
  · cases hsel
  · rename_i sel' hstep
    cases hsel
    obtain ⟨rel, indices, hrel, _, hdata, H⟩ := firstJoin_inv hstep
    have hname : rel.name = name := by
      unfold DB.rel? at hrel
      have := List.find?_some hrel
      simpa using this
    have hf := finish_single rx sel indices rel hdata H proj cond rows hrows
    refine ⟨rel, hrel, by rw [← hname]; exact hf.1, ?_⟩
    rw [hres]
    exact hf.2

/-! ## each join step as a relational comprehension -/

/-- do the joined row `l` and the stored row `r` of `rel` carry equal cast values in every column
named in `on`? (left: the selection's first KEY column of that name, `_key_index`; right: `rel`'s column) -/
def agreeOn (sel : Sel) (rel : Rel) (on : List String) (l r : List Cell) : Bool :=
  on.all (fun k => match dictGet sel.index (.k k), rel.fieldIdx? k with
    | some i, some j => decide ((l.getD i noCell).val = (r.getD j noCell).val)
    | _, _ => false)

theorem keyOf_agree (sel : Sel) (rel : Rel) (l r : List Cell) :
    (on : List String) → (∀ k ∈ on, (dictGet sel.index (.k k)).isSome) → (∀ k ∈ on, (rel.fieldIdx? k).isSome) →
    decide (keyOf (on.filterMap rel.fieldIdx?) r = keyOf (on.filterMap (fun n => dictGet sel.index (.k n))) l)
      = agreeOn sel rel on l r
  | [], _, _ => by simp [agreeOn, keyOf, pick]
  | k :: on, hL, hR => by
    have ih := keyOf_agree sel rel l r on (fun x hx => hL x (by simp [hx])) (fun x hx => hR x (by simp [hx]))
    have h1 := hL k (by simp)
    have h2 := hR k (by simp)
    cases hi : dictGet sel.index (.k k) with
    | none => simp [hi] at h1
    | some i =>
      cases hj : rel.fieldIdx? k with
      | none => simp [hj] at h2
      | some j =>
        simp only [agreeOn, List.all_cons, hi, hj] at ih ⊢
        rw [← ih]
        simp only [List.filterMap_cons, hi, hj, keyOf, pick, List.map_cons, List.cons.injEq, Bool.decide_and]
        congr 1
        exact decide_eq_decide.mpr ⟨Eq.symm, Eq.symm⟩



/-- `_join` with the hash join written as the relational comprehension: keep the pairs
(joined row, stored row) that agree on every shared key, in (left, right) order -/
def nestedStep (db : DB) (sel : Sel) (j : String × List String) : Except Err Sel :=
  if sel.joined.contains j.1 then .error .tsqlError else
  match db.rel? j.1 with
  | none => .error .keyError
  | some rel =>
    match j.2.mapM rel.fieldIdx? with
    | none => .error .keyError
    | some indices =>
      let fields := indices.map (fun i => rel.fields.getD i ⟨"", .string, false⟩)
      if sel.joined.isEmpty then
        .ok (mergeFields { sel with data := rel.rows.map (pick indices) } j.1 [] fields)
      else
        let on := sharedKeys sel fields
        let fields' := fields.filter (fun f => !on.contains f.name)
        if on.isEmpty then .error .tsqlError else
        let rV := fields'.filterMap (fun f => rel.fieldIdx? f.name)
        let data := sel.data.flatMap (fun l =>
          (rel.rows.filter (fun r => agreeOn sel rel on l r)).map (fun r => l ++ pick rV r))
        .ok (mergeFields { sel with data := data } j.1 on fields')

def nestedJoins (db : DB) : Sel → List (String × List String) → Except Err Sel
  | sel, [] => .ok sel
  | sel, j :: js =>
    match nestedStep db sel j with
    | .error e => .error e
    | .ok sel' => nestedJoins db sel' js

theorem mapM_some_mem {α β} (f : α → Option β) (l : List α) (r : List β) (h : l.mapM f = some r) :
    ∀ x ∈ r, ∃ a ∈ l, f a = some x := by
  intro x hx
  obtain ⟨i, hi⟩ := List.mem_iff_getElem?.mp hx
  obtain ⟨a, ha, hfa⟩ := mapM_some_getElem f l r h i x hi
  exact ⟨a, List.mem_iff_getElem?.mpr ⟨i, ha⟩, hfa⟩

theorem sharedKeys_right (sel : Sel) (rel : Rel) (cols : List String) (indices : List Nat)
    (hm : cols.mapM rel.fieldIdx? = some indices) (d : Field) :
    ∀ k ∈ sharedKeys sel (indices.map (fun i => rel.fields.getD i d)), (rel.fieldIdx? k).isSome := by
  intro k hk
  simp only [sharedKeys, List.mem_map, List.mem_filter] at hk
  obtain ⟨f, ⟨⟨jx, hjx, hf⟩, _⟩, hname⟩ := hk
  obtain ⟨col, _, hcol⟩ := mapM_some_mem _ cols indices hm jx hjx
  have := fieldIdx_name rel col jx hcol d
  rw [hf, hname] at this
  rw [this, hcol]
  rfl

theorem sharedKeys_left (sel : Sel) (fields : List Field) :
    ∀ k ∈ sharedKeys sel fields, (dictGet sel.index (.k k)).isSome := by
  intro k hk
  simp only [sharedKeys, List.mem_map, List.mem_filter, Bool.and_eq_true] at hk
  obtain ⟨f, ⟨_, _, h⟩, hname⟩ := hk
  rw [← hname]; exact h

theorem joinStep_eq_nestedStep (db : DB) (sel : Sel) (j : String × List String) :
    joinStep db sel j = nestedStep db sel j := by
  unfold joinStep nestedStep
  by_cases hc : sel.joined.contains j.1 = true
  · simp only [hc, if_true]
  · simp only [hc]
    cases hrel : db.rel? j.1 with
    | none => rfl
    | some rel =>
      simp only
      cases hm : j.2.mapM rel.fieldIdx? with
      | none => rfl
      | some indices =>
        simp only
        by_cases he : sel.joined.isEmpty = true
        · simp only [he, if_true]
        · simp only [he]
          by_cases hon : (sharedKeys sel (indices.map (fun i => rel.fields.getD i ⟨"", .string, false⟩))).isEmpty = true
          · simp only [hon, if_true]
          · simp only [hon]
            have key : ∀ l r, decide (keyOf (List.filterMap rel.fieldIdx?
                  (sharedKeys sel (indices.map (fun i => rel.fields.getD i ⟨"", .string, false⟩)))) r
                = keyOf (List.filterMap (fun n => dictGet sel.index (.k n))
                  (sharedKeys sel (indices.map (fun i => rel.fields.getD i ⟨"", .string, false⟩)))) l)
                = agreeOn sel rel (sharedKeys sel (indices.map (fun i => rel.fields.getD i ⟨"", .string, false⟩))) l r :=
              fun l r => keyOf_agree sel rel l r _
                (sharedKeys_left sel _) (sharedKeys_right sel rel j.2 indices hm _)
            simp only [hashJoin_eq_nested_aux, key]

theorem runJoins_eq_nestedJoins (db : DB) : (sel : Sel) → (js : List (String × List String)) →
    runJoins db sel js = nestedJoins db sel js
  | sel, [] => rfl
  | sel, j :: js => by
    simp only [runJoins, nestedJoins, joinStep_eq_nestedStep]
    cases nestedStep db sel j with
    | error e => rfl
    | ok sel' => exact runJoins_eq_nestedJoins db sel' js


/-! ## `*` -/

/-- what one relation contributes to `*`: (a) `keys_added` only grows and stays duplicate-free,
(b) every non-key column is emitted, (c) every key name is in `keys_added` afterwards,
(d) every newly added key name was emitted for this relation, (e) the number of emitted
columns is the number of non-key columns plus the number of newly added key names -/
theorem projFields_spec (name : String) :
    (fs : List Field) → (ka : List String) → ka.Nodup →
    let p := projFields name fs ka
    p.2.Nodup ∧ (∀ k ∈ ka, k ∈ p.2) ∧
    (∀ f ∈ fs, f.isKey = false → (name, f.name) ∈ p.1) ∧
    (∀ f ∈ fs, f.isKey = true → f.name ∈ p.2) ∧
    (∀ k ∈ p.2, k ∈ ka ∨ (name, k) ∈ p.1) ∧
    (∀ k ∈ p.2, k ∈ ka ∨ ∃ f ∈ fs, f.isKey = true ∧ f.name = k) ∧
    p.1.length + ka.length = (fs.filter (fun f => !f.isKey)).length + p.2.length
  | [], ka, hka => by simp [projFields, hka]
  | f :: fs, ka, hka => by
    by_cases hk : f.isKey = true
    · by_cases hc : ka.contains f.name = true
      · have ih := projFields_spec name fs ka hka
        have hmem : f.name ∈ ka := by simpa using hc
        simp only [projFields, hk, hc, Bool.not_true, Bool.false_eq_true, ↓reduceIte, List.filter_cons] at ih ⊢
        obtain ⟨h1, h2, h3, h4, h5, h6, h7⟩ := ih
        refine ⟨h1, h2, ?_, ?_, h5, ?_, h7⟩
        · intro g hg hgk
          rcases List.mem_cons.mp hg with e | e
          · subst e; rw [hk] at hgk; cases hgk
          · exact h3 g e hgk
        · intro g hg hgk
          rcases List.mem_cons.mp hg with e | e
          · subst e; exact h2 _ hmem
          · exact h4 g e hgk
        · intro k hk'
          rcases h6 k hk' with e | ⟨g, hg, e1, e2⟩
          · exact Or.inl e
          · exact Or.inr ⟨g, List.mem_cons_of_mem _ hg, e1, e2⟩
      · have hnm : f.name ∉ ka := by simpa using hc
        have hka' : (ka ++ [f.name]).Nodup := by
          rw [List.nodup_append]
          exact ⟨hka, by simp, by intro a ha b hb; simp at hb; subst hb; exact fun e => hnm (e ▸ ha)⟩
        have ih := projFields_spec name fs (ka ++ [f.name]) hka'
        simp only [projFields, hk, hc, Bool.not_true, Bool.false_eq_true, ↓reduceIte, List.filter_cons,
          List.length_cons, List.length_append, List.length_nil] at ih ⊢
        obtain ⟨h1, h2, h3, h4, h5, h6, h7⟩ := ih
        refine ⟨h1, fun k hk' => h2 k (by simp [hk']), ?_, ?_, ?_, ?_, by omega⟩
        · intro g hg hgk
          rcases List.mem_cons.mp hg with e | e
          · subst e; rw [hk] at hgk; cases hgk
          · exact List.mem_cons_of_mem _ (h3 g e hgk)
        · intro g hg hgk
          rcases List.mem_cons.mp hg with e | e
          · subst e; exact h2 _ (by simp)
          · exact h4 g e hgk
        · intro k hk'
          rcases h5 k hk' with e | e
          · rcases List.mem_append.mp e with e | e
            · exact Or.inl e
            · simp at e; subst e; exact Or.inr (by simp)
          · exact Or.inr (List.mem_cons_of_mem _ e)
        · intro k hk'
          rcases h6 k hk' with e | ⟨g, hg, e1, e2⟩
          · rcases List.mem_append.mp e with e | e
            · exact Or.inl e
            · simp at e; subst e; exact Or.inr ⟨f, by simp, hk, rfl⟩
          · exact Or.inr ⟨g, List.mem_cons_of_mem _ hg, e1, e2⟩
    · have hk' : f.isKey = false := by simpa using hk
      have ih := projFields_spec name fs ka hka
      simp only [projFields, hk', Bool.not_false, ↓reduceIte, List.filter_cons, List.length_cons] at ih ⊢
      obtain ⟨h1, h2, h3, h4, h5, h6, h7⟩ := ih
      refine ⟨h1, h2, ?_, ?_, ?_, ?_, by omega⟩
      · intro g hg hgk
        rcases List.mem_cons.mp hg with e | e
        · subst e; simp
        · exact List.mem_cons_of_mem _ (h3 g e hgk)
      · intro g hg hgk
        rcases List.mem_cons.mp hg with e | e
        · subst e; rw [hk'] at hgk; cases hgk
        · exact h4 g e hgk
      · intro k hkk
        rcases h5 k hkk with e | e
        · exact Or.inl e
        · exact Or.inr (List.mem_cons_of_mem _ e)
      · intro k hkk
        rcases h6 k hkk with e | ⟨g, hg, e1, e2⟩
        · exact Or.inl e
        · exact Or.inr ⟨g, List.mem_cons_of_mem _ hg, e1, e2⟩



/-- number of non-key columns of the named relations -/
def nonKeyCount (db : DB) : List String → Nat
  | [] => 0
  | name :: rest =>
    (match db.rel? name with
      | some r => (r.fields.filter (fun f => !f.isKey)).length
      | none => 0) + nonKeyCount db rest

/-- `k` is the name of a key column of one of the named relations -/
def IsKeyOf (db : DB) (rels : List String) (k : String) : Prop :=
  ∃ name ∈ rels, ∃ rel, db.rel? name = some rel ∧ ∃ f ∈ rel.fields, f.isKey = true ∧ f.name = k

theorem projectAllAux_spec (db : DB) :
    (rels : List String) → (ka : List String) → (qs : List QName) → ka.Nodup →
    projectAllAux db rels ka = .ok qs →
    (∀ name ∈ rels, ∀ rel, db.rel? name = some rel → ∀ f ∈ rel.fields, f.isKey = false → (name, f.name) ∈ qs) ∧
    ∃ kaF : List String, kaF.Nodup ∧ (∀ k ∈ ka, k ∈ kaF) ∧
      (∀ k, IsKeyOf db rels k → k ∈ kaF) ∧
      (∀ k ∈ kaF, k ∈ ka ∨ (IsKeyOf db rels k ∧ ∃ name ∈ rels, (name, k) ∈ qs)) ∧
      qs.length + ka.length = nonKeyCount db rels + kaF.length
  | [], ka, qs, hka, h => by
    simp only [projectAllAux] at h
    cases h
    refine ⟨by simp, ka, hka, fun k hk => hk, ?_, fun k hk => Or.inl hk, by simp [nonKeyCount]⟩
    intro k ⟨name, hn, _⟩
    simp at hn
  | name :: rest, ka, qs, hka, h => by
    simp only [projectAllAux] at h
    split at h
    · cases h
    · rename_i r hr
      split at h
      · cases h
      · rename_i more hmore
        cases h
        obtain ⟨p1, p2, p3, p4, p5, p6, p7⟩ := projFields_spec name r.fields ka hka
        obtain ⟨q1, kaF, q2, q3, q4, q5, q6⟩ :=
          projectAllAux_spec db rest (projFields name r.fields ka).2 more p1 hmore
        refine ⟨?_, kaF, q2, fun k hk => q3 k (p2 k hk), ?_, ?_, ?_⟩
        · intro n hn rel hrel f hf hfk
          rcases List.mem_cons.mp hn with e | e
          · subst e
            rw [hr] at hrel; cases hrel
            exact List.mem_append_left _ (p3 f hf hfk)
          · exact List.mem_append_right _ (q1 n e rel hrel f hf hfk)
        · intro k ⟨n, hn, rel, hrel, f, hf, hfk, hfn⟩
          rcases List.mem_cons.mp hn with e | e
          · subst e
            rw [hr] at hrel; cases hrel
            exact q3 k (hfn ▸ p4 f hf hfk)
          · exact q4 k ⟨n, e, rel, hrel, f, hf, hfk, hfn⟩
        · intro k hk
          rcases q5 k hk with e | ⟨⟨n, hn, rest'⟩, n', hn', hq⟩
          · rcases p6 k e with e'' | ⟨f, hf, hfk, hfn⟩
            · exact Or.inl e''
            · rcases p5 k e with e' | e'
              · exact Or.inl e'
              · exact Or.inr ⟨⟨name, by simp, r, hr, f, hf, hfk, hfn⟩, name, by simp, List.mem_append_left _ e'⟩
          · exact Or.inr ⟨⟨n, List.mem_cons_of_mem _ hn, rest'⟩, n', List.mem_cons_of_mem _ hn', List.mem_append_right _ hq⟩
        · simp only [List.length_append, nonKeyCount, hr]
          omega


/-! ## what the index of a joined selection denotes (any number of relations) -/

theorem dictGet_dictAdd {α} (d : List (Key × α)) (k : Key) (v : α) (k' : Key) (p : α)
    (h : dictGet (dictAdd d k v) k' = some p) : dictGet d k' = some p ∨ (k' = k ∧ p = v) := by
  unfold dictAdd at h
  split at h
  · exact Or.inl h
  · rw [dictGet_append] at h
    cases hd : dictGet d k' with
    | some x => rw [hd] at h; exact Or.inl h
    | none =>
      rw [hd] at h
      simp only at h
      split at h
      · rename_i e; cases h; exact Or.inr ⟨e.symm, rfl⟩
      · cases h

/-- where an entry of the index after the first loop of `_merge_fields` comes from: an old entry, or
the `i`-th new field `f` under its unqualified name, its qualified name, or — if `f` is a key — its
key name (`_key_index`) -/
def Origin1 (ix0 : List (Key × Nat)) (name : String) (offset : Nat) (all : List Field) (m : Nat)
    (key : Key) (p : Nat) : Prop :=
  dictGet ix0 key = some p ∨
  ∃ i f, i < m ∧ all[i]? = some f ∧ p = offset + i ∧
    (key = .u f.name ∨ key = .q name f.name ∨ (key = .k f.name ∧ f.isKey = true))

theorem mergeStep_origin (name : String) (offset : Nat) (ix : List (Key × Nat)) (f : Field) (n : Nat)
    (key : Key) (p : Nat) (h : dictGet (mergeStep name offset ix (f, n)) key = some p) :
    dictGet ix key = some p ∨
    (p = offset + n ∧ (key = .u f.name ∨ key = .q name f.name ∨ (key = .k f.name ∧ f.isKey = true))) := by
  cases key with
  | u c =>
    rw [mergeStep_get_u] at h
    rcases dictGet_dictAdd _ _ _ _ _ h with e | ⟨e1, e2⟩
    · exact Or.inl e
    · exact Or.inr ⟨e2, Or.inl e1⟩
  | q rn c =>
    rw [mergeStep_get_q] at h
    split at h
    · rename_i e
      cases h
      exact Or.inr ⟨rfl, Or.inr (Or.inl e.symm)⟩
    · exact Or.inl h
  | k c =>
    rw [mergeStep_get_k] at h
    split at h
    · rename_i hk
      rcases dictGet_dictAdd _ _ _ _ _ h with e | ⟨e1, e2⟩
      · exact Or.inl e
      · exact Or.inr ⟨e2, Or.inr (Or.inr ⟨e1, hk⟩)⟩
    · exact Or.inl h

theorem mergeFold_origin (ix0 : List (Key × Nat)) (name : String) (offset : Nat) (all : List Field) :
    (fs : List Field) → (n : Nat) → (ix : List (Key × Nat)) → all.drop n = fs →
    (∀ key p, dictGet ix key = some p → Origin1 ix0 name offset all n key p) →
    ∀ key p, dictGet ((fs.zipIdx n).foldl (mergeStep name offset) ix) key = some p →
      Origin1 ix0 name offset all all.length key p
  | [], n, ix, hdrop, hinv => by
    intro key p h
    simp only [List.zipIdx_nil, List.foldl_nil] at h
    rcases hinv key p h with e | ⟨i, f, hi, hf, hp, hk⟩
    · exact Or.inl e
    · refine Or.inr ⟨i, f, ?_, hf, hp, hk⟩
      rcases Nat.lt_or_ge i all.length with h' | h'
      · exact h'
      · rw [List.getElem?_eq_none h'] at hf; cases hf
  | f :: fs, n, ix, hdrop, hinv => by
    have hf : all[n]? = some f := by
      have := congrArg (fun l => l[0]?) hdrop
      simpa [List.getElem?_drop] using this
    have hdrop' : all.drop (n + 1) = fs := by
      have := congrArg List.tail hdrop
      simpa [List.tail_drop] using this
    simp only [List.zipIdx_cons, List.foldl_cons]
    apply mergeFold_origin ix0 name offset all fs (n + 1) _ hdrop'
    intro key p h
    rcases mergeStep_origin name offset ix f n key p h with e | ⟨hp, hk⟩
    · rcases hinv key p e with e' | ⟨i, g, hi, hg, hp, hk⟩
      · exact Or.inl e'
      · exact Or.inr ⟨i, g, by omega, hg, hp, hk⟩
    · exact Or.inr ⟨n, f, by omega, hf, hp, hk⟩

/-- where an entry of the index after `_merge_fields` comes from: an old entry, a new column
(`offset + i`), or a shared key aliased to the selection's KEY column of that name (`_key_index`) -/
def Origin (ix0 : List (Key × Nat)) (name : String) (offset : Nat) (all : List Field) (on : List String)
    (key : Key) (p : Nat) : Prop :=
  Origin1 ix0 name offset all all.length key p ∨
  ∃ k ∈ on, key = .q name k ∧ Origin1 ix0 name offset all all.length (.k k) p

theorem onFold_origin (ix0 : List (Key × Nat)) (name : String) (offset : Nat) (all : List Field)
    (on0 : List String) :
    (on : List String) → (∀ k ∈ on, k ∈ on0) → (ix : List (Key × Nat)) →
    (∀ key p, dictGet ix key = some p → Origin ix0 name offset all on0 key p) →
    ∀ key p, dictGet (on.foldl (fun ix nm => match dictGet ix (.k nm) with
        | some i => dictSet ix (.q name nm) i
        | none => ix) ix) key = some p → Origin ix0 name offset all on0 key p
  | [], _, ix, hinv => by simpa using hinv
  | k :: on, hsub, ix, hinv => by
    simp only [List.foldl_cons]
    apply onFold_origin ix0 name offset all on0 on (fun x hx => hsub x (by simp [hx]))
    intro key p h
    split at h
    · rename_i i hi
      rw [dictGet_dictSet] at h
      split at h
      · rename_i e
        cases h
        rcases hinv (.k k) p hi with o | ⟨k', _, e', _⟩
        · exact Or.inr ⟨k, hsub k (by simp), e.symm, o⟩
        · cases e'
      · exact hinv key p h
    · exact hinv key p h

theorem mergeFields_origin (sel : Sel) (name : String) (on : List String) (fields : List Field) :
    ∀ key p, dictGet (mergeFields sel name on fields).index key = some p →
      Origin sel.index name sel.fields.length fields on key p := by
  intro key p h
  simp only [mergeFields] at h
  refine onFold_origin sel.index name sel.fields.length fields on on (fun _ h => h) _ ?_ key p h
  intro key p h
  exact Or.inl (mergeFold_origin sel.index name sel.fields.length fields fields 0 sel.index rfl
    (fun key p h => Or.inl h) key p h)



/-- each joined row is justified by one stored row per joined relation: every qualified entry
`n.c ↦ p` of the index points at a cell whose cast value is that of column `c` in the witness row
of relation `n` -/
def Witnessed (db : DB) (index : List (Key × Nat)) (joined : List String) (row : List Cell) : Prop :=
  ∃ w : String → List Cell,
    (∀ n ∈ joined, ∃ rel, db.rel? n = some rel ∧ w n ∈ rel.rows) ∧
    ∀ n c p, dictGet index (.q n c) = some p →
      ∃ rel, db.rel? n = some rel ∧ w n ∈ rel.rows ∧ (row.getD p noCell).val = (cellOf rel (w n) c).val

structure SelInv (db : DB) (sel : Sel) : Prop where
  fresh : sel.joined = [] → sel.fields = [] ∧ sel.index = []
  len : ∀ row ∈ sel.data, row.length = sel.fields.length
  bound : ∀ key p, dictGet sel.index key = some p → p < sel.fields.length
  joined : ∀ n c p, dictGet sel.index (.q n c) = some p → n ∈ sel.joined
  wit : ∀ row ∈ sel.data, Witnessed db sel.index sel.joined row

theorem getD_append_left' (l x : List Cell) (p : Nat) (h : p < l.length) :
    (l ++ x).getD p noCell = l.getD p noCell := by
  simp [List.getD_eq_getElem?_getD, List.getElem?_append_left h]

theorem getD_append_right' (l x : List Cell) (i : Nat) :
    (l ++ x).getD (l.length + i) noCell = x.getD i noCell := by
  simp [List.getD_eq_getElem?_getD, List.getElem?_append_right]

theorem pick_getD (rV : List Nat) (r : List Cell) (i j : Nat) (h : rV[i]? = some j) :
    (pick rV r).getD i noCell = r.getD j noCell := by
  simp [pick, List.getD_eq_getElem?_getD, List.getElem?_map, h]

theorem cellOf_eq (rel : Rel) (r : List Cell) (c : String) (j : Nat) (h : rel.fieldIdx? c = some j) :
    cellOf rel r c = r.getD j noCell := by
  simp [cellOf, h]

/-- the invariant is preserved by adding a relation's columns to the selection -/
theorem merge_inv (db : DB) (sel : Sel) (L : List (List Cell))
    (hbound : ∀ key p, dictGet sel.index key = some p → p < sel.fields.length)
    (hjoined : ∀ n c p, dictGet sel.index (.q n c) = some p → n ∈ sel.joined)
    (hL1 : ∀ l ∈ L, l.length = sel.fields.length)
    (hL4 : ∀ l ∈ L, Witnessed db sel.index sel.joined l)
    (name : String) (rel : Rel) (hrel : db.rel? name = some rel) (hnew : name ∉ sel.joined)
    (fields' : List Field) (rV : List Nat) (on : List String)
    (hrVlen : rV.length = fields'.length)
    (hrV : ∀ (i : Nat) (f : Field), fields'[i]? = some f → ∃ j, rV[i]? = some j ∧ rel.fieldIdx? f.name = some j)
    (data' : List (List Cell))
    (hdata : ∀ row' ∈ data', ∃ l ∈ L, ∃ r ∈ rel.rows, row' = l ++ pick rV r ∧
      ∀ k ∈ on, ∀ p, dictGet sel.index (.k k) = some p →
        ∃ j, rel.fieldIdx? k = some j ∧ (l.getD p noCell).val = (r.getD j noCell).val) :
    SelInv db (mergeFields { sel with data := data' } name on fields') := by
  have horigin := mergeFields_origin { sel with data := data' } name on fields'
  simp only at horigin
  have hb : ∀ key p, Origin1 sel.index name sel.fields.length fields' fields'.length key p →
      p < sel.fields.length + fields'.length := by
    intro key p o
    rcases o with e | ⟨i, f, hi, _, hp, _⟩
    · have := hbound key p e; omega
    · omega
  refine ⟨?_, ?_, ?_, ?_, ?_⟩
  · intro h; simp [mergeFields] at h
  · intro row' hrow'
    simp only [mergeFields] at hrow' ⊢
    obtain ⟨l, hl, r, _, e, _⟩ := hdata row' hrow'
    rw [e]
    simp [pick, hL1 l hl, hrVlen]
  · intro key p h
    simp only [mergeFields, List.length_append]
    rcases horigin key p h with o | ⟨k, _, _, o⟩
    · exact hb key p o
    · exact hb _ p o
  · intro n c p h
    simp only [mergeFields]
    rcases horigin (.q n c) p h with o | ⟨k, _, e, _⟩
    · rcases o with e | ⟨i, f, _, _, _, hk⟩
      · exact List.mem_append_left _ (hjoined n c p e)
      · rcases hk with hk | hk | ⟨hk, _⟩
        · cases hk
        · cases hk; simp
        · cases hk
    · cases e; simp
  · intro row' hrow'
    simp only [mergeFields] at hrow' ⊢
    obtain ⟨l, hl, r, hr, e, hagree⟩ := hdata row' hrow'
    obtain ⟨w, hwj, hw⟩ := hL4 l hl
    have hlen := hL1 l hl
    refine ⟨fun n => if n = name then r else w n, ?_, ?_⟩
    · intro n hn
      rcases List.mem_append.mp hn with hn | hn
      · have hne : n ≠ name := fun e => hnew (e ▸ hn)
        obtain ⟨rel', h1, h2⟩ := hwj n hn
        exact ⟨rel', h1, by simpa [hne] using h2⟩
      · simp only [List.mem_singleton] at hn
        subst hn
        exact ⟨rel, hrel, by simpa using hr⟩
    intro n c p h
    -- a new column of `name`
    have newcol : ∀ i f, i < fields'.length → fields'[i]? = some f → p = sel.fields.length + i →
        (row'.getD p noCell).val = (cellOf rel r f.name).val := by
      intro i f _ hf hp
      obtain ⟨j, hj1, hj2⟩ := hrV i f hf
      rw [e, hp, ← hlen, getD_append_right', pick_getD rV r i j hj1, cellOf_eq rel r f.name j hj2]
    have old : ∀ key, dictGet sel.index key = some p → row'.getD p noCell = l.getD p noCell := by
      intro key hk
      rw [e, getD_append_left' _ _ _ (by rw [hlen]; exact hbound key p hk)]
    rcases horigin (.q n c) p h with o | ⟨k, hk, ekey, o⟩
    · rcases o with eold | ⟨i, f, hi, hf, hp, hkey⟩
      · have hn : n ≠ name := fun en => hnew (en ▸ hjoined n c p eold)
        obtain ⟨rel', h1, h2, h3⟩ := hw n c p eold
        refine ⟨rel', h1, by simpa [hn] using h2, ?_⟩
        simp only [hn, if_false]
        rw [old _ eold, h3]
      · rcases hkey with hkey | hkey | ⟨hkey, _⟩
        · cases hkey
        · cases hkey
          exact ⟨rel, hrel, by simpa using hr, by simpa using newcol i f hi hf hp⟩
        · cases hkey
    · cases ekey
      refine ⟨rel, hrel, by simpa using hr, ?_⟩
      simp only [if_true]
      rcases o with eold | ⟨i, f, hi, hf, hp, hkey⟩
      · obtain ⟨j, hj, hv⟩ := hagree c hk p eold
        rw [old _ eold, hv, cellOf_eq rel r c j hj]
      · rcases hkey with hkey | hkey | ⟨hkey, _⟩
        · cases hkey
        · cases hkey
        · cases hkey
          exact newcol i f hi hf hp



theorem filterMap_aligned {α β} (g : α → Option β) :
    (fs : List α) → (∀ f ∈ fs, (g f).isSome) →
    (fs.filterMap g).length = fs.length ∧
    ∀ (i : Nat) (f : α), fs[i]? = some f → ∃ j, (fs.filterMap g)[i]? = some j ∧ g f = some j
  | [], _ => by simp
  | a :: fs, h => by
    have ih := filterMap_aligned g fs (fun f hf => h f (by simp [hf]))
    have ha := h a (by simp)
    cases hga : g a with
    | none => simp [hga] at ha
    | some b =>
      refine ⟨by simp [hga, ih.1], ?_⟩
      intro i f hf
      cases i with
      | zero => simp at hf; subst hf; exact ⟨b, by simp [hga], hga⟩
      | succ i =>
        simp at hf
        obtain ⟨j, h1, h2⟩ := ih.2 i f hf
        exact ⟨j, by simpa [List.filterMap_cons, hga] using h1, h2⟩

theorem field_of_indices (rel : Rel) (cols : List String) (indices : List Nat)
    (hm : cols.mapM rel.fieldIdx? = some indices) (d : Field) :
    ∀ (i : Nat) (f : Field), (indices.map (fun i => rel.fields.getD i d))[i]? = some f →
      ∃ j, indices[i]? = some j ∧ rel.fieldIdx? f.name = some j := by
  intro i f hf
  simp only [List.getElem?_map, Option.map_eq_some_iff] at hf
  obtain ⟨j, hj, hfj⟩ := hf
  obtain ⟨col, _, hcol⟩ := mapM_some_getElem _ cols indices hm i j hj
  have := fieldIdx_name rel col j hcol d
  rw [hfj] at this
  exact ⟨j, hj, by rw [this]; exact hcol⟩

theorem agreeOn_spec (sel : Sel) (rel : Rel) (on : List String) (l r : List Cell)
    (h : agreeOn sel rel on l r = true) :
    ∀ k ∈ on, ∀ p, dictGet sel.index (.k k) = some p →
      ∃ j, rel.fieldIdx? k = some j ∧ (l.getD p noCell).val = (r.getD j noCell).val := by
  intro k hk p hp
  simp only [agreeOn, List.all_eq_true] at h
  have := h k hk
  rw [hp] at this
  cases hj : rel.fieldIdx? k with
  | none => simp [hj] at this
  | some j =>
    simp only [hj, decide_eq_true_eq] at this
    exact ⟨j, rfl, this⟩

theorem nestedStep_inv (db : DB) (sel sel' : Sel) (j : String × List String) (hinv : SelInv db sel)
    (h : nestedStep db sel j = .ok sel') : SelInv db sel' := by
  unfold nestedStep at h
  by_cases hc : sel.joined.contains j.1 = true
  · simp only [hc, if_true] at h; cases h
  · simp only [hc] at h
    have hnew : j.1 ∉ sel.joined := by simpa using hc
    cases hrel : db.rel? j.1 with
    | none => simp only [hrel] at h; cases h
    | some rel =>
      simp only [hrel] at h
      cases hm : j.2.mapM rel.fieldIdx? with
      | none => simp only [hm] at h; cases h
      | some indices =>
        simp only [hm] at h
        by_cases he : sel.joined.isEmpty = true
        · simp only [he, if_true] at h
          cases h
          have hj : sel.joined = [] := by simpa using he
          obtain ⟨hf, hi⟩ := hinv.fresh hj
          refine merge_inv db sel [[]] hinv.bound hinv.joined (by simp [hf])
            (by
              intro l _
              refine ⟨fun _ => [], ?_, ?_⟩
              · intro n hn; rw [hj] at hn; cases hn
              · intro n c p hp; rw [hi] at hp; simp [dictGet] at hp)
            j.1 rel hrel hnew _ indices [] (by simp) (field_of_indices rel j.2 indices hm _) _ ?_
          intro row' hrow'
          simp only [List.mem_map] at hrow'
          obtain ⟨r, hr, e⟩ := hrow'
          exact ⟨[], by simp, r, hr, by simp [e], by simp⟩
        · simp only [he] at h
          by_cases hon : (sharedKeys sel (indices.map (fun i => rel.fields.getD i ⟨"", .string, false⟩))).isEmpty = true
          · simp only [hon, if_true] at h; cases h
          · simp only [hon] at h
            cases h
            have hsome : ∀ f ∈ (indices.map (fun i => rel.fields.getD i ⟨"", .string, false⟩)).filter
                (fun f => !(sharedKeys sel (indices.map (fun i => rel.fields.getD i ⟨"", .string, false⟩))).contains f.name),
                (rel.fieldIdx? f.name).isSome := by
              intro f hf
              obtain ⟨i, hi⟩ := List.mem_iff_getElem?.mp (List.mem_filter.mp hf).1
              obtain ⟨jx, _, hjx⟩ := field_of_indices rel j.2 indices hm _ i f hi
              simp [hjx]
            have hal := filterMap_aligned (fun f : Field => rel.fieldIdx? f.name) _ hsome
            refine merge_inv db sel sel.data hinv.bound hinv.joined hinv.len hinv.wit
              j.1 rel hrel hnew _ _ _ hal.1 hal.2 _ ?_
            intro row' hrow'
            simp only [List.mem_flatMap, List.mem_map, List.mem_filter] at hrow'
            obtain ⟨l, hl, r, ⟨hr, hag⟩, e⟩ := hrow'
            exact ⟨l, hl, r, hr, e.symm, agreeOn_spec sel rel _ l r hag⟩

theorem nestedJoins_inv (db : DB) : (sel : Sel) → (js : List (String × List String)) → (sel' : Sel) →
    SelInv db sel → nestedJoins db sel js = .ok sel' → SelInv db sel'
  | sel, [], sel', hinv, h => by
    simp only [nestedJoins] at h; cases h; exact hinv
  | sel, j :: js, sel', hinv, h => by
    simp only [nestedJoins] at h
    split at h
    · cases h
    · rename_i s1 hs1
      exact nestedJoins_inv db s1 js sel' (nestedStep_inv db sel s1 j hinv hs1) h

theorem selInv_empty (db : DB) : SelInv db Sel.empty :=
  ⟨fun _ => ⟨rfl, rfl⟩, by simp [Sel.empty], by simp [Sel.empty, dictGet], by simp [Sel.empty, dictGet],
   by simp [Sel.empty]⟩



/-- the cast value of column `qn` in the witness rows `w` (one stored row per relation) -/
def valW (db : DB) (w : String → List Cell) (qn : QName) : Val :=
  match db.rel? qn.1 with
  | some rel => (cellOf rel (w qn.1) qn.2).val
  | none => .none

mutual
/-- a resolved condition evaluated on witness rows -/
def evalW (rx : List Char → List Char → Bool) (db : DB) (w : String → List Cell) : Cond QName → Bool
  | .leaf op q l => evalLeaf rx op (valW db w q) l
  | .not c => !evalW rx db w c
  | .and cs => evalWAll rx db w cs
  | .or cs => evalWAny rx db w cs
def evalWAll (rx : List Char → List Char → Bool) (db : DB) (w : String → List Cell) : List (Cond QName) → Bool
  | [] => true
  | c :: cs => evalW rx db w c && evalWAll rx db w cs
def evalWAny (rx : List Char → List Char → Bool) (db : DB) (w : String → List Cell) : List (Cond QName) → Bool
  | [] => false
  | c :: cs => evalW rx db w c || evalWAny rx db w cs
end

/-- `w` justifies `row` under `index` -/
def WitBy (db : DB) (index : List (Key × Nat)) (row : List Cell) (w : String → List Cell) : Prop :=
  ∀ n c p, dictGet index (.q n c) = some p →
    ∃ rel, db.rel? n = some rel ∧ w n ∈ rel.rows ∧ (row.getD p noCell).val = (cellOf rel (w n) c).val

theorem WitBy.val {db : DB} {index : List (Key × Nat)} {row : List Cell} {w : String → List Cell}
    (H : WitBy db index row w) (q : QName) (p : Nat) (h : dictGet index (.q q.1 q.2) = some p) :
    (row.getD p noCell).val = valW db w q := by
  obtain ⟨rel, h1, _, h3⟩ := H q.1 q.2 p h
  simp only [valW, h1]
  exact h3

mutual
theorem evalCond_evalW (rx : List Char → List Char → Bool) (db : DB) (ix : List (Key × Nat))
    (row : List Cell) (w : String → List Cell) (H : WitBy db ix row w) :
    (c : Cond QName) → (ci : Cond Nat) → indexCond ix c = .ok ci → evalCond rx row ci = evalW rx db w c
  | .leaf op q l, ci, h => by
    simp only [indexCond] at h
    split at h
    · cases h
    · rename_i i hi
      cases h
      simp only [evalCond, evalW, H.val q i hi]
  | .not c, ci, h => by
    simp only [indexCond] at h
    split at h
    · cases h
    · rename_i c' hc
      cases h
      simp only [evalCond, evalW, evalCond_evalW rx db ix row w H c c' hc]
  | .and cs, ci, h => by
    simp only [indexCond] at h
    split at h
    · cases h
    · rename_i cs' hc
      cases h
      simp only [evalCond, evalW, (evalConds_evalW rx db ix row w H cs cs' hc).1]
  | .or cs, ci, h => by
    simp only [indexCond] at h
    split at h
    · cases h
    · rename_i cs' hc
      cases h
      simp only [evalCond, evalW, (evalConds_evalW rx db ix row w H cs cs' hc).2]
theorem evalConds_evalW (rx : List Char → List Char → Bool) (db : DB) (ix : List (Key × Nat))
    (row : List Cell) (w : String → List Cell) (H : WitBy db ix row w) :
    (cs : List (Cond QName)) → (cis : List (Cond Nat)) → indexConds ix cs = .ok cis →
    evalAll rx row cis = evalWAll rx db w cs ∧ evalAny rx row cis = evalWAny rx db w cs
  | [], cis, h => by
    simp only [indexConds] at h
    cases h
    simp [evalAll, evalAny, evalWAll, evalWAny]
  | c :: cs, cis, h => by
    simp only [indexConds] at h
    split at h
    · cases h
    · rename_i c' hc
      split at h
      · cases h
      · rename_i cs' hcs
        cases h
        have h1 := evalCond_evalW rx db ix row w H c c' hc
        have h2 := evalConds_evalW rx db ix row w H cs cs' hcs
        simp only [evalAll, evalAny, evalWAll, evalWAny, h1, h2.1, h2.2, and_self]
end

/-- `cells` are, position by position, cells carrying the cast values of the columns `proj` in
the witness rows `w` -/
def CellsOf (db : DB) (w : String → List Cell) (proj : List QName) (cells : List Cell) : Prop :=
  cells.length = proj.length ∧
  ∀ (i : Nat) (qn : QName), proj[i]? = some qn → ∃ cell, cells[i]? = some cell ∧
    (∃ rel, db.rel? qn.1 = some rel ∧ w qn.1 ∈ rel.rows) ∧ cell.val = valW db w qn

/-- every projected cell carries the cast value of its column in the witness rows -/
theorem proj_witnessed (db : DB) (ix : List (Key × Nat)) (row : List Cell) (w : String → List Cell)
    (H : WitBy db ix row w) :
    (proj : List QName) → (pidx : List Nat) →
    proj.mapM (fun q => dictGet ix (.q q.1 q.2)) = some pidx →
    CellsOf db w proj (pick pidx row)
  | [], pidx, h => by
    simp at h; subst h; simp [pick, CellsOf]
  | q :: proj, pidx, h => by
    rw [List.mapM_cons] at h
    cases hq : dictGet ix (.q q.1 q.2) with
    | none => simp [hq] at h
    | some i =>
      cases hl : proj.mapM (fun q => dictGet ix (.q q.1 q.2)) with
      | none => simp [hq, hl] at h
      | some is =>
        simp [hq, hl] at h
        subst h
        have ih := proj_witnessed db ix row w H proj is hl
        simp only [pick, CellsOf, List.map_cons, List.length_cons] at ih ⊢
        refine ⟨by omega, ?_⟩
        intro k qn hk
        cases k with
        | zero =>
          simp only [List.getElem?_cons_zero, Option.some.injEq] at hk ⊢
          subst hk
          obtain ⟨rel, h1, h2, _⟩ := H q.1 q.2 i hq
          exact ⟨_, rfl, ⟨rel, h1, h2⟩, H.val q i hq⟩
        | succ k =>
          simp only [List.getElem?_cons_succ] at hk ⊢
          exact ih.2 k qn hk

theorem select_sound_aux (rx : List Char → List Char → Bool) (db : DB) (q : Query) (res : Result)
    (h : select rx db q = .ok res) :
    ∃ proj cond, resolveProj db q = .ok proj ∧ resolveQCond db q = .ok cond ∧
      ∀ out ∈ res.rows, ∃ (w : String → List Cell) (cells : List Cell),
        out = cells.map (·.raw) ∧
        CellsOf db w proj cells ∧
        (∀ c, cond = some c → evalW rx db w c = true) := by
  obtain ⟨proj, cond, plan, sel, rows, _, hproj, hcond, _, hsel, hrows, hres⟩ := select_inv h
  refine ⟨proj, cond, hproj, hcond, ?_⟩
  rw [runJoins_eq_nestedJoins] at hsel
  have hinv := nestedJoins_inv db Sel.empty plan.joins sel (selInv_empty db) hsel
  rw [hres]
  simp only
  intro out hout
  unfold finish at hrows
  split at hrows
  · cases hrows
  · rename_i pidx hp
    cases cond with
    | none =>
      simp only at hrows
      cases hrows
      simp only [List.mem_map] at hout
      obtain ⟨row, hrow, e⟩ := hout
      obtain ⟨w, hwj, hw⟩ := hinv.wit row hrow
      exact ⟨w, pick pidx row, e.symm, proj_witnessed db sel.index row w hw proj pidx hp,
        by intro c hc; cases hc⟩
    | some c =>
      simp only at hrows
      split at hrows
      · cases hrows
      · rename_i ci hci
        cases hrows
        simp only [List.mem_map, List.mem_filter] at hout
        obtain ⟨row, ⟨hrow, hev⟩, e⟩ := hout
        obtain ⟨w, hwj, hw⟩ := hinv.wit row hrow
        refine ⟨w, pick pidx row, e.symm, proj_witnessed db sel.index row w hw proj pidx hp, ?_⟩
        intro c' hc'
        cases hc'
        rw [← evalCond_evalW rx db sel.index row w hw c ci hci]
        exact hev


/-! ## the planner -/

/-- column `c` of relation `r` is requested by the join map / plan -/
def Covered (jm : JoinMap) (r c : String) : Prop := ∃ cols, (r, cols) ∈ jm ∧ c ∈ cols

theorem jmAdd_covers (jm : JoinMap) (r c : String) : Covered (jmAdd jm r c) r c := by
  unfold jmAdd
  split
  · rename_i h
    obtain ⟨p, hp, he⟩ := List.any_eq_true.mp h
    have he' : p.1 = r := by simpa using he
    refine ⟨p.2 ++ [c], ?_, by simp⟩
    apply List.mem_map.mpr
    exact ⟨p, hp, by simp [he']⟩
  · exact ⟨[c], by simp, by simp⟩

theorem jmAdd_mono (jm : JoinMap) (r c r' c' : String) (h : Covered jm r' c') :
    Covered (jmAdd jm r c) r' c' := by
  obtain ⟨cols, hm, hc⟩ := h
  unfold jmAdd
  split
  · by_cases e : r' = r
    · refine ⟨cols ++ [c], ?_, by simp [hc]⟩
      apply List.mem_map.mpr
      exact ⟨(r', cols), hm, by simp [e]⟩
    · refine ⟨cols, ?_, hc⟩
      apply List.mem_map.mpr
      exact ⟨(r', cols), hm, by simp [e]⟩
  · exact ⟨cols, by simp [hm], hc⟩

theorem jmAdd_names (jm : JoinMap) (r c : String) (x : String × List String) (h : x ∈ jmAdd jm r c) :
    x.1 = r ∨ ∃ y ∈ jm, y.1 = x.1 := by
  unfold jmAdd at h
  split at h
  · obtain ⟨y, hy, e⟩ := List.mem_map.mp h
    right
    refine ⟨y, hy, ?_⟩
    split at e <;> simp [← e]
  · rcases List.mem_append.mp h with h | h
    · exact Or.inr ⟨x, h, rfl⟩
    · simp at h; left; simp [h]

theorem foldl_jmAdd_covers (qs : List QName) : ∀ (jm : JoinMap),
    (∀ q ∈ qs, Covered (qs.foldl (fun jm q => jmAdd jm q.1 q.2) jm) q.1 q.2) ∧
    (∀ r c, Covered jm r c → Covered (qs.foldl (fun jm q => jmAdd jm q.1 q.2) jm) r c) := by
  induction qs with
  | nil => intro jm; exact ⟨by simp, fun r c h => h⟩
  | cons q qs ih =>
    intro jm
    have ih' := ih (jmAdd jm q.1 q.2)
    refine ⟨?_, fun r c h => ih'.2 r c (jmAdd_mono jm _ _ r c h)⟩
    intro x hx
    rcases List.mem_cons.mp hx with e | e
    · rw [e]; exact ih'.2 _ _ (jmAdd_covers jm q.1 q.2)
    · exact ih'.1 x e

/-- the loop "always add keys" for one relation -/
def addKeys (qs : List QName) (r : String) (ks : List String) (jm : JoinMap) : JoinMap :=
  ks.foldl (fun jm k => if qs.contains (r, k) then jm else jmAdd jm r k) jm

theorem addKeys_mono (qs : List QName) (r : String) : ∀ (ks : List String) (jm : JoinMap) r' c',
    Covered jm r' c' → Covered (addKeys qs r ks jm) r' c' := by
  intro ks
  induction ks with
  | nil => intro jm r' c' h; exact h
  | cons k ks ih =>
    intro jm r' c' h
    simp only [addKeys, List.foldl_cons]
    apply ih
    split
    · exact h
    · exact jmAdd_mono jm r k r' c' h

theorem addKeys_covers (qs : List QName) (r : String) : ∀ (ks : List String) (jm : JoinMap),
    (∀ q ∈ qs, Covered jm q.1 q.2) → ∀ k ∈ ks, Covered (addKeys qs r ks jm) r k := by
  intro ks
  induction ks with
  | nil => intro jm _ k hk; simp at hk
  | cons k0 ks ih =>
    intro jm hq k hk
    simp only [addKeys, List.foldl_cons]
    have hmono : ∀ q ∈ qs, Covered (if qs.contains (r, k0) then jm else jmAdd jm r k0) q.1 q.2 := by
      intro q hq'
      split
      · exact hq q hq'
      · exact jmAdd_mono jm r k0 _ _ (hq q hq')
    rcases List.mem_cons.mp hk with e | e
    · subst e
      apply addKeys_mono
      split
      · rename_i hc
        have : (r, k) ∈ qs := by simpa using hc
        exact hq (r, k) this
      · exact jmAdd_covers jm r k
    · exact ih _ hmono k e



theorem allKeys_covers (db : DB) (qs : List QName) : ∀ (all : List String) (jm : JoinMap),
    (∀ q ∈ qs, Covered jm q.1 q.2) →
    let jm1 := all.foldl (fun jm r => addKeys qs r (keyNamesOf db r) jm) jm
    (∀ r c, Covered jm r c → Covered jm1 r c) ∧
    (∀ r ∈ all, ∀ k ∈ keyNamesOf db r, Covered jm1 r k) := by
  intro all
  induction all with
  | nil => intro jm _; exact ⟨fun r c h => h, by simp⟩
  | cons r0 all ih =>
    intro jm hq
    have hq' : ∀ q ∈ qs, Covered (addKeys qs r0 (keyNamesOf db r0) jm) q.1 q.2 :=
      fun q hq1 => addKeys_mono qs r0 _ jm _ _ (hq q hq1)
    have ih' := ih (addKeys qs r0 (keyNamesOf db r0) jm) hq'
    simp only [List.foldl_cons] at ih' ⊢
    refine ⟨fun r c h => ih'.1 r c (addKeys_mono qs r0 _ jm r c h), ?_⟩
    intro r hr k hk
    rcases List.mem_cons.mp hr with e | e
    · subst e
      exact ih'.1 r k (addKeys_covers qs r _ jm hq k hk)
    · exact ih'.2 r e k hk

/-- keys of the relations joined so far -/
def keysOfJoins (db : DB) (js : List (String × List String)) : List String :=
  js.flatMap (fun p => keyNamesOf db p.1)

/-- every step after `jk` has been collected has a KEY column named like one of the keys joined so far -/
def validFrom (db : DB) (jk : List String) : List (String × List String) → Bool
  | [] => true
  | p :: ps => intersects jk (keyNamesOf db p.1) && validFrom db (jk ++ keyNamesOf db p.1) ps

/-- a join order is valid if every join but the first has a KEY column named like a key of a
relation joined before it (the order loop of `_plan_joins` after commit e207678) -/
def validPlan (db : DB) : List (String × List String) → Bool
  | [] => true
  | p :: ps => validFrom db (keyNamesOf db p.1) ps

theorem validFrom_append (db : DB) : ∀ (qs : List (String × List String)) (jk : List String)
    (p : String × List String),
    validFrom db jk (qs ++ [p]) = (validFrom db jk qs && intersects (jk ++ keysOfJoins db qs) (keyNamesOf db p.1)) := by
  intro qs
  induction qs with
  | nil => intro jk p; simp [validFrom, keysOfJoins]
  | cons q qs ih =>
    intro jk p
    simp only [List.cons_append, validFrom, ih, keysOfJoins, List.flatMap_cons, List.append_assoc,
      Bool.and_assoc]

theorem validPlan_snoc (db : DB) (joins : List (String × List String)) (p : String × List String)
    (hv : validPlan db joins = true)
    (hp : (joins.isEmpty || intersects (keysOfJoins db joins) (keyNamesOf db p.1)) = true) :
    validPlan db (joins ++ [p]) = true := by
  cases joins with
  | nil => simp [validPlan, validFrom]
  | cons q qs =>
    simp only [List.cons_append, validPlan, validFrom_append, Bool.and_eq_true]
    simp only [validPlan] at hv
    refine ⟨hv, ?_⟩
    simpa [keysOfJoins] using hp

theorem orderJoins_spec (db : DB) : ∀ (n : Nat) (jm : JoinMap) (joins : List (String × List String))
    (jk : List String) (out : List (String × List String)),
    jk = keysOfJoins db joins → validPlan db joins = true →
    orderJoins db n jm joins jk = .ok out →
    validPlan db out = true ∧ (∀ x, x ∈ joins ∨ x ∈ jm → x ∈ out) ∧ (∀ x ∈ out, x ∈ joins ∨ x ∈ jm) := by
  intro n
  induction n with
  | zero =>
    intro jm joins jk out hjk hv h
    cases jm with
    | nil =>
      simp only [orderJoins] at h; cases h
      exact ⟨hv, fun x hx => hx.elim id (by simp), fun x hx => Or.inl hx⟩
    | cons a as => simp [orderJoins] at h
  | succ n ih =>
    intro jm joins jk out hjk hv h
    cases jm with
    | nil =>
      simp only [orderJoins] at h; cases h
      exact ⟨hv, fun x hx => hx.elim id (by simp), fun x hx => Or.inl hx⟩
    | cons a as =>
      simp only [orderJoins] at h
      split at h
      · cases h
      · rename_i p hfind
        have hpmem : p ∈ a :: as := List.mem_of_find?_eq_some hfind
        have hpp := List.find?_some hfind
        have hv' : validPlan db (joins ++ [p]) = true :=
          validPlan_snoc db joins p hv (by rw [← hjk]; simpa using hpp)
        have hjk' : jk ++ keyNamesOf db p.1 = keysOfJoins db (joins ++ [p]) := by
          simp [keysOfJoins, hjk]
        obtain ⟨h1, h2, h3⟩ := ih _ _ _ out hjk' hv' h
        refine ⟨h1, ?_, ?_⟩
        · intro x hx
          rcases hx with hx | hx
          · exact h2 x (Or.inl (by simp [hx]))
          · by_cases e : x = p
            · exact h2 x (Or.inl (by simp [e]))
            · exact h2 x (Or.inr ((List.mem_erase_of_ne e).mpr hx))
        · intro x hx
          rcases h3 x hx with hx' | hx'
          · rcases List.mem_append.mp hx' with hx'' | hx''
            · exact Or.inl hx''
            · simp at hx''; subst hx''; exact Or.inr hpmem
          · exact Or.inr (List.mem_of_mem_erase hx')



theorem filter_partition_length {α} (p : α → Bool) (l : List α) :
    l.length = (l.filter p).length + (l.filter (fun x => !p x)).length := by
  induction l with
  | nil => simp
  | cons a l ih =>
    by_cases h : p a = true
    · simp [h, ih]; omega
    · have h' : p a = false := by simpa using h
      simp [h', ih]; omega

/-- a relation whose keys touch `m ≥ 2` components merges them into one -/
theorem mergeComp_length (comps : List (List String)) (keys : List String) (hk : keys ≠ [])
    (hm : 1 < (comps.filter (fun c => intersects keys c)).length) :
    1 ≤ (mergeComp comps keys).length ∧ (mergeComp comps keys).length + 1 ≤ comps.length := by
  have hp := filter_partition_length (fun c => intersects keys c) comps
  unfold mergeComp
  have : keys.isEmpty = false := by cases keys <;> simp_all
  simp only [this, Bool.false_eq_true, ↓reduceIte, List.length_cons]
  omega

theorem rel?_of_mem (db : DB) (hnd : (db.map (·.name)).Nodup) (r : Rel) (hr : r ∈ db) :
    db.rel? r.name = some r := by
  induction db with
  | nil => simp at hr
  | cons a db ih =>
    simp only [List.map_cons, List.nodup_cons] at hnd
    unfold DB.rel?
    rcases List.mem_cons.mp hr with e | e
    · subst e; simp
    · have hne : a.name ≠ r.name := by
        intro heq
        exact hnd.1 (List.mem_map.mpr ⟨r, e, heq.symm⟩)
      simp only [List.find?_cons, hne, decide_false]
      exact ih hnd.2 e

theorem components_snoc (db : DB) (L : List String) (r : String) :
    components db (L ++ [r]) = mergeComp (components db L) (keyNamesOf db r) := by
  simp [components, List.foldl_append]

/-- what `_pivot_relations` returns: linking relations that are not required, have more than
one key, and each of which reduced the number of key components by at least one -/
theorem pivotLoop_spec (db : DB) (hnd : (db.map (·.name)).Nodup) (relset : List String) :
    ∀ (n : Nat) (pivots out : List String), pivotLoop db n relset pivots = .ok out →
    ∃ extra, out = pivots ++ extra ∧
      (∀ r ∈ extra, r ∉ relset ∧ 1 < (keyNamesOf db r).length) ∧
      (components db (relset ++ out)).length ≤ 1 ∧
      (extra.length + (components db (relset ++ out)).length ≤ (components db (relset ++ pivots)).length) ∧
      (extra ≠ [] → 1 ≤ (components db (relset ++ out)).length) := by
  intro n
  induction n with
  | zero => intro pivots out h; simp [pivotLoop] at h
  | succ n ih =>
    intro pivots out h
    simp only [pivotLoop] at h
    split at h
    · rename_i hle
      cases h
      exact ⟨[], by simp, by simp, hle, by simp, by simp⟩
    · split at h
      · cases h
      · rename_i r hfind
        have hr := List.find?_some hfind
        have hmem := List.mem_of_find?_eq_some hfind
        simp only [Bool.and_eq_true, Bool.not_eq_true', decide_eq_true_eq] at hr
        obtain ⟨⟨hnot, hlen⟩, htouch⟩ := hr
        have hkeys : keyNamesOf db r.name = r.keyNames := by
          simp [keyNamesOf, rel?_of_mem db hnd r hmem]
        obtain ⟨extra, he, h1, h2, h3, h4⟩ := ih (pivots ++ [r.name]) out h
        have hne : r.keyNames ≠ [] := by intro e; rw [e] at hlen; simp at hlen
        have hml := mergeComp_length (components db (relset ++ pivots)) r.keyNames hne htouch
        have hsn : components db (relset ++ (pivots ++ [r.name]))
            = mergeComp (components db (relset ++ pivots)) r.keyNames := by
          rw [← List.append_assoc, components_snoc, hkeys]
        rw [hsn] at h3
        refine ⟨r.name :: extra, by simp [he], ?_, h2, by simp only [List.length_cons]; omega, ?_⟩
        · intro x hx
          rcases List.mem_cons.mp hx with e | e
          · subst e
            have : r.name ∉ relset ++ pivots := by simpa using hnot
            exact ⟨fun hc => this (List.mem_append_left _ hc), by rw [hkeys]; exact hlen⟩
          · exact h1 x e
        · intro _
          by_cases hex : extra = []
          · subst hex
            simp only [List.append_nil] at he
            rw [he, hsn]; exact hml.1
          · exact h4 hex



/-- all relation names of the join map are among `ns` -/
def NamesIn (jm : JoinMap) (ns : List String) : Prop := ∀ x ∈ jm, x.1 ∈ ns

theorem jmAdd_namesIn (jm : JoinMap) (r c : String) (ns : List String) (h : NamesIn jm ns) (hr : r ∈ ns) :
    NamesIn (jmAdd jm r c) ns := by
  intro x hx
  rcases jmAdd_names jm r c x hx with e | ⟨y, hy, e⟩
  · rw [e]; exact hr
  · rw [← e]; exact h y hy

theorem addKeys_namesIn (qs : List QName) (r : String) (ns : List String) (hr : r ∈ ns) :
    ∀ (ks : List String) (jm : JoinMap), NamesIn jm ns → NamesIn (addKeys qs r ks jm) ns := by
  intro ks
  induction ks with
  | nil => intro jm h; exact h
  | cons k ks ih =>
    intro jm h
    simp only [addKeys, List.foldl_cons]
    apply ih
    split
    · exact h
    · exact jmAdd_namesIn jm r k ns h hr

theorem allKeys_namesIn (db : DB) (qs : List QName) (ns : List String) :
    ∀ (all : List String) (jm : JoinMap), (∀ r ∈ all, r ∈ ns) → NamesIn jm ns →
    NamesIn (all.foldl (fun jm r => addKeys qs r (keyNamesOf db r) jm) jm) ns := by
  intro all
  induction all with
  | nil => intro jm _ h; exact h
  | cons r all ih =>
    intro jm hall h
    simp only [List.foldl_cons]
    exact ih _ (fun x hx => hall x (by simp [hx]))
      (addKeys_namesIn qs r ns (hall r (by simp)) _ jm h)

theorem foldl_jmAdd_namesIn (ns : List String) : ∀ (qs : List QName) (jm : JoinMap),
    (∀ q ∈ qs, q.1 ∈ ns) → NamesIn jm ns → NamesIn (qs.foldl (fun jm q => jmAdd jm q.1 q.2) jm) ns := by
  intro qs
  induction qs with
  | nil => intro jm _ h; exact h
  | cons q qs ih =>
    intro jm hq h
    simp only [List.foldl_cons]
    exact ih _ (fun x hx => hq x (by simp [hx])) (jmAdd_namesIn jm q.1 q.2 ns h (hq q (by simp)))

/-- the relations a query requires: those of its `from` clause and of its columns -/
def requiredRels (projection condFs : List QName) (rels : List String) : List String :=
  (rels ++ ((projection ++ condFs).eraseDups.map (·.1))).eraseDups

theorem planJoins_valid_aux (db : DB) (hnd : (db.map (·.name)).Nodup) (projection condFs : List QName)
    (rels : List String) (plan : Plan) (h : planJoins db projection condFs rels = .ok plan) :
    validPlan db plan.joins = true ∧
    (∀ q ∈ projection ++ condFs, Covered plan.joins q.1 q.2) ∧
    (∀ r ∈ requiredRels projection condFs rels, (db.rel? r).isSome ∧
        ∀ k ∈ keyNamesOf db r, Covered plan.joins r k) ∧
    ∃ pivots : List String,
      (∀ p ∈ plan.joins, p.1 ∈ requiredRels projection condFs rels ++ pivots) ∧
      (∀ r ∈ pivots, r ∉ requiredRels projection condFs rels ∧ 1 < (keyNamesOf db r).length ∧
        ∀ k ∈ keyNamesOf db r, Covered plan.joins r k) ∧
      (pivots ≠ [] → pivots.length + 1 ≤ (components db (requiredRels projection condFs rels)).length) := by
  unfold planJoins at h
  simp only at h
  split at h
  · cases h
  · rename_i hex
    split at h
    · cases h
    · rename_i pivots hpiv
      split at h
      · cases h
      · rename_i joins hord
        cases h
        simp only
        obtain ⟨extra, he, hp1, _, hp3, hp4⟩ :=
          pivotLoop_spec db hnd _ _ [] pivots hpiv
        simp only [List.nil_append] at he
        subst he
        have hq0 := (foldl_jmAdd_covers (projection ++ condFs).eraseDups []).1
        have hk := allKeys_covers db (projection ++ condFs).eraseDups
          (requiredRels projection condFs rels ++ pivots) _ hq0
        obtain ⟨ho1, ho2, ho3⟩ := orderJoins_spec db _ _ [] [] joins rfl rfl hord
        have cov : ∀ r c, Covered (List.foldl (fun jm r => addKeys (projection ++ condFs).eraseDups r
            (keyNamesOf db r) jm) (List.foldl (fun jm q => jmAdd jm q.1 q.2) [] (projection ++ condFs).eraseDups)
            (requiredRels projection condFs rels ++ pivots)) r c → Covered joins r c := by
          intro r c ⟨cols, hm, hc⟩
          exact ⟨cols, ho2 _ (Or.inr hm), hc⟩
        refine ⟨ho1, ?_, ?_, pivots, ?_, ?_, ?_⟩
        · intro q hq
          exact cov _ _ (hk.1 _ _ (hq0 q (List.mem_eraseDups.mpr hq)))
        · intro r hr
          refine ⟨?_, fun k hk' => cov _ _ (hk.2 r (List.mem_append_left _ hr) k hk')⟩
          have : ¬ (requiredRels projection condFs rels).any (fun r => (db.rel? r).isNone) = true := hex
          simp only [List.any_eq_true, not_exists, not_and] at this
          have := this r hr
          cases hrel : db.rel? r <;> simp_all
        · intro p hp
          rcases ho3 p hp with e | e
          · simp at e
          · have hn := allKeys_namesIn db (projection ++ condFs).eraseDups
              (requiredRels projection condFs rels ++ pivots)
              (requiredRels projection condFs rels ++ pivots) _ (fun r hr => hr)
              (foldl_jmAdd_namesIn (requiredRels projection condFs rels ++ pivots) (projection ++ condFs).eraseDups [] ?_ (by intro x hx; simp at hx))
            · exact hn p e
            · intro q hq
              apply List.mem_append_left
              unfold requiredRels
              rw [List.mem_eraseDups]
              exact List.mem_append_right _ (List.mem_map.mpr ⟨q, hq, rfl⟩)
        · intro r hr
          exact ⟨(hp1 r hr).1, (hp1 r hr).2, fun k hk' => cov _ _ (hk.2 r (List.mem_append_right _ hr) k hk')⟩
        · intro hne
          have := hp4 hne
          simp only [List.append_nil] at hp3
          unfold requiredRels
          omega



/-! ### tree-linked schemas -/

/-- one relation joins the incidence forest relations — key names without closing a cycle iff no
two of its keys already lie in the same component -/
def treeStep (acc : Option (List (List String))) (ks : List String) : Option (List (List String)) :=
  match acc with
  | none => none
  | some comps =>
    if ks.Nodup ∧ comps.all (fun c => (ks.filter (fun k => c.contains k)).length ≤ 1)
    then some (mergeComp comps ks) else none

/-- "relations linked by key columns in a tree": the bipartite graph relations — key names is a
forest, i.e. any two relations are linked by at most one path of shared keys (decidable) -/
def treeLinked (db : DB) : Bool :=
  (db.foldl (fun acc r => treeStep acc r.keyNames) (some [])).isSome

def subsets {α} : List α → List (List α)
  | [] => [[]]
  | a :: l => (subsets l).map (a :: ·) ++ subsets l

/-- the plan for `from req` exists, is a valid join order, contains every required relation and at
most one relation more -/
def planOK (db : DB) (req : List String) : Bool :=
  match planJoins db [] [] req with
  | .error _ => false
  | .ok plan =>
    validPlan db plan.joins && req.all (fun r => plan.joins.any (fun p => p.1 = r))
      && decide (plan.joins.length ≤ req.length + 1)

/-- the TSDB core: item, run, parse, result -/
def coreSchema : DB :=
  [{ name := "item", fields := [⟨"i-id", .integer, true⟩, ⟨"i-input", .string, false⟩], rows := [] },
   { name := "run", fields := [⟨"run-id", .integer, true⟩, ⟨"r-comment", .string, false⟩], rows := [] },
   { name := "parse", fields := [⟨"parse-id", .integer, true⟩, ⟨"run-id", .integer, true⟩, ⟨"i-id", .integer, true⟩,
       ⟨"readings", .integer, false⟩], rows := [] },
   { name := "result", fields := [⟨"parse-id", .integer, true⟩, ⟨"result-id", .integer, false⟩, ⟨"mrs", .string, false⟩],
       rows := [] }]




/-! ## lexing what the printer writes -/



















theorem lexAt_fix_from (rest : List Char) : lexAt (kwFrom ++ ' ' :: rest) = some (.fix .from_, ' ' :: rest) := by
  simp [kwFrom, lexAt, isLetterC, lexWord, dropPrefix?]



theorem lexAt_fix (t : Tok) (h : printable (.fix t) = true) (rest : List Char) :
    lexAt (lexeme (.fix t) ++ ' ' :: rest) = some (.fix t, ' ' :: rest) := by
  cases t with
  | op o =>
    cases o <;> simp [lexeme, opLexeme, lexAt, isLetterC, isDigitC, lexSym]
  | str _ => simp [printable] at h
  | date _ => simp [printable] at h
  | int _ => simp [printable] at h
  | qid _ _ => simp [printable] at h
  | id _ => simp [printable] at h
  | from_ => simp [lexeme, kwFrom, lexAt, isLetterC, lexWord, dropPrefix?]
  | where_ => simp [lexeme, kwFrom, kwWhere, lexAt, isLetterC, lexWord, dropPrefix?]
  | report => simp [lexeme, kwFrom, kwWhere, kwReport, lexAt, isLetterC, lexWord, dropPrefix?]
  | and_ => simp [lexeme, kwFrom, kwWhere, kwReport, kwAnd, lexAt, isLetterC, lexWord, dropPrefix?]
  | or_ => simp [lexeme, kwFrom, kwWhere, kwReport, kwAnd, kwOr, lexAt, isLetterC, lexWord, dropPrefix?]
  | not_ => simp [lexeme, kwFrom, kwWhere, kwReport, kwAnd, kwOr, kwNot, lexAt, isLetterC, lexWord, dropPrefix?]
  | star => simp [lexeme, lexAt, isLetterC, isDigitC, lexSym]
  | dot => simp [lexeme, lexAt, isLetterC, isDigitC, lexSym]
  | lparen => simp [lexeme, lexAt, isLetterC, isDigitC, lexSym]
  | rparen => simp [lexeme, lexAt, isLetterC, isDigitC, lexSym]

theorem strBody_plain (q : Char) : ∀ (s rest : List Char), s.all (fun c => c ≠ q && c ≠ '\\') = true →
    strBody q (s ++ q :: rest) = some (s, rest) := by
  intro s
  induction s with
  | nil => intro rest _; rw [List.nil_append, strBody.eq_def]; simp
  | cons c s ih =>
    intro rest h
    simp only [List.all_cons, Bool.and_eq_true, decide_eq_true_eq, ne_eq] at h
    obtain ⟨⟨h1, h2⟩, h3⟩ := h
    rw [List.cons_append, strBody.eq_def]
    simp only [h1, h2, if_false]
    rw [ih rest (by simpa using h3)]
    rfl

theorem lexAt_str (s : List Char) (h : printable (.str s) = true) (rest : List Char) :
    lexAt (lexeme (.str s) ++ ' ' :: rest) = some (.str s, ' ' :: rest) := by
  simp only [printable] at h
  simp only [lexeme, List.cons_append, List.append_assoc, List.nil_append]
  simp only [lexAt, isLetterC, isDigitC]
  simp only [show (('a' ≤ '"' && '"' ≤ 'z') || ('A' ≤ '"' && '"' ≤ 'Z')) = false by decide,
    show (('0' ≤ '"' && '"' ≤ '9') || decide ('"' = '+') || decide ('"' = '-')) = false by decide,
    Bool.false_eq_true, if_false, lexSym]
  rw [strBody_plain '"' s _ h]
  rfl



theorem dropPrefix_append_none : ∀ (kw s : List Char) (x : Char) (rest : List Char), x ∉ kw →
    dropPrefix? kw s = none → dropPrefix? kw (s ++ x :: rest) = none := by
  intro kw
  induction kw with
  | nil => intro s x rest _ h; simp [dropPrefix?] at h
  | cons k kw ih =>
    intro s x rest hx h
    cases s with
    | nil =>
      have : k ≠ x := fun e => hx (by simp [e])
      simp [dropPrefix?, this]
    | cons c s =>
      simp only [List.cons_append, dropPrefix?] at h ⊢
      split
      · rename_i e
        simp only [e, if_true] at h
        exact ih s x rest (fun hm => hx (List.mem_cons_of_mem _ hm)) h
      · rfl

theorem letter_not_digit (c : Char) (h : isLetterC c = true) : isDigitC c = false := by
  simp only [isLetterC, Bool.or_eq_true, Bool.and_eq_true, decide_eq_true_eq] at h
  simp only [isDigitC, Bool.and_eq_false_iff, decide_eq_false_iff_not]
  right
  intro h2
  rcases h with ⟨h1, _⟩ | ⟨h1, _⟩
  · have := Char.le_trans h1 h2; revert this; decide
  · have := Char.le_trans h1 h2; revert this; decide



theorem month3_letters (a b c : Char) (h : isMonth3 a b c = true) :
    isLetterC a = true ∧ isLetterC b = true ∧ isLetterC c = true := by
  simp only [isMonth3, List.any_eq_true, Bool.and_eq_true, decide_eq_true_eq] at h
  obtain ⟨m, hm, ⟨rfl, rfl⟩, rfl⟩ := h
  have : ∀ m ∈ monthTriples, isLetterC m.1 = true ∧ isLetterC m.2.1 = true ∧ isLetterC m.2.2 = true := by
    decide
  exact this m hm

/-- the DDMMYY class cannot start at a letter unless a month name starts there -/
theorem matchDMY_letter (c : Char) (tl : List Char) (hc : isLetterC c = true)
    (hm : noMonthPrefix (c :: tl) = true) : matchDMY (c :: tl) = none := by
  have hd := letter_not_digit c hc
  have h3 : month3 (c :: tl) = none := by
    cases tl with
    | nil => simp [month3, hc]
    | cons b tl =>
      cases tl with
      | nil => simp [month3, hc]
      | cons d tl =>
        have hm' : isMonth3 c b d = false := by simpa [noMonthPrefix] using hm
        simp [month3, hc, hm']
  simp [matchDMY, dmyCore, dayOpts, monthOpts, twoDigits, dig1, hd, h3, firstSome]

theorem noMonthPrefix_append (s : List Char) (x : Char) (rest : List Char) (hs : s ≠ [])
    (hx : isLetterC x = false) (h : noMonthPrefix s = true) : noMonthPrefix (s ++ x :: rest) = true := by
  match s, hs, h with
  | [a], _, _ =>
    cases rest with
    | nil => rfl
    | cons y rest =>
      simp only [List.cons_append, List.nil_append, noMonthPrefix, Bool.not_eq_true']
      cases hmm : isMonth3 a x y with
      | false => rfl
      | true => have := (month3_letters a x y hmm).2.1; rw [hx] at this; cases this
  | [a, b], _, _ =>
    simp only [List.cons_append, List.nil_append, noMonthPrefix, Bool.not_eq_true']
    cases hmm : isMonth3 a b x with
    | false => rfl
    | true => have := (month3_letters a b x hmm).2.2; rw [hx] at this; cases this
  | a :: b :: c :: s, _, h => simpa [noMonthPrefix] using h

theorem span_id (cs : List Char) (x : Char) (rest : List Char) (h : cs.all isIdC = true)
    (hx : isIdC x = false) :
    (cs ++ x :: rest).takeWhile isIdC = cs ∧ (cs ++ x :: rest).dropWhile isIdC = x :: rest := by
  induction cs with
  | nil => simp [hx]
  | cons c cs ih =>
    simp only [List.all_cons, Bool.and_eq_true] at h
    simp [h.1, ih h.2]

theorem idRun_ident (s : List Char) (x : Char) (rest : List Char) (h : isIdent s = true)
    (hx : isIdC x = false) : idRun (s ++ x :: rest) = some (s, x :: rest) := by
  cases s with
  | nil => simp [isIdent] at h
  | cons c cs =>
    simp only [isIdent, Bool.and_eq_true] at h
    have hs := span_id cs x rest h.2 hx
    simp [idRun, h.1, hs.1, hs.2]

/-- the part of `lexWord` before identifiers finds nothing at a plain identifier followed by a
character that is neither a letter nor in any keyword -/
theorem lexWord_plain (s : List Char) (x : Char) (rest : List Char) (h : plainIdent s = true)
    (hx : isIdC x = false) (hxl : isLetterC x = false) :
    lexWord (s ++ x :: rest) =
      (match x :: rest with
        | '.' :: r' =>
          (match idRun r' with
            | some (b, r'') => some (.qid s b, r'')
            | none => some (.id s, x :: rest))
        | _ => some (.id s, x :: rest)) := by
  simp only [plainIdent, Bool.and_eq_true, Option.isNone_iff_eq_none] at h
  obtain ⟨⟨⟨⟨⟨⟨⟨⟨hid, h1⟩, h2⟩, h3⟩, h4⟩, h5⟩, h6⟩, h7⟩, h8⟩ := h
  have hnl : ∀ kw : List Char, kw.all isLetterC = true → x ∉ kw := by
    intro kw hk hm
    have := List.all_eq_true.mp hk x hm
    rw [hxl] at this; cases this
  have hne : s ≠ [] := by intro e; subst e; simp [isIdent] at hid
  have hdmy : matchDMY (s ++ x :: rest) = none := by
    cases s with
    | nil => exact absurd rfl hne
    | cons c cs =>
      simp only [isIdent, Bool.and_eq_true] at hid
      exact matchDMY_letter c _ hid.1 (noMonthPrefix_append (c :: cs) x rest hne hxl h8)
  unfold lexWord
  rw [dropPrefix_append_none kwFrom s x rest (hnl _ (by decide)) h1,
    dropPrefix_append_none kwWhere s x rest (hnl _ (by decide)) h2,
    dropPrefix_append_none kwReport s x rest (hnl _ (by decide)) h3,
    dropPrefix_append_none kwAnd s x rest (hnl _ (by decide)) h4,
    dropPrefix_append_none kwOr s x rest (hnl _ (by decide)) h5,
    dropPrefix_append_none kwNot s x rest (hnl _ (by decide)) h6, hdmy,
    dropPrefix_append_none kwNow s x rest (hnl _ (by decide)) h7, idRun_ident s x rest hid hx]
  rfl



theorem lexAt_word (s tail : List Char) (h : isIdent s = true) : lexAt (s ++ tail) = lexWord (s ++ tail) := by
  cases s with
  | nil => simp [isIdent] at h
  | cons c cs =>
    simp only [isIdent, Bool.and_eq_true] at h
    simp [lexAt, h.1]

theorem plainIdent_isIdent (s : List Char) (h : plainIdent s = true) : isIdent s = true := by
  simp only [plainIdent, Bool.and_eq_true] at h
  exact h.1.1.1.1.1.1.1.1

theorem lexAt_id (s : List Char) (h : printable (.id s) = true) (rest : List Char) :
    lexAt (lexeme (.id s) ++ ' ' :: rest) = some (.id s, ' ' :: rest) := by
  simp only [printable] at h
  simp only [lexeme]
  rw [lexAt_word s _ (plainIdent_isIdent s h), lexWord_plain s ' ' rest h (by decide) (by decide)]
  split
  · rename_i e; simp at e
  · rfl

theorem lexAt_qid (a b : List Char) (h : printable (.qid a b) = true) (rest : List Char) :
    lexAt (lexeme (.qid a b) ++ ' ' :: rest) = some (.qid a b, ' ' :: rest) := by
  simp only [printable, Bool.and_eq_true] at h
  simp only [lexeme, List.append_assoc, List.cons_append]
  rw [lexAt_word a _ (plainIdent_isIdent a h.1), lexWord_plain a '.' _ h.1 (by decide) (by decide)]
  simp only
  rw [idRun_ident b ' ' rest h.2 (by decide)]



theorem digit_ne_dash (c : Char) (h : isDigitC c = true) : c ≠ '-' := by
  intro e; subst e; revert h; decide

theorem digit_not_letter (c : Char) (h : isDigitC c = true) : isLetterC c = false := by
  cases hl : isLetterC c with
  | false => rfl
  | true => rw [letter_not_digit c hl] at h; cases h

theorem take_lexeme (l r : List Char) : lexemeOf (l ++ r) r = l := by
  simp [lexemeOf]

theorem span_digits (ds : List Char) (x : Char) (rest : List Char) (h : ds.all isDigitC = true)
    (hx : isDigitC x = false) :
    (ds ++ x :: rest).takeWhile isDigitC = ds ∧ (ds ++ x :: rest).dropWhile isDigitC = x :: rest := by
  induction ds with
  | nil => simp [hx]
  | cons c cs ih =>
    simp only [List.all_cons, Bool.and_eq_true] at h
    simp [h.1, ih h.2]

set_option linter.unusedSimpArgs false in
/-- digits followed by something that is neither a digit nor `-` are not the start of a date -/
theorem noDate_digits (ds : List Char) (x : Char) (rest : List Char) (hne : ds ≠ [])
    (h : ds.all isDigitC = true) (hx : isDigitC x = false) (hx' : x ≠ '-') :
    matchYMD (ds ++ x :: rest) = none ∧ matchDMY (ds ++ x :: rest) = none := by
  have nd : ∀ c, isDigitC c = true → (c = '-') = False := fun c hc => by simp [digit_ne_dash c hc]
  have nl : ∀ c, isDigitC c = true → isLetterC c = false := digit_not_letter
  match ds, hne, h with
  | [a], _, h =>
    simp only [List.all_cons, List.all_nil, Bool.and_true] at h
    constructor
    · simp [matchYMD, ymdCore, twoDigits, dig1, h, hx]
    · simp [matchDMY, dmyCore, dayOpts, monthOpts, twoDigits, dig1, dash, month3, yearPart, firstSome, h, hx, hx', nl a h]
  | [a, b], _, h =>
    simp only [List.all_cons, List.all_nil, Bool.and_true, Bool.and_eq_true] at h
    constructor
    · simp [matchYMD, ymdCore, twoDigits, dig1, h.1, h.2, hx]
    · simp [matchDMY, dmyCore, dayOpts, monthOpts, twoDigits, dig1, dash, month3, yearPart, firstSome, h.1, h.2, hx, hx',
        nl a h.1, nd b h.2]
  | [a, b, c], _, h =>
    simp only [List.all_cons, List.all_nil, Bool.and_true, Bool.and_eq_true] at h
    obtain ⟨ha, hb, hc⟩ := h
    constructor
    · simp [matchYMD, ymdCore, twoDigits, dig1, ha, hb, hc, hx]
    · simp [matchDMY, dmyCore, dayOpts, monthOpts, twoDigits, dig1, dash, month3, yearPart, firstSome, ha, hb, hc, hx, hx',
        nl a ha, nd b hb, nd c hc]
  | [a, b, c, d], _, h =>
    simp only [List.all_cons, List.all_nil, Bool.and_true, Bool.and_eq_true] at h
    obtain ⟨ha, hb, hc, hd⟩ := h
    constructor
    · simp [matchYMD, ymdCore, twoDigits, dig1, dash, ha, hb, hc, hd, hx, hx']
    · simp [matchDMY, dmyCore, dayOpts, monthOpts, twoDigits, dig1, dash, month3, yearPart, firstSome, ha, hb, hc, hx, hx',
        nl a ha, nd b hb, nd c hc]
  | a :: b :: c :: d :: e :: ds, _, h =>
    simp only [List.all_cons, Bool.and_eq_true] at h
    obtain ⟨ha, hb, hc, hd, he, _⟩ := h
    constructor
    · simp [matchYMD, ymdCore, twoDigits, dig1, dash, ha, hb, hc, hd, nd e he]
    · simp [matchDMY, dmyCore, dayOpts, monthOpts, twoDigits, dig1, dash, month3, yearPart, firstSome, ha, hb, hc,
        nl a ha, nd b hb, nd c hc]


theorem lexNum_digits (ds : List Char) (rest : List Char) (hne : ds ≠ []) (h : ds.all isDigitC = true) :
    lexNum (ds ++ ' ' :: rest) = some (.int ds, ' ' :: rest) := by
  obtain ⟨h1, h2⟩ := noDate_digits ds ' ' rest hne h (by decide) (by decide)
  have hsp := span_digits ds ' ' rest h (by decide)
  have hbody : stripSign (ds ++ ' ' :: rest) = ds ++ ' ' :: rest := by
    cases ds with
    | nil => exact absurd rfl hne
    | cons c cs =>
      simp only [List.all_cons, Bool.and_eq_true] at h
      have hp : c ≠ '+' := by intro e; subst e; exact absurd h.1 (by decide)
      have hm : c ≠ '-' := digit_ne_dash c h.1
      simp [stripSign, hp, hm]
  have he : ds.isEmpty = false := by cases ds <;> simp_all
  simp only [lexNum, h1, h2, hbody, hsp.1, hsp.2, he, Bool.false_eq_true, if_false, take_lexeme]

theorem lexNum_signed (sg : Char) (hsg : sg = '+' ∨ sg = '-') (ds : List Char) (rest : List Char)
    (hne : ds ≠ []) (h : ds.all isDigitC = true) :
    lexNum (sg :: ds ++ ' ' :: rest) = some (.int (sg :: ds), ' ' :: rest) := by
  have hsp := span_digits ds ' ' rest h (by decide)
  have hd : isDigitC sg = false := by rcases hsg with e | e <;> (subst e; decide)
  have hl : isLetterC sg = false := by rcases hsg with e | e <;> (subst e; decide)
  have h1 : matchYMD (sg :: (ds ++ ' ' :: rest)) = none := by
    simp [matchYMD, ymdCore, twoDigits, dig1, hd]
  have h2 : matchDMY (sg :: (ds ++ ' ' :: rest)) = none := by
    simp [matchDMY, dmyCore, dayOpts, monthOpts, twoDigits, dig1, month3, firstSome, hd, hl]
  have he : ds.isEmpty = false := by cases ds <;> simp_all
  have hbody : stripSign (sg :: (ds ++ ' ' :: rest)) = ds ++ ' ' :: rest := by
    rcases hsg with e | e <;> (subst e; simp [stripSign])
  have hlex : lexemeOf (sg :: (ds ++ ' ' :: rest)) (' ' :: rest) = sg :: ds := by
    have := take_lexeme (sg :: ds) (' ' :: rest)
    simpa using this
  simp only [List.cons_append, lexNum, h1, h2, hbody, hsp.1, hsp.2, he, Bool.false_eq_true, if_false, hlex]

theorem lexAt_int (s : List Char) (h : printable (.int s) = true) (rest : List Char) :
    lexAt (lexeme (.int s) ++ ' ' :: rest) = some (.int s, ' ' :: rest) := by
  simp only [printable] at h
  simp only [lexeme]
  cases s with
  | nil => simp [isIntLexeme] at h
  | cons c cs =>
    by_cases hp : c = '+'
    · subst hp
      simp only [isIntLexeme, Bool.and_eq_true, Bool.not_eq_true', List.isEmpty_eq_false_iff] at h
      have := lexNum_signed '+' (Or.inl rfl) cs rest h.1 h.2
      simpa [lexAt, isLetterC, isDigitC] using this
    · by_cases hm : c = '-'
      · subst hm
        simp only [isIntLexeme, Bool.and_eq_true, Bool.not_eq_true', List.isEmpty_eq_false_iff] at h
        have := lexNum_signed '-' (Or.inr rfl) cs rest h.1 h.2
        simpa [lexAt, isLetterC, isDigitC] using this
      · have hall : (c :: cs).all isDigitC = true := by
          unfold isIntLexeme at h
          split at h
          · rename_i e; cases e; exact absurd rfl hp
          · rename_i e; cases e; exact absurd rfl hm
          · simp only [Bool.and_eq_true] at h; exact h.2
        have hc : isDigitC c = true := by simp only [List.all_cons, Bool.and_eq_true] at hall; exact hall.1
        have := lexNum_digits (c :: cs) rest (by simp) hall
        simp only [List.cons_append] at this ⊢
        simp only [lexAt, digit_not_letter c hc, hc, Bool.false_eq_true, if_false, Bool.true_or, if_true]
        exact this



theorem timeTail_safe (rest : List Char) (h : dateSafe rest = true) :
    timeTail (' ' :: rest) = ' ' :: rest := by
  have hsp : isSpaceC ' ' = true := by decide
  unfold dateSafe at h
  unfold timeTail
  simp only [List.dropWhile_cons, hsp, if_true]
  cases hd : rest.dropWhile isSpaceC with
  | nil => simp [timeParen, timeBare, hhmm, twoDigits, dig1]
  | cons c r =>
    rw [hd] at h
    simp only [Bool.and_eq_true, decide_eq_true_eq, Bool.not_eq_true', ne_eq] at h
    simp [timeParen, timeBare, h.1, hhmm, twoDigits, dig1, h.2]

theorem lexAt_ymd (s : List Char) (h : printable (.ymd s) = true) (rest : List Char)
    (hsafe : dateSafe rest = true) :
    lexAt (lexeme (.ymd s) ++ ' ' :: rest) = some (.ymd s, ' ' :: rest) := by
  simp only [printable] at h
  simp only [lexeme]
  unfold isDateYMD at h
  split at h
  · rename_i a b c d m1 m2 d1 d2
    simp only [Bool.and_eq_true] at h
    obtain ⟨⟨⟨⟨⟨⟨⟨ha, hb⟩, hc⟩, hd⟩, hm1⟩, hm2⟩, hd1⟩, hd2⟩ := h
    have hl := digit_not_letter _ ha
    have hlex : lexemeOf ([a, b, c, d, '-', m1, m2, '-', d1, d2] ++ ' ' :: rest) (' ' :: rest)
        = [a, b, c, d, '-', m1, m2, '-', d1, d2] := take_lexeme _ _
    simp only [List.cons_append, List.nil_append] at hlex ⊢
    simp [lexAt, hl, ha, lexNum, matchYMD, ymdCore, twoDigits, dig1, dash, monthOpts, dayPart, hb, hc, hd, hm1, hm2,
      hd1, hd2, timeTail_safe rest hsafe, hlex]
  · cases h



/-- the printer's rendering: every token followed by one space -/
def render (ts : List LTok) : List Char := ts.flatMap (fun t => lexeme t ++ [' '])

def headSafe (t : LTok) : Bool :=
  match lexeme t with
  | c :: _ => c ≠ '(' && !isDigitC c
  | [] => true

/-- a date is followed by nothing, or by a token that does not start with `(` or a digit (in the
printer's output: `)`, `and`, `or`, `where` or the final `.`) -/
def seqOK : List LTok → Bool
  | [] => true
  | [_] => true
  | .ymd _ :: t :: ts => headSafe t && seqOK (t :: ts)
  | _ :: t :: ts => seqOK (t :: ts)

theorem lexAt_printable (t : LTok) (h : printable t = true) (rest : List Char)
    (hsafe : (∃ s, t = .ymd s) → dateSafe rest = true) :
    lexAt (lexeme t ++ ' ' :: rest) = some (t, ' ' :: rest) := by
  cases t with
  | fix t => exact lexAt_fix t h rest
  | str s => exact lexAt_str s h rest
  | ymd s => exact lexAt_ymd s h rest (hsafe ⟨s, rfl⟩)
  | dmy s => simp [printable] at h
  | kwdate s => simp [printable] at h
  | int s => exact lexAt_int s h rest
  | qid a b => exact lexAt_qid a b h rest
  | id s => exact lexAt_id s h rest

theorem space_cases (c : Char) (h : isSpaceC c = true) :
    c = ' ' ∨ c = '\t' ∨ c = '\n' ∨ c = '\r' ∨ c = '\x0b' ∨ c = '\x0c' := by
  simp only [isSpaceC, Bool.or_eq_true, decide_eq_true_eq] at h
  rcases h with ((((e | e) | e) | e) | e) | e <;> simp [e]

theorem nonspace_of (p : Char → Bool) (hp : p ' ' = false ∧ p '\t' = false ∧ p '\n' = false ∧ p '\r' = false
    ∧ p '\x0b' = false ∧ p '\x0c' = false) (c : Char) (h : p c = true) : isSpaceC c = false := by
  cases hs : isSpaceC c with
  | false => rfl
  | true =>
    rcases space_cases c hs with e | e | e | e | e | e <;> (subst e; simp_all)

theorem digit_not_space (c : Char) (h : isDigitC c = true) : isSpaceC c = false :=
  nonspace_of isDigitC (by decide) c h

theorem letter_not_space (c : Char) (h : isLetterC c = true) : isSpaceC c = false :=
  nonspace_of isLetterC (by decide) c h

/-- a printable token has a non-empty lexeme that does not start with white space -/
theorem lexeme_head (t : LTok) (h : printable t = true) :
    ∃ c cs, lexeme t = c :: cs ∧ isSpaceC c = false := by
  cases t with
  | fix t =>
    cases t <;> first
      | (simp [printable] at h; done)
      | exact ⟨_, _, rfl, by decide⟩
      | (rename_i o; cases o <;> exact ⟨_, _, rfl, by decide⟩)
  | str s => exact ⟨'"', s ++ ['"'], rfl, by decide⟩
  | ymd s =>
    simp only [printable] at h
    unfold isDateYMD at h
    split at h
    · simp only [Bool.and_eq_true] at h
      exact ⟨_, _, rfl, digit_not_space _ h.1.1.1.1.1.1.1⟩
    · cases h
  | dmy s => simp [printable] at h
  | kwdate s => simp [printable] at h
  | int s =>
    simp only [printable] at h
    cases s with
    | nil => simp [isIntLexeme] at h
    | cons c cs =>
      refine ⟨c, cs, rfl, ?_⟩
      by_cases hp : c = '+'
      · subst hp; decide
      · by_cases hm : c = '-'
        · subst hm; decide
        · unfold isIntLexeme at h
          split at h
          · rename_i e; cases e; exact absurd rfl hp
          · rename_i e; cases e; exact absurd rfl hm
          · simp only [Bool.and_eq_true, List.all_cons] at h
            exact digit_not_space c h.2.1
  | qid a b =>
    simp only [printable, Bool.and_eq_true] at h
    have := plainIdent_isIdent a h.1
    cases a with
    | nil => simp [isIdent] at this
    | cons c cs =>
      simp only [isIdent, Bool.and_eq_true] at this
      exact ⟨c, cs ++ '.' :: b, rfl, letter_not_space c this.1⟩
  | id s =>
    simp only [printable] at h
    have := plainIdent_isIdent s h
    cases s with
    | nil => simp [isIdent] at this
    | cons c cs =>
      simp only [isIdent, Bool.and_eq_true] at this
      exact ⟨c, cs, rfl, letter_not_space c this.1⟩

theorem lexLine_space (n : Nat) (x : List Char) : lexLine n (' ' :: x) = lexLine n x := by
  cases n with
  | zero => rfl
  | succ n =>
    have : isSpaceC ' ' = true := by decide
    simp only [lexLine, List.dropWhile_cons, this, if_true]

theorem dateSafe_render (t : LTok) (ts : List LTok) (hp : printable t = true) (hs : headSafe t = true) :
    dateSafe (render (t :: ts)) = true := by
  obtain ⟨c, cs, hl, hc⟩ := lexeme_head t hp
  unfold headSafe at hs
  rw [hl] at hs
  simp only [render, List.flatMap_cons, hl, List.cons_append, dateSafe, List.dropWhile_cons, hc,
    Bool.false_eq_true, if_false]
  exact hs

/-- lexing the rendering of a printable token list gives back the list -/
theorem lexLine_render : ∀ (ts : List LTok) (n : Nat), ts.length < n →
    (∀ t ∈ ts, printable t = true) → seqOK ts = true → lexLine n (render ts) = .ok ts := by
  intro ts
  induction ts with
  | nil =>
    intro n hn _ _
    obtain ⟨m, rfl⟩ : ∃ m, n = m + 1 := ⟨n - 1, by simp at hn; omega⟩
    simp [render, lexLine]
  | cons t ts ih =>
    intro n hn hp hs
    simp only [List.length_cons] at hn
    obtain ⟨m, rfl⟩ : ∃ m, n = m + 1 := ⟨n - 1, by omega⟩
    have hpt := hp t (by simp)
    obtain ⟨c, cs, hl, hc⟩ := lexeme_head t hpt
    have hsafe : (∃ s, t = .ymd s) → dateSafe (render ts) = true := by
      intro ⟨s, e⟩
      subst e
      cases ts with
      | nil => rfl
      | cons t2 ts2 =>
        simp only [seqOK, Bool.and_eq_true] at hs
        exact dateSafe_render t2 ts2 (hp t2 (by simp)) hs.1
    have hs' : seqOK ts = true := by
      cases ts with
      | nil => rfl
      | cons t2 ts2 =>
        cases t <;> simp_all [seqOK]
    have hlex := lexAt_printable t hpt (render ts) hsafe
    have hr : render (t :: ts) = c :: (cs ++ ' ' :: render ts) := by
      simp [render, hl]
    rw [hr, lexLine]
    simp only [List.dropWhile_cons, hc, Bool.false_eq_true, if_false]
    rw [hl, List.cons_append] at hlex
    simp only [hlex, List.length_cons, List.length_append]
    rw [if_pos (by omega), lexLine_space, ih m (by omega) (fun x hx => hp x (by simp [hx])) hs']

/-- lexical token ↦ parser token; `iv` stands for `int(lexeme)`, `dv` for `tsdb.cast(':date', lexeme)` -/
def toTok (iv : List Char → Int) (dv : List Char → Option Nat) : LTok → Tok
  | .fix t => t
  | .str s => .str s
  | .ymd s => .date (dv s)
  | .dmy s => .date (dv s)
  | .kwdate s => .date (dv s)
  | .int s => .int (iv s)
  | .qid a b => .qid (String.ofList a) (String.ofList b)
  | .id s => .id (String.ofList s)



/-- the comparison that "a negation folded into the comparison below it" would evaluate -/
def Op.negated : Op → Op
  | .eq => .ne | .ne => .eq | .lt => .ge | .ge => .lt | .le => .gt | .gt => .le | .re => .nre | .nre => .re


/-! ## precedence and associativity: conditions written without parentheses -/

/-- a condition as it can be written without parentheses around `and`/`or`/`not` (members are
atoms: comparisons or parenthesised groups): full conjunctions joined by `or`, optionally ending in
a conjunction whose last member is `not` followed by another such condition -/
inductive Loose where
  | plain (cs : List (List (Cond ColRef))) (last : List (Cond ColRef))
  | neg (cs : List (List (Cond ColRef))) (pre : List (Cond ColRef)) (tl : Loose)

/-- `a₁ and … and aₘ and` -/
def prePart : List (Cond ColRef) → List Tok
  | [] => []
  | a :: as => pr 2 a ++ .and_ :: prePart as

/-- `c₁ or … or cₖ or` -/
def orPart : List (List (Cond ColRef)) → List Tok
  | [] => []
  | c :: cs => prList .and_ 2 c ++ .or_ :: orPart cs

/-- the token text -/
def Loose.toks : Loose → List Tok
  | .plain cs last => orPart cs ++ prList .and_ 2 last
  | .neg cs pre tl => orPart cs ++ (prePart pre ++ .not_ :: tl.toks)

/-- the disjuncts the documented grammar gives it: `and` binds tighter than `or`, both are n-ary and
flat, `not` takes everything to its right -/
def Loose.disjuncts : Loose → List (Cond ColRef)
  | .plain cs last => cs.map (mkJunction true) ++ [mkJunction true last]
  | .neg cs pre tl => cs.map (mkJunction true) ++ [mkJunction true (pre ++ [.not (mkJunction false tl.disjuncts)])]

def Loose.tree (l : Loose) : Cond ColRef := mkJunction false l.disjuncts

def atomsOK (as : List (Cond ColRef)) : Bool := as.all (fun a => nf a)

/-- members are normal-form atoms, conjunctions are non-empty, a condition is non-empty; a
conjunction of two or more members is the `and` node itself (so it must not be a single `and`) -/
def Loose.wf : Loose → Bool
  | .plain cs last => cs.all (fun c => !c.isEmpty && atomsOK c) && !last.isEmpty && atomsOK last
  | .neg cs pre tl => cs.all (fun c => !c.isEmpty && atomsOK c) && atomsOK pre && tl.wf

theorem prePart_ok : ∀ (pre : List (Cond ColRef)), atomsOK pre = true →
    ∀ (X : List Tok) (xs : List (Cond ColRef)) (rest : List Tok) (n : Nat),
    (∀ m, 3 * X.length ≤ m + 1 → parseConjList m (X ++ rest) = .ok (xs, rest)) →
    3 * (prePart pre ++ X).length ≤ n + 1 →
    parseConjList n (prePart pre ++ X ++ rest) = .ok (pre ++ xs, rest) := by
  intro pre
  induction pre with
  | nil => intro _ X xs rest n hX hn; simpa [prePart] using hX n (by simpa [prePart] using hn)
  | cons a as ih =>
    intro h X xs rest n hX hn
    simp only [atomsOK, List.all_cons, Bool.and_eq_true] at h
    have ha := (allOK a h.1).1
    have hpos := pr_pos 2 a h.1
    simp only [prePart, List.length_append, List.length_cons] at hn
    obtain ⟨m, rfl⟩ : ∃ m, n = m + 1 := ⟨n - 1, by omega⟩
    simp only [prePart, List.append_assoc, List.cons_append]
    rw [parseConjList, ha m (by omega)]
    simp only
    have := ih (by simpa [atomsOK] using h.2) X xs rest m hX (by simp only [List.length_append]; omega)
    simp only [List.append_assoc] at this
    rw [this]


theorem atoms_all (as : List (Cond ColRef)) (h : atomsOK as = true) :
    ∀ c ∈ as, AtomOK c ∧ 0 < (pr 2 c).length := by
  intro c hc
  have := List.all_eq_true.mp h c hc
  exact ⟨(allOK c this).1, pr_pos 2 c this⟩

theorem orPart_ok : ∀ (cs : List (List (Cond ColRef))),
    cs.all (fun c => !c.isEmpty && atomsOK c) = true →
    ∀ (X : List Tok) (xs : List (Cond ColRef)) (rest : List Tok) (n : Nat),
    (∀ m, 3 * X.length ≤ m → parseDisjList m (X ++ rest) = .ok (xs, rest)) →
    3 * (orPart cs ++ X).length ≤ n →
    parseDisjList n (orPart cs ++ X ++ rest) = .ok (cs.map (mkJunction true) ++ xs, rest) := by
  intro cs
  induction cs with
  | nil => intro _ X xs rest n hX hn; simpa [orPart] using hX n (by simpa [orPart] using hn)
  | cons c cs ih =>
    intro h X xs rest n hX hn
    simp only [List.all_cons, Bool.and_eq_true, Bool.not_eq_true', List.isEmpty_eq_false_iff] at h
    obtain ⟨⟨hne, hat⟩, hcs⟩ := h
    have hc := conjList_ok c hne (atoms_all c hat)
    simp only [orPart, List.length_append, List.length_cons] at hn
    obtain ⟨m, rfl⟩ : ∃ m, n = m + 1 := ⟨n - 1, by omega⟩
    simp only [orPart, List.append_assoc, List.cons_append]
    rw [parseDisjList, hc m (by omega) _ (by simp [NoAnd])]
    simp only
    have := ih hcs X xs rest m hX (by simp only [List.length_append]; omega)
    simp only [List.append_assoc] at this
    rw [this]
    simp

theorem lastPlain_ok (last : List (Cond ColRef)) (hne : last ≠ []) (hat : atomsOK last = true)
    (rest : List Tok) (hr : NoAnd rest) (ho : NoOr rest) :
    ∀ m, 3 * (prList .and_ 2 last).length ≤ m →
      parseDisjList m (prList .and_ 2 last ++ rest) = .ok ([mkJunction true last], rest) := by
  intro m hm
  have hpos : 0 < (prList .and_ 2 last).length := by
    cases last with
    | nil => exact absurd rfl hne
    | cons a as =>
      have := (atoms_all (a :: as) hat a (by simp)).2
      cases as with
      | nil => rw [prList_single]; exact this
      | cons b bs => rw [prList_cons_cons]; simp; omega
  obtain ⟨k, rfl⟩ : ∃ k, m = k + 1 := ⟨m - 1, by omega⟩
  rw [parseDisjList, conjList_ok last hne (atoms_all last hat) k (by omega) rest hr]
  simp only
  split
  · exact absurd rfl ho
  · rfl

theorem Loose.ok : (l : Loose) → l.wf = true →
    ∀ n, 3 * l.toks.length ≤ n → ∀ rest, NoAnd rest → NoOr rest →
      parseDisjList n (l.toks ++ rest) = .ok (l.disjuncts, rest)
  | .plain cs last, h => by
    simp only [Loose.wf, Bool.and_eq_true, Bool.not_eq_true', List.isEmpty_eq_false_iff] at h
    intro n hn rest hr ho
    simp only [Loose.toks, Loose.disjuncts]
    exact orPart_ok cs h.1.1 _ _ rest n (lastPlain_ok last h.1.2 h.2 rest hr ho) hn
  | .neg cs pre tl, h => by
    simp only [Loose.wf, Bool.and_eq_true] at h
    have ih := Loose.ok tl h.2
    intro n hn rest hr ho
    simp only [Loose.toks, Loose.disjuncts]
    refine orPart_ok cs h.1.1 _ _ rest n ?_ hn
    intro m hm
    have hposT : 0 < (prePart pre ++ Tok.not_ :: tl.toks).length := by simp; omega
    obtain ⟨k, rfl⟩ : ∃ k, m = k + 1 := ⟨m - 1, by omega⟩
    have hconj : parseConjList k (prePart pre ++ Tok.not_ :: tl.toks ++ rest)
        = .ok (pre ++ [.not (mkJunction false tl.disjuncts)], rest) := by
      refine prePart_ok pre h.1.2 (Tok.not_ :: tl.toks) _ rest k ?_ (by omega)
      intro j hj
      simp only [List.length_cons] at hj
      obtain ⟨i, rfl⟩ : ∃ i, j = i + 2 := ⟨j - 2, by omega⟩
      simp only [List.cons_append]
      rw [parseConjList, parseAtom, ih i (by omega) rest hr ho]
      simp only
      split
      · exact absurd rfl hr
      · rfl
    rw [parseDisjList, hconj]
    simp only
    split
    · exact absurd rfl ho
    · rfl

/-- the tree the parser builds for a condition written without parentheses -/
theorem Loose.parse (l : Loose) (h : l.wf = true) :
    ∀ n, 3 * l.toks.length ≤ n → ∀ rest, NoAnd rest → NoOr rest →
      parseDisj n (l.toks ++ rest) = .ok (l.tree, rest) := by
  intro n hn rest hr ho
  rw [parseDisj, Loose.ok l h n hn rest hr ho]
  rfl


/-! ## every spelling of a date: matchers do not look past a following space -/

/-- a matcher's verdict on `s` is unchanged when `s` is followed by a space and anything else -/
def Stable (m : List Char → Option (List Char)) : Prop :=
  ∀ s rest, m (s ++ ' ' :: rest) = (m s).map (· ++ ' ' :: rest)

def StableL (f : List Char → List (List Char)) : Prop :=
  ∀ s rest, f (s ++ ' ' :: rest) = (f s).map (· ++ ' ' :: rest)

theorem stable_dig1 : Stable dig1 := by
  intro s rest
  cases s with
  | nil => simp [dig1, isDigitC]
  | cons c s => simp only [List.cons_append, dig1]; split <;> rfl

theorem stable_char (p : Char) (hp : p ≠ ' ') (m : List Char → Option (List Char))
    (hm : ∀ s, m s = match s with | c :: r => if c = p then some r else none | [] => none) : Stable m := by
  intro s rest
  rw [hm, hm s]
  cases s with
  | nil => simp [Ne.symm hp]
  | cons c s => simp only [List.cons_append]; split <;> rfl

theorem stable_dash : Stable dash := stable_char '-' (by decide) dash (fun s => by cases s <;> rfl)
theorem stable_colon : Stable colon := stable_char ':' (by decide) colon (fun s => by cases s <;> rfl)
theorem stable_closeParen : Stable closeParen :=
  stable_char ')' (by decide) closeParen (fun s => by cases s <;> rfl)

theorem Stable.bind {m k : List Char → Option (List Char)} (hm : Stable m) (hk : Stable k) :
    Stable (fun s => (m s).bind k) := by
  intro s rest
  simp only [hm s rest]
  cases m s with
  | none => rfl
  | some r => simp [hk r rest]

theorem Stable.orElse {m k : List Char → Option (List Char)} (hm : Stable m) (hk : Stable k) :
    Stable (fun s => (m s).orElse (fun _ => k s)) := by
  intro s rest
  simp only [hm s rest, hk s rest]
  cases m s <;> simp

theorem stable_twoDigits : Stable twoDigits := stable_dig1.bind stable_dig1
theorem stable_hhmm : Stable hhmm := (stable_twoDigits.bind stable_colon).bind stable_twoDigits
theorem stable_colonTT : Stable colonTT := stable_colon.bind stable_twoDigits
theorem stable_timeBare : Stable timeBare := stable_hhmm.bind stable_colonTT
theorem stable_yearPart : Stable yearPart :=
  stable_dash.bind ((stable_twoDigits.bind stable_twoDigits).orElse stable_twoDigits)

theorem stable_month3 : Stable month3 := by
  intro s rest
  have hsp : isLetterC ' ' = false := by decide
  have nm : ∀ a b c, isLetterC b = false ∨ isLetterC c = false → isMonth3 a b c = false := by
    intro a b c h
    cases hm : isMonth3 a b c with
    | false => rfl
    | true =>
      have := month3_letters a b c hm
      rcases h with h | h
      · rw [this.2.1] at h; cases h
      · rw [this.2.2] at h; cases h
  match s with
  | [] => simp [month3, hsp]
  | [a] =>
    cases rest with
    | nil => simp only [List.cons_append, List.nil_append, month3]; split <;> rfl
    | cons c r =>
      simp only [List.cons_append, List.nil_append, month3, nm a ' ' c (Or.inl hsp)]
      split <;> rfl
  | [a, b] =>
    simp only [List.cons_append, List.nil_append, month3, nm a b ' ' (Or.inr hsp)]
    split <;> rfl
  | a :: b :: c :: s =>
    simp only [List.cons_append, month3]
    split
    · split <;> rfl
    · rfl

theorem stableL_monthOpts : StableL monthOpts := by
  intro s rest
  simp only [monthOpts, stable_twoDigits s rest, stable_dig1 s rest, stable_month3 s rest, List.map_append]
  cases twoDigits s <;> cases dig1 s <;> cases month3 s <;> rfl

theorem stableL_dayOpts : StableL dayOpts := by
  intro s rest
  have h1 := (stable_twoDigits.bind stable_dash) s rest
  have h2 := (stable_dig1.bind stable_dash) s rest
  simp only at h1 h2
  simp only [dayOpts, h1, h2, List.map_append]
  cases (twoDigits s).bind dash <;> cases (dig1 s).bind dash <;> rfl

theorem firstSome_stable {g : List Char → Option (List Char)} (hg : Stable g) (rest : List Char) :
    ∀ L : List (List Char), firstSome g (L.map (· ++ ' ' :: rest)) = (firstSome g L).map (· ++ ' ' :: rest) := by
  intro L
  induction L with
  | nil => rfl
  | cons a L ih =>
    simp only [List.map_cons, firstSome, hg a rest]
    cases g a with
    | none => simpa using ih
    | some b => rfl

theorem dayPart_ext (r rest : List Char) : dayPart (r ++ ' ' :: rest) = dayPart r ++ ' ' :: rest := by
  have h1 := (stable_dash.bind stable_dig1) r rest
  simp only at h1
  unfold dayPart
  rw [h1]
  cases (dash r).bind dig1 with
  | none => rfl
  | some r' =>
    simp only [Option.map_some, stable_dig1 r' rest]
    cases dig1 r' <;> rfl

theorem stable_ymdCore : Stable ymdCore := by
  have h : Stable (fun r => ((monthOpts r).head?).map dayPart) := by
    intro r rest
    simp only [stableL_monthOpts r rest]
    cases monthOpts r with
    | nil => rfl
    | cons a as => simp [dayPart_ext]
  exact ((stable_twoDigits.bind stable_twoDigits).bind stable_dash).bind h

theorem stable_dmyCore : Stable dmyCore := by
  have h : Stable (fun d => firstSome yearPart (monthOpts d)) := by
    intro d rest
    simp only [stableL_monthOpts d rest, firstSome_stable stable_yearPart]
  intro s rest
  simp only [dmyCore, stableL_dayOpts s rest, firstSome_stable h]



theorem stable_timeParen : Stable timeParen := by
  have hin : Stable (fun r => (hhmm r).bind (fun r1 => ((colonTT r1).bind closeParen).orElse (fun _ => closeParen r1))) :=
    stable_hhmm.bind ((stable_colonTT.bind stable_closeParen).orElse stable_closeParen)
  intro s rest
  cases s with
  | nil => simp [timeParen]
  | cons c s =>
    simp only [List.cons_append, timeParen]
    split
    · exact hin s rest
    · rfl

theorem dropWhile_append_ne {p : Char → Bool} : ∀ (l t : List Char), l.dropWhile p ≠ [] →
    (l ++ t).dropWhile p = l.dropWhile p ++ t := by
  intro l
  induction l with
  | nil => intro t h; simp at h
  | cons c l ih =>
    intro t h
    simp only [List.cons_append, List.dropWhile_cons] at h ⊢
    split
    · rename_i hc; simp only [hc, if_true] at h; exact ih t h
    · rfl

/-- a time that is completely spelled inside the lexeme is found again when a space follows -/
theorem timeTail_ext (r rest : List Char) (hne : r ≠ []) (h : timeTail r = []) :
    timeTail (r ++ ' ' :: rest) = ' ' :: rest := by
  unfold timeTail at h ⊢
  have hs1 : r.dropWhile isSpaceC ≠ [] := by
    intro e
    rw [e] at h
    have : (0 < r.length) := by cases r with | nil => exact absurd rfl hne | cons _ _ => simp
    simp [timeParen, timeBare, hhmm, twoDigits, dig1, this] at h
    exact hne h
  rw [dropWhile_append_ne r _ hs1]
  have hlen : ((r.dropWhile isSpaceC ++ ' ' :: rest).length < (r ++ ' ' :: rest).length)
      = ((r.dropWhile isSpaceC).length < r.length) := by
    simp only [List.length_append, List.length_cons]; apply propext; constructor <;> intro h <;> omega
  simp only [hlen, stable_timeParen _ rest, stable_timeBare _ rest]
  cases hA : timeParen (r.dropWhile isSpaceC) with
  | some x =>
    simp only [hA, Option.orElse_some] at h
    subst h
    simp
  | none =>
    simp only [hA, Option.orElse_none] at h
    by_cases hc : (r.dropWhile isSpaceC).length < r.length
    · simp only [hc, if_true] at h
      cases hB : timeBare (r.dropWhile isSpaceC) with
      | some x =>
        simp only [hB] at h; subst h
        simp [hc]
      | none => simp only [hB] at h; exact absurd h hne
    · simp only [hc, if_false] at h; exact absurd h hne





theorem date_ext (core : List Char → Option (List Char)) (hst : Stable core) (s rest : List Char)
    (h : (core s).map timeTail = some []) (hsafe : dateSafe rest = true) :
    (core (s ++ ' ' :: rest)).map timeTail = some (' ' :: rest) := by
  rw [hst s rest]
  cases hc : core s with
  | none => simp [hc] at h
  | some r =>
    simp only [hc, Option.map_some, Option.some.injEq] at h ⊢
    by_cases hr : r = []
    · subst hr; simpa using timeTail_safe rest hsafe
    · exact timeTail_ext r rest hr h

theorem matchYMD_ext (s rest : List Char) (h : isYMDLexeme s = true) (hsafe : dateSafe rest = true) :
    matchYMD (s ++ ' ' :: rest) = some (' ' :: rest) :=
  date_ext ymdCore stable_ymdCore s rest (by simpa [isYMDLexeme, matchYMD] using h) hsafe

theorem matchDMY_ext (s rest : List Char) (h : isDMYLexeme s = true) (hsafe : dateSafe rest = true) :
    matchYMD (s ++ ' ' :: rest) = none ∧ matchDMY (s ++ ' ' :: rest) = some (' ' :: rest) := by
  simp only [isDMYLexeme, Bool.and_eq_true, decide_eq_true_eq] at h
  constructor
  · have := stable_ymdCore s rest
    simp only [matchYMD] at h ⊢
    rw [this]
    cases hc : ymdCore s with
    | none => rfl
    | some r => simp [hc] at h
  · exact date_ext dmyCore stable_dmyCore s rest (by simpa [matchDMY] using h.2) hsafe



theorem ymd_head (s : List Char) (h : isYMDLexeme s = true) : ∃ c tl, s = c :: tl ∧ isDigitC c = true := by
  cases s with
  | nil => simp [isYMDLexeme, matchYMD, ymdCore, twoDigits, dig1] at h
  | cons c tl =>
    refine ⟨c, tl, rfl, ?_⟩
    cases hc : isDigitC c with
    | true => rfl
    | false => simp [isYMDLexeme, matchYMD, ymdCore, twoDigits, dig1, hc] at h

theorem lexAt_ymd_any (s : List Char) (h : isYMDLexeme s = true) (rest : List Char)
    (hsafe : dateSafe rest = true) : lexAt (s ++ ' ' :: rest) = some (.ymd s, ' ' :: rest) := by
  obtain ⟨c, tl, rfl, hc⟩ := ymd_head s h
  have hm := matchYMD_ext (c :: tl) rest h hsafe
  have hl : lexemeOf ((c :: tl) ++ ' ' :: rest) (' ' :: rest) = c :: tl := take_lexeme _ _
  simp only [List.cons_append] at hm hl ⊢
  simp only [lexAt, digit_not_letter c hc, hc, Bool.false_eq_true, if_false, Bool.true_or, if_true, lexNum, hm, hl]

theorem month_not_keyword (a b c : Char) (h : isMonth3 a b c = true) (tail : List Char) :
    dropPrefix? kwFrom (a :: b :: c :: tail) = none ∧ dropPrefix? kwWhere (a :: b :: c :: tail) = none ∧
    dropPrefix? kwReport (a :: b :: c :: tail) = none ∧ dropPrefix? kwAnd (a :: b :: c :: tail) = none ∧
    dropPrefix? kwOr (a :: b :: c :: tail) = none ∧ dropPrefix? kwNot (a :: b :: c :: tail) = none := by
  simp only [isMonth3, List.any_eq_true, Bool.and_eq_true, decide_eq_true_eq] at h
  obtain ⟨m, hm, ⟨rfl, rfl⟩, rfl⟩ := h
  simp only [monthTriples, List.mem_cons, List.not_mem_nil, or_false] at hm
  rcases hm with rfl | rfl | rfl | rfl | rfl | rfl | rfl | rfl | rfl | rfl | rfl | rfl <;>
    simp [dropPrefix?, kwFrom, kwWhere, kwReport, kwAnd, kwOr, kwNot]

theorem lexAt_dmy_any (s : List Char) (h : isDMYLexeme s = true) (rest : List Char)
    (hsafe : dateSafe rest = true) : lexAt (s ++ ' ' :: rest) = some (.dmy s, ' ' :: rest) := by
  obtain ⟨hy, hd⟩ := matchDMY_ext s rest h hsafe
  have hl : lexemeOf (s ++ ' ' :: rest) (' ' :: rest) = s := take_lexeme _ _
  simp only [isDMYLexeme, Bool.and_eq_true, decide_eq_true_eq] at h
  cases s with
  | nil => simp [matchDMY, dmyCore, dayOpts, monthOpts, twoDigits, dig1, month3, firstSome] at h
  | cons c tl =>
    simp only [List.cons_append] at hy hd hl ⊢
    by_cases hc : isDigitC c = true
    · simp only [lexAt, digit_not_letter c hc, hc, Bool.false_eq_true, if_false, Bool.true_or, if_true, lexNum,
        hy, hd, hl]
    · have hc' : isDigitC c = false := by simpa using hc
      have hlet : isLetterC c = true := by
        cases hl' : isLetterC c with
        | true => rfl
        | false =>
          have : matchDMY (c :: tl) = none := by
            simp [matchDMY, dmyCore, dayOpts, monthOpts, twoDigits, dig1, month3, firstSome, hc', hl']
          rw [this] at h; simp at h
      have hmon : noMonthPrefix (c :: tl) = false := by
        cases hn : noMonthPrefix (c :: tl) with
        | false => rfl
        | true => rw [matchDMY_letter c tl hlet hn] at h; simp at h
      match tl, hmon with
      | b :: d :: r, hmon =>
        have hm3 : isMonth3 c b d = true := by simpa [noMonthPrefix] using hmon
        obtain ⟨k1, k2, k3, k4, k5, k6⟩ := month_not_keyword c b d hm3 (r ++ ' ' :: rest)
        simp only [List.cons_append] at hd hl ⊢
        simp only [lexAt, hlet, if_true, lexWord, k1, k2, k3, k4, k5, k6, hd, hl]
      | [], hmon => simp [noMonthPrefix] at hmon
      | [_], hmon => simp [noMonthPrefix] at hmon



theorem strBody_wellQuoted (q : Char) : ∀ (n : Nat) (s rest : List Char), s.length ≤ n → wellQuoted q s = true →
    strBody q (s ++ q :: rest) = some (s, rest) := by
  intro n
  induction n with
  | zero =>
    intro s rest hn _
    have : s = [] := by cases s <;> simp_all
    subst this
    rw [List.nil_append, strBody.eq_def]; simp
  | succ n ih =>
    intro s rest hn h
    cases s with
    | nil => rw [List.nil_append, strBody.eq_def]; simp
    | cons c r =>
      rw [wellQuoted.eq_def] at h
      simp only at h
      by_cases hq : c = q
      · simp [hq] at h
      · simp only [hq, if_false] at h
        by_cases hb : c = '\\'
        · simp only [hb, if_true] at h
          cases r with
          | nil => simp at h
          | cons d r' =>
            simp only at h
            have := ih r' rest (by simp at hn; omega) h
            subst hb
            rw [List.cons_append, strBody.eq_def]
            simp only [hq, if_false, if_true, List.cons_append, this]
            rfl
        · simp only [hb, if_false] at h
          have := ih r rest (by simp at hn; omega) h
          rw [List.cons_append, strBody.eq_def]
          simp only [hq, if_false, hb, this]
          rfl



theorem dmy_head (s : List Char) (h : isDMYLexeme s = true) :
    ∃ c tl, s = c :: tl ∧ (isDigitC c = true ∨ isLetterC c = true) := by
  simp only [isDMYLexeme, Bool.and_eq_true, decide_eq_true_eq] at h
  cases s with
  | nil => simp [matchDMY, dmyCore, dayOpts, monthOpts, twoDigits, dig1, month3, firstSome] at h
  | cons c tl =>
    refine ⟨c, tl, rfl, ?_⟩
    cases hc : isDigitC c with
    | true => exact Or.inl rfl
    | false =>
      right
      cases hl' : isLetterC c with
      | true => rfl
      | false =>
        have : matchDMY (c :: tl) = none := by
          simp [matchDMY, dmyCore, dayOpts, monthOpts, twoDigits, dig1, month3, firstSome, hc, hl']
        rw [this] at h; simp at h





theorem lexAt_spelled (w : List Char) (t : LTok) (h : spells w t = true) (rest : List Char)
    (hsafe : isDateTok t = true → dateSafe rest = true) :
    lexAt (w ++ ' ' :: rest) = some (t, ' ' :: rest) := by
  cases t with
  | fix t =>
    cases t with
    | and_ =>
      simp only [spells, Bool.or_eq_true, decide_eq_true_eq] at h
      rcases h with (rfl | rfl) | rfl <;>
        simp [kwFrom, kwWhere, kwReport, kwAnd, lexAt, isLetterC, isDigitC, lexWord, lexSym, dropPrefix?]
    | or_ =>
      simp only [spells, Bool.or_eq_true, decide_eq_true_eq] at h
      rcases h with (rfl | rfl) | rfl <;>
        simp [kwFrom, kwWhere, kwReport, kwAnd, kwOr, lexAt, isLetterC, isDigitC, lexWord, lexSym, dropPrefix?]
    | not_ =>
      simp only [spells, Bool.or_eq_true, decide_eq_true_eq] at h
      rcases h with rfl | rfl <;>
        simp [kwFrom, kwWhere, kwReport, kwAnd, kwOr, kwNot, lexAt, isLetterC, isDigitC, lexWord, lexSym, dropPrefix?]
    | from_ | where_ | report | star | dot | op _ | lparen | rparen =>
      simp only [spells, Bool.and_eq_true, decide_eq_true_eq] at h
      rw [h.2]; exact lexAt_fix _ h.1 rest
    | str _ | date _ | int _ | qid _ _ | id _ => simp [spells, printable] at h
  | str s =>
    simp only [spells, Bool.or_eq_true, Bool.and_eq_true, decide_eq_true_eq] at h
    rcases h with ⟨rfl, hq⟩ | ⟨rfl, hq⟩
    · have := strBody_wellQuoted '"' s.length s (' ' :: rest) (Nat.le_refl _) hq
      simp only [List.cons_append, List.append_assoc, List.nil_append, lexAt, isLetterC, isDigitC]
      simp only [show (('a' ≤ '"' && '"' ≤ 'z') || ('A' ≤ '"' && '"' ≤ 'Z')) = false by decide,
        show (('0' ≤ '"' && '"' ≤ '9') || decide ('"' = '+') || decide ('"' = '-')) = false by decide,
        Bool.false_eq_true, if_false, lexSym, this]
      rfl
    · have := strBody_wellQuoted '\'' s.length s (' ' :: rest) (Nat.le_refl _) hq
      simp only [List.cons_append, List.append_assoc, List.nil_append, lexAt, isLetterC, isDigitC]
      simp only [show (('a' ≤ '\'' && '\'' ≤ 'z') || ('A' ≤ '\'' && '\'' ≤ 'Z')) = false by decide,
        show (('0' ≤ '\'' && '\'' ≤ '9') || decide ('\'' = '+') || decide ('\'' = '-')) = false by decide,
        Bool.false_eq_true, if_false, lexSym, this]
      rfl
  | ymd s =>
    simp only [spells, Bool.and_eq_true, decide_eq_true_eq] at h
    rw [h.1]; exact lexAt_ymd_any s h.2 rest (hsafe rfl)
  | dmy s =>
    simp only [spells, Bool.and_eq_true, decide_eq_true_eq] at h
    rw [h.1]; exact lexAt_dmy_any s h.2 rest (hsafe rfl)
  | kwdate s =>
    simp only [spells, Bool.and_eq_true, Bool.or_eq_true, decide_eq_true_eq] at h
    obtain ⟨rfl, h2⟩ := h
    rcases h2 with rfl | rfl
    · have hd : matchDMY ('n' :: 'o' :: 'w' :: ' ' :: rest) = none := matchDMY_letter 'n' _ (by decide) (by simp [noMonthPrefix, isMonth3, monthTriples])
      simp [kwNow, kwFrom, kwWhere, kwReport, kwAnd, kwOr, kwNot, lexAt, isLetterC, lexWord, dropPrefix?] at hd ⊢
      simp [hd]
    · simp [kwToday, lexAt, isLetterC, isDigitC, lexSym, dropPrefix?]
  | int s =>
    simp only [spells, Bool.and_eq_true, decide_eq_true_eq] at h
    rw [h.1]; exact lexAt_int s (by simpa [printable] using h.2) rest
  | qid a b =>
    simp only [spells, Bool.and_eq_true, decide_eq_true_eq] at h
    rw [h.1.1]; exact lexAt_qid a b (by simp [printable, h.1.2, h.2]) rest
  | id s =>
    simp only [spells, Bool.and_eq_true, decide_eq_true_eq] at h
    rw [h.1]; exact lexAt_id s (by simpa [printable] using h.2) rest



theorem spelled_head (w : List Char) (t : LTok) (h : spells w t = true) :
    ∃ c cs, w = c :: cs ∧ isSpaceC c = false := by
  cases t with
  | fix t =>
    cases t with
    | and_ =>
      simp only [spells, Bool.or_eq_true, decide_eq_true_eq] at h
      rcases h with (rfl | rfl) | rfl <;> exact ⟨_, _, rfl, by decide⟩
    | or_ =>
      simp only [spells, Bool.or_eq_true, decide_eq_true_eq] at h
      rcases h with (rfl | rfl) | rfl <;> exact ⟨_, _, rfl, by decide⟩
    | not_ =>
      simp only [spells, Bool.or_eq_true, decide_eq_true_eq] at h
      rcases h with rfl | rfl <;> exact ⟨_, _, rfl, by decide⟩
    | from_ | where_ | report | star | dot | op _ | lparen | rparen =>
      simp only [spells, Bool.and_eq_true, decide_eq_true_eq] at h
      rw [h.2]; exact lexeme_head _ h.1
    | str _ | date _ | int _ | qid _ _ | id _ => simp [spells, printable] at h
  | str s =>
    simp only [spells, Bool.or_eq_true, Bool.and_eq_true, decide_eq_true_eq] at h
    rcases h with ⟨rfl, _⟩ | ⟨rfl, _⟩ <;> exact ⟨_, _, rfl, by decide⟩
  | ymd s =>
    simp only [spells, Bool.and_eq_true, decide_eq_true_eq] at h
    obtain ⟨c, tl, e, hc⟩ := ymd_head s h.2
    exact ⟨c, tl, by rw [h.1, e], digit_not_space c hc⟩
  | dmy s =>
    simp only [spells, Bool.and_eq_true, decide_eq_true_eq] at h
    obtain ⟨c, tl, e, hc⟩ := dmy_head s h.2
    refine ⟨c, tl, by rw [h.1, e], ?_⟩
    rcases hc with hc | hc
    · exact digit_not_space c hc
    · exact letter_not_space c hc
  | kwdate s =>
    simp only [spells, Bool.and_eq_true, Bool.or_eq_true, decide_eq_true_eq] at h
    obtain ⟨rfl, h2⟩ := h
    rcases h2 with rfl | rfl <;> exact ⟨_, _, rfl, by decide⟩
  | int s =>
    simp only [spells, Bool.and_eq_true, decide_eq_true_eq] at h
    rw [h.1]; exact lexeme_head (.int s) (by simpa [printable] using h.2)
  | qid a b =>
    simp only [spells, Bool.and_eq_true, decide_eq_true_eq] at h
    rw [h.1.1]; exact lexeme_head (.qid a b) (by simp [printable, h.1.2, h.2])
  | id s =>
    simp only [spells, Bool.and_eq_true, decide_eq_true_eq] at h
    rw [h.1]; exact lexeme_head (.id s) (by simpa [printable] using h.2)







theorem lexLine_words : ∀ (ps : List (List Char × LTok)) (n : Nat), ps.length < n →
    (∀ p ∈ ps, spells p.1 p.2 = true) → seqOKW ps = true →
    lexLine n (renderW (ps.map (·.1))) = .ok (ps.map (·.2)) := by
  intro ps
  induction ps with
  | nil =>
    intro n hn _ _
    obtain ⟨m, rfl⟩ : ∃ m, n = m + 1 := ⟨n - 1, by simp at hn; omega⟩
    simp [renderW, lexLine]
  | cons p ps ih =>
    intro n hn hp hs
    simp only [List.length_cons] at hn
    obtain ⟨m, rfl⟩ : ∃ m, n = m + 1 := ⟨n - 1, by omega⟩
    have hpt := hp p (by simp)
    obtain ⟨c, cs, hl, hc⟩ := spelled_head p.1 p.2 hpt
    have hsafe : isDateTok p.2 = true → dateSafe (renderW (ps.map (·.1))) = true := by
      intro hd
      cases ps with
      | nil => rfl
      | cons q qs =>
        simp only [seqOKW, Bool.and_eq_true, Bool.or_eq_true, Bool.not_eq_true', hd] at hs
        have hw : wordSafe q.1 = true := by rcases hs.1 with h | h <;> simp_all
        obtain ⟨c2, cs2, hl2, hc2⟩ := spelled_head q.1 q.2 (hp q (by simp))
        rw [hl2] at hw
        simp only [renderW, List.map_cons, List.flatMap_cons, hl2, List.cons_append, dateSafe, List.dropWhile_cons,
          hc2, Bool.false_eq_true, if_false]
        exact hw
    have hs' : seqOKW ps = true := by
      cases ps with
      | nil => rfl
      | cons q qs => simp only [seqOKW, Bool.and_eq_true] at hs; exact hs.2
    have hlex := lexAt_spelled p.1 p.2 hpt (renderW (ps.map (·.1))) hsafe
    have hr : renderW ((p :: ps).map (·.1)) = c :: (cs ++ ' ' :: renderW (ps.map (·.1))) := by
      simp [renderW, hl]
    rw [hr, lexLine]
    simp only [List.dropWhile_cons, hc, Bool.false_eq_true, if_false]
    rw [hl, List.cons_append] at hlex
    simp only [hlex, List.length_cons, List.length_append]
    rw [if_pos (by omega), lexLine_space, ih m (by omega) (fun x hx => hp x (by simp [hx])) hs']
    rfl


/-! ## fuel is sufficient -/

theorem orderJoins_no_fuel (db : DB) : ∀ (n : Nat) (jm : JoinMap) (joins : List (String × List String))
    (jk : List String), jm.length ≤ n → orderJoins db n jm joins jk ≠ .error .fuel := by
  intro n
  induction n with
  | zero =>
    intro jm joins jk h
    cases jm with
    | nil => simp [orderJoins]
    | cons a as => simp at h
  | succ n ih =>
    intro jm joins jk h
    cases jm with
    | nil => simp [orderJoins]
    | cons a as =>
      simp only [orderJoins]
      split
      · simp
      · rename_i p hfind
        have hp : p ∈ a :: as := List.mem_of_find?_eq_some hfind
        apply ih
        rw [List.length_erase_of_mem hp]
        simp only [List.length_cons] at h ⊢
        omega

theorem filter_length_lt {α} (p q : α → Bool) (hq : ∀ x, q x = true → p x = true) :
    ∀ (l : List α) (r : α), r ∈ l → p r = true → q r = false → (l.filter q).length < (l.filter p).length := by
  have hle : ∀ l : List α, (l.filter q).length ≤ (l.filter p).length := by
    intro l
    induction l with
    | nil => simp
    | cons a l ih =>
      by_cases ha : q a = true
      · simp [ha, hq a ha]; exact ih
      · have ha' : q a = false := by simpa using ha
        by_cases hpa : p a = true
        · simp [ha', hpa]; omega
        · have : p a = false := by simpa using hpa
          simp [ha', this]; exact ih
  intro l
  induction l with
  | nil => intro r hr; simp at hr
  | cons a l ih =>
    intro r hr hpr hqr
    rcases List.mem_cons.mp hr with e | e
    · subst e
      have := hle l
      simp [hpr, hqr]; omega
    · have := ih r e hpr hqr
      by_cases ha : q a = true
      · simp [ha, hq a ha]; exact this
      · have ha' : q a = false := by simpa using ha
        by_cases hpa : p a = true
        · simp [ha', hpa]; omega
        · have hpa' : p a = false := by simpa using hpa
          simp [ha', hpa']; exact this

/-- candidates for a linking relation that are still unused -/
def unusedRels (db : DB) (used : List String) : List Rel := db.filter (fun r => !used.contains r.name)

theorem pivotLoop_no_fuel (db : DB) (relset : List String) : ∀ (n : Nat) (pivots : List String),
    (unusedRels db (relset ++ pivots)).length < n → pivotLoop db n relset pivots ≠ .error .fuel := by
  intro n
  induction n with
  | zero => intro pivots h; simp at h
  | succ n ih =>
    intro pivots h
    simp only [pivotLoop]
    split
    · simp
    · split
      · simp
      · rename_i r hfind
        have hr := List.find?_some hfind
        have hmem := List.mem_of_find?_eq_some hfind
        simp only [Bool.and_eq_true, Bool.not_eq_true', decide_eq_true_eq] at hr
        apply ih
        have hlt : (unusedRels db (relset ++ (pivots ++ [r.name]))).length
            < (unusedRels db (relset ++ pivots)).length := by
          apply filter_length_lt _ _ _ db r hmem
          · simpa using hr.1.1
          · simp
          · intro x hx
            simp only [Bool.not_eq_true', List.contains_eq_mem, List.mem_append, decide_eq_false_iff_not] at hx ⊢
            intro hc
            exact hx (by rcases hc with hc | hc; exact Or.inl hc; exact Or.inr (Or.inl hc))
        omega

theorem unusedRels_le (db : DB) (used : List String) : (unusedRels db used).length ≤ db.length :=
  List.length_filter_le _ _

/-- the planner's recursion fuel is never the reason for an error -/
theorem planJoins_no_fuel (db : DB) (projection condFs : List QName) (rels : List String) :
    planJoins db projection condFs rels ≠ .error .fuel := by
  unfold planJoins
  simp only
  split
  · simp
  · split
    · rename_i e he
      intro h
      cases h
      exact pivotLoop_no_fuel db _ (db.length + 1) [] (by have := unusedRels_le db ((rels ++ List.map (·.1) (projection ++ condFs).eraseDups).eraseDups ++ []); omega) he
    · split
      · rename_i e he
        intro h
        cases h
        exact orderJoins_no_fuel db _ _ [] [] (Nat.le_succ _) he
      · simp

theorem dropWhile_length_le {α} (p : α → Bool) (l : List α) : (l.dropWhile p).length ≤ l.length := by
  induction l with
  | nil => simp
  | cons a l ih =>
    simp only [List.dropWhile_cons]
    split
    · simp only [List.length_cons]; omega
    · exact Nat.le_refl _

/-- the lexer's recursion fuel suffices: one unit per character and one more -/
theorem lexLine_no_fuel : ∀ (n : Nat) (s : List Char), s.length < n → lexLine n s ≠ .error .fuel := by
  intro n
  induction n with
  | zero => intro s h; simp at h
  | succ n ih =>
    intro s h
    simp only [lexLine]
    split
    · simp
    · rename_i s' hs'
      split
      · simp
      · rename_i t r _
        split
        · rename_i hlt
          have hle : (s.dropWhile isSpaceC).length ≤ s.length := dropWhile_length_le _ _
          have := ih r (by omega)
          split
          · rename_i e he; intro hc; cases hc; exact this he
          · simp
        · simp


/-! ## shared keys: all relations that have `k` as a key see the same value -/

theorem dictAdd_pres {α} (d : List (Key × α)) (k : Key) (v : α) (k' : Key) (q : α)
    (h : dictGet d k' = some q) : dictGet (dictAdd d k v) k' = some q := by
  rw [dictGet_dictAdd_eq, h]

theorem dictAdd_new {α} (d : List (Key × α)) (k : Key) (v : α) : ∃ q, dictGet (dictAdd d k v) k = some q := by
  rw [dictGet_dictAdd_eq]
  cases dictGet d k with
  | some x => exact ⟨x, rfl⟩
  | none => exact ⟨v, by simp⟩

/-- unqualified and key entries keep their position in one step of the first loop -/
theorem mergeStep_pres (name : String) (off : Nat) (ix : List (Key × Nat)) (p : Field × Nat) (key : Key)
    (hk : ∀ rn c, key ≠ .q rn c) (q : Nat)
    (h : dictGet ix key = some q) : dictGet (mergeStep name off ix p) key = some q := by
  cases key with
  | u c => rw [mergeStep_get_u]; exact dictAdd_pres _ _ _ _ _ h
  | q rn c => exact absurd rfl (hk rn c)
  | k c =>
    rw [mergeStep_get_k]
    split
    · exact dictAdd_pres _ _ _ _ _ h
    · exact h

theorem mergeStep_u_new (name : String) (off : Nat) (ix : List (Key × Nat)) (p : Field × Nat) :
    ∃ q, dictGet (mergeStep name off ix p) (.u p.1.name) = some q := by
  rw [mergeStep_get_u]; exact dictAdd_new _ _ _

theorem mergeStep_k_new (name : String) (off : Nat) (ix : List (Key × Nat)) (p : Field × Nat)
    (hp : p.1.isKey = true) : ∃ q, dictGet (mergeStep name off ix p) (.k p.1.name) = some q := by
  rw [mergeStep_get_k, if_pos hp]; exact dictAdd_new _ _ _

theorem mergeFold_pres (name : String) (off : Nat) (key : Key) (hk : ∀ rn c, key ≠ .q rn c) (q : Nat) :
    ∀ (ps : List (Field × Nat)) (ix : List (Key × Nat)), dictGet ix key = some q →
    dictGet (ps.foldl (mergeStep name off) ix) key = some q := by
  intro ps
  induction ps with
  | nil => intro ix h; exact h
  | cons p ps ih => intro ix h; exact ih _ (mergeStep_pres name off ix p key hk q h)

theorem mergeFold_u_new (name : String) (off : Nat) :
    ∀ (ps : List (Field × Nat)) (ix : List (Key × Nat)) (p : Field × Nat), p ∈ ps →
    ∃ q, dictGet (ps.foldl (mergeStep name off) ix) (.u p.1.name) = some q := by
  intro ps
  induction ps with
  | nil => intro ix p hp; simp at hp
  | cons a ps ih =>
    intro ix p hp
    rcases List.mem_cons.mp hp with e | e
    · subst e
      obtain ⟨q, hq⟩ := mergeStep_u_new name off ix p
      exact ⟨q, mergeFold_pres name off _ (by intro _ _ h; cases h) q ps _ hq⟩
    · exact ih _ p e

theorem mergeFold_k_new (name : String) (off : Nat) :
    ∀ (ps : List (Field × Nat)) (ix : List (Key × Nat)) (p : Field × Nat), p ∈ ps → p.1.isKey = true →
    ∃ q, dictGet (ps.foldl (mergeStep name off) ix) (.k p.1.name) = some q := by
  intro ps
  induction ps with
  | nil => intro ix p hp; simp at hp
  | cons a ps ih =>
    intro ix p hp hkey
    rcases List.mem_cons.mp hp with e | e
    · subst e
      obtain ⟨q, hq⟩ := mergeStep_k_new name off ix p hkey
      exact ⟨q, mergeFold_pres name off _ (by intro _ _ h; cases h) q ps _ hq⟩
    · exact ih _ p e hkey

theorem onFold_pres (name : String) (key : Key) (hk : ∀ rn c, key ≠ .q rn c) (q : Nat) :
    ∀ (on : List String) (ix : List (Key × Nat)), dictGet ix key = some q →
    dictGet (on.foldl (fun ix nm => match dictGet ix (.k nm) with
        | some i => dictSet ix (.q name nm) i
        | none => ix) ix) key = some q := by
  intro on
  induction on with
  | nil => intro ix h; exact h
  | cons k on ih =>
    intro ix h
    simp only [List.foldl_cons]
    apply ih
    split
    · rw [dictGet_dictSet, if_neg (fun e => hk _ _ e.symm)]; exact h
    · exact h

/-- unqualified and key entries that exist before `_merge_fields` keep their position -/
theorem mergeFields_pres (sel : Sel) (name : String) (on : List String) (fields : List Field) (key : Key)
    (hk : ∀ rn c, key ≠ .q rn c) (q : Nat) (h : dictGet sel.index key = some q) :
    dictGet (mergeFields sel name on fields).index key = some q := by
  simp only [mergeFields]
  exact onFold_pres name key hk q on _ (mergeFold_pres name _ key hk q _ _ h)

/-- unqualified entries that exist before `_merge_fields` keep their position -/
theorem mergeFields_u_pres (sel : Sel) (name : String) (on : List String) (fields : List Field) (c : String)
    (q : Nat) (h : dictGet sel.index (.u c) = some q) :
    dictGet (mergeFields sel name on fields).index (.u c) = some q :=
  mergeFields_pres sel name on fields _ (by intro _ _ h; cases h) q h

/-- key entries (`_key_index`) that exist before `_merge_fields` keep their position -/
theorem mergeFields_k_pres (sel : Sel) (name : String) (on : List String) (fields : List Field) (c : String)
    (q : Nat) (h : dictGet sel.index (.k c) = some q) :
    dictGet (mergeFields sel name on fields).index (.k c) = some q :=
  mergeFields_pres sel name on fields _ (by intro _ _ h; cases h) q h

/-- every new column has an unqualified entry afterwards -/
theorem mergeFields_u_new (sel : Sel) (name : String) (on : List String) (fields : List Field) (f : Field)
    (hf : f ∈ fields) : ∃ q, dictGet (mergeFields sel name on fields).index (.u f.name) = some q := by
  simp only [mergeFields]
  obtain ⟨i, hi⟩ := List.mem_iff_getElem?.mp hf
  have hp : (f, 0 + i) ∈ fields.zipIdx 0 := by
    apply List.mem_iff_getElem?.mpr
    exact ⟨i, by simp [List.getElem?_zipIdx, hi]⟩
  obtain ⟨q, hq⟩ := mergeFold_u_new name sel.fields.length (fields.zipIdx 0) sel.index (f, 0 + i) hp
  exact ⟨q, onFold_pres name _ (by intro _ _ h; cases h) q on _ hq⟩

/-- every new KEY column has a key entry afterwards -/
theorem mergeFields_k_new (sel : Sel) (name : String) (on : List String) (fields : List Field) (f : Field)
    (hf : f ∈ fields) (hkey : f.isKey = true) :
    ∃ q, dictGet (mergeFields sel name on fields).index (.k f.name) = some q := by
  simp only [mergeFields]
  obtain ⟨i, hi⟩ := List.mem_iff_getElem?.mp hf
  have hp : (f, 0 + i) ∈ fields.zipIdx 0 := by
    apply List.mem_iff_getElem?.mpr
    exact ⟨i, by simp [List.getElem?_zipIdx, hi]⟩
  obtain ⟨q, hq⟩ := mergeFold_k_new name sel.fields.length (fields.zipIdx 0) sel.index (f, 0 + i) hp hkey
  exact ⟨q, onFold_pres name _ (by intro _ _ h; cases h) q on _ hq⟩



/-- every column of relation `n` that is named `k` is a key column -/
def KeyCol (db : DB) (n k : String) : Prop :=
  ∃ rel, db.rel? n = some rel ∧ ∀ f ∈ rel.fields, f.name = k → f.isKey = true

/-- in every joined row, the column a relation's KEY `k` is looked up at carries the same cast value
as the selection's key column `k` (`_key_index`: the first joined KEY column of that name) -/
structure KeyInv (db : DB) (sel : Sel) : Prop where
  uex : ∀ n k p, dictGet sel.index (.q n k) = some p → KeyCol db n k → ∃ q, dictGet sel.index (.k k) = some q
  keq : ∀ n k p q, dictGet sel.index (.q n k) = some p → dictGet sel.index (.k k) = some q → KeyCol db n k →
    ∀ row ∈ sel.data, (row.getD p noCell).val = (row.getD q noCell).val

theorem keyInv_merge (db : DB) (sel : Sel) (L : List (List Cell))
    (hbound : ∀ key p, dictGet sel.index key = some p → p < sel.fields.length)
    (hL1 : ∀ l ∈ L, l.length = sel.fields.length)
    (huex : ∀ n k p, dictGet sel.index (.q n k) = some p → KeyCol db n k → ∃ q, dictGet sel.index (.k k) = some q)
    (hkeq : ∀ n k p q, dictGet sel.index (.q n k) = some p → dictGet sel.index (.k k) = some q → KeyCol db n k →
      ∀ l ∈ L, (l.getD p noCell).val = (l.getD q noCell).val)
    (name : String) (rel : Rel) (hrel : db.rel? name = some rel)
    (fields' : List Field) (rV : List Nat) (on : List String)
    (hrV : ∀ (i : Nat) (f : Field), fields'[i]? = some f → ∃ j, rV[i]? = some j ∧ rel.fieldIdx? f.name = some j)
    (hsub : ∀ f ∈ fields', f ∈ rel.fields)
    (hkeyfresh : ∀ f ∈ fields', f.isKey = true → dictGet sel.index (.k f.name) = none)
    (hnoton : ∀ f ∈ fields', f.name ∉ on)
    (hon : ∀ k ∈ on, ∃ p, dictGet sel.index (.k k) = some p)
    (data' : List (List Cell))
    (hdata : ∀ row' ∈ data', ∃ l ∈ L, ∃ r : List Cell, row' = l ++ pick rV r) :
    KeyInv db (mergeFields { sel with data := data' } name on fields') := by
  have horigin := mergeFields_origin { sel with data := data' } name on fields'
  have hpres := mergeFields_k_pres { sel with data := data' } name on fields'
  have hnew := mergeFields_k_new { sel with data := data' } name on fields'
  simp only at horigin hpres hnew
  have keyOfCol : ∀ f ∈ fields', KeyCol db name f.name → f.isKey = true := by
    intro f hf hkc
    obtain ⟨rel', hr', hall⟩ := hkc
    rw [hrel] at hr'; cases hr'
    exact hall f (hsub f hf) rfl
  constructor
  · intro n k p h hkc
    rcases horigin (.q n k) p h with o | ⟨k', hk', e, _⟩
    · rcases o with eold | ⟨i, f, _, hf, _, hkey⟩
      · obtain ⟨q, hq⟩ := huex n k p eold hkc
        exact ⟨q, hpres k q hq⟩
      · rcases hkey with hkey | hkey | ⟨hkey, _⟩
        · cases hkey
        · cases hkey
          have hfm : f ∈ fields' := List.mem_iff_getElem?.mpr ⟨i, hf⟩
          exact hnew f hfm (keyOfCol f hfm hkc)
        · cases hkey
    · cases e
      obtain ⟨q, hq⟩ := hon k hk'
      exact ⟨q, hpres k q hq⟩
  · intro n k p q hp hq hkc row' hrow'
    simp only [mergeFields] at hrow'
    obtain ⟨l, hl, r, e⟩ := hdata row' hrow'
    have hlen := hL1 l hl
    have old : ∀ key x, dictGet sel.index key = some x → row'.getD x noCell = l.getD x noCell := by
      intro key x hk
      rw [e, getD_append_left' _ _ _ (by rw [hlen]; exact hbound key x hk)]
    have newcell : ∀ i f, fields'[i]? = some f → row'.getD (sel.fields.length + i) noCell = cellOf rel r f.name := by
      intro i f hf
      obtain ⟨j, hj1, hj2⟩ := hrV i f hf
      rw [e, ← hlen, getD_append_right', pick_getD rV r i j hj1, cellOf_eq rel r f.name j hj2]
    -- where the key entry comes from
    have hqo : Origin1 sel.index name sel.fields.length fields' fields'.length (.k k) q := by
      rcases horigin (.k k) q hq with o | ⟨_, _, e', _⟩
      · exact o
      · cases e'
    rcases horigin (.q n k) p hp with o | ⟨k', hk', ek, o⟩
    · rcases o with eold | ⟨i, f, _, hf, hpi, hkey⟩
      · -- an old qualified entry: the key entry is old too
        obtain ⟨q0, hq0⟩ := huex n k p eold hkc
        have : q = q0 := by have := hpres k q0 hq0; rw [hq] at this; exact Option.some.inj this
        subst this
        rw [old _ p eold, old _ q hq0]
        exact hkeq n k p q eold hq0 hkc l hl
      · rcases hkey with hkey | hkey | ⟨hkey, _⟩
        · cases hkey
        · cases hkey
          -- a new key column: the key entry is new as well and names the same column
          have hfm : f ∈ fields' := List.mem_iff_getElem?.mpr ⟨i, hf⟩
          have hfk : f.isKey = true := keyOfCol f hfm hkc
          have hfresh := hkeyfresh f hfm hfk
          rcases hqo with eold | ⟨j, g, _, hg, hqj, hgk⟩
          · rw [hfresh] at eold; cases eold
          · rcases hgk with hgk | hgk | ⟨hgk, _⟩
            · cases hgk
            · cases hgk
            · have hname : f.name = g.name := by injection hgk
              rw [hpi, hqj, newcell i f hf, newcell j g hg, hname]
        · cases hkey
    · cases ek
      -- a shared key: aliased to the selection's key column of that name
      rcases o with eold | ⟨i, f, _, hf, _, hkey⟩
      · have : q = p := by have := hpres k p eold; rw [hq] at this; exact Option.some.inj this
        rw [this]
      · rcases hkey with hkey | hkey | ⟨hkey, _⟩
        · cases hkey
        · cases hkey
        · cases hkey
          exact absurd hk' (hnoton f (List.mem_iff_getElem?.mpr ⟨i, hf⟩))



theorem dictSet_isSome {α} (d : List (Key × α)) (k : Key) (v : α) (k' : Key) (h : (dictGet d k').isSome = true) :
    (dictGet (dictSet d k v) k').isSome = true := by
  rw [dictGet_dictSet]; split <;> simp [h]

theorem dictAdd_isSome {α} (d : List (Key × α)) (k : Key) (v : α) (k' : Key) (h : (dictGet d k').isSome = true) :
    (dictGet (dictAdd d k v) k').isSome = true := by
  unfold dictAdd
  split
  · exact h
  · rw [dictGet_append]
    cases hd : dictGet d k' with
    | none => simp [hd] at h
    | some x => simp

theorem mergeFold_isSome (name : String) (off : Nat) (key : Key) :
    ∀ (ps : List (Field × Nat)) (ix : List (Key × Nat)), (dictGet ix key).isSome = true →
    (dictGet (ps.foldl (mergeStep name off) ix) key).isSome = true := by
  intro ps
  induction ps with
  | nil => intro ix h; exact h
  | cons p ps ih =>
    intro ix h
    apply ih
    unfold mergeStep
    simp only
    split
    · exact dictAdd_isSome _ _ _ _ (dictSet_isSome _ _ _ _ (dictAdd_isSome _ _ _ _ h))
    · exact dictSet_isSome _ _ _ _ (dictAdd_isSome _ _ _ _ h)

theorem onFold_isSome (name : String) (key : Key) :
    ∀ (on : List String) (ix : List (Key × Nat)), (dictGet ix key).isSome = true →
    (dictGet (on.foldl (fun ix nm => match dictGet ix (.k nm) with
        | some i => dictSet ix (.q name nm) i
        | none => ix) ix) key).isSome = true := by
  intro on
  induction on with
  | nil => intro ix h; exact h
  | cons k on ih =>
    intro ix h
    simp only [List.foldl_cons]
    apply ih
    split
    · exact dictSet_isSome _ _ _ _ h
    · exact h

/-- entries are never removed from the index -/
theorem mergeFields_isSome (sel : Sel) (name : String) (on : List String) (fields : List Field) (key : Key)
    (h : (dictGet sel.index key).isSome = true) : (dictGet (mergeFields sel name on fields).index key).isSome = true := by
  simp only [mergeFields]
  exact onFold_isSome name key on _ (mergeFold_isSome name _ key _ _ h)

theorem mergeFold_q_new (name : String) (off : Nat) :
    ∀ (ps : List (Field × Nat)) (ix : List (Key × Nat)) (p : Field × Nat), p ∈ ps →
    (dictGet (ps.foldl (mergeStep name off) ix) (.q name p.1.name)).isSome = true := by
  intro ps
  induction ps with
  | nil => intro ix p hp; simp at hp
  | cons a ps ih =>
    intro ix p hp
    rcases List.mem_cons.mp hp with e | e
    · subst e
      simp only [List.foldl_cons]
      apply mergeFold_isSome
      rw [mergeStep_get_q]; simp
    · exact ih _ p e

/-- every new column gets its qualified entry -/
theorem mergeFields_q_new (sel : Sel) (name : String) (on : List String) (fields : List Field) (f : Field)
    (hf : f ∈ fields) : (dictGet (mergeFields sel name on fields).index (.q name f.name)).isSome = true := by
  simp only [mergeFields]
  obtain ⟨i, hi⟩ := List.mem_iff_getElem?.mp hf
  have hp : (f, 0 + i) ∈ fields.zipIdx 0 := by
    apply List.mem_iff_getElem?.mpr
    exact ⟨i, by simp [List.getElem?_zipIdx, hi]⟩
  exact onFold_isSome name _ on _ (mergeFold_q_new name sel.fields.length (fields.zipIdx 0) sel.index (f, 0 + i) hp)

/-- every shared key gets its qualified entry -/
theorem onFold_q_new (name : String) : ∀ (on : List String) (ix : List (Key × Nat)) (k : String), k ∈ on →
    (dictGet ix (.k k)).isSome = true →
    (dictGet (on.foldl (fun ix nm => match dictGet ix (.k nm) with
        | some i => dictSet ix (.q name nm) i
        | none => ix) ix) (.q name k)).isSome = true := by
  intro on
  induction on with
  | nil => intro ix k hk; simp at hk
  | cons a on ih =>
    intro ix k hk hu
    simp only [List.foldl_cons]
    rcases List.mem_cons.mp hk with e | e
    · subst e
      apply onFold_isSome
      cases hd : dictGet ix (.k k) with
      | none => simp [hd] at hu
      | some i => rw [dictGet_dictSet]; simp
    · apply ih _ k e
      split
      · exact dictSet_isSome _ _ _ _ hu
      · exact hu

theorem mergeFields_on_new (sel : Sel) (name : String) (on : List String) (fields : List Field) (k : String)
    (hk : k ∈ on) (hu : (dictGet sel.index (.k k)).isSome = true) :
    (dictGet (mergeFields sel name on fields).index (.q name k)).isSome = true := by
  simp only [mergeFields]
  exact onFold_q_new name on _ k hk (mergeFold_isSome name _ _ _ _ hu)



theorem mapM_some_fwd {α β} (f : α → Option β) :
    (l : List α) → (r : List β) → l.mapM f = some r → ∀ a ∈ l, ∃ x ∈ r, f a = some x
  | [], r, h => by intro a ha; simp at ha
  | a :: l, r, h => by
    rw [List.mapM_cons] at h
    cases hfa : f a with
    | none => simp [hfa] at h
    | some b =>
      cases hl : l.mapM f with
      | none => simp [hfa, hl] at h
      | some bs =>
        simp [hfa, hl] at h
        subst h
        intro x hx
        rcases List.mem_cons.mp hx with e | e
        · subst e; exact ⟨b, by simp, hfa⟩
        · obtain ⟨y, hy, hf⟩ := mapM_some_fwd f l bs hl x e
          exact ⟨y, by simp [hy], hf⟩

theorem fields_of_cols (rel : Rel) (cols : List String) (indices : List Nat)
    (hm : cols.mapM rel.fieldIdx? = some indices) (d : Field) :
    (∀ f ∈ indices.map (fun i => rel.fields.getD i d), f ∈ rel.fields) ∧
    (∀ c ∈ cols, ∃ f ∈ indices.map (fun i => rel.fields.getD i d), f.name = c) := by
  have valid : ∀ col j, rel.fieldIdx? col = some j → rel.fields.getD j d ∈ rel.fields ∧ (rel.fields.getD j d).name = col := by
    intro col j h
    refine ⟨?_, fieldIdx_name rel col j h d⟩
    unfold Rel.fieldIdx? at h
    rw [List.findIdx?_eq_some_iff_getElem] at h
    obtain ⟨hj, _, _⟩ := h
    rw [List.getD_eq_getElem?_getD, List.getElem?_eq_getElem hj]
    exact List.getElem_mem hj
  constructor
  · intro f hf
    obtain ⟨j, hj, e⟩ := List.mem_map.mp hf
    obtain ⟨col, _, hcol⟩ := mapM_some_mem _ cols indices hm j hj
    rw [← e]; exact (valid col j hcol).1
  · intro c hc
    obtain ⟨j, hj, hcj⟩ := mapM_some_fwd _ cols indices hm c hc
    exact ⟨rel.fields.getD j d, List.mem_map.mpr ⟨j, hj, rfl⟩, (valid c j hcj).2⟩

theorem nestedStep_key (db : DB) (sel sel' : Sel) (j : String × List String) (hinv : SelInv db sel)
    (hk : KeyInv db sel) (h : nestedStep db sel j = .ok sel') :
    KeyInv db sel' ∧ (∀ c ∈ j.2, (dictGet sel'.index (.q j.1 c)).isSome = true) ∧
    (∀ key, (dictGet sel.index key).isSome = true → (dictGet sel'.index key).isSome = true) ∧
    sel'.joined = sel.joined ++ [j.1] := by
  unfold nestedStep at h
  by_cases hc : sel.joined.contains j.1 = true
  · simp only [hc, if_true] at h; cases h
  · simp only [hc] at h
    cases hrel : db.rel? j.1 with
    | none => simp only [hrel] at h; cases h
    | some rel =>
      simp only [hrel] at h
      cases hm : j.2.mapM rel.fieldIdx? with
      | none => simp only [hm] at h; cases h
      | some indices =>
        simp only [hm] at h
        obtain ⟨hsubF, hcover⟩ := fields_of_cols rel j.2 indices hm ⟨"", .string, false⟩
        by_cases he : sel.joined.isEmpty = true
        · simp only [he, if_true] at h
          cases h
          have hj : sel.joined = [] := by simpa using he
          obtain ⟨hf, hi⟩ := hinv.fresh hj
          refine ⟨?_, ?_, fun key hs => mergeFields_isSome _ _ _ _ key hs, by simp [mergeFields]⟩
          · refine keyInv_merge db sel [[]] hinv.bound (by simp [hf]) hk.uex
              (by intro n k p q hp; rw [hi] at hp; simp [dictGet] at hp)
              j.1 rel hrel _ indices [] (field_of_indices rel j.2 indices hm _) hsubF
              (by intro f _ _; rw [hi]; rfl) (by intro f _; simp) (by intro k hk'; simp at hk') _ ?_
            intro row' hrow'
            simp only [List.mem_map] at hrow'
            obtain ⟨r, _, e⟩ := hrow'
            exact ⟨[], by simp, r, by simp [e]⟩
          · intro c hc'
            obtain ⟨f, hf', hn⟩ := hcover c hc'
            rw [← hn]
            exact mergeFields_q_new _ _ _ _ f hf'
        · simp only [he] at h
          by_cases hon : (sharedKeys sel (indices.map (fun i => rel.fields.getD i ⟨"", .string, false⟩))).isEmpty = true
          · simp only [hon, if_true] at h; cases h
          · simp only [hon] at h
            cases h
            have hsome : ∀ f ∈ (indices.map (fun i => rel.fields.getD i ⟨"", .string, false⟩)).filter
                (fun f => !(sharedKeys sel (indices.map (fun i => rel.fields.getD i ⟨"", .string, false⟩))).contains f.name),
                (rel.fieldIdx? f.name).isSome := by
              intro f hf
              obtain ⟨i, hi⟩ := List.mem_iff_getElem?.mp (List.mem_filter.mp hf).1
              obtain ⟨jx, _, hjx⟩ := field_of_indices rel j.2 indices hm _ i f hi
              simp [hjx]
            have hal := filterMap_aligned (fun f : Field => rel.fieldIdx? f.name) _ hsome
            refine ⟨?_, ?_, fun key hs => mergeFields_isSome _ _ _ _ key hs, by simp [mergeFields]⟩
            · refine keyInv_merge db sel sel.data hinv.bound hinv.len hk.uex hk.keq
                j.1 rel hrel _ _ _ hal.2 (fun f hf => hsubF f (List.mem_filter.mp hf).1) ?_ ?_ ?_ _ ?_
              · intro f hf hfk
                have hfil := (List.mem_filter.mp hf)
                cases hd : dictGet sel.index (.k f.name) with
                | none => rfl
                | some q =>
                  have : f.name ∈ sharedKeys sel (indices.map (fun i => rel.fields.getD i ⟨"", .string, false⟩)) := by
                    unfold sharedKeys
                    exact List.mem_map.mpr ⟨f, List.mem_filter.mpr ⟨hfil.1, by simp [hfk, hd]⟩, rfl⟩
                  have hno := hfil.2
                  simp only [Bool.not_eq_true', List.contains_eq_mem, decide_eq_false_iff_not] at hno
                  exact absurd this hno
              · intro f hf
                have hno := (List.mem_filter.mp hf).2
                simpa using hno
              · intro k hk'
                have := sharedKeys_left sel _ k hk'
                cases hd : dictGet sel.index (.k k) with
                | none => simp [hd] at this
                | some p => exact ⟨p, rfl⟩
              · intro row' hrow'
                simp only [List.mem_flatMap, List.mem_map, List.mem_filter] at hrow'
                obtain ⟨l, hl, r, _, e⟩ := hrow'
                exact ⟨l, hl, r, e.symm⟩
            · intro c hc'
              obtain ⟨f, hf', hn⟩ := hcover c hc'
              by_cases hcon : c ∈ sharedKeys sel (indices.map (fun i => rel.fields.getD i ⟨"", .string, false⟩))
              · exact mergeFields_on_new _ _ _ _ c hcon (sharedKeys_left sel _ c hcon)
              · rw [← hn]
                apply mergeFields_q_new
                apply List.mem_filter.mpr
                exact ⟨hf', by rw [hn]; simpa using hcon⟩



theorem nestedJoins_key (db : DB) : (sel : Sel) → (js : List (String × List String)) → (sel' : Sel) →
    SelInv db sel → KeyInv db sel → nestedJoins db sel js = .ok sel' →
    KeyInv db sel' ∧ (∀ j ∈ js, ∀ c ∈ j.2, (dictGet sel'.index (.q j.1 c)).isSome = true) ∧
    (∀ key, (dictGet sel.index key).isSome = true → (dictGet sel'.index key).isSome = true) ∧
    sel'.joined = sel.joined ++ js.map (·.1)
  | sel, [], sel', _, hk, h => by
    simp only [nestedJoins] at h; cases h
    exact ⟨hk, by simp, fun _ h => h, by simp⟩
  | sel, j :: js, sel', hinv, hk, h => by
    simp only [nestedJoins] at h
    split at h
    · cases h
    · rename_i s1 hs1
      obtain ⟨k1, e1, m1, j1⟩ := nestedStep_key db sel s1 j hinv hk hs1
      obtain ⟨k2, e2, m2, j2⟩ := nestedJoins_key db s1 js sel' (nestedStep_inv db sel s1 j hinv hs1) k1 h
      refine ⟨k2, ?_, fun key hs => m2 key (m1 key hs), by simp [j2, j1]⟩
      intro x hx c hc
      rcases List.mem_cons.mp hx with e | e
      · subst e; exact m2 _ (e1 c hc)
      · exact e2 x e c hc

theorem keyInv_empty (db : DB) : KeyInv db Sel.empty :=
  ⟨by intro n k p h; simp [Sel.empty, dictGet] at h, by intro n k p q h; simp [Sel.empty, dictGet] at h⟩

/-- the witness rows of a returned row: one stored row for EVERY planned relation, agreeing (as cast
values) on every key column that two planned relations share -/
def JoinWitness (db : DB) (plan : Plan) (w : String → List Cell) : Prop :=
  (∀ n ∈ plan.joins.map (·.1), ∃ rel, db.rel? n = some rel ∧ w n ∈ rel.rows) ∧
  ∀ j1 ∈ plan.joins, ∀ j2 ∈ plan.joins, ∀ k, k ∈ j1.2 → k ∈ j2.2 → KeyCol db j1.1 k → KeyCol db j2.1 k →
    valW db w (j1.1, k) = valW db w (j2.1, k)

theorem select_sound_strong_aux (rx : List Char → List Char → Bool) (db : DB) (q : Query) (res : Result)
    (h : select rx db q = .ok res) :
    ∃ proj cond plan, resolveProj db q = .ok proj ∧ resolveQCond db q = .ok cond ∧
      planJoins db proj (condFieldsOpt cond) q.rels = .ok plan ∧
      ∀ out ∈ res.rows, ∃ (w : String → List Cell) (cells : List Cell),
        out = cells.map (·.raw) ∧ CellsOf db w proj cells ∧
        (∀ c, cond = some c → evalW rx db w c = true) ∧ JoinWitness db plan w := by
  obtain ⟨proj, cond, plan, sel, rows, _, hproj, hcond, hplan, hsel, hrows, hres⟩ := select_inv h
  refine ⟨proj, cond, plan, hproj, hcond, hplan, ?_⟩
  rw [runJoins_eq_nestedJoins] at hsel
  have hinv := nestedJoins_inv db Sel.empty plan.joins sel (selInv_empty db) hsel
  obtain ⟨hkey, hex, _, hjoined⟩ := nestedJoins_key db Sel.empty plan.joins sel (selInv_empty db) (keyInv_empty db) hsel
  have hjw : ∀ row ∈ sel.data, ∀ w, (∀ n ∈ sel.joined, ∃ rel, db.rel? n = some rel ∧ w n ∈ rel.rows) →
      WitBy db sel.index row w → JoinWitness db plan w := by
    intro row hrow w hwj hw
    constructor
    · intro n hn
      exact hwj n (by rw [hjoined]; simpa [Sel.empty] using hn)
    · intro j1 hj1 j2 hj2 k hk1 hk2 kc1 kc2
      cases hp1 : dictGet sel.index (.q j1.1 k) with
      | none => have := hex j1 hj1 k hk1; simp [hp1] at this
      | some p1 =>
        cases hp2 : dictGet sel.index (.q j2.1 k) with
        | none => have := hex j2 hj2 k hk2; simp [hp2] at this
        | some p2 =>
          obtain ⟨qq, hq⟩ := hkey.uex j1.1 k p1 hp1 kc1
          have e1 := hkey.keq j1.1 k p1 qq hp1 hq kc1 row hrow
          have e2 := hkey.keq j2.1 k p2 qq hp2 hq kc2 row hrow
          have v1 := hw.val (j1.1, k) p1 hp1
          have v2 := hw.val (j2.1, k) p2 hp2
          rw [← v1, ← v2, e1, e2]
  rw [hres]
  simp only
  intro out hout
  unfold finish at hrows
  split at hrows
  · cases hrows
  · rename_i pidx hp
    cases cond with
    | none =>
      simp only at hrows
      cases hrows
      simp only [List.mem_map] at hout
      obtain ⟨row, hrow, e⟩ := hout
      obtain ⟨w, hwj, hw⟩ := hinv.wit row hrow
      exact ⟨w, pick pidx row, e.symm, proj_witnessed db sel.index row w hw proj pidx hp,
        (by intro c hc; cases hc), hjw row hrow w hwj hw⟩
    | some c =>
      simp only at hrows
      split at hrows
      · cases hrows
      · rename_i ci hci
        cases hrows
        simp only [List.mem_map, List.mem_filter] at hout
        obtain ⟨row, ⟨hrow, hev⟩, e⟩ := hout
        obtain ⟨w, hwj, hw⟩ := hinv.wit row hrow
        refine ⟨w, pick pidx row, e.symm, proj_witnessed db sel.index row w hw proj pidx hp, ?_, hjw row hrow w hwj hw⟩
        intro c' hc'
        cases hc'
        rw [← evalCond_evalW rx db sel.index row w hw c ci hci]
        exact hev

end Verif.C11
