/-
C11 — model of `delphin.tsql`: the select-query parser on token lists
(`_parse_select*`, `_parse_condition_*`), column resolution, join planning with
pivot relations, the hash join, condition compilation/evaluation and projection.
Core Lean only.

Parameters of the model (supplied by the harness from the real code, see DESIGN §3):
* the lexer: queries arrive as token lists (`Tok`), integer and date lexemes already
  converted (`int(...)`, `tsdb.cast(':date', ...)` — C08 territory);
* `tsdb.cast`: every cell carries its raw text and its cast value;
* `re.search`: the predicate `rx pattern value`.
-/
namespace Verif.C11

inductive Err where
  | syntaxError     -- tsql.TSQLSyntaxError
  | tsqlError       -- tsql.TSQLError
  | keyError        -- KeyError (unknown relation / qualified column)
  | stopIteration   -- token stream exhausted (cannot happen behind the `.` sentinel)
  | fuel            -- the model's recursion fuel ran out (never: see Props.parse_print_*)
  | unmodelled      -- database outside the modelled fragment (ragged rows, duplicate names)
deriving Repr, DecidableEq

/-! ## Queries and tokens -/

inductive Op where | eq | ne | lt | le | gt | ge | re | nre
deriving Repr, DecidableEq

/-- operator lexemes: `=` and `==` are distinct lexemes with the same meaning -/
inductive RawOp where | eq1 | eq2 | ne | re | nre | le | lt | ge | gt
deriving Repr, DecidableEq

def RawOp.norm : RawOp → Op
  | .eq1 => .eq | .eq2 => .eq | .ne => .ne | .re => .re | .nre => .nre
  | .le => .le | .lt => .lt | .ge => .ge | .gt => .gt

/-- a literal; a date literal is `none` when `tsdb.cast(':date', text)` gave `None`
(invalid calendar date); dates are encoded as the sortable number YYYYMMDDhhmmss. -/
inductive Lit where
  | int (i : Int)
  | str (s : List Char)
  | date (k : Option Nat)
deriving Repr, DecidableEq

/-- a column as written: `rel = ""` for an unqualified name -/
structure ColRef where
  rel : String
  col : String
deriving Repr, DecidableEq

/-- condition trees; `κ` is the type of column references -/
inductive Cond (κ : Type) where
  | leaf (op : Op) (col : κ) (lit : Lit)
  | not (c : Cond κ)
  | and (cs : List (Cond κ))
  | or (cs : List (Cond κ))
deriving Repr

inductive Tok where
  | from_ | where_ | report | star | dot
  | op (o : RawOp)
  | and_ | or_ | not_ | lparen | rparen
  | str (s : List Char)          -- DQSTRING / SQSTRING (content between the quotes)
  | date (k : Option Nat)        -- YYYYMMDD / DDMMYY / KWDATE, already cast
  | int (i : Int)                -- INT, already converted
  | qid (rel col : String)       -- QID `rel.col`
  | id (s : String)              -- ID
deriving Repr, DecidableEq

inductive Proj where
  | star
  | cols (cs : List ColRef)
deriving Repr, DecidableEq

structure Query where
  proj : Proj
  rels : List String
  cond : Option (Cond ColRef)

abbrev PR (α : Type) := Except Err (α × List Tok)

/-- `conds[0]` if there is exactly one, else `(and|or, conds)` -/
def mkJunction {κ} (isAnd : Bool) : List (Cond κ) → Cond κ
  | [c] => c
  | cs => if isAnd then .and cs else .or cs

def tokLit : Tok → Option Lit
  | .str s => some (.str s)
  | .int i => some (.int i)
  | .date k => some (.date k)
  | _ => none

/-- which literal kinds `_parse_condition_statement` offers to `choice_type` per operator -/
def litAllowed (op : Op) : Lit → Bool
  | .str _ => op = .re || op = .nre || op = .eq || op = .ne
  | .int _ => !(op = .re || op = .nre)
  | .date _ => !(op = .re || op = .nre)

/-- `_parse_condition_statement` (the column token is already consumed) -/
def parseStmt (col : ColRef) : List Tok → PR (Cond ColRef)
  | [] => .error .stopIteration
  | .op o :: ts =>
    match ts with
    | [] => .error .stopIteration
    | t :: r =>
      match tokLit t with
      | some l => if litAllowed o.norm l then .ok (.leaf o.norm col l, r) else .error .syntaxError
      | none => .error .syntaxError
  | _ :: _ => .error .syntaxError

mutual
/-- the loop of `_parse_condition_disjunction`: conjunction (`OR` conjunction)* -/
def parseDisjList : Nat → List Tok → PR (List (Cond ColRef))
  | 0, _ => .error .fuel
  | n+1, ts =>
    match parseConjList n ts with
    | .error e => .error e
    | .ok (as, ts1) =>
      match ts1 with
      | .or_ :: ts2 =>
        match parseDisjList n ts2 with
        | .error e => .error e
        | .ok (cs, ts3) => .ok (mkJunction true as :: cs, ts3)
      | _ => .ok ([mkJunction true as], ts1)
/-- the loop of `_parse_condition_conjunction`: atom (`AND` atom)* -/
def parseConjList : Nat → List Tok → PR (List (Cond ColRef))
  | 0, _ => .error .fuel
  | n+1, ts =>
    match parseAtom n ts with
    | .error e => .error e
    | .ok (a, ts1) =>
      match ts1 with
      | .and_ :: ts2 =>
        match parseConjList n ts2 with
        | .error e => .error e
        | .ok (as, ts3) => .ok (a :: as, ts3)
      | _ => .ok ([a], ts1)
/-- one iteration body of `_parse_condition_conjunction`: `not` takes a whole disjunction -/
def parseAtom : Nat → List Tok → PR (Cond ColRef)
  | 0, _ => .error .fuel
  | _+1, [] => .error .stopIteration
  | n+1, .not_ :: ts =>
    match parseDisjList n ts with
    | .error e => .error e
    | .ok (cs, r) => .ok (.not (mkJunction false cs), r)
  | n+1, .lparen :: ts =>
    match parseDisjList n ts with
    | .error e => .error e
    | .ok (cs, .rparen :: r) => .ok (mkJunction false cs, r)
    | .ok (_, []) => .error .stopIteration
    | .ok (_, _ :: _) => .error .syntaxError
  | _+1, .qid rel col :: ts => parseStmt ⟨rel, col⟩ ts
  | _+1, .id s :: ts => parseStmt ⟨"", s⟩ ts
  | _+1, _ :: _ => .error .syntaxError
end

/-- `_parse_condition_disjunction` -/
def parseDisj (n : Nat) (ts : List Tok) : PR (Cond ColRef) :=
  match parseDisjList n ts with
  | .error e => .error e
  | .ok (cs, r) => .ok (mkJunction false cs, r)

/-- `while lexer.accept_type(_WHERE): conditions.append(disjunction)` -/
def parseWheres (f : Nat) : Nat → List Tok → PR (List (Cond ColRef))
  | 0, _ => .error .fuel
  | n+1, .where_ :: ts =>
    match parseDisj f ts with
    | .error e => .error e
    | .ok (c, r) =>
      match parseWheres f n r with
      | .error e => .error e
      | .ok (cs, r') => .ok (c :: cs, r')
  | _+1, ts => .ok ([], ts)

/-- `accept_type(_QID) or accept_type(_ID)` repeated -/
def takeCols : List Tok → List ColRef × List Tok
  | .qid rel col :: r => let p := takeCols r; (⟨rel, col⟩ :: p.1, p.2)
  | .id s :: r => let p := takeCols r; (⟨"", s⟩ :: p.1, p.2)
  | r => ([], r)

def takeIds : List Tok → List String × List Tok
  | .id s :: r => let p := takeIds r; (s :: p.1, p.2)
  | r => ([], r)

def parseProj : List Tok → PR Proj
  | [] => .error .stopIteration
  | .star :: r => .ok (.star, r)
  | .qid rel col :: r => let p := takeCols r; .ok (.cols (⟨rel, col⟩ :: p.1), p.2)
  | .id s :: r => let p := takeCols r; .ok (.cols (⟨"", s⟩ :: p.1), p.2)
  | _ :: _ => .error .syntaxError

def parseFrom : List Tok → PR (List String)
  | .from_ :: r =>
    match r with
    | .id s :: r' => let p := takeIds r'; .ok (s :: p.1, p.2)
    | [] => .error .stopIteration
    | _ :: _ => .error .syntaxError
  | r => .ok ([], r)

def whereCond : List (Cond ColRef) → Option (Cond ColRef)
  | [] => none
  | [c] => some c
  | cs => some (.and cs)

/-- `_parse_select` on the token list of `querystring + '.'`; tokens after the first
accepted `.` must all be `.` (repaired by commit 06e298f, finding F28). -/
def parseSelect (fuel : Nat) (ts : List Tok) : Except Err Query :=
  match parseProj ts with
  | .error e => .error e
  | .ok (proj, r1) =>
    match parseFrom r1 with
    | .error e => .error e
    | .ok (rels, r2) =>
      match parseWheres fuel fuel r2 with
      | .error e => .error e
      | .ok (cs, r3) =>
        match r3 with
        | [] => .error .stopIteration
        | .dot :: r4 =>
          if !r4.all (fun t => t = .dot) then .error .syntaxError
          else if proj = .star ∧ rels = [] then .error .syntaxError
          else .ok { proj := proj, rels := rels, cond := whereCond cs }
        | _ :: _ => .error .syntaxError

/-! ## The lexer (`_TSQLLexer`): twenty ordered token classes, first match wins

Hand-coded matchers stand for the regexes (DESIGN §3); they are tied to the real lexer by the
correspondence run on every generated query text.  ASCII only. -/

/-- a lexical token with its lexeme -/
inductive LTok where
  | fix (t : Tok)                 -- keywords, operators, parentheses, `*`, `.`
  | str (s : List Char)           -- content between the quotes (DQSTRING / SQSTRING)
  | ymd (s : List Char)           -- YYYYMMDD lexeme
  | dmy (s : List Char)           -- DDMMYY lexeme
  | kwdate (s : List Char)        -- `:today` / `now`
  | int (s : List Char)           -- INT lexeme
  | qid (a b : List Char)
  | id (s : List Char)
deriving Repr, DecidableEq

def isLetterC (c : Char) : Bool := ('a' ≤ c && c ≤ 'z') || ('A' ≤ c && c ≤ 'Z')
def isDigitC (c : Char) : Bool := '0' ≤ c && c ≤ '9'
def isIdC (c : Char) : Bool := isLetterC c || isDigitC c || c = '-' || c = '_'
def isSpaceC (c : Char) : Bool := c = ' ' || c = '\t' || c = '\n' || c = '\r' || c = '\x0b' || c = '\x0c'

/-- `s` minus the prefix `kw`, if `kw` is a prefix -/
def dropPrefix? : List Char → List Char → Option (List Char)
  | [], s => some s
  | _ :: _, [] => none
  | k :: kw, c :: s => if k = c then dropPrefix? kw s else none

def monthTriples : List (Char × Char × Char) :=
  [('j','a','n'), ('f','e','b'), ('m','a','r'), ('a','p','r'), ('m','a','y'), ('j','u','n'),
   ('j','u','l'), ('a','u','g'), ('s','e','p'), ('o','c','t'), ('n','o','v'), ('d','e','c')]

/-- `jan|feb|mar|apr|may|jun|jul|aug|sep|oct|nov|dec` -/
def isMonth3 (a b c : Char) : Bool :=
  monthTriples.any (fun m => a = m.1 && b = m.2.1 && c = m.2.2)

def kwFrom : List Char := ['f', 'r', 'o', 'm']
def kwWhere : List Char := ['w', 'h', 'e', 'r', 'e']
def kwReport : List Char := ['r', 'e', 'p', 'o', 'r', 't']
def kwAnd : List Char := ['a', 'n', 'd']
def kwOr : List Char := ['o', 'r']
def kwNot : List Char := ['n', 'o', 't']
def kwNow : List Char := ['n', 'o', 'w']
def kwToday : List Char := ['t', 'o', 'd', 'a', 'y']

/-- one digit -/
def dig1 : List Char → Option (List Char)
  | a :: r => if isDigitC a then some r else none
  | [] => none

/-- exactly two digits -/
def twoDigits (s : List Char) : Option (List Char) := (dig1 s).bind dig1

/-- a `-` -/
def dash : List Char → Option (List Char)
  | c :: r => if c = '-' then some r else none
  | [] => none

/-- a `:` -/
def colon : List Char → Option (List Char)
  | c :: r => if c = ':' then some r else none
  | [] => none

/-- `tt:tt` -/
def hhmm (s : List Char) : Option (List Char) := ((twoDigits s).bind colon).bind twoDigits

/-- `:tt` -/
def colonTT (s : List Char) : Option (List Char) := (colon s).bind twoDigits

def closeParen : List Char → Option (List Char)
  | c :: r => if c = ')' then some r else none
  | [] => none

/-- `\(tt:tt(?::tt)?\)` -/
def timeParen : List Char → Option (List Char)
  | c :: r =>
    if c = '(' then (hhmm r).bind (fun r1 => ((colonTT r1).bind closeParen).orElse (fun _ => closeParen r1))
    else none
  | [] => none

/-- `tt:tt:tt` (the seconds are not optional in this alternative) -/
def timeBare (s : List Char) : Option (List Char) := (hhmm s).bind colonTT

/-- the optional time `(?:\s*\(tt:tt(?::tt)?\)|\s+tt:tt(?::tt))?`: the rest after it -/
def timeTail (s : List Char) : List Char :=
  match (timeParen (s.dropWhile isSpaceC)).orElse
      (fun _ => if (s.dropWhile isSpaceC).length < s.length then timeBare (s.dropWhile isSpaceC) else none) with
  | some r => r
  | none => s

/-- a lower-case month name -/
def month3 : List Char → Option (List Char)
  | a :: t =>
    if isLetterC a then
      match t with
      | b :: c :: r => if isMonth3 a b c then some r else none
      | _ => none
    else none
  | [] => none

/-- month of the date patterns in the regex's order: `[0-9][0-9]`, `[0-9]`, a month name -/
def monthOpts (s : List Char) : List (List Char) :=
  (twoDigits s).toList ++ (dig1 s).toList ++ (month3 s).toList

/-- the optional `-[0-9]{1,2}` (greedy) -/
def dayPart (r1 : List Char) : List Char :=
  match (dash r1).bind dig1 with
  | none => r1
  | some r' => match dig1 r' with
    | some r'' => r''
    | none => r'

/-- YYYYMMDD: `[0-9]{4}-month(?:-[0-9]{1,2})?(?:time)?`; every part after the month is optional,
so the first month alternative that matches decides -/
def ymdCore (s : List Char) : Option (List Char) :=
  (((twoDigits s).bind twoDigits).bind dash).bind (fun r => ((monthOpts r).head?).map dayPart)

def matchYMD (s : List Char) : Option (List Char) := (ymdCore s).map timeTail

def firstSome {α β} (f : α → Option β) : List α → Option β
  | [] => none
  | a :: as => match f a with
    | some b => some b
    | none => firstSome f as

/-- DDMMYY: `(?:[0-9]{1,2}-)?month-(?:[0-9]{2})?[0-9]{2}(?:time)?` with the regex's backtracking
order: day 2 digits / 1 digit / absent, month 2 digits / 1 digit / name, year 4 / 2 digits -/
def yearPart (r : List Char) : Option (List Char) :=
  (dash r).bind (fun r' => ((twoDigits r').bind twoDigits).orElse (fun _ => twoDigits r'))

def dayOpts (s : List Char) : List (List Char) :=
  ((twoDigits s).bind dash).toList ++ ((dig1 s).bind dash).toList ++ [s]

def dmyCore (s : List Char) : Option (List Char) :=
  firstSome (fun d => firstSome yearPart (monthOpts d)) (dayOpts s)

def matchDMY (s : List Char) : Option (List Char) := (dmyCore s).map timeTail

/-- the maximal identifier `[a-zA-Z][-_a-zA-Z0-9]*` at the front -/
def idRun : List Char → Option (List Char × List Char)
  | c :: r => if isLetterC c then some (c :: r.takeWhile isIdC, r.dropWhile isIdC) else none
  | [] => none

/-- a quoted string body up to the closing quote `q`: `[^q\\]*(?:\\.[^q\\]*)*q` -/
def strBody (q : Char) : List Char → Option (List Char × List Char)
  | [] => none
  | c :: r =>
    if c = q then some ([], r)
    else if c = '\\' then
      match r with
      | d :: r' => (strBody q r').map (fun p => (c :: d :: p.1, p.2))
      | [] => none
    else (strBody q r).map (fun p => (c :: p.1, p.2))

def lexemeOf (s rest : List Char) : List Char := s.take (s.length - rest.length)

/-- tokens that start with a letter, in class order: from, where, report, and, or, not,
DDMMYY (month name first), now, QID, ID -/
def lexWord (s : List Char) : Option (LTok × List Char) :=
  match dropPrefix? kwFrom s with
  | some r => some (.fix .from_, r)
  | none =>
  match dropPrefix? kwWhere s with
  | some r => some (.fix .where_, r)
  | none =>
  match dropPrefix? kwReport s with
  | some r => some (.fix .report, r)
  | none =>
  match dropPrefix? kwAnd s with
  | some r => some (.fix .and_, r)
  | none =>
  match dropPrefix? kwOr s with
  | some r => some (.fix .or_, r)
  | none =>
  match dropPrefix? kwNot s with
  | some r => some (.fix .not_, r)
  | none =>
  match matchDMY s with
  | some r => some (.dmy (lexemeOf s r), r)
  | none =>
  match dropPrefix? kwNow s with
  | some r => some (.kwdate kwNow, r)
  | none =>
  match idRun s with
  | none => none
  | some (a, r) =>
    match r with
    | '.' :: r' =>
      (match idRun r' with
        | some (b, r'') => some (.qid a b, r'')
        | none => some (.id a, r))
    | _ => some (.id a, r)

/-- `[+-]?` -/
def stripSign : List Char → List Char
  | c :: r => if c = '+' || c = '-' then r else c :: r
  | [] => []

/-- tokens that start with a digit or a sign: YYYYMMDD, DDMMYY, INT -/
def lexNum (s : List Char) : Option (LTok × List Char) :=
  match matchYMD s with
  | some r => some (.ymd (lexemeOf s r), r)
  | none =>
  match matchDMY s with
  | some r => some (.dmy (lexemeOf s r), r)
  | none =>
    if ((stripSign s).takeWhile isDigitC).isEmpty then none
    else some (.int (lexemeOf s ((stripSign s).dropWhile isDigitC)), (stripSign s).dropWhile isDigitC)

/-- the other token classes, in class order -/
def lexSym : List Char → Option (LTok × List Char)
  | '*' :: r => some (.fix .star, r)
  | '.' :: r => some (.fix .dot, r)
  | '=' :: '=' :: r => some (.fix (.op .eq2), r)
  | '=' :: r => some (.fix (.op .eq1), r)
  | '!' :: '=' :: r => some (.fix (.op .ne), r)
  | '~' :: r => some (.fix (.op .re), r)
  | '!' :: '~' :: r => some (.fix (.op .nre), r)
  | '<' :: '=' :: r => some (.fix (.op .le), r)
  | '<' :: r => some (.fix (.op .lt), r)
  | '>' :: '=' :: r => some (.fix (.op .ge), r)
  | '>' :: r => some (.fix (.op .gt), r)
  | '&' :: '&' :: r => some (.fix .and_, r)
  | '&' :: r => some (.fix .and_, r)
  | '|' :: '|' :: r => some (.fix .or_, r)
  | '|' :: r => some (.fix .or_, r)
  | '!' :: r => some (.fix .not_, r)
  | '(' :: r => some (.fix .lparen, r)
  | ')' :: r => some (.fix .rparen, r)
  | '"' :: r => (strBody '"' r).map (fun p => (.str p.1, p.2))
  | '\'' :: r => (strBody '\'' r).map (fun p => (.str p.1, p.2))
  | ':' :: r => (dropPrefix? kwToday r).map (fun r' => (.kwdate (':' :: kwToday), r'))
  | _ => none

/-- the token at the front of `s` (no leading white space); `none` = the UNEXPECTED class -/
def lexAt (s : List Char) : Option (LTok × List Char) :=
  match s with
  | [] => none
  | c :: _ =>
    if isLetterC c then lexWord s
    else if isDigitC c || c = '+' || c = '-' then lexNum s
    else lexSym s

/-- `prelex` on one line: white space is skipped, anything else must start a token -/
def lexLine : Nat → List Char → Except Err (List LTok)
  | 0, _ => .error .fuel
  | n+1, s =>
    match s.dropWhile isSpaceC with
    | [] => .ok []
    | s' =>
      match lexAt s' with
      | none => .error .syntaxError
      | some (t, r) =>
        if r.length < s'.length then
          match lexLine n r with
          | .error e => .error e
          | .ok ts => .ok (t :: ts)
        else .error .unmodelled

/-! ### spellings: which words are lexemes of which token (used by the statements in Props) -/

def opLexeme : RawOp → List Char
  | .eq1 => ['='] | .eq2 => ['=', '='] | .ne => ['!', '='] | .re => ['~'] | .nre => ['!', '~']
  | .le => ['<', '='] | .lt => ['<'] | .ge => ['>', '='] | .gt => ['>']

/-- the spelling the printer uses for a token -/
def lexeme : LTok → List Char
  | .fix .from_ => kwFrom
  | .fix .where_ => kwWhere
  | .fix .report => kwReport
  | .fix .star => ['*']
  | .fix .dot => ['.']
  | .fix (.op o) => opLexeme o
  | .fix .and_ => kwAnd
  | .fix .or_ => kwOr
  | .fix .not_ => kwNot
  | .fix .lparen => ['(']
  | .fix .rparen => [')']
  | .fix _ => []
  | .str s => '"' :: s ++ ['"']
  | .ymd s => s
  | .dmy s => s
  | .kwdate s => s
  | .int s => s
  | .qid a b => a ++ '.' :: b
  | .id s => s

/-- `[a-zA-Z][-_a-zA-Z0-9]*` -/
def isIdent : List Char → Bool
  | c :: cs => isLetterC c && cs.all isIdC
  | [] => false

def noMonthPrefix : List Char → Bool
  | a :: b :: c :: _ => !isMonth3 a b c
  | _ => true

/-- an identifier that no earlier token class claims: not keyword-prefixed (`from where report and
or not now`) and not starting with a month name (which the DDMMYY class might claim) -/
def plainIdent (s : List Char) : Bool :=
  isIdent s && (dropPrefix? kwFrom s).isNone && (dropPrefix? kwWhere s).isNone &&
  (dropPrefix? kwReport s).isNone && (dropPrefix? kwAnd s).isNone && (dropPrefix? kwOr s).isNone &&
  (dropPrefix? kwNot s).isNone && (dropPrefix? kwNow s).isNone && noMonthPrefix s

def isDateYMD : List Char → Bool
  | [a, b, c, d, '-', m1, m2, '-', d1, d2] =>
    isDigitC a && isDigitC b && isDigitC c && isDigitC d && isDigitC m1 && isDigitC m2 && isDigitC d1 && isDigitC d2
  | _ => false

def isIntLexeme : List Char → Bool
  | '+' :: ds => !ds.isEmpty && ds.all isDigitC
  | '-' :: ds => !ds.isEmpty && ds.all isDigitC
  | ds => !ds.isEmpty && ds.all isDigitC

/-- the printer's output alphabet -/
def printable : LTok → Bool
  | .fix .from_ | .fix .where_ | .fix .report | .fix .star | .fix .dot | .fix (.op _) | .fix .and_
  | .fix .or_ | .fix .not_ | .fix .lparen | .fix .rparen => true
  | .fix _ => false
  | .str s => s.all (fun c => c ≠ '"' && c ≠ '\\')
  | .ymd s => isDateYMD s
  | .dmy _ => false
  | .kwdate _ => false
  | .int s => isIntLexeme s
  | .qid a b => plainIdent a && isIdent b
  | .id s => plainIdent s

/-- what may follow a date: nothing the optional time of the date pattern could swallow -/
def dateSafe (rest : List Char) : Bool :=
  match rest.dropWhile isSpaceC with
  | [] => true
  | c :: _ => c ≠ '(' && !isDigitC c

/-- the exact predicate on date spellings: the class's matcher consumes the whole string -/
def isYMDLexeme (s : List Char) : Bool := matchYMD s = some []

/-- … for the DDMMYY class, tried after YYYYMMDD (which therefore must not match a prefix) -/
def isDMYLexeme (s : List Char) : Bool := matchYMD s = none && matchDMY s = some []

/-- the content of a quoted string with quote `q`: `[^q\\]*(?:\\.[^q\\]*)*` — no bare quote, every
backslash followed by some character -/
def wellQuoted (q : Char) : List Char → Bool
  | [] => true
  | c :: r =>
    if c = q then false
    else if c = '\\' then
      match r with
      | _ :: r' => wellQuoted q r'
      | [] => false
    else wellQuoted q r

/-- `w` is a spelling of the token `t`: every spelling the lexer accepts for the classes of the
condition grammar — the alternative connective spellings, both quote styles with backslash
escapes, every date spelling of the two date classes, `now`/`:today`, signed integers, identifiers
and qualified identifiers that no earlier class claims -/
def spells (w : List Char) : LTok → Bool
  | .fix .and_ => w = kwAnd || w = ['&'] || w = ['&', '&']
  | .fix .or_ => w = kwOr || w = ['|'] || w = ['|', '|']
  | .fix .not_ => w = kwNot || w = ['!']
  | .fix t => printable (.fix t) && w = lexeme (.fix t)
  | .str s => (w = '"' :: s ++ ['"'] && wellQuoted '"' s) || (w = '\'' :: s ++ ['\''] && wellQuoted '\'' s)
  | .ymd s => w = s && isYMDLexeme s
  | .dmy s => w = s && isDMYLexeme s
  | .kwdate s => w = s && (s = kwNow || s = ':' :: kwToday)
  | .int s => w = s && isIntLexeme s
  | .qid a b => w = a ++ '.' :: b && plainIdent a && isIdent b
  | .id s => w = s && plainIdent s

def isDateTok : LTok → Bool
  | .ymd _ => true
  | .dmy _ => true
  | _ => false

/-- the text of a list of words: one space after each -/
def renderW (ws : List (List Char)) : List Char := ws.flatMap (fun w => w ++ [' '])

def wordSafe : List Char → Bool
  | c :: _ => c ≠ '(' && !isDigitC c
  | [] => true

/-- a date is followed by nothing or by a word that does not start with `(` or a digit -/
def seqOKW : List (List Char × LTok) → Bool
  | [] => true
  | [_] => true
  | p :: q :: ps => (!isDateTok p.2 || wordSafe q.1) && seqOKW (q :: ps)

/-! ## Databases -/

/-- `:float` columns: only the type check of conditions is modelled; comparing their values is left
to the real code (`unmodelled`), and the generators never make them keys -/
inductive DType where | integer | string | date | float
deriving Repr, DecidableEq

/-- a cast value (`tsdb.cast`): `None`, int, str, datetime (as YYYYMMDDhhmmss) -/
inductive Val where
  | none
  | int (i : Int)
  | str (s : List Char)
  | date (k : Nat)
deriving Repr, DecidableEq

structure Cell where
  raw : Option (List Char)     -- what `_select_raw` yields (`None` for an empty field)
  val : Val                    -- `tsdb.cast(datatype of its column, raw)`
deriving Repr, DecidableEq

structure Field where
  name : String
  dtype : DType
  isKey : Bool
deriving Repr, DecidableEq

structure Rel where
  name : String
  fields : List Field
  rows : List (List Cell)
deriving Repr

abbrev DB := List Rel

def noDot (s : String) : Bool := !s.toList.contains '.'

def Rel.wf (r : Rel) : Bool :=
  (r.fields.map (·.name)).Nodup && r.rows.all (fun row => row.length = r.fields.length)
    && noDot r.name && r.fields.all (fun f => noDot f.name)
    && r.fields.all (fun f => !(f.isKey && f.dtype = .float))   -- float values are not modelled: no float keys

def DB.wf (db : DB) : Bool := (db.map (·.name)).Nodup && db.all Rel.wf

def DB.rel? (db : DB) (name : String) : Option Rel := db.find? (fun r => r.name = name)

def Rel.field? (r : Rel) (col : String) : Option Field := r.fields.find? (fun f => f.name = col)

def Rel.fieldIdx? (r : Rel) (col : String) : Option Nat := r.fields.findIdx? (fun f => f.name = col)

def Rel.keyNames (r : Rel) : List String := (r.fields.filter (·.isKey)).map (·.name)

/-- resolved qualified name (relation, column); Python holds the text `rel.col` -/
abbrev QName := String × String

def qstr (q : QName) : String := q.1 ++ "." ++ q.2

/-! ### column resolution (`_make_qname_resolver`) -/

/-- relations having a column of that name, in schema order -/
def schemaMap (db : DB) (col : String) : List String :=
  (db.filter (fun r => r.fields.any (fun f => f.name = col))).map (·.name)

/-- `sorted(cands, key=relations.__contains__, reverse=True)` (stable) -/
def preferred (rels : List String) (cands : List String) : List String :=
  cands.filter (fun c => rels.contains c) ++ cands.filter (fun c => !rels.contains c)

def resolve (db : DB) (rels : List String) (c : ColRef) : Except Err (QName × Field) :=
  if c.rel ≠ "" then
    match db.rel? c.rel with
    | none => .error .keyError
    | some r =>
      match r.field? c.col with
      | none => .error .keyError
      | some f => .ok ((c.rel, c.col), f)
  else
    match preferred rels (schemaMap db c.col) with
    | [] => .error .tsqlError
    | rel :: _ =>
      match db.rel? rel with
      | none => .error .unmodelled
      | some r =>
        match r.field? c.col with
        | none => .error .unmodelled
        | some f => .ok ((rel, c.col), f)

/-- the inner loop of `_project_all` over the fields of relation `name`; `ka` is `keys_added` -/
def projFields (name : String) : List Field → List String → List QName × List String
  | [], ka => ([], ka)
  | f :: fs, ka =>
    if !f.isKey then
      let p := projFields name fs ka
      ((name, f.name) :: p.1, p.2)
    else if ka.contains f.name then projFields name fs ka
    else
      let p := projFields name fs (ka ++ [f.name])
      ((name, f.name) :: p.1, p.2)

/-- `_project_all` -/
def projectAllAux (db : DB) : List String → List String → Except Err (List QName)
  | [], _ => .ok []
  | name :: rest, keysAdded =>
    match db.rel? name with
    | none => .error .keyError
    | some r =>
      let step := projFields name r.fields keysAdded
      match projectAllAux db rest step.2 with
      | .error e => .error e
      | .ok more => .ok (step.1 ++ more)

def projectAll (db : DB) (rels : List String) : Except Err (List QName) := projectAllAux db rels []

/-! ### condition resolution with type check (`_process_condition_fields`) -/

def litType : Lit → Option DType
  | .int _ => some .integer
  | .str _ => some .string
  | .date (some _) => some .date
  | .date none => none          -- `isinstance(None, datetime)` is false for every column

/-- `isinstance(literal, _expected_type(datatype))`: the literal's type is the column's; a `:float`
column also accepts an integer literal (`(int, float)`) -/
def litFits (dt : DType) (l : Lit) : Bool :=
  match dt, l with
  | .float, .int _ => true
  | .float, _ => false
  | dt, l => litType l = some dt

mutual
def resolveCond (res : ColRef → Except Err (QName × Field)) : Cond ColRef → Except Err (Cond QName)
  | .leaf op c l =>
    match res c with
    | .error e => .error e
    | .ok (q, f) =>
      if litFits f.dtype l then
        (if f.dtype = .float then .error .unmodelled else .ok (.leaf op q l))
      else .error .tsqlError
  | .not c =>
    match resolveCond res c with
    | .error e => .error e
    | .ok c' => .ok (.not c')
  | .and cs =>
    match resolveConds res cs with
    | .error e => .error e
    | .ok cs' => .ok (.and cs')
  | .or cs =>
    match resolveConds res cs with
    | .error e => .error e
    | .ok cs' => .ok (.or cs')
def resolveConds (res : ColRef → Except Err (QName × Field)) : List (Cond ColRef) → Except Err (List (Cond QName))
  | [] => .ok []
  | c :: cs =>
    match resolveCond res c with
    | .error e => .error e
    | .ok c' =>
      match resolveConds res cs with
      | .error e => .error e
      | .ok cs' => .ok (c' :: cs')
end

def insertSorted (q : QName) : List QName → List QName
  | [] => [q]
  | x :: xs =>
    if qstr q < qstr x then q :: x :: xs
    else if qstr q = qstr x then x :: xs
    else x :: insertSorted q xs

/-- `sorted(set(...))` on the `rel.col` texts -/
def sortDedup (qs : List QName) : List QName := qs.foldr insertSorted []

mutual
def condFields : Cond QName → List QName
  | .leaf _ q _ => [q]
  | .not c => condFields c
  | .and cs => sortDedup (condFieldsList cs)
  | .or cs => sortDedup (condFieldsList cs)
def condFieldsList : List (Cond QName) → List QName
  | [] => []
  | c :: cs => condFields c ++ condFieldsList cs
end

/-! ### join planning (`_plan_joins`, `_pivot_relations`) -/

abbrev JoinMap := List (String × List String)

/-- `joinmap.setdefault(rel, []).append(col)` -/
def jmAdd (jm : JoinMap) (rel col : String) : JoinMap :=
  if jm.any (fun p => p.1 = rel) then jm.map (fun p => if p.1 = rel then (p.1, p.2 ++ [col]) else p)
  else jm ++ [(rel, [col])]

def intersects (a b : List String) : Bool := a.any (fun x => b.contains x)

def keyNamesOf (db : DB) (rel : String) : List String :=
  match db.rel? rel with
  | some r => r.keyNames
  | none => []

/-- connected components of the key-name graph: each relation's keys form a clique -/
def mergeComp (comps : List (List String)) (keys : List String) : List (List String) :=
  if keys.isEmpty then comps
  else (((comps.filter (fun c => intersects keys c)).flatten) ++ keys)
        :: comps.filter (fun c => !intersects keys c)

def components (db : DB) (rels : List String) : List (List String) :=
  rels.foldl (fun cs r => mergeComp cs (keyNamesOf db r)) []

def pivotLoop (db : DB) : Nat → List String → List String → Except Err (List String)
  | 0, _, _ => .error .fuel
  | n+1, relset, pivots =>
    let comps := components db (relset ++ pivots)
    if comps.length ≤ 1 then .ok pivots
    else
      match db.find? (fun r => !(relset ++ pivots).contains r.name && r.keyNames.length > 1
                        && (comps.filter (fun c => intersects r.keyNames c)).length > 1) with
      | none => .error .tsqlError
      | some r => pivotLoop db n relset (pivots ++ [r.name])

def orderJoins (db : DB) : Nat → JoinMap → List (String × List String) → List String
    → Except Err (List (String × List String))
  | _, [], joins, _ => .ok joins
  | 0, _ :: _, _, _ => .error .fuel
  | n+1, jm@(_ :: _), joins, jk =>
    -- `joined_keys.intersection(keymap[rel])`: the KEY columns of the candidate decide (commit e207678, finding F58;
    -- before the fix every requested column of the candidate counted)
    match jm.find? (fun p => joins.isEmpty || intersects jk (keyNamesOf db p.1)) with
    | none => .error .tsqlError
    | some p => orderJoins db n (jm.erase p) (joins ++ [p]) (jk ++ keyNamesOf db p.1)

structure Plan where
  joins : List (String × List String)
  /-- false when ≥ 2 relations entered the join map from the unordered `relset` loop:
  their relative order is the iteration order of a Python `set` -/
  ordered : Bool

def planJoins (db : DB) (projection condFs : List QName) (rels : List String) : Except Err Plan :=
  let qs := (projection ++ condFs).eraseDups
  let jm0 : JoinMap := qs.foldl (fun jm q => jmAdd jm q.1 q.2) []
  let relset := (rels ++ qs.map (·.1)).eraseDups
  if relset.any (fun r => (db.rel? r).isNone) then .error .keyError
  else
    match pivotLoop db (db.length + 1) relset [] with
    | .error e => .error e
    | .ok pivots =>
      let all := relset ++ pivots
      let jm1 : JoinMap := all.foldl
        (fun jm r => (keyNamesOf db r).foldl
          (fun jm k => if qs.contains (r, k) then jm else jmAdd jm r k) jm) jm0
      let fresh := (jm1.filter (fun p => !jm0.any (fun p0 => p0.1 = p.1))).length
      match orderJoins db (jm1.length + 1) jm1 [] [] with
      | .error e => .error e
      | .ok joins => .ok { joins := joins, ordered := fresh ≤ 1 }

/-! ### the join (`_join`, `_merge_fields`) -/

/-- keys of `_field_index`: an unqualified column name or the text `rel.col`.  Identifiers of
the query language and of the generated schemas contain no `.`, so the two kinds never collide
and `rel.col` determines `rel` and `col`; the model keeps them apart structurally.

`k col` is the entry of `Selection._key_index` (commit 14dfce4, finding F59): the unqualified name of
a key column ↦ the FIRST joined KEY column so named.  Python stores that column's qualified name
`rel.col` and reads its position through `_field_index[rel.col]`; the model stores the position itself,
resolved when the entry is made.  The two agree because the qualified entries of a joined relation are
never reassigned afterwards (a relation is joined once, and `_merge_fields` writes only entries of the
relation it is merging; column names of a relation are distinct: `DB.wf`). -/
inductive Key where
  | u (col : String)
  | q (rel col : String)
  | k (col : String)
deriving Repr, DecidableEq

structure Sel where
  fields : List Field
  index : List (Key × Nat)             -- `_field_index`
  data : List (List Cell)
  joined : List String

def Sel.empty : Sel := { fields := [], index := [], data := [], joined := [] }

/-- `d[k]` / `k in d` -/
def dictGet {α} (d : List (Key × α)) (k : Key) : Option α :=
  match d with
  | [] => none
  | (k', v) :: rest => if k' = k then some v else dictGet rest k

/-- `d[k] = v` (an existing key keeps its position) -/
def dictSet {α} (d : List (Key × α)) (k : Key) (v : α) : List (Key × α) :=
  match d with
  | [] => [(k, v)]
  | (k', v') :: rest => if k' = k then (k, v) :: rest else (k', v') :: dictSet rest k v

/-- `if k not in d: d[k] = v` -/
def dictAdd {α} (d : List (Key × α)) (k : Key) (v : α) : List (Key × α) :=
  if (dictGet d k).isSome then d else d ++ [(k, v)]

/-- the first loop of `_merge_fields`, one field: the unqualified name if it is new, the qualified name,
and — for a key field whose name has no key entry yet — the key entry -/
def mergeStep (relname : String) (offset : Nat) (ix : List (Key × Nat)) (p : Field × Nat) : List (Key × Nat) :=
  let ix1 := dictSet (dictAdd ix (.u p.1.name) (offset + p.2)) (.q relname p.1.name) (offset + p.2)
  if p.1.isKey then dictAdd ix1 (.k p.1.name) (offset + p.2) else ix1

def mergeFields (sel : Sel) (relname : String) (on : List String) (fields : List Field) : Sel :=
  let offset := sel.fields.length
  let index1 := fields.zipIdx.foldl (mergeStep relname offset) sel.index
  let index2 := on.foldl
    (fun ix name => match dictGet ix (.k name) with
      | some i => dictSet ix (.q relname name) i
      | none => ix) index1
  { fields := sel.fields ++ fields, index := index2, data := sel.data, joined := sel.joined ++ [relname] }

def noCell : Cell := ⟨none, .none⟩

/-- `tuple(record[idx] for idx in indices)` (rows are as long as their field list: `DB.wf`) -/
def pick (idxs : List Nat) (row : List Cell) : List Cell := idxs.map (fun i => row.getD i noCell)

/-- `right.setdefault(key, []).append(row)` -/
def groupAdd {κ ρ} [DecidableEq κ] (d : List (κ × List ρ)) (k : κ) (v : ρ) : List (κ × List ρ) :=
  match d with
  | [] => [(k, [v])]
  | (k', vs) :: rest => if k' = k then (k', vs ++ [v]) :: rest else (k', vs) :: groupAdd rest k v

def lookupD {κ ρ} [DecidableEq κ] (d : List (κ × List ρ)) (k : κ) : List ρ :=
  match d with
  | [] => []
  | (k', vs) :: rest => if k' = k then vs else lookupD rest k

/-- the inner hash join of `_join`: group the right rows by key (insertion order),
then for each left row emit one output per right row of its group -/
def hashJoin {α β γ κ} [DecidableEq κ] (L : List α) (R : List β) (kl : α → κ) (kr : β → κ)
    (out : α → β → γ) : List γ :=
  let right := R.foldl (fun d r => groupAdd d (kr r) r) []
  L.flatMap (fun l => (lookupD right (kl l)).map (out l))

def keyOf (idxs : List Nat) (row : List Cell) : List Val := (pick idxs row).map (·.val)

/-- `on` of `_join`: the key columns of the new relation whose (unqualified) name is the name of a KEY
column already in the selection (`f.name in selection._key_index`; before commit 14dfce4 any column of
that name counted) -/
def sharedKeys (sel : Sel) (fields : List Field) : List String :=
  (fields.filter (fun f => f.isKey && (dictGet sel.index (.k f.name)).isSome)).map (·.name)

def joinStep (db : DB) (sel : Sel) (j : String × List String) : Except Err Sel :=
  if sel.joined.contains j.1 then .error .tsqlError else
  match db.rel? j.1 with
  | none => .error .keyError
  | some rel =>
    match j.2.mapM rel.fieldIdx? with
    | none => .error .keyError
    | some indices =>
      let fields := indices.map (fun i => rel.fields.getD i ⟨"", .string, false⟩)
      if sel.joined.isEmpty then
        .ok (mergeFields { sel with data := rel.rows.map (pick indices) } j.1 [] fields)
      else
        let on := sharedKeys sel fields
        let fields' := fields.filter (fun f => !on.contains f.name)
        if on.isEmpty then .error .tsqlError else
        let rK := on.filterMap rel.fieldIdx?
        let rV := fields'.filterMap (fun f => rel.fieldIdx? f.name)
        let lK := on.filterMap (fun n => dictGet sel.index (.k n))
        let data := hashJoin sel.data rel.rows (keyOf lK) (keyOf rK) (fun l r => l ++ pick rV r)
        .ok (mergeFields { sel with data := data } j.1 on fields')

def runJoins (db : DB) : Sel → List (String × List String) → Except Err Sel
  | sel, [] => .ok sel
  | sel, j :: js =>
    match joinStep db sel j with
    | .error e => .error e
    | .ok sel' => runJoins db sel' js

/-! ### conditions (`_process_condition_function`) -/

def cmpOrd {α} (lt : α → α → Bool) (eq : α → α → Bool) (op : Op) (a b : α) : Bool :=
  match op with
  | .eq => eq a b
  | .ne => !eq a b
  | .lt => lt a b
  | .le => lt a b || eq a b
  | .gt => lt b a
  | .ge => lt b a || eq a b
  | _ => false

/-- `compare(value, literal)` for a value that is not `None`.  After the type check of
`resolveCond` value and literal always have the same type; other combinations follow
Python's `==`/`!=` (ordering comparisons would raise and are given `false`). -/
def compareVal (op : Op) (v : Val) (l : Lit) : Bool :=
  match v, l with
  | .int a, .int b => cmpOrd (fun x y => decide (x < y)) (fun x y => decide (x = y)) op a b
  | .date a, .date (some b) => cmpOrd (fun x y => decide (x < y)) (fun x y => decide (x = y)) op a b
  | .str a, .str b => match op with | .eq => decide (a = b) | .ne => !decide (a = b) | _ => false
  | _, _ => match op with | .ne => true | _ => false

def evalLeaf (rx : List Char → List Char → Bool) (op : Op) (v : Val) (l : Lit) : Bool :=
  match op with
  | .re =>
    match v, l with
    | .str s, .str p => rx p s
    | _, _ => false
  | .nre =>
    match v, l with
    | .none, _ => true
    | .str s, .str p => !rx p s
    | _, _ => false
  | _ =>
    match v with
    | .none => false
    | _ => compareVal op v l

mutual
/-- the row predicate; leaves carry the position of their column in the joined row -/
def evalCond (rx : List Char → List Char → Bool) (row : List Cell) : Cond Nat → Bool
  | .leaf op i l => evalLeaf rx op (row.getD i noCell).val l
  | .not c => !evalCond rx row c
  | .and cs => evalAll rx row cs
  | .or cs => evalAny rx row cs
def evalAll (rx : List Char → List Char → Bool) (row : List Cell) : List (Cond Nat) → Bool
  | [] => true
  | c :: cs => evalCond rx row c && evalAll rx row cs
def evalAny (rx : List Char → List Char → Bool) (row : List Cell) : List (Cond Nat) → Bool
  | [] => false
  | c :: cs => evalCond rx row c || evalAny rx row cs
end

mutual
/-- `field_index[qname]` for every leaf (Python looks it up per row; it cannot fail for a
column the planner put into the join map) -/
def indexCond (index : List (Key × Nat)) : Cond QName → Except Err (Cond Nat)
  | .leaf op q l =>
    match dictGet index (.q q.1 q.2) with
    | none => .error .keyError
    | some i => .ok (.leaf op i l)
  | .not c =>
    match indexCond index c with
    | .error e => .error e
    | .ok c' => .ok (.not c')
  | .and cs =>
    match indexConds index cs with
    | .error e => .error e
    | .ok cs' => .ok (.and cs')
  | .or cs =>
    match indexConds index cs with
    | .error e => .error e
    | .ok cs' => .ok (.or cs')
def indexConds (index : List (Key × Nat)) : List (Cond QName) → Except Err (List (Cond Nat))
  | [] => .ok []
  | c :: cs =>
    match indexCond index c with
    | .error e => .error e
    | .ok c' =>
      match indexConds index cs with
      | .error e => .error e
      | .ok cs' => .ok (c' :: cs')
end

/-! ### `_select` -/

def resolveProj (db : DB) (q : Query) : Except Err (List QName) :=
  match q.proj with
  | .star => projectAll db q.rels
  | .cols cs => cs.mapM (fun c => match resolve db q.rels c with
      | .error e => .error e
      | .ok (qn, _) => .ok qn)

def resolveQCond (db : DB) (q : Query) : Except Err (Option (Cond QName)) :=
  match q.cond with
  | none => .ok none
  | some c =>
    match resolveCond (resolve db q.rels) c with
    | .error e => .error e
    | .ok c' => .ok (some c')

structure Result where
  ordered : Bool
  rows : List (List (Option (List Char)))

/-- filter and project a joined selection -/
def finish (rx : List Char → List Char → Bool) (sel : Sel) (proj : List QName)
    (cond : Option (Cond QName)) : Except Err (List (List (Option (List Char)))) :=
  match proj.mapM (fun q => dictGet sel.index (.q q.1 q.2)) with
  | none => .error .keyError
  | some pidx =>
    match cond with
    | none => .ok (sel.data.map (fun row => (pick pidx row).map (·.raw)))
    | some c =>
      match indexCond sel.index c with
      | .error e => .error e
      | .ok ci => .ok ((sel.data.filter (fun row => evalCond rx row ci)).map
                        (fun row => (pick pidx row).map (·.raw)))

def select (rx : List Char → List Char → Bool) (db : DB) (q : Query) : Except Err Result :=
  if !db.wf then .error .unmodelled else
  match resolveProj db q with
  | .error e => .error e
  | .ok proj =>
    match resolveQCond db q with
    | .error e => .error e
    | .ok cond =>
      let cfs := match cond with | none => [] | some c => condFields c
      match planJoins db proj cfs q.rels with
      | .error e => .error e
      | .ok plan =>
        match runJoins db Sel.empty plan.joins with
        | .error e => .error e
        | .ok sel =>
          match finish rx sel proj cond with
          | .error e => .error e
          | .ok rows => .ok { ordered := plan.ordered, rows := rows }

end Verif.C11
