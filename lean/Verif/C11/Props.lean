/-
C11 — property theorems (TSQL select).  Only property statements live here; the printer `pr`,
the normal form `nf`, `leaves` and all helper lemmas are in Lemmas.lean.
-/
import Verif.C11.Lemmas

namespace Verif.C11

/-! ### join -/

/-- "returns exactly the rows of the inner join, on shared key columns … with multiplicities
preserved": the hash join of `_join` (group the right rows by their cast key tuple, then look each
left row up) is the nested-loop comprehension `[out l r | l ← L, r ← R, key r = key l]` — same
rows, same order, same multiplicities, for every pair of row lists and every key function. -/
theorem hashJoin_eq_nested {α β γ κ} [DecidableEq κ] (L : List α) (R : List β) (kl : α → κ) (kr : β → κ)
    (out : α → β → γ) :
    hashJoin L R kl kr out
      = L.flatMap (fun l => (R.filter (fun r => kr r = kl l)).map (out l)) :=
  hashJoin_eq_nested_aux L R kl kr out

/-! ### empty fields -/

/-- "equality and ordering comparisons never match an empty field": for each of
`== != < <= > >=`, whatever the literal. -/
theorem cmp_never_matches_empty (rx : List Char → List Char → Bool) (op : Op) (l : Lit)
    (hop : op ≠ .re ∧ op ≠ .nre) : evalLeaf rx op .none l = false := by
  cases op <;> simp_all [evalLeaf]

/-- a (positive) regex match needs a non-empty value as well -/
theorem regex_never_matches_empty (rx : List Char → List Char → Bool) (l : Lit) :
    evalLeaf rx .re .none l = false := by
  simp [evalLeaf]

/-- "(a negated regex match does)": `!~` holds on every empty field, whatever the pattern -/
theorem negated_regex_matches_empty (rx : List Char → List Char → Bool) (l : Lit) :
    evalLeaf rx .nre .none l = true := by
  simp [evalLeaf]

/-- on a non-empty string `!~` is exactly the negation of `~` -/
theorem negated_regex_is_negation (rx : List Char → List Char → Bool) (s p : List Char) :
    evalLeaf rx .nre (.str s) (.str p) = !evalLeaf rx .re (.str s) (.str p) := by
  simp [evalLeaf]

/-! ### type mismatches -/

/-- "type mismatches between a literal and its column are rejected rather than evaluated":
whenever `select` returns rows, every comparison in the condition names a column that resolves and
whose datatype is the type of its literal. -/
theorem typeMismatch_rejected (rx : List Char → List Char → Bool) (db : DB) (q : Query) (r : Result)
    (h : select rx db q = .ok r) (c : Cond ColRef) (hc : q.cond = some c) :
    ∀ lf ∈ leaves c, ∃ qn f, resolve db q.rels lf.2.1 = .ok (qn, f) ∧ litType lf.2.2 = some f.dtype :=
  typeMismatch_rejected_aux rx db q r h c hc

/-- contrapositive form: one ill-typed comparison anywhere in the condition tree and `select`
yields an error, never a row list -/
theorem typeMismatch_never_rows (rx : List Char → List Char → Bool) (db : DB) (q : Query)
    (c : Cond ColRef) (hc : q.cond = some c) (lf : Op × ColRef × Lit) (hlf : lf ∈ leaves c)
    (qn : QName) (f : Field) (hres : resolve db q.rels lf.2.1 = .ok (qn, f))
    (hty : litType lf.2.2 ≠ some f.dtype) : ∀ r, select rx db q ≠ .ok r := by
  intro r h
  obtain ⟨qn', f', h1, h2⟩ := typeMismatch_rejected rx db q r h c hc lf hlf
  rw [hres] at h1
  cases h1
  exact hty h2

/-! ### grammar -/

/-- "parsing the text of any condition tree returns that tree": for every condition tree in normal
form (every `and`/`or` has at least two operands; leaves pair an operator with an operand kind the
documentation allows), parsing its token text — followed by anything that does not start with
`and`/`or` — returns exactly that tree and leaves exactly the rest.  `n` is the recursion fuel of
the model; any fuel above a bound that depends only on the tree works. -/
theorem parse_print_cond (t : Cond ColRef) (h : nf t = true) :
    ∃ n0, ∀ n, n0 ≤ n → ∀ rest, NoAnd rest → NoOr rest →
      parseDisj n (pr 0 t ++ rest) = .ok (t, rest) :=
  parseDisj_print t h

/-- "projection, optional from, repeated where clauses meaning conjunction": the token text of a
query (projection `*` or a non-empty column list, optional `from` list, any number of `where`
clauses, final `.`) parses to exactly that query, the where clauses combined by `whereCond`
(none ↦ no condition, one ↦ itself, several ↦ their conjunction, not flattened). -/
theorem parse_print_select (proj : Proj) (rels : List String) (ws : List (Cond ColRef))
    (hp : ProjOK proj rels) (hw : ∀ w ∈ ws, nf w = true) :
    ∃ n0, ∀ n, n0 ≤ n →
      parseSelect n (printQuery proj rels ws) = .ok { proj := proj, rels := rels, cond := whereCond ws } :=
  parseSelect_print_aux proj rels ws hp hw

/-- `where c₁ where c₂ …` means `and [c₁, c₂, …]` -/
theorem where_where_is_conjunction (c1 c2 : Cond ColRef) (cs : List (Cond ColRef)) :
    whereCond (c1 :: c2 :: cs) = some (.and (c1 :: c2 :: cs)) := rfl

/-- `*` without `from` is a syntax error (documented difference to standard TSQL) -/
theorem star_needs_from (n : Nat) (ws : List Tok) :
    parseSelect n (.star :: .dot :: ws) = .error .syntaxError ∨ parseSelect n (.star :: .dot :: ws) = .error .fuel := by
  cases n with
  | zero => right; simp [parseSelect, parseProj, parseFrom, parseWheres]
  | succ n =>
    left
    simp only [parseSelect, parseProj, parseFrom, parseWheres]
    split <;> simp_all

/-- recorded behaviour (DESIGN §C11): `not` takes the whole disjunction to its right, so
`not A or B` is `not (A or B)`; `(not A) or B` needs the parentheses the printer `pr` writes. -/
theorem not_takes_disjunction :
    parseDisj 20 [.not_, .id "a", .op .eq1, .int 1, .or_, .id "b", .op .eq1, .int 2, .dot]
      = .ok (.not (.or [.leaf .eq ⟨"", "a"⟩ (.int 1), .leaf .eq ⟨"", "b"⟩ (.int 2)]), [.dot]) := by
  rfl

example : nf (.and [.leaf .eq ⟨"", "a"⟩ (.int 1), .not (.or [.leaf .re ⟨"item", "b"⟩ (.str ['x']), .leaf .lt ⟨"", "c"⟩ (.date (some 5))])]) = true := by
  rfl

example : ProjOK .star ["item"] := by simp [ProjOK]

end Verif.C11
