/-
C11 — property theorems (TSQL select).  Only property statements live here; the printer `pr`,
the normal form `nf`, `leaves` and all helper lemmas are in Lemmas.lean.
-/
import Verif.C11.Lemmas
import Verif.Generated.TablesC11

namespace Verif.C11
open Verif.Tables

/-! ### join -/

/-- "returns exactly the rows of the inner join, on shared key columns … with multiplicities
preserved": the hash join of `_join` (group the right rows by their cast key tuple, then look each
left row up) is the nested-loop comprehension `[out l r | l ← L, r ← R, key r = key l]` — same
rows, same order, same multiplicities, for every pair of row lists and every key function. -/
theorem hashJoin_eq_nested {α β γ κ} [DecidableEq κ] (L : List α) (R : List β) (kl : α → κ) (kr : β → κ)
    (out : α → β → γ) :
    hashJoin L R kl kr out
      = L.flatMap (fun l => (R.filter (fun r => kr r = kl l)).map (out l)) :=
  hashJoin_eq_nested_aux L R kl kr out

/-- one step of `_select`'s join loop is the relational comprehension: the new selection holds,
for every joined row `l` (in order) and every stored row `r` of the new relation (in stored order)
such that `l` and `r` carry equal cast values in every shared key column (`sharedKeys`: key
columns of the new relation whose name is already a column of the selection), the row `l ++ r'`
(`r'` = the requested columns of `r` that are not shared keys) — hence "shared keys once". -/
theorem join_step_is_relational (db : DB) (sel : Sel) (j : String × List String) :
    joinStep db sel j = nestedStep db sel j :=
  joinStep_eq_nestedStep db sel j

/-- "A select query returns exactly the rows of the inner join, on shared key columns, of the
relations required by its projection and condition … that satisfy the condition, projected to the
requested columns in the requested order, with multiplicities preserved": whenever `select`
answers, its rows are the rows of the left-deep nested-loop join (`nestedJoins`, in plan order)
filtered by the condition and mapped to the requested columns (`finish` = filter, then one value
per projection entry, in projection order). -/
theorem select_eq_spec (rx : List Char → List Char → Bool) (db : DB) (q : Query) (res : Result)
    (h : select rx db q = .ok res) :
    ∃ proj cond plan sel, resolveProj db q = .ok proj ∧ resolveQCond db q = .ok cond ∧
      planJoins db proj (condFieldsOpt cond) q.rels = .ok plan ∧
      nestedJoins db Sel.empty plan.joins = .ok sel ∧
      finish rx sel proj cond = .ok res.rows := by
  obtain ⟨proj, cond, plan, sel, rows, _, hproj, hcond, hplan, hsel, hrows, hres⟩ := select_inv h
  refine ⟨proj, cond, plan, sel, hproj, hcond, hplan, ?_, ?_⟩
  · rw [← runJoins_eq_nestedJoins]; exact hsel
  · rw [hres]; exact hrows

/-! ### planning -/

/-- "the relations required by its projection and condition (connected through at most one linking
relation)": whenever the planner answers (any schema with distinct relation names),
* the join order is valid: every join but the first has a column named like a key of a relation
  joined before it (`validPlan`);
* every requested column is requested from its relation in the plan, every required relation
  (`from` clause, projection, condition) exists and is planned with all its key columns;
* every other planned relation is a linking relation: not required, more than one key, planned with
  all its keys; and there are fewer linking relations than key components of the required
  relations — each one closed at least one gap ("at most one linking relation per gap"). -/
theorem planJoins_valid (db : DB) (hnd : (db.map (·.name)).Nodup) (projection condFs : List QName)
    (rels : List String) (plan : Plan) (h : planJoins db projection condFs rels = .ok plan) :
    validPlan db plan.joins = true ∧
    (∀ q ∈ projection ++ condFs, Covered plan.joins q.1 q.2) ∧
    (∀ r ∈ requiredRels projection condFs rels, (db.rel? r).isSome ∧
        ∀ k ∈ keyNamesOf db r, Covered plan.joins r k) ∧
    ∃ pivots : List String,
      (∀ p ∈ plan.joins, p.1 ∈ requiredRels projection condFs rels ++ pivots) ∧
      (∀ r ∈ pivots, r ∉ requiredRels projection condFs rels ∧ 1 < (keyNamesOf db r).length ∧
        ∀ k ∈ keyNamesOf db r, Covered plan.joins r k) ∧
      (pivots ≠ [] → pivots.length + 1 ≤ (components db (requiredRels projection condFs rels)).length) :=
  planJoins_valid_aux db hnd projection condFs rels plan h

/-- the recursion fuel of the planner model (`pivotLoop`: number of relations + 1; `orderJoins`:
join-map length + 1) is never what makes it fail: `Err.fuel` is unreachable for every database and
query. -/
theorem planner_fuel_suffices (db : DB) (projection condFs : List QName) (rels : List String) :
    planJoins db projection condFs rels ≠ .error .fuel :=
  planJoins_no_fuel db projection condFs rels

/-- likewise for the lexer model: with one unit of fuel per character and one more (what the driver
and `Compose.lexText` give it), `lexLine` never answers `Err.fuel`, on any text. -/
theorem lexer_fuel_suffices (n : Nat) (s : List Char) (h : s.length < n) : lexLine n s ≠ .error .fuel :=
  lexLine_no_fuel n s h

/-- `select_eq_spec` with the plan characterised: an answer of `select` is the filtered, projected
nested-loop join over a valid join order of the required relations plus linking relations. -/
theorem select_plan_valid (rx : List Char → List Char → Bool) (db : DB) (q : Query) (res : Result)
    (h : select rx db q = .ok res) :
    ∃ proj cond plan sel, resolveProj db q = .ok proj ∧ resolveQCond db q = .ok cond ∧
      planJoins db proj (condFieldsOpt cond) q.rels = .ok plan ∧
      validPlan db plan.joins = true ∧
      (∀ r ∈ requiredRels proj (condFieldsOpt cond) q.rels, ∀ k ∈ keyNamesOf db r, Covered plan.joins r k) ∧
      (∀ qn ∈ proj ++ condFieldsOpt cond, Covered plan.joins qn.1 qn.2) ∧
      nestedJoins db Sel.empty plan.joins = .ok sel ∧ finish rx sel proj cond = .ok res.rows := by
  obtain ⟨proj, cond, plan, sel, rows, hwf, hproj, hcond, hplan, hsel, hrows, hres⟩ := select_inv h
  have hnd : (db.map (·.name)).Nodup := by
    simp only [DB.wf, Bool.and_eq_true, decide_eq_true_eq] at hwf
    exact hwf.1
  obtain ⟨v1, v2, v3, _⟩ := planJoins_valid db hnd proj (condFieldsOpt cond) q.rels plan hplan
  refine ⟨proj, cond, plan, sel, hproj, hcond, hplan, v1, fun r hr => (v3 r hr).2, v2, ?_, ?_⟩
  · rw [← runJoins_eq_nestedJoins]; exact hsel
  · rw [hres]; exact hrows

/-- the tree condition as a decidable predicate; the TSDB core schema satisfies it -/
example : treeLinked coreSchema = true := by decide

/-- existence on the core schema, for every non-empty set of required relations (all 15): the plan
exists, is a valid order, contains every required relation and at most one linking relation. -/
example :
    ∀ req ∈ subsets ["item", "run", "parse", "result"], req ≠ [] → planOK coreSchema req = true := by
  decide

/-- FULL STATEMENT (not proved, and false as it stands): "for every tree-linked schema and every
non-empty set of required relations the plan exists".  Tree-linkedness alone does not give a plan:
relations two links apart (item and a relation below result) cannot be joined through one linking
relation, and the planner answers `TSQLError` — which is what the property's "(connected through at
most one linking relation)" excludes.  Existence is proved for the core schema
(the `decide`-checked instance above) and otherwise observed through the correspondence. -/
example :
    let db : DB := coreSchema.map (fun r => if r.name = "result"
        then { r with fields := r.fields.map (fun f => if f.name = "result-id" then { f with isKey := true } else f) }
        else r) ++ [{ name := "edge", fields := [⟨"result-id", .integer, true⟩, ⟨"e-lab", .string, false⟩], rows := [] }]
    treeLinked db = true ∧ (planJoins db [] [] ["item", "edge"]).toOption.isNone = true := by
  decide

/-- the main clause, soundness for any number of relations, with no index or plan left in the
statement: every row that `select` returns is justified by witness rows `w` — one stored row of
each relation involved — such that (a) the condition holds when each comparison `n.c op lit` is
evaluated on the cast value of column `c` of `w n` (`evalW`), and (b) the returned row is, column by
column in the requested order, the raw text of a cell whose cast value is the cast value of the
requested column `n.c` in `w n` (for a shared key the cell is the first joined relation's, equal as
a cast value — "shared keys once"), and (c) `JoinWitness`: `w n` is a stored row of `n` for EVERY
planned relation `n` (also those named only in the condition or only linking), and any two planned
relations agree, as cast values, on every key column they both have (`KeyCol`; by `planJoins_valid`
all key columns of a planned relation are among its planned columns) — so the witnesses form a row of
the inner join on shared keys, not of a cross product.  This is the soundness half; completeness and
multiplicity are `select_eq_spec` + `join_step_is_relational` (every agreeing pair is kept, in order,
once), stated there in terms of the model's joined rows. -/
theorem select_sound (rx : List Char → List Char → Bool) (db : DB) (q : Query) (res : Result)
    (h : select rx db q = .ok res) :
    ∃ proj cond plan, resolveProj db q = .ok proj ∧ resolveQCond db q = .ok cond ∧
      planJoins db proj (condFieldsOpt cond) q.rels = .ok plan ∧
      ∀ out ∈ res.rows, ∃ (w : String → List Cell) (cells : List Cell),
        out = cells.map (·.raw) ∧ CellsOf db w proj cells ∧
        (∀ c, cond = some c → evalW rx db w c = true) ∧ JoinWitness db plan w :=
  select_sound_strong_aux rx db q res h

/-- the invariant behind `select_sound`, usable on its own: in every selection produced by the
join loop, each qualified name `n.c` of the index points, in every joined row, at a cell whose cast
value is that of column `c` in the witness row of relation `n`; in particular two relations that
were joined on a shared key `k` have `n₁.k` and `n₂.k` at the same position, so their witness rows
agree on `k`. -/
theorem joined_rows_witnessed (db : DB) (plan : List (String × List String)) (sel : Sel)
    (h : runJoins db Sel.empty plan = .ok sel) : ∀ row ∈ sel.data, Witnessed db sel.index sel.joined row := by
  rw [runJoins_eq_nestedJoins] at h
  exact (nestedJoins_inv db Sel.empty plan sel (selInv_empty db) h).wit

/-- "… and, for a single relation, in stored order": when the plan consists of one relation,
the answer is, with no index or join machinery left in the statement, the list of its stored rows
that satisfy the condition (evaluated on the row's own cells, `evalSrc`), in stored order and with
their multiplicities, each mapped to the raw values of the requested columns in the requested
order; every requested column is a column of that relation. -/
theorem select_single_relation (rx : List Char → List Char → Bool) (db : DB) (q : Query) (res : Result)
    (h : select rx db q = .ok res) :
    ∃ proj cond plan, resolveProj db q = .ok proj ∧ resolveQCond db q = .ok cond ∧
      planJoins db proj (condFieldsOpt cond) q.rels = .ok plan ∧
      ∀ name cols, plan.joins = [(name, cols)] →
        ∃ rel, db.rel? name = some rel ∧ (∀ qn ∈ proj, qn.1 = name) ∧
          res.rows = (rel.rows.filter (fun r => evalSrcOpt rx rel r cond)).map
            (fun r => proj.map (fun qn => (cellOf rel r qn.2).raw)) :=
  select_single_relation_aux rx db q res h

/-- "'*' yields every column with shared keys once": if `*` over the relations `rels` expands to
`qs`, then every non-key column of every named relation is in `qs` under its own relation, and there
is a duplicate-free list `keys` of exactly the key-column names of the named relations, each
emitted under one of the named relations, such that `qs` has exactly (number of non-key columns)
+ (number of distinct key names) entries — so no key name is emitted twice. -/
theorem star_every_column_keys_once (db : DB) (rels : List String) (qs : List QName)
    (h : projectAll db rels = .ok qs) :
    (∀ name ∈ rels, ∀ rel, db.rel? name = some rel → ∀ f ∈ rel.fields, f.isKey = false → (name, f.name) ∈ qs) ∧
    ∃ keys : List String, keys.Nodup ∧ (∀ k, IsKeyOf db rels k ↔ k ∈ keys) ∧
      (∀ k ∈ keys, ∃ name ∈ rels, (name, k) ∈ qs) ∧
      qs.length = nonKeyCount db rels + keys.length := by
  obtain ⟨h1, keys, h2, _, h4, h5, h6⟩ := projectAllAux_spec db rels [] qs List.nodup_nil h
  refine ⟨h1, keys, h2, fun k => ⟨h4 k, fun hk => ?_⟩, fun k hk => ?_, by simpa using h6⟩
  · rcases h5 k hk with e | e
    · simp at e
    · exact e.1
  · rcases h5 k hk with e | e
    · simp at e
    · exact e.2

/-! ### empty fields -/

/-- "equality and ordering comparisons never match an empty field": for each of
`== != < <= > >=`, whatever the literal. -/
theorem cmp_never_matches_empty (rx : List Char → List Char → Bool) (op : Op) (l : Lit)
    (hop : op ≠ .re ∧ op ≠ .nre) : evalLeaf rx op .none l = false := by
  cases op <;> simp_all [evalLeaf]

/-- a (positive) regex match needs a non-empty value as well -/
theorem regex_never_matches_empty (rx : List Char → List Char → Bool) (l : Lit) :
    evalLeaf rx .re .none l = false := by
  simp [evalLeaf]

/-- "(a negated regex match does)": `!~` holds on every empty field, whatever the pattern -/
theorem negated_regex_matches_empty (rx : List Char → List Char → Bool) (l : Lit) :
    evalLeaf rx .nre .none l = true := by
  simp [evalLeaf]

/-! What each comparison returns on an empty (None) field is `cmp_never_matches_empty`,
`regex_never_matches_empty`, `negated_regex_matches_empty` above (they hold by definition of `evalLeaf`,
which is tied to `_process_condition_function` by the correspondence).  The logic is two-valued — an
empty field makes the comparison *false*, not unknown — so `not` over a comparison on an empty field
is *true*, and is not the opposite comparison: -/

/-- `not` is not folded into the comparison below it: on a row whose compared field is empty,
`not (x op lit)` holds for each of `== != < <= > >=`, while the opposite comparison
(`!=` for `==`, `>=` for `<`, …) does not. -/
theorem not_is_not_folded (rx : List Char → List Char → Bool) (op : Op) (hop : op ≠ .re ∧ op ≠ .nre)
    (i : Nat) (l : Lit) (row : List Cell) (hrow : (row.getD i noCell).val = .none) :
    evalCond rx row (.not (.leaf op i l)) = true ∧ evalCond rx row (.leaf op.negated i l) = false := by
  cases op <;> simp_all [evalCond, evalLeaf, Op.negated]

/-- … and for the regex pair the folding would be right only by accident of the definition:
`not (x ~ p)` and `x !~ p` agree on every value, empty or not (strings are the only values a regex
is applied to after the type check). -/
theorem not_re_is_nre (rx : List Char → List Char → Bool) (i : Nat) (p : List Char) (row : List Cell)
    (hrow : (row.getD i noCell).val = .none ∨ ∃ s, (row.getD i noCell).val = .str s) :
    evalCond rx row (.not (.leaf .re i (.str p))) = evalCond rx row (.leaf .nre i (.str p)) := by
  rcases hrow with h | ⟨s, h⟩ <;> simp only [evalCond, evalLeaf, h] <;> simp

/-- on a non-empty string `!~` is exactly the negation of `~` -/
theorem negated_regex_is_negation (rx : List Char → List Char → Bool) (s p : List Char) :
    evalLeaf rx .nre (.str s) (.str p) = !evalLeaf rx .re (.str s) (.str p) := by
  simp [evalLeaf]

/-! ### type mismatches -/

/-- "type mismatches between a literal and its column are rejected rather than evaluated":
whenever `select` returns rows, every comparison in the condition names a column that resolves and
whose datatype is the type of its literal. -/
theorem typeMismatch_rejected (rx : List Char → List Char → Bool) (db : DB) (q : Query) (r : Result)
    (h : select rx db q = .ok r) (c : Cond ColRef) (hc : q.cond = some c) :
    ∀ lf ∈ leaves c, ∃ qn f, resolve db q.rels lf.2.1 = .ok (qn, f) ∧ litFits f.dtype lf.2.2 = true :=
  typeMismatch_rejected_aux rx db q r h c hc

/-- contrapositive form: one ill-typed comparison anywhere in the condition tree and `select`
yields an error, never a row list -/
theorem typeMismatch_never_rows (rx : List Char → List Char → Bool) (db : DB) (q : Query)
    (c : Cond ColRef) (hc : q.cond = some c) (lf : Op × ColRef × Lit) (hlf : lf ∈ leaves c)
    (qn : QName) (f : Field) (hres : resolve db q.rels lf.2.1 = .ok (qn, f))
    (hty : litFits f.dtype lf.2.2 = false) : ∀ r, select rx db q ≠ .ok r := by
  intro r h
  obtain ⟨qn', f', h1, h2⟩ := typeMismatch_rejected rx db q r h c hc lf hlf
  rw [hres] at h1
  cases h1
  rw [h2] at hty; cases hty

/-! ### grammar -/

/-- "parsing the text of any condition tree returns that tree": for every condition tree in normal
form (every `and`/`or` has at least two operands; leaves pair an operator with an operand kind the
documentation allows), parsing its token text — followed by anything that does not start with
`and`/`or` — returns exactly that tree and leaves exactly the rest.  `n` is the recursion fuel of
the model: three units per printed token suffice (one per level of the disjunction / conjunction /
atom descent). -/
theorem parse_print_cond (t : Cond ColRef) (h : nf t = true) :
    ∀ n, 3 * (pr 0 t).length ≤ n → ∀ rest, NoAnd rest → NoOr rest →
      parseDisj n (pr 0 t ++ rest) = .ok (t, rest) :=
  parseDisj_print t h

/-- "projection, optional from, repeated where clauses meaning conjunction": the token text of a
query (projection `*` or a non-empty column list, optional `from` list, any number of `where`
clauses, final `.`) parses to exactly that query, the where clauses combined by `whereCond`
(none ↦ no condition, one ↦ itself, several ↦ their conjunction, not flattened).  Fuel: three
units per token; the driver runs `parseSelect` with `3 * tokens + 10`, so the fuel error of the
model is unreachable on printed queries. -/
theorem parse_print_select (proj : Proj) (rels : List String) (ws : List (Cond ColRef))
    (hp : ProjOK proj rels) (hw : ∀ w ∈ ws, nf w = true) :
    ∀ n, 3 * (printQuery proj rels ws).length ≤ n →
      parseSelect n (printQuery proj rels ws) = .ok { proj := proj, rels := rels, cond := whereCond ws } :=
  parseSelect_print_aux proj rels ws hp hw

/-- precedence and associativity ("and/or/not with parentheses"), as a structural theorem: for every
condition written without parentheses around its connectives (`Loose`: members are comparisons or
parenthesised groups; full conjunctions `a and … and a` joined by `or`; optionally the last
conjunction ends in `not` followed by another such condition), the parser returns exactly the tree
`Loose.tree`: `and` binds tighter than `or`; both are n-ary and flat (`A and B and C` is one `and`
with three members, no nesting to either side); `not` takes everything to its right up to the end of
the enclosing group, so `not A or B` is `not (A or B)` and `A and not B or C` is
`A and not (B or C)` (recorded behaviour: the documentation does not state how far `not` reaches). -/
theorem precedence_and_associativity (l : Loose) (h : l.wf = true) :
    ∀ n, 3 * l.toks.length ≤ n → ∀ rest, NoAnd rest → NoOr rest →
      parseDisj n (l.toks ++ rest) = .ok (l.tree, rest) :=
  Loose.parse l h

/-- instances: the token text `not A or B and C` and its tree; `A and B and C or D`;
`A and not B or C` -/
example (A B C : Cond ColRef) :
    (Loose.neg [] [] (.plain [[A]] [B, C])).toks = .not_ :: (pr 2 A ++ .or_ :: (pr 2 B ++ .and_ :: pr 2 C))
    ∧ (Loose.neg [] [] (.plain [[A]] [B, C])).tree = .not (.or [A, .and [B, C]]) := by
  refine ⟨?_, rfl⟩
  simp [Loose.toks, orPart, prePart, prList_single, prList_cons_cons]

example (A B C D : Cond ColRef) :
    (Loose.plain [[A, B, C]] [D]).tree = .or [.and [A, B, C], D]
    ∧ (Loose.neg [] [A] (.plain [[B]] [C])).tree = .and [A, .not (.or [B, C])] := ⟨rfl, rfl⟩

/-- lexer level, every spelling ("numeric, string, date and regex operands … all comparison
operators"): `spells w t` is the exact decidable predicate "the word `w` is a spelling of token `t`":
* connectives `and & &&`, `or | ||`, `not !`; `from where report * . ( )`; the nine operator lexemes
  `= == != ~ !~ <= < >= >` (keywords are lower case only: `FROM` is an identifier, see the example
  below);
* strings and regex literals in double or single quotes whose content is `wellQuoted` for that
  quote (no bare quote; every backslash followed by a character; the content is taken verbatim — the
  language has no regex flags);
* every date spelling of the two date classes: `isYMDLexeme s` / `isDMYLexeme s` — the class's matcher
  (`[0-9]{4}-month(-day)?(time)?`, `(day-)?month-year(time)?` with 1–2 digit or named months, 2/4 digit
  years, the three time forms and any white space inside) consumes exactly `s`; `now`, `:today`;
* integers `[+-]?[0-9]+` (the lexer has no float class: `1.5` is INT DOT INT);
* identifiers `[a-zA-Z][-_a-zA-Z0-9]*` and qualified `rel.col` that no earlier class claims
  (`plainIdent`: not keyword-prefixed, not starting with a month name); a leading `:` is not part of
  any identifier (only `:today` starts with it).
For every list of such words, each followed by one space, where a date is followed by nothing or by
a word that does not start with `(` or a digit, the lexer model returns exactly the tokens. -/
theorem lex_spelled (ps : List (List Char × LTok)) (n : Nat) (hn : ps.length < n)
    (hp : ∀ p ∈ ps, spells p.1 p.2 = true) (hs : seqOKW ps = true) :
    lexLine n (renderW (ps.map (·.1))) = .ok (ps.map (·.2)) :=
  lexLine_words ps n hn hp hs

/-- characters to query, for every spelling: if the spelled tokens are those of a printed query
(`toTok`, with `int()` and `tsdb.cast` as parameters), lexing the text and parsing the tokens returns
the query. -/
theorem lex_spelled_then_parse (iv : List Char → Int) (dv : List Char → Option Nat)
    (ps : List (List Char × LTok)) (hp : ∀ p ∈ ps, spells p.1 p.2 = true) (hs : seqOKW ps = true)
    (proj : Proj) (rels : List String) (ws : List (Cond ColRef))
    (hq : (ps.map (·.2)).map (toTok iv dv) = printQuery proj rels ws)
    (hproj : ProjOK proj rels) (hw : ∀ w ∈ ws, nf w = true) :
    ∃ toks, lexLine (ps.length + 1) (renderW (ps.map (·.1))) = .ok toks ∧
      parseSelect (3 * ps.length) (toks.map (toTok iv dv))
        = .ok { proj := proj, rels := rels, cond := whereCond ws } := by
  refine ⟨ps.map (·.2), lex_spelled ps _ (Nat.lt_succ_self _) hp hs, ?_⟩
  rw [hq]
  apply parse_print_select proj rels ws hproj hw
  rw [← hq, List.length_map, List.length_map]
  exact Nat.le_refl _

/-- every date spelling the generators use is covered by the predicate (the two invalid calendar
dates included: validity is `tsdb.cast`'s business, not the lexer's) -/
example : ∀ s ∈ ([['2', '0', '2', '0', '-', '0', '1', '-', '0', '1'],
       ['2', '0', '2', '0', '-', '1', '-', '1'],
       ['2', '0', '2', '0', '-', 'j', 'a', 'n', '-', '0', '1'],
       ['1', '-', 'j', 'a', 'n', '-', '2', '0', '2', '0'],
       ['0', '1', '-', '0', '1', '-', '2', '0', '2', '0'],
       ['j', 'a', 'n', '-', '2', '0', '2', '0'],
       ['1', '-', '1', '-', '2', '0'],
       ['2', '0', '2', '0', '-', '0', '2', '-', '0', '2', ' ', '1', '0', ':', '3', '0', ':', '0', '0'],
       ['2', '0', '2', '0', '-', '0', '2', '-', '0', '2', ' ', '(', '1', '0', ':', '3', '0', ')'],
       ['2', '0', '2', '0', '-', '0', '2', '-', '0', '2', '(', '1', '0', ':', '3', '0', ':', '0', '0', ')'],
       ['2', '-', 'f', 'e', 'b', '-', '2', '0', '2', '0', ' ', '(', '1', '0', ':', '3', '0', ':', '0', '0', ')'],
       ['2', '-', 'f', 'e', 'b', '-', '2', '0', '2', '0', ' ', '1', '0', ':', '3', '0', ':', '0', '0'],
       ['1', '5', '-', 'm', 'a', 'r', '-', '9', '9'],
       ['1', '9', '9', '9', '-', '0', '3', '-', '1', '5'],
       ['2', '0', '2', '1', '-', '0', '3'],
       ['m', 'a', 'r', '-', '2', '0', '2', '1'],
       ['2', '0', '1', '9', '-', '1', '2', '-', '3', '1', ' ', '2', '3', ':', '5', '9', ':', '5', '9'],
       ['2', '0', '2', '0', '-', '0', '6', '-', '1', '5'],
       ['2', '0', '2', '1', '-', '3', '-', '1', ' ', '(', '0', '0', ':', '0', '0', ':', '0', '1', ')'],
       ['2', '0', '2', '0', '-', '1', '3', '-', '4', '5'],
       ['3', '0', '-', 'f', 'e', 'b', '-', '2', '0', '2', '0']] : List (List Char)), (isYMDLexeme s || isDMYLexeme s) = true := by decide

/-- keywords are case-sensitive: `FROM` is a plain identifier; `:col` is not a token; no floats -/
example : plainIdent ['F', 'R', 'O', 'M'] = true ∧ lexAt [':', 'c', 'o', 'l'] = none
    ∧ lexLine 9 ['1', '.', '5'] = .ok [.int ['1'], .fix .dot, .int ['5']] :=
  ⟨by decide, by decide, by rfl⟩

/-- lexer level ("numeric, string, date and regex operands … parsing the text of any condition
tree returns that tree", the character half): for every list of tokens from the printer's alphabet
— keywords, operators, parentheses, `*`, `.`, integers `[+-]?[0-9]+`, double-quoted strings without
`"` and `\\`, dates spelled `YYYY-MM-DD`, identifiers `[a-zA-Z][-_a-zA-Z0-9]*` that are not
keyword-prefixed and do not start with a month name, qualified identifiers — rendered with one space
after each token, where a date is followed by nothing or by a token that does not start with `(` or
a digit, the lexer model (twenty ordered classes, first match wins; tied to `_TSQLLexer` by the
correspondence run) returns exactly that token list. -/
theorem lex_render (ts : List LTok) (n : Nat) (hn : ts.length < n)
    (hp : ∀ t ∈ ts, printable t = true) (hs : seqOK ts = true) :
    lexLine n (render ts) = .ok ts :=
  lexLine_render ts n hn hp hs

/-- characters to query: if the lexical tokens `lts` spell the printed query (`toTok`, with `int()`
and `tsdb.cast` as parameters), then lexing their rendering and parsing the result returns the
query. -/
theorem lex_then_parse (iv : List Char → Int) (dv : List Char → Option Nat) (lts : List LTok)
    (hp : ∀ t ∈ lts, printable t = true) (hs : seqOK lts = true)
    (proj : Proj) (rels : List String) (ws : List (Cond ColRef))
    (hq : lts.map (toTok iv dv) = printQuery proj rels ws)
    (hproj : ProjOK proj rels) (hw : ∀ w ∈ ws, nf w = true) :
    ∃ toks, lexLine (lts.length + 1) (render lts) = .ok toks ∧
      parseSelect (3 * lts.length) (toks.map (toTok iv dv))
        = .ok { proj := proj, rels := rels, cond := whereCond ws } := by
  refine ⟨lts, lex_render lts _ (Nat.lt_succ_self _) hp hs, ?_⟩
  rw [hq]
  apply parse_print_select proj rels ws hproj hw
  rw [← hq, List.length_map]
  exact Nat.le_refl _

/-- the alphabet is inhabited: `i-id < 5 and ( item.i-input ~ "o" or i-date >= 2020-01-01 ) .` -/
example :
    let ts : List LTok := [.id ['i','-','i','d'], .fix (.op .lt), .int ['5'], .fix .and_, .fix .lparen,
      .qid ['i','t','e','m'] ['i','-','i','n','p','u','t'], .fix (.op .re), .str ['o'], .fix .or_,
      .id ['i','-','d','a','t','e'], .fix (.op .ge), .ymd ['2','0','2','0','-','0','1','-','0','1'],
      .fix .rparen, .fix .dot]
    (∀ t ∈ ts, printable t = true) ∧ seqOK ts = true := by decide

/-- `where c₁ where c₂ …` means `and [c₁, c₂, …]` -/
example (c1 c2 : Cond ColRef) (cs : List (Cond ColRef)) :
    whereCond (c1 :: c2 :: cs) = some (.and (c1 :: c2 :: cs)) := rfl

/-- `*` without `from` is a syntax error (documented difference to standard TSQL) -/
theorem star_needs_from (n : Nat) (ws : List Tok) :
    parseSelect n (.star :: .dot :: ws) = .error .syntaxError ∨ parseSelect n (.star :: .dot :: ws) = .error .fuel := by
  cases n with
  | zero => right; simp [parseSelect, parseProj, parseFrom, parseWheres]
  | succ n =>
    left
    simp only [parseSelect, parseProj, parseFrom, parseWheres]
    split <;> simp_all

/-- recorded behaviour (DESIGN §C11): `not` takes the whole disjunction to its right, so
`not A or B` is `not (A or B)`; `(not A) or B` needs the parentheses the printer `pr` writes. -/
example :
    parseDisj 20 [.not_, .id "a", .op .eq1, .int 1, .or_, .id "b", .op .eq1, .int 2, .dot]
      = .ok (.not (.or [.leaf .eq ⟨"", "a"⟩ (.int 1), .leaf .eq ⟨"", "b"⟩ (.int 2)]), [.dot]) := by
  rfl

/-- recorded behaviour outside the property's quantifier (the key-sharing graph item–parse–fs has a
cycle): linking relations are added greedily in schema order, so with `fs(parse-id, i-id)` declared
before `parse` the plan joins `fs` as well although `parse` alone links item, run and result; the
answer then depends on the order of the relations in the schema.  Not a claim about tree-linked
schemas. -/
example :
    (planJoins
      [{ name := "fs", fields := [⟨"parse-id", .integer, true⟩, ⟨"i-id", .integer, true⟩, ⟨"f-val", .string, false⟩], rows := [] },
       { name := "item", fields := [⟨"i-id", .integer, true⟩, ⟨"i-input", .string, false⟩], rows := [] },
       { name := "run", fields := [⟨"run-id", .integer, true⟩, ⟨"r-comment", .string, false⟩], rows := [] },
       { name := "parse", fields := [⟨"parse-id", .integer, true⟩, ⟨"run-id", .integer, true⟩, ⟨"i-id", .integer, true⟩], rows := [] },
       { name := "result", fields := [⟨"parse-id", .integer, true⟩, ⟨"mrs", .string, false⟩], rows := [] }]
      [("item", "i-input"), ("run", "r-comment"), ("result", "mrs")] [] []).toOption.map (fun p => p.joins.map (·.1))
    = some ["item", "fs", "result", "parse", "run"] := by decide

example : nf (.and [.leaf .eq ⟨"", "a"⟩ (.int 1), .not (.or [.leaf .re ⟨"item", "b"⟩ (.str ['x']), .leaf .lt ⟨"", "c"⟩ (.date (some 5))])]) = true := by
  rfl

example : ProjOK .star ["item"] := by simp [ProjOK]

/-- the hypothesis of `select_single_relation` is satisfiable: a one-relation plan -/
example : (planJoins
      [{ name := "item", fields := [⟨"i-id", .integer, true⟩, ⟨"i-input", .string, false⟩], rows := [] },
       { name := "parse", fields := [⟨"parse-id", .integer, true⟩, ⟨"i-id", .integer, true⟩], rows := [] }]
      [("item", "i-id")] [("item", "i-input")] []).toOption.map (·.joins)
    = some [("item", ["i-id", "i-input"])] := by decide

/-- … and a plan through a pivot relation (`item` and `run` share no key; `parse` links them) -/
example : (planJoins
      [{ name := "item", fields := [⟨"i-id", .integer, true⟩], rows := [] },
       { name := "run", fields := [⟨"run-id", .integer, true⟩], rows := [] },
       { name := "parse", fields := [⟨"parse-id", .integer, true⟩, ⟨"run-id", .integer, true⟩, ⟨"i-id", .integer, true⟩], rows := [] }]
      [("item", "i-id"), ("run", "run-id")] [] []).toOption.map (·.joins)
    = some [("item", ["i-id"]), ("parse", ["parse-id", "run-id", "i-id"]), ("run", ["run-id"])] := by decide


/-! ## Pins: the constants of the anchored code that the hand-written model mirrors

`Generated/TablesC11.lean` is rewritten on every run by `harness/c11.py` (`tables()`) from the live
objects of `delphin.tsql` (and the two `util`/`tsdb` helpers it leans on).  What is pinned, and which
model definitions hand-code it:

* `c11LexerTokens`, `c11LexerFlags` — the (regex, class) pairs of `_TSQLLexer.tokens` in order and the
  flags of the compiled alternation: `lexAt`/`lexWord`/`lexNum`/`lexSym` (class order, keyword
  spellings `kwFrom … kwNow`, operator spellings), `strBody`, `matchYMD`/`matchDMY`/`monthOpts`/
  `dayPart`/`yearPart`/`timeTail` (the two date patterns), `stripSign` + digit run (INT), `idRun`
  (ID/QID), `isSpaceC` (`\s` of the UNEXPECTED class); `opLexeme`, `lexeme`, `printable` in Lemmas.
* `c11Operators` — keys of `_operator_functions` and the `operator` function each maps to:
  `Op`, `RawOp.norm`, `cmpOrd`/`compareVal`.
* `c11FnConsts` — per function the constants of its code object (nested functions flattened,
  docstrings and message texts dropped): `'select'/'retrieve'`, the `'.'` sentinel and `'*'`
  (`parseSelect`, `parseProj`), `'and'/'or'/'not'` and the 0/1 length tests (`mkJunction`,
  `whereCond`, `parseDisjList`/`parseConjList`/`parseAtom`), `'='→'=='` and the operator groups
  `('~','!~')`, `('<','<=','>','>=')`, `':date'` (`parseStmt`, `litAllowed`), `'inner'` (`joinStep`
  is the inner join), the `'.'` of qualified names (`resolve`, `Key.q`, `qstr`), `reverse=True`
  (`preferred`), `len(keys) > 1` and `> 1` components (`pivotLoop`), `(and,or)`/`not`
  (`resolveCond`, `condFields`, `evalCond`), the datatype names of `_expected_type` (`litType`,
  `DType`), `cast=True` (`keyOf` uses cast values), `'left'` (not modelled: `_select` passes `'inner'`).
* `c11FnGlobals` — the globals each parser function loads, in order: the token classes offered to
  `choice_type`/`accept_type`/`expect_type` (`parseProj`, `parseFrom`, `parseWheres`, `parseAtom`,
  `tokLit` + `litAllowed`: strings for `~ !~`, int/date for the ordering operators, all three for
  `== !=`), the trailing-`.` loop of `_parse_select`, and the Python types of `_expected_type`.
* `c11Defaults` — `_join(how='inner')`, `select(record_class=None)`, `Selection.select(cast=False)`,
  the 1024-token look-ahead buffer (the lexer runs ahead of the parser: an UNEXPECTED character
  anywhere in a query of fewer tokens is a syntax error, as in `lexLine`), `select_from(columns=None,
  cast=False)`.
* `c11PrelexConsts`, `c11FieldInitConsts` — `Lexer.prelex` (line numbering from 1) and the key flags
  `:key`/`:primary`/`:foreign…` behind `Field.isKey`.

A change to any of these makes this theorem stop checking; the check then reports a broken proof
obligation and searches for a failing input. -/
theorem c11_pins :
    c11LexerTokens =
      ([
        ("from", "FROM"),
        ("where", "WHERE"),
        ("report", "REPORT"),
        ("\\*", "STAR"),
        ("\\.", "DOT"),
        ("==|=|!=|~|!~|<=|<|>=|>", "OP"),
        ("&&|&|and", "AND"),
        ("\\|\\||\\||or", "OR"),
        ("!|not", "NOT"),
        ("\\(", "LPAREN"),
        ("\\)", "RPAREN"),
        ("\"([^\"\\\\]*(?:\\\\.[^\"\\\\]*)*)\"", "DQSTRING"),
        ("'([^'\\\\]*(?:\\\\.[^'\\\\]*)*)'", "SQSTRING"),
        ("[0-9]{4}-(?:[0-9][0-9]?|jan|feb|mar|apr|may|jun|jul|aug|sep|oct|nov|dec)(?:-[0-9]{1,2})?(?:\\s*\\([0-9]{2}:[0-9]{2}(?::[0-9]{2})?\\)|\\s+[0-9]{2}:[0-9]{2}(?::[0-9]{2}))?", "YYYYMMDD"),
        ("(?:[0-9]{1,2}-)?(?:[0-9][0-9]?|jan|feb|mar|apr|may|jun|jul|aug|sep|oct|nov|dec)-(?:[0-9]{2})?[0-9]{2}(?:\\s*\\([0-9]{2}:[0-9]{2}(?::[0-9]{2})?\\)|\\s+[0-9]{2}:[0-9]{2}(?::[0-9]{2}))?", "DDMMYY"),
        (":today|now", "KWDATE"),
        ("[+-]?\\d+", "INT"),
        ("[a-zA-Z][-_a-zA-Z0-9]*\\.[a-zA-Z][-_a-zA-Z0-9]*", "QID"),
        ("[a-zA-Z][-_a-zA-Z0-9]*", "ID"),
        ("[^\\s]", "UNEXPECTED")] : List (String × String))
    ∧ c11LexerFlags =
      (32 : Nat)
    ∧ c11Operators =
      ([("==", "eq"), ("!=", "ne"), ("<", "lt"), ("<=", "le"), (">", "gt"), (">=", "ge")] : List (String × String))
    ∧ c11FnConsts =
      ([
        ("_parse_query", ["None", " ", "(select,retrieve)", "'", "1", "(lineno)"]),
        ("_parse_select", ["None", ".", "*", "(text)", "select", "(type,projection,relations,condition)"]),
        ("_parse_select_where", ["None", "1", "0", "and"]),
        ("_parse_condition_disjunction", ["None", "0", "1", "or"]),
        ("_parse_condition_conjunction", ["None", "not", "0", "1", "and"]),
        ("_parse_condition_statement", ["None", "=", "==", "(~,!~)", "(<,<=,>,>=)", ":date"]),
        ("_select", ["None", "(record_class)", "inner"]),
        ("_make_execution_plan", ["*", "0", "None"]),
        ("_project_all", ["None", "."]),
        ("_make_qname_resolver", ["True", "(key,reverse)", "colname", "return", "<resolve>", "None", ".", "0"]),
        ("_plan_joins", [".", "False", "True"]),
        ("_pivot_relations", ["<add_edges>", "None", "1", "1", "False", "<<genexpr>>", "1", "0", "None", "True"]),
        ("_process_condition_fields", ["None", "(and,or)", "not", "0", "1", "|", "<<genexpr>>", "None"]),
        ("_expected_type", ["None", ":string", ":integer", ":float", ":date"]),
        ("_process_condition_function", ["None", "(and,or)", "and", "<func>", "None", "<<genexpr>>", "None", "not", "<func>", "None", "~", "<func>", "None", "0", "1", "!~", "<func>", "None", "0", "1", "<func>", "None", "0", "1"]),
        ("_join", ["(inner,left)", "None", "True", "(cast)", "cast", "left"]),
        ("_merge_fields", ["None", "."]),
        ("select", ["projection", "relations", "condition", "(record_class)"]),
        ("query", ["type", "(select,retrieve)", "projection", "relations", "condition", "record_class", "None", "(record_class)", "(text)"])] : List (String × List String))
    ∧ c11FnGlobals =
      ([
        ("_parse_select", ["_TSQLLexer", "_parse_select_projection", "_parse_select_from", "_parse_select_where", "_DOT", "_DOT", "StopIteration", "TSQLSyntaxError"]),
        ("_parse_select_projection", ["_STAR", "_QID", "_ID", "_QID", "_ID", "_QID", "_ID"]),
        ("_parse_select_from", ["_FROM", "_ID", "_ID"]),
        ("_parse_select_where", ["_WHERE", "_parse_condition_disjunction", "_WHERE", "len", "len", "list"]),
        ("_parse_condition_disjunction", ["_parse_condition_conjunction", "_OR", "len", "TSQLSyntaxError", "len", "list"]),
        ("_parse_condition_conjunction", ["_NOT", "_LPAREN", "_QID", "_ID", "_NOT", "_parse_condition_disjunction", "_LPAREN", "_parse_condition_disjunction", "_RPAREN", "_QID", "_ID", "_parse_condition_statement", "_AND", "len", "TSQLSyntaxError", "len", "list"]),
        ("_parse_condition_statement", ["_OP", "_DQSTRING", "_SQSTRING", "_INT", "_YYYYMMDD", "_DDMMYY", "_KWDATE", "_INT", "_DQSTRING", "_SQSTRING", "_YYYYMMDD", "_DDMMYY", "_KWDATE", "_INT", "int", "_YYYYMMDD", "_DDMMYY", "_KWDATE", "tsdb"]),
        ("_expected_type", ["str", "int", "int", "float", "datetime"])] : List (String × List String))
    ∧ c11Defaults =
      ([("_join", "(inner)"), ("select", "(None)"), ("query.kwdefaults", "None"), ("Selection.select.kwdefaults", "{'cast': False}"), ("Selection.__init__", "(None)"), ("LookaheadLexer.__init__", "(1024)"), ("Database.select_from", "(None,False)"), ("Database._select_raw", "(None)")] : List (String × String))
    ∧ c11PrelexConsts =
      (["1", "0", "(lineno,offset,text)", "None"] : List String)
    ∧ c11FieldInitConsts =
      (["None", "False", "(:key,:primary)", ":foreign", "True", ":integer", "-1", ""] : List String) := by
  refine ⟨?_, ?_, ?_, ?_, ?_, ?_, ?_, ?_⟩ <;> rfl

end Verif.C11
