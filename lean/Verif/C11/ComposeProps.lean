/-
C11 ∘ C08 — the condition and join theorems restated on RAW cells: the cast is C08's model of
`tsdb.cast`, no longer a parameter.  Definitions in Compose.lean; C08's model is imported, not edited.
-/
import Verif.C11.ComposeLemmas
import Verif.C11.Props

namespace Verif.C11.Compose
open Verif.C11

/-! ### the cast on raw cells -/

/-- an empty field (`None` from `split`, or the empty text) casts to `None` under every datatype -/
theorem castVal_empty (dt : DType) : castVal dt none = some .none ∧ castVal dt (some []) = some .none := by
  cases dt <;> exact ⟨rfl, rfl⟩

/-- "equality and ordering comparisons never match an empty field (a negated regex match does)", on
raw cells: whatever the column's datatype, the cast of an empty raw cell makes `== != < <= > >= ~`
false and `!~` true, for every literal. -/
theorem empty_raw_cell (rx : List Char → List Char → Bool) (dt : DType) (raw : Option (List Char))
    (hraw : raw = none ∨ raw = some []) (c : Cell) (hc : castCell dt raw = some c) (op : Op) (l : Lit) :
    evalLeaf rx op c.val l = (if op = .nre then true else false) := by
  have hcv : castVal dt raw = some .none := by
    rcases hraw with rfl | rfl
    · exact (castVal_empty dt).1
    · exact (castVal_empty dt).2
  have hv : c.val = .none := by
    simp only [castCell, hcv, Option.map_some, Option.some.injEq] at hc
    rw [← hc]
  rw [hv]
  cases op <;> cases l <;> rfl



/-- `int()` is defined on every INT lexeme of the lexer (ASCII): the literal step cannot fail -/
theorem intOf_lexeme (s : List Char) (h : isIntLexeme s = true) : ∃ i, intOf s = some i := by
  have hall : ∀ ds : List Char, ds.all isDigitC = true → ds.all Verif.C08.isDigit = true := by
    intro ds hd
    rw [List.all_eq_true] at hd ⊢
    intro c hc; rw [isDigit_eq]; exact hd c hc
  cases s with
  | nil => simp [isIntLexeme] at h
  | cons c cs =>
    by_cases hp : c = '+'
    · subst hp
      simp only [isIntLexeme, Bool.and_eq_true, Bool.not_eq_true'] at h
      simp [intOf, Verif.C08.castInt, h.1, hall cs h.2]
    · by_cases hm : c = '-'
      · subst hm
        simp only [isIntLexeme, Bool.and_eq_true, Bool.not_eq_true'] at h
        simp [intOf, Verif.C08.castInt, h.1, hall cs h.2]
      · have hd : (c :: cs).all isDigitC = true := by
          unfold isIntLexeme at h
          split at h
          · rename_i e; cases e; exact absurd rfl hp
          · rename_i e; cases e; exact absurd rfl hm
          · simp only [Bool.and_eq_true] at h; exact h.2
        have hd8 := hall _ hd
        have hc : ∃ i, Verif.C08.castInt (c :: cs) = .ok i := by
          unfold Verif.C08.castInt
          split
          rename_i neg body heq
          split at heq
          · rename_i e; cases e; exact absurd rfl hm
          · rename_i e; cases e; exact absurd rfl hp
          · cases heq; simp [hd8]
        obtain ⟨i, hi⟩ := hc
        exact ⟨i, by simp [intOf, hi]⟩








/-- "`01` = `1` under :integer": leading zeros and a leading `+` do not change the cast value of
an integer cell, so `07`, `+7` and `7` are the same key and satisfy the same comparisons -/
theorem integer_spellings (ds : List Char) (hne : ds ≠ []) (hd : ds.all isDigitC = true) :
    castVal .integer (some ('0' :: ds)) = castVal .integer (some ds)
    ∧ castVal .integer (some ('+' :: ds)) = castVal .integer (some ds) := by
  have hd8 : ds.all Verif.C08.isDigit = true := by
    rw [List.all_eq_true] at hd ⊢
    intro c hc; rw [isDigit_eq]; exact hd c hc
  have h0 : ('0' :: ds).all Verif.C08.isDigit = true := by
    simp only [List.all_cons, hd8, Bool.and_true]; decide
  have he : ds.isEmpty = false := by cases ds <;> simp_all
  simp only [castVal, dtype08, Verif.C08.cast, List.isEmpty_cons, he, Bool.false_eq_true, if_false,
    castInt_digits _ (by simp) h0, castInt_digits ds hne hd8, castInt_plus ds hne hd8, digitsToNat_zero]
  simp

example : castVal .integer (some ['0', '1']) = some (.int 1) ∧ castVal .integer (some ['+', '1']) = some (.int 1)
    ∧ castVal .integer (some ['-', '1']) = some (.int (-1)) ∧ castVal .integer (some ['-', '0']) = some (.int 0) := by
  decide

/-! ### bridge: the cast database is what the old model received -/

/-- every cell of a cast row keeps its raw text and carries C08's cast of it under its column's
datatype -/
theorem castRow_cells : ∀ (fs : List Field) (r : List (Option (List Char))) (cs : List Cell),
    castRow fs r = some cs →
    cs.length = r.length ∧ cs.length = fs.length ∧
    ∀ (i : Nat) (c : Cell), cs[i]? = some c → ∃ f, fs[i]? = some f ∧ r[i]? = some c.raw ∧
      castVal f.dtype c.raw = some c.val := by
  intro fs
  induction fs with
  | nil =>
    intro r cs h
    cases r with
    | nil => simp only [castRow] at h; cases h; simp
    | cons _ _ => simp [castRow] at h
  | cons f fs ih =>
    intro r cs h
    cases r with
    | nil => simp [castRow] at h
    | cons x xs =>
      simp only [castRow] at h
      cases hc : castCell f.dtype x with
      | none => simp [hc] at h
      | some c0 =>
        cases hr : castRow fs xs with
        | none => simp [hc, hr] at h
        | some cs0 =>
          simp only [hc, hr, Option.some.injEq] at h
          subst h
          obtain ⟨h1, h2, h3⟩ := ih xs cs0 hr
          refine ⟨by simp [h1], by simp [h2], ?_⟩
          intro i c hi
          cases i with
          | zero =>
            simp only [List.getElem?_cons_zero, Option.some.injEq] at hi
            subst hi
            simp only [castCell] at hc
            cases hv : castVal f.dtype x with
            | none => simp [hv] at hc
            | some v =>
              simp only [hv, Option.map_some, Option.some.injEq] at hc
              subst hc
              exact ⟨f, rfl, rfl, hv⟩
          | succ i =>
            simp only [List.getElem?_cons_succ] at hi ⊢
            exact h3 i c hi

/-- `select` on raw cells is the old `select` on the cast database, so every theorem of Props.lean
(`select_eq_spec`, `select_sound`, `select_single_relation`, `join_step_is_relational`, …) applies to
it unchanged, with cells whose values are C08's casts (`castRow_cells`). -/
theorem selectRaw_bridge (rx : List Char → List Char → Bool) (rdb : RawDB) (q : Query) (res : Result)
    (h : selectRaw rx rdb q = .ok res) : ∃ db, castDB rdb = some db ∧ select rx db q = .ok res := by
  unfold selectRaw at h
  cases hc : castDB rdb with
  | none => simp [hc] at h
  | some db => exact ⟨db, rfl, by simpa [hc] using h⟩

/-- the main clause on raw files: every row `select` returns from a raw database is justified by
witness rows of the CAST database (one per relation), the condition holding on their cast values -/
theorem selectRaw_sound (rx : List Char → List Char → Bool) (rdb : RawDB) (q : Query) (res : Result)
    (h : selectRaw rx rdb q = .ok res) :
    ∃ db proj cond plan, castDB rdb = some db ∧ resolveProj db q = .ok proj ∧ resolveQCond db q = .ok cond ∧
      planJoins db proj (condFieldsOpt cond) q.rels = .ok plan ∧
      ∀ out ∈ res.rows, ∃ (w : String → List Cell) (cells : List Cell),
        out = cells.map (·.raw) ∧ CellsOf db w proj cells ∧
        (∀ c, cond = some c → evalW rx db w c = true) ∧ JoinWitness db plan w := by
  obtain ⟨db, hdb, hsel⟩ := selectRaw_bridge rx rdb q res h
  obtain ⟨proj, cond, plan, h1, h2, h3, h4⟩ := select_sound rx db q res hsel
  exact ⟨db, proj, cond, plan, hdb, h1, h2, h3, h4⟩






/-- "key equality in joins is equality of CAST values": in the cast database every cell of every
stored row carries, as its value, C08's cast of its raw text under its column's datatype — and the
join (`agreeOn`, `keyOf`), the conditions (`evalLeaf`) and the witnesses of `select_sound` look at
nothing but these values.  So `07` joins `7`, an empty key joins an empty key, and an `:integer` key
never joins a `:string` key. -/
theorem cells_are_cast_values (rdb : RawDB) (db : DB) (h : castDB rdb = some db) :
    ∀ rel ∈ db, ∀ row ∈ rel.rows, ∀ (i : Nat) (c : Cell), row[i]? = some c →
      ∃ f, rel.fields[i]? = some f ∧ castVal f.dtype c.raw = some c.val := by
  intro rel hrel row hrow i c hi
  obtain ⟨rr, _, _, hf, hrows⟩ := castDB_mem rdb db h rel hrel
  obtain ⟨r, _, hr⟩ := castRows_mem rr.fields rr.rows rel.rows hrows row hrow
  obtain ⟨_, _, h3⟩ := castRow_cells rr.fields r row hr
  obtain ⟨f, h4, _, h6⟩ := h3 i c hi
  exact ⟨f, by rw [hf]; exact h4, h6⟩

/-- two raw key cells join iff their casts are equal: e.g. `07` and `7`, not `7` and `8` -/
example : castVal .integer (some ['0', '7']) = castVal .integer (some ['7'])
    ∧ castVal .integer (some ['7']) ≠ castVal .integer (some ['8'])
    ∧ castVal .integer (some ['7']) ≠ castVal .string (some ['7'])
    ∧ castVal .date (some "1-jan-2020".toList) = castVal .date (some "2020-01-01".toList) := by
  refine ⟨by decide, by decide, by decide, ?_⟩
  decide

end Verif.C11.Compose
