/-
C11 — property theorems about the entry points `tsql.query` / `tsql.inspect_query` (`_parse_query`)
and about the totality of the text-to-query model (no fuel error for any text).
-/
import Verif.C11.QueryLemmas

namespace Verif.C11

/-- `tsql.query` / `tsql.inspect_query` behind the query type: for every text made of any ASCII white
space, then a word that is `select` or `retrieve` in any mix of upper and lower case, then ONE blank,
then `body`, `_parse_query` hands exactly `body` to the select parser (so every theorem about
`select` holds for `query('select …')`, `query('retrieve …')`, `inspect_query`).  `f` is the
continuation: `_parse_select` for `inspect_query`, `_parse_select` followed by `_select` for `query`. -/
theorem parseQuery_select {α} (f : List Char → Except Err α) (ws kw body : List Char)
    (hws : ws.all isPySpace = true) (hkw : kw.map lowerC = kwSelect ∨ kw.map lowerC = kwRetrieve) :
    parseQuery f (ws ++ (kw ++ ' ' :: body)) = f body := by
  have hc := word_chars kw hkw
  have hne : kw ≠ [] := by
    intro e; subst e; rcases hkw with h | h <;> simp [kwSelect, kwRetrieve] at h
  have hd : (ws ++ (kw ++ ' ' :: body)).dropWhile isPySpace = kw ++ ' ' :: body := by
    apply dropWhile_ws ws _ hws
    intro c hh
    cases kw with
    | nil => exact absurd rfl hne
    | cons k ks =>
      simp only [List.cons_append, List.head?_cons, Option.some.injEq] at hh
      subst hh; exact hc k (by simp)
  have hp := partitionSp_word kw body (fun c hcm => not_blank_of_not_space c (hc c hcm))
  unfold parseQuery
  simp only [hd, hp]
  rcases hkw with h | h <;> simp [h]

/-- … and without any blank after the word the body is empty (`select` alone: the select parser then
sees only the sentinel and raises a syntax error; see the example below) -/
theorem parseQuery_bare {α} (f : List Char → Except Err α) (ws kw : List Char)
    (hws : ws.all isPySpace = true) (hkw : kw.map lowerC = kwSelect ∨ kw.map lowerC = kwRetrieve) :
    parseQuery f (ws ++ kw) = f [] := by
  have hc := word_chars kw hkw
  have hd : (ws ++ kw).dropWhile isPySpace = kw := by
    apply dropWhile_ws ws _ hws
    intro c hh
    cases kw with
    | nil => simp at hh
    | cons k ks =>
      simp only [List.head?_cons, Option.some.injEq] at hh
      subst hh; exact hc k (by simp)
  have hp := partitionSp_noblank kw (fun c hcm => not_blank_of_not_space c (hc c hcm))
  unfold parseQuery
  simp only [hd, hp]
  rcases hkw with h | h <;> simp [h]

/-- every other query type is rejected without looking at the rest ("currently only 'select' queries
are supported"): if the first blank-delimited word after the leading white space does not lower-case to
`select` or `retrieve`, the answer is `TSQLSyntaxError` and the continuation is never run. -/
theorem parseQuery_unsupported {α} (f : List Char → Except Err α) (text : List Char)
    (h : (partitionSp (text.dropWhile isPySpace)).1.map lowerC ≠ kwSelect ∧
         (partitionSp (text.dropWhile isPySpace)).1.map lowerC ≠ kwRetrieve) :
    parseQuery f text = .error .syntaxError := by
  unfold parseQuery
  simp [h.1, h.2]

/-- instances: only a BLANK ends the query type (`select<TAB>x` is the unsupported type `select\tx`);
`SELECT`, `Retrieve` and leading white space of every kind are accepted; `insert` is not -/
example :
    parseQuery (fun b => (.ok b : Except Err (List Char))) ['s','e','l','e','c','t','\t','x'] = .error .syntaxError
    ∧ parseQuery (fun b => (.ok b : Except Err (List Char))) ['\n','\t',' ','S','E','L','e','c','t',' ',' ','x'] = .ok [' ', 'x']
    ∧ parseQuery (fun b => (.ok b : Except Err (List Char))) ['\x1f','R','e','t','r','i','e','v','e',' ','x'] = .ok ['x']
    ∧ parseQuery (fun b => (.ok b : Except Err (List Char))) ['i','n','s','e','r','t',' ','x'] = .error .syntaxError
    ∧ parseQuery (fun b => (.ok b : Except Err (List Char))) [] = .error .syntaxError := by
  refine ⟨?_, ?_, ?_, ?_, ?_⟩ <;> rfl

/-- `tsql.query(ws + 'select ' + body, db)` is `tsql.select(body, db)`, for the composed model
(characters and raw cells in, C08's cast inside) -/
theorem query_is_select (rx : List Char → List Char → Bool) (rdb : Compose.RawDB) (ws kw body : List Char)
    (hws : ws.all isPySpace = true) (hkw : kw.map lowerC = kwSelect ∨ kw.map lowerC = kwRetrieve) :
    Compose.queryText rx rdb (ws ++ (kw ++ ' ' :: body)) = Compose.selectText rx rdb body :=
  parseQuery_select _ ws kw body hws hkw

/-- `tsql.inspect_query(ws + 'select ' + body)` is `_parse_select(body)` -/
theorem inspect_is_parse (ws kw body : List Char)
    (hws : ws.all isPySpace = true) (hkw : kw.map lowerC = kwSelect ∨ kw.map lowerC = kwRetrieve) :
    Compose.inspectText (ws ++ (kw ++ ' ' :: body)) = Compose.parseText body :=
  parseQuery_select _ ws kw body hws hkw

/-- the recursion fuel of the text-to-query model (lexer: one unit per character and one more; parser:
`3 * tokens + 10`) is never what makes it fail, for EVERY text: `Err.fuel` is not an answer of
`parseText`, hence not of `inspectText`, `selectText`, `queryText` on the parsing side.  (The
parser half is `parseSelect_no_fuel`: three units of fuel per token and ten more suffice for every
token list, not only for printed queries.) -/
theorem parseText_no_fuel (text : List Char) : Compose.parseText text ≠ .error .fuel := by
  unfold Compose.parseText
  split
  · rename_i e he; intro h; cases h; exact Compose.lexText_no_fuel _ he
  · split
    · intro h; cases h
    · rename_i toks _
      exact parseSelect_no_fuel toks _ (Nat.le_refl _)

/-- the parser's fuel for arbitrary token lists: three units per token and ten more (what the driver
and `Compose.parseText` give it) are enough for EVERY token list, well-formed or not — the model's
`fuel` error is unreachable, so on every token list the model answers like a total function. -/
theorem parser_fuel_suffices (ts : List Tok) (n : Nat) (hn : 3 * ts.length + 10 ≤ n) :
    parseSelect n ts ≠ .error .fuel :=
  parseSelect_no_fuel ts n hn

end Verif.C11
