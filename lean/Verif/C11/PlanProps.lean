/-
C11 — the planner and the join loop fit together (the theorem finding F58 contradicted before commit
e207678): once `_plan_joins` has answered, `_join` never raises for lack of a shared key or for a
repeated relation; a `TSQLError` of `select` is an undefined column, a type mismatch or the planner's
own refusal; and when every required relation has a key column the planner refuses only for want of a
linking relation ('infinite loop detected!' is unreachable).  Lemmas in PlanLemmas.lean.
-/
import Verif.C11.PlanLemmas

namespace Verif.C11

/-- "the relations required by its projection and condition (connected through at most one linking
relation)" are joined without error: for every database with distinct relation names and, per
relation, distinct column names, and every projection / condition columns / from list for which the
planner answers, the join loop over the plan never answers `TSQLError` — neither 'no shared keys for
joining' (every join after the first has a KEY column whose name is a key of an earlier planned
relation, both planned with all their keys, so `on` is not empty) nor 'cannot join the same relation
twice' (planned relation names are distinct).  The hypothesis on column names is necessary: see
`PlanExample` in PlanLemmas.lean (`decide`-checked: a relation storing a non-key column `k` before a
key column `k`); such a database is not `DB.wf` and `select` answers `unmodelled` for it. -/
theorem joins_never_lack_shared_key (db : DB) (hnd : (db.map (·.name)).Nodup)
    (hfn : ∀ r ∈ db, (r.fields.map (·.name)).Nodup) (projection condFs : List QName)
    (rels : List String) (plan : Plan) (h : planJoins db projection condFs rels = .ok plan) :
    runJoins db Sel.empty plan.joins ≠ .error .tsqlError :=
  runJoins_no_tsqlError db hnd hfn projection condFs rels plan h

/-- the planned relation names are distinct (from the planner alone: the join map has one entry per
relation and the order loop permutes it) -/
theorem plan_names_distinct (db : DB) (projection condFs : List QName) (rels : List String) (plan : Plan)
    (h : planJoins db projection condFs rels = .ok plan) : (plan.joins.map (·.1)).Nodup :=
  planJoins_names_nodup db projection condFs rels plan h

/-- where a `TSQLError` of `select` can come from, for every database and query: an undefined
(unqualified) column in the projection, an undefined column or a literal/column type mismatch in the
condition, or the planner's refusal — never the join loop, the filter or the projection. -/
theorem tsqlError_only_from_planning (rx : List Char → List Char → Bool) (db : DB) (q : Query)
    (h : select rx db q = .error .tsqlError) :
    resolveProj db q = .error .tsqlError ∨ resolveQCond db q = .error .tsqlError ∨
    ∃ proj cond, resolveProj db q = .ok proj ∧ resolveQCond db q = .ok cond ∧
      planJoins db proj (condFieldsOpt cond) q.rels = .error .tsqlError :=
  select_tsqlError_only_from_planning rx db q h

/-- the order loop never gives up on a connected key graph: if the key names of the join map's
relations form at most one component and each of these relations has a key column, the loop of
`_plan_joins` ('finally ensure joins occur in a valid order') returns an order — 'infinite loop
detected!' is unreachable and the model's fuel (`jm.length + 1`) suffices. -/
theorem order_loop_succeeds (db : DB) (n : Nat) (jm : JoinMap) (hn : jm.length < n)
    (hc : (components db (jm.map (·.1))).length ≤ 1) (hk : ∀ p ∈ jm, keyNamesOf db p.1 ≠ []) :
    ∃ out, orderJoins db n jm [] [] = .ok out :=
  orderJoins_ok db n jm hn hc hk

/-- planner level: when every required relation (from clause, projection, condition) has a key
column, the planner's `TSQLError` is always 'could not find relation to join' (the pivot search found
no single relation linking two key components), never the order loop.  The hypothesis is necessary: a
required relation WITHOUT key columns is invisible to the component count yet can never be picked by
the order loop after the first join (recorded behaviour, compared on generated cases). -/
theorem planner_refuses_only_for_want_of_a_link (db : DB) (hnd : (db.map (·.name)).Nodup)
    (projection condFs : List QName) (rels : List String)
    (hkeys : ∀ r ∈ requiredRels projection condFs rels, keyNamesOf db r ≠ [])
    (h : planJoins db projection condFs rels = .error .tsqlError) :
    pivotLoop db (db.length + 1) (requiredRels projection condFs rels) [] = .error .tsqlError :=
  planJoins_tsqlError_from_pivots db hnd projection condFs rels hkeys h

end Verif.C11
