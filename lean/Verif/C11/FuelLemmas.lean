/-
C11 — the recursion fuel of the parser model never runs out: `parseSelect n ts` is not
`.error .fuel` once `3 * ts.length + 10 ≤ n`, for every token list.  Core Lean only.
-/
import Verif.C11.Model
namespace Verif.C11

/-! ## `parseStmt` -/

theorem parseStmt_len (col : ColRef) (ts : List Tok) (c : Cond ColRef) (r : List Tok)
    (h : parseStmt col ts = .ok (c, r)) : r.length + 2 = ts.length := by
  unfold parseStmt at h
  split at h
  · cases h
  · split at h
    · cases h
    · split at h
      · split at h
        · cases h; simp
        · cases h
      · cases h
  · cases h

theorem parseStmt_no_fuel (col : ColRef) (ts : List Tok) : parseStmt col ts ≠ .error .fuel := by
  intro h
  unfold parseStmt at h
  split at h
  · cases h
  · split at h
    · cases h
    · split at h
      · split at h
        · cases h
        · cases h
      · cases h
  · cases h

/-! ## Every successful parse consumes at least one token -/

theorem consume_all : ∀ n,
    (∀ ts a r, parseAtom n ts = .ok (a, r) → r.length < ts.length) ∧
    (∀ ts as r, parseConjList n ts = .ok (as, r) → r.length < ts.length) ∧
    (∀ ts as r, parseDisjList n ts = .ok (as, r) → r.length < ts.length) := by
  intro n
  induction n with
  | zero =>
    refine ⟨?_, ?_, ?_⟩
    · intro ts a r h; rw [parseAtom] at h; cases h
    · intro ts a r h; rw [parseConjList] at h; cases h
    · intro ts a r h; rw [parseDisjList] at h; cases h
  | succ n ih =>
    obtain ⟨ihA, ihC, ihD⟩ := ih
    refine ⟨?_, ?_, ?_⟩
    · intro ts a r h
      rw [parseAtom.eq_def] at h
      split at h
      · cases h
      · cases h
      · rename_i m ts' hm
        cases hm
        cases hD : parseDisjList n ts' with
        | error e => rw [hD] at h; cases h
        | ok p =>
          obtain ⟨cs, r'⟩ := p
          rw [hD] at h
          cases h
          have := ihD _ _ _ hD
          simp only [List.length_cons]; omega
      · rename_i m ts' hm
        cases hm
        split at h
        · cases h
        · rename_i cs r' hD
          cases h
          have := ihD _ _ _ hD
          simp only [List.length_cons] at this ⊢; omega
        · cases h
        · cases h
      · have := parseStmt_len _ _ _ _ h
        simp only [List.length_cons]; omega
      · have := parseStmt_len _ _ _ _ h
        simp only [List.length_cons]; omega
      · cases h
    · intro ts as r h
      rw [parseConjList] at h
      split at h
      · cases h
      · rename_i a ts1 hA
        have h1 := ihA _ _ _ hA
        split at h
        · rename_i ts2
          split at h
          · cases h
          · rename_i as' ts3 hC
            cases h
            have := ihC _ _ _ hC
            simp only [List.length_cons] at h1; omega
        · cases h; exact h1
    · intro ts as r h
      rw [parseDisjList] at h
      split at h
      · cases h
      · rename_i a ts1 hA
        have h1 := ihC _ _ _ hA
        split at h
        · rename_i ts2
          split at h
          · cases h
          · rename_i as' ts3 hC
            cases h
            have := ihD _ _ _ hC
            simp only [List.length_cons] at h1; omega
        · cases h; exact h1

theorem parseAtom_consumes {n ts a r} (h : parseAtom n ts = .ok (a, r)) : r.length < ts.length :=
  (consume_all n).1 ts a r h
theorem parseConjList_consumes {n ts as r} (h : parseConjList n ts = .ok (as, r)) :
    r.length < ts.length := (consume_all n).2.1 ts as r h
theorem parseDisjList_consumes {n ts as r} (h : parseDisjList n ts = .ok (as, r)) :
    r.length < ts.length := (consume_all n).2.2 ts as r h

theorem parseDisj_consumes {n ts c r} (h : parseDisj n ts = .ok (c, r)) : r.length < ts.length := by
  unfold parseDisj at h
  split at h
  · cases h
  · rename_i cs r' hD
    cases h
    exact parseDisjList_consumes hD

/-! ## The fuel suffices -/

theorem no_fuel_all : ∀ n ts,
    (3 * ts.length + 1 ≤ n → parseAtom n ts ≠ .error .fuel) ∧
    (3 * ts.length + 2 ≤ n → parseConjList n ts ≠ .error .fuel) ∧
    (3 * ts.length + 3 ≤ n → parseDisjList n ts ≠ .error .fuel) := by
  intro n
  induction n with
  | zero =>
    intro ts
    refine ⟨?_, ?_, ?_⟩ <;> intro hn <;> omega
  | succ n ih =>
    intro ts
    refine ⟨?_, ?_, ?_⟩
    · intro hn h
      rw [parseAtom.eq_def] at h
      split at h
      · rename_i hm; cases hm
      · cases h
      · rename_i m ts' hm
        cases hm
        split at h
        · rename_i e hD
          cases h
          simp only [List.length_cons] at hn
          exact (ih ts').2.2 (by omega) hD
        · cases h
      · rename_i m ts' hm
        cases hm
        split at h
        · rename_i e hD
          cases h
          simp only [List.length_cons] at hn
          exact (ih ts').2.2 (by omega) hD
        · cases h
        · cases h
        · cases h
      · exact parseStmt_no_fuel _ _ h
      · exact parseStmt_no_fuel _ _ h
      · cases h
    · intro hn h
      rw [parseConjList] at h
      split at h
      · rename_i e hA
        cases h
        exact (ih ts).1 (by omega) hA
      · rename_i a ts1 hA
        have h1 := parseAtom_consumes hA
        split at h
        · rename_i ts2
          split at h
          · rename_i e hC
            cases h
            simp only [List.length_cons] at h1
            exact (ih ts2).2.1 (by omega) hC
          · cases h
        · cases h
    · intro hn h
      rw [parseDisjList] at h
      split at h
      · rename_i e hA
        cases h
        exact (ih ts).2.1 (by omega) hA
      · rename_i a ts1 hA
        have h1 := parseConjList_consumes hA
        split at h
        · rename_i ts2
          split at h
          · rename_i e hC
            cases h
            simp only [List.length_cons] at h1
            exact (ih ts2).2.2 (by omega) hC
          · cases h
        · cases h

theorem parseAtom_no_fuel (ts : List Tok) (n : Nat) (hn : 3 * ts.length + 1 ≤ n) :
    parseAtom n ts ≠ .error .fuel := (no_fuel_all n ts).1 hn
theorem parseConjList_no_fuel (ts : List Tok) (n : Nat) (hn : 3 * ts.length + 2 ≤ n) :
    parseConjList n ts ≠ .error .fuel := (no_fuel_all n ts).2.1 hn
theorem parseDisjList_no_fuel (ts : List Tok) (n : Nat) (hn : 3 * ts.length + 3 ≤ n) :
    parseDisjList n ts ≠ .error .fuel := (no_fuel_all n ts).2.2 hn

theorem parseDisj_no_fuel (ts : List Tok) (n : Nat) (hn : 3 * ts.length + 3 ≤ n) :
    parseDisj n ts ≠ .error .fuel := by
  intro h
  unfold parseDisj at h
  split at h
  · rename_i e hD
    cases h
    exact parseDisjList_no_fuel ts n hn hD
  · cases h

/-! ## `where` clauses, projection, `from` -/

theorem parseWheres_no_fuel (f : Nat) : ∀ (n : Nat) (ts : List Tok),
    3 * ts.length + 3 ≤ f → ts.length + 1 ≤ n → parseWheres f n ts ≠ .error .fuel := by
  intro n
  induction n with
  | zero => intro ts _ hn; omega
  | succ n ih =>
    intro ts hf hn h
    rw [parseWheres.eq_def] at h
    split at h
    · rename_i hm; cases hm
    · rename_i m ts' hm
      cases hm
      simp only [List.length_cons] at hf hn
      split at h
      · rename_i e hD
        cases h
        exact parseDisj_no_fuel ts' f (by omega) hD
      · rename_i c r hD
        have h1 := parseDisj_consumes hD
        split at h
        · rename_i e hW
          cases h
          exact ih r (by omega) (by omega) hW
        · cases h
    · cases h

theorem takeCols_len : ∀ ts : List Tok, (takeCols ts).2.length ≤ ts.length := by
  intro ts
  induction ts with
  | nil => simp [takeCols]
  | cons t ts ih =>
    cases t <;> simp only [takeCols, List.length_cons, Nat.le_refl] <;> omega

theorem takeIds_len : ∀ ts : List Tok, (takeIds ts).2.length ≤ ts.length := by
  intro ts
  induction ts with
  | nil => simp [takeIds]
  | cons t ts ih =>
    cases t <;> simp only [takeIds, List.length_cons, Nat.le_refl] <;> omega

theorem parseProj_len {ts p r} (h : parseProj ts = .ok (p, r)) : r.length ≤ ts.length := by
  unfold parseProj at h
  split at h
  · cases h
  · cases h; simp
  · cases h
    have := takeCols_len ‹_›
    simp only [List.length_cons]; omega
  · cases h
    have := takeCols_len ‹_›
    simp only [List.length_cons]; omega
  · cases h

theorem parseProj_no_fuel (ts : List Tok) : parseProj ts ≠ .error .fuel := by
  intro h
  unfold parseProj at h
  split at h <;> cases h

theorem parseFrom_len {ts p r} (h : parseFrom ts = .ok (p, r)) : r.length ≤ ts.length := by
  unfold parseFrom at h
  split at h
  · split at h
    · cases h
      have := takeIds_len ‹_›
      simp only [List.length_cons]; omega
    · cases h
    · cases h
  · cases h; exact Nat.le_refl _

theorem parseFrom_no_fuel (ts : List Tok) : parseFrom ts ≠ .error .fuel := by
  intro h
  unfold parseFrom at h
  split at h
  · split at h <;> cases h
  · cases h

/-! ## `parseSelect` -/

theorem parseSelect_no_fuel (ts : List Tok) (n : Nat) (hn : 3 * ts.length + 10 ≤ n) :
    parseSelect n ts ≠ .error .fuel := by
  intro h
  unfold parseSelect at h
  split at h
  · rename_i e hP
    cases h
    exact parseProj_no_fuel ts hP
  · rename_i proj r1 hP
    have h1 := parseProj_len hP
    split at h
    · rename_i e hF
      cases h
      exact parseFrom_no_fuel r1 hF
    · rename_i rels r2 hF
      have h2 := parseFrom_len hF
      split at h
      · rename_i e hW
        cases h
        exact parseWheres_no_fuel n n r2 (by omega) (by omega) hW
      · split at h
        · cases h
        · split at h
          · cases h
          · split at h
            · cases h
            · cases h
        · cases h

end Verif.C11
