/- C11 ∘ C08 — helper lemmas for ComposeProps.lean -/
import Verif.C11.Compose

namespace Verif.C11.Compose
open Verif.C11

theorem isDigit_eq (c : Char) : Verif.C08.isDigit c = isDigitC c := by
  simp only [Verif.C08.isDigit, Char.isDigit, isDigitC, Char.le_def, ge_iff_le]

theorem castInt_digits (ds : List Char) (hne : ds ≠ []) (hd : ds.all Verif.C08.isDigit = true) :
    Verif.C08.castInt ds = .ok (Verif.C08.digitsToNat ds : Int) := by
  cases ds with
  | nil => exact absurd rfl hne
  | cons c cs =>
    have hc : Verif.C08.isDigit c = true := by simp only [List.all_cons, Bool.and_eq_true] at hd; exact hd.1
    have hm : c ≠ '-' := by intro e; subst e; revert hc; decide
    have hp : c ≠ '+' := by intro e; subst e; revert hc; decide
    unfold Verif.C08.castInt
    split
    rename_i neg body heq
    split at heq
    · rename_i e; cases e; exact absurd rfl hm
    · rename_i e; cases e; exact absurd rfl hp
    · cases heq; simp [hd]

theorem castInt_plus (ds : List Char) (hne : ds ≠ []) (hd : ds.all Verif.C08.isDigit = true) :
    Verif.C08.castInt ('+' :: ds) = .ok (Verif.C08.digitsToNat ds : Int) := by
  have he : ds.isEmpty = false := by cases ds <;> simp_all
  simp [Verif.C08.castInt, he, hd]

theorem digitsToNat_zero (ds : List Char) : Verif.C08.digitsToNat ('0' :: ds) = Verif.C08.digitsToNat ds := by
  simp [Verif.C08.digitsToNat]

theorem castRows_mem : ∀ (fs : List Field) (rs : List (List (Option (List Char)))) (out : List (List Cell)),
    castRows fs rs = some out → ∀ row ∈ out, ∃ r ∈ rs, castRow fs r = some row := by
  intro fs rs
  induction rs with
  | nil => intro out h; simp only [castRows] at h; cases h; simp
  | cons r rs ih =>
    intro out h
    simp only [castRows] at h
    cases hr : castRow fs r with
    | none => simp [hr] at h
    | some c =>
      cases hrs : castRows fs rs with
      | none => simp [hr, hrs] at h
      | some cs =>
        simp only [hr, hrs, Option.some.injEq] at h
        subst h
        intro row hrow
        rcases List.mem_cons.mp hrow with e | e
        · exact ⟨r, by simp, by rw [e]; exact hr⟩
        · obtain ⟨r', hr', h'⟩ := ih cs hrs row e
          exact ⟨r', by simp [hr'], h'⟩

theorem castDB_mem : ∀ (rdb : RawDB) (db : DB), castDB rdb = some db →
    ∀ rel ∈ db, ∃ rr ∈ rdb, rel.name = rr.name ∧ rel.fields = rr.fields ∧ castRows rr.fields rr.rows = some rel.rows := by
  intro rdb
  induction rdb with
  | nil => intro db h; simp only [castDB] at h; cases h; simp
  | cons rr rdb ih =>
    intro db h
    simp only [castDB] at h
    cases hr : castRel rr with
    | none => simp [hr] at h
    | some c =>
      cases hrs : castDB rdb with
      | none => simp [hr, hrs] at h
      | some cs =>
        simp only [hr, hrs, Option.some.injEq] at h
        subst h
        intro rel hrel
        rcases List.mem_cons.mp hrel with e | e
        · subst e
          simp only [castRel] at hr
          cases hrows : castRows rr.fields rr.rows with
          | none => simp [hrows] at hr
          | some rows =>
            simp only [hrows, Option.map_some, Option.some.injEq] at hr
            subst hr
            exact ⟨rr, by simp, rfl, rfl, hrows⟩
        · obtain ⟨rr', hm, h'⟩ := ih cs hrs rel e
          exact ⟨rr', by simp [hm], h'⟩

end Verif.C11.Compose
