/-
C14 — YY tokens at full width (`delphin/tokens.py`): any number of lrules, pos tags; and the choice of
the tokenization pattern in `REPP.tokenize` / `REPP.tokenize_result`.  Core Lean only.

Floats are a parameter: a probability is carried as the TEXT the code prints for it (`f'{p:.4f}'`,
supplied by the harness) resp. the text `float()` is applied to when parsing (the harness applies
Python's `float` to it; a text it rejects is the ValueError of `from_string`).

Anchors: YYToken.__str__, YYTokenLattice.from_string (`_qstrip`, `.strip().split()`), `_yy_re`,
REPP.tokenize, REPP.tokenize_result.
-/
import Verif.C14.Model

namespace Verif.C14
open Verif.C13
open Verif.Codec hiding Str

/-! ### which pattern a tokenize call uses -/

/-- `REPP.tokenize(s, pattern=arg)`: `if pattern is None: pattern = DEFAULT_TOKENIZER if
self.tokenize_pattern is None else self.tokenize_pattern` — the explicit argument, else the module's `:`
line, else the default. -/
def tokPattern (dflt : Str) (arg declared : Option Str) : Str :=
  match arg with
  | some p => p
  | none =>
    match declared with
    | none => dflt
    | some p => p

/-- `REPP.tokenize_result(result, pattern=DEFAULT_TOKENIZER)`: the module's `:` line plays no role. -/
def tokResultPattern (dflt : Str) (arg : Option Str) : Str := arg.getD dflt

/-! ### extended tokens -/

structure YTokX where
  tok : YTok
  lrules : List Str
  pos : List (Str × Str)        -- (tag, text of the probability)
deriving Repr, DecidableEq

/-- `'"{}"'.format(x)`: no escaping. -/
def dq (s : Str) : Str := '"' :: s ++ ['"']

/-- `YYToken.__str__` up to and including `ipos`. -/
def YTok.head (t : YTok) : Str :=
  '(' :: intStr t.id ++ ", ".toList ++ intStr t.start ++ ", ".toList ++ intStr t.stop ++ ", ".toList
    ++ (if t.lnk.truthy then t.lnk.str ++ ", ".toList else [])
    ++ joinSp ((if t.paths.isEmpty then [1] else t.paths).map intStr) ++ ", ".toList
    ++ (match t.surface with
        | none => quoted t.form
        | some sf => quoted t.form ++ ' ' :: quoted sf)
    ++ ", ".toList ++ intStr t.ipos

/-- `YYToken.__str__`: `parts` joined by `', '` inside parentheses; the pos part only `if self.pos`. -/
def YTokX.str (t : YTokX) : Str :=
  t.tok.head ++ ", ".toList ++ joinSp (t.lrules.map dq)
    ++ (if t.pos.isEmpty then [] else ", ".toList ++ joinSp (t.pos.map (fun p => dq p.1 ++ ' ' :: p.2)))
    ++ [')']

def latStrX (ts : List YTokX) : Str := joinSp (ts.map YTokX.str)

/-- `str.split()` (ASCII blanks): the maximal blank-free pieces. -/
def splitWs : Nat → Str → List Str
  | 0, _ => []
  | f + 1, s =>
    let s1 := s.dropWhile isWs
    if s1.isEmpty then [] else s1.takeWhile (fun c => !isWs c) :: splitWs f (s1.dropWhile (fun c => !isWs c))

/-- `_qstrip`: `s[1:-1]`. -/
def qstrip (s : Str) : Str := (s.drop 1).dropLast

/-- `ps[::2]` / `ps[1::2]`. -/
def evens {α} : List α → List α
  | [] => []
  | [a] => [a]
  | a :: _ :: r => a :: evens r
def odds {α} : List α → List α
  | [] => []
  | [_] => []
  | _ :: b :: r => b :: odds r

/-- `list(zip(map(_qstrip, ps[::2]), map(float, ps[1::2])))` with the float texts kept as texts. -/
def posPairs (text : Str) : List (Str × Str) :=
  let ps := splitWs (text.length + 1) text
  ((evens ps).map qstrip).zip (odds ps)

def digitsThenO (s : Str) (k : Str → Option Str) : Option Str :=
  if (s.takeWhile Char.isDigit).isEmpty then none else k (s.dropWhile Char.isDigit)

def expThenO (s : Str) (k : Str → Option Str) : Option Str :=
  match s with
  | c :: r =>
    if c = 'e' || c = 'E' then
      (match r with
       | d :: r' => if d = '-' || d = '+' then digitsThenO r' k else none
       | [] => none) <|> digitsThenO r k
    else none
  | [] => none

/-- `{float}` then the continuation, alternatives in the regex's order (cf. `floatThen`). -/
def floatThenO (s : Str) (k : Str → Option Str) : Option Str :=
  let s1 := match s with | '-' :: r => r | _ => s
  let afterInt : Option Str := match s1 with
    | '0' :: r => some r
    | c :: r => if c.isDigit then some (r.dropWhile Char.isDigit) else none
    | [] => none
  match afterInt with
  | none => none
  | some r =>
    (match r with
     | '.' :: r1 =>
       (if (r1.takeWhile Char.isDigit).isEmpty then none else expThenO (r1.dropWhile Char.isDigit) k)
         <|> digitsThenO r1 k
     | _ => none) <|> expThenO r k

/-- `(?:{string}\s+{float}\s*)+` followed by `\s*\)`: the text from the closing parenthesis on. -/
def posScan : Nat → Str → Option Str
  | 0, _ => none
  | f + 1, s =>
    match s with
    | '"' :: r =>
      match scanDQ r with
      | none => none
      | some (_, r1) =>
        match r1 with
        | c :: _ =>
          if isWs c then floatThenO (skipWs r1) (fun r2 =>
            let r3 := skipWs r2
            (match r3 with | ')' :: _ => some r3 | _ => none) <|> posScan f r3)
          else none
        | [] => none
    | _ => none

inductive MTX where
  | nomatch
  | valueError                      -- glued paths: `int()` raises
  | tok (t : YTokX) (rest : Str)
deriving Repr, DecidableEq

def optBindX {α} (o : Option α) (f : α → MTX) : MTX := match o with | none => .nomatch | some a => f a

/-- `_yy_re` tried at the start of `s`, every group. -/
def matchTokX (s : Str) : MTX :=
  match s with
  | '(' :: r0 =>
    optBindX (scanInt (skipWs r0)) fun (id, r1) =>
    optBindX (scanComma r1) fun r2 =>
    optBindX (scanInt r2) fun (st, r3) =>
    optBindX (scanComma r3) fun r4 =>
    optBindX (scanInt r4) fun (en, r5) =>
    optBindX (scanComma r5) fun r6 =>
    let (lnk, r7) := match scanLnk r6 with
      | some (l, r) => (l, r)
      | none => (Lnk.unspec, r6)
    optBindX (scanPaths (r7.length + 1) r7) fun (paths, r8) =>
    optBindX (scanComma r8) fun r9 =>
    optBindX (scanString r9) fun (form, r10) =>
    let (surface, r11) := match scanString (skipWs r10) with
      | some (sf, r) => (some sf, r)
      | none => (none, r10)
    optBindX (scanComma r11) fun r12 =>
    optBindX (scanInt r12) fun (ipos, r13) =>
    optBindX (scanComma r13) fun r14 =>
    optBindX (scanStrings (r14.length + 1) r14) fun (_, r15) =>
    let lrText := r14.take (r14.length - r15.length)
    let finish (posText : Str) (rest : Str) : MTX :=
      if pathsGlued (r7.length + 1) r7 then .valueError
      else .tok ⟨⟨id, st, en, lnk, paths, unescapeDQ form, surface.map unescapeDQ, ipos⟩,
                 (splitWs (lrText.length + 1) lrText).map qstrip, posPairs posText⟩ rest
    match skipWs r15 with
    | ')' :: r16 => finish [] r16
    | ',' :: r16 =>
      let q := skipWs r16
      match posScan (q.length + 1) q with
      | some (_ :: rest) => finish (q.take (q.length - (rest.length + 1))) rest
      | _ => .nomatch
    | _ => .nomatch
  | _ => .nomatch

/-- `_yy_re.finditer(s)` and the token construction; `none` = ValueError. -/
def yyParseX : Nat → Str → Option (List YTokX)
  | 0, _ => some []
  | _ + 1, [] => some []
  | f + 1, c :: r =>
    match matchTokX (c :: r) with
    | .nomatch => yyParseX f r
    | .valueError => none
    | .tok t rest => (yyParseX f rest).map (t :: ·)

def latParseX (s : Str) : Option (List YTokX) := yyParseX (s.length + 1) s

end Verif.C14
