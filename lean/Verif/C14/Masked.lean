/-
C14 — programs WITH mask rules before rewrite rules: `REPP._trace` with the mask array threaded
through the steps (`Verif.C13.traceStepsM`, Mask.lean) followed by the merging loop of `_trace`;
the independent provenance semantics for such traces (a blocked match is left alone: its
characters are carried over like the text outside all matches).  Core Lean only.

Anchors in /repo (delphin/repp.py): REPP._trace / _mergemap over the steps of
_REPPRule._apply (`if blocked: continue`), _REPPMask._apply, _REPPGroup._apply.
-/
import Verif.C13.Mask
import Verif.C14.Model

namespace Verif.C14
open Verif.C13

/-- `REPP.apply(s)` / `last(REPP._trace(s, active, verbose))` with the mask-threading semantics:
all yielded steps (with their mask arrays) and the result.  This is the expression
`Verif.C13.Link.afterLoadM` (the function the driver runs on programs with masks) evaluates once the
text is linked (`afterLoadM_eq_applyM` in PropsMasked.lean). -/
def applyM (eng meng : Eng) (fuel : Nat) (ops : List Op) (s : Str) : Except Err (List StepM × Result) :=
  match traceStepsM eng meng fuel ops s with
  | .error e => .error e
  | .ok (stm, o) =>
    match mergeSteps (stm.map (·.step)) (initStart s) (initEnd s) with
    | none => .error .indexError
    | some (sm, em) => .ok (stm, ⟨o, sm, em⟩)

/-- provenance of one yielded step, `mk` = the mask array in force BEFORE the step: a rule step
follows the matches that are not blocked (`liveMatches`) — a blocked match is not rewritten, so its
characters are carried over; mask and group-summary steps change nothing. -/
def stepProvM (eng : Eng) (mk : MaskA) (st : StepM) : Prov :=
  match st.step.kind with
  | .rule id tr un =>
    provRule st.step.inp tr un (liveMatches st.step.inp (eng id st.step.inp) mk tr un) 0
  | _ => idProv 0 st.step.out.length

/-- provenance after a list of steps; the mask in force before a step is the one the previous step
yielded. -/
def provStepsM (eng : Eng) : List StepM → MaskA → Prov → Prov
  | [], _, acc => acc
  | st :: r, mk, acc => provStepsM eng r st.mask (composeProv acc (stepProvM eng mk st))

/-- What every yielded step of a masked trace is, from the current string `cur` and the current mask
`mk`: the rule's own step on them, a mask step (identity, zero maps, some new mask), or a summary step
(zero maps of the current string, the current mask).  `o`, `mo`: string and mask at the end. -/
def TraceFromM (eng : Eng) : Str → MaskA → List StepM → Str → MaskA → Prop
  | cur, mk, [], o, mo => o = cur ∧ mo = mk
  | cur, mk, st :: r, o, mo =>
    match st.step.kind with
    | .rule id tr un => st = ruleStepM eng id tr un cur mk ∧ TraceFromM eng st.step.out st.mask r o mo
    | .mask id => st.step = maskStep id cur ∧ TraceFromM eng cur st.mask r o mo
    | .group => (∃ a b, st.step = summaryStep a cur b) ∧ st.mask = mk ∧ TraceFromM eng cur mk r o mo

end Verif.C14
