/-
C14 — composed corollaries: tokens of any program result have spans inside the original (so the YY
round trip applies to every lattice `tokenize` produces); `nextStart` against its declarative reading.
-/
import Verif.C13.Lemmas
import Verif.C14.LemmasRule
import Verif.C14.LemmasMerge
import Verif.C14.LemmasTok

namespace Verif.C14.L
open Verif.C13 Verif.C14

/-- `nextStart` is the Python `next(… , m.end())` expression read literally. -/
theorem nextStart_spec (m : M) (pos : Nat) (segs : List Seg) : nextStart m pos segs = nextStartSpec m pos segs := by
  induction segs with
  | nil => simp [nextStart, nextStartSpec]
  | cons seg r ih =>
    unfold nextStartSpec at ih ⊢
    cases seg with
    | lit l => simp only [nextStart, List.filterMap_cons]; exact ih
    | grp g =>
      simp only [nextStart, List.filterMap_cons]
      by_cases hg : g = 0
      · simp only [hg, if_true, ne_eq, not_true_eq_false, if_false]; exact ih
      · cases hsp : m.span g with
        | none => simp only [hg, if_false, ne_eq, not_false_eq_true, if_true, Option.bind_none]; exact ih
        | some sp =>
          obtain ⟨gs, ge⟩ := sp
          by_cases hp : pos ≤ gs
          · simp [hg, hp]
          · simp only [hg, hp, if_false, ne_eq, not_false_eq_true, if_true, Option.bind_some]; exact ih

private theorem program_facts (eng : Eng) (hv : EngValid eng) (f : Nat) (ops : List Op) (s : Str)
    (st : List Step) (res : Result) (h : apply eng f ops s = .ok (st, res)) :
    res.startmap.length = res.string.length + 2 ∧ res.endmap.length = res.string.length + 2 ∧
    (∀ (j : Nat) (a b : Int), j < res.string.length → res.startmap[j + 1]? = some a → res.endmap[j + 1]? = some b →
      0 ≤ (j : Int) + a ∧ (j : Int) + a ≤ s.length ∧ 0 ≤ (j : Int) + 1 + b ∧ (j : Int) + 1 + b ≤ s.length) := by
  unfold apply at h
  cases ht : traceSteps eng f ops s with
  | error e => rw [ht] at h; cases h
  | ok p =>
    obtain ⟨st', o⟩ := p
    rw [ht] at h
    have htf := Verif.C13.trace_structure_aux eng f ops s st' o ht
    obtain ⟨sm, em, hm, h1, h2, _, h4⟩ :=
      mergeSteps_spec eng (fun id s' tr un => ruleOK s' (eng id s') tr un (hv id s')) s st' o htf
    simp only [hm, Except.ok.injEq, Prod.mk.injEq] at h
    obtain ⟨rfl, rfl⟩ := h
    exact ⟨h1, h2, h4⟩

private theorem pyGet_nat (xs : List Int) (i : Int) (n : Nat) (h : i = (n : Int)) : pyGet xs i = xs[n]? := by
  subst h
  unfold pyGet
  rw [if_pos (Int.natCast_nonneg n), Int.toNat_natCast]

private theorem getElem?_some_of_lt (xs : List Int) (n : Nat) (h : n < xs.length) : ∃ v, xs[n]? = some v :=
  ⟨xs[n], List.getElem?_eq_getElem h⟩

/-- every token `tokenize` makes from the result of any program has both ends inside the original string. -/
theorem tokens_within (eng : Eng) (hv : EngValid eng) (f : Nat) (ops : List Op) (s : Str)
    (st : List Step) (res : Result) (h : apply eng f ops s = .ok (st, res))
    (seps : List (Nat × Nat)) (hs : ValidSeps res.string.length 0 seps) (toks : List Tok)
    (ht : tokenize res seps = some toks) :
    ∀ t ∈ toks, 0 ≤ t.cfrom ∧ t.cfrom ≤ s.length ∧ 0 ≤ t.cto ∧ t.cto ≤ s.length := by
  intro t htm
  obtain ⟨a, b, hab, hb, hmk⟩ := tokenize_mem res seps toks hs ht t htm
  obtain ⟨h1, h2, h4⟩ := program_facts eng hv f ops s st res h
  unfold mkTok at hmk
  rw [pyGet_nat res.startmap ((a : Int) + 1) (a + 1) (by omega), pyGet_nat res.endmap (b : Int) b rfl] at hmk
  obtain ⟨x, hx⟩ := getElem?_some_of_lt res.startmap (a + 1) (by omega)
  obtain ⟨y', hy'⟩ := getElem?_some_of_lt res.endmap (a + 1) (by omega)
  obtain ⟨x', hx'⟩ := getElem?_some_of_lt res.startmap (b - 1 + 1) (by omega)
  obtain ⟨y, hy⟩ := getElem?_some_of_lt res.endmap (b - 1 + 1) (by omega)
  have ha := h4 a x y' (by omega) hx hy'
  have hbb := h4 (b - 1) x' y (by omega) hx' hy
  have eb : b - 1 + 1 = b := by omega
  rw [eb] at hy
  rw [hx, hy] at hmk
  simp only [Option.some.injEq] at hmk
  subst hmk
  simp only
  omega

/-- tokenize → lattice → string → parse gives the lattice back, for every program, input and
separator list: the hypotheses of `yy_roundtrip` are met by what `tokenize` produces. -/
theorem yy_roundtrip_tokenize (eng : Eng) (hv : EngValid eng) (f : Nat) (ops : List Op) (s : Str)
    (st : List Step) (res : Result) (h : apply eng f ops s = .ok (st, res))
    (seps : List (Nat × Nat)) (hs : ValidSeps res.string.length 0 seps) (toks : List Tok)
    (ht : tokenize res seps = some toks) :
    latParse (latStr (latticeOf toks 0)) = some (latticeOf toks 0) :=
  yy_roundtrip_lattice toks (fun t htm => (tokens_within eng hv f ops s st res h seps hs toks ht t htm).1)

end Verif.C14.L
