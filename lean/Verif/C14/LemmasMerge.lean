/-
C14 — `_mergemap` composes, never raises on in-range maps; program level provenance.
-/
import Verif.C14.Model

namespace Verif.C14.L
open Verif.C13 Verif.C14

/-! ### helpers about `pyGet` / `mergeAux` -/

theorem pyGet_nonneg (xs : List Int) (i : Int) (h : 0 ≤ i) : pyGet xs i = xs[i.toNat]? := by
  unfold pyGet
  simp [h]

theorem mergeAux_spec (m1 : List Int) : ∀ (m2 : List Int) (i : Nat) (m : List Int),
    mergeAux m1 m2 i = some m →
    m.length = m2.length ∧ ∀ (k : Nat) (sh : Int), m2[k]? = some sh →
      ∃ v, pyGet m1 (((i + k : Nat) : Int) + sh) = some v ∧ m[k]? = some (sh + v) := by
  intro m2
  induction m2 with
  | nil =>
    intro i m h
    simp only [mergeAux, Option.some.injEq] at h
    subst h
    simp
  | cons a r ih =>
    intro i m h
    simp only [mergeAux] at h
    split at h
    · cases h
    · rename_i v hv
      split at h
      · cases h
      · rename_i rest hrest
        cases h
        obtain ⟨hl, hg⟩ := ih (i + 1) rest hrest
        refine ⟨by simp [hl], ?_⟩
        intro k sh hk
        cases k with
        | zero =>
          simp only [List.getElem?_cons_zero, Option.some.injEq] at hk
          subst hk
          exact ⟨v, by simpa using hv, by simp⟩
        | succ k =>
          simp only [List.getElem?_cons_succ] at hk
          obtain ⟨v', h1, h2⟩ := hg k sh hk
          refine ⟨v', ?_, by simpa using h2⟩
          have e : ((i + (k + 1) : Nat) : Int) = ((i + 1 + k : Nat) : Int) := by omega
          rw [e]
          exact h1

theorem mergeAux_ok (m1 : List Int) : ∀ (m2 : List Int) (i : Nat),
    (∀ (k : Nat) (sh : Int), m2[k]? = some sh →
      0 ≤ ((i + k : Nat) : Int) + sh ∧ ((i + k : Nat) : Int) + sh < m1.length) →
    ∃ m, mergeAux m1 m2 i = some m := by
  intro m2
  induction m2 with
  | nil => intro i _; exact ⟨[], rfl⟩
  | cons a r ih =>
    intro i h
    have h0 := h 0 a (by simp)
    have hp : ∃ v, pyGet m1 ((i : Int) + a) = some v := by
      rw [pyGet_nonneg _ _ (by simpa using h0.1)]
      have hlt : ((i : Int) + a).toNat < m1.length := by
        have := h0.2
        simp only [Nat.add_zero] at this
        omega
      exact ⟨m1[((i : Int) + a).toNat], List.getElem?_eq_getElem hlt⟩
    obtain ⟨v, hv⟩ := hp
    obtain ⟨rest, hrest⟩ := ih (i + 1) (by
      intro k sh hk
      have := h (k + 1) sh (by simpa using hk)
      have e : ((i + (k + 1) : Nat) : Int) = ((i + 1 + k : Nat) : Int) := by omega
      rw [e] at this
      exact this)
    exact ⟨(a + v) :: rest, by simp only [mergeAux, hv, hrest]⟩

/-! ### the five `mergeMap` facts -/

theorem mergeMap_length (m1 m2 m : List Int) (h : mergeMap m1 m2 = some m) : m.length = m2.length := by
  exact (mergeAux_spec m1 m2 0 m h).1

theorem mergeMap_get (m1 m2 m : List Int) (h : mergeMap m1 m2 = some m) (i : Nat) (sh : Int) (hi : m2[i]? = some sh) :
    ∃ v, pyGet m1 ((i : Int) + sh) = some v ∧ m[i]? = some (sh + v) := by
  have := (mergeAux_spec m1 m2 0 m h).2 i sh hi
  simpa using this

theorem mergeMap_ok (m1 m2 : List Int)
    (h : ∀ (i : Nat) (sh : Int), m2[i]? = some sh → 0 ≤ (i : Int) + sh ∧ (i : Int) + sh < m1.length) :
    ∃ m, mergeMap m1 m2 = some m := by
  apply mergeAux_ok m1 m2 0
  intro k sh hk
  simpa using h k sh hk

theorem mergeMap_zero (m1 : List Int) : mergeMap m1 (List.replicate m1.length 0) = some m1 := by
  obtain ⟨m, hm⟩ := mergeMap_ok m1 (List.replicate m1.length 0) (by
    intro i sh h
    rw [List.getElem?_replicate] at h
    split at h
    · simp only [Option.some.injEq] at h
      omega
    · cases h)
  rw [hm]
  congr 1
  apply List.ext_getElem?
  intro i
  have hl := mergeMap_length _ _ _ hm
  simp only [List.length_replicate] at hl
  by_cases hi : i < m1.length
  · obtain ⟨v, h1, h2⟩ := mergeMap_get _ _ _ hm i 0 (by simp [hi])
    rw [pyGet_nonneg _ _ (by omega)] at h1
    simp only [Int.add_zero, Int.toNat_natCast, Int.zero_add] at h1 h2
    rw [h2, h1]
  · rw [List.getElem?_eq_none (by omega), List.getElem?_eq_none (by omega)]

/-- "if step 1 attributes position j to p and step 2 attributes k to j, the merged map attributes k to p". -/
theorem mergeMap_compose (m1 m2 m : List Int) (h : mergeMap m1 m2 = some m) (k j p : Nat)
    (h2 : m2[k + 1]? = some ((j : Int) - (k : Int))) (h1 : m1[j + 1]? = some ((p : Int) - (j : Int))) :
    m[k + 1]? = some ((p : Int) - (k : Int)) := by
  obtain ⟨v, hv, hm⟩ := mergeMap_get m1 m2 m h (k + 1) _ h2
  have e : (((k + 1 : Nat) : Int) + ((j : Int) - (k : Int))) = ((j + 1 : Nat) : Int) := by omega
  rw [e, pyGet_nonneg _ _ (by omega)] at hv
  simp only [Int.toNat_natCast] at hv
  rw [h1] at hv
  cases hv
  rw [hm]
  congr 1
  omega

/-! ### program level -/

/-- range facts are carried through a merge. -/
theorem merge_range (lo hi : Int) (m1 m2 m : List Int) (h : mergeMap m1 m2 = some m)
    (hnn : ∀ (i : Nat) (sh : Int), m2[i]? = some sh → 0 ≤ (i : Int) + sh)
    (hr : ∀ (i : Nat) (v : Int), m1[i]? = some v → lo ≤ (i : Int) + v ∧ (i : Int) + v ≤ hi) :
    ∀ (i : Nat) (v : Int), m[i]? = some v → lo ≤ (i : Int) + v ∧ (i : Int) + v ≤ hi := by
  intro i v hv
  have hl := mergeMap_length _ _ _ h
  have hi : i < m2.length := by
    have := (List.getElem?_eq_some_iff.mp hv).1
    omega
  obtain ⟨v0, h1, h2⟩ := mergeMap_get m1 m2 m h i m2[i] (List.getElem?_eq_getElem hi)
  have hn := hnn i m2[i] (List.getElem?_eq_getElem hi)
  rw [pyGet_nonneg _ _ hn] at h1
  have := hr _ _ h1
  rw [h2] at hv
  cases hv
  omega

def Inv (s cur : Str) (A E : List Int) (acc : Prov) : Prop :=
  A.length = cur.length + 2 ∧ E.length = cur.length + 2 ∧
  (∀ (i : Nat) (v : Int), A[i]? = some v → 1 ≤ (i : Int) + v ∧ (i : Int) + v ≤ (s.length : Int) + 1) ∧
  (∀ (i : Nat) (v : Int), E[i]? = some v → 0 ≤ (i : Int) + v ∧ (i : Int) + v ≤ (s.length : Int)) ∧
  Attributes s cur A E acc

theorem composeProv_length (acc P : Prov) : (composeProv acc P).length = P.length := by
  simp [composeProv]

theorem composeProv_get (acc P : Prov) (k p : Nat) (h : (composeProv acc P)[k]? = some (some p)) :
    ∃ j, P[k]? = some (some j) ∧ acc[j]? = some (some p) := by
  simp only [composeProv, List.getElem?_map] at h
  cases hP : P[k]? with
  | none => simp [hP] at h
  | some o =>
    cases o with
    | none => simp [hP] at h
    | some j =>
      refine ⟨j, rfl, ?_⟩
      simp only [hP, Option.map_some, Option.bind_some, Option.some.injEq] at h
      cases ha : acc[j]? with
      | none => simp [ha] at h
      | some q =>
        simp only [ha, Option.join_some] at h
        rw [h]

theorem idProv_get (n j p : Nat) (h : (idProv 0 n)[j]? = some (some p)) : j < n ∧ p = j := by
  simp only [idProv, List.getElem?_map, Nat.sub_zero, Nat.zero_add] at h
  cases hr : (List.range n)[j]? with
  | none => simp [hr] at h
  | some x =>
    have := List.getElem?_eq_some_iff.mp hr
    obtain ⟨hlt, hx⟩ := this
    simp only [List.length_range] at hlt
    simp only [List.getElem_range] at hx
    simp only [hr, Option.map_some, Option.some.injEq] at h
    omega

theorem zeromap_get (cur : Str) (i : Nat) (v : Int) (h : (zeromap cur)[i]? = some v) :
    i < cur.length + 2 ∧ v = 0 := by
  simp only [zeromap, List.getElem?_replicate] at h
  split at h
  · simp only [Option.some.injEq] at h
    omega
  · cases h

theorem zeromap_get' (cur : Str) (i : Nat) (h : i < cur.length + 2) : (zeromap cur)[i]? = some 0 := by
  simp [zeromap, h]

theorem mapInRange_zero (cur : Str) : MapInRange cur.length (zeromap cur) := by
  intro i v h
  have := zeromap_get cur i v h
  omega

theorem attr_id (cur : Str) : Attributes cur cur (zeromap cur) (zeromap cur) (idProv 0 cur.length) := by
  refine ⟨by simp [idProv], ?_⟩
  intro j p h
  obtain ⟨hj, hp⟩ := idProv_get _ _ _ h
  subst hp
  refine ⟨hj, rfl, ?_, ?_⟩ <;>
  · rw [zeromap_get' cur (p + 1) (by omega)]
    congr 1
    omega

theorem inv_init (s : Str) : Inv s s (initStart s) (initEnd s) (idProv 0 s.length) := by
  refine ⟨by simp [initStart], by simp [initEnd], ?_, ?_, by simp [idProv], ?_⟩
  · intro i v h
    cases i with
    | zero =>
      simp only [initStart, List.getElem?_cons_zero, Option.some.injEq] at h
      omega
    | succ i =>
      simp only [initStart, List.getElem?_cons_succ, List.getElem?_replicate] at h
      split at h
      · simp only [Option.some.injEq] at h
        omega
      · cases h
  · intro i v h
    simp only [initEnd, List.getElem?_append, List.length_replicate, List.getElem?_replicate] at h
    split at h
    · simp only [Option.some.injEq] at h
      omega
    · have hlt := (List.getElem?_eq_some_iff.mp h).1
      simp only [List.length_singleton] at hlt
      have e : i - (s.length + 1) = 0 := by omega
      rw [e] at h
      simp only [List.getElem?_cons_zero, Option.some.injEq] at h
      omega
  · intro j p h
    obtain ⟨hj, hp⟩ := idProv_get _ _ _ h
    subst hp
    refine ⟨hj, rfl, ?_, ?_⟩
    · simp only [initStart, List.getElem?_cons_succ, List.getElem?_replicate]
      rw [if_pos (by omega)]
      congr 1
      omega
    · simp only [initEnd, List.getElem?_append, List.length_replicate, List.getElem?_replicate]
      rw [if_pos (by omega), if_pos (by omega)]
      congr 1
      omega

/-- one merged step keeps the invariant. -/
theorem inv_step (s cur out' : Str) (A E sm' em' : List Int) (acc P : Prov)
    (hi : Inv s cur A E acc)
    (hsl : sm'.length = out'.length + 2) (hel : em'.length = out'.length + 2)
    (hsr : MapInRange cur.length sm') (her : MapInRange cur.length em')
    (hat : Attributes cur out' sm' em' P) :
    ∃ sm em, mergeMap A sm' = some sm ∧ mergeMap E em' = some em ∧
      Inv s out' sm em (composeProv acc P) := by
  obtain ⟨hA, hE, rA, rE, accLen, accAttr⟩ := hi
  obtain ⟨PLen, PAttr⟩ := hat
  obtain ⟨sm, hsm⟩ := mergeMap_ok A sm' (by
    intro i sh h
    have := hsr i sh h
    omega)
  obtain ⟨em, hem⟩ := mergeMap_ok E em' (by
    intro i sh h
    have := her i sh h
    omega)
  refine ⟨sm, em, hsm, hem, ?_, ?_, ?_, ?_, ?_, ?_⟩
  · rw [mergeMap_length _ _ _ hsm, hsl]
  · rw [mergeMap_length _ _ _ hem, hel]
  · exact merge_range _ _ A sm' sm hsm (fun i sh h => (hsr i sh h).1) rA
  · exact merge_range _ _ E em' em hem (fun i sh h => (her i sh h).1) rE
  · rw [composeProv_length, PLen]
  · intro k p h
    obtain ⟨j, hP, hacc⟩ := composeProv_get _ _ _ _ h
    obtain ⟨_, ho, hs1, he1⟩ := PAttr k j hP
    obtain ⟨hp, hc, hs2, he2⟩ := accAttr j p hacc
    exact ⟨hp, ho.trans hc, mergeMap_compose A sm' sm hsm k j p hs1 hs2,
      mergeMap_compose E em' em hem k j p he1 he2⟩

/-- a step with zero maps over the current string leaves the maps alone. -/
theorem inv_zero (s cur : Str) (A E : List Int) (acc P : Prov)
    (hi : Inv s cur A E acc)
    (hat : Attributes cur cur (zeromap cur) (zeromap cur) P) :
    mergeMap A (zeromap cur) = some A ∧ mergeMap E (zeromap cur) = some E ∧
      Inv s cur A E (composeProv acc P) := by
  have hA := hi.1
  have hE := hi.2.1
  have zA : mergeMap A (zeromap cur) = some A := by
    have := mergeMap_zero A
    rw [hA] at this
    exact this
  have zE : mergeMap E (zeromap cur) = some E := by
    have := mergeMap_zero E
    rw [hE] at this
    exact this
  obtain ⟨sm, em, h1, h2, h3⟩ := inv_step s cur cur A E (zeromap cur) (zeromap cur) acc P hi
    (by simp [zeromap]) (by simp [zeromap]) (mapInRange_zero cur) (mapInRange_zero cur) hat
  rw [zA] at h1
  rw [zE] at h2
  cases h1
  cases h2
  exact ⟨zA, zE, h3⟩

theorem mergeSteps_cons_zero (x : Step) (r : List Step) (cur : Str) (A E : List Int)
    (hs : x.sm = zeromap cur) (he : x.em = zeromap cur)
    (zA : mergeMap A (zeromap cur) = some A) (zE : mergeMap E (zeromap cur) = some E) :
    mergeSteps (x :: r) A E = mergeSteps r A E := by
  simp only [mergeSteps, hs, he, zA, zE]
  split <;> rfl

theorem applyRule_not_applied (s : Str) (ms : List M) (tr un : List Seg)
    (h : (applyRule s ms tr un).applied = false) :
    applyRule s ms tr un = ⟨s, false, zeromap s, zeromap s⟩ ∧ ms = [] := by
  unfold applyRule at h ⊢
  split
  · rename_i he
    exact ⟨rfl, by simpa using he⟩
  · rename_i he
    rw [if_neg he] at h
    cases h

theorem main (eng : Eng) (hr : ∀ id s tr un, RuleOK s (eng id s) tr un) (s : Str) :
    ∀ (st : List Step) (cur : Str) (A E : List Int) (acc : Prov) (o : Str),
      TraceFrom eng cur st o → Inv s cur A E acc →
      ∃ sm em, mergeSteps st A E = some (sm, em) ∧ Inv s o sm em (provSteps eng st acc) := by
  intro st
  induction st with
  | nil =>
    intro cur A E acc o ht hi
    simp only [TraceFrom] at ht
    subst ht
    exact ⟨A, E, rfl, hi⟩
  | cons x r ih =>
    intro cur A E acc o ht hi
    rcases x with ⟨kind, inp, out, applied, xsm, xem⟩
    cases kind with
    | rule id tr un =>
      simp only [TraceFrom] at ht
      obtain ⟨hx, ht'⟩ := ht
      simp only [ruleStep, Step.mk.injEq, true_and] at hx
      obtain ⟨e1, e2, e3, e4, e5⟩ := hx
      have hok := hr id cur tr un
      simp only [RuleOK] at hok
      obtain ⟨l1, l2, r1, r2, hat⟩ := hok
      have hP : stepProv eng ⟨.rule id tr un, inp, out, applied, xsm, xem⟩
          = provRule cur tr un (eng id cur) 0 := by
        simp only [stepProv, e1]
      simp only [provSteps, hP]
      cases happ : applied with
      | true =>
        subst e2 e4 e5
        obtain ⟨sm, em, h1, h2, h3⟩ := inv_step s cur _ A E _ _ acc _ hi l1 l2 r1 r2 hat
        obtain ⟨sm2, em2, h4, h5⟩ := ih _ sm em _ o ht' h3
        refine ⟨sm2, em2, ?_, h5⟩
        simp only [mergeSteps, h1, h2, if_true]
        exact h4
      | false =>
        rw [happ] at e3
        obtain ⟨hz, hnil⟩ := applyRule_not_applied cur (eng id cur) tr un e3.symm
        rw [hz] at e2 e4 e5 hat
        simp only at e2 e4 e5 hat
        subst e2
        obtain ⟨_, _, h3⟩ := inv_zero s out A E acc _ hi hat
        obtain ⟨sm2, em2, h4, h5⟩ := ih out A E _ o ht' h3
        refine ⟨sm2, em2, ?_, h5⟩
        simp only [mergeSteps]
        exact h4
    | mask id =>
      simp only [TraceFrom] at ht
      obtain ⟨hx, ht'⟩ := ht
      simp only [maskStep, Step.mk.injEq, true_and] at hx
      obtain ⟨e1, e2, e3, e4, e5⟩ := hx
      have hP : stepProv eng ⟨.mask id, inp, out, applied, xsm, xem⟩ = idProv 0 cur.length := by
        simp only [stepProv, e2]
      simp only [provSteps, hP]
      obtain ⟨zA, zE, h3⟩ := inv_zero s cur A E acc _ hi (attr_id cur)
      obtain ⟨sm2, em2, h4, h5⟩ := ih cur A E _ o ht' h3
      refine ⟨sm2, em2, ?_, h5⟩
      rw [mergeSteps_cons_zero _ r cur A E e4 e5 zA zE]
      exact h4
    | group =>
      simp only [TraceFrom] at ht
      obtain ⟨⟨a, b, hx⟩, ht'⟩ := ht
      simp only [summaryStep, Step.mk.injEq, true_and] at hx
      obtain ⟨e1, e2, e3, e4, e5⟩ := hx
      have hP : stepProv eng ⟨.group, inp, out, applied, xsm, xem⟩ = idProv 0 cur.length := by
        simp only [stepProv, e2]
      simp only [provSteps, hP]
      obtain ⟨zA, zE, h3⟩ := inv_zero s cur A E acc _ hi (attr_id cur)
      obtain ⟨sm2, em2, h4, h5⟩ := ih cur A E _ o ht' h3
      refine ⟨sm2, em2, ?_, h5⟩
      rw [mergeSteps_cons_zero _ r cur A E e4 e5 zA zE]
      exact h4

/-- Program level, generic in the rule-level facts: along any trace (as characterised by
`TraceFrom`) whose rule steps satisfy `RuleOK`, the merging loop never raises, the final maps have
one entry per output position plus two sentinels, attribute every carried-over character to its
origin, and every reported span lies inside the original string. -/
theorem mergeSteps_spec (eng : Eng) (hr : ∀ id s tr un, RuleOK s (eng id s) tr un)
    (s : Str) (st : List Step) (o : Str) (ht : TraceFrom eng s st o) :
    ∃ sm em, mergeSteps st (initStart s) (initEnd s) = some (sm, em) ∧
      sm.length = o.length + 2 ∧ em.length = o.length + 2 ∧
      Attributes s o sm em (provSteps eng st (idProv 0 s.length)) ∧
      (∀ (j : Nat) (a b : Int), j < o.length → sm[j + 1]? = some a → em[j + 1]? = some b →
        0 ≤ (j : Int) + a ∧ (j : Int) + a ≤ s.length ∧ 0 ≤ (j : Int) + 1 + b ∧ (j : Int) + 1 + b ≤ s.length) := by
  obtain ⟨sm, em, h1, hA, hE, rA, rE, hat⟩ := main eng hr s st s _ _ _ o ht (inv_init s)
  refine ⟨sm, em, h1, hA, hE, hat, ?_⟩
  intro j a b _ ha hb
  have := rA _ _ ha
  have := rE _ _ hb
  omega

/-- mask rules and summary steps only: the maps stay the initial ones. -/
theorem mergeSteps_zero (s : Str) (st : List Step) (h : ∀ x ∈ st, x.sm = zeromap s ∧ x.em = zeromap s) :
    mergeSteps st (initStart s) (initEnd s) = some (initStart s, initEnd s) := by
  have zA : mergeMap (initStart s) (zeromap s) = some (initStart s) := by
    have := mergeMap_zero (initStart s)
    simpa [initStart, zeromap] using this
  have zE : mergeMap (initEnd s) (zeromap s) = some (initEnd s) := by
    have := mergeMap_zero (initEnd s)
    simpa [initEnd, zeromap] using this
  induction st with
  | nil => rfl
  | cons x r ih =>
    have hx := h x (by simp)
    rw [mergeSteps_cons_zero x r s _ _ hx.1 hx.2 zA zE]
    exact ih (fun y hy => h y (by simp [hy]))

end Verif.C14.L
