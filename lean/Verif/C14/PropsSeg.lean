/-
C14 — `_process_match`'s literal / segment accounting when optional groups do not participate
(general theorems; the clause wave-G change 1 broke: "a template literal extends only to the
IMMEDIATELY following backreference").  In the code a literal stands for the matched text up to the
start of the next group reference that PARTICIPATED in the match and starts at or after the current
position (`next((m.start(g) for _, g in tracked[i+1:] if g and m.start(g) >= pos), m.end())`), and
references to groups that did not participate are skipped (`if gstart == -1: continue`).
-/
import Verif.C14.Model

namespace Verif.C14
open Verif.C13

/-- a reference to a group that did not participate in the match (`m.span(g) == (-1, -1)`). -/
def Unmatched (m : M) (seg : Seg) : Prop := ∃ g, seg = .grp g ∧ m.span g = none

/-- what `nextStart` passes over from position `pos`: literals, `\g<0>`, references to groups that did
not participate, and to groups that start before `pos`. -/
def Passed (m : M) (pos : Nat) : Seg → Prop
  | .lit _ => True
  | .grp g => g = 0 ∨ m.span g = none ∨ ∃ a b, m.span g = some (a, b) ∧ a < pos

/-- `nextStart` ignores every passed-over segment … -/
theorem nextStart_skip (m : M) (pos : Nat) (pre rest : List Seg) (h : ∀ x ∈ pre, Passed m pos x) :
    nextStart m pos (pre ++ rest) = nextStart m pos rest := by
  induction pre with
  | nil => rfl
  | cons x r ih =>
    have hx := h x (by simp)
    have ih' := ih (fun y hy => h y (by simp [hy]))
    cases x with
    | lit l => simp only [List.cons_append, nextStart]; exact ih'
    | grp g =>
      simp only [List.cons_append, nextStart]
      by_cases hg : g = 0
      · simp only [hg, if_true]; exact ih'
      · simp only [hg, if_false]
        rcases hx with h0 | hn | ⟨a, b, hs, hlt⟩
        · exact absurd h0 hg
        · simp only [hn]; exact ih'
        · have : ¬ pos ≤ a := by omega
          simp only [hs, this, if_false]; exact ih'

/-- … and stops at the first reference to a group that participated and starts at or after `pos`. -/
theorem nextStart_hit (m : M) (pos g gs ge : Nat) (rest : List Seg) (hg : g ≠ 0)
    (hs : m.span g = some (gs, ge)) (hp : pos ≤ gs) : nextStart m pos (.grp g :: rest) = gs := by
  simp only [nextStart, hg, if_false, hs, hp, if_true]

/-- a group that did not participate is passed over from every position. -/
theorem unmatched_passed (m : M) (pos : Nat) (x : Seg) (h : Unmatched m x) : Passed m pos x := by
  obtain ⟨g, rfl, hn⟩ := h
  exact Or.inr (Or.inl hn)

/-- the tracked loop skips references to groups that did not participate (`continue`). -/
theorem procTracked_skip (s : Str) (m : M) (shift : Int) (pre rest : List Seg) (pos : Nat) (delta : Int)
    (h : ∀ x ∈ pre, Unmatched m x) :
    procTracked s m shift (pre ++ rest) pos delta = procTracked s m shift rest pos delta := by
  induction pre with
  | nil => rfl
  | cons x r ih =>
    obtain ⟨g, rfl, hn⟩ := h x (by simp)
    simp only [List.cons_append, procTracked, hn]
    exact ih (fun y hy => h y (by simp [hy]))

/-- the provenance semantics skips them too. -/
theorem provTracked_skip (m : M) (pre rest : List Seg) (cur : Nat) (h : ∀ x ∈ pre, Unmatched m x) :
    provTracked m (pre ++ rest) cur = provTracked m rest cur := by
  induction pre with
  | nil => rfl
  | cons x r ih =>
    obtain ⟨g, rfl, hn⟩ := h x (by simp)
    simp only [List.cons_append, provTracked, hn]
    exact ih (fun y hy => h y (by simp [hy]))

/-- THE CODE, for every template `…literal \a \b … \g …` in which the groups between the literal and `\g`
did not participate and `\g` did (starting at or after the current position): the literal stands for
the matched text up to the start of `\g` — width `gs - pos`, not up to the immediately following
reference — and `\g` is then copied with no further shift. -/
theorem literal_reaches_next_participating_group (s : Str) (m : M) (shift : Int) (l : Str)
    (pre rest : List Seg) (g gs ge pos : Nat) (delta : Int)
    (hpre : ∀ x ∈ pre, Unmatched m x) (hg : g ≠ 0) (hs : m.span g = some (gs, ge)) (hp : pos ≤ gs) :
    procTracked s m shift (.lit l :: (pre ++ .grp g :: rest)) pos delta =
      let d := delta + ((gs : Int) - (pos : Int)) - (l.length : Int)
      let r := procTracked s m shift rest ge d
      (insertPart l ((gs : Int) - (pos : Int)) (shift + delta) ++ (copyPart (slice s gs ge) (shift + d) ++ r.1), r.2) := by
  have hn : nextStart m pos (pre ++ .grp g :: rest) = gs := by
    rw [nextStart_skip m pos pre _ (fun x hx => unmatched_passed m pos x (hpre x hx))]
    exact nextStart_hit m pos g gs ge rest hg hs hp
  simp only [procTracked, hn]
  rw [procTracked_skip s m shift pre _ gs _ hpre]
  simp only [procTracked, hs, Nat.lt_irrefl, if_false, Int.sub_self, Int.add_zero]

/-- THE PROVENANCE for the same templates: the literal is inserted text, the characters of `\g` are
carried over from `gs … ge` (so `provenance_rule` makes both maps point there), whatever lies between. -/
theorem provenance_after_unmatched_groups (m : M) (l : Str) (pre rest : List Seg) (g gs ge cur : Nat)
    (hpre : ∀ x ∈ pre, Unmatched m x) (hg : g ≠ 0) (hs : m.span g = some (gs, ge)) (hp : cur ≤ gs) :
    provTracked m (.lit l :: (pre ++ .grp g :: rest)) cur =
      (noProv l.length ++ (idProv gs ge ++ (provTracked m rest ge).1), (provTracked m rest ge).2) := by
  have hn : nextStart m cur (pre ++ .grp g :: rest) = gs := by
    rw [nextStart_skip m cur pre _ (fun x hx => unmatched_passed m cur x (hpre x hx))]
    exact nextStart_hit m cur g gs ge rest hg hs hp
  simp only [provTracked, hn]
  rw [provTracked_skip m pre _ gs hpre]
  simp only [provTracked, hs, Nat.lt_irrefl, if_false]

/-- wave-G change 1 on its witness `!(a)(b)?(x)<TAB>\1y\2\3` on "zaxb": group 2 does not participate;
the literal `y` has width 0 (it reaches to group 3 at 2, where the position already is), `x` stays at 2. -/
example : (applyRule "zaxb".toList [⟨1, 3, [some (1, 2), none, some (2, 3)]⟩]
      [.grp 1, .lit ['y'], .grp 2, .grp 3] []).sm = [0, 0, 0, 0, -1, -1, -1]
    ∧ provRule "zaxb".toList [.grp 1, .lit ['y'], .grp 2, .grp 3] [] [⟨1, 3, [some (1, 2), none, some (2, 3)]⟩] 0
      = [some 0, some 1, none, some 2, some 3] := by decide

end Verif.C14
