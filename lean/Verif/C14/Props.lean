/-
C14 — property theorems: REPP character spans point back to the original text.
Only property statements live here; proofs are references to the Lemmas files plus glue.
The regex engine is a parameter; `EngValid eng` is the parameter assumption (every match list is
ordered, non-overlapping, inside the string, groups inside their match), checked by the harness on
every list the real engine returns.
-/
import Verif.Generated.TablesC14
import Verif.C13.Lemmas
import Verif.C14.LemmasRule
import Verif.C14.LemmasMerge
import Verif.C14.LemmasTok
import Verif.C14.LemmasCompose
import Verif.C13.NoMatch

namespace Verif.C14
open Verif.C13
open Verif.Codec hiding Str

/-! ## "the start and end offset maps have one entry per output position plus two sentinels" -/

/-- one rule application. -/
theorem rule_maps_length (s : Str) (ms : List M) (tr un : List Seg) (hv : ValidMatches s ms) :
    (applyRule s ms tr un).sm.length = (applyRule s ms tr un).out.length + 2 ∧
    (applyRule s ms tr un).em.length = (applyRule s ms tr un).out.length + 2 :=
  ⟨(L.ruleOK s ms tr un hv).1, (L.ruleOK s ms tr un hv).2.1⟩

/-- `_mergemap` keeps the length of the step's map. -/
theorem mergeMap_length (m1 m2 m : List Int) (h : mergeMap m1 m2 = some m) : m.length = m2.length :=
  L.mergeMap_length m1 m2 m h

/-! ## "every output character that was carried over unchanged - outside all matches or through
capture groups referenced in order - is attributed to exactly its original position" -/

/-- One rule, full strength (no coverage hypothesis): for every template and every valid match
list, each output character whose independent provenance is `some p` is the original character
`p`, and both maps send its position to `p`; every map entry is a valid position of the input. -/
theorem provenance_rule (s : Str) (ms : List M) (tr un : List Seg) (hv : ValidMatches s ms) :
    Attributes s (applyRule s ms tr un).out (applyRule s ms tr un).sm (applyRule s ms tr un).em
      (provRule s tr un ms 0)
    ∧ MapInRange s.length (applyRule s ms tr un).sm ∧ MapInRange s.length (applyRule s ms tr un).em :=
  ⟨(L.ruleOK s ms tr un hv).2.2.2.2, (L.ruleOK s ms tr un hv).2.2.1, (L.ruleOK s ms tr un hv).2.2.2.1⟩

/-- `_mergemap` composes: if step 1 attributes position j to p and step 2 attributes k to j, the
merged map attributes k to p. -/
theorem mergeMap_compose (m1 m2 m : List Int) (h : mergeMap m1 m2 = some m) (k j p : Nat)
    (h2 : m2[k + 1]? = some ((j : Int) - (k : Int))) (h1 : m1[j + 1]? = some ((p : Int) - (j : Int))) :
    m[k + 1]? = some ((p : Int) - (k : Int)) := L.mergeMap_compose m1 m2 m h k j p h2 h1

/-- Whole programs ("no matter how much text earlier rules inserted, deleted or replaced before
it"): for every rule program (sequences, iterative groups, external groups, masks alone) and every
input on which the trace terminates, the merging never raises IndexError … -/
theorem apply_no_indexError (eng : Eng) (hv : EngValid eng) (f : Nat) (ops : List Op) (s : Str) :
    apply eng f ops s ≠ .error .indexError := by
  unfold apply
  cases ht : traceSteps eng f ops s with
  | error e =>
    simp only
    unfold traceSteps at ht
    cases hg : groupApply eng f ops s with
    | none => rw [hg] at ht; cases ht; simp
    | some st => rw [hg] at ht; cases ht
  | ok p =>
    obtain ⟨st, o⟩ := p
    have htf := Verif.C13.trace_structure_aux eng f ops s st o ht
    obtain ⟨sm, em, hm, -⟩ := L.mergeSteps_spec eng (fun id s' tr un => L.ruleOK s' (eng id s') tr un (hv id s')) s st o htf
    simp only [hm]
    intro h; cases h

/-- … and the result satisfies every clause: lengths, exact attribution of every carried-over
character (followed back through all steps by `provSteps`), spans inside the original. -/
theorem provenance_program (eng : Eng) (hv : EngValid eng) (f : Nat) (ops : List Op) (s : Str)
    (st : List Step) (res : Result) (h : apply eng f ops s = .ok (st, res)) :
    res.startmap.length = res.string.length + 2 ∧ res.endmap.length = res.string.length + 2 ∧
    Attributes s res.string res.startmap res.endmap (provSteps eng st (idProv 0 s.length)) ∧
    (∀ (j : Nat) (a b : Int), j < res.string.length → res.startmap[j + 1]? = some a → res.endmap[j + 1]? = some b →
      0 ≤ (j : Int) + a ∧ (j : Int) + a ≤ s.length ∧ 0 ≤ (j : Int) + 1 + b ∧ (j : Int) + 1 + b ≤ s.length) := by
  unfold apply at h
  cases ht : traceSteps eng f ops s with
  | error e => rw [ht] at h; cases h
  | ok p =>
    obtain ⟨st', o⟩ := p
    rw [ht] at h
    have htf := Verif.C13.trace_structure_aux eng f ops s st' o ht
    obtain ⟨sm, em, hm, h1, h2, h3, h4⟩ :=
      L.mergeSteps_spec eng (fun id s' tr un => L.ruleOK s' (eng id s') tr un (hv id s')) s st' o htf
    simp only [hm, Except.ok.injEq, Prod.mk.injEq] at h
    obtain ⟨rfl, rfl⟩ := h
    exact ⟨h1, h2, h3, h4⟩

/-! ## "a mask rule by itself never changes … any reported span" (C13, maps part) -/

theorem mask_alone_maps (s : Str) (st : List Step) (h : ∀ x ∈ st, x.sm = zeromap s ∧ x.em = zeromap s) :
    mergeSteps st (initStart s) (initEnd s) = some (initStart s, initEnd s) := L.mergeSteps_zero s st h

/-! ## "tokenization yields every maximal separator-free piece of the output in order" -/

/-- the forms are exactly the non-empty pieces of splitting the output at the separator matches. -/
theorem tokenize_pieces (r : Result) (seps : List (Nat × Nat)) (toks : List Tok)
    (hv : ValidSeps r.string.length 0 seps) (h : tokenize r seps = some toks) :
    toks.map (·.form) = (splitAt r.string seps 0).filter (fun p => !p.isEmpty) := L.tokenize_forms r seps toks hv h

/-- tokenization never raises on maps of the right length (which `provenance_program` gives). -/
theorem tokenize_total (r : Result) (seps : List (Nat × Nat)) (hv : ValidSeps r.string.length 0 seps)
    (hs : r.startmap.length = r.string.length + 2) (he : r.endmap.length = r.string.length + 2) :
    ∃ toks, tokenize r seps = some toks := L.tokenize_ok r seps hv hs he

/-! ## "a token consisting only of contiguous carried-over characters satisfies original[from:to] == form" -/

/-- For the result of any program: a piece `[a, b)` of the output whose characters are carried over
from the contiguous original positions `p, p+1, …` becomes the token `(p, p + (b-a), original[p : p+(b-a)])`. -/
theorem token_text (eng : Eng) (hv : EngValid eng) (f : Nat) (ops : List Op) (s : Str)
    (st : List Step) (res : Result) (h : apply eng f ops s = .ok (st, res))
    (a b p : Nat) (hab : a < b) (hb : b ≤ res.string.length)
    (hc : ∀ k, k < b - a → (provSteps eng st (idProv 0 s.length))[a + k]? = some (some (p + k))) :
    mkTok res a b = some ⟨(p : Int), ((p + (b - a) : Nat) : Int), slice s p (p + (b - a))⟩ := by
  obtain ⟨-, -, hat, -⟩ := provenance_program eng hv f ops s st res h
  apply L.mkTok_carried s res a b p hab hb
  intro k hk
  obtain ⟨h1, h2, h3, h4⟩ := hat.2 (a + k) (p + k) (hc k hk)
  exact ⟨h1, h2, h3, h4⟩

/-- every token is such a `mkTok` of a non-empty piece inside the output. -/
theorem tokenize_mem (r : Result) (seps : List (Nat × Nat)) (toks : List Tok)
    (hv : ValidSeps r.string.length 0 seps) (h : tokenize r seps = some toks) (t : Tok) (ht : t ∈ toks) :
    ∃ a b, a < b ∧ b ≤ r.string.length ∧ mkTok r a b = some t := L.tokenize_mem r seps toks hv h t ht

/-! ## "the token lattice survives YY serialization and parsing unchanged" -/

/-- any forms and surface strings — quotes, backslashes, parentheses, commas, blanks (F17 repaired:
no side condition on the text). -/
theorem yy_roundtrip (ts : List YTok) (h : ∀ t ∈ ts, t.paths ≠ [] ∧ L.LnkOk t.lnk) :
    latParse (latStr ts) = some ts := L.yy_roundtrip ts h

/-- the lattice `tokenize_result` builds (spans are non-negative by `provenance_program`). -/
theorem yy_roundtrip_lattice (toks : List Tok) (h : ∀ t ∈ toks, 0 ≤ t.cfrom) :
    latParse (latStr (latticeOf toks 0)) = some (latticeOf toks 0) := L.yy_roundtrip_lattice toks h

/-! ## composed: tokenize → lattice → YY string → parse, for every program -/

/-- every token `tokenize` makes from the result of any program has both ends inside the original. -/
theorem tokens_within (eng : Eng) (hv : EngValid eng) (f : Nat) (ops : List Op) (s : Str)
    (st : List Step) (res : Result) (h : apply eng f ops s = .ok (st, res))
    (seps : List (Nat × Nat)) (hs : ValidSeps res.string.length 0 seps) (toks : List Tok)
    (ht : tokenize res seps = some toks) :
    ∀ t ∈ toks, 0 ≤ t.cfrom ∧ t.cfrom ≤ s.length ∧ 0 ≤ t.cto ∧ t.cto ≤ s.length :=
  L.tokens_within eng hv f ops s st res h seps hs toks ht

/-- "the token lattice survives YY serialization and parsing unchanged", with no side condition left:
the hypotheses of `yy_roundtrip` (`paths ≠ []`, a character span other than `<-1:-1>`) are met by
everything `tokenize` produces from the result of any program on any input. -/
theorem yy_roundtrip_tokenize (eng : Eng) (hv : EngValid eng) (f : Nat) (ops : List Op) (s : Str)
    (st : List Step) (res : Result) (h : apply eng f ops s = .ok (st, res))
    (seps : List (Nat × Nat)) (hs : ValidSeps res.string.length 0 seps) (toks : List Tok)
    (ht : tokenize res seps = some toks) :
    latParse (latStr (latticeOf toks 0)) = some (latticeOf toks 0) :=
  L.yy_roundtrip_tokenize eng hv f ops s st res h seps hs toks ht

/-- The provenance semantics (`provTracked`) takes "the start of the next in-order group" from
`Verif.C13.nextStart`, the helper the model's `procTracked` also uses.  It is the Python expression
`next((m.start(g) for _, g in tracked[i+1:] if g and m.start(g) >= pos), m.end())` read literally
(`nextStartSpec`: first element of the list of starts of the later non-zero participating group
references at or after `pos`, else the end of the match). -/
theorem nextStart_spec (m : M) (pos : Nat) (segs : List Seg) : nextStart m pos segs = nextStartSpec m pos segs :=
  L.nextStart_spec m pos segs

/-- "a module with no applicable rule returns its input": string and both maps are the initial ones. -/
theorem no_applicable_rule_maps (eng : Eng) (f : Nat) (ops : List Op) (s : Str) (st : List Step) (res : Result)
    (h : apply eng f ops s = .ok (st, res)) (hn : opsNoMatchAt eng s ops = true) :
    res = ⟨s, initStart s, initEnd s⟩ := by
  unfold apply at h
  cases ht : traceSteps eng f ops s with
  | error e => rw [ht] at h; cases h
  | ok p =>
    obtain ⟨st', o⟩ := p
    rw [ht] at h
    obtain ⟨ho, hz⟩ := Verif.C13.L.no_applicable_rule eng f ops s st' o ht hn
    have hm := L.mergeSteps_zero s st' (fun x hx => ⟨(hz x hx).2.1, (hz x hx).2.2⟩)
    simp only [hm, Except.ok.injEq, Prod.mk.injEq] at h
    rw [← h.2, ho]

/-! ## the hypotheses are satisfiable; the independent provenance on a witness -/

/-- the provenance semantics on the F16 witness `!wo(n't)<TAB>\1` on "I won't go": `I`, blank from 0, 1;
`n't` from 4..6; ` go` from 7..9 — what `provenance_rule` then says the maps must report. -/
example : provRule "I won't go".toList [.grp 1] [] [⟨2, 7, [some (4, 7)]⟩] 0
    = [some 0, some 1, some 4, some 5, some 6, some 7, some 8, some 9] := by decide

/-- `ValidMatches` holds of that match list (hypothesis of `provenance_rule`). -/
example : ValidMatches "I won't go".toList [⟨2, 7, [some (4, 7)]⟩] := by
  simp [ValidMatches, ValidFrom, M.Valid, groupInside]

/-- `EngValid` is met by an engine that answers a match (hypothesis of `provenance_program`, `token_text`). -/
example : EngValid (fun id s => if id = 0 ∧ s = "ab".toList then [⟨0, 1, []⟩] else []) := by
  intro id s
  by_cases h : id = 0 ∧ s = "ab".toList
  · obtain ⟨h1, h2⟩ := h
    subst h1 h2
    simp [ValidMatches, ValidFrom, M.Valid]
  · show ValidFrom s.length 0 (if id = 0 ∧ s = "ab".toList then [⟨0, 1, []⟩] else [])
    rw [if_neg h]
    trivial

/-! ## concrete instances: the repaired defects as regressions (F16, F23, F17) -/

/-- F16 witness `!wo(n't)<TAB>\1` on "I won't go": `n't` is attributed to 4..7 and `go` to 8..10. -/
example : (applyRule "I won't go".toList [⟨2, 7, [some (4, 7)]⟩] [.grp 1] []).sm = [0, 0, 0, 2, 2, 2, 2, 2, 2, 2]
    ∧ (applyRule "I won't go".toList [⟨2, 7, [some (4, 7)]⟩] [.grp 1] []).em = [0, 0, 0, 2, 2, 2, 2, 2, 2, 1] := by
  decide

/-- F23 witness `!(b)?(a)<TAB>-\1\2` on "za c": the unmatched group is skipped, `c` stays at 3..4. -/
example : (applyRule "za c".toList [⟨1, 2, [none, some (1, 2)]⟩] [.lit ['-'], .grp 1, .grp 2] []).sm = [0, 0, 0, -1, -1, -1, -1] := by
  decide

/-- F17 witness: a form with a quote and a backslash survives. -/
example : latParse (latStr [⟨0, 0, 1, .charspan 0 3, [1], "a\"\\".toList, none, 0⟩])
    = some [⟨0, 0, 1, .charspan 0 3, [1], "a\"\\".toList, none, 0⟩] :=
  yy_roundtrip _ (by intro t ht; simp at ht; subst ht; exact ⟨by simp, by simp [L.LnkOk]⟩)

/-- The two hypotheses of `yy_roundtrip` are necessary: a token whose span is `<-1:-1>` is written without
its span (`Lnk.__bool__` is False for it) and comes back with the default Lnk; a token with an empty `paths`
list is written with path `1` (`self.paths or [1]`) and comes back with `[1]`. -/
theorem yy_roundtrip_hypotheses_necessary :
    latParse (latStr [⟨0, 0, 1, .charspan (-1) (-1), [1], "a".toList, none, 0⟩])
      = some [⟨0, 0, 1, .unspec, [1], "a".toList, none, 0⟩]
    ∧ latParse (latStr [⟨0, 0, 1, .charspan 0 1, [], "a".toList, none, 0⟩])
      = some [⟨0, 0, 1, .charspan 0 1, [1], "a".toList, none, 0⟩] := by decide

/-- Outside the round trip, observed on the real parser: `_yy_re` accepts a paths text with two integers
glued together (`3 10-2`), `d['paths'].strip().split()` then yields the piece `10-2` and `int()` raises
ValueError — the model says so (`MT.valueError`), and what `YYToken.__str__` writes never has that shape
(`L.pathsGlued_join`, used by `yy_roundtrip`). -/
theorem yy_glued_paths_valueError :
    matchTok "(1, 0, 1, 3 10-2, \"a\", 0, \"null\")".toList = .valueError
    ∧ latParse "(1, 0, 1, 3 10-2, \"a\", 0, \"null\")".toList = none
    ∧ latParse "(1, 0, 1, 3 10 -2, \"a\", 0, \"null\")".toList
        = some [⟨1, 0, 1, .unspec, [3, 10, -2], "a".toList, none, 0⟩] := by decide

/-- Pins: the constants of the anchored code that the models of C14 hand-code (harness/c14.py
`tables()`), read from the live modules on every run.
* `c14MergemapConsts`, `c14TraceConsts` (`startmap[0] = 1`, `endmap[-1] = -1`), `c14ZeromapConsts`
  — `mergeAux`, `initStart`, `initEnd` (C14/Model.lean);
* `c14InsertPartConsts`, `c14ProcessMatchConsts`, `c14RuleApplyConsts` — `insertPart`, `procTracked`,
  `applyRule` (C13/Model.lean), whose offset arithmetic `provenance_rule` is about;
* `c14DefaultTokenizer`, `c14TokenizeConsts` (`sm[pos + 1]`), `c14TokenizeResultConsts` (`end = i + 1`),
  the tokenize defaults — `mkTok`, `tokLoop`, `latticeOf` and the harness's separator patterns;
* `c14YyRe` — `matchTok` and its scanners `scanInt`, `scanComma`, `scanString`, `scanPaths`, `scanLnk`,
  `scanStrings`; `c14FromStringConsts` — `_qstrip` = `s[1:-1]`, group names;
* `c14EscapeConsts`, `c14UnescapeConsts`, `c14UnescapeDotall` — `escapeDQ`, `unescapeDQ` (Common/Codec.lean);
* `c14YYStrConsts`, `c14LatticeStrConsts`, `c14YYTokenNewDefaults` — `YTok.str`, `latStr`, the default
  `paths = (1,)`, `ipos = 0`, `lrules = ("null",)` in `latticeOf`;
* `c14LnkStrConsts`, `c14LnkBoolConsts` — `Lnk.str`, `Lnk.truthy` (`<-1:-1>` is falsy). -/
theorem c14_pins :
    Verif.Tables.c14DefaultTokenizer = "[ \\t]+"
    ∧ Verif.Tables.c14YyRe = "\\(\\s*(?P<id>-?\\d+)\\s*,\\s*(?P<start>-?\\d+)\\s*,\\s*(?P<end>-?\\d+)\\s*,\\s*(?:<(?P<lnkfrom>-?\\d+):(?P<lnkto>-?\\d+)>\\s*,\\s*)?(?P<paths>(?:-?\\d+\\s*)+)\\s*,\\s*(?P<form>\"[^\"\\\\]*(?:\\\\.[^\"\\\\]*)*\")(?:\\s*(?P<surface>\"[^\"\\\\]*(?:\\\\.[^\"\\\\]*)*\"))?\\s*,\\s*(?P<ipos>-?\\d+)\\s*,\\s*(?P<lrules>(?:\"[^\"\\\\]*(?:\\\\.[^\"\\\\]*)*\"\\s*)+)(?:\\s*,\\s*(?P<pos>(?:\"[^\"\\\\]*(?:\\\\.[^\"\\\\]*)*\"\\s+-?(0|[1-9]\\d*)(\\.\\d+[eE][-+]?|\\.|[eE][-+]?)\\d+\\s*)+))?\\s*\\)"
    ∧ Verif.Tables.c14YyReFlags = 32
    ∧ Verif.Tables.c14UnescapeDotall = true
    ∧ Verif.Tables.c14MergemapConsts = ["i", "0"]
    ∧ Verif.Tables.c14ZeromapConsts = ["i", "0", "2"]
    ∧ Verif.Tables.c14TraceConsts = ["1", "0", "-1"]
    ∧ Verif.Tables.c14InsertPartConsts = ["1", "-1"]
    ∧ Verif.Tables.c14ProcessMatchConsts = ["i", "0", "False", "-1", "1", "True", "1", "", ""]
    ∧ Verif.Tables.c14RuleApplyConsts = ["False", "0", "i", "True", "1", ""]
    ∧ Verif.Tables.c14TokenizeConsts = ["0", "1"]
    ∧ Verif.Tables.c14TokenizeResultConsts = ["1", "0", "2", "(id,start,end,lnk,form)"]
    ∧ Verif.Tables.c14TokenizeMethodConsts = ["False", "(pattern)"]
    ∧ Verif.Tables.c14EscapeConsts = ["\\", "\\\\", "\"", "\\\""]
    ∧ Verif.Tables.c14UnescapeConsts = ["\\\\(.)", "\\1", "(flags)"]
    ∧ Verif.Tables.c14YYStrConsts = [" ", "1", "\"", "\" \"", "\"{}\"", "\" ", ".4f", "({})", ", "]
    ∧ Verif.Tables.c14FromStringConsts = ["1", "-1", "lnkfrom", "lnkto", "pos", "2", "1", "id", "start", "end", "paths", "form", "surface", "ipos", "lrules"]
    ∧ Verif.Tables.c14LatticeStrConsts = [" "]
    ∧ Verif.Tables.c14LnkStrConsts = ["", "<{}:{}>", "0", "1", "<{}#{}>", "<@{}>", "<{}>", " "]
    ∧ Verif.Tables.c14LnkBoolConsts = ["False", "(-1,-1)", "True"]
    ∧ Verif.Tables.c14TokenizeDefaults = ["None", "None"]
    ∧ Verif.Tables.c14TokenizeResultDefaults = ["'[ \\\\t]+'"]
    ∧ Verif.Tables.c14YYTokenNewDefaults = ["None", "(1,)", "None", "None", "0", "('null',)", "()"] := by
  refine ⟨?_, ?_, ?_, ?_, ?_, ?_, ?_, ?_, ?_, ?_, ?_, ?_, ?_, ?_, ?_, ?_, ?_, ?_, ?_, ?_, ?_, ?_, ?_⟩ <;> rfl

end Verif.C14
